(* C06 -- proofs about the exact model of Spread.v (all inputs, no size bound). *)
From Coq Require Import List ZArith QArith Qround Qabs Bool Lia Lqa Permutation.
Import ListNotations.
Require Import CV.Orient CV.FreeSpace CV.FreeSpaceProofs CV.Spread.

(* ================================================================== lists *)

Lemma set_nth_length : forall (A : Type) n (v : A) l, length (set_nth n v l) = length l.
Proof. intros A n v l. revert n. induction l as [|h t IH]; intros [|n]; simpl; auto. Qed.

Lemma nth_error_set_nth_eq : forall (A : Type) n (v : A) l,
  (n < length l)%nat -> nth_error (set_nth n v l) n = Some v.
Proof.
  intros A n v l. revert n. induction l as [|h t IH]; intros [|n] H; simpl in *; try lia; auto.
  apply IH. lia.
Qed.

Lemma nth_error_set_nth_neq : forall (A : Type) n m (v : A) l,
  n <> m -> nth_error (set_nth n v l) m = nth_error l m.
Proof.
  intros A n m v l. revert n m. induction l as [|h t IH]; intros [|n] [|m] H; simpl; auto; try congruence.
Qed.

Lemma NoDup_app_inv : forall (A : Type) (l1 l2 : list A),
  NoDup (l1 ++ l2) -> NoDup l1 /\ NoDup l2 /\ (forall x, In x l1 -> ~ In x l2).
Proof.
  intros A l1 l2. induction l1 as [|a l1 IH]; simpl; intros H.
  - repeat split; auto. constructor.
  - inversion H as [|? ? Hn Hd]; subst. destruct (IH Hd) as (H1 & H2 & H3).
    repeat split; auto.
    + constructor; auto. intro Hi. apply Hn. apply in_or_app. auto.
    + intros x [Hx|Hx] Hi.
      * subst. apply Hn. apply in_or_app. auto.
      * exact (H3 x Hx Hi).
Qed.

Lemma map_snd_combine : forall (A B : Type) (l1 : list A) (l2 : list B),
  length l1 = length l2 -> map snd (combine l1 l2) = l2.
Proof.
  intros A B l1. induction l1 as [|a l1 IH]; intros [|b l2] H; simpl in *; try discriminate; auto.
  f_equal. apply IH. lia.
Qed.

(* ================================================================== sums over Q *)

Definition qs (l : list Q) : Q := fold_right Qplus 0 l.

Lemma fold_left_Qplus : forall l a, fold_left Qplus l a == a + qs l.
Proof.
  induction l as [|x l IH]; intros a; simpl.
  - ring.
  - rewrite IH. ring.
Qed.

Lemma qsum_qs : forall l, qsum l == qs l.
Proof. intros l. unfold qsum. rewrite fold_left_Qplus. ring. Qed.

Lemma qs_nonneg : forall l, (forall x, In x l -> 0 <= x) -> 0 <= qs l.
Proof.
  induction l as [|x l IH]; simpl; intros H.
  - lra.
  - assert (0 <= x) by (apply H; auto). assert (0 <= qs l) by (apply IH; intros; apply H; auto). lra.
Qed.

Lemma qs_ge_member : forall l x, (forall y, In y l -> 0 <= y) -> In x l -> x <= qs l.
Proof.
  induction l as [|a l IH]; simpl; intros x H Hin; [contradiction|].
  assert (0 <= a) by (apply H; auto).
  assert (0 <= qs l) by (apply qs_nonneg; intros; apply H; auto).
  destruct Hin as [->|Hin].
  - lra.
  - assert (x <= qs l) by (apply IH; auto). lra.
Qed.

Lemma qs_perm : forall l l', Permutation l l' -> qs l == qs l'.
Proof.
  intros l l' P. induction P; simpl.
  - reflexivity.
  - rewrite IHP. reflexivity.
  - ring.
  - rewrite IHP1. exact IHP2.
Qed.

(* ================================================================== the sort is a permutation *)

Lemma insert_key_perm : forall k l, Permutation (insert_key k l) (k :: l).
Proof.
  intros k l. induction l as [|h t IH]; simpl.
  - apply Permutation_refl.
  - destruct (key_ltb h k).
    + eapply perm_trans; [apply perm_skip; exact IH|]. apply perm_swap.
    + apply Permutation_refl.
Qed.

Lemma sort_keys_perm : forall l, Permutation (sort_keys l) l.
Proof.
  induction l as [|k l IH]; simpl.
  - constructor.
  - eapply perm_trans; [apply insert_key_perm|]. apply perm_skip. exact IH.
Qed.

Lemma map_getq_seq : forall l, map (getq l) (seq 0 (length l)) = l.
Proof.
  induction l as [|a l IH]; simpl; auto.
  f_equal. rewrite <- seq_shift, map_map.
  rewrite <- IH at 2. apply map_ext. intros i. reflexivity.
Qed.

Lemma mk_order_snd : forall targets, map snd (mk_order targets) = seq 0 (length targets).
Proof. intros. unfold mk_order. apply map_snd_combine. rewrite seq_length. reflexivity. Qed.

(* ================================================================== spreadCells *)

Definition dof (demands : list Q) (k : key) : Q := getq demands (snd k).

Section SpreadCells.
Variables (demands : list Q) (inv lo hi : Q).
Hypothesis Hdem : forall d, In d demands -> 0 <= d.
Hypothesis Hinv : 0 < inv.
Hypothesis Hlohi : lo <= hi.

Local Notation dof := (dof demands).

Lemma dof_nonneg : forall k, 0 <= dof k.
Proof.
  intros k. unfold dof, getq. destruct (nth_error demands (snd k)) eqn:E.
  - apply Hdem. eapply nth_error_In; eauto.
  - lra.
Qed.

Lemma spread_fold_inv : forall order dem coords,
  NoDup (map snd order) -> 0 <= dem -> dem + qs (map dof order) * inv <= 1 ->
  let r := fold_left (spread_step demands inv lo hi) order (dem, coords) in
  length (snd r) = length coords /\
  (forall c, ~ In c (map snd order) -> nth_error (snd r) c = nth_error coords c) /\
  (forall c d, In c (map snd order) -> nth_error demands c = Some d -> 0 < d -> (c < length coords)%nat ->
     exists v, nth_error (snd r) c = Some v /\ (lo <= v /\ v <= hi) /\ (lo < hi -> lo < v /\ v < hi)).
Proof.
  induction order as [|k order IH]; intros dem coords Hnd Hd0 Hsum; simpl.
  - repeat split; auto. intros c d [].
  - simpl in Hnd. inversion Hnd as [|? ? Hnotin Hnd']; subst.
    change (qs (map dof (k :: order))) with (dof k + qs (map dof order)) in Hsum.
    assert (Hrest : 0 <= qs (map dof order)) by (apply qs_nonneg; intros x Hx; apply in_map_iff in Hx; destruct Hx as (k' & <- & _); apply dof_nonneg).
    assert (HS : 0 <= qs (map dof order) * inv) by (apply Qmult_le_0_compat; lra).
    assert (Hk : 0 <= dof k) by apply dof_nonneg.
    assert (Hkinv : 0 <= dof k * inv) by (apply Qmult_le_0_compat; lra).
    assert (Hsum' : dem + dof k * inv + qs (map dof order) * inv <= 1).
    { assert (E : (dof k + qs (map dof order)) * inv == dof k * inv + qs (map dof order) * inv) by ring. lra. }
    cbv zeta.
    destruct (nth_error demands (snd k)) as [cur|] eqn:Ecur.
    + assert (Edk : dof k = cur) by (unfold SpreadProofs.dof, getq; rewrite Ecur; reflexivity).
      rewrite Edk in Hk, Hkinv, Hsum'.
      destruct (Qle_bool cur 0) eqn:Ele.
      * (* skipped *)
        replace (spread_step demands inv lo hi (dem, coords) k) with (dem, coords)
          by (unfold spread_step; simpl; rewrite Ecur, Ele; reflexivity).
        assert (Hle : dem + qs (map dof order) * inv <= 1) by lra.
        destruct (IH dem coords Hnd' Hd0 Hle) as (I1 & I2 & I3).
        split; [exact I1|]. split.
        -- intros c Hc. apply I2. intro; apply Hc; right; auto.
        -- intros c d [Hc|Hc] Hd Hpos Hlen.
           ++ subst c. rewrite Ecur in Hd. inversion Hd; subst. apply Qle_bool_iff in Ele. lra.
           ++ apply (I3 c d Hc Hd Hpos Hlen).
      * assert (Hcur : 0 < cur).
        { destruct (Qlt_le_dec 0 cur) as [H|H]; auto. apply Qle_bool_iff in H. congruence. }
        assert (Hp : 0 < cur * inv) by (apply Qmult_lt_0_compat; auto).
        replace (spread_step demands inv lo hi (dem, coords) k)
          with (dem + (1 # 2) * cur * inv + (1 # 2) * cur * inv,
                set_nth (snd k) ((dem + (1 # 2) * cur * inv) * hi + (1 - (dem + (1 # 2) * cur * inv)) * lo) coords)
          by (unfold spread_step; simpl; rewrite Ecur, Ele; reflexivity).
        set (p := cur * inv) in *.
        set (dem1 := dem + (1 # 2) * cur * inv).
        assert (E1 : dem1 == dem + (1 # 2) * p) by (unfold dem1, p; ring).
        assert (Hd1 : 0 <= dem1 + (1 # 2) * cur * inv).
        { assert (E : dem1 + (1 # 2) * cur * inv == dem + p) by (unfold dem1, p; ring). lra. }
        assert (Hle : dem1 + (1 # 2) * cur * inv + qs (map dof order) * inv <= 1).
        { assert (E : dem1 + (1 # 2) * cur * inv == dem + p) by (unfold dem1, p; ring). lra. }
        destruct (IH (dem1 + (1 # 2) * cur * inv) (set_nth (snd k) (dem1 * hi + (1 - dem1) * lo) coords) Hnd' Hd1 Hle)
          as (I1 & I2 & I3).
        rewrite set_nth_length in I1.
        split; [exact I1|]. split.
        -- intros c Hc. rewrite I2 by (intro; apply Hc; right; auto).
           apply nth_error_set_nth_neq. intro; apply Hc; left; auto.
        -- intros c d [Hc|Hc] Hd Hpos Hlen.
           ++ subst c. rewrite (I2 (snd k) Hnotin). rewrite nth_error_set_nth_eq by exact Hlen.
              eexists; split; [reflexivity|].
              assert (H0 : 0 < dem1) by lra.
              assert (H1 : dem1 < 1) by lra.
              assert (Ea : dem1 * hi + (1 - dem1) * lo == lo + dem1 * (hi - lo)) by ring.
              assert (Eb : dem1 * hi + (1 - dem1) * lo == hi - (1 - dem1) * (hi - lo)) by ring.
              split.
              ** assert (0 <= dem1 * (hi - lo)) by (apply Qmult_le_0_compat; lra).
                 assert (0 <= (1 - dem1) * (hi - lo)) by (apply Qmult_le_0_compat; lra).
                 lra.
              ** intros Hlt.
                 assert (0 < dem1 * (hi - lo)) by (apply Qmult_lt_0_compat; lra).
                 assert (0 < (1 - dem1) * (hi - lo)) by (apply Qmult_lt_0_compat; lra).
                 lra.
           ++ apply (I3 c d Hc Hd Hpos). rewrite set_nth_length. exact Hlen.
    + (* index out of range: nothing happens *)
      assert (Edk : dof k = 0) by (unfold SpreadProofs.dof, getq; rewrite Ecur; reflexivity).
      rewrite Edk in Hk, Hkinv, Hsum'.
      replace (spread_step demands inv lo hi (dem, coords) k) with (dem, coords)
        by (unfold spread_step; simpl; rewrite Ecur; reflexivity).
      assert (Hle : dem + qs (map dof order) * inv <= 1) by lra.
      destruct (IH dem coords Hnd' Hd0 Hle) as (I1 & I2 & I3).
      split; [exact I1|]. split.
      * intros c Hc. apply I2. intro; apply Hc; right; auto.
      * intros c d [Hc|Hc] Hd Hpos Hlen.
        -- subst c. congruence.
        -- apply (I3 c d Hc Hd Hpos Hlen).
Qed.
End SpreadCells.

Lemma spread_cells_length : forall targets demands lo hi,
  length (spread_cells targets demands lo hi) = length targets.
Proof.
  intros targets demands lo hi. unfold spread_cells.
  set (inv := / qsum demands).
  assert (G : forall order st, length (snd (fold_left (spread_step demands inv lo hi) order st)) = length (snd st)).
  { induction order as [|k order IH]; intros st; simpl; auto.
    rewrite IH. unfold spread_step. destruct (nth_error demands (snd k)); auto.
    destruct (Qle_bool q 0); auto. simpl. apply set_nth_length. }
  rewrite G. simpl. apply repeat_length.
Qed.

(* [F] spreadCells: a cell of positive demand in a bin whose demands are all non-negative gets a
   coordinate within [lo,hi], and strictly inside when lo < hi *)
Lemma spread_cells_inside : forall targets demands lo hi c d,
  length demands = length targets ->
  (forall x, In x demands -> 0 <= x) ->
  lo <= hi ->
  nth_error demands c = Some d -> 0 < d ->
  exists v, nth_error (spread_cells targets demands lo hi) c = Some v /\
            (lo <= v /\ v <= hi) /\ (lo < hi -> lo < v /\ v < hi).
Proof.
  intros targets demands lo hi c d Hlen Hnn Hlohi Hc Hd.
  unfold spread_cells.
  set (order := sort_keys (mk_order targets)).
  assert (Hperm : Permutation order (mk_order targets)) by apply sort_keys_perm.
  assert (Hsnd : Permutation (map snd order) (seq 0 (length targets))).
  { rewrite <- mk_order_snd. apply Permutation_map. exact Hperm. }
  assert (Hnd : NoDup (map snd order)).
  { eapply Permutation_NoDup; [apply Permutation_sym; exact Hsnd|]. apply seq_NoDup. }
  assert (Htot : d <= qs demands) by (apply qs_ge_member; auto; eapply nth_error_In; eauto).
  assert (Hsum : qs (map (dof demands) order) == qs demands).
  { rewrite (qs_perm _ _ (Permutation_map (dof demands) Hperm)).
    assert (E : map (dof demands) (mk_order targets) = demands).
    { transitivity (map (getq demands) (map snd (mk_order targets))).
      - rewrite map_map. reflexivity.
      - rewrite mk_order_snd, <- Hlen. apply map_getq_seq. }
    rewrite E. reflexivity. }
  assert (Hq : qsum demands == qs demands) by apply qsum_qs.
  assert (Hpos : 0 < qsum demands) by lra.
  assert (Hinv : 0 < / qsum demands) by (apply Qinv_lt_0_compat; exact Hpos).
  assert (Hone : 0 + qs (map (dof demands) order) * / qsum demands <= 1).
  { rewrite Hsum, <- Hq. rewrite Qmult_inv_r by lra. lra. }
  destruct (spread_fold_inv demands (/ qsum demands) lo hi Hnn Hinv Hlohi order 0 (repeat 0 (length targets)) Hnd
              (Qle_refl 0) Hone) as (_ & _ & I3).
  assert (Hclt : (c < length targets)%nat).
  { rewrite <- Hlen. apply nth_error_Some. congruence. }
  apply (I3 c d); auto.
  - eapply Permutation_in; [apply Permutation_sym; exact Hsnd|]. apply in_seq. lia.
  - rewrite repeat_length. exact Hclt.
Qed.

(* ================================================================== spreadCoordX / spreadCoordY *)

Lemma write_back_length : forall cells coords ret, length (write_back cells coords ret) = length ret.
Proof.
  induction cells as [|c cs IH]; intros [|v vs] ret; simpl; auto.
  rewrite IH. apply set_nth_length.
Qed.

Lemma write_back_notin : forall cells coords ret c,
  ~ In c cells -> nth_error (write_back cells coords ret) c = nth_error ret c.
Proof.
  induction cells as [|c0 cs IH]; intros [|v vs] ret c H; simpl; auto.
  rewrite IH by (intro; apply H; right; auto).
  apply nth_error_set_nth_neq. intro; apply H; left; auto.
Qed.

Lemma write_back_in : forall cells coords ret k c,
  NoDup cells -> length coords = length cells -> nth_error cells k = Some c -> (c < length ret)%nat ->
  nth_error (write_back cells coords ret) c = nth_error coords k.
Proof.
  induction cells as [|c0 cs IH]; intros coords ret k c Hnd Hlen Hk Hc.
  - destruct k; discriminate.
  - destruct coords as [|v vs]; [discriminate|]. inversion Hnd as [|? ? Hn Hnd']; subst.
    destruct k as [|k]; simpl in *.
    + inversion Hk; subst. rewrite write_back_notin by exact Hn. apply nth_error_set_nth_eq. exact Hc.
    + apply IH; auto. rewrite set_nth_length. exact Hc.
Qed.

Lemma spread_bin_length : forall target demand ret b, length (spread_bin target demand ret b) = length ret.
Proof. intros. unfold spread_bin. apply write_back_length. Qed.

Lemma spread_bin_notin : forall target demand ret b c,
  ~ In c (b_cells b) -> nth_error (spread_bin target demand ret b) c = nth_error ret c.
Proof. intros. unfold spread_bin. apply write_back_notin. assumption. Qed.

Lemma spread_bin_in : forall target demand ret b c,
  NoDup (b_cells b) -> In c (b_cells b) -> (c < length ret)%nat ->
  0 < getq demand c -> (forall c', In c' (b_cells b) -> 0 <= getq demand c') ->
  (b_lo b <= b_hi b)%Z ->
  exists v, nth_error (spread_bin target demand ret b) c = Some v /\
            (inject_Z (b_lo b) <= v /\ v <= inject_Z (b_hi b)) /\
            ((b_lo b < b_hi b)%Z -> inject_Z (b_lo b) < v /\ v < inject_Z (b_hi b)).
Proof.
  intros target demand ret b c Hnd Hin Hc Hpos Hnn Hlohi.
  destruct (In_nth_error _ _ Hin) as (k & Hk).
  unfold spread_bin.
  rewrite (write_back_in (b_cells b) _ ret k c Hnd) ; auto.
  2:{ rewrite spread_cells_length, map_length. reflexivity. }
  assert (Hq : inject_Z (b_lo b) <= inject_Z (b_hi b)) by (rewrite <- Zle_Qle; exact Hlohi).
  destruct (spread_cells_inside (map (getq target) (b_cells b)) (map (getq demand) (b_cells b))
              (inject_Z (b_lo b)) (inject_Z (b_hi b)) k (getq demand c)) as (v & Hv & Hcl & Hst); auto.
  - rewrite !map_length. reflexivity.
  - intros x Hx. apply in_map_iff in Hx. destruct Hx as (c' & <- & Hc'). apply Hnn. exact Hc'.
  - apply map_nth_error. exact Hk.
  - exists v. split; [exact Hv|]. split; [exact Hcl|].
    intros Hlt. apply Hst. rewrite <- Zlt_Qlt. exact Hlt.
Qed.

Definition in_some_bin (bins : list bin) (c : nat) : Prop := In c (concat (map b_cells bins)).

Lemma spread_bins_length : forall target demand bins ret,
  length (fold_left (spread_bin target demand) bins ret) = length ret.
Proof.
  induction bins as [|b bins IH]; intros ret; simpl; auto.
  rewrite IH. apply spread_bin_length.
Qed.

Lemma spread_bins_notin : forall target demand bins ret c,
  ~ in_some_bin bins c -> nth_error (fold_left (spread_bin target demand) bins ret) c = nth_error ret c.
Proof.
  unfold in_some_bin. induction bins as [|b bins IH]; intros ret c H; simpl in *; auto.
  rewrite IH by (intro; apply H; apply in_or_app; right; auto).
  apply spread_bin_notin. intro; apply H; apply in_or_app; left; auto.
Qed.

Lemma spread_bins_in : forall target demand bins ret b c,
  NoDup (concat (map b_cells bins)) -> In b bins -> In c (b_cells b) -> (c < length ret)%nat ->
  0 < getq demand c -> (forall c', In c' (b_cells b) -> 0 <= getq demand c') ->
  (b_lo b <= b_hi b)%Z ->
  exists v, nth_error (fold_left (spread_bin target demand) bins ret) c = Some v /\
            (inject_Z (b_lo b) <= v /\ v <= inject_Z (b_hi b)) /\
            ((b_lo b < b_hi b)%Z -> inject_Z (b_lo b) < v /\ v < inject_Z (b_hi b)).
Proof.
  induction bins as [|b0 bins IH]; intros ret b c Hnd Hb Hc Hlen Hpos Hnn Hlohi; [destruct Hb|].
  simpl in Hnd. destruct (NoDup_app_inv _ _ _ Hnd) as (Hnd0 & Hndr & Hdis).
  simpl. destruct Hb as [->|Hb].
  - rewrite spread_bins_notin by (apply Hdis; exact Hc).
    apply spread_bin_in; auto.
  - apply IH; auto. rewrite spread_bin_length. exact Hlen.
Qed.

(* ---- clampCoords *)
Lemma clampq_inside : forall lo hi v, lo <= hi -> lo <= clampq lo hi v /\ clampq lo hi v <= hi.
Proof.
  intros lo hi v H. unfold clampq, qmax_std, qmin_std.
  destruct (Qle_bool hi v) eqn:E1.
  - apply Qle_bool_iff in E1. destruct (Qle_bool hi lo) eqn:E2.
    + apply Qle_bool_iff in E2. lra.
    + lra.
  - assert (v < hi). { destruct (Qlt_le_dec v hi); auto. apply Qle_bool_iff in q. congruence. }
    destruct (Qle_bool v lo) eqn:E2.
    + lra.
    + assert (lo < v). { destruct (Qlt_le_dec lo v); auto. apply Qle_bool_iff in q. congruence. } lra.
Qed.

Lemma clampq_id : forall lo hi v, lo <= v -> v <= hi -> clampq lo hi v == v.
Proof.
  intros lo hi v H1 H2. unfold clampq, qmax_std, qmin_std.
  destruct (Qle_bool hi v) eqn:E1.
  - apply Qle_bool_iff in E1. destruct (Qle_bool hi lo) eqn:E2.
    + apply Qle_bool_iff in E2. lra.
    + lra.
  - destruct (Qle_bool v lo) eqn:E2.
    + apply Qle_bool_iff in E2. lra.
    + reflexivity.
Qed.

(* ================================================================== std::round and the export *)

Lemma round_half_away_close : forall q,
  inject_Z (round_half_away q) <= q + (1 # 2) /\ q - (1 # 2) <= inject_Z (round_half_away q).
Proof.
  intros q. unfold round_half_away. destruct (Qle_bool 0 q).
  - pose proof (Qfloor_le (q + (1 # 2))) as H1. pose proof (Qlt_floor (q + (1 # 2))) as H2.
    rewrite inject_Z_plus in H2. change (inject_Z 1) with 1 in H2. split; lra.
  - pose proof (Qfloor_le (- q + (1 # 2))) as H1. pose proof (Qlt_floor (- q + (1 # 2))) as H2.
    rewrite inject_Z_plus in H2. change (inject_Z 1) with 1 in H2.
    rewrite inject_Z_opp. split; lra.
Qed.

(* [F] |exported lower-left - (centre - size/2)| <= 1/2 *)
Lemma export_coord_close : forall x w,
  inject_Z (export_coord x w) <= (x - (1 # 2) * inject_Z w) + (1 # 2) /\
  (x - (1 # 2) * inject_Z w) - (1 # 2) <= inject_Z (export_coord x w).
Proof. intros. unfold export_coord. apply round_half_away_close. Qed.

(* the centre that the circuit then shows: exported lower-left + size/2 *)
Definition exported_centre (x : Q) (w : Z) : Q := inject_Z (export_coord x w) + (1 # 2) * inject_Z w.

(* [F] a centre strictly inside an interval with integer ends is exposed inside the (closed) interval:
   no slack is needed in exact arithmetic *)
Lemma exported_centre_strict : forall x w lo hi,
  inject_Z lo < x -> x < inject_Z hi ->
  inject_Z lo <= exported_centre x w /\ exported_centre x w <= inject_Z hi.
Proof.
  intros x w lo hi H1 H2. unfold exported_centre.
  destruct (export_coord_close x w) as (A & B). set (r := export_coord x w) in *.
  assert (L : (2 * lo + -1 < 2 * r + w)%Z).
  { rewrite Zlt_Qlt. rewrite !inject_Z_plus, !inject_Z_mult. change (inject_Z 2) with 2. change (inject_Z (-1)) with (-1 # 1). lra. }
  assert (U : (2 * r + w < 2 * hi + 1)%Z).
  { rewrite Zlt_Qlt. rewrite !inject_Z_plus, !inject_Z_mult. change (inject_Z 2) with 2. change (inject_Z 1) with 1. lra. }
  assert (L' : (2 * lo <= 2 * r + w)%Z) by lia.
  assert (U' : (2 * r + w <= 2 * hi)%Z) by lia.
  rewrite Zle_Qle in L', U'. rewrite !inject_Z_plus, !inject_Z_mult in L', U'. change (inject_Z 2) with 2 in L', U'.
  split; lra.
Qed.

(* [F] a centre within a closed interval is exposed at most 1/2 outside (integer rounding of the lower-left) *)
Lemma exported_centre_closed : forall x w lo hi,
  inject_Z lo <= x -> x <= inject_Z hi ->
  inject_Z lo - (1 # 2) <= exported_centre x w /\ exported_centre x w <= inject_Z hi + (1 # 2).
Proof.
  intros x w lo hi H1 H2. unfold exported_centre.
  destruct (export_coord_close x w) as (A & B). split; lra.
Qed.

Lemma blend_placement_nth : forall v1 v2 w i a b,
  length v1 = length v2 -> nth_error v1 i = Some a -> nth_error v2 i = Some b ->
  exists x, nth_error (blend_placement v1 v2 w) i = Some x /\ x == (1 - w) * a + w * b.
Proof.
  intros v1 v2 w i a b Hlen Ha Hb. unfold blend_placement.
  destruct (Qeq_bool w 0) eqn:E0.
  - apply Qeq_bool_iff in E0. exists a. split; auto. rewrite E0. ring.
  - destruct (Qeq_bool w 1) eqn:E1.
    + apply Qeq_bool_iff in E1. exists b. split; auto. rewrite E1. ring.
    + exists ((1 - w) * a + w * b). split; [|reflexivity].
      assert (Hc : nth_error (combine v1 v2) i = Some (a, b)).
      { clear E0 E1. revert v2 i Hlen Ha Hb. induction v1 as [|x v1 IH]; intros [|y v2] [|i] Hlen Ha Hb; simpl in *; try discriminate.
        - inversion Ha; inversion Hb; subst; reflexivity.
        - apply IH; auto. }
      rewrite (map_nth_error _ _ _ Hc). reflexivity.
Qed.

Lemma blend_placement_length : forall v1 v2 w, length v1 = length v2 -> length (blend_placement v1 v2 w) = length v1.
Proof.
  intros v1 v2 w H. unfold blend_placement. destruct (Qeq_bool w 0); auto. destruct (Qeq_bool w 1); auto.
  rewrite map_length, combine_length. lia.
Qed.

Lemma export_placement_nth : forall cells xs ys i c x y,
  nth_error cells i = Some c -> nth_error xs i = Some x -> nth_error ys i = Some y ->
  nth_error (export_placement cells xs ys) i = Some (export_cell c (x, y)).
Proof.
  induction cells as [|c0 cs IH]; intros xs ys i c x y Hc Hx Hy.
  - destruct i; discriminate.
  - destruct xs as [|x0 xs]; [destruct i; discriminate|]. destruct ys as [|y0 ys]; [destruct i; discriminate|].
    destruct i as [|i]; simpl in *.
    + inversion Hc; inversion Hx; inversion Hy; subst. reflexivity.
    + apply IH; auto.
Qed.

(* [F] frame: whatever the vectors, the export keeps the number of cells, never writes orientation, sizes or the
   fixed flag, and leaves fixed cells untouched *)
Lemma export_placement_frame : forall cells xs ys,
  length (export_placement cells xs ys) = length cells /\
  forall i c, nth_error cells i = Some c ->
    exists c', nth_error (export_placement cells xs ys) i = Some c' /\
      g_orient c' = g_orient c /\ g_fixed c' = g_fixed c /\ g_pw c' = g_pw c /\ g_ph c' = g_ph c /\
      (g_fixed c = true -> c' = c).
Proof.
  induction cells as [|c0 cs IH]; intros xs ys.
  - split; [reflexivity|]. intros i c H. destruct i; discriminate.
  - destruct xs as [|x xs]; [|destruct ys as [|y ys]].
    + split; [reflexivity|]. intros i c H. exists c. simpl. repeat split; auto.
    + split; [reflexivity|]. intros i c H. exists c. simpl. repeat split; auto.
    + destruct (IH xs ys) as (L & F). split; [simpl; rewrite L; reflexivity|].
      intros [|i] c H; simpl in *.
      * inversion H; subst. eexists; split; [reflexivity|]. unfold export_cell.
        destruct (g_fixed c) eqn:E; simpl; repeat split; auto; try discriminate.
      * apply F. exact H.
Qed.

(* ================================================================== subdivisions, clipping, bounding boxes *)
Local Open Scope Z_scope.

Definition sub_at (mn mx : Z) (number : nat) (i : nat) : Z :=
  mn + Z.quot (Z.of_nat i * (mx - mn)) (Z.of_nat number).

Lemma subdivisions_nth : forall mn mx n i, (i <= n)%nat ->
  nth_error (subdivisions mn mx n) i = Some (sub_at mn mx n i).
Proof.
  intros mn mx n i H. unfold subdivisions. rewrite nth_error_map.
  rewrite (nth_error_nth' (seq 0 (S n)) 0%nat) by (rewrite seq_length; lia).
  rewrite seq_nth by lia. reflexivity.
Qed.

Lemma subdivisions_nth_inv : forall mn mx n i l,
  nth_error (subdivisions mn mx n) i = Some l -> (i <= n)%nat /\ l = sub_at mn mx n i.
Proof.
  intros mn mx n i l H.
  assert (Hi : (i < length (subdivisions mn mx n))%nat) by (apply nth_error_Some; congruence).
  unfold subdivisions in Hi. rewrite map_length, seq_length in Hi.
  split; [lia|]. rewrite subdivisions_nth in H by lia. congruence.
Qed.

Section Subdiv.
Variables (mn mx : Z) (n : nat).
Hypothesis Hn : (1 <= n)%nat.
Hypothesis Hle : mn <= mx.

Lemma sub_at_0 : sub_at mn mx n 0 = mn.
Proof. unfold sub_at. simpl. rewrite Z.quot_0_l by lia. lia. Qed.

Lemma sub_at_n : sub_at mn mx n n = mx.
Proof. unfold sub_at. rewrite Z.mul_comm, Z.quot_mul by lia. lia. Qed.

Lemma sub_at_mono : forall i j, (i <= j)%nat -> sub_at mn mx n i <= sub_at mn mx n j.
Proof.
  intros i j H. unfold sub_at. apply Zplus_le_compat_l. apply Z.quot_le_mono; [lia|].
  apply Z.mul_le_mono_nonneg_r; lia.
Qed.

Lemma sub_at_range : forall i, (i <= n)%nat -> mn <= sub_at mn mx n i <= mx.
Proof.
  intros i H. split.
  - rewrite <- sub_at_0 at 1. apply sub_at_mono. lia.
  - rewrite <- sub_at_n at 2. apply sub_at_mono. exact H.
Qed.

(* no more bins than units: consecutive limits differ *)
Hypothesis Hfit : Z.of_nat n <= mx - mn.

Lemma sub_at_succ : forall i, sub_at mn mx n i < sub_at mn mx n (S i).
Proof.
  intros i. unfold sub_at.
  set (W := mx - mn) in *. set (N := Z.of_nat n) in *.
  assert (HN : 0 < N) by (unfold N; lia).
  rewrite !Z.quot_div_nonneg; try lia; try (apply Z.mul_nonneg_nonneg; lia).
  assert (E : Z.of_nat (S i) * W = Z.of_nat i * W + W) by lia.
  assert (A : (Z.of_nat i * W + 1 * N) / N <= (Z.of_nat (S i) * W) / N).
  { apply Z.div_le_mono; [lia|]. rewrite E. lia. }
  rewrite Z.div_add in A by lia. lia.
Qed.

Lemma sub_at_strict : forall i j, (i < j)%nat -> sub_at mn mx n i < sub_at mn mx n j.
Proof.
  intros i j H. pose proof (sub_at_succ i). pose proof (sub_at_mono (S i) j). lia.
Qed.
End Subdiv.

Lemma nb_bins_spec : forall len maxSize, 1 <= len -> 1 <= maxSize ->
  (1 <= nb_bins len maxSize)%nat /\ Z.of_nat (nb_bins len maxSize) <= len.
Proof.
  intros len ms H1 H2. unfold nb_bins.
  assert (Q : Z.quot len ms <= len).
  { rewrite Z.quot_div_nonneg by lia. apply Z.div_le_upper_bound; [lia|]. nia. }
  split; lia.
Qed.

(* [F] the limits of updateBinsToSize: first = min, last = max, strictly increasing, all inside *)
Lemma limits_spec : forall mn mx maxSize, mn < mx -> 1 <= maxSize ->
  forall i j l h, (i < j)%nat -> nth_error (limits mn mx maxSize) i = Some l -> nth_error (limits mn mx maxSize) j = Some h ->
  mn <= l /\ l < h /\ h <= mx.
Proof.
  intros mn mx ms Hlt Hms i j l h Hij Hi Hj. unfold limits in *.
  destruct (nb_bins_spec (mx - mn) ms) as (N1 & N2); try lia.
  set (n := nb_bins (mx - mn) ms) in *.
  apply subdivisions_nth_inv in Hi. apply subdivisions_nth_inv in Hj.
  destruct Hi as (Hi & ->). destruct Hj as (Hj & ->).
  pose proof (sub_at_range mn mx n N1 ltac:(lia) i Hi).
  pose proof (sub_at_range mn mx n N1 ltac:(lia) j Hj).
  pose proof (sub_at_strict mn mx n N1 ltac:(lia) N2 i j Hij). lia.
Qed.

(* ---- rectangles *)
Definition rect_in (a b : rect) : Prop :=
  minX b <= minX a /\ maxX a <= maxX b /\ minY b <= minY a /\ maxY a <= maxY b.

Lemma rect_in_trans : forall a b c, rect_in a b -> rect_in b c -> rect_in a c.
Proof. unfold rect_in. intros. lia. Qed.

Lemma fold_bb_contains : forall t r x, (x = r \/ In x t) -> rect_in x (fold_left bb_add t r).
Proof.
  induction t as [|y t IH]; intros r x H; simpl.
  - destruct H as [->|[]]. unfold rect_in. lia.
  - destruct H as [->|[->|H]].
    + eapply rect_in_trans; [|apply IH; left; reflexivity]. unfold rect_in, bb_add; simpl. lia.
    + eapply rect_in_trans; [|apply IH; left; reflexivity]. unfold rect_in, bb_add; simpl. lia.
    + apply IH. right. exact H.
Qed.

Lemma fold_bb_least : forall t r B, rect_in r B -> (forall x, In x t -> rect_in x B) -> rect_in (fold_left bb_add t r) B.
Proof.
  induction t as [|y t IH]; intros r B Hr Ht; simpl; auto.
  apply IH.
  - pose proof (Ht y (or_introl eq_refl)). unfold rect_in, bb_add in *; simpl. lia.
  - intros x Hx. apply Ht. right. exact Hx.
Qed.

Lemma bbox_contains : forall rs x, In x rs -> rect_in x (bbox rs).
Proof. intros [|r t] x H; [destruct H|]. simpl. apply fold_bb_contains. destruct H; auto. Qed.

Lemma bbox_least : forall rs B, rs <> [] -> (forall x, In x rs -> rect_in x B) -> rect_in (bbox rs) B.
Proof.
  intros [|r t] B Hne H; [congruence|]. simpl. apply fold_bb_least.
  - apply H. left. reflexivity.
  - intros x Hx. apply H. right. exact Hx.
Qed.

(* [F] clipping by a non-negative margin: every clipped row is a non-empty part of a row, same y-range *)
Lemma clip_rows_spec : forall margin rows c, 0 <= margin -> In c (clip_rows margin rows) ->
  exists r, In r rows /\ minX r <= minX c /\ minX c < maxX c /\ maxX c <= maxX r /\ minY c = minY r /\ maxY c = maxY r /\
            minX c = minX r + margin /\ maxX c = maxX r - margin.
Proof.
  intros margin rows c Hm H. unfold clip_rows in H. apply in_flat_map in H. destruct H as (r & Hr & Hc).
  unfold clip_row in Hc. destruct (maxX r - minX r <=? 2 * margin) eqn:E; [destruct Hc|].
  apply Z.leb_gt in E. destruct Hc as [<-|[]]. exists r. simpl. repeat split; auto; lia.
Qed.

(* free rows (C15's model of Circuit::computeRows): pieces of the rows, full height, non-empty *)
Lemma free_rows_spec : forall rows extra cells s, In s (compute_rows rows extra cells) ->
  exists r, In r rows /\ minX (rr r) <= minX (rr s) /\ minX (rr s) < maxX (rr s) /\ maxX (rr s) <= maxX (rr r) /\
            minY (rr s) = minY (rr r) /\ maxY (rr s) = maxY (rr r) /\ minY (rr s) < maxY (rr s).
Proof.
  intros rows extra cells s H. unfold compute_rows in H. apply in_flat_map in H. destruct H as (r & Hr & Hs).
  exists r. destruct (freespace_rows_shape r _ s Hs) as (A & B & _ & C & D & E).
  repeat split; auto.
  unfold freespace_rows in Hs. apply in_map_iff in Hs. destruct Hs as (i & _ & Hi).
  unfold freespace_iv in Hi.
  destruct ((minX (rr r) <? maxX (rr r)) && (minY (rr r) <? maxY (rr r)))%bool eqn:Ec; [|destruct Hi].
  apply andb_true_iff in Ec. destruct Ec as (_ & Ec). apply Z.ltb_lt in Ec. lia.
Qed.

(* [F] the placement area of the density grid lies inside the bounding box of the free rows, which lies inside
   the bounding box of the circuit's rows; it is not degenerate *)
Lemma grid_area_inside : forall margin rows cells, 0 <= margin ->
  let free := map rr (compute_rows_circuit rows [] cells) in
  clip_rows margin free <> [] ->
  rect_in (grid_area margin free) (bbox free) /\ rect_in (bbox free) (bbox (map rr rows)) /\
  minX (grid_area margin free) < maxX (grid_area margin free) /\
  minY (grid_area margin free) < maxY (grid_area margin free) /\
  (* the side margin stays free on both sides *)
  minX (bbox free) + margin <= minX (grid_area margin free) /\
  maxX (grid_area margin free) <= maxX (bbox free) - margin.
Proof.
  intros margin rows cells Hm free Hne.
  assert (Hfree : forall s, In s free -> exists r, In r (map rr rows) /\ rect_in s r /\ minX s < maxX s /\ minY s < maxY s).
  { intros s Hs. unfold free in Hs. apply in_map_iff in Hs. destruct Hs as (s' & <- & Hs').
    unfold compute_rows_circuit in Hs'. apply free_rows_spec in Hs'. destruct Hs' as (r & Hr & H).
    exists (rr r). split; [apply in_map; exact Hr|]. unfold rect_in. lia. }
  assert (Hfne : free <> []).
  { intro E. apply Hne. rewrite E. reflexivity. }
  assert (Hclip : forall c, In c (clip_rows margin free) ->
            rect_in c (bbox free) /\ minX c < maxX c /\ minY c < maxY c /\
            minX (bbox free) + margin <= minX c /\ maxX c <= maxX (bbox free) - margin).
  { intros c Hc. destruct (clip_rows_spec margin free c Hm Hc) as (r & Hr & H).
    pose proof (bbox_contains free r Hr) as Hb. destruct (Hfree r Hr) as (_ & _ & _ & Hy).
    unfold rect_in in *. lia. }
  split; [|split].
  - unfold grid_area. apply bbox_least; auto. intros x Hx. apply Hclip. exact Hx.
  - apply bbox_least; auto. intros s Hs. destruct (Hfree s Hs) as (r & Hr & Hin & _).
    eapply rect_in_trans; [exact Hin|]. apply bbox_contains. exact Hr.
  - assert (Hex : exists c0, In c0 (clip_rows margin free)).
    { destruct (clip_rows margin free) as [|c0 t]; [congruence|]. exists c0. left. reflexivity. }
    destruct Hex as (c0 & Hc0).
    destruct (Hclip c0 Hc0) as (_ & Hx & Hy & _).
    assert (Hin : rect_in c0 (grid_area margin free)).
    { unfold grid_area. apply bbox_contains. exact Hc0. }
    assert (Hall : rect_in (grid_area margin free) {| minX := minX (bbox free) + margin; maxX := maxX (bbox free) - margin;
                                                       minY := minY (bbox free); maxY := maxY (bbox free) |}).
    { unfold grid_area. apply bbox_least; [exact Hne|]. intros x Hx'. destruct (Hclip x Hx') as (A & _ & _ & B & C).
      unfold rect_in in *. simpl. lia. }
    unfold rect_in in Hin, Hall. simpl in Hall. lia.
Qed.
Local Close Scope Z_scope.

(* ================================================================== statements used by Properties_C06.v *)

Lemma nth_error_repeat0 : forall (n c : nat), (c < n)%nat -> nth_error (repeat 0%Q n) c = Some 0%Q.
Proof. induction n as [|n IH]; intros [|c] H; simpl; try lia; auto. apply IH. lia. Qed.

(* the conclusion shared by the spreading theorems: coordinate v of a cell w.r.t. the interval of its bin *)
Definition within_bin (b : bin) (v : Q) : Prop :=
  (inject_Z (b_lo b) <= v /\ v <= inject_Z (b_hi b)) /\
  ((b_lo b < b_hi b)%Z -> inject_Z (b_lo b) < v /\ v < inject_Z (b_hi b)).

(* hypotheses on the bins: C16's partition invariant (every cell in at most one bin, once) restricted to what is
   needed here, demands of the cells of the bin non-negative (they are positive in the C++: only cells of positive
   demand are ever put in a bin), limits ordered *)
Definition bin_ok (bins : list bin) (demand : list Q) (b : bin) : Prop :=
  NoDup (concat (map b_cells bins)) /\ In b bins /\
  (forall c', In c' (b_cells b) -> 0 <= getq demand c') /\ (b_lo b <= b_hi b)%Z.

(* repaired spreadCoordX/Y *)
Lemma spread_coord_inside : forall alo ahi bins target demand b c,
  bin_ok bins demand b -> In c (b_cells b) -> (c < length target)%nat -> 0 < getq demand c ->
  exists v, nth_error (spread_coord alo ahi bins target demand) c = Some v /\ within_bin b v.
Proof.
  intros alo ahi bins target demand b c (Hnd & Hb & Hnn & Hlohi) Hc Hlen Hpos. unfold spread_coord, within_bin.
  apply spread_bins_in; auto. rewrite map_length. exact Hlen.
Qed.

(* unrepaired spreadCoordX/Y: same statement for the cells that are in a bin *)
Lemma spread_coord_orig_inside : forall n bins target demand b c,
  bin_ok bins demand b -> In c (b_cells b) -> (c < n)%nat -> 0 < getq demand c ->
  exists v, nth_error (spread_coord_orig n bins target demand) c = Some v /\ within_bin b v.
Proof.
  intros n bins target demand b c (Hnd & Hb & Hnn & Hlohi) Hc Hlen Hpos. unfold spread_coord_orig, within_bin.
  apply spread_bins_in; auto. rewrite repeat_length. exact Hlen.
Qed.

(* repaired: a cell that is in no bin is reported at its target clamped into [alo, ahi] *)
Lemma spread_coord_no_bin : forall alo ahi bins target demand c t,
  ~ in_some_bin bins c -> nth_error target c = Some t ->
  nth_error (spread_coord alo ahi bins target demand) c = Some (clampq (inject_Z alo) (inject_Z ahi) t).
Proof.
  intros alo ahi bins target demand c t Hno Ht. unfold spread_coord.
  rewrite spread_bins_notin by exact Hno. apply map_nth_error. exact Ht.
Qed.

(* unrepaired: a cell that is in no bin is reported at 0.0 whatever the area and its target (F15) *)
Lemma spread_coord_orig_no_bin : forall n bins target demand c,
  ~ in_some_bin bins c -> (c < n)%nat -> nth_error (spread_coord_orig n bins target demand) c = Some 0.
Proof.
  intros n bins target demand c Hno Hc. unfold spread_coord_orig.
  rewrite spread_bins_notin by exact Hno. apply nth_error_repeat0. exact Hc.
Qed.

(* F15 at model level: rows in [100,200], one cell of positive demand in the only bin, one movable cell of zero
   demand in no bin with target 150: the unrepaired function reports it at 0, outside [100,200] *)
Lemma spread_coord_orig_refuted :
  exists n bins target demand c (alo ahi : Z),
    (c < n)%nat /\ ~ in_some_bin bins c /\ getq demand c == 0 /\
    (forall b, In b bins -> b_lo b = alo /\ b_hi b = ahi) /\
    inject_Z alo <= getq target c /\ getq target c <= inject_Z ahi /\
    ~ (inject_Z alo <= getq (spread_coord_orig n bins target demand) c).
Proof.
  exists 2%nat, [ {| b_lo := 100; b_hi := 200; b_cells := [0%nat] |} ], [120; 150], [4; 0], 1%nat, 100%Z, 200%Z.
  split; [lia|]. split.
  { unfold in_some_bin. simpl. intros [H|[]]. discriminate. }
  split; [reflexivity|]. split.
  { intros b [<-|[]]. split; reflexivity. }
  split; [vm_compute; discriminate|]. split; [vm_compute; discriminate|].
  vm_compute. intro H. apply H. reflexivity.
Qed.

(* [F] upper-bound coordinate -> exposed centre, one direction.  lims are the limits of the density grid in
   that direction (strictly increasing inside [L,H]); the bin of the cell goes from lims[i] to lims[j], i<j
   (binLimitX(x) = grid_.binLimitX(xLimits_[level][x]) at every level of the hierarchy) *)
Definition limits_ok (L H : Z) (lims : list Z) : Prop :=
  forall i j l h, (i < j)%nat -> nth_error lims i = Some l -> nth_error lims j = Some h -> (L <= l /\ l < h /\ h <= H)%Z.

Lemma ub_centre_1d : forall L H lims alo ahi bins target demand b c i j w,
  limits_ok L H lims ->
  (i < j)%nat -> nth_error lims i = Some (b_lo b) -> nth_error lims j = Some (b_hi b) ->
  NoDup (concat (map b_cells bins)) -> In b bins -> (forall c', In c' (b_cells b) -> 0 <= getq demand c') ->
  In c (b_cells b) -> (c < length target)%nat -> 0 < getq demand c ->
  exists v, nth_error (spread_coord alo ahi bins target demand) c = Some v /\
            inject_Z L <= exported_centre v w /\ exported_centre v w <= inject_Z H.
Proof.
  intros L H lims alo ahi bins target demand b c i j w Hl Hij Hi Hj Hnd Hb Hnn Hc Hlen Hpos.
  destruct (Hl i j _ _ Hij Hi Hj) as (A & B & C).
  destruct (spread_coord_inside alo ahi bins target demand b c) as (v & Hv & _ & Hst); auto.
  { repeat split; auto. lia. }
  exists v. split; [exact Hv|]. destruct (Hst B) as (S1 & S2).
  destruct (exported_centre_strict v w (b_lo b) (b_hi b) S1 S2) as (E1 & E2).
  rewrite Zle_Qle in A, C. split; lra.
Qed.

(* [F] cells without a bin (no area), repaired code: exposed within 1/2 of the placement area [alo,ahi] *)
Lemma no_bin_centre_1d : forall alo ahi bins target demand c t w,
  (alo <= ahi)%Z -> ~ in_some_bin bins c -> nth_error target c = Some t ->
  exists v, nth_error (spread_coord alo ahi bins target demand) c = Some v /\
            inject_Z alo - (1 # 2) <= exported_centre v w /\ exported_centre v w <= inject_Z ahi + (1 # 2).
Proof.
  intros alo ahi bins target demand c t w Hle Hno Ht.
  exists (clampq (inject_Z alo) (inject_Z ahi) t). split; [apply spread_coord_no_bin; auto|].
  assert (Hq : inject_Z alo <= inject_Z ahi) by (rewrite <- Zle_Qle; exact Hle).
  destruct (clampq_inside (inject_Z alo) (inject_Z ahi) t Hq) as (A & B).
  apply exported_centre_closed; auto.
Qed.

(* the two cases of the placement area of DensityGrid::fromIspdCircuit (repair of finding F28) *)
Lemma circuit_grid_area_nonempty : forall margin rows cells,
  clip_rows margin (map rr (compute_rows_circuit rows [] cells)) <> [] ->
  circuit_grid_area margin rows cells = grid_area margin (map rr (compute_rows_circuit rows [] cells)).
Proof.
  intros margin rows cells Hne. unfold circuit_grid_area. cbv zeta.
  destruct (clip_rows margin (map rr (compute_rows_circuit rows [] cells))) eqn:E; [congruence|reflexivity].
Qed.

Lemma circuit_grid_area_empty : forall margin rows cells,
  clip_rows margin (map rr (compute_rows_circuit rows [] cells)) = [] ->
  circuit_grid_area margin rows cells = bbox (map rr rows).
Proof.
  intros margin rows cells E. unfold circuit_grid_area. cbv zeta. rewrite E. reflexivity.
Qed.

(* [F] DensityGrid::fromIspdCircuit: both limit lists are strictly increasing and lie inside the placement
   area, which lies inside the bounding box of the rows *)
Lemma grid_of_circuit_limits : forall margin maxSize rows cells lx ly,
  (0 <= margin)%Z -> (1 <= maxSize)%Z ->
  clip_rows margin (map rr (compute_rows_circuit rows [] cells)) <> [] ->
  grid_of_circuit margin maxSize rows cells = (lx, ly) ->
  let a := grid_area margin (map rr (compute_rows_circuit rows [] cells)) in
  let R := bbox (map rr rows) in
  rect_in a R /\
  (minX R + margin <= minX a /\ maxX a <= maxX R - margin)%Z /\
  limits_ok (minX a) (maxX a) lx /\ limits_ok (minY a) (maxY a) ly /\
  limits_ok (minX R) (maxX R) lx /\ limits_ok (minY R) (maxY R) ly.
Proof.
  intros margin maxSize rows cells lx ly Hm Hs Hne Hg a R.
  destruct (grid_area_inside margin rows cells Hm Hne) as (A & B & Cx & Cy & Mx1 & Mx2).
  fold a in A, Cx, Cy, Mx1, Mx2. fold R in B.
  unfold grid_of_circuit in Hg. rewrite (circuit_grid_area_nonempty margin rows cells Hne) in Hg.
  fold a in Hg. inversion Hg; subst lx ly; clear Hg.
  assert (AR : rect_in a R) by (eapply rect_in_trans; eauto).
  assert (Lx : limits_ok (minX a) (maxX a) (limits (minX a) (maxX a) maxSize)).
  { intros i j l h Hij Hi Hj. eapply limits_spec; eauto. }
  assert (Ly : limits_ok (minY a) (maxY a) (limits (minY a) (maxY a) maxSize)).
  { intros i j l h Hij Hi Hj. eapply limits_spec; eauto. }
  split; [exact AR|]. split.
  { unfold rect_in in B. lia. }
  split; [exact Lx|]. split; [exact Ly|]. split.
  - intros i j l h Hij Hi Hj. destruct (Lx i j l h Hij Hi Hj). unfold rect_in in AR. lia.
  - intros i j l h Hij Hi Hj. destruct (Ly i j l h Hij Hi Hj). unfold rect_in in AR. lia.
Qed.

(* a circuit with a row of positive width and height: the bounding box of its rows is not degenerate *)
Definition has_proper_row (rows : list row) : Prop :=
  exists r, In r rows /\ (minX (rr r) < maxX (rr r))%Z /\ (minY (rr r) < maxY (rr r))%Z.

Lemma rows_bbox_nondegenerate : forall rows, has_proper_row rows ->
  (minX (bbox (map rr rows)) < maxX (bbox (map rr rows)))%Z /\ (minY (bbox (map rr rows)) < maxY (bbox (map rr rows)))%Z.
Proof.
  intros rows (r & Hr & Hx & Hy).
  pose proof (bbox_contains (map rr rows) (rr r) (in_map rr rows r Hr)) as Hin. unfold rect_in in Hin. lia.
Qed.

(* [F] finding F28, repaired code: when no free row survives the clipping (every row covered by fixed obstructions,
   or only pieces not wider than twice the margin left) the grid is the grid of the bounding box of the circuit's
   rows; its limits are strictly increasing inside that box in each direction in which the box has extent *)
Lemma grid_of_circuit_without_free_space : forall margin maxSize rows cells,
  (1 <= maxSize)%Z ->
  clip_rows margin (map rr (compute_rows_circuit rows [] cells)) = [] ->
  let R := bbox (map rr rows) in
  circuit_grid_area margin rows cells = R /\
  grid_of_circuit margin maxSize rows cells = (limits (minX R) (maxX R) maxSize, limits (minY R) (maxY R) maxSize) /\
  ((minX R < maxX R)%Z -> limits_ok (minX R) (maxX R) (fst (grid_of_circuit margin maxSize rows cells))) /\
  ((minY R < maxY R)%Z -> limits_ok (minY R) (maxY R) (snd (grid_of_circuit margin maxSize rows cells))).
Proof.
  intros margin maxSize rows cells Hs E R.
  pose proof (circuit_grid_area_empty margin rows cells E) as HA. fold R in HA.
  assert (HG : grid_of_circuit margin maxSize rows cells =
               (limits (minX R) (maxX R) maxSize, limits (minY R) (maxY R) maxSize)).
  { unfold grid_of_circuit. rewrite HA. reflexivity. }
  split; [exact HA|]. split; [exact HG|]. rewrite HG. cbn [fst snd]. split.
  - intros Hx i j l h Hij Hi Hj. eapply limits_spec; eauto.
  - intros Hy i j l h Hij Hi Hj. eapply limits_spec; eauto.
Qed.

(* [F] every circuit with a row of positive width and height, ANY fixed cells and obstructions (no hypothesis on
   what the clipping leaves): the placement area of the density grid lies inside the bounding box of the rows
   and all bin limits lie inside that box, strictly increasing *)
Lemma grid_of_circuit_limits_all : forall margin maxSize rows cells lx ly,
  (0 <= margin)%Z -> (1 <= maxSize)%Z -> has_proper_row rows ->
  grid_of_circuit margin maxSize rows cells = (lx, ly) ->
  let a := circuit_grid_area margin rows cells in
  let R := bbox (map rr rows) in
  rect_in a R /\ (minX a < maxX a)%Z /\ (minY a < maxY a)%Z /\
  limits_ok (minX a) (maxX a) lx /\ limits_ok (minY a) (maxY a) ly /\
  limits_ok (minX R) (maxX R) lx /\ limits_ok (minY R) (maxY R) ly.
Proof.
  intros margin maxSize rows cells lx ly Hm Hs Hrow Hg a R.
  destruct (clip_rows margin (map rr (compute_rows_circuit rows [] cells)) ) as [|c0 t] eqn:E.
  - destruct (rows_bbox_nondegenerate rows Hrow) as (Nx & Ny). fold R in Nx, Ny.
    destruct (grid_of_circuit_without_free_space margin maxSize rows cells Hs E) as (HA & HG & Lx & Ly).
    fold R in HA, HG, Lx, Ly. fold a in HA. rewrite Hg in Lx, Ly. cbn [fst snd] in Lx, Ly.
    rewrite HA. split; [unfold rect_in; lia|]. split; [exact Nx|]. split; [exact Ny|]. auto.
  - assert (Hne : clip_rows margin (map rr (compute_rows_circuit rows [] cells)) <> []) by (rewrite E; discriminate).
    destruct (grid_of_circuit_limits margin maxSize rows cells lx ly Hm Hs Hne Hg) as (AR & _ & Lx & Ly & LRx & LRy).
    destruct (grid_area_inside margin rows cells Hm Hne) as (_ & _ & Cx & Cy & _).
    unfold a. rewrite (circuit_grid_area_nonempty margin rows cells Hne). auto 10.
Qed.

(* [F] the returned placement is the blend up to the rounding of std::round: for every movable cell,
   |x - ((1-w) lb + w ub - width/2)| <= 1/2, same in y *)
Lemma export_is_blend : forall w cells lbx ubx lby uby i c ax bx ay by_,
  length lbx = length ubx -> length lby = length uby ->
  nth_error cells i = Some c -> g_fixed c = false ->
  nth_error lbx i = Some ax -> nth_error ubx i = Some bx -> nth_error lby i = Some ay -> nth_error uby i = Some by_ ->
  exists c', nth_error (export_global w cells lbx ubx lby uby) i = Some c' /\
    Qabs (inject_Z (g_x c') - (((1 - w) * ax + w * bx) - (1 # 2) * inject_Z (g_pw c))) <= 1 # 2 /\
    Qabs (inject_Z (g_y c') - (((1 - w) * ay + w * by_) - (1 # 2) * inject_Z (g_ph c))) <= 1 # 2.
Proof.
  intros w cells lbx ubx lby uby i c ax bx ay by_ Hlx Hly Hc Hf Hax Hbx Hay Hby.
  destruct (blend_placement_nth lbx ubx w i ax bx Hlx Hax Hbx) as (x & Hx & Ex).
  destruct (blend_placement_nth lby uby w i ay by_ Hly Hay Hby) as (y & Hy & Ey).
  unfold export_global. rewrite (export_placement_nth _ _ _ i c x y Hc Hx Hy).
  eexists; split; [reflexivity|]. unfold export_cell. rewrite Hf. cbn [g_x g_y fst snd].
  destruct (export_coord_close x (g_pw c)) as (A1 & A2).
  destruct (export_coord_close y (g_ph c)) as (B1 & B2).
  split; apply (proj2 (Qabs_Qle_condition _ _)); split; lra.
Qed.

(* [F] the global export never writes orientation, sizes, the fixed flag, or any field of a fixed cell *)
Lemma export_global_frame : forall w cells lbx ubx lby uby,
  length (export_global w cells lbx ubx lby uby) = length cells /\
  forall i c, nth_error cells i = Some c ->
    exists c', nth_error (export_global w cells lbx ubx lby uby) i = Some c' /\
      g_orient c' = g_orient c /\ g_fixed c' = g_fixed c /\ g_pw c' = g_pw c /\ g_ph c' = g_ph c /\
      (g_fixed c = true -> c' = c).
Proof. intros. unfold export_global. apply export_placement_frame. Qed.
