(* Extraction for the correspondence runs of the review-gap model extensions (checks/gaps2_tie.py):
   RowLegalizer histories with clear() / lastAvailablePos() (ReviewGaps2C12Model.v).
   ExtrOcamlBasic only, no Extract Constant. *)
From Coq Require Import Extraction ExtrOcamlBasic ZArith List.
Require Import CV.RowLeg CV.ReviewGaps2C12Model.
Extraction Language OCaml.
Extraction "model_gaps2.ml"
  RowLeg.rl_init RowLeg.placement ReviewGaps2C12Model.run_statec ReviewGaps2C12Model.outputsc.
