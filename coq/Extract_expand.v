(* Extraction of the C18 models (family `expand`) to OCaml for the correspondence runs.
   ExtrOcamlBasic only: bool/option/list/prod/unit/sumbool map to OCaml's; Z,
   positive, nat, Q stay the extracted Coq datatypes.  No Extract Constant. *)
From Coq Require Import Extraction ExtrOcamlBasic ZArith QArith List.
Require Import CV.Orient CV.FreeSpace CV.Expand.
Extraction Language OCaml.
Extraction "model_expand.ml"
  Expand.row_placement_area Expand.movable_area Expand.expand_to_density_br Expand.expand_by_factor_br
  Expand.compute_expansion Expand.expanded_area Qred.
