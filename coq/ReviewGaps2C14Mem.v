(* Review gap (C14 memory clause): the machine-level versions of ReviewGaps2C14MemModel.v never read or write
   outside a vector, and compute what the default-valued model Transp1d.v computes.  So the `nth`/`zn`
   defaults of mk_sorter / convert / flush are never used on inputs accepted by check(). *)
From Coq Require Import List ZArith Lia Bool Arith.
Import ListNotations.
Require Import CV.Transp1d CV.Transp1dProofs CV.ReviewGaps2C14MemModel.
Local Open Scope Z_scope.

(* ------------------------------------------------------------------ list helpers *)
Lemma nth_error_mid {A} (pre : list A) x post : nth_error (pre ++ x :: post) (length pre) = Some x.
Proof. rewrite nth_error_app2 by lia. rewrite Nat.sub_diag. reflexivity. Qed.

Lemma upd_mid {A} (pre : list A) x y post : upd (pre ++ x :: post) (length pre) y = Some (pre ++ y :: post).
Proof. induction pre as [|a pre IH]; cbn [app length upd]; [reflexivity|]. rewrite IH. reflexivity. Qed.

Lemma app_cons_assoc {A} (pre : list A) x post : pre ++ x :: post = (pre ++ [x]) ++ post.
Proof. rewrite <- app_assoc. reflexivity. Qed.

(* ------------------------------------------------------------------ pos_pairs *)
Lemma pairs_loop_spec : forall pos amt pre_p pre_a,
  length pre_p = length pre_a -> length amt = length pos ->
  pairs_loop (pre_p ++ pos) (pre_a ++ amt) (seq (length pre_p) (length pos))
  = Some (pos_pairs pos amt (length pre_p)).
Proof.
  induction pos as [|p pos IH]; intros [|a amt] pre_p pre_a Hpre Hlen; cbn [length] in Hlen; try lia;
    cbn [length seq pairs_loop pos_pairs]; [reflexivity|].
  rewrite Hpre at 1. rewrite nth_error_mid, nth_error_mid.
  rewrite (app_cons_assoc pre_p), (app_cons_assoc pre_a).
  replace (S (length pre_p)) with (length (pre_p ++ [p])) by (rewrite app_length; cbn; lia).
  rewrite IH by (rewrite ?app_length; cbn [length]; lia).
  rewrite app_length. cbn [length]. replace (length pre_p + 1)%nat with (S (length pre_p)) by lia.
  destruct (0 <? a); reflexivity.
Qed.

Theorem pos_pairs_m_spec pos amt : length amt = length pos -> pos_pairs_m pos amt = Some (pos_pairs pos amt 0).
Proof. intros H. exact (pairs_loop_spec pos amt [] [] eq_refl H). Qed.

(* converse: a size mismatch that makes the C++ read s[i] past the end is reported *)
Theorem pos_pairs_m_short pos amt : (length amt < length pos)%nat -> pos_pairs_m pos amt = None.
Proof.
  unfold pos_pairs_m. intros H.
  assert (G : forall n k, (k <= length amt)%nat -> (length amt < k + n)%nat -> pairs_loop pos amt (seq k n) = None).
  { induction n as [|n IH]; intros k Hk Hn; [lia|]. cbn [seq pairs_loop].
    destruct (nth_error amt k) as [a|] eqn:E; [|reflexivity].
    assert (k < length amt)%nat by (apply nth_error_Some; congruence).
    rewrite (IH (S k)) by lia.
    destruct (0 <? a); [destruct (nth_error pos k)|]; reflexivity. }
  apply G; lia.
Qed.

(* ------------------------------------------------------------------ convert *)
Lemma gather_m_spec l : forall order, (forall i, In i order -> (i < length l)%nat) ->
  gather_m l order = Some (map (zn l) order).
Proof.
  induction order as [|i r IH]; intros H; cbn [gather_m map]; [reflexivity|].
  rewrite (nth_error_zn l i) by (apply H; left; reflexivity).
  rewrite IH by (intros k Hk; apply H; right; exact Hk). reflexivity.
Qed.

Theorem convert_m_spec pb : checked pb ->
  convert_m (mk_sorter pb) pb = Some (convert (mk_sorter pb) pb).
Proof.
  intros [Ls Ld _ _ _]. unfold nb_sources, nb_sinks in *.
  destruct (order_spec (pb_u pb) (pb_s pb) Ls) as [_ Hs].
  destruct (order_spec (pb_v pb) (pb_d pb) Ld) as [_ Hd].
  unfold convert_m, convert. cbn [mk_sorter srcOrder snkOrder].
  rewrite (gather_m_spec (pb_u pb)) by (intros i Hi; apply Hs in Hi; lia).
  rewrite (gather_m_spec (pb_s pb)) by (intros i Hi; apply Hs in Hi; lia).
  rewrite (gather_m_spec (pb_v pb)) by (intros i Hi; apply Hd in Hi; lia).
  rewrite (gather_m_spec (pb_d pb)) by (intros i Hi; apply Hd in Hi; lia).
  reflexivity.
Qed.

(* ------------------------------------------------------------------ totalDemand / flushPositions *)
Lemma total_loop_spec : forall d pre acc,
  total_loop (pre ++ d) (seq (length pre) (length d)) acc = Some (acc + total d).
Proof.
  induction d as [|x d IH]; intros pre acc; cbn [length seq total_loop]; [f_equal; cbn; lia|].
  rewrite nth_error_mid, (app_cons_assoc pre).
  replace (S (length pre)) with (length (pre ++ [x])) by (rewrite app_length; cbn; lia).
  rewrite IH, total_cons. f_equal. lia.
Qed.

Lemma flush_head mx p : match flush mx p with [] => mx | y :: _ => y end <= mx.
Proof. induction p as [|x r IH]; cbn [flush]; lia. Qed.

(* the descending loop: when the indices of `pre` remain, the vector is pre ++ (flushed suffix) and the
   running maximum is the head of the flushed suffix (mx when the suffix is empty) *)
Lemma flush_loop_spec mx : forall pre suffix,
  flush_loop (rev (seq 0 (length pre))) (hd mx (flush mx suffix)) (pre ++ flush mx suffix)
  = Some (flush mx (pre ++ suffix)).
Proof.
  induction pre as [|x pre IH] using rev_ind; intros suffix; [reflexivity|].
  rewrite app_length. cbn [length]. rewrite Nat.add_1_r, seq_S, rev_unit. cbn [Nat.add flush_loop].
  rewrite <- !app_assoc. cbn [app]. rewrite nth_error_mid, upd_mid.
  change (Z.min x (hd mx (flush mx suffix)) :: flush mx suffix) with (flush mx (x :: suffix)).
  change (Z.min x (hd mx (flush mx suffix))) with (hd mx (flush mx (x :: suffix))).
  apply IH.
Qed.

Theorem flush_m_spec P p : wf_sprob P -> (length p <= n_src P)%nat ->
  flush_m P p = Some (flush (zn (sD P) (n_snk P) - Sx P (length p)) p).
Proof.
  intros W Hp. unfold flush_m.
  pose proof (total_loop_spec (sd P) [] 0) as T. cbn [app length] in T.
  unfold n_snk. rewrite <- (w_ld _ W), T.
  rewrite (nth_error_zn (sS P) (length p)) by (rewrite (sS_length _ W); lia).
  fold (Sx P (length p)). rewrite (w_D _ W), psums_last.
  pose proof (flush_loop_spec (0 + total (sd P) - Sx P (length p)) p []) as F.
  cbn [flush hd] in F. rewrite !app_nil_r in F. exact F.
Qed.

(* ------------------------------------------------------------------ idle sinks (F11 repair) *)
Lemma nth_error_nth_pair (l : list (Z * nat)) k : (k < length l)%nat -> nth_error l k = Some (nth k l (0, O)).
Proof. intros H. apply nth_error_nth'. exact H. Qed.

(* snkSort[k-1], snkSort[k], snkSort[k'].second are all inside snkSort, `--k` never underflows; the value
   is that of Transp1d.idle_sink_of *)
Lemma idle_pick_m_spec snkSort ui si : snkSort <> [] -> ~ 0 < si ->
  idle_pick_m snkSort ui = Some (idle_sink_of snkSort ui si).
Proof.
  intros Hne Hs. unfold idle_pick_m, idle_sink_of.
  destruct (Z.ltb_spec 0 si); [lia|]. cbn [orb].
  destruct (Nat.eqb_spec (length snkSort) 0) as [E|E]; [destruct snkSort; [congruence|discriminate]|].
  pose proof (lower_bound_pairs_le snkSort ui) as Hk.
  set (k := lower_bound_pairs snkSort ui) in *.
  destruct (Nat.eqb_spec k (length snkSort)) as [Ek|Ek]; cbn [orb].
  - destruct k as [|k1]; [lia|]. rewrite nth_error_nth_pair by lia.
    replace (S k1 - 1)%nat with k1 by lia. reflexivity.
  - destruct (Nat.ltb_spec 0 k) as [Hpos|Hpos]; cbn [andb].
    + rewrite (nth_error_nth_pair snkSort (k - 1)) by lia. rewrite (nth_error_nth_pair snkSort k) by lia.
      destruct (ui - fst (nth (k - 1) snkSort (0, O)) <=? fst (nth k snkSort (0, O)) - ui);
        rewrite nth_error_nth_pair by lia; reflexivity.
    + rewrite nth_error_nth_pair by lia. reflexivity.
Qed.

Lemma idle_loop_spec snkSort : forall us ss_ pre_u pre_s done,
  length pre_u = length pre_s -> length done = length pre_u -> length ss_ = length us ->
  idle_loop snkSort (pre_u ++ us) (pre_s ++ ss_) (seq (length pre_u) (length us)) (done ++ repeat O (length us))
  = Some (done ++ idle_sinks snkSort us ss_).
Proof.
  induction us as [|u us IH]; intros [|s ss_] pre_u pre_s done Hp Hd Hl; cbn [length] in Hl; try lia;
    cbn [length seq idle_loop idle_sinks repeat]; [reflexivity|].
  rewrite Hp at 1. rewrite nth_error_mid.
  assert (Step : idle_loop snkSort (pre_u ++ u :: us) (pre_s ++ s :: ss_) (seq (S (length pre_u)) (length us))
                   (done ++ idle_sink_of snkSort u s :: repeat O (length us))
                 = Some (done ++ idle_sink_of snkSort u s :: idle_sinks snkSort us ss_)).
  { rewrite (app_cons_assoc pre_u), (app_cons_assoc pre_s), (app_cons_assoc done).
    replace (S (length pre_u)) with (length (pre_u ++ [u])) by (rewrite app_length; cbn; lia).
    rewrite IH by (rewrite ?app_length; cbn [length]; lia). rewrite <- app_assoc. reflexivity. }
  destruct ((0 <? s) || Nat.eqb (length snkSort) 0) eqn:C.
  - assert (E0 : idle_sink_of snkSort u s = O) by (unfold idle_sink_of; rewrite C; reflexivity).
    rewrite E0 in Step |- *. exact Step.
  - apply orb_false_iff in C. destruct C as [C1 C2].
    rewrite nth_error_mid.
    rewrite (idle_pick_m_spec snkSort u s).
    + rewrite <- Hd at 1. rewrite upd_mid. exact Step.
    + intros ->. discriminate.
    + apply Z.ltb_ge in C1. lia.
Qed.

Theorem mk_sorter_m_spec pb : checked pb -> mk_sorter_m pb = Some (mk_sorter pb).
Proof.
  intros [Ls Ld _ _ _]. unfold nb_sources, nb_sinks in *. unfold mk_sorter_m, mk_sorter.
  rewrite (pos_pairs_m_spec _ _ Ls), (pos_pairs_m_spec _ _ Ld).
  pose proof (idle_loop_spec (sort_pairs (pos_pairs (pb_v pb) (pb_d pb) 0)) (pb_u pb) (pb_s pb) [] [] []
                eq_refl eq_refl Ls) as I.
  cbn [app length] in I. rewrite I. reflexivity.
Qed.

(* ------------------------------------------------------------------ the composed statement *)
(* On every input accepted by check(): the sorter constructor, convert and flushPositions (at the state
   run() reaches) make no access outside a vector, and the default-valued model computes the same values. *)
Theorem no_default_read pb : check pb = None ->
  let so := mk_sorter pb in let P := convert so pb in
  mk_sorter_m pb = Some so /\ convert_m so pb = Some P /\
  (forall s, push_all P (seq 0 (n_src P)) init_st = Some s ->
     flush_m P (pp s) = Some (flush (zn (sD P) (n_snk P) - Sx P (length (pp s))) (pp s)) /\
     run P = flush_m P (pp s)).
Proof.
  intros Hc so P. pose proof (check_none pb Hc) as Ck.
  split; [exact (mk_sorter_m_spec pb Ck)|]. split; [exact (convert_m_spec pb Ck)|].
  intros s Hs. pose proof (convert_wf pb Ck) as W. fold so in W. fold P in W.
  assert (Hlen : length (pp s) = n_src P).
  { assert (R : run P = Some (flush (zn (sD P) (n_snk P) - Sx P (length (pp s))) (pp s)))
      by (unfold run; rewrite Hs; reflexivity).
    destruct (run_geom P _ W R) as [L _]. rewrite flush_length in L. exact L. }
  assert (F : flush_m P (pp s) = Some (flush (zn (sD P) (n_snk P) - Sx P (length (pp s))) (pp s)))
    by (apply flush_m_spec; [exact W|lia]).
  split; [exact F|]. unfold run. rewrite Hs, F. reflexivity.
Qed.
