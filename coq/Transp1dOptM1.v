(* C14 optimality, part M1: a staircase (north-west corner) plan on sorted positions has a 1-Lipschitz
   Kantorovich potential phi that is tight on every used pair:  phi(u_i) - phi(v_j) = |u_i - v_j|.
   Hence (LpCert) it is a cheapest plan among all plans with the same supplies and the same sink loads. *)
From Coq Require Import List ZArith Lia Bool Arith.
Import ListNotations.
Require Import CV.LpCert.
Local Open Scope Z_scope.

(* sum of f over the k integers a, a+1, ..., a+k-1 *)
Fixpoint psum (f : Z -> Z) (a : Z) (k : nat) : Z :=
  match k with O => 0 | S k' => f a + psum f (a + 1) k' end.

Lemma psum_app f : forall k1 k2 a, psum f a (k1 + k2) = psum f a k1 + psum f (a + Z.of_nat k1) k2.
Proof.
  induction k1 as [|k1 IH]; intros k2 a; cbn [psum Nat.add].
  - replace (a + Z.of_nat 0) with a by lia. lia.
  - rewrite IH. replace (a + 1 + Z.of_nat k1) with (a + Z.of_nat (S k1)) by lia. lia.
Qed.

Lemma psum_bound f : (forall t, -1 <= f t <= 1) -> forall k a, - Z.of_nat k <= psum f a k <= Z.of_nat k.
Proof. intros H. induction k as [|k IH]; intros a; cbn [psum]; [lia|]. specialize (IH (a + 1)). specialize (H a). lia. Qed.

Lemma psum_const f cst : forall k a, (forall t, a <= t < a + Z.of_nat k -> f t = cst) -> psum f a k = cst * Z.of_nat k.
Proof.
  induction k as [|k IH]; intros a H; cbn [psum]; [lia|].
  rewrite (H a) by lia. rewrite IH by (intros t Ht; apply H; lia). lia.
Qed.

Definition phi_of (f : Z -> Z) (t : Z) : Z :=
  if 0 <=? t then psum f 0 (Z.to_nat t) else - psum f t (Z.to_nat (- t)).

Lemma phi_diff f a b : a <= b -> phi_of f b - phi_of f a = psum f a (Z.to_nat (b - a)).
Proof.
  intros Hab. unfold phi_of. destruct (Z.leb_spec 0 a) as [Ha|Ha]; destruct (Z.leb_spec 0 b) as [Hb|Hb]; try lia.
  - replace (Z.to_nat b) with (Z.to_nat a + Z.to_nat (b - a))%nat by lia. rewrite psum_app.
    replace (0 + Z.of_nat (Z.to_nat a)) with a by lia. lia.
  - assert (E : psum f a (Z.to_nat (b - a)) = psum f a (Z.to_nat (- a)) + psum f 0 (Z.to_nat b)).
    { replace (Z.to_nat (b - a)) with (Z.to_nat (- a) + Z.to_nat b)%nat by lia. rewrite psum_app.
      replace (a + Z.of_nat (Z.to_nat (- a))) with 0 by lia. reflexivity. }
    lia.
  - replace (Z.to_nat (- a)) with (Z.to_nat (b - a) + Z.to_nat (- b))%nat by lia. rewrite psum_app.
    replace (a + Z.of_nat (Z.to_nat (b - a))) with b by lia. lia.
Qed.

Lemma phi_lip f : (forall t, -1 <= f t <= 1) -> forall a b, phi_of f a - phi_of f b <= Z.abs (a - b).
Proof.
  intros H a b. destruct (Z.le_gt_cases a b) as [Hab|Hab].
  - pose proof (phi_diff f a b Hab) as E. pose proof (psum_bound f H (Z.to_nat (b - a)) a). lia.
  - pose proof (phi_diff f b a ltac:(lia)) as E. pose proof (psum_bound f H (Z.to_nat (a - b)) b). lia.
Qed.

Section Stair.
Variables (n m : nat) (u v S T : nat -> Z).
Hypothesis Hu : forall i k, (i <= k)%nat -> (k < n)%nat -> u i <= u k.
Hypothesis Hv : forall j k, (j <= k)%nat -> (k < m)%nat -> v j <= v k.
Hypothesis HS : forall i k, (i <= k)%nat -> (k <= n)%nat -> S i <= S k.
Hypothesis HT : forall j k, (j <= k)%nat -> (k <= m)%nat -> T j <= T k.

(* overlap of source interval [S_i, S_{i+1}) and sink interval [T_j, T_{j+1}) *)
Definition nw (i j : nat) : Z := Z.max 0 (Z.min (S (i + 1)%nat) (T (j + 1)%nat) - Z.max (S i) (T j)).

Definition used_across (t : Z) : bool :=
  existsb (fun i => existsb (fun j => (0 <? nw i j) && (u i <=? t) && (t <? v j)) (seq 0 m)) (seq 0 n).
Definition sg (t : Z) : Z := if used_across t then -1 else 1.

Lemma sg_range t : -1 <= sg t <= 1.
Proof. unfold sg. destruct (used_across t); lia. Qed.

Lemma sg_neg t i j : (i < n)%nat -> (j < m)%nat -> 0 < nw i j -> u i <= t < v j -> sg t = -1.
Proof.
  intros Hi Hj Hp Ht. unfold sg.
  assert (E : used_across t = true); [|rewrite E; reflexivity].
  unfold used_across. apply existsb_exists. exists i. split; [apply in_seq; lia|].
  apply existsb_exists. exists j. split; [apply in_seq; lia|].
  apply andb_true_intro. split; [apply andb_true_intro; split|]; [apply Z.ltb_lt|apply Z.leb_le|apply Z.ltb_lt]; lia.
Qed.

Lemma sg_pos t i j : (i < n)%nat -> (j < m)%nat -> 0 < nw i j -> v j <= t < u i -> sg t = 1.
Proof.
  intros Hi Hj Hp Ht. unfold sg.
  destruct (used_across t) eqn:E; [|reflexivity]. exfalso.
  unfold used_across in E. apply existsb_exists in E. destruct E as (i' & Hi' & E). apply in_seq in Hi'.
  apply existsb_exists in E. destruct E as (j' & Hj' & E). apply in_seq in Hj'.
  apply andb_prop in E. destruct E as [E E3]. apply andb_prop in E. destruct E as [E1 E2].
  apply Z.ltb_lt in E1, E3. apply Z.leb_le in E2.
  assert (Hii : (i' + 1 <= i)%nat).
  { destruct (Nat.lt_ge_cases i' i) as [H|H]; [lia|]. pose proof (Hu i i' H ltac:(lia)). lia. }
  assert (Hjj : (j + 1 <= j')%nat).
  { destruct (Nat.lt_ge_cases j j') as [H|H]; [lia|]. pose proof (Hv j' j H ltac:(lia)). lia. }
  pose proof (HS (i' + 1)%nat i Hii ltac:(lia)). pose proof (HT (j + 1)%nat j' Hjj ltac:(lia)).
  unfold nw in Hp, E1. lia.
Qed.

Theorem stair_potential :
  (forall a b, phi_of sg a - phi_of sg b <= Z.abs (a - b)) /\
  (forall i j, (i < n)%nat -> (j < m)%nat -> 0 < nw i j -> phi_of sg (u i) - phi_of sg (v j) = Z.abs (u i - v j)).
Proof.
  split; [apply phi_lip, sg_range|].
  intros i j Hi Hj Hp. destruct (Z.le_gt_cases (u i) (v j)) as [Hle|Hgt].
  - pose proof (phi_diff sg (u i) (v j) Hle) as E.
    rewrite (psum_const sg (-1)) in E; [lia|]. intros t Ht. apply (sg_neg t i j); try assumption. lia.
  - pose proof (phi_diff sg (v j) (u i) ltac:(lia)) as E.
    rewrite (psum_const sg 1) in E; [lia|]. intros t Ht. apply (sg_pos t i j); try assumption. lia.
Qed.
End Stair.
