(* C18, floating-point analysis, part 2: Circuit::expandCellsByFactor in binary64/binary32 (model ExpandFloat.v):
   frame and "never narrower" for the COMPUTED widths with factors >= 1.  Proofs only. *)
From Coq Require Import ZArith Reals Psatz Lra Lia List Bool.
From Flocq Require Import Core BinarySingleNaN Plus_error.
Require Import CV.Orient CV.FreeSpace CV.Expand CV.ExpandProofs CV.SpreadFloat CV.SpreadFloatProofs.
Require Import CV.ExpandFloat CV.ExpandFloatBase CV.ExpandFloatProofs.
Import ListNotations.
Local Open Scope R_scope.
Local Existing Instance ExpandFloatBase.prec53.
Local Existing Instance ExpandFloatBase.valid64.

Definition adjusted_f (es : list f32) (maxD d ed : f64) : list f32 :=
  if Bltb maxD ed then map (adjust_f (ratio_f maxD d ed)) es else es.

Lemma adjusted_f_length : forall es maxD d ed, length (adjusted_f es maxD d ed) = length es.
Proof. intros. unfold adjusted_f. destruct (Bltb maxD ed); [apply map_length|reflexivity]. Qed.

(* the ways expand_by_factor_f_br returns *)
Lemma by_factor_f_cases : forall es maxD m c c' r b, expand_by_factor_f_br es maxD m c = Some (c', r, b) ->
  length es = length (e_cells c) /\ Forall (fun e => Bltb e f_0_999 = false) es /\
  ((b <> BrExpand /\ c' = c /\ r = done) \/
   (b = BrExpand /\ movable_area (e_cells c) <> 0%Z /\ row_placement_area_f m c <> 0%Z /\
    let ca := movable_area (e_cells c) in let ra := row_placement_area_f m c in
    let d := density_f ca ra in let ed := density_f (expanded_area_f (e_cells c) es 0) ra in
    Bleb maxD d = false /\ r = ddiv ed d /\
    c' = {| e_rows := e_rows c; e_cells := map apply_factor_f (combine (e_cells c) (adjusted_f es maxD d ed)) |})).
Proof.
  intros es maxD m c c' r b H. unfold expand_by_factor_f_br in H.
  destruct (Nat.eqb (length es) (length (e_cells c))) eqn:L; [|discriminate H]. cbn [negb] in H.
  apply Nat.eqb_eq in L.
  destruct (existsb (fun e => Bltb e f_0_999) es) eqn:X; [discriminate H|].
  split; [exact L|]. split; [apply (existsb_false_Forall _ _ X)|].
  destruct ((movable_area (e_cells c) =? 0)%Z || (row_placement_area_f m c =? 0)%Z) eqn:Z0.
  { inversion H; subst. left. split; [discriminate|]. split; reflexivity. }
  destruct (Bleb maxD _) eqn:D.
  { inversion H; subst. left. split; [discriminate|]. split; reflexivity. }
  inversion H; subst. right. apply orb_false_iff in Z0. destruct Z0 as [Z1 Z2].
  apply Z.eqb_neq in Z1. apply Z.eqb_neq in Z2.
  split; [reflexivity|]. split; [exact Z1|]. split; [exact Z2|]. cbv zeta.
  split; [exact D|]. split; reflexivity.
Qed.

Lemma apply_factor_f_frame : forall cells es, length es = length cells ->
  Forall2 frame cells (map apply_factor_f (combine cells es)).
Proof.
  induction cells as [|k r IH]; intros es L; destruct es as [|e er]; try discriminate L; cbn [combine map].
  - constructor.
  - constructor; [|apply IH; injection L; auto].
    unfold apply_factor_f. destruct (e_fixed k) eqn:Fx.
    + apply frame_refl.
    + split; [reflexivity|]. intro Hf. congruence.
Qed.

(* C18 clause 1 for expandCellsByFactor in floating point *)
Theorem by_factor_f_frame : forall es maxD m c c' r b, expand_by_factor_f_br es maxD m c = Some (c', r, b) ->
  e_rows c' = e_rows c /\ Forall2 frame (e_cells c) (e_cells c') /\ (b <> BrExpand -> c' = c /\ r = done).
Proof.
  intros es maxD m c c' r b H. destruct (by_factor_f_cases _ _ _ _ _ _ _ H) as [L [_ [[Hb [Hc Hr]]|[Hb [_ [_ Hx]]]]]].
  - subst. split; [reflexivity|]. split; [apply Forall2_refl; apply frame_refl|]. intros _. split; reflexivity.
  - cbv zeta in Hx. destruct Hx as [_ [_ Hc]]. subst c'. cbn [e_rows e_cells]. split; [reflexivity|]. split.
    + apply apply_factor_f_frame. rewrite adjusted_f_length. exact L.
    + intro Hn. contradiction.
Qed.

(* ------------------------------------------------------------------ never narrower *)
Definition factor_ok (B : R) (e : f32) : Prop := is_finite e = true /\ 1 <= B2R e <= B.

(* cellWidth * (double)e truncated: not below the width when e >= 1 *)
Lemma scaled_width_f_ge : forall (w : Z) (e : f32), (0 <= w < 2 ^ 31)%Z -> factor_ok (bpow radix2 101) e ->
  (w <= Btrunc (scaled_width_f w e))%Z.
Proof.
  intros w e Hw [Fe He].
  assert (A : (Z.abs w < 2 ^ 53)%Z).
  { apply Z.abs_lt. split; [lia|]. eapply Z.lt_le_trans; [apply Hw|]. apply Z.pow_le_mono_r; lia. }
  destruct (d_of_Z_exact w A) as [W1 W2]. destruct (d_of_f_correct e Fe) as [E1 E2].
  assert (W0 : 0 <= IZR w < bpow radix2 31).
  { split; [apply IZR_le; lia|]. change (bpow radix2 31) with (IZR (2 ^ 31)). apply IZR_lt. lia. }
  pose proof (bpow_gt_0 radix2 101) as P.
  destruct (dmul_correct (d_of_Z w) (d_of_f e) W2 E2) as [M1 _].
  { rewrite W1, E1. rewrite Rabs_pos_eq by nra.
    apply Rle_trans with (bpow radix2 31 * bpow radix2 101); [nra|]. rewrite <- bpow_plus. apply bpow_le. lia. }
  unfold scaled_width_f. rewrite Btrunc_Ztrunc. apply Ztrunc_ge_int. rewrite M1, W1, E1.
  apply rnd64_ge; [apply fmt64_IZR; exact A|nra].
Qed.

Lemma apply_factor_f_wider : forall cells es, length es = length cells ->
  Forall (fun k => (0 <= e_w k < 2 ^ 31)%Z) cells -> Forall (factor_ok (bpow radix2 101)) es ->
  Forall2 (fun k k' => (e_w k <= e_w k')%Z) cells (map apply_factor_f (combine cells es)).
Proof.
  induction cells as [|k r IH]; intros es L Hs He; destruct es as [|e er]; try discriminate L; cbn [combine map].
  - constructor.
  - inversion Hs; subst. inversion He; subst. constructor; [|apply IH; auto].
    unfold apply_factor_f. destruct (e_fixed k); [lia|]. cbn [set_w e_w]. apply scaled_width_f_ge; assumption.
Qed.

(* the density of any long long area over a positive available area is finite *)
Lemma density_f_finite : forall ea ra : Z, (Z.abs ea < 2 ^ 63)%Z -> (0 < ra < 2 ^ 63)%Z ->
  is_finite (density_f ea ra) = true /\ Rabs (B2R (density_f ea ra)) <= bpow radix2 63.
Proof.
  intros ea ra Hea Hra.
  destruct (d_of_Z_pos_range ra Hra) as [Fr [Lr Ur]].
  destruct (d_of_Z_correct ea) as [A1 A2].
  { apply Z.lt_le_incl. eapply Z.lt_le_trans; [exact Hea|]. apply Z.pow_le_mono_r; lia. }
  assert (Ba : Rabs (B2R (d_of_Z ea)) <= bpow radix2 63).
  { rewrite A1. apply rnd64_abs_le; [apply fmt64_bpow; lia|]. rewrite <- abs_IZR.
    change (bpow radix2 63) with (IZR (2 ^ 63)). apply IZR_le. lia. }
  assert (Pi : 0 < / B2R (d_of_Z ra)) by (apply Rinv_0_lt_compat; lra).
  assert (Q : Rabs (B2R (d_of_Z ea) / B2R (d_of_Z ra)) <= bpow radix2 63).
  { unfold Rdiv. rewrite Rabs_mult. rewrite (Rabs_pos_eq (/ _)) by lra.
    assert (I : / B2R (d_of_Z ra) <= 1). { rewrite <- Rinv_1. apply Rinv_le_contravar; lra. }
    pose proof (Rabs_pos (B2R (d_of_Z ea))). nra. }
  destruct (ddiv_correct (d_of_Z ea) (d_of_Z ra) A2) as [D1 D2].
  { lra. }
  { eapply Rle_trans; [exact Q|]. apply bpow_le. lia. }
  unfold density_f. split; [exact D2|]. rewrite D1. apply rnd64_abs_le; [apply fmt64_bpow; lia|exact Q].
Qed.

(* ratio = (maxDensity - density) / (expandedDensity - density) with density < maxDensity < expandedDensity *)
Lemma ratio_f_range : forall maxD d ed : f64, is_finite maxD = true -> is_finite d = true -> is_finite ed = true ->
  0 <= B2R d -> B2R d < B2R maxD -> B2R maxD < B2R ed -> B2R ed <= bpow radix2 63 ->
  is_finite (ratio_f maxD d ed) = true /\ 0 <= B2R (ratio_f maxD d ed) <= 1.
Proof.
  intros maxD d ed Fm Fd Fe Pd L1 L2 Ue.
  pose proof (bpow_gt_0 radix2 63) as P63.
  assert (B63 : bpow radix2 63 <= bpow radix2 1023) by (apply bpow_le; lia).
  destruct (dsub_correct maxD d Fm Fd) as [A1 A2]. { rewrite Rabs_pos_eq by lra. lra. }
  destruct (dsub_correct ed d Fe Fd) as [B1 B2]. { rewrite Rabs_pos_eq by lra. lra. }
  assert (Pa : 0 <= B2R (dsub maxD d)) by (rewrite A1; apply rnd64_nonneg; lra).
  assert (Lab : B2R (dsub maxD d) <= B2R (dsub ed d)) by (rewrite A1, B1; apply rnd64_le; lra).
  assert (Nb : B2R (dsub ed d) <> 0).
  { rewrite B1. unfold rnd64, Rminus. apply round_plus_neq_0; auto with typeclass_instances.
    - apply (B2R_fmt64 ed).
    - apply generic_format_opp. apply (B2R_fmt64 d).
    - lra. }
  assert (Pb : 0 < B2R (dsub ed d)) by lra.
  assert (Q : 0 <= B2R (dsub maxD d) / B2R (dsub ed d) <= 1).
  { split.
    - unfold Rdiv. apply Rmult_le_pos; [exact Pa|]. apply Rlt_le. apply Rinv_0_lt_compat. exact Pb.
    - apply Rmult_le_reg_r with (B2R (dsub ed d)); [exact Pb|]. unfold Rdiv. rewrite Rmult_assoc, Rinv_l by lra. lra. }
  destruct (ddiv_correct (dsub maxD d) (dsub ed d) A2 Nb) as [D1 D2].
  { rewrite Rabs_pos_eq by lra. apply Rle_trans with (bpow radix2 0); [simpl; lra|]. apply bpow_le. lia. }
  unfold ratio_f. split; [exact D2|]. rewrite D1. split; [apply rnd64_nonneg; lra|].
  apply rnd64_le_fmt; [apply fmt64_1|lra].
Qed.

(* e = 1.0 + (e - 1.0) * ratio, stored back into a float: still at least 1 when e >= 1 and 0 <= ratio <= 1 *)
Lemma adjust_f_range : forall (ratio : f64) (e : f32), is_finite ratio = true -> 0 <= B2R ratio <= 1 ->
  factor_ok (bpow radix2 100) e -> factor_ok (bpow radix2 101) (adjust_f ratio e).
Proof.
  intros ratio e Fr Hr [Fe He].
  pose proof (bpow_gt_0 radix2 100) as P100.
  assert (B100 : bpow radix2 100 <= bpow radix2 1023) by (apply bpow_le; lia).
  assert (E101 : bpow radix2 101 = 2 * bpow radix2 100).
  { change 2 with (bpow radix2 1). rewrite <- bpow_plus. reflexivity. }
  assert (O100 : 1 <= bpow radix2 100).
  { apply Rle_trans with (bpow radix2 0); [simpl; lra|]. apply bpow_le. lia. }
  destruct (d_of_f_correct e Fe) as [E1 E2]. destruct done_correct as [O1 O2].
  destruct (dsub_correct (d_of_f e) done E2 O2) as [S1 S2].
  { rewrite E1, O1, Rabs_pos_eq by lra. lra. }
  rewrite E1, O1 in S1.
  assert (Rs : 0 <= B2R (dsub (d_of_f e) done) <= bpow radix2 100).
  { rewrite S1. split; [apply rnd64_nonneg; lra|apply rnd64_le_fmt; [apply fmt64_bpow; lia|lra]]. }
  destruct (dmul_correct _ ratio S2 Fr) as [M1 M2].
  { rewrite Rabs_pos_eq by nra. nra. }
  assert (Rm : 0 <= B2R (dmul (dsub (d_of_f e) done) ratio) <= bpow radix2 100).
  { rewrite M1. split; [apply rnd64_nonneg; nra|apply rnd64_le_fmt; [apply fmt64_bpow; lia|nra]]. }
  destruct (dadd_correct done _ O2 M2) as [A1 A2].
  { assert (B101 : bpow radix2 101 <= bpow radix2 1023) by (apply bpow_le; lia).
    rewrite O1, Rabs_pos_eq by lra. lra. }
  rewrite O1 in A1.
  assert (Ra : 1 <= B2R (dadd done (dmul (dsub (d_of_f e) done) ratio)) <= bpow radix2 101).
  { rewrite A1. split; [apply rnd64_ge; [apply fmt64_1|lra]|apply rnd64_le_fmt; [apply fmt64_bpow; lia|lra]]. }
  destruct (f_of_d_correct _ A2) as [F1 F2].
  { rewrite Rabs_pos_eq by lra. eapply Rle_trans; [apply Ra|]. apply bpow_le. lia. }
  unfold adjust_f. split; [exact F2|]. rewrite F1. split.
  - apply Rle_trans with (rnd32 1); [rewrite rnd32_1; lra|apply rnd32_le; lra].
  - apply Rle_trans with (rnd32 (bpow radix2 101)); [apply rnd32_le; lra|].
    rewrite rnd32_id by (apply fmt32_bpow; lia). lra.
Qed.

(* C18 clause 2 for expandCellsByFactor in floating point: finite factors in [1, 2^100], finite maxDensity,
   sizes in [0, 2^31), the three areas inside the range of long long: no movable cell becomes narrower *)
Theorem by_factor_f_wider : forall es maxD m c c' r b,
  int_sizes (e_cells c) -> Forall (factor_ok (bpow radix2 100)) es -> is_finite maxD = true ->
  (movable_area (e_cells c) < 2 ^ 63)%Z -> (row_placement_area_f m c < 2 ^ 63)%Z ->
  (Z.abs (expanded_area_f (e_cells c) es 0) < 2 ^ 63)%Z ->
  expand_by_factor_f_br es maxD m c = Some (c', r, b) ->
  Forall2 (fun k k' => (e_w k <= e_w k')%Z) (e_cells c) (e_cells c').
Proof.
  intros es maxD m c c' r b Hs He Fm Hca Hra Hea H.
  destruct (by_factor_f_cases _ _ _ _ _ _ _ H) as [L [_ [[Hb [Hc Hr]]|[Hb [Nca [Nra Hx]]]]]].
  - subst c'. apply Forall2_refl. intros; lia.
  - cbv zeta in Hx. destruct Hx as [D [_ Hc]]. subst c'. cbn [e_cells].
    pose proof (movable_area_nonneg _ (int_sizes_nonneg _ Hs)) as Pca. pose proof (row_area_f_nonneg m c) as Pra.
    set (ca := movable_area (e_cells c)) in *. set (ra := row_placement_area_f m c) in *.
    destruct (density_f_range ca ra) as [Fd [Ld Ud]]; [lia|lia|].
    destruct (density_f_finite (expanded_area_f (e_cells c) es 0) ra Hea) as [Fe Ue]; [lia|].
    apply apply_factor_f_wider.
    + rewrite adjusted_f_length. exact L.
    + eapply Forall_impl; [|exact Hs]. cbv beta. intros k [A _]. exact A.
    + unfold adjusted_f. destruct (Bltb maxD _) eqn:X.
      * pose proof (dltb_lt _ _ Fm Fe X) as L2. pose proof (dleb_false_gt _ _ Fm Fd D) as L1.
        destruct (ratio_f_range maxD _ _ Fm Fd Fe) as [Fr Hr]; try assumption.
        { pose proof (bpow_gt_0 radix2 (-63)). lra. }
        { eapply Rle_trans; [apply Rle_abs|exact Ue]. }
        apply Forall_forall. intros e' Hin. apply in_map_iff in Hin. destruct Hin as [e [<- Hin]].
        apply adjust_f_range; [exact Fr|exact Hr|]. rewrite Forall_forall in He. apply He. exact Hin.
      * eapply Forall_impl; [|exact He]. intros e [A [B C]]. split; [exact A|]. split; [exact B|].
        eapply Rle_trans; [exact C|]. apply bpow_le. lia.
Qed.
