(* Extraction of the C19 model (family `params`) to OCaml for the correspondence runs.
   ExtrOcamlBasic only: bool/option/list/prod/unit/sumbool map to OCaml's; Z, positive, nat, Q,
   string/ascii stay the extracted Coq datatypes.  No Extract Constant. *)
From Coq Require Import Extraction ExtrOcamlBasic ZArith QArith List String.
Require Import CV.Params CV.ParamsDefaults_gen.
Extraction Language OCaml.
Extraction "model_params.ml"
  Params.msg_text
  Params.check_coloquinte Params.check_global Params.check_rough Params.check_continuous Params.check_penalty
  Params.check_legalization Params.check_detailed
  Params.coloquinte_ctor Params.global_ctor Params.rough_ctor Params.continuous_ctor Params.penalty_ctor
  Params.legalization_ctor Params.detailed_ctor
  ParamsDefaults_gen.default_tables
  Params.run_setter Params.add_net Params.set_nets Params.circuit_check Params.pins_in_range
  Params.enter Params.enter_effort.
