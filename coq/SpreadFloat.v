(* C06 -- binary32 / binary64 model (Flocq, IEEE-754 round-to-nearest-even) of the arithmetic that decides
   where global placement puts a cell:
     - spreadCells                                  (/repo/src/place_global/density_grid.cpp:301-328)
     - clampCoords (std::max(min, std::min(max,c))) (density_grid.cpp:330-338), also used for the proposed fix
     - GlobalPlacer::exportPlacement, one coordinate: std::round(x - 0.5 * placedWidth) evaluated in double
                                                     (/repo/src/place_global/place_global.cpp:111-112)
   The exact model over Q is CV.Spread; this file follows the same lines with every C++ `float` operation
   replaced by the corresponding correctly rounded operation of Flocq's BinarySingleNaN (prec 24, emax 128)
   and every `double` operation by prec 53, emax 1024.  The harness is compiled for x86-64 with -O1, without
   -ffast-math and without -mfma (SSE scalar arithmetic, FLT_EVAL_METHOD = 0, no contraction): one C++
   operator = one rounding.  NaN payloads are not modelled (BinarySingleNaN has a single NaN).
   Definitions only; the proofs are in SpreadFloatProofs.v. *)
From Coq Require Import ZArith List Bool Reals.
From Flocq Require Import Core BinarySingleNaN.
Require CV.Spread.
Import ListNotations.
Local Open Scope Z_scope.

(* ------------------------------------------------------------------ binary32 *)
Definition f32 := binary_float 24 128.
Definition p24 : Prec_gt_0 24 := eq_refl.
Definition p24_128 : Prec_lt_emax 24 128 := eq_refl.

Definition fadd : f32 -> f32 -> f32 := @Bplus 24 128 p24 p24_128 mode_NE.
Definition fsub : f32 -> f32 -> f32 := @Bminus 24 128 p24 p24_128 mode_NE.
Definition fmul : f32 -> f32 -> f32 := @Bmult 24 128 p24 p24_128 mode_NE.
Definition fdiv : f32 -> f32 -> f32 := @Bdiv 24 128 p24 p24_128 mode_NE.

(* (float)z for an int / long long z: correctly rounded conversion *)
Definition f_of_Z (z : Z) : f32 := @binary_normalize 24 128 p24 p24_128 mode_NE z 0 false.
(* m * 2^e rounded to binary32 (used to write float literals and test vectors) *)
Definition f_of_me (m e : Z) : f32 := @binary_normalize 24 128 p24 p24_128 mode_NE m e false.

Definition fzero : f32 := B754_zero false.            (* 0.0f *)
Definition fone : f32 := @Bone 24 128 p24 p24_128.    (* 1.0f *)
Definition fhalf : f32 := f_of_me 1 (-1).             (* 0.5f *)

(* the rounding operator the binary32 operations implement on finite, non-overflowing values *)
Definition rnd32 (x : R) : R := round radix2 (FLT_exp (-149) 24) ZnearestE x.
Definition fmt32 (x : R) : Prop := generic_format radix2 (FLT_exp (-149) 24) x.

(* std::min(a,b) = (b < a) ? b : a      std::max(a,b) = (a < b) ? b : a *)
Definition fmin_std (a b : f32) : f32 := if Bltb b a then b else a.
Definition fmax_std (a b : f32) : f32 := if Bltb a b then b else a.
(* clampCoords, one element: std::max(minCoord, std::min(maxCoord, c)) *)
Definition clamp_f (mn mx c : f32) : f32 := fmax_std mn (fmin_std mx c).

(* ------------------------------------------------------------------ spreadCells, density_grid.cpp:301-328 *)

(* line 324: dem * maxCoord + (1.0f - dem) * minCoord  (C++ precedence: two products, then the sum) *)
Definition spread_expr_f (dem mx mn : f32) : f32 :=
  fadd (fmul dem mx) (fmul (fsub fone dem) mn).

(* the proposed repair (worktree /tmp/wt_C06f): the coordinate clamped into [minCoord, maxCoord] *)
Definition spread_expr_clamped_f (dem mx mn : f32) : f32 :=
  clamp_f mn mx (spread_expr_f dem mx mn).

(* lines 323 / 325: 0.5f * curDemand * invTotalDemand = (0.5f * curDemand) * invTotalDemand *)
Definition spread_inc_f (cur inv : f32) : f32 := fmul (fmul fhalf cur) inv.

(* std::pair<float,int> operator< : a.first < b.first || (!(b.first < a.first) && a.second < b.second) *)
Definition fkey := (f32 * nat)%type.
Definition fkey_ltb (a b : fkey) : bool :=
  Bltb (fst a) (fst b) || (negb (Bltb (fst b) (fst a)) && Nat.ltb (snd a) (snd b)).

Fixpoint finsert_key (k : fkey) (l : list fkey) : list fkey :=
  match l with
  | [] => [k]
  | h :: t => if fkey_ltb h k then h :: finsert_key k t else k :: l
  end.
Definition fsort_keys (l : list fkey) : list fkey := fold_right finsert_key [] l.
Definition fmk_order (targets : list f32) : list fkey := combine targets (seq 0 (length targets)).

(* line 313: std::accumulate(demands.begin(), demands.end(), 0.0f): left to right, one rounding per term *)
Definition fsum (l : list f32) : f32 := fold_left fadd l fzero.

Fixpoint fset_nth (n : nat) (v : f32) (l : list f32) : list f32 :=
  match l, n with
  | [], _ => []
  | _ :: t, O => v :: t
  | h :: t, S n' => h :: fset_nth n' v t
  end.

(* one iteration of the loop of lines 316-326; [clamped] selects the repaired expression *)
Definition spread_step_f (clamped : bool) (demands : list f32) (inv lo hi : f32)
           (st : f32 * list f32) (k : fkey) : f32 * list f32 :=
  let c := snd k in
  match nth_error demands c with
  | None => st
  | Some cur =>
      if Bleb cur fzero then st                                        (* line 319: continue *)
      else
        let dem1 := fadd (fst st) (spread_inc_f cur inv) in            (* line 323 *)
        let coord := if clamped then spread_expr_clamped_f dem1 hi lo
                     else spread_expr_f dem1 hi lo in                  (* line 324 *)
        (fadd dem1 (spread_inc_f cur inv), fset_nth c coord (snd st))  (* line 325 *)
  end.

(* spreadCells(targets, demands, minCoord, maxCoord): the returned vector, and the final value of dem *)
Definition spread_cells_state_f (clamped : bool) (targets demands : list f32) (lo hi : f32)
  : f32 * list f32 :=
  let order := fsort_keys (fmk_order targets) in
  let inv := fdiv fone (fsum demands) in                               (* lines 312-313 *)
  fold_left (spread_step_f clamped demands inv lo hi) order (fzero, repeat fzero (length targets)).

Definition spread_cells_f (clamped : bool) (targets demands : list f32) (lo hi : f32) : list f32 :=
  snd (spread_cells_state_f clamped targets demands lo hi).

(* as called from spreadCoordX/Y: int bin limits and int demands converted to float (lines 349-353) *)
Definition spread_cells_int_f (clamped : bool) (targets : list f32) (demands : list Z) (lo hi : Z)
  : list f32 :=
  spread_cells_f clamped targets (map f_of_Z demands) (f_of_Z lo) (f_of_Z hi).

(* the sequence of values `dem` takes (after line 323 and after line 325 of every positive cell, in sorted
   order), for the accumulation analysis: incs = the increments 0.5f*cur*inv of the cells visited *)
Fixpoint dem_trace_f (dem : f32) (incs : list f32) : list f32 :=
  match incs with
  | [] => []
  | i :: t => let d1 := fadd dem i in let d2 := fadd d1 i in d1 :: d2 :: dem_trace_f d2 t
  end.

(* ------------------------------------------------------------------ spreadCoordX / spreadCoordY, lines 341-387 *)
(* the bins are CV.Spread.bin records (integer limits, cell indices), the demands are the ints of
   cellDemand(c), converted to float when pushed into binDemands (line 352) *)
Definition getf (l : list f32) (c : nat) : f32 :=
  match nth_error l c with Some v => v | None => fzero end.

Fixpoint fwrite_back (cells : list nat) (coords : list f32) (ret : list f32) : list f32 :=
  match cells, coords with
  | c :: cs, v :: vs => fwrite_back cs vs (fset_nth c v ret)
  | _, _ => ret
  end.

Definition spread_bin_f (clamped : bool) (target : list f32) (demand : list Z) (ret : list f32)
           (b : Spread.bin) : list f32 :=
  let bt := map (getf target) (Spread.b_cells b) in
  let bd := map (fun c => f_of_Z (nth c demand 0)) (Spread.b_cells b) in
  fwrite_back (Spread.b_cells b)
              (spread_cells_f clamped bt bd (f_of_Z (Spread.b_lo b)) (f_of_Z (Spread.b_hi b))) ret.

(* cells in no bin keep their target clamped into the placement area [alo, ahi] (F15 repair) *)
Definition spread_coord_f (clamped : bool) (alo ahi : Z) (bins : list Spread.bin)
           (target : list f32) (demand : list Z) : list f32 :=
  fold_left (spread_bin_f clamped target demand) bins (map (clamp_f (f_of_Z alo) (f_of_Z ahi)) target).

(* ------------------------------------------------------------------ binary64: the export step *)
Definition f64 := binary_float 53 1024.
Definition p53 : Prec_gt_0 53 := eq_refl.
Definition p53_1024 : Prec_lt_emax 53 1024 := eq_refl.
Definition dsub : f64 -> f64 -> f64 := @Bminus 53 1024 p53 p53_1024 mode_NE.
Definition dmul : f64 -> f64 -> f64 := @Bmult 53 1024 p53 p53_1024 mode_NE.
Definition d_of_Z (z : Z) : f64 := @binary_normalize 53 1024 p53 p53_1024 mode_NE z 0 false.
Definition dhalf : f64 := @binary_normalize 53 1024 p53 p53_1024 mode_NE 1 (-1) false.   (* 0.5 *)
Definition rnd64 (x : R) : R := round radix2 (FLT_exp (-1074) 53) ZnearestE x.

(* (double)x for a float x: exact (every binary32 value is a binary64 value) *)
Definition d_of_f (x : f32) : f64 :=
  match x with
  | B754_zero s => B754_zero s
  | B754_infinity s => B754_infinity s
  | B754_nan => B754_nan
  | B754_finite s m e _ =>
      @binary_normalize 53 1024 p53 p53_1024 mode_NE (cond_Zopp s (Zpos m)) e s
  end.

(* std::round on the value (-1)^s * m * 2^e: to nearest integer, halves away from zero *)
Definition round_half_away_me (s : bool) (m : positive) (e : Z) : Z :=
  let mag :=
    if 0 <=? e then Zpos m * 2 ^ e
    else let d := 2 ^ (- e) in
         let q := Zpos m / d in
         if d <=? 2 * (Zpos m mod d) then q + 1 else q in
  cond_Zopp s mag.

(* (int)std::round(v): None when v is not finite (the conversion is then undefined in C++); the range of
   `int` is the business of C07 *)
Definition dround_Z (v : f64) : option Z :=
  match v with
  | B754_zero _ => Some 0
  | B754_finite s m e _ => Some (round_half_away_me s m e)
  | _ => None
  end.

(* place_global.cpp:111: std::round(xplace[i] - 0.5 * circuit.placedWidth(i)); the float is promoted to
   double, 0.5 is a double literal, placedWidth an int: every operation is a binary64 operation *)
Definition export_coord_f (x : f32) (size : Z) : option Z :=
  dround_Z (dsub (d_of_f x) (dmul dhalf (d_of_Z size))).

(* the same value over the reals: one binary64 rounding of the difference, then std::round *)
Definition export_coord_R (x : R) (size : Z) : Z :=
  ZnearestA (rnd64 (x - / 2 * IZR size)).

(* ------------------------------------------------------------------ the accumulations over the reals
   (one rnd32 per C++ operation; the binary32 operations compute exactly this on finite values without overflow:
   fadd_correct, fmul_correct in SpreadFloatProofs.v) *)
Local Open Scope R_scope.
(* left-to-right accumulation from d: std::accumulate (line 313) and the additions to `dem` (lines 323, 325) *)
Definition acc_R (d : R) (xs : list R) : R := fold_left (fun a x => rnd32 (a + x)) xs d.
Definition sum_R (xs : list R) : R := fold_right Rplus 0 xs.
(* 0.5f * curDemand * invTotalDemand *)
Definition inc_R (inv d : R) : R := rnd32 (rnd32 (/ 2 * d) * inv).
(* the increments added to `dem`, in visiting order: each cell's increment twice *)
Definition incs_R (inv : R) (visited : list R) : list R :=
  flat_map (fun d => [inc_R inv d; inc_R inv d]) visited.
(* the value of `dem` after k additions, for the demands ds (index order, as summed by std::accumulate) and the
   positive demands vs in visiting order *)
Definition dem_R (ds vs : list R) (k : nat) : R :=
  acc_R 0 (firstn k (incs_R (rnd32 (1 / acc_R 0 ds)) vs)).
Local Close Scope R_scope.

(* ------------------------------------------------------------------ inputs of the counterexamples
   (the statements about them are in SpreadFloatProofs.v / Properties_C06.v) *)
(* dem = 2^-25 (1 + 2^-23) *)
Definition wit_dem : f32 := f_of_me 8388609 (-48).

(* three cells of demand 1, 32044, 57 in the bin [-117183, -117133], targets 0, 1, 2 *)
Definition wit_targets : list f32 := [f_of_Z 0; f_of_Z 1; f_of_Z 2].
Definition wit_demands : list Z := [1; 32044; 57]%Z.
Definition wit_cells : list f32 :=
  spread_cells_int_f false wit_targets wit_demands (-117183) (-117133).

(* 4242 cells of demand 1 in the bin [0, 100000], targets 0, 1, 2, ...; and the final value of `dem` there *)
Definition wit2_n : nat := 4242.
Definition wit2_cells : list f32 :=
  spread_cells_int_f false (map (fun i => f_of_Z (Z.of_nat i)) (seq 0 wit2_n)) (repeat 1%Z wit2_n) 0 100000.
Definition wit2_dem_final : f32 :=
  fst (spread_cells_state_f false (map (fun i => f_of_Z (Z.of_nat i)) (seq 0 wit2_n))
                            (map f_of_Z (repeat 1%Z wit2_n)) (f_of_Z 0) (f_of_Z 100000)).

(* four cells of demand 1994072, 1655332, 1892993, 1 (total 5542398 < 2^24) in the bin [0, 100000] *)
Definition wit3_cells : list f32 :=
  spread_cells_int_f false [f_of_Z 0; f_of_Z 1; f_of_Z 2; f_of_Z 3] [1994072; 1655332; 1892993; 1]%Z 0 100000.
