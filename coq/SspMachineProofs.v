(* C07: integer side of transportation.cpp (SspMachine.v).  [F] for the problem-level arithmetic; the two additions on
   sendingCost_ are proved for ONE step under the label bound that a shortest-path tree satisfies (partial: that the
   labels stay within the bound along the run is the successive-shortest-path invariant, not proved). *)
From Coq Require Import List ZArith Lia Bool Arith.
Import ListNotations.
Require Import CV.Density CV.RowLegMachine CV.Transp1dMachine CV.DensityMachine CV.DensityMachineProofs.
Require Import CV.Ssp CV.SspProofs CV.SspSafety CV.SspMachine.
Local Open Scope Z_scope.

(* [F] std::accumulate over non-negative long long entries with total <= 2^62 *)
Theorem accumulate_vals_fit l : (forall x, In x l -> 0 <= x) -> zsuml l <= SUMB -> Forall fits (accumulate_vals l).
Proof. intros H1 H2. apply acc_fit; [lia|exact H1|exact H2]. Qed.

Lemma in_le_zsuml l : (forall x, In x l -> 0 <= x) -> forall x, In x l -> x <= zsuml l.
Proof.
  induction l as [|y t IH]; intros H x Hx; [contradiction|]. cbn [zsuml fold_right]. fold (zsuml t).
  assert (0 <= zsuml t) by (apply (sumZ_nonneg t); intros z Hz; apply H; right; exact Hz).
  assert (0 <= y) by (apply H; left; reflexivity).
  destruct Hx as [->|Hx]; [lia|]. assert (x <= zsuml t) by (apply IH; [intros z Hz; apply H; right; exact Hz|exact Hx]). lia.
Qed.

Lemma firstn_in' {A} : forall k (l : list A) x, In x (firstn k l) -> In x l.
Proof. induction k as [|k IH]; intros l x H; [contradiction|]. destruct l as [|y r]; [contradiction|]. destruct H as [<-|H]; [left; reflexivity|right; apply IH; exact H]. Qed.

(* [F] increaseCapacity: no division by zero (at least one sink), every sum / product / quotient in range *)
Theorem increase_capacity_vals_fit pb :
  (0 < nsnk pb)%nat -> Z.of_nat (nsnk pb) < 2147483647 ->
  (forall x, In x (dems pb) -> 0 <= x) -> (forall x, In x (caps pb) -> 0 <= x) ->
  total_demand pb <= SUMB -> total_capacity pb <= SUMB -> Forall fits (increase_capacity_vals pb).
Proof.
  intros Hn Hn2 Hd Hc Td Tc. unfold increase_capacity_vals.
  pose proof (sumZ_nonneg _ Hd) as Pd. pose proof (sumZ_nonneg _ Hc) as Pc.
  change (sumZ (dems pb)) with (total_demand pb) in Pd. change (sumZ (caps pb)) with (total_capacity pb) in Pc.
  apply Fapp; [apply accumulate_vals_fit; assumption|]. apply Fapp; [apply accumulate_vals_fit; assumption|].
  apply Fapp; [dfits|].
  destruct (Z.leb_spec (total_demand pb - total_capacity pb) 0) as [Hm|Hm]; [constructor|].
  set (missing := total_demand pb - total_capacity pb) in *. set (n := Z.of_nat (nsnk pb)) in *.
  assert (Hnp : 0 < n) by (subst n; lia).
  assert (Q : 0 <= Z.quot missing n <= missing /\ 0 <= missing - Z.quot missing n * n < n).
  { rewrite Z.quot_div_nonneg by lia. pose proof (Z.div_mod missing n ltac:(lia)) as E. pose proof (Z.mod_pos_bound missing n Hnp) as Hb.
    pose proof (Z.div_pos missing n ltac:(lia) Hnp) as Hq.
    assert (missing / n * 1 <= missing / n * n) by (apply Z.mul_le_mono_nonneg_l; lia). lia. }
  destruct Q as [Q1 Q2]. set (added := Z.quot missing n) in *.
  apply Fapp; [dfits|]. apply Fapp.
  { apply Fmap. intros c Hc'. pose proof (Hc c Hc'). pose proof (in_le_zsuml _ Hc c Hc'). change (zsuml (caps pb)) with (total_capacity pb) in *. dfit. }
  apply Fapp; [dfits|]. apply Fapp.
  { apply Fmap. intros c Hc'. apply firstn_in' in Hc'. pose proof (Hc c Hc'). pose proof (in_le_zsuml _ Hc c Hc').
    change (zsuml (caps pb)) with (total_capacity pb) in *. dfit. }
  apply Fmap. intros i Hi. apply in_seq in Hi. subst n. dfit.
Qed.

(* [F] problem-level moving costs are differences of two scaled costs *)
Theorem moving_vals_fit pb src a b : cost_dom pb -> Forall fits (moving_vals pb src a b) /\
  4 * Z.of_nat (nsnk pb) * Z.abs (pmoving pb src a b) <= 2147483647 + 2 * Z.of_nat (nsnk pb).
Proof.
  intros (Hn & Hn2 & Hc). unfold moving_vals, pmoving. destruct (Hc b src) as [B1 B2]. destruct (Hc a src) as [A1 A2].
  set (n := Z.of_nat (nsnk pb)) in *. assert (1 <= n) by (subst n; lia).
  set (x := cost pb b src) in *. set (y := cost pb a src) in *. clearbody x y n.
  assert (Hx : x <= 2147483647 + 2 * n) by nia. assert (Hy : y <= 2147483647 + 2 * n) by nia.
  assert (Hx4 : 4 * x <= 2147483647 + 2 * n) by nia. assert (Hy4 : 4 * y <= 2147483647 + 2 * n) by nia.
  split; [dfits|]. nia.
Qed.

(* [F for one step] bestSink: with labels within the shortest-path-tree bound *)
Theorem best_sink_vals_fit pb sc src : cost_dom pb -> label_dom pb sc -> Forall fits (best_sink_vals pb sc src).
Proof.
  intros (Hn & Hn2 & Hc) HL. unfold best_sink_vals. apply Fmap. intros i Hi. apply in_seq in Hi.
  specialize (HL i ltac:(lia)). destruct (Hc i src) as [C1 C2].
  set (n := Z.of_nat (nsnk pb)) in *. assert (1 <= n) by (subst n; lia).
  set (x := cost pb i src) in *. set (y := getZ sc i) in *. clearbody x y n.
  assert (Hx4 : 4 * x <= 2147483647 + 2 * n) by nia. dfit.
Qed.

(* [F for one step] updateTree: moving cost within the cost bound, label of the selected sink within the tree bound *)
Theorem relax_vals_fit pb mc scb :
  cost_dom pb -> 4 * Z.of_nat (nsnk pb) * Z.abs mc <= 2147483647 + 2 * Z.of_nat (nsnk pb) ->
  4 * Z.abs scb <= 2147483647 + 2 * Z.of_nat (nsnk pb) -> Forall fits (relax_vals mc scb).
Proof.
  intros (Hn & Hn2 & _) Hm Hs. unfold relax_vals.
  set (n := Z.of_nat (nsnk pb)) in *. assert (1 <= n) by (subst n; lia). clearbody n.
  assert (Hm4 : 4 * Z.abs mc <= 2147483647 + 2 * n) by nia. dfits.
Qed.

(* [F] the INT_MAX sentinel of updateTree is never an operand of its addition: the selected sink has a finite label *)
Theorem relax_never_adds_sentinel pb t b : select_best (nsnk pb) t = Some b -> getZ (t_sc t) b < INT_MAX.
Proof. intros H. exact (proj2 (select_best_spec pb (nsnk pb) t b (le_n _) H)). Qed.

(* the sentinel WOULD overflow in bestSink: the addition is done for every sink, also one labelled INT_MAX; only the
   accounting "outstanding demand <= free capacity" (Properties_C13.c13_ssp_safe_partial) keeps bestSink from being
   called when no sink is free *)
Example best_sink_sentinel_would_overflow :
  exists v, In v (best_sink_vals (mkPb [1] [1] [[5]]) [INT_MAX] 0) /\ ~ fits v.
Proof. exists (I32, 2147483652). split; [vm_compute; tauto|unfold fits; cbn; lia]. Qed.

(* non-vacuity: 4 sinks, costs at the scaling bound round(INT_MAX / 16) = 134217728, labels at the tree bound *)
Definition ex_ssp_pb : Pb := mkPb [5; 5; 5; 5] [3; 3] (repeat [134217728; 0] 4).
Example ssp_machine_nonvacuous :
  cost_dom ex_ssp_pb /\ label_dom ex_ssp_pb [536870913; -536870913; 0; 7] /\
  In (I32, 671088641) (best_sink_vals ex_ssp_pb [536870913; -536870913; 0; 7] 0).
Proof.
  split; [|split].
  - split; [cbn; lia|]. split; [cbn; lia|]. intros j i. unfold cost, get2, ex_ssp_pb. cbn [costs nsnk caps length repeat].
    assert (R : nth j [[134217728; 0]; [134217728; 0]; [134217728; 0]; [134217728; 0]] [] = [134217728; 0] \/
                nth j [[134217728; 0]; [134217728; 0]; [134217728; 0]; [134217728; 0]] [] = []).
    { destruct j as [|[|[|[|[|j]]]]]; cbn; auto. }
    destruct R as [-> | ->]; destruct i as [|[|[|i]]]; cbn; lia.
  - intros i Hi. cbn [ex_ssp_pb nsnk caps length] in *. destruct i as [|[|[|[|i]]]]; cbn; lia.
  - vm_compute. tauto.
Qed.
