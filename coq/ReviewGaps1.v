(* Definitions for the composition theorems asked by design/review/review_C01-C05.md (C02-4, C04-3, C05-1).
   Definitions only (proofs: ReviewGaps1Proofs.v).

   A history of DetailedPlacer that INTERLEAVES the four kinds of operation the passes of
   DetailedPlacer::run perform on the pair (placement_, xtopo_/ytopo_) of DetailedValue.pstate:
     GDo m        doSwap / doInsert with ARBITRARY arguments (place_detailed.cpp:131-142): the structure is asked
                  to swap / insert; when it refuses (the C++ asserts canSwap / canInsert: the passes only call
                  doSwap / doInsert on feasible moves) nothing happens; the models are refreshed from the
                  structure (updateCellPos).  Not value-guarded: it may increase the optimised value.
     GBest cands  bestSwap / bestInsert / bestSwapUpdate: the candidate scan of DetailedValue.pbest followed by
                  doSwap / doInsert of the retained candidate (strictly improving, or nothing).
     GShift ..    runShiftsOnCells with a certified answer of the flow solver (DetailedValue.pshift).
     GReorder cs  one CLOSED RowReordering pass on the window cs (Reorder.run: regions, region choice, every
                  ordering, write-back); `None` (the C++ would have thrown) leaves the state: proved impossible
                  under gstep_ok. *)
From Coq Require Import List ZArith Lia Bool.
Import ListNotations.
Require Import CV.Orient CV.FreeSpace CV.Circuit CV.Hpwl CV.Moves CV.MovesOrientProofs CV.Optimiser CV.ShiftLp.
Require Import CV.DetailedInit CV.DetailedExport CV.DetailedValue CV.Reorder.
Local Open Scope Z_scope.

Inductive gstep :=
| GDo (m : mop)
| GBest (cands : list mop)
| GShift (sel : list nat) (pi : snode -> Z) (f : list Z)
| GReorder (cs : list nat).

(* doSwap / doInsert *)
Definition pdo (s : pstate) (m : mop) : pstate :=
  match apply_mop (ps_d s) m, cand_moves (ps_d s) m with
  | Some d', Some ms => {| ps_d := d'; ps_o := set_many (ps_o s) ms |}
  | _, _ => s
  end.

Definition gstep_run (s : pstate) (g : gstep) : pstate :=
  match g with
  | GDo m => pdo s m
  | GBest cands => pbest s cands
  | GShift sel pi _ => pshift s sel pi
  | GReorder cs => match run s cs with Some (s', _) => s' | None => s end
  end.
Definition gsteps_run (s : pstate) (l : list gstep) : pstate := fold_left gstep_run l s.

(* what a step needs, at the state it is applied to:
     GDo / GBest  the operations are swaps / inserts (any cells, rows, predecessors);
     GShift       the selected cells are cells of the rows and the solver's answer passes the certificate checker;
     GReorder     the window is made of distinct cells of the rows (RowReordering is given cells of one
                  neighbourhood, taken from placement_.rowCells) -- NOTHING is assumed about its write-back. *)
Definition gstep_ok (s : pstate) (g : gstep) : Prop :=
  match g with
  | GDo m => is_move m = true
  | GBest cands => forallb is_move cands = true
  | GShift sel pi f => pstep_ok s (PShift sel pi f)
  | GReorder cs => NoDup cs /\ (forall x, In x cs -> held (ps_d s) x = true)
  end.

Fixpoint ghist_ok (s : pstate) (l : list gstep) : Prop :=
  match l with
  | [] => True
  | g :: r => gstep_ok s g /\ ghist_ok (gstep_run s g) r
  end.

(* the steps whose result is guarded by the optimised value (everything but the raw doSwap / doInsert) *)
Definition g_guarded (g : gstep) : bool := match g with GDo _ => false | _ => true end.

(* ---------- static conditions for the F8 scope (C05-1) ----------
   A KEPT cell is a movable cell exactly one row high (the cells the optimiser moves). *)
Definition kept_cell (rh : Z) (k : ccell) : Prop := c_fixed k = false /\ placed_h k = rh.

(* (a) every row the table ALLOWS a polarised kept cell on prescribes the orientation the cell has *)
Definition prescribed_frozen (c : circuit) (rh : Z) : Prop :=
  forall k r, In k (cells c) -> kept_cell rh k -> c_pol k <> pANY -> In r (rows c) ->
    cell_orientation_in_row (c_pol k) (ro r) = oINVALID \/
    (cell_orientation_in_row (c_pol k) (ro r) = c_o k /\ cell_orientation_in_row (c_pol k) (ro r) <> oUNKNOWN).

(* (b) stricter, for histories with UNGUARDED place() calls (the generic PReorder of DetailedValue.v): every row
   of the circuit, allowed or not, leaves the orientation of a polarised kept cell as it is *)
Definition prescribed_frozen_all (c : circuit) (rh : Z) : Prop :=
  forall k r, In k (cells c) -> kept_cell rh k -> c_pol k <> pANY -> In r (rows c) ->
    cell_orientation_in_row (c_pol k) (ro r) = oUNKNOWN \/ cell_orientation_in_row (c_pol k) (ro r) = c_o k.

(* special cases on the input alone *)
Definition no_polarised_kept (c : circuit) (rh : Z) : Prop :=
  forall k, In k (cells c) -> kept_cell rh k -> c_pol k = pANY.
Definition rows_one_orientation (c : circuit) (oR : orient) : Prop := forall r, In r (rows c) -> ro r = oR.
