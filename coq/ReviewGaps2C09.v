(* Review gap (C09): companion of c09_incremental_exact / c09_subset_folding_exact for the `int` code.
   The checked machine model (ReviewGaps2C09Model.v: None = signed overflow) answers Some of the Z model's
   result whenever every value of the C07 listing (HpwlMachine.v) fits its type; with C07's domain theorems
   (HpwlMachineProofs.v) this gives explicit range hypotheses under which the Z theorems of Properties_C09
   are statements about the machine results. *)
From Coq Require Import List ZArith Lia Bool.
Import ListNotations.
Require Import CV.Orient CV.Hpwl CV.HpwlProofs CV.HpwlFoldProofs CV.RowLegMachine CV.HpwlMachine
               CV.HpwlMachineProofs CV.ReviewGaps2C09Model.
Local Open Scope Z_scope.

Lemma chk32_fits z : fits (I32, z) -> chk32 z = Some z.
Proof.
  unfold fits, chk32. cbn [fst snd]. intros [A B].
  destruct (Z.leb_spec (-2147483648) z); [|lia]. destruct (Z.ltb_spec z 2147483648); [reflexivity|lia].
Qed.
Lemma chk64_fits z : fits (I64, z) -> chk64 z = Some z.
Proof.
  unfold fits, chk64. cbn [fst snd]. intros [A B].
  destruct (Z.leb_spec (-9223372036854775808) z); [|lia].
  destruct (Z.ltb_spec z 9223372036854775808); [reflexivity|lia].
Qed.
Lemma chk32_some z v : chk32 z = Some v -> v = z /\ fits (I32, z).
Proof.
  unfold chk32, fits. cbn [fst snd]. destruct (Z.leb_spec (-2147483648) z); [|discriminate].
  destruct (Z.ltb_spec z 2147483648); [|discriminate]. intros [= <-]. lia.
Qed.

(* ------------------------------------------------------------------ computeNetMinMaxPos *)
Lemma mm_pins_m_spec pos : forall pins mn mx, Forall fits (mm_pins_vals pos pins mn mx) ->
  mm_pins_m pos pins mn mx =
  Some (fold_left Z.min (map (ipin_pos pos) pins) mn, fold_left Z.max (map (ipin_pos pos) pins) mx).
Proof.
  induction pins as [|p r IH]; intros mn mx H; cbn [mm_pins_m mm_pins_vals map fold_left] in *; [reflexivity|].
  inversion H as [|? ? H1 H2]; subst. inversion H2 as [|? ? _ H3]; subst. inversion H3 as [|? ? _ H4]; subst.
  change (nth (fst p) pos 0 + snd p) with (ipin_pos pos p). rewrite (chk32_fits _ H1). apply IH. exact H4.
Qed.
Lemma net_minmax_m_spec pos net : Forall fits (mm_pins_vals pos net INT_MAX INT_MIN) ->
  net_minmax_m pos net = Some (net_minmax pos net).
Proof. intros H. exact (mm_pins_m_spec pos net INT_MAX INT_MIN H). Qed.

(* the same from the positions alone: every pin position within int *)
Lemma mm_pins_vals_fit pos : forall pins mn mx, fits (I32, mn) -> fits (I32, mx) ->
  Forall (fun p => fits (I32, ipin_pos pos p)) pins -> Forall fits (mm_pins_vals pos pins mn mx).
Proof.
  induction pins as [|p r IH]; intros mn mx Hmn Hmx H; cbn [mm_pins_vals]; [constructor|].
  inversion H as [|? ? Hp Hr]; subst.
  assert (A : fits (I32, Z.min mn (ipin_pos pos p))) by (unfold fits in *; cbn [fst snd] in *; lia).
  assert (B : fits (I32, Z.max mx (ipin_pos pos p))) by (unfold fits in *; cbn [fst snd] in *; lia).
  constructor; [exact Hp|]. constructor; [exact A|]. constructor; [exact B|]. apply IH; assumption.
Qed.
Lemma net_minmax_m_bounded pos net : Forall (fun p => fits (I32, ipin_pos pos p)) net ->
  net_minmax_m pos net = Some (net_minmax pos net).
Proof.
  intros H. apply net_minmax_m_spec. apply mm_pins_vals_fit; [| |exact H];
    unfold fits, INT_MAX, INT_MIN; cbn; lia.
Qed.

(* ------------------------------------------------------------------ build *)
Lemma all_minmax_m_spec pos : forall nets,
  Forall fits (concat (map (fun net => mm_pins_vals pos net INT_MAX INT_MIN) nets)) ->
  all_minmax_m pos nets = Some (map (net_minmax pos) nets).
Proof.
  induction nets as [|n r IH]; intros H; cbn [all_minmax_m map concat] in *; [reflexivity|].
  apply Forall_app in H. destruct H as [H1 H2]. rewrite (net_minmax_m_spec _ _ H1), (IH H2). reflexivity.
Qed.
Lemma value_m_spec : forall mm acc, Forall fits (value_vals mm acc) -> value_m mm acc = Some (acc + sum_widths mm).
Proof.
  induction mm as [|m r IH]; intros acc H; cbn [value_m value_vals sum_widths fold_right app] in *; [f_equal; lia|].
  inversion H as [|? ? H1 H2]; subst. inversion H2 as [|? ? H3 H4]; subst.
  rewrite (chk32_fits _ H1), (chk64_fits _ H3), (IH _ H4). f_equal. unfold sum_widths. lia.
Qed.
Theorem incr_build_m_spec pos nets : Forall fits (build_vals pos nets) ->
  incr_build_m pos nets = Some (incr_build pos nets).
Proof.
  unfold build_vals, incr_build_m, incr_build. intros H. apply Forall_app in H. destruct H as [H1 H2].
  rewrite (all_minmax_m_spec _ _ H1), (value_m_spec _ _ H2). reflexivity.
Qed.

(* ------------------------------------------------------------------ recomputeNet / updateCellPos *)
Lemma recompute_net_m_spec s i : Forall fits (recompute_vals s i) -> recompute_net_m s i = Some (recompute_net s i).
Proof.
  unfold recompute_vals, recompute_net_m, recompute_net.
  destruct (nth_error (inets s) i) as [pins|]; [|reflexivity].
  destruct (nth_error (iminmax s) i) as [old|]; [|reflexivity].
  cbv zeta. intros H. apply Forall_app in H. destruct H as [H1 H2].
  rewrite (net_minmax_m_spec _ _ H1). set (nw := net_minmax (ipos s) pins) in *. clearbody nw.
  inversion H2 as [|? ? A H3]; subst. inversion H3 as [|? ? B H4]; subst.
  inversion H4 as [|? ? C H5]; subst. inversion H5 as [|? ? D _]; subst.
  rewrite (chk32_fits _ A), (chk32_fits _ B), (chk32_fits _ C), (chk64_fits _ D). reflexivity.
Qed.
Lemma recompute_loop_m_spec : forall ids s, Forall fits (recompute_loop_vals ids s) ->
  recompute_loop_m ids s = Some (fold_left recompute_net ids s).
Proof.
  induction ids as [|i r IH]; intros s H; cbn [recompute_loop_m recompute_loop_vals fold_left] in *; [reflexivity|].
  apply Forall_app in H. destruct H as [H1 H2]. rewrite (recompute_net_m_spec _ _ H1). apply IH. exact H2.
Qed.
Lemma update_cell_pos_m_spec s c p : Forall fits (update_vals s c p) ->
  update_cell_pos_m s c p = Some (update_cell_pos s c p).
Proof.
  unfold update_vals, update_cell_pos_m, update_cell_pos. intros H. inversion H as [|? ? H1 H2]; subst.
  rewrite (chk32_fits _ H1). apply recompute_loop_m_spec. exact H2.
Qed.
Theorem apply_updates_m_spec : forall ups s, Forall fits (updates_vals s ups) ->
  apply_updates_m s ups = Some (apply_updates s ups).
Proof.
  induction ups as [|[c p] r IH]; intros s H; cbn [apply_updates_m updates_vals apply_updates fold_left fst snd] in *;
    [reflexivity|].
  apply Forall_app in H. destruct H as [H1 H2]. rewrite (update_cell_pos_m_spec _ _ _ H1).
  exact (IH _ H2).
Qed.

(* ------------------------------------------------------------------ companion of c09_incremental_exact *)
(* positions within [-2^23, 2^23], pin offsets within [-2^24, 2^24], no empty net, fewer than 2^31 nets
   (C07's ipos_dom / inets_dom), every new position within [-2^23, 2^23]: the `int` code overflows nowhere,
   computes the states of the Z model, and therefore keeps value and per-net bounds equal to the
   from-scratch ones after ANY history of updates *)
Theorem incremental_exact_machine pos nets ups :
  ipos_dom pos -> inets_dom nets -> Forall (fun u => -8388608 <= snd u <= 8388608) ups ->
  exists s0 s', incr_build_m pos nets = Some s0 /\ apply_updates_m s0 ups = Some s' /\
    s0 = incr_build pos nets /\ s' = apply_updates s0 ups /\
    iminmax s' = map (net_minmax (ipos s')) nets /\
    ivalue s' = ivalue (incr_build (ipos s') nets) /\
    incr_build_m (ipos s') nets = Some (incr_build (ipos s') nets).
Proof.
  intros Hp Hn Hu. destruct (build_no_overflow pos nets Hp Hn) as [Fb Db].
  destruct (incr_history_no_overflow ups _ Db Hu) as [Fu Du].
  exists (incr_build pos nets), (apply_updates (incr_build pos nets) ups).
  split; [exact (incr_build_m_spec _ _ Fb)|]. split; [exact (apply_updates_m_spec _ _ Fu)|].
  split; [reflexivity|]. split; [reflexivity|].
  destruct (updates_exact ups _ (build_inv pos nets)) as ([A _] & B & C). cbn zeta in *.
  cbn [incr_build inets] in B, C. split; [rewrite A, B; reflexivity|]. split; [exact C|].
  apply incr_build_m_spec. destruct Du as (Dp & Dn & _). rewrite B in Dn.
  exact (proj1 (build_no_overflow _ _ Dp Dn)).
Qed.

(* sharpness of the side condition: with positions merely "within int" the extent max - min overflows int
   although the Z model answers (the UB the review points at) *)
Example incremental_overflow_witness :
  let pos := [-2000000000; 2000000000] in let nets := [[(0%nat, 0); (1%nat, 0)]] in
  Forall (fun v => -2147483648 <= v < 2147483648) pos /\
  incr_build_m pos nets = None /\ ivalue (incr_build pos nets) = 4000000000.
Proof. cbv zeta. split; [repeat constructor; lia|]. split; vm_compute; reflexivity. Qed.

(* ------------------------------------------------------------------ companion of c09_subset_folding_exact *)
Lemma fixedpos_m_spec gpos subset : forall net,
  Forall (fun p => fits (I32, ipin_pos gpos p)) net ->
  fixedpos_m gpos subset net = Some (fixed_pos gpos subset net).
Proof.
  induction net as [|p r IH]; intros H; cbn [fixedpos_m fixed_pos flat_map]; [reflexivity|].
  inversion H as [|? ? Hp Hr]; subst. fold (fixed_pos gpos subset r).
  destruct (index_of (fst p) subset 0); cbn [app]; [exact (IH Hr)|].
  change (nth (fst p) gpos 0 + snd p) with (ipin_pos gpos p). rewrite (chk32_fits _ Hp), (IH Hr). reflexivity.
Qed.

Lemma fixed_pos_in gpos subset : forall net v, In v (fixed_pos gpos subset net) ->
  exists p, In p net /\ v = ipin_pos gpos p.
Proof.
  induction net as [|p r IH]; intros v H; cbn [fixed_pos flat_map] in H; [destruct H|].
  fold (fixed_pos gpos subset r) in H. apply in_app_or in H. destruct H as [H|H].
  - destruct (index_of (fst p) subset 0); [destruct H|]. destruct H as [<-|[]]. exists p. split; [left|]; reflexivity.
  - destruct (IH v H) as (q & Hq & E). exists q. split; [right; exact Hq|exact E].
Qed.

(* every pin position of the net within int (positions of cells AND pins, in the global frame): the folding
   `int pos = circuit.x(cell) + offset` does not overflow, builds the net of the Z model, and
   computeNetMinMaxPos on the folded net -- evaluated in int in the local frame -- gives the min and the
   max of the original net *)
Theorem subset_folding_exact_machine gpos subset net :
  Forall (fun p => fits (I32, ipin_pos gpos p)) net ->
  topo_net_m gpos subset net = Some (topo_net gpos subset net) /\
  net_minmax_m (local_vec gpos subset) (topo_net gpos subset net) = Some (net_minmax gpos net).
Proof.
  intros H. split.
  - unfold topo_net_m, topo_net. rewrite (fixedpos_m_spec gpos subset net H). unfold fixed_pos.
    match goal with |- context [match ?l with [] => _ | _ :: _ => _ end] => destruct l end; reflexivity.
  - rewrite <- (topo_net_minmax gpos subset net). apply net_minmax_m_bounded.
    assert (Hin : forall p, In p net -> fits (I32, ipin_pos gpos p)) by (apply Forall_forall; exact H).
    assert (Hloc : Forall (fun p => fits (I32, ipin_pos (local_vec gpos subset) p)) (local_pins subset net)).
    { apply Forall_forall. intros q Hq. unfold local_pins in Hq. apply in_flat_map in Hq.
      destruct Hq as ([c off] & Hp & Hq). cbn [fst snd] in Hq.
      destruct (index_of c subset 0) as [i|] eqn:E; [|destruct Hq]. destruct Hq as [<-|[]].
      rewrite (local_pin_pos _ _ _ _ _ E). apply Hin. exact Hp. }
    unfold topo_net. fold (local_pins subset net). fold (fixed_pos gpos subset net).
    destruct (fixed_pos gpos subset net) as [|f0 fr] eqn:F; [exact Hloc|].
    assert (Hb : bounded (f0 :: fr)).
    { intros v Hv. rewrite <- F in Hv. destruct (fixed_pos_in _ _ _ _ Hv) as (p & Hp & ->).
      specialize (Hin p Hp). unfold fits, INT_MIN, INT_MAX in *. cbn [fst snd] in Hin. lia. }
    assert (Hne : f0 :: fr <> []) by discriminate.
    destruct (fmin_is_min _ Hne Hb) as [Imin _]. destruct (fmax_is_max _ Hne Hb) as [Imax _].
    assert (Fmin : fits (I32, fmin (f0 :: fr))) by (specialize (Hb _ Imin); unfold fits, INT_MIN, INT_MAX in *; cbn [fst snd]; lia).
    assert (Fmax : fits (I32, fmax (f0 :: fr))) by (specialize (Hb _ Imax); unfold fits, INT_MIN, INT_MAX in *; cbn [fst snd]; lia).
    apply Forall_app. split; [exact Hloc|]. constructor; [rewrite fixed_cell_pos; exact Fmin|].
    destruct (fmin (f0 :: fr) =? fmax (f0 :: fr)); constructor; [rewrite fixed_cell_pos; exact Fmax|constructor].
Qed.

(* ------------------------------------------------------------------ from C07's hpwl_dom *)
(* the nets IncrNetModel::xTopology / yTopology read from a circuit *)
Definition circuit_inet (dirx : bool) (cells : list hcell) (net : list hpin) : list ipin :=
  map (fun p => let c := nth (pc p) cells dcell in
                (pc p, if dirx then pin_x_offset (ho c) (hw c) (hh c) (pxo p) (pyo p)
                       else pin_y_offset (ho c) (hw c) (hh c) (pxo p) (pyo p))) net.
Definition circuit_gpos (dirx : bool) (cells : list hcell) : list Z :=
  map (fun c => if dirx then hx c else hy c) cells.

Lemma circuit_pin_fits dirx cells net : Forall hcell_dom cells -> Forall (hpin_dom cells) net ->
  Forall (fun p => fits (I32, ipin_pos (circuit_gpos dirx cells) p)) (circuit_inet dirx cells net).
Proof.
  intros Hc Hn. unfold circuit_inet. apply Forall_forall. intros q Hq. apply in_map_iff in Hq.
  destruct Hq as (p & <- & Hp). assert (Hd : hpin_dom cells p) by (rewrite Forall_forall in Hn; apply Hn; exact Hp).
  destruct (pin_range cells p Hc Hd) as [Rx Ry]. unfold ipin_pos, circuit_gpos. cbn [fst snd].
  destruct dirx.
  - change 0 with (hx dcell). rewrite (map_nth hx). fold (pin_px cells p). apply h32. lia.
  - change 0 with (hy dcell). rewrite (map_nth hy). fold (pin_py cells p). apply h32. lia.
Qed.

(* on C07's domain of Circuit::hpwl (cell positions within [-2^22, 2^22], oriented pin offsets within
   [-2^23, 2^23]) the folding of every net of the circuit, over every subset and in both directions, is
   computed in int without overflow and is exact *)
Theorem circuit_folding_exact_machine dirx cells nets subset net :
  hpwl_dom cells nets -> In net nets ->
  let gpos := circuit_gpos dirx cells in let inet := circuit_inet dirx cells net in
  topo_net_m gpos subset inet = Some (topo_net gpos subset inet) /\
  net_minmax_m (local_vec gpos subset) (topo_net gpos subset inet) = Some (net_minmax gpos inet).
Proof.
  intros (Hc & Hn & _) Hin. cbv zeta. apply subset_folding_exact_machine. apply circuit_pin_fits; [exact Hc|].
  rewrite Forall_forall in Hn. apply Hn. exact Hin.
Qed.

Example folding_machine_nonvacuous :
  topo_net_m [0; 10; -5] [1%nat] [(0%nat, 1); (1%nat, 2); (2%nat, 0)] = Some [(0%nat, 2); (1%nat, -5); (1%nat, 1)] /\
  net_minmax_m (local_vec [0; 10; -5] [1%nat]) [(0%nat, 2); (1%nat, -5); (1%nat, 1)] = Some (-5, 12) /\
  topo_net_m [2147483647; 0] [1%nat] [(0%nat, 1); (1%nat, 0)] = None.
Proof. repeat split; vm_compute; reflexivity. Qed.
