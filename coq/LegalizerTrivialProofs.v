(* C01, last clause: the RAW legalizer model never fails when success is trivial.
   Row-high cells without row polarity whose total width is at most the total width of the
   free segments less one maximum cell width per segment are all placed by the Abacus pass,
   for every cell order that lists every cell once.
   Also the plumbing shared with LegalizerIdempotentProofs (forward reading of
   a_fill / import / select, the segments handed to the Abacus pass). *)
From Coq Require Import List ZArith Lia Bool Arith.
Import ListNotations.
Require Import CV.Orient CV.FreeSpace CV.FreeSpaceProofs CV.RowLeg CV.RowLegProofs CV.Circuit CV.CircuitProofs
               CV.Legalizer CV.LegalizerProofs CV.LegalizerAbacusProofs CV.LegalizerSoundProofs.
Local Open Scope Z_scope.

(* ------------------------------------------------------------------ *)
(* sums *)

Lemma sumZ_app l1 l2 : sumZ (l1 ++ l2) = sumZ l1 + sumZ l2.
Proof. unfold sumZ. induction l1 as [|a l IH]; cbn [app fold_right]; [reflexivity|]. rewrite IH. lia. Qed.

Lemma sumZ_cons x l : sumZ (x :: l) = x + sumZ l.
Proof. reflexivity. Qed.

Lemma sumZ_nonneg l : Forall (fun x => 0 <= x) l -> 0 <= sumZ l.
Proof. unfold sumZ. induction 1; cbn [fold_right]; lia. Qed.

Lemma maxZ_ge l x : In x l -> x <= maxZ l.
Proof. unfold maxZ. induction l as [|a l IH]; cbn [In fold_right]; [tauto|]. intros [->|H]; [lia|]. specialize (IH H). lia. Qed.

(* a sum above (length * b) has a term above b *)
Lemma sum_gt_exists (l : list Z) b : Z.of_nat (length l) * b < sumZ l -> exists x, In x l /\ b < x.
Proof.
  unfold sumZ. induction l as [|a l IH]; cbn [length fold_right]; [lia|]. intros H.
  destruct (Z_lt_le_dec b a) as [Ha|Ha]; [exists a; split; [left; reflexivity|exact Ha]|].
  destruct IH as (x & Hx & Hbx); [lia|]. exists x. split; [right; exact Hx|exact Hbx].
Qed.

Lemma sumZ_upd {A} (f : A -> Z) (l : list A) i a old :
  nth_error l i = Some old -> sumZ (map f (upd l i a)) = sumZ (map f l) - f old + f a.
Proof.
  unfold sumZ. revert i. induction l as [|x l IH]; intros [|i]; cbn [nth_error upd map fold_right]; try discriminate.
  - intros [= ->]. lia.
  - intros H. rewrite (IH i H). lia.
Qed.

(* the sum over a duplicate-free sub-collection of non-negative terms *)
Lemma sum_incl {A} (h : A -> Z) (l : list A) : forall l2,
  (forall a, In a l2 -> 0 <= h a) -> NoDup l -> incl l l2 -> sumZ (map h l) <= sumZ (map h l2).
Proof.
  induction l as [|a l IH]; intros l2 Hh Hnd Hin.
  - apply sumZ_nonneg. apply Forall_forall. intros x Hx. apply in_map_iff in Hx as (y & <- & Hy). apply Hh. exact Hy.
  - inversion Hnd as [|? ? Ha Hnd']; subst.
    destruct (in_split a l2 (Hin a (or_introl eq_refl))) as (l21 & l22 & ->).
    assert (Hin' : incl l (l21 ++ l22)).
    { intros x Hx. specialize (Hin x (or_intror Hx)). apply in_app_or in Hin as [H|[H|H]].
      - apply in_or_app. left. exact H.
      - subst x. contradiction.
      - apply in_or_app. right. exact H. }
    assert (Hh' : forall x, In x (l21 ++ l22) -> 0 <= h x).
    { intros x Hx. apply Hh. apply in_app_or in Hx as [H|H]; apply in_or_app; [left; exact H|right; right; exact H]. }
    specialize (IH (l21 ++ l22) Hh' Hnd' Hin').
    rewrite map_app, sumZ_app in *. cbn [map]. rewrite !sumZ_cons. lia.
Qed.

(* ------------------------------------------------------------------ *)
(* list plumbing *)

Lemma combine_seq_In {A} (L : list A) : forall s i c,
  nth_error L i = Some c -> In ((s + i)%nat, c) (combine (seq s (length L)) L).
Proof.
  induction L as [|x L IH]; intros s [|i] c; cbn [nth_error length seq combine In]; try discriminate.
  - intros [= ->]. left. f_equal. lia.
  - intros H. right. replace (s + S i)%nat with (S s + i)%nat by lia. apply IH. exact H.
Qed.

Lemma combine_seq_snd {A} (L : list A) : forall s, map snd (combine (seq s (length L)) L) = L.
Proof. induction L as [|x L IH]; intros s; cbn [length seq combine map snd]; [reflexivity|]. rewrite IH. reflexivity. Qed.

Lemma Forall2_upd {A B} (P : A -> B -> Prop) l l' i a b :
  Forall2 P l l' -> P a b -> Forall2 P (upd l i a) (upd l' i b).
Proof.
  intros H. revert i. induction H as [|x y l l' Hxy H IH]; intros [|i] Hab; cbn [upd]; constructor; auto.
Qed.

Lemma Forall2_len {A B} (P : A -> B -> Prop) l l' : Forall2 P l l' -> length l = length l'.
Proof. induction 1; cbn [length]; congruence. Qed.

Lemma In_zrange j a b : In j (zrange a b) <-> a <= j < b.
Proof.
  unfold zrange. rewrite in_map_iff. split.
  - intros (k & <- & Hk). apply in_seq in Hk. lia.
  - intros H. exists (Z.to_nat (j - a)). split; [lia|]. apply in_seq. lia.
Qed.

Lemma nthZ_Some_of_nat {A} (l : list A) i x : nth_error l i = Some x -> nthZ l (Z.of_nat i) = Some x.
Proof. intros H. rewrite nthZ_of_nat. exact H. Qed.

(* ------------------------------------------------------------------ *)
(* sort_rows keeps sums and lengths *)

Definition rwidth (r : row) : Z := maxX (rr r) - minX (rr r).

Lemma insert_row_sum r l : sumZ (map rwidth (insert_row r l)) = rwidth r + sumZ (map rwidth l).
Proof.
  unfold sumZ. induction l as [|x l IH]; cbn [insert_row map fold_right]; [reflexivity|].
  destruct (_ || _); cbn [map fold_right]; [reflexivity|]. rewrite IH. lia.
Qed.

Lemma insert_row_length r l : length (insert_row r l) = S (length l).
Proof. induction l as [|x l IH]; cbn [insert_row length]; [reflexivity|]. destruct (_ || _); cbn [length]; [reflexivity|]. rewrite IH. reflexivity. Qed.

Lemma sort_rows_sum l : sumZ (map rwidth (sort_rows l)) = sumZ (map rwidth l).
Proof.
  induction l as [|x l IH]; cbn [sort_rows fold_right map]; [reflexivity|]. fold (sort_rows l).
  rewrite insert_row_sum, IH. reflexivity.
Qed.

Lemma sort_rows_length l : length (sort_rows l) = length l.
Proof.
  induction l as [|x l IH]; cbn [sort_rows fold_right length]; [reflexivity|]. fold (sort_rows l).
  rewrite insert_row_length, IH. reflexivity.
Qed.

(* ------------------------------------------------------------------ *)
(* the segments handed to the Abacus pass when nothing is placed yet *)

Lemma placed_obs_none (cells : list cell) :
  placed_obs cells (map (fun _ => @None (Z * Z * orient)) cells) = [].
Proof. unfold placed_obs. induction cells as [|c cells IH]; cbn [map combine flat_map app]; [reflexivity|exact IH]. Qed.

Lemma freespace_rows_no_obs r :
  minX (rr r) < maxX (rr r) -> minY (rr r) < maxY (rr r) -> freespace_rows r [] = [r].
Proof.
  intros Hx Hy. unfold freespace_rows, freespace_iv.
  replace (minX (rr r) <? maxX (rr r)) with true by (symmetry; apply Z.ltb_lt; exact Hx).
  replace (minY (rr r) <? maxY (rr r)) with true by (symmetry; apply Z.ltb_lt; exact Hy).
  cbn. destruct r as [[a b c d] o]. reflexivity.
Qed.

Definition nonempty_row (r : row) : Prop := minX (rr r) < maxX (rr r) /\ minY (rr r) < maxY (rr r).

Lemma remaining_rows_none rows (cells : list cell) :
  (forall r, In r rows -> nonempty_row r) ->
  remaining_rows rows cells (map (fun _ => @None (Z * Z * orient)) cells) = rows.
Proof.
  intros H. rewrite remaining_rows_eq, placed_obs_none.
  induction rows as [|r rows IH]; cbn [flat_map]; [reflexivity|].
  destruct (H r (or_introl eq_refl)) as [Hx Hy]. rewrite (freespace_rows_no_obs r Hx Hy). cbn [app].
  f_equal. apply IH. intros r' Hr'. apply H. right. exact Hr'.
Qed.

Lemma freespace_rows_nonempty r obs s : In s (freespace_rows r obs) -> nonempty_row s.
Proof.
  intros Hs. pose proof (freespace_rows_shape _ _ _ Hs) as (Y1 & Y2 & _ & _ & Hx & _).
  split; [exact Hx|]. unfold freespace_rows, freespace_iv in Hs.
  destruct ((minX (rr r) <? maxX (rr r)) && (minY (rr r) <? maxY (rr r))) eqn:E; [|destruct Hs].
  apply andb_true_iff in E as [_ E]. apply Z.ltb_lt in E. lia.
Qed.

Lemma free_rows_nonempty c s : In s (free_rows c) -> nonempty_row s.
Proof. intros H. apply free_rows_In in H as (r & obs & _ & H). eapply freespace_rows_nonempty; exact H. Qed.

(* ------------------------------------------------------------------ *)
(* select, forward *)

Lemma select_fst cells st order keep :
  map fst (select cells st order keep) =
  filter (fun ci => match nth_error cells ci, nth_error st ci with
                    | Some c, Some None => keep c | _, _ => false end) order.
Proof.
  unfold select. induction order as [|ci order IH]; cbn [flat_map filter]; [reflexivity|].
  rewrite map_app, IH. destruct (nth_error cells ci) as [c|]; [|reflexivity].
  destruct (nth_error st ci) as [[v|]|]; try reflexivity. destruct (keep c); reflexivity.
Qed.

Lemma select_NoDup cells st order keep : NoDup order -> NoDup (select cells st order keep).
Proof. intros H. apply (NoDup_map_inv fst). rewrite select_fst. apply NoDup_filter. exact H. Qed.

Lemma select_NoDup_fst cells st order keep : NoDup order -> NoDup (map fst (select cells st order keep)).
Proof. intros H. rewrite select_fst. apply NoDup_filter. exact H. Qed.

Lemma select_In cells st order keep ci c :
  In ci order -> nth_error cells ci = Some c -> nth_error st ci = Some None -> keep c = true ->
  In (ci, c) (select cells st order keep).
Proof.
  intros Hin Hc Hs Hk. unfold select. apply in_flat_map. exists ci. split; [exact Hin|].
  cbv beta. rewrite Hc. unfold placed in *. rewrite Hs, Hk. left. reflexivity.
Qed.

Lemma st0_nth (cells : list cell) ci c :
  nth_error cells ci = Some c -> nth_error (map (fun _ : cell => @None (Z * Z * orient)) cells) ci = Some None.
Proof. intros H. rewrite (map_nth_error _ _ _ H). reflexivity. Qed.

(* ------------------------------------------------------------------ *)
(* import, forward: a slot that receives a value ends up with a value *)

Definition has_value (st : list placed) (ci : nat) : Prop := exists v, nth_error st ci = Some (Some v).

Lemma import_some sel res : forall st ci,
  (ci < length st)%nat ->
  has_value st ci \/ (exists m c v, nth_error sel m = Some (ci, c) /\ nth_error res m = Some (Some v)) ->
  has_value (import st sel res) ci.
Proof.
  unfold import. revert res. induction sel as [|[cj c0] sel IH]; intros [|p res] st ci Hlen H; cbn [combine fold_left].
  - destruct H as [H|(m & c & v & H & _)]; [exact H|destruct m; discriminate].
  - destruct H as [H|(m & c & v & H & _)]; [exact H|destruct m; discriminate].
  - destruct H as [H|(m & c & v & _ & H)]; [exact H|destruct m; discriminate].
  - apply IH.
    + destruct p; [rewrite upd_length|]; exact Hlen.
    + destruct H as [(v & Hv)|(m & c & v & Hm & Hr)].
      * left. destruct p as [v'|]; [|exists v; exact Hv].
        destruct (Nat.eq_dec cj ci) as [->|Hne].
        -- exists v'. apply nth_error_upd_eq. exact Hlen.
        -- exists v. rewrite nth_error_upd_neq by exact Hne. exact Hv.
      * destruct m as [|m]; cbn [nth_error] in Hm, Hr.
        -- injection Hm as -> ->. injection Hr as ->. left. exists v. apply nth_error_upd_eq. exact Hlen.
        -- right. exists m, c, v. split; assumption.
Qed.

(* ------------------------------------------------------------------ *)
(* a_fill, forward *)
Section FillForward.
Variable rows : list row.
Variable cells : list cell.

Lemma a_write_keeps i r res p ci : has_value res ci -> has_value (a_write rows cells i r res p) ci.
Proof.
  intros (v & Hv). destruct p as [cj x]. unfold a_write.
  destruct (nth_error cells cj) as [c|]; [|exists v; exact Hv].
  destruct (get_orientation rows c i) as [o|]; [|exists v; exact Hv].
  destruct (Nat.eq_dec cj ci) as [->|Hne].
  - eexists. apply nth_error_upd_eq. apply nth_error_Some. congruence.
  - exists v. rewrite nth_error_upd_neq by exact Hne. exact Hv.
Qed.

Lemma fold_write_some i r l : forall res ci,
  (ci < length res)%nat ->
  has_value res ci \/ (exists x c o, In (ci, x) l /\ nth_error cells ci = Some c /\ get_orientation rows c i = Some o) ->
  has_value (fold_left (a_write rows cells i r) l res) ci.
Proof.
  induction l as [|[cj x] l IH]; intros res ci Hlen H; cbn [fold_left].
  - destruct H as [H|(x & c & o & [] & _)]. exact H.
  - apply IH.
    + unfold a_write. destruct (nth_error cells cj) as [c|]; [|exact Hlen].
      destruct (get_orientation rows c i); [rewrite upd_length|]; exact Hlen.
    + destruct H as [H|(x' & c & o & [Hin|Hin] & Hc & Ho)].
      * left. apply a_write_keeps. exact H.
      * injection Hin as -> ->. left. unfold a_write. rewrite Hc, Ho. eexists. apply nth_error_upd_eq. exact Hlen.
      * right. exists x', c, o. repeat split; assumption.
Qed.

Lemma a_fill_some rws : forall i lgs rcl res ci,
  (ci < length res)%nat ->
  has_value res ci \/
  (exists j r lg rc x c o, nth_error rws j = Some r /\ nth_error lgs j = Some lg /\ nth_error rcl j = Some rc /\
      In (ci, x) (combine rc (placement lg)) /\ nth_error cells ci = Some c /\
      get_orientation rows c (i + Z.of_nat j) = Some o) ->
  has_value (a_fill rows cells i rws lgs rcl res) ci.
Proof.
  induction rws as [|r rws IH]; intros i lgs rcl res ci Hlen H.
  - cbn [a_fill]. destruct H as [H|(j & r & lg & rc & x & c & o & H & _)]; [exact H|destruct j; discriminate].
  - destruct lgs as [|lg lgs].
    { cbn [a_fill]. destruct H as [H|(j & r' & lg & rc & x & c & o & _ & H & _)]; [exact H|destruct j; discriminate]. }
    destruct rcl as [|rc rcl].
    { cbn [a_fill]. destruct H as [H|(j & r' & lg' & rc & x & c & o & _ & _ & H & _)]; [exact H|destruct j; discriminate]. }
    cbn [a_fill]. apply IH.
    + rewrite fold_write_length. exact Hlen.
    + destruct H as [H|(j & r' & lg' & rc' & x & c & o & H1 & H2 & H3 & H4 & H5 & H6)].
      * left. apply fold_write_some; [exact Hlen|left; exact H].
      * destruct j as [|j]; cbn [nth_error] in H1, H2, H3.
        -- injection H1 as ->. injection H2 as ->. injection H3 as ->. left.
           apply fold_write_some; [exact Hlen|right]. rewrite Z.add_0_r in H6. exists x, c, o. repeat split; assumption.
        -- right. exists j, r', lg', rc', x, c, o. repeat split; try assumption.
           replace (i + 1 + Z.of_nat j) with (i + Z.of_nat (S j)) by lia. exact H6.
Qed.
End FillForward.

Lemma placement_aux_len b e : forall cp ws u m,
  cp_ok b e cp ws u -> length (placement_aux cp ws u m) = length ws.
Proof.
  induction cp as [|c cp IH]; intros [|w ws] u m; cbn [cp_ok placement_aux length]; try tauto.
  intros (_ & _ & _ & H). f_equal. apply IH; exact H.
Qed.

(* a cell recorded in a segment is read back *)
Lemma recorded_in_combine rows cells i r lg rc ci :
  row_ok rows cells i r lg rc -> In ci rc -> exists x, In (ci, x) (combine rc (placement lg)).
Proof.
  intros (_ & _ & Hcp & _ & _ & Hf) Hin.
  assert (Hlen : length rc = length (placement lg)).
  { unfold placement. rewrite rev_length. rewrite (placement_aux_len _ _ _ _ _ None Hcp).
    apply Forall2_len in Hf. rewrite rev_length in Hf. exact Hf. }
  apply In_nth_error in Hin as [k Hk].
  assert (Hk' : (k < length (placement lg))%nat) by (rewrite <- Hlen; apply nth_error_Some; congruence).
  apply nth_error_Some in Hk'. destruct (nth_error (placement lg) k) as [x|] eqn:Ex; [|congruence].
  exists x. clear Hk' Hlen Hf Hcp. revert k Hk Ex. generalize (placement lg) as pl.
  induction rc as [|a rc IH]; intros [|y pl] [|k]; cbn [nth_error combine In]; try discriminate.
  - intros [= ->] [= ->]. left. reflexivity.
  - intros H1 H2. right. eapply IH; eassumption.
Qed.

(* ------------------------------------------------------------------ *)
(* the row scan finds a row whenever one passes every test of evaluatePlacement *)
Section Scan.
Variable rows : list row.

(* row j is acceptable for c (the second disjunct of good_row) *)
Definition passes (legs : list rl) (c : cell) (j : Z) : Prop :=
  exists r lg, nthZ rows j = Some r /\ nthZ legs j = Some lg /\
               maxY (rr r) - minY (rr r) = ch c /\ cw c <= remaining_space lg /\
               exists o, get_orientation rows c j = Some o /\ o <> oINVALID.

Lemma a_try_keeps legs c i st : fst st <> -1 -> fst (snd (a_try rows legs c i st)) <> -1.
Proof.
  destruct st as [bestRow bestDist]. unfold a_try. cbn [fst snd]. intros Hg.
  destruct (nthZ rows i) as [r|] eqn:Er; [|exact Hg].
  destruct (nthZ legs i) as [lg|] eqn:El; [|exact Hg].
  destruct (negb (maxY (rr r) - minY (rr r) =? ch c)); [exact Hg|].
  destruct (negb (bestRow =? -1) && (bestDist <? cw c * Z.abs (minY (rr r) - cty c))); [exact Hg|].
  destruct (remaining_space lg <? cw c); [exact Hg|].
  destruct (get_orientation rows c i) as [o|]; [|exact Hg].
  destruct (orient_eqb o oINVALID); [exact Hg|].
  destruct ((bestRow =? -1) || (_ <? bestDist)); [|exact Hg].
  cbn [fst snd]. apply nthZ_Some in Er as [Hi _]. lia.
Qed.

(* the scan stops early only when a candidate has been found *)
Lemma a_try_stop legs c i st : fst (a_try rows legs c i st) = true -> fst st <> -1.
Proof.
  destruct st as [bestRow bestDist]. unfold a_try. cbn [fst snd].
  destruct (nthZ rows i) as [r|]; [|discriminate].
  destruct (nthZ legs i) as [lg|]; [|discriminate].
  destruct (negb (maxY (rr r) - minY (rr r) =? ch c)); [discriminate|].
  destruct (negb (bestRow =? -1) && (bestDist <? cw c * Z.abs (minY (rr r) - cty c))) eqn:E.
  - intros _. apply andb_true_iff in E as [E _]. apply negb_true_iff, Z.eqb_neq in E. exact E.
  - destruct (remaining_space lg <? cw c); [discriminate|].
    destruct (get_orientation rows c i) as [o|]; [|discriminate].
    destruct (orient_eqb o oINVALID); [discriminate|].
    destruct ((bestRow =? -1) || (_ <? bestDist)); discriminate.
Qed.

Lemma a_try_found legs c j st : passes legs c j -> fst (snd (a_try rows legs c j st)) <> -1.
Proof.
  intros (r & lg & Hr & Hl & Hh & Hrem & o & Ho & Hoi).
  destruct st as [bestRow bestDist]. unfold a_try. cbn [fst snd]. rewrite Hr, Hl.
  replace (negb (maxY (rr r) - minY (rr r) =? ch c)) with false
    by (symmetry; apply negb_false_iff, Z.eqb_eq; exact Hh).
  destruct (negb (bestRow =? -1) && (bestDist <? cw c * Z.abs (minY (rr r) - cty c))) eqn:E.
  { cbn [fst snd]. apply andb_true_iff in E as [E _]. apply negb_true_iff, Z.eqb_neq in E. exact E. }
  replace (remaining_space lg <? cw c) with false by (symmetry; apply Z.ltb_ge; exact Hrem).
  rewrite Ho. replace (orient_eqb o oINVALID) with false.
  2:{ symmetry. destruct (orient_eqb o oINVALID) eqn:Eo; [|reflexivity]. apply orient_eqb_eq in Eo. contradiction. }
  destruct (bestRow =? -1) eqn:Eb; cbn [orb].
  - cbn [fst snd]. apply nthZ_Some in Hr as [Hj _]. lia.
  - apply Z.eqb_neq in Eb. destruct (_ <? bestDist); cbn [fst snd]; [apply nthZ_Some in Hr as [Hj _]; lia|exact Eb].
Qed.

Lemma a_scan_keeps legs c idx : forall st, fst st <> -1 -> fst (a_scan rows legs c idx st) <> -1.
Proof.
  induction idx as [|i idx IH]; intros st Hg; cbn [a_scan]; [exact Hg|].
  pose proof (a_try_keeps legs c i st Hg) as Ht.
  destruct (a_try rows legs c i st) as [stop st']. cbn [snd] in Ht.
  destruct stop; [exact Ht|apply IH; exact Ht].
Qed.

Lemma a_scan_found legs c j idx : forall st,
  In j idx -> passes legs c j -> fst (a_scan rows legs c idx st) <> -1.
Proof.
  induction idx as [|i idx IH]; intros st Hin Hp; [destruct Hin|]. cbn [a_scan].
  pose proof (a_try_stop legs c i st) as Hstop.
  destruct (a_try rows legs c i st) as [stop st'] eqn:Et. cbn [fst] in Hstop.
  destruct stop.
  - specialize (Hstop eq_refl). pose proof (a_try_keeps legs c i st Hstop) as Hk. rewrite Et in Hk. exact Hk.
  - destruct Hin as [->|Hin].
    + apply a_scan_keeps. pose proof (a_try_found legs c j st Hp) as Hf. rewrite Et in Hf. exact Hf.
    + apply IH; assumption.
Qed.

(* both sweeps of placeCell together visit every row index *)
Lemma a_place_scan_found legs c j init :
  passes legs c j ->
  fst (a_scan rows legs c (rev (zrange 0 init))
         (a_scan rows legs c (zrange init (Z.of_nat (length rows))) (-1, 9223372036854775807))) <> -1.
Proof.
  intros Hp. pose proof Hp as (r & lg & Hr & _). apply nthZ_Some in Hr as [Hj0 Hr].
  assert (Hjn : j < Z.of_nat (length rows)).
  { assert (Z.to_nat j < length rows)%nat by (apply nth_error_Some; congruence). lia. }
  destruct (Z_lt_le_dec j init) as [Hlt|Hge].
  - apply (a_scan_found legs c j); [|exact Hp]. apply -> in_rev. apply In_zrange. lia.
  - apply a_scan_keeps. apply (a_scan_found legs c j); [|exact Hp]. apply In_zrange. lia.
Qed.
End Scan.

Lemma push_used s w t : used (fst (push s w t)) = used s + w.
Proof.
  unfold push, get_displacement.
  destruct (pop_loop _ _ _ _ _ _ _ _) as [[[[q passed] slope] cur] cost]. reflexivity.
Qed.

Lemma push_remaining s w t : remaining_space (fst (push s w t)) = remaining_space s - w.
Proof. unfold remaining_space. destruct (push_fields s w t) as (-> & -> & _). rewrite push_used. lia. Qed.

(* ------------------------------------------------------------------ *)
(* the Abacus loop places every cell when there is room to spare *)
Section AllPlaced.
Variable rows : list row.
Variable cells : list cell.
Variable rh maxw : Z.
Hypothesis Hheight : forall r, In r rows -> maxY (rr r) - minY (rr r) = rh.
Hypothesis Hcells : Forall (fun c => 0 < cw c <= maxw /\ ch c = rh /\ cpol c = pANY /\ cor c <> oINVALID) cells.
Hypothesis Hroom : sumZ (map cw cells) <= sumZ (map rwidth rows) - Z.of_nat (length rows) * maxw.

Record PInv (legs : list rl) (rcs : list (list nat)) (n : nat) : Prop := {
  pi_a : AInv rows cells legs rcs n;
  pi_room : sumZ (map remaining_space legs) = sumZ (map rwidth rows) - sumZ (map cw (firstn n cells));
  pi_all : forall ci, (ci < n)%nat -> exists i rc, nth_error rcs i = Some rc /\ In ci rc }.

Lemma p_init : PInv (map (fun r => rl_init (minX (rr r)) (maxX (rr r))) rows) (map (fun _ => @nil nat) rows) 0.
Proof.
  clear Hheight Hcells Hroom. constructor.
  - apply a_init_inv.
  - cbn [firstn map]. rewrite map_map. unfold sumZ at 3. cbn [fold_right]. rewrite Z.sub_0_r.
    f_equal. apply map_ext. intros r. unfold remaining_space, rl_init, rwidth. cbn. lia.
  - intros ci H. lia.
Qed.

Lemma firstn_snoc {A} (pre : list A) c cs : firstn (S (length pre)) (pre ++ c :: cs) = pre ++ [c].
Proof. induction pre as [|x pre IH]; cbn [length app firstn]; [reflexivity|]. f_equal. exact IH. Qed.

Lemma firstn_pre {A} (pre : list A) cs : firstn (length pre) (pre ++ cs) = pre.
Proof. induction pre as [|x pre IH]; cbn [length app firstn]; [destruct cs; reflexivity|]. f_equal. exact IH. Qed.

Lemma p_step pre c cs legs rcs legs' rcs' b :
  cells = pre ++ c :: cs -> PInv legs rcs (length pre) ->
  a_place rows legs rcs (length pre) c = (legs', rcs', b) -> PInv legs' rcs' (S (length pre)).
Proof.
  intros Hsplit [HA Hroom' Hall] Hp.
  assert (Hcin : In c cells) by (rewrite Hsplit; apply in_or_app; right; left; reflexivity).
  rewrite Forall_forall in Hcells. destruct (Hcells c Hcin) as ((Hw0 & Hwm) & Hch & Hpol & Hcor).
  assert (Hcn : nth_error cells (length pre) = Some c).
  { rewrite Hsplit, nth_error_app2 by lia. rewrite Nat.sub_diag. reflexivity. }
  pose proof (a_place_inv rows cells legs rcs (length pre) c legs' rcs' b HA Hcn Hw0 Hp) as HA'.
  (* some segment has room for c *)
  assert (Hex : exists lg, In lg legs /\ cw c <= remaining_space lg).
  { destruct (sum_gt_exists (map remaining_space legs) (cw c - 1)) as (x & Hx & Hbx).
    - rewrite map_length, (ai_len1 _ _ _ _ _ HA), Hroom'.
      rewrite Hsplit, firstn_pre. rewrite Hsplit, map_app, sumZ_app in Hroom. cbn [map] in Hroom. rewrite sumZ_cons in Hroom.
      assert (0 <= sumZ (map cw cs)).
      { apply sumZ_nonneg. apply Forall_forall. intros x Hx. apply in_map_iff in Hx as (c' & <- & Hc').
        assert (In c' cells) by (rewrite Hsplit; apply in_or_app; right; right; exact Hc').
        destruct (Hcells c' H) as ((? & _) & _). lia. }
      assert (0 <= Z.of_nat (length rows)) by lia. nia.
    - apply in_map_iff in Hx as (lg & <- & Hlg). exists lg. split; [exact Hlg|lia]. }
  destruct Hex as (lg & Hlg & Hrem). apply In_nth_error in Hlg as [j Hj].
  assert (Hjr : (j < length rows)%nat) by (rewrite <- (ai_len1 _ _ _ _ _ HA); apply nth_error_Some; congruence).
  destruct (nth_error rows j) as [r|] eqn:Er; [|apply nth_error_None in Er; lia].
  assert (Hpass : passes rows legs c (Z.of_nat j)).
  { exists r, lg. rewrite !nthZ_of_nat. repeat split; try assumption.
    - rewrite Hch. apply Hheight. eapply nth_error_In; exact Er.
    - exists (cor c). split; [|exact Hcor]. unfold get_orientation. rewrite nthZ_of_nat, Er, Hpol. reflexivity. }
  (* hence the scan returns a row *)
  unfold a_place in Hp.
  pose proof (a_place_scan_found rows legs c (Z.of_nat j) (closest_row rows (cty c)) Hpass) as Hfound.
  pose proof (a_scan_good rows legs c (rev (zrange 0 (closest_row rows (cty c))))
     (a_scan rows legs c (zrange (closest_row rows (cty c)) (Z.of_nat (length rows))) (-1, 9223372036854775807))) as Hg.
  destruct (a_scan rows legs c (rev _) _) as [bestRow bd]. cbn [fst] in Hfound, Hg.
  replace (bestRow =? -1) with false in Hp by (symmetry; apply Z.eqb_neq; exact Hfound).
  assert (Hgood : good_row rows legs c bestRow) by (apply Hg; apply a_scan_good; left; reflexivity).
  destruct Hgood as [->|(r1 & lg1 & Hr1 & Hl1 & _ & Hrem1 & _)]; [contradiction|].
  rewrite Hl1 in Hp. apply nthZ_Some in Hl1 as [Hb0 Hl1].
  assert (Hbr : (Z.to_nat bestRow < length rcs)%nat).
  { rewrite (ai_len2 _ _ _ _ _ HA), <- (ai_len1 _ _ _ _ _ HA). apply nth_error_Some. congruence. }
  destruct (nthZ rcs bestRow) as [rc|] eqn:Erc.
  2:{ unfold nthZ in Erc. replace (bestRow <? 0) with false in Erc by (symmetry; apply Z.ltb_ge; lia).
      apply nth_error_None in Erc. lia. }
  apply nthZ_Some in Erc as [_ Erc]. injection Hp as <- <- <-.
  constructor.
  - exact HA'.
  - rewrite (sumZ_upd remaining_space legs _ _ lg1 Hl1), push_remaining, Hroom'.
    rewrite Hsplit, firstn_snoc, firstn_pre, map_app, sumZ_app. cbn [map]. rewrite sumZ_cons. change (sumZ []) with 0. lia.
  - intros ci Hci. destruct (Nat.eq_dec ci (length pre)) as [->|Hne].
    + exists (Z.to_nat bestRow), (rc ++ [length pre]). split; [apply nth_error_upd_eq; exact Hbr|].
      apply in_or_app. right. left. reflexivity.
    + destruct (Hall ci) as (i & rc' & Hi & Hin); [lia|].
      destruct (Nat.eq_dec i (Z.to_nat bestRow)) as [->|Hni].
      * rewrite Erc in Hi. injection Hi as <-. exists (Z.to_nat bestRow), (rc ++ [length pre]).
        split; [apply nth_error_upd_eq; exact Hbr|]. apply in_or_app. left. exact Hin.
      * exists i, rc'. split; [|exact Hin]. rewrite nth_error_upd_neq by congruence. exact Hi.
Qed.

Lemma p_loop cs : forall pre legs rcs,
  cells = pre ++ cs -> PInv legs rcs (length pre) ->
  forall legs' rcs' n', fold_left (a_step rows) cs (legs, rcs, length pre) = (legs', rcs', n') ->
  PInv legs' rcs' (length cells).
Proof.
  induction cs as [|c cs IH]; intros pre legs rcs Hsplit HI legs' rcs' n'; cbn [fold_left].
  - intros [= <- <- <-]. rewrite Hsplit, app_nil_r. exact HI.
  - unfold a_step at 2. destruct (a_place rows legs rcs (length pre) c) as [[legs1 rcs1] b] eqn:Ep.
    pose proof (p_step pre c cs legs rcs legs1 rcs1 b Hsplit HI Ep) as HI1.
    replace (S (length pre)) with (length (pre ++ [c])) in * by (rewrite app_length; cbn; lia).
    apply IH; [rewrite <- app_assoc; exact Hsplit|exact HI1].
Qed.
End AllPlaced.

(* every cell gets a position *)
Theorem abacus_all_placed rows0 cells rh maxw :
  (forall r, In r rows0 -> maxY (rr r) - minY (rr r) = rh) ->
  Forall (fun c => 0 < cw c <= maxw /\ ch c = rh /\ cpol c = pANY /\ cor c <> oINVALID) cells ->
  sumZ (map cw cells) <= sumZ (map rwidth rows0) - Z.of_nat (length rows0) * maxw ->
  forall ci, (ci < length cells)%nat -> has_value (abacus_run rows0 cells) ci.
Proof.
  intros Hh Hc Hroom ci Hci. set (rows := sort_rows rows0).
  assert (Hh' : forall r, In r rows -> maxY (rr r) - minY (rr r) = rh).
  { intros r Hr. apply Hh. apply sort_rows_In. exact Hr. }
  assert (Hroom' : sumZ (map cw cells) <= sumZ (map rwidth rows) - Z.of_nat (length rows) * maxw).
  { unfold rows. rewrite sort_rows_sum, sort_rows_length. exact Hroom. }
  rewrite abacus_run_unfold. unfold abacus_rowlegs, abacus_rowcells. fold rows.
  destruct (abacus_state rows cells) as [[legs rcs] n] eqn:E. cbn [fst snd].
  pose proof (p_loop rows cells rh maxw Hh' Hc Hroom' cells [] _ _ eq_refl (p_init rows cells) legs rcs n E) as [HA _ Hall].
  destruct (Hall ci Hci) as (i & rc & Hi & Hin).
  assert (Hil : (i < length rows)%nat) by (rewrite <- (ai_len2 _ _ _ _ _ HA); apply nth_error_Some; congruence).
  destruct (nth_error rows i) as [r|] eqn:Er; [|apply nth_error_None in Er; lia].
  assert (Hill : (i < length legs)%nat) by (rewrite (ai_len1 _ _ _ _ _ HA); exact Hil).
  destruct (nth_error legs i) as [lg|] eqn:El; [|apply nth_error_None in El; lia].
  destruct (recorded_in_combine _ _ _ _ _ _ _ (ai_row _ _ _ _ _ HA i r lg rc Er El Hi) Hin) as (x & Hx).
  destruct (nth_error cells ci) as [c|] eqn:Ec; [|apply nth_error_None in Ec; lia].
  apply a_fill_some; [rewrite map_length; exact Hci|right].
  exists i, r, lg, rc, x, c. eexists. repeat split; try eassumption.
  unfold get_orientation. cbn [Z.add]. rewrite nthZ_of_nat, Er. reflexivity.
Qed.

(* ------------------------------------------------------------------ *)
(* Legalizer::run when every cell is one row high and no segment is empty: what it computes *)
Lemma legalize_rowhigh_eq rows0 cellsL order r0 rest :
  sort_rows rows0 = r0 :: rest ->
  Forall (fun c => ch c = maxY (rr r0) - minY (rr r0)) cellsL ->
  (forall r, In r rows0 -> nonempty_row r) ->
  let rh := maxY (rr r0) - minY (rr r0) in
  let st0 := map (fun _ => @None (Z * Z * orient)) cellsL in
  let sel := select cellsL st0 order (fun c => ch c =? rh) in
  let st2 := import st0 sel (abacus_run (sort_rows rows0) (map snd sel)) in
  legalize rows0 cellsL order = if forallb is_some st2 then Ok (vals st2) else NotAllPlaced.
Proof.
  intros Hs Hh Hne. cbv zeta. unfold legalize. rewrite Hs. cbv zeta.
  rewrite (select_nil cellsL _ order (fun c => maxY (rr r0) - minY (rr r0) <? ch c)).
  2:{ intros c Hc. rewrite Forall_forall in Hh. rewrite (Hh c Hc). apply Z.ltb_irrefl. }
  cbn [map import combine fold_left].
  rewrite remaining_rows_none.
  2:{ intros r Hr. apply Hne. apply sort_rows_In. rewrite Hs. exact Hr. }
  reflexivity.
Qed.

Lemma existsb_st0_nil order :
  existsb (fun ci => match nth_error (@nil placed) ci with Some None => true | _ => false end) order = false.
Proof. induction order as [|ci order IH]; cbn [existsb]; [reflexivity|]. rewrite IH. destruct ci; reflexivity. Qed.

Theorem legalize_trivial rows0 cellsL order rh maxw :
  (forall r, In r rows0 -> maxY (rr r) - minY (rr r) = rh /\ nonempty_row r) ->
  Forall (fun c => 0 < cw c <= maxw /\ ch c = rh /\ cpol c = pANY /\ cor c <> oINVALID) cellsL ->
  NoDup order -> (forall ci, (ci < length cellsL)%nat -> In ci order) ->
  sumZ (map cw cellsL) <= sumZ (map rwidth rows0) - Z.of_nat (length rows0) * maxw ->
  exists pl, legalize rows0 cellsL order = Ok pl.
Proof.
  intros Hrows Hcells Hnd Hcov Hroom.
  destruct (sort_rows rows0) as [|r0 rest] eqn:Hs.
  { (* no segment at all: no cell either *)
    assert (rows0 = []) by (apply length_zero_iff_nil; rewrite <- sort_rows_length, Hs; reflexivity). subst rows0.
    assert (cellsL = []).
    { destruct cellsL as [|c cs]; [reflexivity|]. exfalso. inversion Hcells as [|? ? Hc Hcs]; subst.
      assert (0 <= sumZ (map cw cs)).
      { apply sumZ_nonneg. apply Forall_forall. intros x Hx. apply in_map_iff in Hx as (c' & <- & Hc').
        rewrite Forall_forall in Hcs. specialize (Hcs c' Hc'). lia. }
      cbn [map length] in Hroom. rewrite sumZ_cons in Hroom. change (sumZ []) with 0 in Hroom. lia. }
    subst cellsL. exists []. unfold legalize. cbn [sort_rows fold_right map length]. rewrite existsb_st0_nil. reflexivity. }
  assert (Hr0 : maxY (rr r0) - minY (rr r0) = rh).
  { apply Hrows. apply sort_rows_In. rewrite Hs. left. reflexivity. }
  assert (Hh : Forall (fun c => ch c = maxY (rr r0) - minY (rr r0)) cellsL).
  { eapply Forall_impl; [|exact Hcells]. cbn. intros c (_ & H & _). lia. }
  rewrite (legalize_rowhigh_eq _ _ _ _ _ Hs Hh (fun r Hr => proj2 (Hrows r Hr))). cbv zeta. rewrite Hr0.
  set (st0 := map (fun _ : cell => @None (Z * Z * orient)) cellsL).
  set (sel := select cellsL st0 order (fun c => ch c =? rh)).
  set (cellsA := map snd sel).
  rewrite Forall_forall in Hcells.
  (* the Abacus pass places every selected cell *)
  assert (HcA : Forall (fun c => 0 < cw c <= maxw /\ ch c = rh /\ cpol c = pANY /\ cor c <> oINVALID) cellsA).
  { apply Forall_forall. intros c Hc. apply in_map_iff in Hc as ([ci c1] & <- & Hin).
    apply select_spec in Hin as (Hc1 & _). apply Hcells. eapply nth_error_In; exact Hc1. }
  assert (HsumA : sumZ (map cw cellsA) <= sumZ (map cw cellsL)).
  { unfold cellsA. rewrite map_map.
    replace (map cw cellsL) with (map cw (map snd (combine (seq 0 (length cellsL)) cellsL)))
      by (rewrite combine_seq_snd; reflexivity).
    rewrite map_map.
    apply sum_incl.
    - intros [ci c] Hin. cbn [snd]. apply in_combine_r in Hin. specialize (Hcells c Hin). lia.
    - apply select_NoDup. exact Hnd.
    - intros [ci c] Hin. apply select_spec in Hin as (Hc1 & _). apply (combine_seq_In cellsL 0 ci c Hc1). }
  assert (HA : forall m, (m < length cellsA)%nat -> has_value (abacus_run (sort_rows rows0) cellsA) m).
  { apply (abacus_all_placed (sort_rows rows0) cellsA rh maxw).
    - intros r Hr. apply Hrows. apply sort_rows_In. exact Hr.
    - exact HcA.
    - rewrite sort_rows_sum, sort_rows_length. lia. }
  replace (forallb is_some _) with true; [eexists; reflexivity|]. symmetry.
  apply forallb_forall. intros p Hp. apply In_nth_error in Hp as [ci Hci].
  assert (Hlen : (ci < length cellsL)%nat).
  { assert (ci < length (import st0 sel (abacus_run (sort_rows rows0) cellsA)))%nat by (apply nth_error_Some; congruence).
    rewrite import_length in H. unfold st0 in H. rewrite map_length in H. exact H. }
  destruct (nth_error cellsL ci) as [c|] eqn:Ec; [|apply nth_error_None in Ec; lia].
  assert (Hsel : In (ci, c) sel).
  { apply select_In; [apply Hcov; exact Hlen|exact Ec|apply st0_nth with (c := c); exact Ec|].
    apply Z.eqb_eq. apply (Hcells c). eapply nth_error_In; exact Ec. }
  apply In_nth_error in Hsel as [m Hm].
  assert (Hml : (m < length cellsA)%nat).
  { unfold cellsA. rewrite map_length. apply nth_error_Some. congruence. }
  destruct (HA m Hml) as (v & Hv).
  destruct (import_some sel (abacus_run (sort_rows rows0) cellsA) st0 ci) as (v' & Hv').
  - unfold st0. rewrite map_length. exact Hlen.
  - right. exists m, c, v. split; assumption.
  - rewrite Hv' in Hci. injection Hci as <-. reflexivity.
Qed.

(* ------------------------------------------------------------------ *)
(* circuit level *)

Lemma row_height_all c rh r : row_height c = Some rh -> In r (rows c) -> maxY (rr r) - minY (rr r) = rh.
Proof.
  unfold row_height. destruct (rows c) as [|r1 rs]; [discriminate|].
  destruct (forallb _ rs) eqn:E; [|discriminate]. intros [= <-] [<-|Hin]; [reflexivity|].
  rewrite forallb_forall in E. apply Z.eqb_eq. apply E. exact Hin.
Qed.

(* hypotheses on the cell order: every movable cell is listed, none twice
   (Legalizer::computeCellOrder returns a permutation of 0 .. nbCells-1) *)
Definition order_covers (n : nat) (order : list nat) : Prop :=
  NoDup order /\ forall ci, (ci < n)%nat -> In ci order.

Theorem legalize_circuit_trivially_feasible c order :
  trivially_feasible c = true ->
  (forall k, In k (movable c) -> c_o k <> oINVALID) ->
  order_covers (length (movable c)) order ->
  exists c', legalize_circuit c order = LegOk c'.
Proof.
  unfold trivially_feasible. destruct (row_height c) as [rh|] eqn:Hrh; [|discriminate].
  intros Htf Hor [Hnd Hcov]. apply andb_true_iff in Htf as [Hall Hsum].
  rewrite forallb_forall in Hall. apply Z.leb_le in Hsum.
  set (maxw := maxZ (map (fun p => maxX p - minX p) (map placement_of (movable c)))) in *.
  destruct (legalize_trivial (free_rows c) (leg_cells c) order rh maxw) as (pl & Hpl).
  - intros s Hs. split; [|apply (free_rows_nonempty c); exact Hs].
    apply free_rows_In in Hs as (r & obs & Hr & Hs). apply freespace_rows_shape in Hs.
    pose proof (row_height_all c rh r Hrh Hr). lia.
  - apply Forall_forall. intros lc Hlc. unfold leg_cells in Hlc. apply in_map_iff in Hlc as (k & <- & Hk).
    specialize (Hall k Hk). apply andb_true_iff in Hall as [Hall Hw]. apply andb_true_iff in Hall as [Hh Hp].
    apply Z.eqb_eq in Hh. apply Z.ltb_lt in Hw. unfold leg_cell_of. cbn [cw ch cpol cor].
    split; [split; [exact Hw|]|split; [exact Hh|split; [|apply Hor; exact Hk]]].
    + apply maxZ_ge. apply in_map_iff. exists (placement_of k). split; [reflexivity|]. apply in_map. exact Hk.
    + destruct (c_pol k); try discriminate. reflexivity.
  - exact Hnd.
  - unfold leg_cells. rewrite map_length. exact Hcov.
  - unfold leg_cells. rewrite map_map. rewrite map_map in Hsum. exact Hsum.
  - unfold legalize_circuit. rewrite Hpl. eexists. reflexivity.
Qed.

(* the orientation hypothesis is needed: a cell without row polarity whose own orientation
   is the enumerator INVALID is refused by every row (evaluatePlacement tests the
   orientation getOrientation returns, which is the cell's own when the polarity is ANY) *)
Definition w_invalid_orientation : circuit :=
  {| rows := [ {| rr := {| minX := 0; maxX := 10; minY := 0; maxY := 2 |}; ro := oN |} ];
     cells := [ {| c_x := 3; c_y := 0; c_w := 2; c_h := 2; c_o := oINVALID; c_pol := pANY; c_fixed := false; c_obs := true |} ] |}.

Theorem trivially_feasible_invalid_orientation_refuted :
  trivially_feasible w_invalid_orientation = true /\
  legalize_circuit w_invalid_orientation [0%nat] = LegNotAllPlaced.
Proof. split; vm_compute; reflexivity. Qed.

(* ... and so is "no cell twice in the order": every occurrence of a cell is handed to the
   Abacus pass (the selection is made once, before the pass), so duplicates use up room *)
Definition w_duplicates : circuit :=
  {| rows := [ {| rr := {| minX := 0; maxX := 10; minY := 0; maxY := 2 |}; ro := oN |} ];
     cells := [ {| c_x := 0; c_y := 0; c_w := 3; c_h := 2; c_o := oN; c_pol := pANY; c_fixed := false; c_obs := true |};
                {| c_x := 5; c_y := 0; c_w := 3; c_h := 2; c_o := oN; c_pol := pANY; c_fixed := false; c_obs := true |} ] |}.

Theorem trivially_feasible_duplicate_order_refuted :
  trivially_feasible w_duplicates = true /\
  legalize_circuit w_duplicates [0%nat; 0%nat; 0%nat; 1%nat] = LegNotAllPlaced /\
  exists c', legalize_circuit w_duplicates [0%nat; 1%nat] = LegOk c'.
Proof. split; [vm_compute; reflexivity|]. split; [vm_compute; reflexivity|]. eexists. vm_compute. reflexivity. Qed.

Print Assumptions abacus_all_placed.
Print Assumptions legalize_trivial.
Print Assumptions legalize_circuit_trivially_feasible.
Print Assumptions trivially_feasible_invalid_orientation_refuted.
Print Assumptions trivially_feasible_duplicate_order_refuted.
