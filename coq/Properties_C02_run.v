(* C02 / C04 -- DetailedPlacer::run() and its passes INSIDE the model (to be merged into Properties_C02.v / Properties_C04.v).
   Model: DetailedRun.v (runSwaps with runSwapsOneRow, the RowNeighbourhood lists, runSwapsTwoRowsAmplify, bestSwapUpdate,
   findCellAfter; runReordering with its row sets and windows, each window the closed Reorder.run; run() with the shift pass
   as an oracle; place() after legalization).  Tie: checks/c02_run.py (whole passes and whole runs, EXACT).
   Labels: [F] = all inputs of the stated domain, no size bound. *)
From Coq Require Import List ZArith Lia Bool.
Import ListNotations.
Require Import CV.Orient CV.FreeSpace CV.Circuit CV.CircuitProofs CV.Hpwl CV.Moves CV.MovesProofs CV.MovesOrientProofs CV.Optimiser CV.ShiftLp.
Require Import CV.Legalizer CV.LegalizerProofs CV.LegalizerSoundProofs CV.DetailedInit CV.DetailedInitProofs CV.DetailedExport CV.DetailedExportProofs.
Require Import CV.DetailedValue CV.DetailedValueProofs CV.DetailedValueStepProofs CV.RowNeigh CV.Reorder.
Require Import CV.DetailedRun CV.DetailedRunProofs CV.DetailedRunStructProofs CV.DetailedRunTermProofs CV.DetailedRunTotalProofs CV.DetailedRunCircuitProofs CV.DetailedRunShiftProofs.
Local Open Scope Z_scope.

(* [F] the list-structure argument: with unique ids, a swap puts the partner c2 at the place of c1 -- as many cells after it
   in its row as c1 had (rest = number of cells after a cell in its row; None = in no row) *)
Theorem c02_swap_exchanges_places : forall d c1 c2 d',
  NoDup (map p_id (cells_of d)) -> swap d c1 c2 = Some d' -> rest d' c2 = rest d c1.
Proof. exact swap_rest. Qed.

(* [F] TERMINATION (a): `while (bestSwapUpdate(c, from, nb))` with the fuel while_fuel s = value + 1 never runs out of fuel, for
   every nb; it ends in a state satisfying the invariant, with c (possibly replaced) at the place the walk was at *)
Theorem c02_run_while_fuel_suffices : forall c rh nets, std_design c rh -> forall s cc from nb,
  PInv c rh nets s -> held (ps_d s) cc = true -> from_ok (ps_d s) from ->
  exists st, run_while s cc from nb = ROk st /\ wstate_ok c rh nets s cc st.
Proof. exact run_while_total. Qed.

(* [F] TERMINATION (b): runSwapsTwoRowsAmplify(r1, r2, nb) with the fuel walk_fuel = length of row r1 + 1 returns: neither fuel
   runs out and no cell out of the rows is dereferenced, for every r1, r2 (also r1 = r2, also out of range), every nb *)
Theorem c02_run_walk_fuel_suffices : forall c rh nets, std_design c rh -> forall s r1 r2 nb,
  PInv c rh nets s -> exists s', run_swaps_two_rows_amplify s r1 r2 nb = ROk s'.
Proof. exact amplify_total. Qed.

(* [F] REFINEMENT + total correctness of runSwaps(nbRows, nbNeighbours), nbNeighbours >= 0 (DetailedPlacerParameters::check):
   the pass returns and its result is reached by a history of paired steps each accepted where it is applied *)
Theorem c02_run_swaps_is_accepted_history : forall c rh nets, std_design c rh -> forall s nbRows nbNeighbours,
  PInv c rh nets s -> 0 <= nbNeighbours ->
  exists s', run_swaps s nbRows nbNeighbours = ROk s' /\ steps_to s s' /\ PInv c rh nets s' /\ ovalue (ps_o s') <= ovalue (ps_o s).
Proof. exact run_swaps_total. Qed.

(* [F] the same for runReordering(maxNbRows, maxNbCells), all arguments: no write-back throws, every window is accepted *)
Theorem c02_run_reordering_is_accepted_history : forall c rh nets, std_design c rh -> forall s maxNbRows maxNbCells,
  PInv c rh nets s ->
  exists s', run_reordering s maxNbRows maxNbCells = ROk s' /\ steps_to s s' /\ PInv c rh nets s' /\ ovalue (ps_o s') <= ovalue (ps_o s).
Proof. exact run_reordering_total. Qed.

(* [F] run(): for parameters accepted by check() and an oracle of accepted shift steps, run() returns; the states exposed at the
   callbacks, in order, and the final state are each reached from the previous one by accepted steps (chain) *)
Theorem c02_run_passes_returns : forall c rh nets, std_design c rh -> forall p shifts s,
  params_ok p = true -> PInv c rh nets s -> oracle_ok (Z.to_nat (dp_nbPasses p)) p shifts s ->
  exists s' ex, run_passes p shifts s = ROk (s', ex) /\ chain s ex s' /\ PInv c rh nets s' /\
    Forall (fun e => PInv c rh nets e /\ ovalue (ps_o s') <= ovalue (ps_o e) <= ovalue (ps_o s)) ex.
Proof. exact run_passes_total. Qed.

(* [F] without shift pass (shiftMaxNbCells < 2, accepted by check()) or with no recorded call the oracle hypothesis is void *)
Theorem c02_run_oracle_void_without_shift_pass : forall n p, dp_shiftMaxNbCells p < 2 -> forall shifts s, oracle_ok n p shifts s.
Proof. exact oracle_ok_noshift. Qed.

(* [F] what any state of an accepted history exposes: a legal circuit; rows, sizes, polarities untouched; fixed and
   multi-row cells identical *)
Theorem c02_history_exposes_legal : forall c rh nets, std_design c rh -> forall s s',
  legal c -> PInv c rh nets s -> steps_to s s' ->
  legal (write_back c (ps_d s')) /\ frame c (write_back c (ps_d s')) rh.
Proof. exact history_exposes_legal. Qed.

(* [F] MAIN, Circuit level.  c = the LEGALIZED circuit (std_design is assumed of it; legal c is what C01 proves of the
   legalizer's output).  When fromIspdCircuit accepts it (c02_from_circuit_accepts_legal: it does under orient_pre), the model
   of DetailedPlacer::place RETURNS -- no fuel error, no throw -- and the final circuit and every circuit a callback sees are
   legal and carry the frame *)
Theorem c02_place_detailed_returns_legal : forall c rh nets, std_design c rh -> legal c -> forall p shifts d0,
  from_circuit c = DOk d0 -> params_ok p = true ->
  oracle_ok (Z.to_nat (dp_nbPasses p)) p shifts {| ps_d := d0; ps_o := init_models c nets |} ->
  exists c' exs, place_detailed_model c nets p shifts = ROk (c', exs) /\
    legal c' /\ frame c c' rh /\ Forall (fun e => legal e /\ frame c e rh) exs.
Proof. exact place_detailed_returns. Qed.

(* [F] C04 clause: with the orientations legalization leaves and rows of known orientation, the final circuit and every circuit
   a callback sees have every cell in the orientation its row prescribes *)
Theorem c04_place_detailed_orient_ok : forall c rh nets, std_design c rh -> legal c -> forall before p shifts d0,
  from_circuit c = DOk d0 -> orient_ok before c ->
  (forall r, In r (rows c) -> ro r <> oUNKNOWN) -> params_ok p = true ->
  oracle_ok (Z.to_nat (dp_nbPasses p)) p shifts {| ps_d := d0; ps_o := init_models c nets |} ->
  exists c' exs, place_detailed_model c nets p shifts = ROk (c', exs) /\ orient_ok before c' /\ Forall (orient_ok before) exs.
Proof. exact place_detailed_orient. Qed.

(* non-vacuity: rows [0,12]x[0,2] (N) and [0,12]x[2,4] (FS); cell 0 (0,0) 2x2 with polarity NW (POLARISED: allowed on the N row
   only) and cell 1 (4,0) 2x2 in the lower row, cells 2 (1,2) 2x2 and 3 (6,2) 3x2 in the upper row; fixed pins 4 at (11,3) and 5
   at (0,0); nets {1, 4}, {3, 5}, {0.(1,1), 2}.  Parameters: 2 passes, localSearchNbNeighbours = localSearchNbRows = 2, no shift
   pass (shiftMaxNbCells = 0), reordering of windows of 3 cells over 1 row.  All hypotheses of the two main theorems hold; the
   model returns with 4 callback states: pass 1 swaps cells 1 and 3 ACROSS the rows (Circuit::hpwl 19 -> 12), pass 2 brings
   cell 3 next to cell 0 (12 -> 9); every exposed circuit is legal and carries the prescribed orientations *)
Definition exrun : circuit :=
  {| rows := [mkrow 0 12 0 2 oN; mkrow 0 12 2 4 oFS];
     cells := [mkcell 0 0 2 2 oN pNW false true; mkcell 4 0 2 2 oN pANY false true; mkcell 1 2 2 2 oN pANY false true;
               mkcell 6 2 3 2 oN pANY false true; mkcell 11 3 0 0 oN pANY true false; mkcell 0 0 0 0 oN pANY true false] |}.
Definition exrun_nets : list (list hpin) := [[hp 1 0 0; hp 4 0 0]; [hp 3 0 0; hp 5 0 0]; [hp 0 1 1; hp 2 0 0]].
Definition exrun_p : dparams :=
  {| dp_nbPasses := 2; dp_localSearchNbNeighbours := 2; dp_localSearchNbRows := 2; dp_shiftNbRows := 3;
     dp_shiftMaxNbCells := 0; dp_reorderingNbRows := 1; dp_reorderingMaxNbCells := 3 |}.

Example exrun_std : std_design exrun 2.
Proof.
  split; [lia|]. split; [intros r [<-|[<-|[]]]; reflexivity|].
  split; [apply CircuitProofs.pairwise_disjointb_spec; vm_compute; reflexivity|].
  split; [intros r [<-|[<-|[]]]; reflexivity|].
  intros k Hk. vm_compute in Hk.
  repeat (destruct Hk as [<-|Hk];
          [split; [vm_compute; reflexivity|]; split; [exists 1%nat; split; [lia|vm_compute; reflexivity]|left; reflexivity]|]).
  destruct Hk.
Qed.

Example c02_run_nonvacuous :
  std_design exrun 2 /\ legal exrun /\ orient_ok exrun exrun /\ (forall r, In r (rows exrun) -> ro r <> oUNKNOWN) /\
  params_ok exrun_p = true /\
  exists d0, from_circuit exrun = DOk d0 /\
    oracle_ok (Z.to_nat (dp_nbPasses exrun_p)) exrun_p [] {| ps_d := d0; ps_o := init_models exrun exrun_nets |} /\
    exists c' exs, place_detailed_model exrun exrun_nets exrun_p [] = ROk (c', exs) /\
      map (fun k => (c_x k, c_y k)) (cells c') = [(0, 0); (6, 2); (1, 2); (2, 0); (11, 3); (0, 0)] /\
      map (fun e => map (fun k => (c_x k, c_y k)) (cells e)) exs =
        [[(0, 0); (6, 2); (1, 2); (5, 0); (11, 3); (0, 0)]; [(0, 0); (6, 2); (1, 2); (5, 0); (11, 3); (0, 0)];
         [(0, 0); (6, 2); (1, 2); (2, 0); (11, 3); (0, 0)]; [(0, 0); (6, 2); (1, 2); (2, 0); (11, 3); (0, 0)]] /\
      hpwl_circuit exrun exrun_nets = 19 /\ map (fun e => hpwl_circuit e exrun_nets) exs = [12; 12; 9; 9] /\ hpwl_circuit c' exrun_nets = 9 /\
      legalb c' = true /\ forallb legalb exs = true /\ orient_okb exrun c' = true.
Proof.
  split; [exact exrun_std|]. split; [apply CircuitProofs.legalb_correct; vm_compute; reflexivity|].
  split; [apply OrientProofs.orient_okb_correct; vm_compute; reflexivity|].
  split; [intros r [<-|[<-|[]]]; discriminate|]. split; [reflexivity|].
  eexists. split; [vm_compute; reflexivity|]. split; [apply oracle_ok_nil|].
  eexists _, _. split; [vm_compute; reflexivity|]. vm_compute. repeat split; reflexivity.
Qed.

(* ======================================================================================================== *)
(* The shift pass with its DRIVER closed (DetailedRun.run_shifts / run_passes_c / place_detailed_model_c): runShifts and
   runShiftsOnRows are modelled (row sets r, rowsBelow(r), rowsAbove(r) for r = 0, nbRows/2, ...; cell list; windows; overlap), so
   the model decides which cells every runShiftsOnCells call receives.  The oracle is ONLY lemon's answer to each call (potentials
   and flows, with the cells and labelled arcs of the call for cross-checking), and the model accepts an answer only through the
   proved checker ShiftLp.shift_cert_ok.  No hypothesis on the oracle is left:  ok_or_oracle r Q  = "r = ROk a with Q a, or
   r = RErr EOracle / RErr ERecord (an answer is missing or rejected / a record does not fit the model's call)". *)

(* [F] the rows handed to runShiftsOnRows are distinct: "The given cells are not unique" cannot be thrown *)
Theorem c02_shift_row_sets_have_no_repetition : forall rects k r, NoDup (r :: rows_below rects k r ++ rows_above rects k r).
Proof. exact shift_rows_nodup. Qed.

(* [F] runShifts(nbRows, maxNbCells), maxNbCells >= 2 (run() calls it only then), every nbRows: an accepted history or an oracle stop *)
Theorem c02_run_shifts_is_accepted_history : forall c rh nets, std_design c rh -> forall s answers nbRows m,
  PInv c rh nets s -> 2 <= m ->
  ok_or_oracle (run_shifts (s, answers) nbRows m)
    (fun st' => steps_to s (fst st') /\ PInv c rh nets (fst st') /\ ovalue (ps_o (fst st')) <= ovalue (ps_o s)).
Proof. exact run_shifts_accepted. Qed.

(* [F] run() with the closed shift driver, parameters accepted by check(): a chain of accepted histories through the callbacks, or an
   oracle stop; never a fuel error, a throw, an unplaced cell, undefined behaviour *)
Theorem c02_run_passes_closed_is_accepted_history : forall c rh nets, std_design c rh -> forall p answers s,
  params_ok p = true -> PInv c rh nets s ->
  ok_or_oracle (run_passes_c p answers s)
    (fun r => let '(s', ex, _) := r in chain s ex s' /\ PInv c rh nets s' /\
              Forall (fun e => PInv c rh nets e /\ ovalue (ps_o s') <= ovalue (ps_o e) <= ovalue (ps_o s)) ex).
Proof. exact run_passes_c_accepted. Qed.

(* [F] MAIN, Circuit level, shift driver closed *)
Theorem c02_place_detailed_closed_returns_legal : forall c rh nets, std_design c rh -> legal c -> forall p answers d0,
  from_circuit c = DOk d0 -> params_ok p = true ->
  ok_or_oracle (place_detailed_model_c c nets p answers)
    (fun r => let '(c', exs, _) := r in legal c' /\ frame c c' rh /\ Forall (fun e => legal e /\ frame c e rh) exs).
Proof. exact place_detailed_c_legal. Qed.

Theorem c04_place_detailed_closed_orient_ok : forall c rh nets, std_design c rh -> legal c -> forall before p answers d0,
  from_circuit c = DOk d0 -> orient_ok before c -> (forall r, In r (rows c) -> ro r <> oUNKNOWN) -> params_ok p = true ->
  ok_or_oracle (place_detailed_model_c c nets p answers)
    (fun r => let '(c', exs, _) := r in orient_ok before c' /\ Forall (orient_ok before) exs).
Proof. exact place_detailed_c_orient. Qed.

(* non-vacuity: exrun with ONE pass, shiftNbRows = 2, shiftMaxNbCells = 4 (windows of 4 cells, overlap 2), no reordering.  The four
   answers below are lemon's, recorded on the C++ run of this very circuit (harness/drun.cpp, hook 2): the model makes four calls
   (row sets {0, 1} and {1, 0}, windows [0;2;3;1] and [3;1] each), every record fits its call, every answer passes the certificate
   checker, all records are consumed; Circuit::hpwl 19 -> 12 (swaps) -> 5 (shifts: cell 1 moves from x = 6 to x = 10, cell 3 from 5 to 2) *)
Definition exrun_ps : dparams :=
  {| dp_nbPasses := 1; dp_localSearchNbNeighbours := 2; dp_localSearchNbRows := 2; dp_shiftNbRows := 2;
     dp_shiftMaxNbCells := 4; dp_reorderingNbRows := 1; dp_reorderingMaxNbCells := 1 |}.
Definition exrun_ans1 : shift_answer :=
  {| sa_cells := [0; 2; 3; 1]%nat;
     sa_pi := fun n => match n with NCell 0 => (-11) | NCell 2 => (-10) | NCell 3 => (-9) | NCell 1 => (-1) | NL 0 => (-1) | NL 1 => (-11) | NU 1 => (-9) | NL 2 => (-10) | NU 2 => (-10) | NFixed => (-11) | _ => 0 end;
     sa_flows := [((NCell 3, NCell 0, (-2)), 1); ((NCell 0, NFixed, 0), 1); ((NCell 1, NCell 2, (-2)), 0); ((NCell 2, NFixed, 0), 0); ((NFixed, NCell 3, 9), 0); ((NFixed, NCell 1, 10), 1); ((NCell 1, NL 0, 0), 1); ((NU 0, NCell 1, 0), 0); ((NFixed, NL 0, 11), 0); ((NU 0, NFixed, (-11)), 1); ((NCell 3, NL 1, 0), 0); ((NU 1, NCell 3, 0), 1); ((NFixed, NL 1, 0), 1); ((NU 1, NFixed, 0), 0); ((NCell 0, NL 2, 1), 0); ((NU 2, NCell 0, (-1)), 0); ((NCell 2, NL 2, 0), 1); ((NU 2, NCell 2, 0), 1)] |}.
Definition exrun_ans2 : shift_answer :=
  {| sa_cells := [3; 1]%nat;
     sa_pi := fun n => match n with NCell 3 => (-9) | NCell 1 => (-1) | NL 0 => (-1) | NL 1 => (-11) | NU 1 => (-9) | NFixed => (-11) | _ => 0 end;
     sa_flows := [((NCell 3, NFixed, (-2)), 1); ((NFixed, NCell 3, 9), 0); ((NCell 1, NFixed, (-3)), 0); ((NFixed, NCell 1, 10), 1); ((NCell 1, NL 0, 0), 1); ((NU 0, NCell 1, 0), 0); ((NFixed, NL 0, 11), 0); ((NU 0, NFixed, (-11)), 1); ((NCell 3, NL 1, 0), 0); ((NU 1, NCell 3, 0), 1); ((NFixed, NL 1, 0), 1); ((NU 1, NFixed, 0), 0)] |}.
Definition exrun_ans3 : shift_answer :=
  {| sa_cells := [0; 2; 3; 1]%nat;
     sa_pi := fun n => match n with NCell 0 => (-11) | NCell 2 => (-10) | NCell 3 => (-9) | NCell 1 => (-1) | NL 0 => (-1) | NL 1 => (-11) | NU 1 => (-9) | NL 2 => (-10) | NU 2 => (-10) | NFixed => (-11) | _ => 0 end;
     sa_flows := [((NCell 3, NCell 0, (-2)), 1); ((NCell 0, NFixed, 0), 1); ((NCell 1, NCell 2, (-2)), 0); ((NCell 2, NFixed, 0), 0); ((NFixed, NCell 3, 9), 0); ((NFixed, NCell 1, 10), 1); ((NCell 1, NL 0, 0), 1); ((NU 0, NCell 1, 0), 0); ((NFixed, NL 0, 11), 0); ((NU 0, NFixed, (-11)), 1); ((NCell 3, NL 1, 0), 0); ((NU 1, NCell 3, 0), 1); ((NFixed, NL 1, 0), 1); ((NU 1, NFixed, 0), 0); ((NCell 0, NL 2, 1), 0); ((NU 2, NCell 0, (-1)), 0); ((NCell 2, NL 2, 0), 1); ((NU 2, NCell 2, 0), 1)] |}.
Definition exrun_ans4 : shift_answer :=
  {| sa_cells := [3; 1]%nat;
     sa_pi := fun n => match n with NCell 3 => (-9) | NCell 1 => (-1) | NL 0 => (-1) | NL 1 => (-11) | NU 1 => (-9) | NFixed => (-11) | _ => 0 end;
     sa_flows := [((NCell 3, NFixed, (-2)), 1); ((NFixed, NCell 3, 9), 0); ((NCell 1, NFixed, (-3)), 0); ((NFixed, NCell 1, 10), 1); ((NCell 1, NL 0, 0), 1); ((NU 0, NCell 1, 0), 0); ((NFixed, NL 0, 11), 0); ((NU 0, NFixed, (-11)), 1); ((NCell 3, NL 1, 0), 0); ((NU 1, NCell 3, 0), 1); ((NFixed, NL 1, 0), 1); ((NU 1, NFixed, 0), 0)] |}.

Example c02_run_closed_shift_nonvacuous :
  params_ok exrun_ps = true /\
  exists d0 c' exs, from_circuit exrun = DOk d0 /\
    place_detailed_model_c exrun exrun_nets exrun_ps [exrun_ans1; exrun_ans2; exrun_ans3; exrun_ans4] = ROk (c', exs, []) /\
    map (fun k => (c_x k, c_y k)) (cells c') = [(0, 0); (10, 2); (1, 2); (2, 0); (11, 3); (0, 0)] /\
    hpwl_circuit exrun exrun_nets = 19 /\ map (fun e => hpwl_circuit e exrun_nets) exs = [12; 5] /\ hpwl_circuit c' exrun_nets = 5 /\
    legalb c' = true /\ forallb legalb exs = true /\ orient_okb exrun c' = true /\
    (* a tampered answer is NOT accepted: with lemon's potential of cell 1 off by one the run stops on the oracle *)
    place_detailed_model_c exrun exrun_nets exrun_ps
      [{| sa_cells := sa_cells exrun_ans1; sa_pi := fun n => match n with NCell 1 => 0 | _ => sa_pi exrun_ans1 n end; sa_flows := sa_flows exrun_ans1 |}] = RErr EOracle.
Proof.
  split; [reflexivity|]. eexists _, _, _. split; [vm_compute; reflexivity|]. split; [vm_compute; reflexivity|].
  vm_compute. repeat split; reflexivity.
Qed.

Print Assumptions c02_swap_exchanges_places.
Print Assumptions c02_run_while_fuel_suffices.
Print Assumptions c02_run_walk_fuel_suffices.
Print Assumptions c02_run_swaps_is_accepted_history.
Print Assumptions c02_run_reordering_is_accepted_history.
Print Assumptions c02_run_passes_returns.
Print Assumptions c02_run_oracle_void_without_shift_pass.
Print Assumptions c02_history_exposes_legal.
Print Assumptions c02_place_detailed_returns_legal.
Print Assumptions c04_place_detailed_orient_ok.
Print Assumptions c02_run_nonvacuous.
Print Assumptions c02_shift_row_sets_have_no_repetition.
Print Assumptions c02_run_shifts_is_accepted_history.
Print Assumptions c02_run_passes_closed_is_accepted_history.
Print Assumptions c02_place_detailed_closed_returns_legal.
Print Assumptions c04_place_detailed_closed_orient_ok.
Print Assumptions c02_run_closed_shift_nonvacuous.
