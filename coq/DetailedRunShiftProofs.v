(* C02 / C05 / C04 -- the shift pass with its DRIVER closed (DetailedRun.run_shifts, run_passes_c, place_detailed_model_c):
   the model decides which cells every runShiftsOnCells call receives; the oracle is only lemon's answer per call, accepted by
   the model itself through the proved checker ShiftLp.shift_cert_ok.  Hence no hypothesis on the oracle is left: the model
   either returns a chain of accepted histories, or stops with EOracle / ERecord (an answer was rejected / missing, a record
   does not fit the call) -- never with a fuel error, a throw, an unplaced cell or undefined behaviour. *)
From Coq Require Import List ZArith Lia Bool Arith Permutation.
Import ListNotations.
Require Import CV.Orient CV.FreeSpace CV.Circuit CV.Hpwl CV.HpwlProofs CV.Moves CV.MovesProofs CV.MovesOrientProofs.
Require Import CV.Optimiser CV.OptimiserProofs CV.ShiftLp CV.ShiftLpProofs.
Require Import CV.Legalizer CV.LegalizerProofs CV.LegalizerSoundProofs CV.DetailedInit CV.DetailedInitProofs CV.DetailedExport CV.DetailedExportProofs.
Require Import CV.DetailedValue CV.DetailedValueProofs CV.DetailedValueStepProofs.
Require Import CV.RowNeigh CV.RowNeighProofs CV.Reorder CV.ReorderGeomProofs CV.ReorderProofs.
Require Import CV.DetailedRun CV.DetailedRunProofs CV.DetailedRunStructProofs CV.DetailedRunTermProofs CV.DetailedRunTotalProofs CV.DetailedRunCircuitProofs.
Local Open Scope Z_scope.
Ltac Zify.zify_post_hook ::= Z.div_mod_to_equations.

Definition oracle_err (e : rerr) : Prop := e = EOracle \/ e = ERecord.
(* the result satisfies Q, or the run stopped on the oracle *)
Definition ok_or_oracle {A} (r : rres A) (Q : A -> Prop) : Prop := match r with ROk a => Q a | RErr e => oracle_err e end.

(* the row set of one iteration of runShifts has no repetition (runShiftsOnCells's "The given cells are not unique" cannot fire) *)
Lemma shift_rows_nodup rects k r : NoDup (r :: rows_below rects k r ++ rows_above rects k r).
Proof.
  constructor.
  - intros Hin. apply in_app_or in Hin as [Hin|Hin].
    + destruct (below_safe _ _ _ _ Hin) as (_ & _ & Hne & _). apply Hne. reflexivity.
    + destruct (above_safe _ _ _ _ Hin) as (_ & _ & Hne & _). apply Hne. reflexivity.
  - apply NoDup_app_intro; [apply below_NoDup|apply above_NoDup|]. intros j H1 H2.
    destruct (below_safe _ _ _ _ H1) as (_ & _ & _ & B). destruct (above_safe _ _ _ _ H2) as (_ & _ & _ & A).
    apply is_below_spec in B. apply is_above_spec in A. lia.
Qed.

Section ShiftDriver.
  Variables (c : circuit) (rh : Z) (nets : list (list hpin)).
  Hypothesis SD : std_design c rh.
  Variable J : pstate -> Prop.
  Hypothesis JB : forall s cc cands, J s -> J (pbest s (swap_cands cc cands)).
  Hypothesis JR : forall s w s' n, PInv c rh nets s -> J s -> NoDup w -> (forall x, In x w -> held (ps_d s) x = true) ->
                    Reorder.run s w = Some (s', n) -> J s'.
  Hypothesis JS : forall s sel pi, J s -> J (pshift s sel pi).

  Definition st_good (s : pstate) (st' : pstate * list shift_answer) : Prop := steps_to s (fst st') /\ J (fst st').

  (* one call: the recorded answer is accepted by the certificate checker, the step is a PShift step accepted where it is applied *)
  Lemma shift_on_cells_spec st sel : window_ok c rh sel -> PInv c rh nets (fst st) -> J (fst st) ->
    ok_or_oracle (shift_on_cells st sel) (st_good (fst st)).
  Proof.
    intros [_ Hw] HI HJ. destruct st as [s ans]. cbn [fst] in *. unfold shift_on_cells.
    destruct ans as [|a rest]; [left; reflexivity|].
    destruct (list_nat_eqb sel (sa_cells a)); cbn [negb]; [|right; reflexivity].
    destruct (match_flows _ (sa_flows a)) as [f|]; [|right; reflexivity].
    destruct (shift_cert_ok _ (sa_pi a) f) eqn:Cert; [|left; reflexivity].
    cbn [ok_or_oracle]. unfold st_good. cbn [fst]. split; [|apply JS; exact HJ].
    apply (steps_one s (PShift sel (sa_pi a) f)). cbn [pstep_ok]. split; [|exact Cert].
    apply forallb_forall. intros x Hx. apply (held_kept c rh nets s x SD HI). exact (Hw x Hx).
  Qed.

  Lemma rfold_shift {A} (f : pstate * list shift_answer -> A -> rres (pstate * list shift_answer)) (P : A -> Prop) :
    (forall st a, P a -> PInv c rh nets (fst st) -> J (fst st) -> ok_or_oracle (f st a) (st_good (fst st))) ->
    forall l st, Forall P l -> PInv c rh nets (fst st) -> J (fst st) -> ok_or_oracle (rfold f l st) (st_good (fst st)).
  Proof.
    intros Hf. induction l as [|a t IH]; intros st HP HI HJ; cbn [rfold].
    - cbn [ok_or_oracle]. split; [apply steps_refl|exact HJ].
    - inversion HP as [|? ? Pa Pt]; subst. pose proof (Hf st a Pa HI HJ) as H1.
      destruct (f st a) as [st1|e]; cbn [rbind ok_or_oracle] in *; [|exact H1]. destruct H1 as [S1 J1].
      destruct (steps_inv c rh nets _ _ SD HI S1) as [HI1 _]. pose proof (IH st1 Pt HI1 J1) as H2.
      destruct (rfold f t st1) as [st2|e]; cbn [ok_or_oracle] in *; [|exact H2]. destruct H2 as [S2 J2].
      split; [exact (steps_trans _ _ _ S1 S2)|exact J2].
  Qed.

  Lemma shifts_on_rows_spec st rows m : PInv c rh nets (fst st) -> J (fst st) -> NoDup rows -> 2 <= m ->
    ok_or_oracle (run_shifts_on_rows st rows m) (st_good (fst st)).
  Proof.
    intros HI HJ Hn Hm. unfold run_shifts_on_rows. pose proof HI as (_ & _ & _ & ND & _).
    pose proof (rows_cells_nodup (ps_d (fst st)) rows ND Hn) as NDc.
    assert (Hk : forall x, In x (rows_cells (ps_d (fst st)) rows) -> exists k, nth_error (cells c) x = Some k /\ kept rh k).
    { intros x Hx. apply (held_kept c rh nets (fst st) x SD HI). exact (rows_cells_held _ _ _ Hx). }
    destruct (rows_cells (ps_d (fst st)) rows) as [|x0 t0] eqn:E; [cbn [ok_or_oracle]; split; [apply steps_refl|exact HJ]|].
    assert (Hstep : (m - Z.min (Z.quot m 2) 10 <=? 0) = false) by (apply Z.leb_gt; rewrite Z.quot_div_nonneg by lia; lia).
    rewrite Hstep. apply (rfold_shift shift_on_cells (window_ok c rh)); [intros st0 w Hw H0 J0; exact (shift_on_cells_spec st0 w Hw H0 J0)| |exact HI|exact HJ].
    apply Forall_forall. intros w Hw. destruct (window_sub _ _ _ _ _ Hw NDc) as [N1 N2]. split; [exact N1|].
    intros x Hx. apply Hk. exact (N2 x Hx).
  Qed.

  (* runShifts(nbRows, maxNbCells), maxNbCells >= 2 (run() calls it only then), every nbRows *)
  Theorem run_shifts_spec st nbRows m : PInv c rh nets (fst st) -> J (fst st) -> 2 <= m ->
    ok_or_oracle (run_shifts st nbRows m) (st_good (fst st)).
  Proof.
    intros HI HJ Hm. unfold run_shifts. destruct (nbRows <? 2); [cbn [ok_or_oracle]; split; [apply steps_refl|exact HJ]|].
    apply (rfold_shift _ (fun _ => True)); [| |exact HI|exact HJ].
    - intros st0 r _ H0 J0. apply shifts_on_rows_spec; [exact H0|exact J0|apply shift_rows_nodup|exact Hm].
    - apply Forall_forall. intros; exact I.
  Qed.
End ShiftDriver.

(* ---------- run() with the shift driver closed ---------- *)
Section PassesClosed.
  Variables (c : circuit) (rh : Z) (nets : list (list hpin)).
  Hypothesis SD : std_design c rh.
  Variable J : pstate -> Prop.
  Hypothesis JB : forall s cc cands, J s -> J (pbest s (swap_cands cc cands)).
  Hypothesis JR : forall s w s' n, PInv c rh nets s -> J s -> NoDup w -> (forall x, In x w -> held (ps_d s) x = true) ->
                    Reorder.run s w = Some (s', n) -> J s'.
  Hypothesis JS : forall s sel pi, J s -> J (pshift s sel pi).

  Definition cacc_ok (s0 : pstate) (acc : pstate * list pstate * list shift_answer) : Prop :=
    acc_ok c rh nets J s0 (fst acc).

  Lemma run_pass_c_spec p s0 acc : params_ok p = true -> cacc_ok s0 acc -> ok_or_oracle (run_pass_c p acc) (cacc_ok s0).
  Proof.
    intros Hp. destruct acc as [[s ex] ans]. unfold cacc_ok, acc_ok. cbn [fst snd]. intros (HI & HJ & Hc & HF).
    unfold params_ok in Hp. repeat (apply andb_prop in Hp as [Hp ?]). unfold run_pass_c.
    destruct (run_swaps_returns c rh nets SD J JB JR s (dp_localSearchNbNeighbours p) (dp_localSearchNbRows p) HI HJ) as (s1 & E1 & S1 & J1); [lia|].
    rewrite E1. cbn [rbind]. destruct (steps_inv c rh nets s s1 SD HI S1) as [HI1 _].
    pose proof (chain_snoc _ _ _ s1 Hc S1) as C1. change (rev ex ++ [s1]) with (rev (s1 :: ex)) in C1.
    assert (Sh : ok_or_oracle (if 2 <=? dp_shiftMaxNbCells p
                               then rbind (run_shifts (s1, ans) (dp_shiftNbRows p) (dp_shiftMaxNbCells p)) (fun st2 => ROk (fst st2, fst st2 :: s1 :: ex, snd st2))
                               else ROk (s1, s1 :: ex, ans)) (cacc_ok s0)).
    { destruct (Z.leb_spec 2 (dp_shiftMaxNbCells p)) as [Hs2|Hs2].
      - pose proof (run_shifts_spec c rh nets SD J JB JR JS (s1, ans) (dp_shiftNbRows p) (dp_shiftMaxNbCells p) HI1 J1 Hs2) as Hsh.
        destruct (run_shifts (s1, ans) _ _) as [[s2 ans2]|e]; cbn [rbind ok_or_oracle] in *; [|exact Hsh].
        destruct Hsh as [S2 J2]. cbn [fst snd] in *. unfold cacc_ok, acc_ok. cbn [fst snd rev].
        split; [exact (proj1 (steps_inv c rh nets s1 _ SD HI1 S2))|]. split; [exact J2|].
        split; [exact (chain_snoc _ _ _ _ C1 S2)|]. constructor; [exact J2|]. constructor; assumption.
      - cbn [ok_or_oracle]. unfold cacc_ok, acc_ok. cbn [fst snd]. split; [exact HI1|]. split; [exact J1|]. split; [exact C1|]. constructor; assumption. }
    destruct (if 2 <=? dp_shiftMaxNbCells p then _ else _) as [[[s2 ex2] ans2]|e]; cbn [rbind ok_or_oracle] in *; [|exact Sh].
    unfold cacc_ok, acc_ok in Sh. cbn [fst snd] in Sh. destruct Sh as (HI2 & J2 & C2 & F2).
    destruct (Z.leb_spec 2 (dp_reorderingMaxNbCells p)) as [Hr3|Hr3].
    - destruct (run_reordering_returns c rh nets SD J JB JR s2 (dp_reorderingNbRows p) (dp_reorderingMaxNbCells p) HI2 J2) as (s3 & -> & S3 & J3).
      cbn [rbind ok_or_oracle]. unfold cacc_ok, acc_ok. cbn [fst snd rev].
      split; [exact (proj1 (steps_inv c rh nets s2 _ SD HI2 S3))|]. split; [exact J3|].
      split; [exact (chain_snoc _ _ _ _ C2 S3)|]. constructor; assumption.
    - cbn [ok_or_oracle]. unfold cacc_ok, acc_ok. cbn [fst snd]. tauto.
  Qed.

  Lemma run_passes_c_from_spec p : params_ok p = true -> forall n s0 acc, cacc_ok s0 acc ->
    ok_or_oracle (run_passes_c_from n p acc) (cacc_ok s0).
  Proof.
    intros Hp. induction n as [|n IH]; intros s0 acc HA; cbn [run_passes_c_from]; [exact HA|].
    pose proof (run_pass_c_spec p s0 acc Hp HA) as H1. destruct (run_pass_c p acc) as [acc1|e]; cbn [rbind ok_or_oracle] in *; [|exact H1].
    exact (IH s0 acc1 H1).
  Qed.

  (* MAIN: for parameters accepted by check(), run() with the closed shift driver returns a chain of accepted histories, or stops
     on the oracle; nothing is assumed about the recorded answers *)
  Theorem run_passes_c_spec p answers s : params_ok p = true -> PInv c rh nets s -> J s ->
    ok_or_oracle (run_passes_c p answers s)
      (fun r => let '(s', ex, _) := r in chain s ex s' /\ PInv c rh nets s' /\ J s' /\ Forall J ex).
  Proof.
    intros Hp HI HJ. unfold run_passes_c.
    pose proof (run_passes_c_from_spec p Hp (Z.to_nat (dp_nbPasses p)) s (s, [], answers)) as H.
    assert (H0 : cacc_ok s (s, [], answers)).
    { unfold cacc_ok, acc_ok. cbn [fst snd rev]. split; [exact HI|]. split; [exact HJ|]. split; [apply steps_refl|constructor]. }
    specialize (H H0). destruct (run_passes_c_from _ p (s, [], answers)) as [[[s' ex] rest]|e]; cbn [ok_or_oracle] in *; [|exact H].
    unfold cacc_ok, acc_ok in H. cbn [fst snd] in H. destruct H as (HI' & J' & C' & F').
    split; [exact C'|]. split; [exact HI'|]. split; [exact J'|apply Forall_rev; exact F'].
  Qed.
End PassesClosed.

(* ---------- plain statements and the Circuit level ---------- *)
Section ClosedCircuit.
  Variables (c : circuit) (rh : Z) (nets : list (list hpin)).
  Hypothesis SD : std_design c rh.

  (* the shift driver alone: it returns an accepted history (value not increased, invariant kept), or stops on the oracle *)
  Theorem run_shifts_accepted s answers nbRows m : PInv c rh nets s -> 2 <= m ->
    ok_or_oracle (run_shifts (s, answers) nbRows m)
      (fun st' => steps_to s (fst st') /\ PInv c rh nets (fst st') /\ ovalue (ps_o (fst st')) <= ovalue (ps_o s)).
  Proof.
    intros HI Hm.
    pose proof (run_shifts_spec c rh nets SD Jtrue (fun _ _ _ _ => I) (fun _ _ _ _ _ _ _ _ _ => I) (fun _ _ _ _ => I) (s, answers) nbRows m HI I Hm) as H.
    destruct (run_shifts (s, answers) nbRows m) as [st'|e]; cbn [ok_or_oracle] in *; [|exact H].
    destruct H as [S _]. cbn [fst] in S. split; [exact S|]. exact (steps_inv c rh nets s _ SD HI S).
  Qed.

  Theorem run_passes_c_accepted p answers s : params_ok p = true -> PInv c rh nets s ->
    ok_or_oracle (run_passes_c p answers s)
      (fun r => let '(s', ex, _) := r in chain s ex s' /\ PInv c rh nets s' /\
                Forall (fun e => PInv c rh nets e /\ ovalue (ps_o s') <= ovalue (ps_o e) <= ovalue (ps_o s)) ex).
  Proof.
    intros Hp HI.
    pose proof (run_passes_c_spec c rh nets SD Jtrue (fun _ _ _ _ => I) (fun _ _ _ _ _ _ _ _ _ => I) (fun _ _ _ _ => I) p answers s Hp HI I) as H.
    destruct (run_passes_c p answers s) as [[[s' ex] rest]|e]; cbn [ok_or_oracle] in *; [|exact H].
    destruct H as (Ch & P' & _). split; [exact Ch|]. split; [exact P'|].
    apply Forall_forall. intros e He. destruct (chain_in _ _ _ e Ch He) as [S1 S2].
    destruct (steps_inv c rh nets s e SD HI S1) as [Pe L1]. destruct (steps_inv c rh nets e s' SD Pe S2) as [_ L2]. split; [exact Pe|lia].
  Qed.

  Hypothesis HL : legal c.

  (* MAIN (C02): the model of DetailedPlacer::place with the shift driver closed returns legal circuits with the frame at every
     callback and at the end, or stops on the oracle -- nothing else can happen *)
  Theorem place_detailed_c_legal p answers d0 : from_circuit c = DOk d0 -> params_ok p = true ->
    ok_or_oracle (place_detailed_model_c c nets p answers)
      (fun r => let '(c', exs, _) := r in legal c' /\ frame c c' rh /\ Forall (fun e => legal e /\ frame c e rh) exs).
  Proof.
    intros Hs Hp. pose proof (init_PInv c rh nets d0 SD HL Hs) as P0.
    pose proof (run_passes_c_accepted p answers _ Hp P0) as H. unfold place_detailed_model_c. rewrite Hs.
    destruct (run_passes_c p answers _) as [[[s' ex] rest]|e]; cbn [ok_or_oracle] in *; [|exact H].
    destruct H as (Ch & P' & Fex). split; [exact (exposed_legal_inv c rh nets s' SD HL P')|]. split; [exact (exposed_frame c rh nets s' P')|].
    apply Forall_forall. intros e He. apply in_map_iff in He as (st & <- & Hst).
    destruct (proj1 (Forall_forall _ _) Fex st Hst) as [Pst _].
    split; [exact (exposed_legal_inv c rh nets st SD HL Pst)|exact (exposed_frame c rh nets st Pst)].
  Qed.

  (* MAIN (C04) *)
  Theorem place_detailed_c_orient before p answers d0 : from_circuit c = DOk d0 -> orient_ok before c ->
    (forall r, In r (rows c) -> ro r <> oUNKNOWN) -> params_ok p = true ->
    ok_or_oracle (place_detailed_model_c c nets p answers)
      (fun r => let '(c', exs, _) := r in orient_ok before c' /\ Forall (orient_ok before) exs).
  Proof.
    intros Hs HO HU Hp. pose proof (init_PInv c rh nets d0 SD HL Hs) as P0.
    destruct (from_circuit_after_legalization before c rh SD HL HO) as (d1 & Hs1 & _ & HOI). rewrite Hs in Hs1. injection Hs1 as <-.
    pose proof (run_passes_c_spec c rh nets SD Jor Jor_best (Jor_reorder c rh nets) Jor_shift p answers _ Hp P0 HOI) as H.
    unfold place_detailed_model_c. rewrite Hs.
    destruct (run_passes_c p answers _) as [[[s' ex] rest]|e]; cbn [ok_or_oracle] in *; [|exact H].
    destruct H as (Ch & P' & J' & Fex).
    assert (G : forall st, PInv c rh nets st -> Jor st -> orient_ok before (write_back c (ps_d st))).
    { intros st (HR & HI & Hl & _) HJ. exact (exposed_orient_ok before c rh _ SD HU HO HR HI HJ Hl). }
    split; [exact (G s' P' J')|]. apply Forall_forall. intros e He. apply in_map_iff in He as (st & <- & Hst).
    destruct (chain_in _ _ _ st Ch Hst) as [S1 _]. destruct (steps_inv c rh nets _ st SD P0 S1) as [Pst _].
    apply (G st Pst). exact (proj1 (Forall_forall _ _) Fex st Hst).
  Qed.

  (* MAIN (C05): Circuit::hpwl of the circuits the model returns, F8 scope stated on the circuits *)
  Theorem place_detailed_c_hpwl p answers d0 : from_circuit c = DOk d0 -> params_ok p = true ->
    int_pins c nets -> pins_fit c rh nets ->
    ok_or_oracle (place_detailed_model_c c nets p answers)
      (fun r => let '(c', exs, _) := r in
         (same_polar_orient c c' -> hpwl_circuit c' nets <= hpwl_circuit c nets) /\
         Forall (fun e => same_polar_orient c e ->
                   hpwl_circuit e nets <= hpwl_circuit c nets /\ (same_polar_orient c c' -> hpwl_circuit c' nets <= hpwl_circuit e nets)) exs /\
         (forall l1 e1 l2 e2 l3, exs = l1 ++ e1 :: l2 ++ e2 :: l3 -> same_polar_orient c e1 -> same_polar_orient c e2 ->
                   hpwl_circuit e2 nets <= hpwl_circuit e1 nets)).
  Proof.
    intros Hs Hp B0 PF. pose proof (init_PInv c rh nets d0 SD HL Hs) as P0.
    pose proof (run_passes_c_accepted p answers _ Hp P0) as H. unfold place_detailed_model_c. rewrite Hs.
    destruct (run_passes_c p answers _) as [[[s' ex] rest]|e]; cbn [ok_or_oracle] in *; [|exact H].
    destruct H as (Ch & P' & _). set (s0 := {| ps_d := d0; ps_o := init_models c nets |}) in *.
    destruct (exposed_initial c rh d0 SD HL Hs) as [F0 W0].
    assert (E0 : exposed_hpwl c nets s0 = hpwl_circuit c nets) by (unfold exposed_hpwl, s0; cbn [ps_d]; rewrite W0; reflexivity).
    split; [|split].
    - intros Fs. rewrite <- E0. exact (exposed_le c rh nets s0 s' SD P0 (chain_end _ _ _ Ch) F0 (same_polar_frozen c _ Fs) B0 PF).
    - apply Forall_forall. intros e He. apply in_map_iff in He as (st & <- & Hst). intros Fe.
      destruct (chain_in _ _ _ st Ch Hst) as [S1 S2]. destruct (steps_inv c rh nets s0 st SD P0 S1) as [Pe _]. split.
      + rewrite <- E0. exact (exposed_le c rh nets s0 st SD P0 S1 F0 (same_polar_frozen c _ Fe) B0 PF).
      + intros Fs. exact (exposed_le c rh nets st s' SD Pe S2 (same_polar_frozen c _ Fe) (same_polar_frozen c _ Fs) B0 PF).
    - intros l1 e1 l2 e2 l3 E F1 F2.
      assert (Hm : exists m1 t1 m2 t2 m3, ex = m1 ++ t1 :: m2 ++ t2 :: m3 /\ e1 = write_back c (ps_d t1) /\ e2 = write_back c (ps_d t2)).
      { clear - E. revert l1 E. induction ex as [|x t IH]; intros l1 E; [destruct l1; discriminate|].
        destruct l1 as [|y l1]; cbn [map app] in E.
        - injection E as E1 E. exists [], x. clear IH.
          revert l2 E. induction t as [|z t IH2]; intros l2 E; [destruct l2; discriminate|].
          destruct l2 as [|y l2]; cbn [map app] in E.
          + injection E as E2 _. exists [], z, t. cbn [app]. split; [reflexivity|split; congruence].
          + injection E as _ E. destruct (IH2 l2 E) as (m2 & t2 & m3 & Ht & He1 & He2). injection Ht as Ht.
            exists (z :: m2), t2, m3. cbn [app]. split; [rewrite Ht; reflexivity|split; assumption].
        - injection E as _ E. destruct (IH l1 E) as (m1 & t1 & m2 & t2 & m3 & Ht & He1 & He2).
          exists (x :: m1), t1, m2, t2, m3. cbn [app]. split; [rewrite Ht; reflexivity|split; assumption]. }
      destruct Hm as (m1 & t1 & m2 & t2 & m3 & Eex & -> & ->). rewrite Eex in Ch.
      pose proof (chain_order _ _ _ _ _ _ _ Ch) as S12.
      assert (In1 : In t1 (m1 ++ t1 :: m2 ++ t2 :: m3)) by (apply in_or_app; right; left; reflexivity).
      destruct (chain_in _ _ _ t1 Ch In1) as [S1 _]. destruct (steps_inv c rh nets s0 t1 SD P0 S1) as [P1 _].
      exact (exposed_le c rh nets t1 t2 SD P1 S12 (same_polar_frozen c _ F1) (same_polar_frozen c _ F2) B0 PF).
  Qed.
End ClosedCircuit.
