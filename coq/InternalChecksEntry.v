(* C01 -- DetailedPlacer::legalize (place_detailed.cpp:46-73) as Circuit::legalize reaches it, with EVERY test on the way:
   params.check() (Params.check_coloquinte, the subject of C19), then InternalChecks.legalize_circuit_chk with the cell order
   the model of computeCellOrder computes from the legalization parameters (CellOrder.cell_order).  Definitions only. *)
From Coq Require Import List ZArith QArith Bool.
Import ListNotations.
Require Import CV.Circuit CV.Legalizer CV.CellOrder CV.Params CV.InternalChecks.
Local Open Scope Z_scope.

(* computeCellOrder(1.0, orderingWidth, orderingY, orderingHeight)  (legalizer.cpp:295-297) *)
Definition order_params_of (P : ColoquinteParams) : order_params :=
  {| op_w := lg_orderingWidth (cp_legalization P); op_y := lg_orderingY (cp_legalization P);
     op_h := lg_orderingHeight (cp_legalization P) |}.

Inductive entry_result := EnParams (m : Msg) | EnRes (r : leg_result_chk).

Definition legalize_entry (P : ColoquinteParams) (c : circuit) : entry_result :=
  match check_coloquinte P with
  | Some m => EnParams m
  | None => EnRes (legalize_circuit_chk (lg_costModel (cp_legalization P)) c (cell_order (order_params_of P) c))
  end.

(* ---------- a parameter value for the non-vacuity examples: a literal copy of ColoquinteParameters(3) (effort 3) with the cost
   model and the detailed-placement parameters as arguments ---------- *)
Local Open Scope Q_scope.
Definition effort3_params (costModel : Z) (d : DetailedParams) : ColoquinteParams :=
  {| cp_global :=
       {| gp_own := {| gp_maxNbSteps := 400; gp_nbInitialSteps := 0; gp_nbStepsBeforeRoughLegalization := 1;
                       gp_gapTolerance := 8358680908399641 # 144115188075855872; gp_distanceTolerance := 2 # 1;
                       gp_penaltyUpdateDistance := 10 # 1; gp_penaltyUpdateBackoff := 2 # 1;
                       gp_exportBlending := 4458563631096791 # 4503599627370496; gp_noise := 7378697629483821 # 73786976294838206464 |};
          gp_continuousModel := {| cm_netModel := 0; cm_approximationDistance := 2 # 1; cm_approximationDistanceUpdateFactor := 1 # 1;
                                   cm_maxNbConjugateGradientSteps := 1000;
                                   cm_conjugateGradientErrorTolerance := 4722366482869645 # 4722366482869645213696 |};
          gp_roughLegalization := {| rl_costModel := 0; rl_nbSteps := 1; rl_binSize := 5 # 1; rl_lineReoptSize := 2; rl_lineReoptOverlap := 1;
                                     rl_diagReoptSize := 2; rl_diagReoptOverlap := 1; rl_squareReoptSize := 3; rl_squareReoptOverlap := 1;
                                     rl_unidimensionalTransport := true; rl_quadraticPenalty := 1152921504606847 # 1152921504606846976;
                                     rl_sideMargin := 8106479329266893 # 9007199254740992; rl_coarseningLimit := 100 # 1;
                                     rl_targetBlending := 0 # 1 |};
          gp_penalty := {| pe_cutoffDistance := 40 # 1; pe_cutoffDistanceUpdateFactor := 1 # 1; pe_areaExponent := 1 # 2;
                           pe_initialValue := 1080863910568919 # 36028797018963968; pe_updateFactor := 2769713770832855 # 2251799813685248;
                           pe_targetBlending := 1 # 1 |} |};
     cp_legalization := {| lg_costModel := costModel; lg_orderingWidth := 3602879701896397 # 18014398509481984;
                           lg_orderingHeight := (-1) # 1; lg_orderingY := 0 # 1 |};
     cp_detailed := d;
     cp_seed := 0 |}.
Local Open Scope Z_scope.
Definition effort3_detailed : DetailedParams :=
  {| dp_nbPasses := 3; dp_localSearchNbNeighbours := 3; dp_localSearchNbRows := 2; dp_shiftNbRows := 3;
     dp_shiftMaxNbCells := 62; dp_reorderingNbRows := 1; dp_reorderingMaxNbCells := 1 |}.
