(* C14 -- line-by-line model of /repo/src/place_global/transportation_1d.cpp (with the F11 repair:
   Transportation1dSorter::idleSink; line numbers `cpp:` refer to the repaired file, commit bae577b on agent/C14).  Values are Z (long long, ideal), indices are nat (the C++
   uses int/size_t; every index is >= 0 by construction).  No proofs in this file.

   Reading of out-of-range indices: the sweep (`run`, `computeSolution`) reads through `zn`
   (default 0); the code that produces the *result of assign()* -- computeAssignment and
   convertAssignmentBack, the subject of the memory clause of C14 -- is modelled at machine level:
   every array read/write is option-valued (`nth_error`, `upd`) and an out-of-range access makes
   the whole call answer `Err EOOB`. *)
From Coq Require Import List ZArith Bool.
Import ListNotations.
Local Open Scope Z_scope.

(* ------------------------------------------------------------------ helpers *)
Definition zn (l : list Z) (i : nat) : Z := nth i l 0.
Definition nn (l : list nat) (i : nat) : nat := nth i l O.

(* S / D of setupData(): S[0]=0, S[k+1]=S[k]+s[k] *)
Fixpoint psums (acc : Z) (l : list Z) : list Z :=
  acc :: match l with [] => [] | x :: r => psums (acc + x) r end.

(* `ret = 0; for (...) ret += s[i];`  (totalSupply / totalDemand) *)
Definition total (l : list Z) : Z := fold_left Z.add l 0.

(* vector write `l[i] = x`; None = index outside the vector *)
Fixpoint upd {A : Type} (l : list A) (i : nat) (x : A) : option (list A) :=
  match l, i with
  | [], _ => None
  | _ :: r, O => Some (x :: r)
  | y :: r, S i' => match upd r i' x with Some r' => Some (y :: r') | None => None end
  end.

Inductive err := EInconsistentSupplies | EInconsistentDemands | ENegSupply | ENegDemand
               | ESupplyGtDemand | EDivZero | EFuel | EOOB.
Inductive res (A : Type) := Ok (a : A) | Err (e : err).
Arguments Ok {A} a. Arguments Err {A} e.

(* ------------------------------------------------------------------ Transportation1d *)
Record prob := { pb_u : list Z; pb_v : list Z; pb_s : list Z; pb_d : list Z }.

Definition nb_sources (pb : prob) : nat := length (pb_u pb).
Definition nb_sinks (pb : prob) : nat := length (pb_v pb).

(* Transportation1d::check() (cpp:426-452); the two position-size tests are tautologies in the C++ *)
Definition check (pb : prob) : option err :=
  if negb (Nat.eqb (length (pb_s pb)) (nb_sources pb)) then Some EInconsistentSupplies
  else if negb (Nat.eqb (length (pb_d pb)) (nb_sinks pb)) then Some EInconsistentDemands
  else if existsb (fun c => c <? 0) (pb_s pb) then Some ENegSupply
  else if existsb (fun c => c <? 0) (pb_d pb) then Some ENegDemand
  else if total (pb_d pb) <? total (pb_s pb) then Some ESupplyGtDemand
  else None.

(* Transportation1d::balanceDemand() (cpp:132-145).  `missing / nbSinks()` with no sink is a division
   by zero in the C++ (SIGFPE): EDivZero.  totalSupply()/totalDemand() sum over nbSources()/nbSinks()
   = the position vectors' sizes; the model assumes the sizes agree (the harness always builds them so). *)
Fixpoint add_first (k : nat) (l : list Z) : list Z :=
  match k, l with S k', x :: r => (x + 1) :: add_first k' r | _, _ => l end.
Definition balance_demand (pb : prob) : res prob :=
  let missing := total (pb_s pb) - total (pb_d pb) in
  if missing <=? 0 then Ok pb
  else match nb_sinks pb with
       | O => Err EDivZero
       | S _ =>
         let m := Z.of_nat (nb_sinks pb) in
         let added := Z.quot missing m in
         let d1 := map (fun x => x + added) (pb_d pb) in
         let missing' := missing - added * m in
         Ok {| pb_u := pb_u pb; pb_v := pb_v pb; pb_s := pb_s pb; pb_d := add_first (Z.to_nat missing') d1 |}
       end.

(* ------------------------------------------------------------------ Transportation1dSorter *)
(* std::pair<long long,long long>(position, index) under operator< ; indices are distinct, so the
   order is total and strict on the sorted vectors and std::sort has one possible result *)
Definition pair_lt (a b : Z * nat) : bool :=
  (fst a <? fst b) || ((fst a =? fst b) && (Nat.ltb (snd a) (snd b))).
Fixpoint ins_pair (x : Z * nat) (l : list (Z * nat)) : list (Z * nat) :=
  match l with
  | [] => [x]
  | y :: r => if pair_lt x y then x :: l else y :: ins_pair x r
  end.
Definition sort_pairs (l : list (Z * nat)) : list (Z * nat) := fold_right ins_pair [] l.

(* `for i: if (s[i] > 0) srcSort.emplace_back(u[i], i)` (cpp:18-22, 26-30) *)
Fixpoint pos_pairs (pos amt : list Z) (i : nat) : list (Z * nat) :=
  match pos, amt with
  | p :: pr, a :: ar => (if 0 <? a then [(p, i)] else []) ++ pos_pairs pr ar (S i)
  | _, _ => []
  end.

(* std::lower_bound(snkSort, (x, 0)) on a sorted vector = index of the first pair with position >= x *)
Fixpoint lower_bound_pairs (l : list (Z * nat)) (x : Z) : nat :=
  match l with [] => O | y :: r => if x <=? fst y then O else S (lower_bound_pairs r x) end.

(* the F11 repair (cpp:42-57): closest sink of non-zero demand for a source without supply *)
Definition idle_sink_of (snkSort : list (Z * nat)) (ui si : Z) : nat :=
  if (0 <? si) || Nat.eqb (length snkSort) 0 then O
  else
    let k := lower_bound_pairs snkSort ui in
    let k' := if Nat.eqb k (length snkSort)
                 || (Nat.ltb 0 k && (ui - fst (nth (k - 1) snkSort (0, O)) <=? fst (nth k snkSort (0, O)) - ui))
              then (k - 1)%nat else k in
    snd (nth k' snkSort (0, O)).

Fixpoint idle_sinks (snkSort : list (Z * nat)) (us ss : list Z) : list nat :=
  match us, ss with
  | ui :: ur, si :: sr => idle_sink_of snkSort ui si :: idle_sinks snkSort ur sr
  | _, _ => []
  end.

Record sorter := { srcOrder : list nat; snkOrder : list nat; idleSink : list nat }.

Definition mk_sorter (pb : prob) : sorter :=
  let srcSort := sort_pairs (pos_pairs (pb_u pb) (pb_s pb) 0) in
  let snkSort := sort_pairs (pos_pairs (pb_v pb) (pb_d pb) 0) in
  {| srcOrder := map snd srcSort; snkOrder := map snd snkSort;
     idleSink := idle_sinks snkSort (pb_u pb) (pb_s pb) |}.

(* ------------------------------------------------------------------ Transportation1dSolver *)
Record sprob := { su : list Z; sv : list Z; ss : list Z; sd : list Z; sS : list Z; sD : list Z }.

(* Transportation1dSorter::convert (cpp:60-77) + setupData (cpp:171-182) *)
Definition convert (so : sorter) (pb : prob) : sprob :=
  let ss' := map (zn (pb_s pb)) (srcOrder so) in
  let sd' := map (zn (pb_d pb)) (snkOrder so) in
  {| su := map (zn (pb_u pb)) (srcOrder so); sv := map (zn (pb_v pb)) (snkOrder so);
     ss := ss'; sd := sd'; sS := psums 0 ss'; sD := psums 0 sd' |}.

Definition n_src (P : sprob) : nat := length (su P).
Definition n_snk (P : sprob) : nat := length (sv P).
Definition cost (P : sprob) (i j : nat) : Z := Z.abs (zn (su P) i - zn (sv P) j).
(* delta(i,j) (hpp:228-230) *)
Definition delta (P : sprob) (i j : nat) : Z :=
  cost P i (j + 1) + cost P (i + 1) j - cost P (i + 1) (j + 1) - cost P i j.
Definition Sx (P : sprob) (i : nat) : Z := zn (sS P) i.
Definition Dx (P : sprob) (j : nat) : Z := zn (sD P) j.

(* std::priority_queue<std::pair<long long,long long>>: max-heap under the lexicographic order, a
   total order whose equal elements are identical -> a list sorted in decreasing order is exact *)
Definition event := (Z * Z)%type.
Definition ev_le (a b : event) : bool := (fst a <? fst b) || ((fst a =? fst b) && (snd a <=? snd b)).
Fixpoint ev_insert (x : event) (l : list event) : list event :=
  match l with
  | [] => [x]
  | y :: r => if ev_le y x then x :: l else y :: ev_insert x r
  end.

Record st := { ev : list event; lp : Z; lo : nat; os : nat; pp : list Z }.
(* lp = lastPosition, lo = lastOccupiedSink, os = optimalSink, pp = p *)

(* updateOptimalSink (cpp:193-199); the loop stops at the latest when j+1 = nbSinks: fuel nbSinks *)
Fixpoint upd_opt (P : sprob) (i : nat) (fuel : nat) (j : nat) : nat :=
  match fuel with
  | O => j
  | S f => if Nat.ltb (j + 1) (n_snk P) && (cost P i (j + 1) <=? cost P i j) then upd_opt P i f (j + 1) else j
  end.

(* std::upper_bound / std::lower_bound on the sorted v (cpp:270,272): first index with v > x / v >= x *)
Fixpoint first_idx (f : Z -> bool) (l : list Z) : nat :=
  match l with [] => O | y :: r => if f y then O else S (first_idx f r) end.
Definition upper_bound (l : list Z) (x : Z) : nat := first_idx (fun y => x <? y) l.
Definition lower_bound (l : list Z) (x : Z) : nat := first_idx (fun y => x <=? y) l.

(* pushNewSourceEvents (cpp:266-281) *)
Definition push_new_source_events (P : sprob) (i : nat) (s : st) : st :=
  match i with
  | O => s
  | S i1 =>
    let b := Nat.pred (upper_bound (sv P) (zn (su P) i1)) in
    let e := Nat.min (lower_bound (sv P) (zn (su P) i)) (lo s) in
    let evs := fold_left (fun evs j =>
                 let pos := Dx P (j + 1) - Sx P i in
                 let d := delta P i1 j in
                 if 0 <? pos then ev_insert (pos, d) evs else evs) (seq b (e - b)) (ev s) in
    {| ev := evs; lp := lp s; lo := lo s; os := os s; pp := pp s |}
  end.

(* pushNewSinkEvents (cpp:283-295) *)
Definition push_new_sink_events (P : sprob) (i j : nat) (s : st) : st :=
  if Nat.leb j (lo s) then s
  else
    let evs := fold_left (fun evs l =>
                 let pos := Z.min (Dx P (l + 1) - Sx P i) (lp s) in
                 let d := cost P i l - cost P i (l + 1) in
                 if 0 <? pos then ev_insert (pos, d) evs else evs) (seq (lo s) (j - lo s)) (ev s) in
    {| ev := evs; lp := lp s; lo := j; os := os s; pp := pp s |}.

(* the popping loop of getSlope (cpp:299-302): sum of the top events whose position is lastPosition *)
Fixpoint pop_at (x : Z) (evs : list event) : Z * list event :=
  match evs with
  | (p, d) :: r => if p =? x then let '(sl, r') := pop_at x r in (d + sl, r') else (0, evs)
  | [] => (0, [])
  end.

(* getSlope(pop) (cpp:297-307) *)
Definition get_slope (pop : bool) (s : st) : Z * st :=
  let '(slope, evs) := pop_at (lp s) (ev s) in
  let evs' := if negb pop && negb (slope =? 0) then ev_insert (lp s, slope) evs else evs in
  (slope, {| ev := evs'; lp := lp s; lo := lo s; os := os s; pp := pp s |}).

(* pushToLastSink (cpp:248-260) *)
Definition push_to_last_sink (P : sprob) (i : nat) (s : st) : st :=
  let j := lo s in
  let minPos := Z.max (Dx P (j + 1) - Sx P (i + 1)) 0 in
  let '(slope, s1) := get_slope true s in
  let lp' := match ev s1 with [] => minPos | (p, _) :: _ => Z.max minPos p end in
  let evs' := if 0 <? lp' then ev_insert (lp', slope) (ev s1) else ev s1 in
  {| ev := evs'; lp := lp'; lo := lo s1; os := os s1; pp := pp s1 |}.

(* pushToNewSink (cpp:262-264) *)
Definition push_to_new_sink (P : sprob) (i : nat) (s : st) : st :=
  push_new_sink_events P i (lo s + 1) s.

(* pushOnce (cpp:231-246) *)
Definition push_once (P : sprob) (i : nat) (s : st) : st :=
  let j := lo s in
  if Nat.eqb j (n_snk P - 1) then push_to_last_sink P i s
  else if lp s =? 0 then push_to_new_sink P i s
  else
    let reducedCostRight := cost P i (j + 1) in
    let '(slope, s1) := get_slope false s in
    let reducedCostLeft := slope + cost P i j in
    if reducedCostRight <=? reducedCostLeft then push_to_new_sink P i s1 else push_to_last_sink P i s1.

(* `while (lastPosition > D[lastOccupiedSink + 1] - S[i + 1]) pushOnce(i);` (cpp:225-227) *)
Fixpoint push_loop (P : sprob) (i : nat) (fuel : nat) (s : st) : option st :=
  if Dx P (lo s + 1) - Sx P (i + 1) <? lp s then
    match fuel with O => None | S f => push_loop P i f (push_once P i s) end
  else Some s.

(* the fuel handed to the loop of push(i): |events| + 2*nbSinks + 1  (sufficiency: Transp1dProofs.run_terminates) *)
Definition loop_fuel (P : sprob) (s : st) : nat := (length (ev s) + 2 * n_snk P + 1)%nat.

(* push (cpp:220-229) *)
Definition push (P : sprob) (i : nat) (s : st) : option st :=
  let s1 := {| ev := ev s; lp := lp s; lo := lo s; os := upd_opt P i (n_snk P) (os s); pp := pp s |} in
  let s2 := push_new_source_events P i s1 in
  let s3 := {| ev := ev s2; lp := Z.max (lp s2) (Dx P (os s2) - Sx P i); lo := lo s2; os := os s2; pp := pp s2 |} in
  let s4 := push_new_sink_events P i (os s3) s3 in
  match push_loop P i (loop_fuel P s4) s4 with
  | None => None
  | Some s5 => Some {| ev := ev s5; lp := lp s5; lo := lo s5; os := os s5; pp := pp s5 ++ [lp s5] |}
  end.

(* flushPositions (cpp:184-191): from the right, p[i] = min(p[i], running maximum position) *)
Fixpoint flush (mx : Z) (p : list Z) : list Z :=
  match p with
  | [] => []
  | x :: r => let r' := flush mx r in
              Z.min x (match r' with [] => mx | y :: _ => y end) :: r'
  end.

Definition init_st : st := {| ev := []; lp := 0; lo := O; os := O; pp := [] |}.

Fixpoint push_all (P : sprob) (is_ : list nat) (s : st) : option st :=
  match is_ with
  | [] => Some s
  | i :: r => match push P i s with None => None | Some s' => push_all P r s' end
  end.

(* run (cpp:201-218): the positions p after flushPositions; None = the push loop ran out of fuel *)
Definition run (P : sprob) : option (list Z) :=
  match push_all P (seq 0 (n_src P)) init_st with
  | None => None
  | Some s => Some (flush (zn (sD P) (n_snk P) - Sx P (length (pp s))) (pp s))
  end.

(* computeSolution (cpp:309-331); i+j grows by one per iteration: fuel = |p| + nbSinks *)
Definition triple := (nat * nat * Z)%type.
Fixpoint sweep (P : sprob) (p : list Z) (fuel : nat) (i j : nat) : list triple :=
  match fuel with
  | O => []
  | S f =>
    if Nat.ltb i (length p) && Nat.ltb j (n_snk P) then
      let bi := Sx P i + zn p i in
      let ei := Sx P (i + 1) + zn p i in
      let bj := Dx P j in
      let ej := Dx P (j + 1) in
      let b := Z.max bi bj in
      let e := Z.min ei ej in
      (if 0 <? e - b then [(i, j, e - b)] else [])
        ++ (if ei <? ej then sweep P p f (i + 1) j else sweep P p f i (j + 1))
    else []
  end.
Definition compute_solution (P : sprob) (p : list Z) : list triple :=
  sweep P p (length p + n_snk P) O O.

(* computeAssignment (cpp:333-345), machine level.  State of the scan: currentSink and the part of D
   that starts at D[currentSink+1]; an empty remainder is a read past the end of D. *)
Fixpoint scan_D (Dt : list Z) (cs : nat) (pos : Z) : option (nat * list Z) :=
  match Dt with
  | [] => None
  | x :: r => if x <=? pos then scan_D r (S cs) pos else Some (cs, Dt)
  end.

Fixpoint assign_loop (P : sprob) (p : list Z) (is_ : list nat) (ret : list nat) (cs : nat) (Dt : list Z)
  : option (list nat) :=
  match is_ with
  | [] => Some ret
  | i :: r =>
    match nth_error p i, nth_error (sS P) i, nth_error (ss P) i with
    | Some pi, Some Si, Some si =>
      let assignPos := pi + Si + Z.quot si 2 in
      match scan_D Dt cs assignPos with
      | None => None
      | Some (cs', Dt') =>
        match upd ret i cs' with
        | None => None
        | Some ret' => assign_loop P p r ret' cs' Dt'
        end
      end
    | _, _, _ => None
    end
  end.

Definition compute_assignment (P : sprob) (p : list Z) : option (list nat) :=
  assign_loop P p (seq 0 (length p)) (repeat O (length p)) O (tl (sD P)).

(* convertSolutionBack (cpp:79-87) *)
Definition convert_solution_back (so : sorter) (sol : list triple) : list triple :=
  map (fun '(i, j, a) => (nn (srcOrder so) i, nn (snkOrder so) j, a)) sol.

(* convertAssignmentBack, machine level: `ret0` is the vector the loop writes into *)
Fixpoint cab_loop (so : sorter) (a : list nat) (is_ : list nat) (ret : list nat) : option (list nat) :=
  match is_ with
  | [] => Some ret
  | i :: r =>
    match nth_error (srcOrder so) i, nth_error a i with
    | Some k, Some ai =>
      match nth_error (snkOrder so) ai with
      | Some t => match upd ret k t with Some ret' => cab_loop so a r ret' | None => None end
      | None => None
      end
    | _, _ => None
    end
  end.
(* repaired code (cpp:89-97 of the repaired tree): `ret = idleSink` *)
Definition convert_assignment_back (so : sorter) (a : list nat) : option (list nat) :=
  cab_loop so a (seq 0 (length a)) (idleSink so).
(* UNCHANGED code (cpp:71-79 of /repo at ccd26f6): `ret.resize(a.size())` -- kept for the F11 witness *)
Definition convert_assignment_back_unfixed (so : sorter) (a : list nat) : option (list nat) :=
  cab_loop so a (seq 0 (length a)) (repeat O (length a)).

(* ------------------------------------------------------------------ Transportation1d::solve / assign *)
(* solve (cpp:111-121).  solver.check(), checkSolutionValid and checkSolutionOptimal only throw; they are
   not modelled: a throw of the C++ shows as a difference in the correspondence run. *)
Definition solve (pb : prob) : res (list triple) :=
  match check pb with
  | Some e => Err e
  | None =>
    let so := mk_sorter pb in
    let P := convert so pb in
    match run P with
    | None => Err EFuel
    | Some p => Ok (convert_solution_back so (compute_solution P p))
    end
  end.

Definition assign_with (cab : sorter -> list nat -> option (list nat)) (pb : prob) : res (list nat) :=
  match check pb with
  | Some e => Err e
  | None =>
    let so := mk_sorter pb in
    let P := convert so pb in
    match run P with
    | None => Err EFuel
    | Some p =>
      match compute_assignment P p with
      | None => Err EOOB
      | Some a => match cab so a with None => Err EOOB | Some r => Ok r end
      end
    end
  end.
(* assign (cpp:123-130) *)
Definition assign : prob -> res (list nat) := assign_with convert_assignment_back.
Definition assign_unfixed : prob -> res (list nat) := assign_with convert_assignment_back_unfixed.
