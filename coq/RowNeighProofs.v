(* Proofs about the RowNeighbourhood model (RowNeigh.v): index safety for all inputs, exact length bounds, geometric
   meaning, ordering, symmetry (and its failure under a cut-off), independence of the construction order.
   The statements that matter are re-exported in Properties_C02_neigh.v. *)
From Coq Require Import List ZArith Lia Bool Permutation Sorted ZifyBool.
Import ListNotations.
Require Import CV.FreeSpace CV.RowNeigh.
Local Open Scope Z_scope.

(* ------------------------------------------------------------------------------------------------------------- *)
(* 1. the insertion sort, for a comparator that is asymmetric and whose negation is transitive                   *)
Section Sort.
  Context {A : Type} (lt : A -> A -> bool).
  Definition le_of (a b : A) : Prop := lt b a = false.
  Hypothesis lt_asym : forall a b, lt a b = true -> lt b a = false.
  Hypothesis le_trans : forall a b c, le_of a b -> le_of b c -> le_of a c.

  Lemma insert_perm x l : Permutation (insert lt x l) (x :: l).
  Proof.
    induction l as [|y l IH]; cbn [insert]; [apply Permutation_refl|].
    destruct (lt y x); [|apply Permutation_refl].
    eapply Permutation_trans; [apply perm_skip, IH|apply perm_swap].
  Qed.

  Lemma isort_perm l : Permutation (isort lt l) l.
  Proof.
    induction l as [|x l IH]; [apply Permutation_refl|]. unfold isort; cbn [fold_right]. fold (isort lt l).
    eapply Permutation_trans; [apply insert_perm|apply perm_skip, IH].
  Qed.

  Lemma insert_sorted x l : StronglySorted le_of l -> StronglySorted le_of (insert lt x l).
  Proof.
    induction l as [|y l IH]; intros S; cbn [insert].
    - constructor; constructor.
    - inversion S as [|? ? S' Fy]; subst. destruct (lt y x) eqn:E.
      + constructor; [apply IH, S'|].
        apply (Permutation_Forall (Permutation_sym (insert_perm x l))). constructor; [|exact Fy].
        unfold le_of. apply lt_asym, E.
      + constructor; [exact S|]. constructor; [exact E|].
        apply Forall_forall. intros z Hz. apply (le_trans x y z E). rewrite Forall_forall in Fy. apply Fy, Hz.
  Qed.

  Lemma isort_sorted l : StronglySorted le_of (isort lt l).
  Proof.
    induction l as [|x l IH]; [constructor|]. unfold isort; cbn [fold_right]. fold (isort lt l).
    apply insert_sorted, IH.
  Qed.

  (* two sorted arrangements of the same elements are equal when equivalent elements are equal: the result of ANY
     correct sorting algorithm (std::sort included) is then the list insertion sort computes *)
  Lemma sorted_perm_unique l : forall l',
    StronglySorted le_of l -> StronglySorted le_of l' -> Permutation l l' ->
    (forall a b, In a l -> In b l -> le_of a b -> le_of b a -> a = b) -> l = l'.
  Proof.
    induction l as [|a t IH]; intros l' S S' P Anti.
    - apply Permutation_nil in P. now subst.
    - destruct l' as [|a' t']; [apply Permutation_sym, Permutation_nil in P; discriminate|].
      inversion S as [|? ? St Fa]; inversion S' as [|? ? St' Fa']; subst.
      rewrite Forall_forall in Fa, Fa'.
      assert (Ha' : In a' (a :: t)) by (apply (Permutation_in _ (Permutation_sym P)); left; reflexivity).
      assert (Ha : In a (a' :: t')) by (apply (Permutation_in _ P); left; reflexivity).
      assert (E : a = a').
      { destruct Ha' as [->|Ha't]; [reflexivity|]. destruct Ha as [->|Hat']; [reflexivity|].
        apply Anti; [left; reflexivity|right; exact Ha't|apply Fa, Ha't|apply Fa', Hat']. }
      subst a'. f_equal. apply IH; [exact St|exact St'|eapply Permutation_cons_inv, P|].
      intros x y Hx Hy. apply Anti; right; assumption.
  Qed.

  Lemma isort_unique l l' :
    Permutation l l' -> (forall a b, In a l -> In b l -> le_of a b -> le_of b a -> a = b) ->
    isort lt l = isort lt l'.
  Proof.
    intros P Anti. apply sorted_perm_unique; [apply isort_sorted|apply isort_sorted| |].
    - eapply Permutation_trans; [apply isort_perm|]. eapply Permutation_trans; [exact P|apply Permutation_sym, isort_perm].
    - intros a b Ha Hb. apply Anti; apply (Permutation_in _ (isort_perm l)); assumption.
  Qed.

  Lemma sorted_is_isort l s :
    StronglySorted le_of s -> Permutation s l ->
    (forall a b, In a l -> In b l -> le_of a b -> le_of b a -> a = b) -> s = isort lt l.
  Proof.
    intros S P Anti. apply sorted_perm_unique; [exact S|apply isort_sorted| |].
    - eapply Permutation_trans; [exact P|apply Permutation_sym, isort_perm].
    - intros a b Ha Hb. apply Anti; apply (Permutation_in _ P); assumption.
  Qed.
End Sort.

(* the four comparators satisfy the two hypotheses; equivalence under each of them *)
Lemma order_below_asym a b : order_below a b = true -> order_below b a = false.
Proof. unfold order_below. lia. Qed.
Lemma order_below_trans a b c : le_of order_below a b -> le_of order_below b c -> le_of order_below a c.
Proof. unfold le_of, order_below. lia. Qed.
Lemma order_above_asym a b : order_above a b = true -> order_above b a = false.
Proof. unfold order_above. lia. Qed.
Lemma order_above_trans a b c : le_of order_above a b -> le_of order_above b c -> le_of order_above a c.
Proof. unfold le_of, order_above. lia. Qed.
Lemma order_side_asym a b : order_side a b = true -> order_side b a = false.
Proof. unfold order_side. lia. Qed.
Lemma order_side_trans a b c : le_of order_side a b -> le_of order_side b c -> le_of order_side a c.
Proof. unfold le_of, order_side. lia. Qed.
Lemma order_dist_asym px py a b : order_dist px py a b = true -> order_dist px py b a = false.
Proof. unfold order_dist. generalize (dist px py (snd a)) (dist px py (snd b)). lia. Qed.
Lemma order_dist_trans px py a b c :
  le_of (order_dist px py) a b -> le_of (order_dist px py) b c -> le_of (order_dist px py) a c.
Proof. unfold le_of, order_dist. generalize (dist px py (snd a)) (dist px py (snd b)) (dist px py (snd c)). lia. Qed.

(* ------------------------------------------------------------------------------------------------------------- *)
(* 2. the indexed rows and their arrangements                                                                    *)
Definition row_at (rows : list rect) (i : nat) : rect := nth i rows dflt.

Lemma map_fst_combine_eq {A B} (l : list A) : forall (l' : list B), length l = length l' -> map fst (combine l l') = l.
Proof.
  induction l as [|a l IH]; intros [|b l'] H; cbn in *; try reflexivity; try discriminate. f_equal. apply IH. lia.
Qed.
Lemma indexed_fst rows : map fst (indexed rows) = seq 0 (length rows).
Proof. unfold indexed. apply map_fst_combine_eq. now rewrite seq_length. Qed.

Lemma combine_seq_In (rows : list rect) : forall s i ri,
  In (i, ri) (combine (seq s (length rows)) rows) <-> (s <= i < s + length rows)%nat /\ ri = nth (i - s) rows dflt.
Proof.
  induction rows as [|r rows IH]; intros s i ri; cbn [length seq combine In].
  - split; [tauto|lia].
  - rewrite IH. split.
    + intros [E|[H1 H2]].
      * inversion E; subst. split; [lia|]. now rewrite Nat.sub_diag.
      * split; [lia|]. subst ri. replace (i - s)%nat with (S (i - S s)) by lia. reflexivity.
    + intros [H1 H2]. destruct (Nat.eq_dec i s) as [->|Hne].
      * left. rewrite Nat.sub_diag in H2. now subst.
      * right. split; [lia|]. subst ri. replace (i - s)%nat with (S (i - S s)) by lia. reflexivity.
Qed.

Lemma indexed_In rows i ri : In (i, ri) (indexed rows) <-> (i < length rows)%nat /\ ri = row_at rows i.
Proof. unfold indexed, row_at. rewrite combine_seq_In, Nat.sub_0_r. intuition lia. Qed.

(* an arrangement of the indexed rows: what a sorting routine is given / returns *)
Definition arrangement (rows : list rect) (s : list irow) : Prop := Permutation s (indexed rows).

Lemma arr_In rows s i ri : arrangement rows s -> In (i, ri) s -> (i < length rows)%nat /\ ri = row_at rows i.
Proof. intros P H. apply indexed_In. apply (Permutation_in _ P), H. Qed.
Lemma arr_NoDup rows s : arrangement rows s -> NoDup (map fst s).
Proof.
  intros P. apply (Permutation_NoDup (l := seq 0 (length rows))); [|apply seq_NoDup].
  rewrite <- indexed_fst. apply Permutation_map, Permutation_sym, P.
Qed.
Lemma arr_has rows s i : arrangement rows s -> (i < length rows)%nat -> In (i, row_at rows i) s.
Proof. intros P H. apply (Permutation_in _ (Permutation_sym P)). apply indexed_In. auto. Qed.
Lemma arr_fst rows s i : arrangement rows s -> In i (map fst s) <-> (i < length rows)%nat.
Proof.
  intros P. split.
  - intros H. apply in_map_iff in H. destruct H as [[j rj] [E H]]. cbn in E; subst. eapply arr_In; eauto.
  - intros H. apply in_map_iff. exists (i, row_at rows i). split; [reflexivity|]. now apply arr_has.
Qed.
Lemma arr_indexed rows : arrangement rows (indexed rows).
Proof. apply Permutation_refl. Qed.
Lemma arr_isort rows lt s : arrangement rows s -> arrangement rows (isort lt s).
Proof. intros P. eapply Permutation_trans; [apply isort_perm|exact P]. Qed.

(* ------------------------------------------------------------------------------------------------------------- *)
(* 3. scan / vertical / collect                                                                                  *)
Lemma scan_In test k f l j : In j (scan test k f l) -> exists rj, In (j, rj) l /\ test rj = true.
Proof.
  revert f. induction l as [|[i2 r2] l IH]; intros f H; cbn [scan] in H; [contradiction|].
  apply in_app_or in H. destruct H as [H|H].
  - destruct (test r2) eqn:T; [|contradiction]. destruct H as [<-|[]]. exists r2. split; [left; reflexivity|exact T].
  - destruct (k <=? _); [contradiction|]. apply IH in H. destruct H as [rj [H1 H2]]. exists rj. split; [right; exact H1|exact H2].
Qed.

Lemma scan_length test k f l : Z.of_nat (length (scan test k f l)) <= Z.max (k - f) 1.
Proof.
  revert f. induction l as [|[i2 r2] l IH]; intros f; cbn [scan]; [cbn; lia|].
  rewrite app_length. destruct (test r2).
  - destruct (k <=? f + 1) eqn:E; cbn [length]; [lia|]. specialize (IH (f + 1)). lia.
  - destruct (k <=? f) eqn:E; cbn [length]; [lia|]. specialize (IH f). lia.
Qed.

(* k >= 1: the first k successors that pass the test *)
Lemma scan_firstn test k f l : 0 <= f < k ->
  scan test k f l = firstn (Z.to_nat (k - f)) (map fst (filter (fun p => test (snd p)) l)).
Proof.
  revert f. induction l as [|[i2 r2] l IH]; intros f Hf; cbn [scan filter map snd].
  - now rewrite firstn_nil.
  - destruct (test r2); cbn [app map fst].
    + replace (Z.to_nat (k - f)) with (S (Z.to_nat (k - (f + 1)))) by lia. cbn [firstn]. f_equal.
      destruct (k <=? f + 1) eqn:E; [replace (k - (f + 1)) with 0 by lia; reflexivity|]. apply IH. lia.
    + destruct (k <=? f) eqn:E; [lia|]. apply IH, Hf.
Qed.

(* k <= 0: only the immediate successor is examined (the cut-off is tested after the push) *)
Lemma scan_nonpos test k l : k <= 0 ->
  scan test k 0 l = match l with [] => [] | (i2, r2) :: _ => if test r2 then [i2] else [] end.
Proof.
  intros Hk. destruct l as [|[i2 r2] l]; cbn [scan]; [reflexivity|].
  destruct (test r2).
  - destruct (k <=? 0 + 1) eqn:E; [reflexivity|lia].
  - destruct (k <=? 0) eqn:E; [reflexivity|lia].
Qed.

Lemma scan_sorted (P : nat -> nat -> Prop) test k f l :
  StronglySorted (fun a b : irow => P (fst a) (fst b)) l -> StronglySorted P (scan test k f l).
Proof.
  revert f. induction l as [|[i2 r2] l IH]; intros f S; cbn [scan]; [constructor|].
  inversion S as [|? ? S' F]; subst. rewrite Forall_forall in F.
  assert (T : StronglySorted P (if k <=? (if test r2 then f + 1 else f) then [] else scan test k (if test r2 then f + 1 else f) l))
    by (destruct (k <=? _); [constructor|apply IH, S']).
  destruct (test r2); cbn [app]; [|exact T].
  constructor; [exact T|]. apply Forall_forall. intros j Hj.
  destruct (k <=? f + 1); [contradiction|]. apply scan_In in Hj. destruct Hj as [rj [Hj _]]. apply (F _ Hj).
Qed.

Lemma scan_NoDup test k f l : NoDup (map fst l) -> NoDup (scan test k f l).
Proof.
  revert f. induction l as [|[i2 r2] l IH]; intros f N; cbn [scan]; [constructor|].
  cbn [map fst] in N. inversion N as [|? ? Ni N']; subst.
  assert (T : NoDup (if k <=? (if test r2 then f + 1 else f) then [] else scan test k (if test r2 then f + 1 else f) l))
    by (destruct (k <=? _); [constructor|apply IH, N']).
  destruct (test r2); cbn [app]; [|exact T].
  constructor; [|exact T]. intros Hj. destruct (k <=? f + 1); [contradiction|].
  apply scan_In in Hj. destruct Hj as [rj [Hj _]]. apply Ni. apply in_map_iff. exists (i2, rj). auto.
Qed.

Lemma collect_notin rel k r s : ~ In r (map fst s) -> collect r (vertical rel k s) = [].
Proof.
  induction s as [|[i1 r1] s IH]; intros N; [reflexivity|]. cbn [vertical]. unfold collect in *. cbn [flat_map fst snd].
  cbn [map fst] in N. destruct (Nat.eqb_spec i1 r) as [->|Hne]; [exfalso; apply N; left; reflexivity|].
  cbn [app]. apply IH. intros H. apply N. right. exact H.
Qed.

(* slot r holds exactly what the inner loop pushed while row r was the outer row *)
Lemma collect_vertical rel k r row pre post :
  NoDup (map fst (pre ++ (r, row) :: post)) ->
  collect r (vertical rel k (pre ++ (r, row) :: post)) = scan (fun r2 => rel r2 row) k 0 post.
Proof.
  induction pre as [|[i1 r1] pre IH]; intros N.
  - cbn [app vertical]. unfold collect. cbn [flat_map fst snd]. rewrite Nat.eqb_refl.
    fold (collect r (vertical rel k post)). rewrite collect_notin; [apply app_nil_r|].
    cbn [app map fst] in N. now inversion N.
  - cbn [app vertical]. unfold collect. cbn [flat_map fst snd]. fold (collect r (vertical rel k (pre ++ (r, row) :: post))).
    cbn [app map fst] in N. inversion N as [|? ? Ni N']; subst.
    destruct (Nat.eqb_spec i1 r) as [->|Hne].
    + exfalso. apply Ni. rewrite map_app. apply in_or_app. right. left. reflexivity.
    + cbn [app]. apply IH, N'.
Qed.

(* ------------------------------------------------------------------------------------------------------------- *)
(* 4. the vertical lists for an arrangement s (s = the sorted vector)                                            *)
Lemma collect_cases rows s rel k r : arrangement rows s ->
  (~ (r < length rows)%nat /\ collect r (vertical rel k s) = []) \/
  ((r < length rows)%nat /\ exists pre post, s = pre ++ (r, row_at rows r) :: post /\
     collect r (vertical rel k s) = scan (fun r2 => rel r2 (row_at rows r)) k 0 post).
Proof.
  intros P. destruct (lt_dec r (length rows)) as [H|H].
  - right. split; [exact H|]. destruct (in_split _ _ (arr_has rows s r P H)) as [pre [post E]].
    exists pre, post. split; [exact E|]. rewrite E. apply collect_vertical. rewrite <- E. eapply arr_NoDup, P.
  - left. split; [exact H|]. apply collect_notin. rewrite (arr_fst rows s r P). exact H.
Qed.

Lemma post_facts rows s pre post r j rj : arrangement rows s -> s = pre ++ (r, row_at rows r) :: post ->
  In (j, rj) post -> (j < length rows)%nat /\ rj = row_at rows j /\ j <> r.
Proof.
  intros P E H. assert (Hs : In (j, rj) s) by (rewrite E; apply in_or_app; right; right; exact H).
  destruct (arr_In rows s j rj P Hs) as [H1 H2]. repeat split; [exact H1|exact H2|].
  intros ->. pose proof (arr_NoDup rows s P) as N. rewrite E, map_app in N. cbn [map fst] in N.
  apply NoDup_remove_2 in N. apply N. apply in_or_app. right. apply in_map_iff. exists (r, rj). auto.
Qed.

Lemma vert_In rows s rel k r j : arrangement rows s -> In j (collect r (vertical rel k s)) ->
  (r < length rows)%nat /\ (j < length rows)%nat /\ j <> r /\ rel (row_at rows j) (row_at rows r) = true.
Proof.
  intros P H. destruct (collect_cases rows s rel k r P) as [[_ E]|[Hr [pre [post [Es E]]]]]; rewrite E in H; [contradiction|].
  apply scan_In in H. destruct H as [rj [Hj T]]. destruct (post_facts rows s pre post r j rj P Es Hj) as [H1 [H2 H3]].
  subst rj. auto.
Qed.

Lemma vert_length rows s rel k r : arrangement rows s ->
  Z.of_nat (length (collect r (vertical rel k s))) <= Z.max k 1.
Proof.
  intros P. destruct (collect_cases rows s rel k r P) as [[_ E]|[Hr [pre [post [Es E]]]]]; rewrite E; [cbn; lia|].
  pose proof (scan_length (fun r2 => rel r2 (row_at rows r)) k 0 post). lia.
Qed.

Lemma NoDup_app_r {A} (l1 l2 : list A) : NoDup (l1 ++ l2) -> NoDup l2.
Proof. induction l1 as [|a l1 IH]; intros N; [exact N|]. inversion N; subst. now apply IH. Qed.

Lemma vert_NoDup rows s rel k r : arrangement rows s -> NoDup (collect r (vertical rel k s)).
Proof.
  intros P. destruct (collect_cases rows s rel k r P) as [[_ E]|[Hr [pre [post [Es E]]]]]; rewrite E; [constructor|].
  apply scan_NoDup. pose proof (arr_NoDup rows s P) as N. rewrite Es, map_app in N. cbn [map] in N.
  apply NoDup_app_r in N. now inversion N.
Qed.

Lemma StronglySorted_app_r {A} (R : A -> A -> Prop) l1 l2 : StronglySorted R (l1 ++ l2) -> StronglySorted R l2.
Proof. induction l1 as [|a l1 IH]; intros S; [exact S|]. inversion S; subst. now apply IH. Qed.

Lemma StronglySorted_weaken_In {A} (R R' : A -> A -> Prop) l :
  (forall a b, In a l -> In b l -> R a b -> R' a b) -> StronglySorted R l -> StronglySorted R' l.
Proof.
  induction l as [|a l IH]; intros W S; [constructor|]. inversion S as [|? ? S' F]; subst. constructor.
  - apply IH; [|exact S']. intros x y Hx Hy. apply W; right; assumption.
  - rewrite Forall_forall in *. intros y Hy. apply W; [left; reflexivity|right; exact Hy|apply F, Hy].
Qed.

(* the list of slot r keeps the order of the sorted vector *)
Lemma vert_sorted rows s rel lt k r : arrangement rows s -> StronglySorted (le_of lt) s ->
  StronglySorted (fun i j => lt (j, row_at rows j) (i, row_at rows i) = false) (collect r (vertical rel k s)).
Proof.
  intros P S. destruct (collect_cases rows s rel k r P) as [[_ E]|[Hr [pre [post [Es E]]]]]; rewrite E; [constructor|].
  apply scan_sorted. rewrite Es in S. apply StronglySorted_app_r in S. inversion S as [|? ? S' _]; subst.
  revert S'. apply StronglySorted_weaken_In. intros [a ra] [b rb] Ha Hb. unfold le_of. cbn [fst].
  destruct (post_facts rows _ pre post r a ra P eq_refl Ha) as [_ [-> _]].
  destruct (post_facts rows _ pre post r b rb P eq_refl Hb) as [_ [-> _]]. auto.
Qed.

Lemma StronglySorted_app_before {A} (R : A -> A -> Prop) l1 x l2 :
  StronglySorted R (l1 ++ x :: l2) -> Forall (fun a => R a x) l1.
Proof.
  induction l1 as [|a l1 IH]; intros S; [constructor|]. cbn [app] in S. inversion S as [|? ? S' F]; subst.
  constructor; [|apply IH, S']. rewrite Forall_forall in F. apply F. apply in_or_app. right. left. reflexivity.
Qed.

(* when the test rejects row r and everything sorted before it: the list is the first k accepted elements of s *)
Lemma vert_firstn rows s rel lt k r : arrangement rows s -> StronglySorted (le_of lt) s -> 1 <= k ->
  (r < length rows)%nat -> (forall a, lt a a = false) ->
  (forall a, le_of lt a (r, row_at rows r) -> rel (snd a) (row_at rows r) = false) ->
  collect r (vertical rel k s) =
  firstn (Z.to_nat k) (map fst (filter (fun p => rel (snd p) (row_at rows r)) s)).
Proof.
  intros P S Hk Hr Irr Hbefore. destruct (collect_cases rows s rel k r P) as [[N _]|[_ [pre [post [Es E]]]]]; [contradiction|].
  rewrite E, scan_firstn by lia. rewrite Z.sub_0_r. do 2 f_equal. rewrite Es, filter_app. cbn [filter snd].
  pose proof (Hbefore (r, row_at rows r) (Irr _)) as Hs. cbn [snd] in Hs. rewrite Hs.
  replace (filter _ pre) with (@nil irow); [reflexivity|]. symmetry.
  rewrite Es in S. apply StronglySorted_app_before in S. rewrite Forall_forall in S.
  clear -S Hbefore. induction pre as [|a pre IH]; [reflexivity|]. cbn [filter].
  rewrite (Hbefore a) by (apply S; left; reflexivity). apply IH. intros x Hx. apply S. right. exact Hx.
Qed.

(* ------------------------------------------------------------------------------------------------------------- *)
(* 5. rowsBelow / rowsAbove                                                                                      *)
Lemma is_below_spec a b : is_below a b = true <-> minY a < minY b /\ minX b < maxX a /\ minX a < maxX b.
Proof. unfold is_below. lia. Qed.
Lemma is_above_spec a b : is_above a b = true <-> minY b < minY a /\ minX b < maxX a /\ minX a < maxX b.
Proof. unfold is_above. lia. Qed.
Lemma is_above_below a b : is_above a b = is_below b a.
Proof. unfold is_above, is_below. lia. Qed.
Lemma is_left_spec a b : is_left a b = true <-> maxX a <= minX b.
Proof. unfold is_left. lia. Qed.
Lemma is_right_spec a b : is_right a b = true <-> maxX b <= minX a.
Proof. unfold is_right. lia. Qed.

Definition sorted_below rows := isort order_below (indexed rows).
Definition sorted_above rows := isort order_above (indexed rows).
Lemma sorted_below_arr rows : arrangement rows (sorted_below rows).
Proof. apply arr_isort, arr_indexed. Qed.
Lemma sorted_above_arr rows : arrangement rows (sorted_above rows).
Proof. apply arr_isort, arr_indexed. Qed.

Lemma below_safe rows k r j : In j (rows_below rows k r) ->
  (r < length rows)%nat /\ (j < length rows)%nat /\ j <> r /\ is_below (row_at rows j) (row_at rows r) = true.
Proof. apply vert_In, sorted_below_arr. Qed.
Lemma above_safe rows k r j : In j (rows_above rows k r) ->
  (r < length rows)%nat /\ (j < length rows)%nat /\ j <> r /\ is_above (row_at rows j) (row_at rows r) = true.
Proof. apply vert_In, sorted_above_arr. Qed.

Lemma below_length rows k r : Z.of_nat (length (rows_below rows k r)) <= Z.max k 1.
Proof. apply vert_length with (rows := rows), sorted_below_arr. Qed.
Lemma above_length rows k r : Z.of_nat (length (rows_above rows k r)) <= Z.max k 1.
Proof. apply vert_length with (rows := rows), sorted_above_arr. Qed.
Lemma below_NoDup rows k r : NoDup (rows_below rows k r).
Proof. apply vert_NoDup with (rows := rows), sorted_below_arr. Qed.
Lemma above_NoDup rows k r : NoDup (rows_above rows k r).
Proof. apply vert_NoDup with (rows := rows), sorted_above_arr. Qed.

(* closest first: decreasing minY for the rows below, increasing for the rows above, equal minY by increasing index *)
Lemma below_sorted rows k r :
  StronglySorted (fun i j => minY (row_at rows j) <= minY (row_at rows i) /\
                             (minY (row_at rows j) = minY (row_at rows i) -> (i <= j)%nat)) (rows_below rows k r).
Proof.
  eapply StronglySorted_weaken_In; [|apply (vert_sorted rows (sorted_below rows) is_below order_below k r);
    [apply sorted_below_arr|apply isort_sorted; [apply order_below_asym|apply order_below_trans]]].
  intros i j _ _. unfold order_below. cbn [fst snd]. lia.
Qed.
Lemma above_sorted rows k r :
  StronglySorted (fun i j => minY (row_at rows i) <= minY (row_at rows j) /\
                             (minY (row_at rows j) = minY (row_at rows i) -> (i <= j)%nat)) (rows_above rows k r).
Proof.
  eapply StronglySorted_weaken_In; [|apply (vert_sorted rows (sorted_above rows) is_above order_above k r);
    [apply sorted_above_arr|apply isort_sorted; [apply order_above_asym|apply order_above_trans]]].
  intros i j _ _. unfold order_above. cbn [fst snd]. lia.
Qed.

(* exact content for a cut-off >= 1: the first k rows, in sorted order, that are strictly below/above with a common abscissa *)
Lemma below_firstn rows k r : 1 <= k -> (r < length rows)%nat ->
  rows_below rows k r =
  firstn (Z.to_nat k) (map fst (filter (fun p => is_below (snd p) (row_at rows r)) (sorted_below rows))).
Proof.
  intros Hk Hr. apply (vert_firstn rows (sorted_below rows) is_below order_below); auto.
  - apply sorted_below_arr.
  - apply isort_sorted; [apply order_below_asym|apply order_below_trans].
  - intros a. unfold order_below. lia.
  - intros a. unfold le_of, order_below, is_below. cbn [fst snd]. lia.
Qed.
Lemma above_firstn rows k r : 1 <= k -> (r < length rows)%nat ->
  rows_above rows k r =
  firstn (Z.to_nat k) (map fst (filter (fun p => is_above (snd p) (row_at rows r)) (sorted_above rows))).
Proof.
  intros Hk Hr. apply (vert_firstn rows (sorted_above rows) is_above order_above); auto.
  - apply sorted_above_arr.
  - apply isort_sorted; [apply order_above_asym|apply order_above_trans].
  - intros a. unfold order_above. lia.
  - intros a. unfold le_of, order_above, is_above. cbn [fst snd]. lia.
Qed.

(* a cut-off <= 0 does NOT give empty lists: the immediate successor in the sorted vector is still examined, so the
   list is either empty or the whole list of cut-off 1; and every cut-off <= 0 behaves like 0 *)
Lemma vert_nonpos rows s rel k r : arrangement rows s -> k <= 0 ->
  collect r (vertical rel k s) = collect r (vertical rel 0 s) /\
  (collect r (vertical rel k s) = [] \/ collect r (vertical rel k s) = collect r (vertical rel 1 s)).
Proof.
  intros P Hk.
  destruct (collect_cases rows s rel k r P) as [[N E]|[Hr [pre [post [Es E]]]]].
  - rewrite E. split; [|left; reflexivity]. symmetry. apply collect_notin. now rewrite (arr_fst rows s r P).
  - assert (N : NoDup (map fst (pre ++ (r, row_at rows r) :: post))) by (rewrite <- Es; eapply arr_NoDup, P).
    rewrite E, Es, !collect_vertical by exact N. rewrite !scan_nonpos by lia. split; [reflexivity|].
    destruct post as [|[i2 r2] post]; [left; reflexivity|]. cbn [scan].
    destruct (rel r2 (row_at rows r)); [right|left; reflexivity]. reflexivity.
Qed.
Lemma below_nonpos rows k r : k <= 0 ->
  rows_below rows k r = rows_below rows 0 r /\
  (rows_below rows k r = [] \/ rows_below rows k r = rows_below rows 1 r).
Proof. apply vert_nonpos with (rows := rows), sorted_below_arr. Qed.
Lemma above_nonpos rows k r : k <= 0 ->
  rows_above rows k r = rows_above rows 0 r /\
  (rows_above rows k r = [] \/ rows_above rows k r = rows_above rows 1 r).
Proof. apply vert_nonpos with (rows := rows), sorted_above_arr. Qed.

(* ------------------------------------------------------------------------------------------------------------- *)
(* 6. without an effective cut-off (k >= nbRows) the lists are complete, hence symmetric                         *)
Lemma filter_fst_In rows s (test : rect -> bool) j : arrangement rows s ->
  In j (map fst (filter (fun p => test (snd p)) s)) <-> (j < length rows)%nat /\ test (row_at rows j) = true.
Proof.
  intros P. rewrite in_map_iff. split.
  - intros [[i ri] [E H]]. cbn [fst] in E. subst i. apply filter_In in H. destruct H as [H T].
    destruct (arr_In rows s j ri P H) as [H1 ->]. auto.
  - intros [H T]. exists (j, row_at rows j). split; [reflexivity|]. apply filter_In. split; [now apply arr_has|exact T].
Qed.

Lemma firstn_big {A} n (l : list A) : (length l <= n)%nat -> firstn n l = l.
Proof. apply firstn_all2. Qed.

Lemma filter_len_le {A} (f : A -> bool) l : (length (filter f l) <= length l)%nat.
Proof. induction l as [|a l IH]; cbn [filter length]; [lia|]. destruct (f a); cbn [length]; lia. Qed.

Lemma filter_len rows s (f : irow -> bool) : arrangement rows s -> (length (map fst (filter f s)) <= length rows)%nat.
Proof.
  intros P. rewrite map_length. pose proof (filter_len_le f s) as H. pose proof (Permutation_length P) as E.
  assert (L : length (indexed rows) = length rows) by (unfold indexed, irow; rewrite combine_length, seq_length; lia).
  unfold irow in *. lia.
Qed.

Lemma firstn_filter_all rows s (f : irow -> bool) k : arrangement rows s -> Z.of_nat (length rows) <= k ->
  firstn (Z.to_nat k) (map fst (filter f s)) = map fst (filter f s).
Proof. intros P Hk. apply firstn_all2. pose proof (filter_len rows s f P). lia. Qed.

Lemma below_full rows k r j : Z.of_nat (length rows) <= k ->
  In j (rows_below rows k r) <->
  (r < length rows)%nat /\ (j < length rows)%nat /\ is_below (row_at rows j) (row_at rows r) = true.
Proof.
  intros Hk. split; [intros H; apply below_safe in H; tauto|]. intros [Hr [Hj T]].
  rewrite below_firstn by lia.
  rewrite (firstn_filter_all rows) by (apply sorted_below_arr || exact Hk).
  apply (filter_fst_In rows (sorted_below rows) (fun x => is_below x (row_at rows r)) j (sorted_below_arr rows)). auto.
Qed.
Lemma above_full rows k r j : Z.of_nat (length rows) <= k ->
  In j (rows_above rows k r) <->
  (r < length rows)%nat /\ (j < length rows)%nat /\ is_above (row_at rows j) (row_at rows r) = true.
Proof.
  intros Hk. split; [intros H; apply above_safe in H; tauto|]. intros [Hr [Hj T]].
  rewrite above_firstn by lia.
  rewrite (firstn_filter_all rows) by (apply sorted_above_arr || exact Hk).
  apply (filter_fst_In rows (sorted_above rows) (fun x => is_above x (row_at rows r)) j (sorted_above_arr rows)). auto.
Qed.

Lemma symmetry_full rows k r j : Z.of_nat (length rows) <= k ->
  In j (rows_above rows k r) <-> In r (rows_below rows k j).
Proof. intros Hk. rewrite above_full, below_full by exact Hk. rewrite is_above_below. tauto. Qed.

(* one direction always holds geometrically: a listed row stands in the converse relation *)
Lemma above_converse rows k r j : In j (rows_above rows k r) -> is_below (row_at rows r) (row_at rows j) = true.
Proof. intros H. apply above_safe in H. rewrite <- is_above_below. tauto. Qed.

(* with a cut-off the symmetry fails: row 0 spans two rows 1, 2 of the next level; 0 is below both, only 1 is "above" 0 *)
Definition asym_rows : list rect :=
  [ {| minX := 0; maxX := 10; minY := 0; maxY := 1 |};
    {| minX := 0; maxX := 5; minY := 1; maxY := 2 |};
    {| minX := 5; maxX := 10; minY := 1; maxY := 2 |} ].
Lemma symmetry_cutoff_refuted :
  exists rows k r j, 1 <= k /\ In r (rows_below rows k j) /\ ~ In j (rows_above rows k r).
Proof.
  exists asym_rows, 1, 0%nat, 2%nat. split; [lia|]. split; vm_compute; [left; reflexivity|].
  intros [H|[]]. discriminate.
Qed.

(* ------------------------------------------------------------------------------------------------------------- *)
(* 7. independence of the construction order: the sorted vector, hence the lists, is a function of the SET of
      (index, row) pairs; the order in which they are pushed into sortedRows is irrelevant                        *)
Lemma arr_anti rows p (lt : irow -> irow -> bool) : arrangement rows p ->
  (forall a b : irow, le_of lt a b -> le_of lt b a -> fst a = fst b) ->
  forall a b, In a p -> In b p -> le_of lt a b -> le_of lt b a -> a = b.
Proof.
  intros P K [a ra] [b rb] Ha Hb L1 L2. pose proof (K _ _ L1 L2) as E. cbn [fst] in E. subst b.
  destruct (arr_In rows p a ra P Ha) as [_ ->]. destruct (arr_In rows p a rb P Hb) as [_ ->]. reflexivity.
Qed.

Lemma sorted_below_any_order rows p : arrangement rows p -> isort order_below p = sorted_below rows.
Proof.
  intros P. apply isort_unique; [apply order_below_asym|apply order_below_trans|exact P|].
  apply (arr_anti rows p order_below P). intros a b. unfold le_of, order_below. lia.
Qed.
Lemma sorted_above_any_order rows p : arrangement rows p -> isort order_above p = sorted_above rows.
Proof.
  intros P. apply isort_unique; [apply order_above_asym|apply order_above_trans|exact P|].
  apply (arr_anti rows p order_above P). intros a b. unfold le_of, order_above. lia.
Qed.
(* ... and whatever sorting algorithm is used: any sorted arrangement is the one insertion sort computes *)
Lemma sorted_below_any_algorithm rows s :
  arrangement rows s -> StronglySorted (le_of order_below) s -> s = sorted_below rows.
Proof.
  intros P S. apply sorted_is_isort; [apply order_below_asym|apply order_below_trans|exact S|exact P|].
  apply (arr_anti rows _ order_below (arr_indexed rows)). intros a b. unfold le_of, order_below. lia.
Qed.
Lemma sorted_above_any_algorithm rows s :
  arrangement rows s -> StronglySorted (le_of order_above) s -> s = sorted_above rows.
Proof.
  intros P S. apply sorted_is_isort; [apply order_above_asym|apply order_above_trans|exact S|exact P|].
  apply (arr_anti rows _ order_above (arr_indexed rows)). intros a b. unfold le_of, order_above. lia.
Qed.

(* ------------------------------------------------------------------------------------------------------------- *)
(* 8. rowsLeft / rowsRight, for ANY arrangement s returned by std::sort(orderSide)                               *)
Lemma fold_assign_cases r (t : list (nat * list nat)) : forall acc,
  fold_left (fun acc p => if (fst p =? r)%nat then snd p else acc) t acc = acc \/
  exists l, In (r, l) t /\ fold_left (fun acc p => if (fst p =? r)%nat then snd p else acc) t acc = l.
Proof.
  induction t as [|[i l] t IH]; intros acc; cbn [fold_left fst snd]; [left; reflexivity|].
  destruct (IH (if (i =? r)%nat then l else acc)) as [E|[l' [H E]]].
  - destruct (Nat.eqb_spec i r) as [->|Hne]; [|left; exact E].
    right. exists l. split; [left; reflexivity|exact E].
  - right. exists l'. split; [right; exact H|exact E].
Qed.
Lemma last_assign_cases r t : last_assign r t = [] \/ exists l, In (r, l) t /\ last_assign r t = l.
Proof. apply fold_assign_cases. Qed.

Lemma side_pairs_In s p1 p2 : In (p1, p2) (side_pairs s) -> exists pre post, s = pre ++ p1 :: p2 :: post.
Proof.
  induction s as [|a s IH]; [intros []|]. cbn [side_pairs]. destruct s as [|b s']; [intros []|].
  intros [E|H].
  - inversion E; subst. exists [], s'. reflexivity.
  - destruct (IH H) as [pre [post Es]]. exists (a :: pre), post. cbn [app]. now rewrite Es.
Qed.

Lemma keep_first_k_In l k j : In j (keep_first_k l k) -> In j l.
Proof.
  unfold keep_first_k. destruct (_ <=? k); [auto|]. intros H. rewrite <- (firstn_skipn (Z.to_nat k) l).
  apply in_or_app. left. exact H.
Qed.
Lemma keep_first_k_length l k : Z.of_nat (length (keep_first_k l k)) <= Z.max k 0.
Proof.
  unfold keep_first_k. destruct (_ <=? k) eqn:E; [lia|]. pose proof (firstn_le_length (Z.to_nat k) l). 
  rewrite firstn_length. lia.
Qed.
Lemma NoDup_firstn {A} n (l : list A) : NoDup l -> NoDup (firstn n l).
Proof.
  revert n. induction l as [|a l IH]; intros [|n] N; cbn [firstn]; try constructor.
  - inversion N; subst. intros H. apply H1. rewrite <- (firstn_skipn n l). apply in_or_app. left. exact H.
  - inversion N; subst. apply IH. assumption.
Qed.
Lemma keep_first_k_NoDup l k : NoDup l -> NoDup (keep_first_k l k).
Proof. unfold keep_first_k. destruct (_ <=? k); [auto|]. apply NoDup_firstn. Qed.

(* buildLeftFrom / buildRightFrom: the candidates that pass the test, whatever the comparator *)
Lemma build_gen_In rows (lt : irow -> irow -> bool) (f : rect -> bool) cands j :
  In j (map fst (isort lt (filter (fun p => f (snd p)) (with_rows rows cands)))) <->
  In j cands /\ f (row_at rows j) = true.
Proof.
  rewrite in_map_iff. split.
  - intros [[c rc] [E H]]. cbn [fst] in E. subst c. apply (Permutation_in _ (isort_perm lt _)) in H.
    apply filter_In in H. destruct H as [H T]. cbn [snd] in T. unfold with_rows in H. apply in_map_iff in H.
    destruct H as [c [Ec Hc]]. inversion Ec; subst. auto.
  - intros [H T]. exists (j, row_at rows j). split; [reflexivity|].
    apply (Permutation_in _ (Permutation_sym (isort_perm lt _))). apply filter_In. split; [|exact T].
    unfold with_rows. apply in_map_iff. exists j. auto.
Qed.

Lemma with_rows_filter_NoDup rows (f : irow -> bool) cands :
  NoDup cands -> NoDup (map fst (filter f (with_rows rows cands))).
Proof.
  induction cands as [|c l IH]; intros N; [constructor|]. inversion N as [|? ? Nc N']; subst.
  cbn [with_rows map filter]. destruct (f _); [|apply IH, N']. cbn [map fst]. constructor; [|apply IH, N'].
  intros H. apply Nc. apply in_map_iff in H. destruct H as [[c' rc] [E H]]. cbn [fst] in E. subst c'.
  apply filter_In in H. destruct H as [H _]. unfold with_rows in H. apply in_map_iff in H.
  destruct H as [c' [E H]]. inversion E; subst. exact H.
Qed.
Lemma build_gen_NoDup rows (lt : irow -> irow -> bool) (f : irow -> bool) cands :
  NoDup cands -> NoDup (map fst (isort lt (filter f (with_rows rows cands)))).
Proof.
  intros N. eapply Permutation_NoDup; [apply Permutation_map, Permutation_sym, isort_perm|].
  apply with_rows_filter_NoDup, N.
Qed.

Lemma NoDup_app_intro {A} (l1 l2 : list A) :
  NoDup l1 -> NoDup l2 -> (forall x, In x l1 -> In x l2 -> False) -> NoDup (l1 ++ l2).
Proof.
  induction l1 as [|a l1 IH]; intros N1 N2 D; [exact N2|]. inversion N1; subst. cbn [app]. constructor.
  - intros H. apply in_app_or in H. destruct H as [H|H]; [contradiction|]. apply (D a); [left; reflexivity|exact H].
  - apply IH; auto. intros x H1' H2'. apply (D x); [right; exact H1'|exact H2'].
Qed.

Lemma cand_NoDup rows k i : NoDup (candidates (rows_above rows k) (rows_below rows k) i).
Proof.
  unfold candidates. constructor.
  - intros H. apply in_app_or in H. destruct H as [H|H]; [apply above_safe in H|apply below_safe in H]; tauto.
  - apply NoDup_app_intro; [apply above_NoDup|apply below_NoDup|].
    intros j Ha Hb. apply above_safe in Ha. apply below_safe in Hb.
    destruct Ha as [_ [_ [_ Ha]]]. destruct Hb as [_ [_ [_ Hb]]]. apply is_above_spec in Ha. apply is_below_spec in Hb. lia.
Qed.

(* a candidate of anchor row i: i itself or a row whose x range meets the one of i *)
Lemma cand_facts rows k i j : (i < length rows)%nat -> In j (candidates (rows_above rows k) (rows_below rows k) i) ->
  (j < length rows)%nat /\
  (j = i \/ (minX (row_at rows i) < maxX (row_at rows j) /\ minX (row_at rows j) < maxX (row_at rows i))).
Proof.
  intros Hi [<-|H]; [auto|]. apply in_app_or in H. destruct H as [H|H].
  - apply above_safe in H. destruct H as [_ [Hj [_ T]]]. apply is_above_spec in T. split; [exact Hj|right; lia].
  - apply below_safe in H. destruct H as [_ [Hj [_ T]]]. apply is_below_spec in T. split; [exact Hj|right; lia].
Qed.

Lemma pair_facts rows s pre post (p1 p2 : irow) : arrangement rows s -> s = pre ++ p1 :: p2 :: post ->
  (fst p1 < length rows)%nat /\ snd p1 = row_at rows (fst p1) /\
  (fst p2 < length rows)%nat /\ snd p2 = row_at rows (fst p2) /\ fst p1 <> fst p2.
Proof.
  intros P E. destruct p1 as [i1 r1], p2 as [i2 r2]. cbn [fst snd].
  assert (H1 : In (i1, r1) s) by (rewrite E; apply in_or_app; right; left; reflexivity).
  assert (H2 : In (i2, r2) s) by (rewrite E; apply in_or_app; right; right; left; reflexivity).
  destruct (arr_In rows s i1 r1 P H1) as [A1 B1]. destruct (arr_In rows s i2 r2 P H2) as [A2 B2].
  repeat split; auto. intros ->. pose proof (arr_NoDup rows s P) as N. rewrite E, map_app in N.
  apply NoDup_app_r in N. cbn [map fst] in N. inversion N as [|? ? Ni _]; subst. apply Ni. left. reflexivity.
Qed.

Definition ab_of rows k := rows_above rows k.
Definition be_of rows k := rows_below rows k.

Lemma left_with_cases rows s k r : arrangement rows s ->
  left_with s rows k r = [] \/
  exists i1, (i1 < length rows)%nat /\ (r < length rows)%nat /\ i1 <> r /\
    is_left (row_at rows i1) (row_at rows r) = true /\
    left_with s rows k r = keep_first_k (build_left rows (ab_of rows k) (be_of rows k) (row_at rows r) i1) k.
Proof.
  intros P. unfold left_with. destruct (last_assign_cases r (left_assign rows (rows_above rows k) (rows_below rows k) k s))
    as [E|[l [H E]]]; [left; exact E|right].
  unfold left_assign in H. apply in_flat_map in H. destruct H as [[p1 p2] [Hp H]]. cbn [fst snd] in H.
  destruct (is_left (snd p1) (snd p2)) eqn:T; [|contradiction]. destruct H as [H|[]]. injection H as Hr Hl.
  destruct (side_pairs_In s p1 p2 Hp) as [pre [post Es]].
  destruct (pair_facts rows s pre post p1 p2 P Es) as [A1 [B1 [A2 [B2 D]]]].
  exists (fst p1). rewrite B1, B2, Hr in T. rewrite Hr in A2, D, B2. repeat split; auto.
  rewrite E, <- Hl, B2. reflexivity.
Qed.

Lemma right_with_cases rows s k r : arrangement rows s ->
  right_with s rows k r = [] \/
  exists i2, (i2 < length rows)%nat /\ (r < length rows)%nat /\ i2 <> r /\
    is_right (row_at rows i2) (row_at rows r) = true /\
    right_with s rows k r = keep_first_k (build_right rows (ab_of rows k) (be_of rows k) (row_at rows r) i2) k.
Proof.
  intros P. unfold right_with. destruct (last_assign_cases r (right_assign rows (rows_above rows k) (rows_below rows k) k s))
    as [E|[l [H E]]]; [left; exact E|right].
  unfold right_assign in H. apply in_flat_map in H. destruct H as [[p1 p2] [Hp H]]. cbn [fst snd] in H.
  destruct (is_right (snd p2) (snd p1)) eqn:T; [|contradiction]. destruct H as [H|[]]. injection H as Hr Hl.
  destruct (side_pairs_In s p1 p2 Hp) as [pre [post Es]].
  destruct (pair_facts rows s pre post p1 p2 P Es) as [A1 [B1 [A2 [B2 D]]]].
  exists (fst p2). rewrite B1, B2, Hr in T. rewrite Hr in A1, D, B1. repeat split; auto.
  rewrite E, <- Hl, B1. reflexivity.
Qed.

Lemma left_with_safe rows s k r j : arrangement rows s -> In j (left_with s rows k r) ->
  (r < length rows)%nat /\ (j < length rows)%nat /\ j <> r /\ is_left (row_at rows j) (row_at rows r) = true.
Proof.
  intros P H. destruct (left_with_cases rows s k r P) as [E|[i1 [A1 [Ar [D [T E]]]]]]; rewrite E in H; [contradiction|].
  apply keep_first_k_In in H. unfold build_left in H.
  apply (build_gen_In rows _ (fun c => is_left c (row_at rows r))) in H. destruct H as [Hc Tj].
  destruct (cand_facts rows k i1 j A1 Hc) as [Hj Hx]. repeat split; auto.
  intros ->. apply is_left_spec in T. destruct Hx as [Hx|Hx]; [congruence|lia].
Qed.
Lemma right_with_safe rows s k r j : arrangement rows s -> In j (right_with s rows k r) ->
  (r < length rows)%nat /\ (j < length rows)%nat /\ j <> r /\ is_right (row_at rows j) (row_at rows r) = true.
Proof.
  intros P H. destruct (right_with_cases rows s k r P) as [E|[i2 [A2 [Ar [D [T E]]]]]]; rewrite E in H; [contradiction|].
  apply keep_first_k_In in H. unfold build_right in H.
  apply (build_gen_In rows _ (fun c => is_right c (row_at rows r))) in H. destruct H as [Hc Tj].
  destruct (cand_facts rows k i2 j A2 Hc) as [Hj Hx]. repeat split; auto.
  intros ->. apply is_right_spec in T. destruct Hx as [Hx|Hx]; [congruence|lia].
Qed.

Lemma left_with_length rows s k r : arrangement rows s -> Z.of_nat (length (left_with s rows k r)) <= Z.max k 0.
Proof.
  intros P. destruct (left_with_cases rows s k r P) as [E|[i1 [_ [_ [_ [_ E]]]]]]; rewrite E; [cbn; lia|apply keep_first_k_length].
Qed.
Lemma right_with_length rows s k r : arrangement rows s -> Z.of_nat (length (right_with s rows k r)) <= Z.max k 0.
Proof.
  intros P. destruct (right_with_cases rows s k r P) as [E|[i1 [_ [_ [_ [_ E]]]]]]; rewrite E; [cbn; lia|apply keep_first_k_length].
Qed.
Lemma left_with_NoDup rows s k r : arrangement rows s -> NoDup (left_with s rows k r).
Proof.
  intros P. destruct (left_with_cases rows s k r P) as [E|[i1 [_ [_ [_ [_ E]]]]]]; rewrite E; [constructor|].
  apply keep_first_k_NoDup. unfold build_left. apply build_gen_NoDup, cand_NoDup.
Qed.
Lemma right_with_NoDup rows s k r : arrangement rows s -> NoDup (right_with s rows k r).
Proof.
  intros P. destruct (right_with_cases rows s k r P) as [E|[i1 [_ [_ [_ [_ E]]]]]]; rewrite E; [constructor|].
  apply keep_first_k_NoDup. unfold build_right. apply build_gen_NoDup, cand_NoDup.
Qed.

(* the model's own lists: s = the stable insertion sort by (minY, minX) *)
Definition sorted_side rows := isort order_side (indexed rows).
Lemma sorted_side_arr rows : arrangement rows (sorted_side rows).
Proof. apply arr_isort, arr_indexed. Qed.

Lemma left_safe rows k r j : In j (rows_left rows k r) ->
  (r < length rows)%nat /\ (j < length rows)%nat /\ j <> r /\ is_left (row_at rows j) (row_at rows r) = true.
Proof. apply left_with_safe, sorted_side_arr. Qed.
Lemma right_safe rows k r j : In j (rows_right rows k r) ->
  (r < length rows)%nat /\ (j < length rows)%nat /\ j <> r /\ is_right (row_at rows j) (row_at rows r) = true.
Proof. apply right_with_safe, sorted_side_arr. Qed.
Lemma left_length rows k r : Z.of_nat (length (rows_left rows k r)) <= Z.max k 0.
Proof. apply left_with_length, sorted_side_arr. Qed.
Lemma right_length rows k r : Z.of_nat (length (rows_right rows k r)) <= Z.max k 0.
Proof. apply right_with_length, sorted_side_arr. Qed.
Lemma left_NoDup rows k r : NoDup (rows_left rows k r).
Proof. apply left_with_NoDup, sorted_side_arr. Qed.
Lemma right_NoDup rows k r : NoDup (rows_right rows k r).
Proof. apply right_with_NoDup, sorted_side_arr. Qed.

(* closest first, for the distance the code uses (from the candidate's maxX in BOTH directions), ties by index *)
Lemma StronglySorted_map_fst (R : nat -> nat -> Prop) (l : list irow) :
  StronglySorted (fun a b => R (fst a) (fst b)) l -> StronglySorted R (map fst l).
Proof.
  induction l as [|a l IH]; intros S; [constructor|]. inversion S as [|? ? S' F]; subst. cbn [map]. constructor; [apply IH, S'|].
  rewrite Forall_forall in *. intros j Hj. apply in_map_iff in Hj. destruct Hj as [b [<- Hb]]. apply F, Hb.
Qed.
Lemma StronglySorted_firstn {A} (R : A -> A -> Prop) n l : StronglySorted R l -> StronglySorted R (firstn n l).
Proof.
  revert n. induction l as [|a l IH]; intros [|n] S; cbn [firstn]; try constructor.
  - inversion S; subst. apply IH. assumption.
  - inversion S as [|? ? _ F]; subst. rewrite Forall_forall in *. intros x Hx. apply F.
    rewrite <- (firstn_skipn n l). apply in_or_app. left. exact Hx.
Qed.
Lemma keep_first_k_sorted (R : nat -> nat -> Prop) l k : StronglySorted R l -> StronglySorted R (keep_first_k l k).
Proof. unfold keep_first_k. destruct (_ <=? k); [auto|apply StronglySorted_firstn]. Qed.

Lemma build_gen_sorted rows px py (f : irow -> bool) cands :
  StronglySorted (fun i j => order_dist px py (j, row_at rows j) (i, row_at rows i) = false)
                 (map fst (isort (order_dist px py) (filter f (with_rows rows cands)))).
Proof.
  apply StronglySorted_map_fst.
  eapply StronglySorted_weaken_In; [|apply isort_sorted; [apply order_dist_asym|apply order_dist_trans]].
  intros [a ra] [b rb] Ha Hb. unfold le_of. cbn [fst].
  assert (W : forall c rc, In (c, rc) (isort (order_dist px py) (filter f (with_rows rows cands))) -> rc = row_at rows c).
  { intros c rc H. apply (Permutation_in _ (isort_perm _ _)) in H. apply filter_In in H. destruct H as [H _].
    unfold with_rows in H. apply in_map_iff in H. destruct H as [c' [E _]]. inversion E; subst. reflexivity. }
  rewrite (W a ra Ha), (W b rb Hb). auto.
Qed.

Lemma left_with_sorted rows s k r : arrangement rows s ->
  StronglySorted (fun i j => order_dist (minX (row_at rows r)) (minY (row_at rows r)) (j, row_at rows j) (i, row_at rows i) = false)
                 (left_with s rows k r).
Proof.
  intros P. destruct (left_with_cases rows s k r P) as [E|[i1 [_ [_ [_ [_ E]]]]]]; rewrite E; [constructor|].
  apply keep_first_k_sorted. unfold build_left. apply build_gen_sorted.
Qed.
Lemma right_with_sorted rows s k r : arrangement rows s ->
  StronglySorted (fun i j => order_dist (maxX (row_at rows r)) (minY (row_at rows r)) (j, row_at rows j) (i, row_at rows i) = false)
                 (right_with s rows k r).
Proof.
  intros P. destruct (right_with_cases rows s k r P) as [E|[i1 [_ [_ [_ [_ E]]]]]]; rewrite E; [constructor|].
  apply keep_first_k_sorted. unfold build_right. apply build_gen_sorted.
Qed.

(* construction order / sorting algorithm: irrelevant for the side lists as soon as no two rows share (minY, minX) *)
Definition distinct_corners (rows : list rect) : Prop :=
  forall i j, (i < length rows)%nat -> (j < length rows)%nat ->
    minY (row_at rows i) = minY (row_at rows j) -> minX (row_at rows i) = minX (row_at rows j) -> i = j.

Lemma side_anti rows p : distinct_corners rows -> arrangement rows p ->
  forall a b, In a p -> In b p -> le_of order_side a b -> le_of order_side b a -> a = b.
Proof.
  intros D P [a ra] [b rb] Ha Hb L1 L2. destruct (arr_In rows p a ra P Ha) as [A1 ->]. destruct (arr_In rows p b rb P Hb) as [A2 ->].
  unfold le_of, order_side in L1, L2. cbn [fst snd] in L1, L2. assert (a = b) by (apply D; auto; lia). now subst.
Qed.
Lemma sorted_side_any_order rows p : distinct_corners rows -> arrangement rows p -> isort order_side p = sorted_side rows.
Proof.
  intros D P. apply isort_unique; [apply order_side_asym|apply order_side_trans|exact P|apply (side_anti rows p D P)].
Qed.
Lemma sorted_side_any_algorithm rows s : distinct_corners rows ->
  arrangement rows s -> StronglySorted (le_of order_side) s -> s = sorted_side rows.
Proof.
  intros D P S. apply sorted_is_isort; [apply order_side_asym|apply order_side_trans|exact S|exact P|].
  apply (side_anti rows _ D (arr_indexed rows)).
Qed.

(* the int arithmetic of the two distance lambdas stays far inside 32 bits on C07's coordinate range *)
Lemma dist_int32 px py c :
  Z.abs px <= 2 ^ 28 -> Z.abs py <= 2 ^ 28 -> Z.abs (maxX c) <= 2 ^ 28 -> Z.abs (minY c) <= 2 ^ 28 ->
  Z.abs (maxX c - px) <= 2 ^ 29 /\ Z.abs (minY c - py) <= 2 ^ 29 /\ 0 <= dist px py c <= 2 ^ 30.
Proof. unfold dist. lia. Qed.

(* ------------------------------------------------------------------------------------------------------------- *)
(* 9. summary statements (re-exported by Properties_C02_neigh.v)                                                 *)
Lemma neighbourhood_length rows k : length (neighbourhood rows k) = length rows.
Proof. unfold neighbourhood. now rewrite map_length, seq_length. Qed.

(* index safety, all inputs: every index any accessor returns is a row index and is not the row itself *)
Lemma all_safe rows k r j :
  In j (rows_below rows k r ++ rows_above rows k r ++ rows_left rows k r ++ rows_right rows k r) ->
  (r < length rows)%nat /\ (j < length rows)%nat /\ j <> r.
Proof.
  intros H. apply in_app_or in H. destruct H as [H|H]; [apply below_safe in H; tauto|].
  apply in_app_or in H. destruct H as [H|H]; [apply above_safe in H; tauto|].
  apply in_app_or in H. destruct H as [H|H]; [apply left_safe in H; tauto|apply right_safe in H; tauto].
Qed.
(* the same whatever arrangement std::sort(orderSide) produced for rows with equal (minY, minX) *)
Lemma all_safe_any_sort rows s k r j : arrangement rows s ->
  In j (rows_below rows k r ++ rows_above rows k r ++ left_with s rows k r ++ right_with s rows k r) ->
  (r < length rows)%nat /\ (j < length rows)%nat /\ j <> r.
Proof.
  intros P H. apply in_app_or in H. destruct H as [H|H]; [apply below_safe in H; tauto|].
  apply in_app_or in H. destruct H as [H|H]; [apply above_safe in H; tauto|].
  apply in_app_or in H. destruct H as [H|H]; [apply (left_with_safe rows s) in H; tauto|apply (right_with_safe rows s) in H; tauto].
Qed.

Lemma all_lengths rows k r :
  Z.of_nat (length (rows_below rows k r)) <= Z.max k 1 /\ Z.of_nat (length (rows_above rows k r)) <= Z.max k 1 /\
  Z.of_nat (length (rows_left rows k r)) <= Z.max k 0 /\ Z.of_nat (length (rows_right rows k r)) <= Z.max k 0.
Proof. repeat split; [apply below_length|apply above_length|apply left_length|apply right_length]. Qed.
Lemma sides_lengths_any_sort rows s k r : arrangement rows s ->
  Z.of_nat (length (left_with s rows k r)) <= Z.max k 0 /\ Z.of_nat (length (right_with s rows k r)) <= Z.max k 0.
Proof. intros P. split; [apply left_with_length|apply right_with_length]; exact P. Qed.

Lemma all_NoDup rows k r :
  NoDup (rows_below rows k r) /\ NoDup (rows_above rows k r) /\ NoDup (rows_left rows k r) /\ NoDup (rows_right rows k r).
Proof. repeat split; [apply below_NoDup|apply above_NoDup|apply left_NoDup|apply right_NoDup]. Qed.

(* geometric meaning, in coordinates *)
Lemma all_geometry rows k r j :
  (In j (rows_below rows k r) -> minY (row_at rows j) < minY (row_at rows r) /\
       minX (row_at rows r) < maxX (row_at rows j) /\ minX (row_at rows j) < maxX (row_at rows r)) /\
  (In j (rows_above rows k r) -> minY (row_at rows r) < minY (row_at rows j) /\
       minX (row_at rows r) < maxX (row_at rows j) /\ minX (row_at rows j) < maxX (row_at rows r)) /\
  (In j (rows_left rows k r) -> maxX (row_at rows j) <= minX (row_at rows r)) /\
  (In j (rows_right rows k r) -> maxX (row_at rows r) <= minX (row_at rows j)).
Proof.
  split; [|split; [|split]]; intros H.
  - apply below_safe in H; destruct H as [_ [_ [_ H]]]; apply is_below_spec in H; lia.
  - apply above_safe in H; destruct H as [_ [_ [_ H]]]; apply is_above_spec in H; lia.
  - apply left_safe in H. destruct H as [_ [_ [_ H]]]. now apply is_left_spec in H.
  - apply right_safe in H. destruct H as [_ [_ [_ H]]]. now apply is_right_spec in H.
Qed.

Lemma all_nonpos rows k r : k <= 0 ->
  rows_below rows k r = rows_below rows 0 r /\ (rows_below rows k r = [] \/ rows_below rows k r = rows_below rows 1 r) /\
  rows_above rows k r = rows_above rows 0 r /\ (rows_above rows k r = [] \/ rows_above rows k r = rows_above rows 1 r).
Proof. intros Hk. pose proof (below_nonpos rows k r Hk). pose proof (above_nonpos rows k r Hk). tauto. Qed.

Lemma sides_sorted rows k r :
  StronglySorted (fun i j => order_dist (minX (row_at rows r)) (minY (row_at rows r)) (j, row_at rows j) (i, row_at rows i) = false)
                 (rows_left rows k r) /\
  StronglySorted (fun i j => order_dist (maxX (row_at rows r)) (minY (row_at rows r)) (j, row_at rows j) (i, row_at rows i) = false)
                 (rows_right rows k r).
Proof. split; [apply left_with_sorted|apply right_with_sorted]; apply sorted_side_arr. Qed.

Lemma vertical_order_independent rows k r p : arrangement rows p ->
  collect r (vertical is_below k (isort order_below p)) = rows_below rows k r /\
  collect r (vertical is_above k (isort order_above p)) = rows_above rows k r.
Proof. intros P. unfold rows_below, rows_above. now rewrite (sorted_below_any_order rows p P), (sorted_above_any_order rows p P). Qed.
Lemma vertical_algorithm_independent rows k r s1 s2 :
  arrangement rows s1 -> StronglySorted (le_of order_below) s1 -> arrangement rows s2 -> StronglySorted (le_of order_above) s2 ->
  collect r (vertical is_below k s1) = rows_below rows k r /\ collect r (vertical is_above k s2) = rows_above rows k r.
Proof.
  intros P1 S1 P2 S2. unfold rows_below, rows_above.
  now rewrite (sorted_below_any_algorithm rows s1 P1 S1), (sorted_above_any_algorithm rows s2 P2 S2).
Qed.
Lemma sides_algorithm_independent rows k r s : distinct_corners rows ->
  arrangement rows s -> StronglySorted (le_of order_side) s ->
  left_with s rows k r = rows_left rows k r /\ right_with s rows k r = rows_right rows k r.
Proof. intros D P S. unfold rows_left, rows_right. now rewrite (sorted_side_any_algorithm rows s D P S). Qed.
