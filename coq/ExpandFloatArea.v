(* C18, floating-point analysis, part 5: the utilisation reached by Circuit::expandCellsToDensity in binary64:
   movable area after <= target * available * (1 + 2^-50) + (number of processed cells) * 2^-20.  Proofs only. *)
From Coq Require Import ZArith Reals Psatz Lra Lia List Bool.
From Flocq Require Import Core BinarySingleNaN Relative.
Require Import CV.Orient CV.FreeSpace CV.Expand CV.ExpandProofs CV.SpreadFloat CV.SpreadFloatProofs.
Require Import CV.ExpandFloat CV.ExpandFloatBase CV.ExpandFloatProofs CV.ExpandFloatCarry CV.ExpandFloatFactor.
Import ListNotations.
Local Open Scope R_scope.
Local Existing Instance ExpandFloatBase.prec53.
Local Existing Instance ExpandFloatBase.valid64.

Notation u53 := (bpow radix2 (-53)).

(* relative error of one binary64 rounding in the normal range *)
Lemma rnd64_rel : forall x, bpow radix2 (-1022) <= x -> Rabs (rnd64 x - x) <= u53 * x.
Proof.
  intros x Hx. pose proof (bpow_gt_0 radix2 (-1022)) as P.
  assert (Hn : bpow radix2 (-1074 + 53 - 1) <= Rabs x) by (rewrite Rabs_pos_eq by lra; exact Hx).
  pose proof (relative_error_N_FLT radix2 (-1074) 53 ltac:(lia) (fun z => negb (Z.even z)) x Hn) as H.
  match type of H with _ <= ?c * _ => replace c with u53 in H end.
  2:{ change (/ 2) with (bpow radix2 (-1)). rewrite <- bpow_plus. reflexivity. }
  rewrite (Rabs_pos_eq x) in H by lra. exact H.
Qed.

Lemma rnd64_rel_1 : forall x, 1 <= x -> x * (1 - u53) <= rnd64 x <= x * (1 + u53).
Proof.
  intros x Hx. assert (B : bpow radix2 (-1022) <= x).
  { apply Rle_trans with (bpow radix2 0); [apply bpow_le; lia|simpl; lra]. }
  pose proof (rnd64_rel x B) as H. apply abs_le_inv in H. lra.
Qed.

(* the computed factor against target * available / movable:  F * ca * (1-u)^2 <= t * ra * (1+u)^2 *)
Lemma factor_f_upper : forall (t : f64) (ca ra : Z), (0 < ca < 2 ^ 63)%Z -> (0 < ra < 2 ^ 63)%Z ->
  is_finite t = true -> B2R t <= 1 -> B2R (density_f ca ra) < B2R t ->
  B2R (ddiv t (density_f ca ra)) * IZR ca * ((1 - u53) * (1 - u53)) <= B2R t * IZR ra * ((1 + u53) * (1 + u53)).
Proof.
  intros t ca ra Hca Hra Ft Ht Hlt.
  assert (Pu : 0 < u53 < / 2).
  { split; [apply bpow_gt_0|]. change (/ 2) with (bpow radix2 (-1)). apply bpow_lt. lia. }
  destruct (d_of_Z_correct ca) as [X1 X2].
  { apply Z.lt_le_incl. apply Z.abs_lt. split; [lia|]. eapply Z.lt_le_trans; [apply Hca|]. apply Z.pow_le_mono_r; lia. }
  destruct (d_of_Z_correct ra) as [Y1 Y2].
  { apply Z.lt_le_incl. apply Z.abs_lt. split; [lia|]. eapply Z.lt_le_trans; [apply Hra|]. apply Z.pow_le_mono_r; lia. }
  destruct (d_of_Z_pos_range ca Hca) as [_ [Lx Ux]]. destruct (d_of_Z_pos_range ra Hra) as [_ [Ly Uy]].
  destruct (density_f_range ca ra Hca Hra) as [Fd [Ld Ud]].
  set (X := B2R (d_of_Z ca)) in *. set (Y := B2R (d_of_Z ra)) in *. set (Dn := B2R (density_f ca ra)) in *.
  assert (Pca : 1 <= IZR ca) by (apply (IZR_le 1); lia). assert (Pra : 1 <= IZR ra) by (apply (IZR_le 1); lia).
  pose proof (rnd64_rel_1 _ Pca) as Rx. rewrite <- X1 in Rx. pose proof (rnd64_rel_1 _ Pra) as Ry. rewrite <- Y1 in Ry.
  (* the density *)
  assert (Pm : 0 < bpow radix2 (-63)) by apply bpow_gt_0.
  assert (DD : Dn = rnd64 (X / Y)).
  { unfold Dn, density_f. apply ddiv_correct; [exact X2|fold Y; lra|]. fold X Y.
    assert (Q : 0 <= X / Y <= X). { split; [apply Rmult_le_pos; [lra|apply Rlt_le, Rinv_0_lt_compat; lra]|].
      unfold Rdiv. rewrite <- (Rmult_1_r X) at 2. apply Rmult_le_compat_l; [lra|]. rewrite <- Rinv_1. apply Rinv_le_contravar; lra. }
    rewrite Rabs_pos_eq by lra. apply Rle_trans with (bpow radix2 63); [lra|apply bpow_le; lia]. }
  set (Q := X / Y) in *. assert (QY : Q * Y = X) by (unfold Q; field; lra).
  assert (LQ : bpow radix2 (-1022) <= Q).
  { apply Rle_trans with (bpow radix2 (-63)); [apply bpow_le; lia|].
    unfold Q, Rdiv. assert (E63 : / bpow radix2 63 = bpow radix2 (-63)) by (rewrite <- bpow_opp; reflexivity).
    rewrite <- E63. pose proof (bpow_gt_0 radix2 63).
    assert (/ bpow radix2 63 <= / Y) by (apply Rinv_le_contravar; lra).
    assert (0 < / bpow radix2 63) by (apply Rinv_0_lt_compat; lra).
    apply Rle_trans with (1 * / Y); [lra|apply Rmult_le_compat_r; lra]. }
  pose proof (rnd64_rel Q LQ) as RD. rewrite <- DD in RD. apply abs_le_inv in RD.
  assert (PQ : 0 < Q) by (pose proof (bpow_gt_0 radix2 (-1022)); lra).
  (* the factor *)
  set (T := B2R t / Dn). assert (PD : 0 < Dn) by lra. assert (TD : T * Dn = B2R t) by (unfold T; field; lra).
  assert (LT : 1 <= T).
  { unfold T. apply Rmult_le_reg_r with Dn; [exact PD|]. unfold Rdiv. rewrite Rmult_assoc, Rinv_l by lra. lra. }
  assert (FF : B2R (ddiv t (density_f ca ra)) = rnd64 T).
  { apply ddiv_correct; [exact Ft|fold Dn; lra|]. fold Dn. fold T. rewrite Rabs_pos_eq by lra.
    apply Rle_trans with (bpow radix2 63); [|apply bpow_le; lia].
    unfold T, Rdiv. assert (E63 : / bpow radix2 (-63) = bpow radix2 63) by (rewrite <- bpow_opp; reflexivity).
    rewrite <- E63. assert (/ Dn <= / bpow radix2 (-63)) by (apply Rinv_le_contravar; lra).
    assert (0 < / Dn) by (apply Rinv_0_lt_compat; lra).
    apply Rle_trans with (1 * / Dn); [apply Rmult_le_compat_r; lra|lra]. }
  pose proof (rnd64_rel_1 T LT) as RF. rewrite <- FF in RF.
  set (Fv := B2R (ddiv t (density_f ca ra))) in *.
  (* Dn * Y >= (1-u) X >= (1-u)^2 ca;  Y <= (1+u) ra;  Fv * Dn <= (1+u) t *)
  assert (S1 : (1 - u53) * X <= Dn * Y).
  { rewrite <- QY, <- Rmult_assoc. apply Rmult_le_compat_r; lra. }
  assert (S2 : (1 - u53) * ((1 - u53) * IZR ca) <= Dn * ((1 + u53) * IZR ra)).
  { apply Rle_trans with ((1 - u53) * X); [apply Rmult_le_compat_l; lra|].
    apply Rle_trans with (Dn * Y); [exact S1|]. apply Rmult_le_compat_l; lra. }
  assert (S3 : Fv * Dn <= (1 + u53) * B2R t).
  { rewrite <- TD. apply Rle_trans with (T * (1 + u53) * Dn); [apply Rmult_le_compat_r; lra|right; ring]. }
  assert (PF : 0 <= Fv).
  { apply Rle_trans with (T * (1 - u53)); [apply Rmult_le_pos; lra|lra]. }
  assert (S4 : Fv * ((1 - u53) * ((1 - u53) * IZR ca)) <= Fv * (Dn * ((1 + u53) * IZR ra))).
  { apply Rmult_le_compat_l; assumption. }
  assert (S5 : Fv * Dn * ((1 + u53) * IZR ra) <= (1 + u53) * B2R t * ((1 + u53) * IZR ra)).
  { apply Rmult_le_compat_r; [apply Rmult_le_pos; lra|exact S3]. }
  replace (Fv * IZR ca * ((1 - u53) * (1 - u53))) with (Fv * ((1 - u53) * ((1 - u53) * IZR ca))) by ring.
  eapply Rle_trans; [exact S4|].
  replace (Fv * (Dn * ((1 + u53) * IZR ra))) with (Fv * Dn * ((1 + u53) * IZR ra)) by ring.
  eapply Rle_trans; [exact S5|]. right; ring.
Qed.

(* fracW <= rnd(w * F) <= (1+u) * w * F *)
Lemma frac_width_f_le : forall (f cap : f64) k, is_finite f = true -> 1 <= B2R f <= bpow radix2 63 ->
  (1 <= e_w k < 2 ^ 31)%Z -> is_finite (frac_width_f f cap k) = true ->
  B2R (frac_width_f f cap k) <= (1 + u53) * (IZR (e_w k) * B2R f).
Proof.
  intros f cap k Ff Hf Hw Fw.
  assert (Hw' : (0 <= e_w k < 2 ^ 31)%Z) by lia.
  destruct (d_of_Z_exact (e_w k) (abs31 _ Hw')) as [W1 W2].
  pose proof (IZR31 (e_w k) Hw') as W0. assert (W1' : 1 <= IZR (e_w k)) by (apply (IZR_le 1); lia).
  pose proof (bpow_gt_0 radix2 63) as P63.
  destruct (dmul_correct (d_of_Z (e_w k)) f W2 Ff) as [M1 M2].
  { rewrite W1, Rabs_pos_eq by nra. apply Rle_trans with (bpow radix2 31 * bpow radix2 63); [nra|].
    rewrite <- bpow_plus. apply bpow_le. lia. }
  rewrite W1 in M1.
  assert (G : B2R (dmul (d_of_Z (e_w k)) f) <= (1 + u53) * (IZR (e_w k) * B2R f)).
  { rewrite M1. pose proof (rnd64_rel_1 (IZR (e_w k) * B2R f) ltac:(nra)). lra. }
  unfold frac_width_f in *. destruct (Bltb cap (dmul (d_of_Z (e_w k)) f)) eqn:C.
  - pose proof (dltb_lt _ _ Fw M2 C). lra.
  - exact G.
Qed.

Lemma frac_area_f_le : forall (f cap : f64) k, is_finite f = true -> 1 <= B2R f <= bpow radix2 63 ->
  (0 <= e_w k < 2 ^ 31)%Z -> (0 <= e_h k < 2 ^ 31)%Z -> fw_ok f cap k ->
  frac_area_f f cap k <= (1 + u53) * B2R f * IZR (marea1 k).
Proof.
  intros f cap k Ff Hf Hw Hh Ok. unfold frac_area_f.
  assert (Pu : 0 < u53) by apply bpow_gt_0.
  destruct (processed k) eqn:P.
  - destruct (processed_spec k P) as [Nf [Ph Pw]]. destruct (Ok P) as [Fw _].
    pose proof (frac_width_f_le f cap k Ff Hf ltac:(lia) Fw) as L.
    unfold marea1, cell_area. rewrite Nf, mult_IZR.
    assert (0 < IZR (e_h k)) by (apply (IZR_lt 0); lia). nra.
  - assert (A0 : 0 <= IZR (marea1 k)). { apply (IZR_le 0). apply marea1_nonneg; lia. }
    assert (G1 : 1 <= (1 + u53) * B2R f).
    { apply Rle_trans with (1 * 1); [lra|apply Rmult_le_compat; lra]. }
    rewrite <- (Rmult_1_l (IZR (marea1 k))) at 1. apply Rmult_le_compat_r; assumption.
Qed.

Lemma rsum_frac_area_le : forall (f cap : f64) cells, is_finite f = true -> 1 <= B2R f <= bpow radix2 63 ->
  int_sizes cells -> Forall (fw_ok f cap) cells ->
  rsum (map (frac_area_f f cap) cells) <= (1 + u53) * B2R f * IZR (movable_area cells).
Proof.
  intros f cap cells Ff Hf. induction cells as [|k r IH]; intros Hs Ok.
  - cbn. lra.
  - inversion Hs as [|? ? [Hw Hh] Hs']; subst. inversion Ok; subst. cbn [map rsum].
    rewrite movable_area_cons, plus_IZR, Rmult_plus_distr_l.
    pose proof (frac_area_f_le f cap k Ff Hf Hw Hh ltac:(assumption)). specialize (IH Hs' ltac:(assumption)). lra.
Qed.

(* a finite cap in [0, 2^31) (e.g. maxExpandedWidth in [0, 1]) makes every (int)fracW defined *)
Lemma fw_ok_of_cap : forall (f cap : f64) k, is_finite f = true -> 1 <= B2R f <= bpow radix2 63 ->
  (0 <= e_w k < 2 ^ 31)%Z -> is_finite cap = true -> 0 <= B2R cap < bpow radix2 31 -> fw_ok f cap k.
Proof.
  intros f cap k Ff Hf Hw Fc Hc P.
  destruct (d_of_Z_exact (e_w k) (abs31 _ Hw)) as [W1 W2]. pose proof (IZR31 (e_w k) Hw) as W0.
  pose proof (bpow_gt_0 radix2 63) as P63.
  destruct (dmul_correct (d_of_Z (e_w k)) f W2 Ff) as [M1 M2].
  { rewrite W1, Rabs_pos_eq by nra. apply Rle_trans with (bpow radix2 31 * bpow radix2 63); [nra|].
    rewrite <- bpow_plus. apply bpow_le. lia. }
  rewrite W1 in M1. unfold frac_width_f. destruct (Bltb cap (dmul (d_of_Z (e_w k)) f)) eqn:C.
  - split; [exact Fc|exact Hc].
  - pose proof (dltb_false_ge _ _ Fc M2 C) as L. split; [exact M2|]. split; [rewrite M1; apply rnd64_nonneg; nra|lra].
Qed.

Lemma u53_numeric :
  (1 + u53) * ((1 + u53) * (1 + u53)) <= (1 + bpow radix2 (-50)) * ((1 - u53) * (1 - u53)).
Proof. rewrite bpow_m53. replace (bpow radix2 (-50)) with (/ 1125899906842624) by reflexivity. lra. Qed.

(* C18 clause 3 for the binary64 computation: the movable area after the expansion is at most
   target * available * (1 + 2^-50) + 2^-20 per processed cell *)
Theorem to_density_f_area : forall (t m mew : f64) c c',
  is_finite t = true -> B2R t <= 1 -> int_sizes (e_cells c) ->
  (movable_area (e_cells c) < 2 ^ 63)%Z -> (row_placement_area_f m c < 2 ^ 63)%Z ->
  is_finite (cap_f mew c) = true -> 0 <= B2R (cap_f mew c) < bpow radix2 31 ->
  expand_to_density_f_br t m mew c = Some (c', BrExpand) ->
  IZR (movable_area (e_cells c')) <=
    B2R t * IZR (row_placement_area_f m c) * (1 + bpow radix2 (-50)) +
    INR (nproc (e_cells c)) * bpow radix2 (-20).
Proof.
  intros t m mew c c' Ft Ht Hs Hca Hra Fc Hc H.
  destruct (to_density_f_cases _ _ _ _ _ _ H) as [[Hb _]|[_ [Nca [Nra [D [cs [mm [E ->]]]]]]]]; [congruence|].
  cbn [e_cells].
  pose proof (movable_area_nonneg _ (int_sizes_nonneg _ Hs)) as Pca. pose proof (row_area_f_nonneg m c) as Pra.
  destruct (to_density_f_factor t m c Ft Ht Hs Hca Hra Nca Nra D) as [Ff Hf]. cbv zeta in Ff, Hf.
  set (ca := movable_area (e_cells c)) in *. set (ra := row_placement_area_f m c) in *.
  set (f := ddiv t (density_f ca ra)) in *.
  destruct (density_f_range ca ra ltac:(lia) ltac:(lia)) as [Fd [Ld _]].
  pose proof (dleb_false_gt t _ Ft Fd D) as Lt.
  assert (Ok : Forall (fw_ok f (cap_f mew c)) (e_cells c)).
  { eapply Forall_impl; [|exact Hs]. cbv beta. intros k [Hw _]. apply fw_ok_of_cap; assumption. }
  destruct (expand_cells_f_inv f (cap_f mew c) (2 ^ 31) ltac:(lia) (e_cells c) (B754_zero false) cs mm Hs Ok)
    as [Fm [Rm A]].
  { eapply Forall_impl; [|exact Hs]. cbv beta. intros k [_ Hh]. lia. }
  { reflexivity. }
  { cbn [B2R]. split; [lra|]. apply (IZR_lt 0). lia. }
  { exact E. }
  cbn [B2R] in A. apply abs_le_inv in A.
  pose proof (rsum_frac_area_le f (cap_f mew c) (e_cells c) Ff Hf Hs Ok) as S. fold ca in S.
  pose proof (factor_f_upper t ca ra ltac:(lia) ltac:(lia) Ft Ht Lt) as U. fold f in U.
  assert (Pu : 0 < u53 < / 2).
  { split; [apply bpow_gt_0|]. change (/ 2) with (bpow radix2 (-1)). apply bpow_lt. lia. }
  assert (Pt : 0 <= B2R t * IZR ra).
  { pose proof (bpow_gt_0 radix2 (-63)). apply Rmult_le_pos; [lra|apply (IZR_le 0); lia]. }
  assert (K : (1 + u53) * B2R f * IZR ca <= B2R t * IZR ra * (1 + bpow radix2 (-50))).
  { apply Rmult_le_reg_r with ((1 - u53) * (1 - u53)); [apply Rmult_lt_0_compat; lra|]. pose proof u53_numeric as Nn.
    apply Rle_trans with (B2R t * IZR ra * ((1 + u53) * ((1 + u53) * (1 + u53)))).
    { replace ((1 + u53) * B2R f * IZR ca * ((1 - u53) * (1 - u53)))
        with ((1 + u53) * (B2R f * IZR ca * ((1 - u53) * (1 - u53)))) by ring.
      replace (B2R t * IZR ra * ((1 + u53) * ((1 + u53) * (1 + u53))))
        with ((1 + u53) * (B2R t * IZR ra * ((1 + u53) * (1 + u53)))) by ring.
      apply Rmult_le_compat_l; [lra|exact U]. }
    replace (B2R t * IZR ra * (1 + bpow radix2 (-50)) * ((1 - u53) * (1 - u53)))
      with (B2R t * IZR ra * ((1 + bpow radix2 (-50)) * ((1 - u53) * (1 - u53)))) by ring.
    apply Rmult_le_compat_l; [exact Pt|exact Nn]. }
  lra.
Qed.

(* ------------------------------------------------------------------ helpers for the concrete examples:
   real-number side conditions decided by the (computable) floating-point comparisons *)
Lemma B2R_between : forall (x : f64) (a b : Z), (Z.abs a < 2 ^ 53)%Z -> (Z.abs b < 2 ^ 53)%Z ->
  is_finite x = true -> Bleb (d_of_Z a) x = true -> Bltb x (d_of_Z b) = true -> IZR a <= B2R x < IZR b.
Proof.
  intros x a b Ha Hb Fx L U. destruct (d_of_Z_exact a Ha) as [A1 A2]. destruct (d_of_Z_exact b Hb) as [B1 B2].
  pose proof (dleb_le _ _ A2 Fx L) as L'. pose proof (dltb_lt _ _ Fx B2 U) as U'. lra.
Qed.

Lemma B2R_le_1 : forall x : f64, is_finite x = true -> Bleb x done = true -> B2R x <= 1.
Proof.
  intros x Fx L. destruct done_correct as [O1 O2]. pose proof (dleb_le _ _ Fx O2 L) as H. lra.
Qed.

Lemma factor_ok_small : forall e : f32, is_finite e = true -> Bleb fone e = true -> Bleb e (f_of_Z 1024) = true ->
  factor_ok (bpow radix2 100) e.
Proof.
  intros e Fe L U. destruct fone_correct as [O1 O2].
  destruct (f_of_Z_exact 1024) as [K1 K2]; [simpl; lia|].
  pose proof (Bleb_true_le _ _ O2 Fe L) as L'. pose proof (Bleb_true_le _ _ Fe K2 U) as U'.
  split; [exact Fe|]. split; [lra|]. rewrite K1 in U'. eapply Rle_trans; [exact U'|].
  change (IZR 1024) with (bpow radix2 10). apply bpow_le. lia.
Qed.
