(* Model of the accept/reject logic of the detailed placer's local search
   (src/place_detailed/place_detailed.cpp): DetailedPlacer::updateCellPos,
   valueOnSwap / valueOnInsert (evaluate at the new positions, then restore),
   bestSwap / bestInsert / bestSwapUpdate (scan the candidates, keep the LAST one whose
   value is below the value at entry -- bestValue is never updated in the C++ loop --
   and perform it), RowReordering::run (evaluate leaves, keep the best one strictly
   below the value at entry, write it back or restore the original positions),
   over the incremental wirelength model of Hpwl.v (one model per axis).
   The candidate positions (positionsOnSwap / positionOnInsert / the leaves of the
   reordering enumeration) are inputs: the theorems hold for every choice of them;
   the correspondence feeds the implementation's own candidates. *)
From Coq Require Import List ZArith Lia Bool.
Import ListNotations.
Require Import CV.Hpwl.
Local Open Scope Z_scope.

Record ostate := { ox : incr; oy : incr }.
(* DetailedPlacer::value() *)
Definition ovalue (s : ostate) : Z := ivalue (ox s) + ivalue (oy s).

Definition pmove := (nat * (Z * Z))%type.   (* cell, (x, y) *)

(* DetailedPlacer::updateCellPos(c, pos) *)
Definition set_pos (s : ostate) (m : pmove) : ostate :=
  {| ox := update_cell_pos (ox s) (fst m) (fst (snd m)); oy := update_cell_pos (oy s) (fst m) (snd (snd m)) |}.
Definition set_many (s : ostate) (ms : list pmove) : ostate := fold_left set_pos ms s.

Definition cur_pos (s : ostate) (c : nat) : Z * Z := (nth c (ipos (ox s)) 0, nth c (ipos (oy s)) 0).
Definition saved (s : ostate) (cs : list nat) : list pmove := map (fun c => (c, cur_pos s c)) cs.

(* valueOnSwap / valueOnInsert: the feasibility test (canSwap / canInsert) is the caller's `option` *)
Definition value_on (s : ostate) (ms : list pmove) : Z * ostate :=
  let old := saved s (map fst ms) in
  let s1 := set_many s ms in
  (ovalue s1, set_many s1 old).

(* the candidate scan shared by bestSwap, bestInsert and bestSwapUpdate *)
Definition best_scan (s : ostate) (cands : list (option (list pmove))) : ostate * option (list pmove) :=
  let bestValue := ovalue s in
  fold_left (fun (acc : ostate * option (list pmove)) cand =>
     match cand with
     | None => acc
     | Some ms => let r := value_on (fst acc) ms in
                  if fst r <? bestValue then (snd r, Some ms) else (snd r, snd acc)
     end) cands (s, None).

(* ... followed by doSwap / doInsert of the retained candidate *)
Definition best_move (s : ostate) (cands : list (option (list pmove))) : ostate * bool :=
  match best_scan s cands with
  | (s', Some ms) => (set_many s' ms, true)
  | (s', None) => (s', false)
  end.

(* RowReordering::run on the cells `cs`: each leaf of the enumeration assigns a position to every cell of cs *)
Definition reorder_scan (s : ostate) (leaves : list (list pmove)) : ostate * Z * option (list pmove) :=
  fold_left (fun (acc : ostate * Z * option (list pmove)) leaf =>
     let s1 := set_many (fst (fst acc)) leaf in
     if ovalue s1 <? snd (fst acc) then (s1, ovalue s1, Some leaf) else (s1, snd (fst acc), snd acc))
    leaves (s, ovalue s, None).

Definition reorder (s : ostate) (cs : list nat) (leaves : list (list pmove)) : ostate * bool :=
  let orig := saved s cs in
  match reorder_scan s leaves with
  | (s', _, Some leaf) => (set_many s' leaf, true)       (* writeback, improvement_ = true *)
  | (s', _, None) => (set_many s' orig, false)           (* positions reset from the placement *)
  end.

(* histories of optimiser steps *)
Inductive ostep :=
| OBest (cands : list (option (list pmove)))
| OReorder (cs : list nat) (leaves : list (list pmove)).

Definition ostep_run (s : ostate) (o : ostep) : ostate :=
  match o with
  | OBest cands => fst (best_move s cands)
  | OReorder cs leaves => fst (reorder s cs leaves)
  end.
Definition osteps_run (s : ostate) (os : list ostep) : ostate := fold_left ostep_run os s.

(* what the correspondence prints: value and decision after each step *)
Definition otrace (s : ostate) (os : list ostep) : list (Z * bool) :=
  snd (fold_left (fun (acc : ostate * list (Z * bool)) o =>
        let r := match o with OBest cands => best_move (fst acc) cands | OReorder cs leaves => reorder (fst acc) cs leaves end in
        (fst r, snd acc ++ [(ovalue (fst r), snd r)])) os (s, [])).
