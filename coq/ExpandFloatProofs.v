(* C18, floating-point analysis, part 1: Circuit::expandCellsToDensity in binary64 (model ExpandFloat.v):
   frame, "never narrower" for the COMPUTED widths.  Proofs only.
   Axioms: the classical real numbers of Coq's standard library, which Flocq's specification of the IEEE
   operations is stated over (see the Print Assumptions output of Properties_C18.v). *)
From Coq Require Import ZArith Reals Psatz Lra Lia List Bool.
From Flocq Require Import Core BinarySingleNaN.
Require Import CV.Orient CV.FreeSpace CV.Expand CV.ExpandProofs CV.SpreadFloat CV.ExpandFloat CV.ExpandFloatBase.
Import ListNotations.
Local Open Scope R_scope.

(* ------------------------------------------------------------------ frame *)
Lemma carry_loop_f_ge : forall fuel h w m w' m',
  carry_loop_f fuel h w m = Some (w', m') -> (w <= w')%Z.
Proof.
  induction fuel as [|fuel IH]; intros h w m w' m' H; cbn [carry_loop_f] in H;
    destruct (Bleb (d_of_Z h) m); try discriminate H.
  - inversion H; subst; lia.
  - apply IH in H. lia.
  - inversion H; subst; lia.
Qed.

Lemma expand_cell_f_unprocessed : forall f cap k m, processed k = false -> expand_cell_f f cap k m = Some (k, m).
Proof. intros f cap k m P. unfold expand_cell_f. rewrite P. reflexivity. Qed.

Lemma expand_cell_f_frame : forall f cap k m k' m', expand_cell_f f cap k m = Some (k', m') -> frame k k'.
Proof.
  intros f cap k m k' m' H. unfold expand_cell_f in H. destruct (processed k) eqn:P.
  - destruct (carry_loop_f _ _ _ _) as [[w' m2]|]; [|discriminate H]. inversion H; subst. split.
    + reflexivity.
    + intro Fx. apply processed_spec in P. destruct P as [P _]. congruence.
  - inversion H; subst. apply frame_refl.
Qed.

Lemma expand_cells_f_frame : forall f cap cells m cells' m',
  expand_cells_f f cap cells m = Some (cells', m') -> Forall2 frame cells cells'.
Proof.
  intros f cap cells. induction cells as [|k r IH]; intros m cells' m' H; cbn [expand_cells_f] in H.
  - inversion H; subst. constructor.
  - destruct (expand_cell_f f cap k m) as [[k1 m1]|] eqn:E; [|discriminate H].
    destruct (expand_cells_f f cap r m1) as [[r1 m2]|] eqn:E2; [|discriminate H].
    inversion H; subst. constructor; [eapply expand_cell_f_frame; exact E|eapply IH; exact E2].
Qed.

(* the three ways expand_to_density_f_br returns *)
Lemma to_density_f_cases : forall t m mew c c' b, expand_to_density_f_br t m mew c = Some (c', b) ->
  (b <> BrExpand /\ c' = c) \/
  (b = BrExpand /\
   movable_area (e_cells c) <> 0%Z /\ row_placement_area_f m c <> 0%Z /\
   Bleb t (density_f (movable_area (e_cells c)) (row_placement_area_f m c)) = false /\
   exists cs mm,
     expand_cells_f (ddiv t (density_f (movable_area (e_cells c)) (row_placement_area_f m c))) (cap_f mew c)
                    (e_cells c) (B754_zero false) = Some (cs, mm) /\
     c' = {| e_rows := e_rows c; e_cells := cs |}).
Proof.
  intros t m mew c c' b H. unfold expand_to_density_f_br in H.
  destruct ((movable_area (e_cells c) =? 0)%Z || (row_placement_area_f m c =? 0)%Z) eqn:Z0.
  { inversion H; subst. left. split; [discriminate|reflexivity]. }
  destruct (Bleb t _) eqn:D.
  { inversion H; subst. left. split; [discriminate|reflexivity]. }
  destruct (expand_cells_f _ _ _ _) as [[cs mm]|] eqn:E; [|discriminate H].
  inversion H; subst. right. apply orb_false_iff in Z0. destruct Z0 as [Z1 Z2].
  apply Z.eqb_neq in Z1. apply Z.eqb_neq in Z2.
  split; [reflexivity|]. split; [exact Z1|]. split; [exact Z2|]. split; [reflexivity|].
  exists cs, mm. split; reflexivity.
Qed.

(* C18 clause 1 for the binary64 model: only the widths of movable cells change *)
Theorem to_density_f_frame : forall t m mew c c' b, expand_to_density_f_br t m mew c = Some (c', b) ->
  e_rows c' = e_rows c /\ Forall2 frame (e_cells c) (e_cells c') /\ (b <> BrExpand -> c' = c).
Proof.
  intros t m mew c c' b H. destruct (to_density_f_cases _ _ _ _ _ _ H) as [[Hb Hc]|[Hb [_ [_ [_ [cs [mm [E Hc]]]]]]]].
  - subst c'. split; [reflexivity|]. split; [apply Forall2_refl; apply frame_refl|]. intros _. reflexivity.
  - subst c'. cbn [e_rows e_cells]. split; [reflexivity|]. split; [eapply expand_cells_f_frame; exact E|].
    intro Hn. contradiction.
Qed.

(* ------------------------------------------------------------------ the computed density and factor *)
Lemma IZR_pos_ge_1 : forall z : Z, (0 < z)%Z -> 1 <= IZR z.
Proof. intros z H. apply (IZR_le 1 z). lia. Qed.

Lemma d_of_Z_pos_range : forall z : Z, (0 < z < 2 ^ 63)%Z ->
  is_finite (d_of_Z z) = true /\ 1 <= B2R (d_of_Z z) <= bpow radix2 63.
Proof.
  intros z Hz. destruct (d_of_Z_correct z) as [C1 C2].
  { apply Z.lt_le_incl. apply Z.abs_lt. split; [lia|]. eapply Z.lt_le_trans; [apply Hz|]. apply Z.pow_le_mono_r; lia. }
  split; [exact C2|]. rewrite C1. split.
  - apply rnd64_ge; [apply fmt64_1|apply IZR_pos_ge_1; lia].
  - apply rnd64_le_fmt; [apply fmt64_bpow; lia|].
    change (bpow radix2 63) with (IZR (2 ^ 63)). apply IZR_le. lia.
Qed.

Lemma density_f_range : forall ca ra : Z, (0 < ca < 2 ^ 63)%Z -> (0 < ra < 2 ^ 63)%Z ->
  is_finite (density_f ca ra) = true /\ bpow radix2 (-63) <= B2R (density_f ca ra) <= bpow radix2 63.
Proof.
  intros ca ra Hca Hra.
  destruct (d_of_Z_pos_range ca Hca) as [Fa [La Ua]]. destruct (d_of_Z_pos_range ra Hra) as [Fr [Lr Ur]].
  set (x := B2R (d_of_Z ca)) in *. set (y := B2R (d_of_Z ra)) in *.
  assert (P63 : 0 < bpow radix2 63) by apply bpow_gt_0.
  assert (Iy : / bpow radix2 63 <= / y <= 1).
  { split; [apply Rinv_le_contravar; lra|]. rewrite <- Rinv_1. apply Rinv_le_contravar; lra. }
  assert (E63 : / bpow radix2 63 = bpow radix2 (-63)) by (rewrite <- bpow_opp; reflexivity).
  assert (Q : bpow radix2 (-63) <= x / y <= bpow radix2 63).
  { unfold Rdiv. rewrite <- E63. pose proof (Rinv_0_lt_compat _ P63). split; nra. }
  destruct (ddiv_correct (d_of_Z ca) (d_of_Z ra) Fa) as [D1 D2].
  { fold y. lra. }
  { fold x y. rewrite Rabs_pos_eq; [|pose proof (bpow_gt_0 radix2 (-63)); lra].
    eapply Rle_trans; [apply Q|]. apply bpow_le. lia. }
  unfold density_f. split; [exact D2|]. rewrite D1. fold x y. split.
  - apply rnd64_ge; [apply fmt64_bpow; lia|apply Q].
  - apply rnd64_le_fmt; [apply fmt64_bpow; lia|apply Q].
Qed.

(* expansionFactor = targetDensity / density when density < targetDensity <= 1: at least 1 *)
Lemma factor_f_range : forall t d : f64, is_finite t = true -> is_finite d = true ->
  bpow radix2 (-63) <= B2R d -> B2R d < B2R t -> B2R t <= 1 ->
  is_finite (ddiv t d) = true /\ 1 <= B2R (ddiv t d) <= bpow radix2 63.
Proof.
  intros t d Ft Fd Ld Hlt Ht.
  assert (Pm : 0 < bpow radix2 (-63)) by apply bpow_gt_0.
  assert (P63 : 0 < bpow radix2 63) by apply bpow_gt_0.
  assert (E63 : / bpow radix2 (-63) = bpow radix2 63) by (rewrite <- bpow_opp; reflexivity).
  assert (Id : 0 < / B2R d <= bpow radix2 63).
  { split; [apply Rinv_0_lt_compat; lra|]. rewrite <- E63. apply Rinv_le_contravar; lra. }
  assert (Q : 1 <= B2R t / B2R d <= bpow radix2 63).
  { split.
    - apply Rmult_le_reg_r with (B2R d); [lra|]. unfold Rdiv. rewrite Rmult_assoc, Rinv_l by lra. lra.
    - unfold Rdiv. nra. }
  destruct (ddiv_correct t d Ft) as [D1 D2].
  { lra. }
  { rewrite Rabs_pos_eq by lra. eapply Rle_trans; [apply Q|]. apply bpow_le. lia. }
  split; [exact D2|]. rewrite D1. split.
  - apply rnd64_ge; [apply fmt64_1|apply Q].
  - apply rnd64_le_fmt; [apply fmt64_bpow; lia|apply Q].
Qed.

(* ------------------------------------------------------------------ never narrower *)
(* a cap that is smaller than the (finite) product but not smaller than the (finite) width is finite *)
Lemma cap_finite : forall cap x y : f64, is_finite x = true -> is_finite y = true ->
  Bltb cap x = true -> Bltb cap y = false -> is_finite cap = true.
Proof.
  intros cap x y Fx Fy Hx Hy. destruct cap as [s|s| |s mc ec Bc]; try reflexivity.
  - destruct s.
    + destruct y as [sy|sy| |sy my ey By]; try discriminate Fy; discriminate Hy.
    + destruct x as [sx|sx| |sx mx ex Bx]; try discriminate Fx; discriminate Hx.
  - destruct x as [sx|sx| |sx mx ex Bx]; discriminate Hx.
Qed.

(* fracW when the factor is at least 1 and the cap is not below the width: finite and not below the width *)
Lemma frac_width_f_ge : forall (f cap : f64) (k : ecell),
  is_finite f = true -> 1 <= B2R f <= bpow radix2 63 -> (0 <= e_w k < 2 ^ 31)%Z ->
  Bltb cap (d_of_Z (e_w k)) = false ->
  is_finite (frac_width_f f cap k) = true /\ IZR (e_w k) <= B2R (frac_width_f f cap k).
Proof.
  intros f cap k Ff Hf Hw Hcap.
  destruct (d_of_Z_exact (e_w k)) as [W1 W2].
  { apply Z.abs_lt. split; [lia|]. eapply Z.lt_le_trans; [apply Hw|]. apply Z.pow_le_mono_r; lia. }
  assert (W0 : 0 <= IZR (e_w k) < bpow radix2 31).
  { split; [apply IZR_le; lia|]. change (bpow radix2 31) with (IZR (2 ^ 31)). apply IZR_lt. lia. }
  assert (P63 : 0 < bpow radix2 63) by apply bpow_gt_0.
  destruct (dmul_correct (d_of_Z (e_w k)) f W2 Ff) as [M1 M2].
  { rewrite W1. rewrite Rabs_pos_eq by nra.
    apply Rle_trans with (bpow radix2 31 * bpow radix2 63); [nra|]. rewrite <- bpow_plus. apply bpow_le. lia. }
  rewrite W1 in M1.
  assert (G : IZR (e_w k) <= B2R (dmul (d_of_Z (e_w k)) f)).
  { rewrite M1. apply rnd64_ge; [|nra]. apply fmt64_IZR. apply Z.abs_lt. split; [lia|].
    eapply Z.lt_le_trans; [apply Hw|]. apply Z.pow_le_mono_r; lia. }
  unfold frac_width_f. destruct (Bltb cap (dmul (d_of_Z (e_w k)) f)) eqn:C.
  - pose proof (cap_finite cap _ _ M2 W2 C Hcap) as Fc. split; [exact Fc|].
    pose proof (dltb_false_ge cap (d_of_Z (e_w k)) Fc W2 Hcap) as L. rewrite W1 in L. exact L.
  - split; [exact M2|exact G].
Qed.

Lemma expand_cell_f_wider : forall (f cap : f64) k m k' m',
  is_finite f = true -> 1 <= B2R f <= bpow radix2 63 -> (0 <= e_w k < 2 ^ 31)%Z ->
  expand_cell_f f cap k m = Some (k', m') ->
  Bltb cap (d_of_Z (e_w k)) = false -> (e_w k <= e_w k')%Z.
Proof.
  intros f cap k m k' m' Ff Hf Hw H Hcap. unfold expand_cell_f in H. destruct (processed k) eqn:P.
  - destruct (carry_loop_f _ _ _ _) as [[w' m2]|] eqn:L; [|discriminate H]. inversion H; subst. cbn [set_w e_w].
    apply carry_loop_f_ge in L. eapply Z.le_trans; [|exact L].
    destruct (frac_width_f_ge f cap k Ff Hf Hw Hcap) as [_ G].
    rewrite Btrunc_Ztrunc. apply Ztrunc_ge_int. exact G.
  - inversion H; subst. lia.
Qed.

Lemma expand_cells_f_wider : forall (f cap : f64), is_finite f = true -> 1 <= B2R f <= bpow radix2 63 ->
  forall cells m cells' m',
  Forall (fun k => (0 <= e_w k < 2 ^ 31)%Z) cells ->
  expand_cells_f f cap cells m = Some (cells', m') ->
  Forall2 (fun k k' => Bltb cap (d_of_Z (e_w k)) = false -> (e_w k <= e_w k')%Z) cells cells'.
Proof.
  intros f cap Ff Hf cells. induction cells as [|k r IH]; intros m cells' m' Hs H; cbn [expand_cells_f] in H.
  - inversion H; subst. constructor.
  - destruct (expand_cell_f f cap k m) as [[k1 m1]|] eqn:E; [|discriminate H].
    destruct (expand_cells_f f cap r m1) as [[r1 m2]|] eqn:E2; [|discriminate H].
    inversion H; subst. inversion Hs; subst. constructor.
    + intro Hc. eapply expand_cell_f_wider; eauto.
    + eapply IH; eauto.
Qed.

(* the available area computed in binary64 is a sum of non-negative terms *)
Lemma margin_row_area_f_nonneg : forall m r, (0 < rect_h (rr r))%Z -> (0 <= margin_row_area_f m r)%Z.
Proof. intros m r Hh. unfold margin_row_area_f. destruct (0 <? Btrunc (margin_width_f m r))%Z eqn:E; [|lia]. apply Z.ltb_lt in E. nia. Qed.

Lemma row_area_f_nonneg : forall m c, (0 <= row_placement_area_f m c)%Z.
Proof.
  intros m c. unfold row_placement_area_f. apply zsum_nonneg. apply Forall_forall. intros z Hz.
  apply in_map_iff in Hz. destruct Hz as [r [<- Hr]]. apply margin_row_area_f_nonneg.
  eapply free_row_height_pos; exact Hr.
Qed.

Definition int_sizes (cells : list ecell) : Prop :=
  Forall (fun k => (0 <= e_w k < 2 ^ 31)%Z /\ (0 <= e_h k < 2 ^ 31)%Z) cells.

Lemma int_sizes_nonneg : forall cells, int_sizes cells -> nonneg_sizes cells.
Proof. intros cells H. unfold nonneg_sizes. eapply Forall_impl; [|exact H]. cbv beta. intros k [A B]. lia. Qed.

(* the facts about the factor in the expansion branch *)
Lemma to_density_f_factor : forall (t m : f64) c,
  is_finite t = true -> B2R t <= 1 -> int_sizes (e_cells c) ->
  (movable_area (e_cells c) < 2 ^ 63)%Z -> (row_placement_area_f m c < 2 ^ 63)%Z ->
  movable_area (e_cells c) <> 0%Z -> row_placement_area_f m c <> 0%Z ->
  Bleb t (density_f (movable_area (e_cells c)) (row_placement_area_f m c)) = false ->
  let f := ddiv t (density_f (movable_area (e_cells c)) (row_placement_area_f m c)) in
  is_finite f = true /\ 1 <= B2R f <= bpow radix2 63.
Proof.
  intros t m c Ft Ht Hs Hca Hra Nca Nra D.
  pose proof (movable_area_nonneg _ (int_sizes_nonneg _ Hs)) as Pca. pose proof (row_area_f_nonneg m c) as Pra.
  destruct (density_f_range (movable_area (e_cells c)) (row_placement_area_f m c)) as [Fd [Ld Ud]]; [lia|lia|].
  pose proof (dleb_false_gt t _ Ft Fd D) as Lt.
  apply factor_f_range; assumption.
Qed.

(* C18 clause 2 for the binary64 model: never narrower when the cap is not below the width.
   Domain: finite target <= 1, widths and heights in [0, 2^31), areas below 2^63 (no long long overflow). *)
Theorem to_density_f_wider : forall (t m mew : f64) c c' b,
  is_finite t = true -> B2R t <= 1 -> int_sizes (e_cells c) ->
  (movable_area (e_cells c) < 2 ^ 63)%Z -> (row_placement_area_f m c < 2 ^ 63)%Z ->
  expand_to_density_f_br t m mew c = Some (c', b) ->
  Forall2 (fun k k' => Bltb (cap_f mew c) (d_of_Z (e_w k)) = false -> (e_w k <= e_w k')%Z) (e_cells c) (e_cells c').
Proof.
  intros t m mew c c' b Ft Ht Hs Hca Hra H.
  destruct (to_density_f_cases _ _ _ _ _ _ H) as [[Hb Hc]|[Hb [Nca [Nra [D [cs [mm [E Hc]]]]]]]].
  - subst c'. apply Forall2_refl. intros k _. lia.
  - subst c'. cbn [e_cells].
    destruct (to_density_f_factor t m c Ft Ht Hs Hca Hra Nca Nra D) as [Ff Hf].
    eapply expand_cells_f_wider; [exact Ff|exact Hf| |exact E].
    eapply Forall_impl; [|exact Hs]. cbv beta. intros k [A _]. exact A.
Qed.

(* the hypothesis of the statement over the reals: when maxRowWidth * maxExpandedWidth (exact product) is not
   below the width, the computed cap is not below it either *)
Lemma cap_f_not_below : forall (mew : f64) c (w : Z), is_finite mew = true -> Rabs (B2R mew) <= bpow radix2 900 ->
  (0 <= w < 2 ^ 31)%Z -> (0 <= max_row_width (e_rows c) < 2 ^ 31)%Z ->
  IZR w <= IZR (max_row_width (e_rows c)) * B2R mew ->
  Bltb (cap_f mew c) (d_of_Z w) = false.
Proof.
  intros mew c w Fm Bm Hw Hr Hc. set (R := max_row_width (e_rows c)) in *.
  assert (A31 : forall z, (0 <= z < 2 ^ 31)%Z -> (Z.abs z < 2 ^ 53)%Z).
  { intros z Hz. apply Z.abs_lt. split; [lia|]. eapply Z.lt_le_trans; [apply Hz|]. apply Z.pow_le_mono_r; lia. }
  destruct (d_of_Z_exact w (A31 w Hw)) as [W1 W2]. destruct (d_of_Z_exact R (A31 R Hr)) as [R1 R2].
  assert (R0 : 0 <= IZR R < bpow radix2 31).
  { split; [apply IZR_le; lia|]. change (bpow radix2 31) with (IZR (2 ^ 31)). apply IZR_lt. lia. }
  destruct (dmul_correct (d_of_Z R) mew R2 Fm) as [C1 C2].
  { rewrite R1, Rabs_mult, (Rabs_pos_eq (IZR R)) by lra. pose proof (Rabs_pos (B2R mew)).
    pose proof (bpow_gt_0 radix2 900). apply Rle_trans with (bpow radix2 31 * bpow radix2 900); [nra|].
    rewrite <- bpow_plus. apply bpow_le. lia. }
  rewrite R1 in C1. unfold cap_f. fold R.
  rewrite (Bltb_correct 53 1024 _ _ C2 W2). apply Rlt_bool_false. rewrite C1, W1.
  apply rnd64_ge; [apply fmt64_IZR; apply A31; exact Hw|exact Hc].
Qed.
