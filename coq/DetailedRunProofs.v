(* C02 / C05 / C04 -- REFINEMENT: the closed passes of DetailedRun.v (runSwaps, runReordering, run()) are histories of
   paired steps of DetailedValue.v, each satisfying pstep_ok in the state it is applied to.  Hence every theorem about
   histories (coupling invariant PInv, value never increases, legality / frame / orientation of the exposed circuit)
   applies to what the loops of the C++ generate. *)
From Coq Require Import List ZArith Lia Bool Arith Permutation.
Import ListNotations.
Require Import CV.Orient CV.FreeSpace CV.Circuit CV.Hpwl CV.HpwlProofs CV.Moves CV.MovesProofs CV.MovesOrientProofs.
Require Import CV.Optimiser CV.OptimiserProofs CV.ShiftLp CV.ShiftLpProofs.
Require Import CV.LegalizerSoundProofs CV.DetailedInit CV.DetailedExport CV.DetailedExportProofs.
Require Import CV.DetailedValue CV.DetailedValueProofs CV.DetailedValueStepProofs.
Require Import CV.RowNeigh CV.RowNeighProofs CV.Reorder CV.ReorderGeomProofs CV.ReorderProofs CV.DetailedRun.
Local Open Scope Z_scope.

(* ---------- histories ---------- *)
(* s' is reached from s by a history of steps, each pstep_ok where it is applied *)
Definition steps_to (s s' : pstate) : Prop := exists l, phist_ok s l /\ psteps_run s l = s'.

Lemma phist_ok_join l1 : forall s l2, phist_ok s l1 -> phist_ok (psteps_run s l1) l2 -> phist_ok s (l1 ++ l2).
Proof.
  induction l1 as [|st l1 IH]; intros s l2; cbn [app phist_ok psteps_run fold_left]; [tauto|].
  intros [H1 H2] H3. split; [exact H1|]. apply IH; assumption.
Qed.

Lemma steps_refl s : steps_to s s.
Proof. exists []. split; [exact I|reflexivity]. Qed.

Lemma steps_trans s1 s2 s3 : steps_to s1 s2 -> steps_to s2 s3 -> steps_to s1 s3.
Proof.
  intros (l1 & O1 & <-) (l2 & O2 & <-). exists (l1 ++ l2). split; [apply phist_ok_join; assumption|apply psteps_run_app].
Qed.

Lemma steps_one s st : pstep_ok s st -> steps_to s (pstep_run s st).
Proof. intros H. exists [st]. split; [split; [exact H|exact I]|reflexivity]. Qed.

Lemma steps_hist s l : phist_ok s l -> steps_to s (psteps_run s l).
Proof. intros H. exists l. split; [exact H|reflexivity]. Qed.

(* the invariant and the value along a history *)
Lemma steps_inv c rh nets s s' : std_design c rh -> PInv c rh nets s -> steps_to s s' ->
  PInv c rh nets s' /\ ovalue (ps_o s') <= ovalue (ps_o s).
Proof. intros SD HP (l & Hok & <-). exact (phist_keeps_invariant c rh nets l s SD HP Hok). Qed.

(* ---------- a bestSwap is a paired step ---------- *)
Lemma swap_cands_moves c cands : forallb is_move (swap_cands c cands) = true.
Proof. unfold swap_cands. induction cands as [|x t IH]; cbn [map forallb is_move]; [reflexivity|exact IH]. Qed.

Lemma pbest_swap_step s c cands : steps_to s (pbest s (swap_cands c cands)).
Proof. apply (steps_one s (PBest (swap_cands c cands))). cbn [pstep_ok]. apply swap_cands_moves. Qed.

(* ---------- folds ---------- *)
Section Folds.
  Variables (c : circuit) (rh : Z) (nets : list (list hpin)).
  Hypothesis SD : std_design c rh.

  Lemma rfold_steps {A} (f : pstate -> A -> rres pstate) (P : A -> Prop) :
    (forall s a s', P a -> PInv c rh nets s -> f s a = ROk s' -> steps_to s s') ->
    forall l s s', Forall P l -> PInv c rh nets s -> rfold f l s = ROk s' -> steps_to s s'.
  Proof.
    intros Hf. induction l as [|a t IH]; intros s s' HP HI; cbn [rfold].
    - intros [= <-]. apply steps_refl.
    - inversion HP as [|? ? Pa Pt]; subst. destruct (f s a) as [s1|e] eqn:E; cbn [rbind]; [|discriminate]. intros R.
      pose proof (Hf s a s1 Pa HI E) as S1. destruct (steps_inv c rh nets s s1 SD HI S1) as [HI1 _].
      exact (steps_trans s s1 s' S1 (IH s1 s' Pt HI1 R)).
  Qed.

  Lemma rfold_steps_all {A} (f : pstate -> A -> rres pstate) :
    (forall s a s', PInv c rh nets s -> f s a = ROk s' -> steps_to s s') ->
    forall l s s', PInv c rh nets s -> rfold f l s = ROk s' -> steps_to s s'.
  Proof.
    intros Hf l s s' HI R. apply (rfold_steps f (fun _ => True) (fun s a s' _ => Hf s a s') l s s'); try assumption.
    apply Forall_forall. intros; exact I.
  Qed.
End Folds.

(* ---------- runSwapsOneRow ---------- *)
Lemma fold_best_swap_steps (g : nat -> nat * list nat) : forall l s,
  steps_to s (fold_left (fun st i => fst (best_swap st (fst (g i)) (snd (g i)))) l s).
Proof.
  induction l as [|i t IH]; intros s; cbn [fold_left]; [apply steps_refl|].
  eapply steps_trans; [|apply IH]. unfold best_swap. cbn [fst]. apply pbest_swap_step.
Qed.

Lemma run_swaps_one_row_steps s row nb s' : run_swaps_one_row s row nb = ROk s' -> steps_to s s'.
Proof.
  unfold run_swaps_one_row. destruct (row_ids (ps_d s) row) as [|x t] eqn:E; [intros [= <-]; apply steps_refl|].
  destruct (nb <? 0); [discriminate|]. intros [= <-].
  exact (fold_best_swap_steps (fun i => (nth i (x :: t) O, one_row_cands (x :: t) i (Z.to_nat nb))) (seq 0 (length (x :: t))) s).
Qed.

(* ---------- bestSwapUpdate, the while loop, the walk ---------- *)
Lemma best_swap_update_steps s c from nb r : best_swap_update s c from nb = ROk r -> steps_to s (bs_state r).
Proof.
  unfold best_swap_update. destruct (bsu_cands (ps_d s) from (Z.to_nat nb)) as [cands|]; [|discriminate].
  destruct (retained s (swap_cands c cands)) as [[c1 c2| | |]|]; intros [= <-]; cbn [bs_state]; apply pbest_swap_step.
Qed.

(* invariant rule of the binary-fuel loop *)
Lemma loop_pos_inv {S R : Type} (Iv : S -> Prop) (Q : R -> Prop) (body : S -> lstep S R) :
  (forall s, Iv s -> match body s with LContinue s' => Iv s' | LDone r => Q r end) ->
  forall p s, Iv s -> match loop_pos p body s with LContinue s' => Iv s' | LDone r => Q r end.
Proof.
  intros Hb. induction p as [p IH|p IH|]; intros s Hs; cbn [loop_pos].
  - pose proof (Hb s Hs) as H0. destruct (body s) as [s1|r]; [|exact H0].
    pose proof (IH s1 H0) as H1. destruct (loop_pos p body s1) as [s2|r]; [|exact H1]. apply IH, H1.
  - pose proof (IH s Hs) as H1. destruct (loop_pos p body s) as [s2|r]; [|exact H1]. apply IH, H1.
  - apply Hb, Hs.
Qed.

Lemma run_while_steps s c from nb s' c' from' : run_while s c from nb = ROk (s', c', from') -> steps_to s s'.
Proof.
  unfold run_while.
  pose proof (loop_pos_inv (fun st : pstate * nat * option nat => steps_to s (fst (fst st)))
                (fun r => match r with ROk st => steps_to s (fst (fst st)) | RErr _ => True end) (while_body nb)) as L.
  assert (Hb : forall st, steps_to s (fst (fst st)) ->
     match while_body nb st with
     | LContinue st' => steps_to s (fst (fst st'))
     | LDone r => match r with ROk st' => steps_to s (fst (fst st')) | RErr _ => True end
     end).
  { intros [[s0 c0] f0] H0. cbn [fst] in H0. unfold while_body.
    destruct (best_swap_update s0 c0 f0 nb) as [r|e] eqn:E; [|exact I].
    pose proof (best_swap_update_steps s0 c0 f0 nb r E) as S1.
    destruct (bs_found r); cbn [fst]; exact (steps_trans _ _ _ H0 S1). }
  specialize (L Hb (while_fuel s) (s, c, from) (steps_refl s)).
  destruct (loop_pos (while_fuel s) (while_body nb) (s, c, from)) as [st|r]; [discriminate|].
  intros ->. exact L.
Qed.

Lemma amplify_walk_steps nb : forall fuel s c from s', amplify_walk fuel s c from nb = ROk s' -> steps_to s s'.
Proof.
  induction fuel as [|fuel IH]; intros s c from s'; cbn [amplify_walk]; [discriminate|].
  destruct (run_while s c from nb) as [[[s1 c1] f1]|e] eqn:W; [|discriminate].
  pose proof (run_while_steps s c from nb s1 c1 f1 W) as S1.
  destruct (find_cell_after (ps_d s1) c1 f1) as [f2|]; [|discriminate].
  destruct (cell_next (ps_d s1) c1) as [[c2|]|]; [| |discriminate].
  - intros R. exact (steps_trans _ _ _ S1 (IH s1 c2 f2 s' R)).
  - intros [= <-]. exact S1.
Qed.

Lemma amplify_steps s r1 r2 nb s' : run_swaps_two_rows_amplify s r1 r2 nb = ROk s' -> steps_to s s'.
Proof.
  unfold run_swaps_two_rows_amplify. destruct (row_first (ps_d s) r1) as [c|]; [|intros [= <-]; apply steps_refl].
  apply amplify_walk_steps.
Qed.

(* ---------- any property of states that every bestSwap keeps is kept by the swap passes ---------- *)
Section Keeps.
  Variable J : pstate -> Prop.
  Hypothesis JB : forall s c cands, J s -> J (pbest s (swap_cands c cands)).

  Lemma fold_best_swap_keeps (g : nat -> nat * list nat) : forall l s, J s ->
    J (fold_left (fun st i => fst (best_swap st (fst (g i)) (snd (g i)))) l s).
  Proof. induction l as [|i t IH]; intros s H; cbn [fold_left]; [exact H|]. apply IH. unfold best_swap. cbn [fst]. apply JB, H. Qed.

  Lemma run_swaps_one_row_keeps s row nb s' : run_swaps_one_row s row nb = ROk s' -> J s -> J s'.
  Proof.
    unfold run_swaps_one_row. destruct (row_ids (ps_d s) row) as [|x t] eqn:E; [intros [= <-] H; exact H|].
    destruct (nb <? 0); [discriminate|]. intros [= <-] H.
    exact (fold_best_swap_keeps (fun i => (nth i (x :: t) O, one_row_cands (x :: t) i (Z.to_nat nb))) (seq 0 (length (x :: t))) s H).
  Qed.

  Lemma best_swap_update_keeps s c from nb r : best_swap_update s c from nb = ROk r -> J s -> J (bs_state r).
  Proof.
    unfold best_swap_update. destruct (bsu_cands (ps_d s) from (Z.to_nat nb)) as [cands|]; [|discriminate].
    destruct (retained s (swap_cands c cands)) as [[c1 c2| | |]|]; intros [= <-] H; cbn [bs_state]; apply JB, H.
  Qed.

  Lemma run_while_keeps s c from nb s' c' from' : run_while s c from nb = ROk (s', c', from') -> J s -> J s'.
  Proof.
    unfold run_while. intros R H.
    pose proof (loop_pos_inv (fun st : pstate * nat * option nat => J (fst (fst st)))
                  (fun r => match r with ROk st => J (fst (fst st)) | RErr _ => True end) (while_body nb)) as L.
    assert (Hb : forall st, J (fst (fst st)) ->
       match while_body nb st with
       | LContinue st' => J (fst (fst st'))
       | LDone r => match r with ROk st' => J (fst (fst st')) | RErr _ => True end
       end).
    { intros [[s0 c0] f0] H0. cbn [fst] in H0. unfold while_body.
      destruct (best_swap_update s0 c0 f0 nb) as [r|e] eqn:E; [|exact I].
      pose proof (best_swap_update_keeps s0 c0 f0 nb r E H0) as S1. destruct (bs_found r); cbn [fst]; exact S1. }
    specialize (L Hb (while_fuel s) (s, c, from) H).
    destruct (loop_pos (while_fuel s) (while_body nb) (s, c, from)) as [st|r]; [discriminate|]. subst r. exact L.
  Qed.

  Lemma amplify_walk_keeps nb : forall fuel s c from s', amplify_walk fuel s c from nb = ROk s' -> J s -> J s'.
  Proof.
    induction fuel as [|fuel IH]; intros s c from s'; cbn [amplify_walk]; [discriminate|].
    destruct (run_while s c from nb) as [[[s1 c1] f1]|e] eqn:W; [|discriminate]. intros R H.
    pose proof (run_while_keeps s c from nb s1 c1 f1 W H) as S1. revert R.
    destruct (find_cell_after (ps_d s1) c1 f1) as [f2|]; [|discriminate].
    destruct (cell_next (ps_d s1) c1) as [[c2|]|]; [| |discriminate].
    - intros R. exact (IH s1 c2 f2 s' R S1).
    - intros [= <-]. exact S1.
  Qed.

  Lemma amplify_keeps s r1 r2 nb s' : run_swaps_two_rows_amplify s r1 r2 nb = ROk s' -> J s -> J s'.
  Proof.
    unfold run_swaps_two_rows_amplify. destruct (row_first (ps_d s) r1) as [c|]; [|intros [= <-] H; exact H].
    apply amplify_walk_keeps.
  Qed.
End Keeps.
