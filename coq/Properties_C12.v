(* C12 -- single-row legalizer: order-preserving, optimal, exact costs.
   Statements only; every proof is `exact <lemma>`.  Model: RowLeg.v (tied to
   src/place_detailed/row_legalizer.cpp by the correspondence run of ./check C12). *)
From Coq Require Import List ZArith Lia Bool.
Import ListNotations.
Require Import CV.RowLeg CV.RowLegProofs CV.RowLegCert CV.RowLegChecked.
Local Open Scope Z_scope.

(* [F] For every segment and every history of insertions that fit, interleaved
   with cost queries, the positions keep the insertion order, do not overlap
   and stay inside the segment.  Indices count from the newest cell (index 0):
   a larger index is an older cell. *)
Theorem c12_placement_legal :
  forall b e ops, b <= e -> fits (rl_init b e) ops ->
  let s := fst (run_ops b e ops) in
  let pl := placement_aux (cpos s) (widths s) (used s) None in
  length pl = length (widths s) /\
  (forall i x w, nth_error pl i = Some x -> nth_error (widths s) i = Some w -> b <= x /\ x + w <= e) /\
  (forall i j xi xj wj, (i < j)%nat -> nth_error pl i = Some xi -> nth_error pl j = Some xj ->
                        nth_error (widths s) j = Some wj -> xj + wj <= xi).
Proof. exact reachable_legal. Qed.

(* [F] In every reachable state, prediction leaves the state unchanged (the
   pop-and-re-push of getDisplacement(update=false) restores the queue) and the
   predicted cost equals the cost reported when the insertion is performed. *)
Theorem c12_query_pure :
  forall b e ops w t, b <= e -> fits (rl_init b e) ops ->
  let s := fst (run_ops b e ops) in
  fst (get_cost s w t) = s /\ snd (get_cost s w t) = snd (push s w t).
Proof. exact reachable_query_pure. Qed.

(* [F] Soundness of the optimality certificate, for all inputs: whenever the
   checker accepts positions, they are legal and minimise the width-weighted
   displacement among ALL legal placements of the same cells. *)
Theorem c12_certificate_sound :
  forall b e cs, cert_ok b e cs = true ->
  legal_from b e cs (map cx cs) /\
  forall zs, legal_from b e cs zs -> cost_own cs <= cost_of cs zs.
Proof. exact cert_ok_sound. Qed.

(* [F] The model run under the checker: whenever [checked_run] answers, its
   answer is the model's, it is legal, optimal, and the costs reported by the
   pushes sum exactly to the minimum.  (The correspondence run evaluates
   checked_run on every case: "validated per run".) *)
Theorem c12_checked_run_optimal :
  forall b e ops pl costs, checked_run b e ops = Some (pl, costs) ->
  let cs := mk_cells (push_list ops) pl in
  run b e ops = (pl, costs) /\
  legal_from b e cs pl /\
  (forall zs, legal_from b e cs zs -> cost_of cs pl <= cost_of cs zs) /\
  push_cost_sum ops costs = cost_of cs pl.
Proof. exact checked_run_sound. Qed.

(* [B] Bounded theorem: for ALL instances of three explicit finite domains
   (segment [0,e) with e <= maxlen, at most maxn cells of widths 1..maxw that
   fit, targets in [-win, e+win]) the algorithm itself is optimal and its
   costs sum to the minimum.  Kept as a cross-check by computation; it is superseded
   by the UNBOUNDED theorems c12_optimal_unbounded and c12_costs_sum_to_minimum_unbounded
   below (RowLegOptProofs.v: value-function invariant of the cascading descent). *)
Theorem c12_optimal_bounded :
  forall maxlen maxn maxw win,
  In (maxlen, maxn, maxw, win) [(6, 3%nat, 2, 3); (4, 4%nat, 2, 1); (5, 3%nat, 3, 2)] ->
  forall e ps, In (e, ps) (small_instances maxlen maxn maxw win) ->
  let ops := map (fun p => Push (fst p) (snd p)) ps in
  let pl := fst (run 0 e ops) in
  let costs := snd (run 0 e ops) in
  let cs := mk_cells (push_list ops) pl in
  legal_from 0 e cs pl /\
  (forall zs, legal_from 0 e cs zs -> cost_of cs pl <= cost_of cs zs) /\
  push_cost_sum ops costs = cost_of cs pl.
Proof.
  intros maxlen maxn maxw win Hd.
  cbn [In] in Hd. destruct Hd as [[= <- <- <- <-]|[[= <- <- <- <-]|[[= <- <- <- <-]|[]]]];
    apply bounded_optimal; vm_compute; reflexivity.
Qed.

(* non-vacuity: a history with a clamped cell, a query, and cells pushed left *)
Example c12_nonvacuous :
  fits (rl_init 0 4) [Push 2 2; Query 1 (-3); Push 1 (-3); Push 1 (-3)] /\
  run 0 4 [Push 2 2; Query 1 (-3); Push 1 (-3); Push 1 (-3)] = ([0; 2; 3], [0; 8; 8; 7]) /\
  checked_run 0 4 [Push 2 2; Query 1 (-3); Push 1 (-3); Push 1 (-3)] <> None.
Proof.
  split; [vm_compute; intuition discriminate|].
  split; [vm_compute; reflexivity|vm_compute; discriminate].
Qed.

Print Assumptions c12_placement_legal.
Print Assumptions c12_query_pure.
Print Assumptions c12_certificate_sound.
Print Assumptions c12_checked_run_optimal.
Print Assumptions c12_optimal_bounded.

(* ------------------------------------------------------------------ *)
(* Unbounded optimality of the raw algorithm (RowLegOptProofs.v).  These two
   theorems supersede the remark in front of c12_optimal_bounded: the
   cascading-descent argument is now proved for every segment and every
   history that fits (pushes interleaved with queries, any integer targets). *)
Require Import CV.RowLegOptProofs.

(* [F] (A) For every segment [b,e) and every history of insertions that fit
   (width > 0, width <= remaining space), the positions returned by
   getPlacement() are a legal placement (legal_from: insertion order kept, no
   overlap, inside the segment) and minimise the width-weighted displacement
   cost_of = sum_i w_i * |x_i - t_i| among ALL legal placements of the same
   cells. *)
Theorem c12_optimal_unbounded :
  forall b e ops, b <= e -> fits (rl_init b e) ops ->
  let pl := fst (run b e ops) in
  let cs := mk_cells (push_list ops) pl in
  length pl = length (push_list ops) /\
  legal_from b e cs pl /\
  (forall zs, legal_from b e cs zs -> cost_of cs pl <= cost_of cs zs).
Proof. exact rowleg_placement_optimal. Qed.

(* [F] (B) Under the same hypotheses the costs returned by the pushes (queries
   excluded) sum exactly to the cost of the returned placement, i.e. to the
   minimum over all legal placements. *)
Theorem c12_costs_sum_to_minimum_unbounded :
  forall b e ops, b <= e -> fits (rl_init b e) ops ->
  let pl := fst (run b e ops) in
  let costs := snd (run b e ops) in
  let cs := mk_cells (push_list ops) pl in
  push_cost_sum ops costs = cost_of cs pl /\
  (forall zs, legal_from b e cs zs -> push_cost_sum ops costs <= cost_of cs zs).
Proof. exact rowleg_costs_sum_to_minimum. Qed.

(* non-vacuity: a fitting history whose first cell is clamped by the right
   limit (target 5, segment [0,6), width 2), with a query and cells pushed
   left; the set of legal competitors is not a singleton ([0;2;3] is legal and
   strictly worse) and the reported costs sum to the optimum 14 *)
Example c12_unbounded_nonvacuous :
  let ops := [Push 2 5; Query 1 (-3); Push 1 (-3); Push 2 4] in
  let cs := mk_cells (push_list ops) (fst (run 0 6 ops)) in
  0 <= 6 /\ fits (rl_init 0 6) ops /\
  run 0 6 ops = ([1; 3; 4], [2; 10; 10; 2]) /\
  legal_from 0 6 cs [0; 2; 3] /\ cost_of cs [0; 2; 3] = 17 /\
  cost_of cs (fst (run 0 6 ops)) = 14 /\ push_cost_sum ops (snd (run 0 6 ops)) = 14.
Proof.
  cbv zeta. split; [lia|]. split; [vm_compute; intuition discriminate|].
  split; [vm_compute; reflexivity|]. split; [vm_compute; intuition discriminate|].
  split; [vm_compute; reflexivity|]. split; vm_compute; reflexivity.
Qed.

Print Assumptions c12_optimal_unbounded.
Print Assumptions c12_costs_sum_to_minimum_unbounded.
