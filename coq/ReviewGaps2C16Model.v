(* Review gap (C16, review_C16-C20.md): DensityLegalizer::reoptimize (density_legalizer.cpp:233-311, the
   branch for more than two candidates) and improveXTransport / improveYTransport (cpp:413-470) as genuine
   Redistribute steps: which bins are touched and what each receives.  Definitions only. *)
From Coq Require Import List ZArith Bool.
Import ListNotations.
Require Import CV.FreeSpace CV.Density CV.DensityUpdate.

(* reoptimize: candidates T in order; pos[i] = (binCapacity(T[i]) > 0).  `bins` = the candidates with
   positive capacity.  Every candidate is cleared (cpp:260-262); bins[b] then receives alloc[b]
   (cpp:304-311).  As a Redistribute on T: a zero-capacity candidate receives [] *)
Fixpoint reopt_news (pos : list bool) (alloc : list (list nat)) : list (list nat) :=
  match pos with
  | [] => []
  | true :: r => match alloc with a :: al => a :: reopt_news r al | [] => [] :: reopt_news r [] end
  | false :: r => [] :: reopt_news r alloc
  end.

Definition nb_pos (pos : list bool) : nat := length (filter (fun b => b) pos).

(* the assignment before the solver runs (cpp:247-252): "allocate to the last non-empty bin";
   also what bins.size() == 1 uses (setBinCells(x, y, cells)): an oracle-free instance *)
Definition reoptimize_step (s : hstate) (T : list (nat * nat)) (pos : list bool) (assignment : list nat)
  : option hstate :=
  let cells := gather (bcells s) T in
  redistribute s T (reopt_news pos (reallocate (nb_pos pos) cells assignment)).

(* improveXTransport, row j (cpp:416-441): the bins (0,j) .. (nbx-1,j) *)
Definition row_bins (nbx j : nat) : list (nat * nat) := map (fun i => (i, j)) (seq 0 nbx).
(* improveYTransport, column i: the bins (i,0) .. (i,nby-1) *)
Definition col_bins (i nby : nat) : list (nat * nat) := map (fun j => (i, j)) (seq 0 nby).

Definition xtransport_step (s : hstate) (j : nat) (assignment : list nat) : option hstate :=
  let nbx := length (bcells s) in
  let T := row_bins nbx j in
  redistribute s T (reallocate nbx (gather (bcells s) T) assignment).
Definition ytransport_step (s : hstate) (i nby : nat) (assignment : list nat) : option hstate :=
  let T := col_bins i nby in
  redistribute s T (reallocate nby (gather (bcells s) T) assignment).

(* ------------------------------------------------------------------ binSize = 0 *)
(* updateBinsToSize (density_grid.cpp:114-115): `placementArea_.width() / maxSize` is an int division:
   maxSize = 0 is a division by zero in the C++ (None here); Density.nb_bins uses Z.quot, total, = 0 there *)
Definition nb_bins_m (len maxSize : Z) : option Z :=
  if (maxSize =? 0)%Z then None else Some (nb_bins len maxSize).
Definition make_grid_m (binSize : Z) (regions : list rect) : option grid :=
  match nb_bins_m (rwidth (placement_area regions)) binSize, nb_bins_m (rheight (placement_area regions)) binSize with
  | Some _, Some _ => Some (make_grid binSize regions)
  | _, _ => None
  end.

(* ------------------------------------------------------------------ updateCellDemand, sizes differ *)
(* density_grid.cpp:219-236 as compiled with NDEBUG (the assert at :220 is gone): the guard loop runs over
   i < nbCells() = |d| and reads demands[i]; then cellDemand_ = demands *)
Inductive upd_res := URefused | UAccepted (d' : list Z) | UOob.
Fixpoint guard_loop (d d' : list Z) (is_ : list nat) : option bool :=
  match is_ with
  | [] => Some true
  | i :: r =>
    match nth_error d i, nth_error d' i with
    | Some v, Some v' => if Bool.eqb (v =? 0)%Z (v' =? 0)%Z then guard_loop d d' r else Some false
    | _, _ => None
    end
  end.
Definition update_ndebug (d d' : list Z) : upd_res :=
  match guard_loop d d' (seq 0 (length d)) with
  | None => UOob
  | Some false => URefused
  | Some true => UAccepted d'
  end.
