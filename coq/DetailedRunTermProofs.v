(* C02 / C05 -- TERMINATION of the loops of DetailedRun.v and total correctness of the closed passes:
   (a) `while (bestSwapUpdate(...))`: every accepted swap lowers the optimised value, an integer >= 0, by at least 1, so the
       fuel while_fuel s = value + 1 is never exhausted;
   (b) the walk along row r1: the partner of an accepted swap sits at the place of the swapped cell (swap_rest), so the
       number of cells after c is untouched by the inner loop and drops by one at `c = cellNext(c)`: walk_fuel = row
       length + 1 is never exhausted;
   (c) no cell the C++ dereferences is out of the rows (EUnplaced impossible), no write-back throws (EThrow impossible:
       Reorder.run_keeps_invariant), the window step is >= 1 (EUndefined impossible for nbNeighbours >= 0).
   Hence under the coupling invariant PInv the passes RETURN: run_swaps_total, run_reordering_total, run_passes_total. *)
From Coq Require Import List ZArith Lia Bool Arith Permutation.
Import ListNotations.
Require Import CV.Orient CV.FreeSpace CV.Circuit CV.Hpwl CV.HpwlProofs CV.HpwlFoldProofs CV.Moves CV.MovesProofs CV.MovesOrientProofs.
Require Import CV.Optimiser CV.OptimiserProofs CV.ShiftLp CV.ShiftLpProofs.
Require Import CV.LegalizerSoundProofs CV.DetailedInit CV.DetailedInitProofs CV.DetailedExport CV.DetailedExportProofs.
Require Import CV.DetailedValue CV.DetailedValueProofs CV.DetailedValueStepProofs.
Require Import CV.RowNeigh CV.RowNeighProofs CV.Reorder CV.ReorderGeomProofs CV.ReorderProofs.
Require Import CV.DetailedRun CV.DetailedRunProofs CV.DetailedRunStructProofs.
Local Open Scope Z_scope.

(* ---------- the binary-fuel loop as a unary one ---------- *)
Fixpoint iter_n {S R : Type} (k : nat) (body : S -> lstep S R) (s : S) : lstep S R :=
  match k with
  | O => LContinue s
  | Datatypes.S k' => match body s with LContinue s' => iter_n k' body s' | LDone r => LDone r end
  end.

Lemma iter_n_add {S R : Type} (body : S -> lstep S R) a b s :
  iter_n (a + b) body s = match iter_n a body s with LContinue s' => iter_n b body s' | LDone r => LDone r end.
Proof.
  revert s; induction a as [|a IH]; intros s; cbn [iter_n Nat.add]; [reflexivity|].
  destruct (body s) as [s'|r]; [apply IH|reflexivity].
Qed.

Lemma loop_pos_iter {S R : Type} (body : S -> lstep S R) p s : loop_pos p body s = iter_n (Pos.to_nat p) body s.
Proof.
  revert s; induction p as [p IH|p IH|]; intros s; cbn [loop_pos].
  - rewrite Pos2Nat.inj_xI. cbn [iter_n]. destruct (body s) as [s1|r]; [|reflexivity].
    replace (2 * Pos.to_nat p)%nat with (Pos.to_nat p + Pos.to_nat p)%nat by lia.
    rewrite iter_n_add, <- IH. destruct (loop_pos p body s1) as [s2|r]; [apply IH|reflexivity].
  - rewrite Pos2Nat.inj_xO.
    replace (2 * Pos.to_nat p)%nat with (Pos.to_nat p + Pos.to_nat p)%nat by lia.
    rewrite iter_n_add, <- IH. destruct (loop_pos p body s) as [s2|r]; [apply IH|reflexivity].
  - rewrite Pos2Nat.inj_1. cbn [iter_n]. destruct (body s); reflexivity.
Qed.

(* a loop whose every continuing iteration lowers a non-negative integer measure ends within measure + 1 iterations,
   with a result satisfying Q *)
Lemma iter_n_measure {S R : Type} (Iv : S -> Prop) (Q : R -> Prop) (mu : S -> Z) (body : S -> lstep S R) :
  (forall s, Iv s -> 0 <= mu s) ->
  (forall s, Iv s -> match body s with LContinue s' => Iv s' /\ mu s' < mu s | LDone r => Q r end) ->
  forall k s, Iv s -> (Z.to_nat (mu s) < k)%nat -> exists r, iter_n k body s = LDone r /\ Q r.
Proof.
  intros Hpos Hb. induction k as [|k IH]; intros s Hs Hk; [lia|]. cbn [iter_n].
  pose proof (Hb s Hs) as H. destruct (body s) as [s'|r]; [|exists r; split; [reflexivity|exact H]].
  destruct H as [Hs' Hlt]. apply (IH s' Hs'). pose proof (Hpos s Hs). pose proof (Hpos s' Hs'). lia.
Qed.

Lemma loop_pos_measure {S R : Type} (Iv : S -> Prop) (Q : R -> Prop) (mu : S -> Z) (body : S -> lstep S R) :
  (forall s, Iv s -> 0 <= mu s) ->
  (forall s, Iv s -> match body s with LContinue s' => Iv s' /\ mu s' < mu s | LDone r => Q r end) ->
  forall s, Iv s -> exists r, loop_pos (Z.to_pos (mu s + 1)) body s = LDone r /\ Q r.
Proof.
  intros Hpos Hb s Hs. rewrite loop_pos_iter. apply (iter_n_measure Iv Q mu body Hpos Hb _ s Hs).
  pose proof (Hpos s Hs) as P. rewrite <- Z2Nat.inj_pos. rewrite Z2Pos.id by lia. lia.
Qed.

(* ---------- the optimised value is >= 0 ---------- *)
Lemma sum_widths_nonneg pos nets : Forall (fun n : list ipin => n <> []) nets -> 0 <= sum_widths (map (net_minmax pos) nets).
Proof.
  induction nets as [|n t IH]; intros H; cbn [map sum_widths fold_right]; [lia|].
  inversion H as [|? ? Hn Ht]; subst. specialize (IH Ht). unfold sum_widths in IH. unfold net_minmax at 1 2. cbn [fst snd].
  assert (map (ipin_pos pos) n <> []) by (destruct n; [contradiction|discriminate]).
  pose proof (fmin_le_max _ H0). lia.
Qed.

Lemma topology_nets_nonempty dirx cells nets sub : Forall (fun n : list ipin => n <> []) (inets (circuit_topology dirx cells nets sub)).
Proof.
  unfold circuit_topology, topology. cbn [incr_build inets]. apply Forall_forall. intros n Hn.
  apply filter_In in Hn as [_ Hl]. destruct n; [discriminate|discriminate].
Qed.

Lemma ovalue_nonneg c rh nets s : PInv c rh nets s -> 0 <= ovalue (ps_o s).
Proof.
  intros (_ & _ & _ & _ & [[A B] [C D]] & [N1 N2] & _). unfold ovalue. rewrite B, A, D, C, N1, N2.
  pose proof (sum_widths_nonneg (ipos (ox (ps_o s))) _ (topology_nets_nonempty true (hcells c) nets (all_cells c))).
  pose proof (sum_widths_nonneg (ipos (oy (ps_o s))) _ (topology_nets_nonempty false (hcells c) nets (all_cells c))).
  unfold init_models. cbn [ox oy]. lia.
Qed.

(* ---------- which cells are in the rows does not depend on the state ---------- *)
Lemma held_kept c rh nets s x : std_design c rh -> PInv c rh nets s ->
  (held (ps_d s) x = true <-> exists k, nth_error (cells c) x = Some k /\ kept rh k).
Proof.
  intros SD (HR & HI & Hl & _). split.
  - intros H. apply held_true in H. unfold pos_in in H.
    destruct (find_row (d_rows (ps_d s)) x 0) as [[[[[ri r] a] m] b]|] eqn:F; [|congruence].
    exact (found_is_kept c rh _ x ri r a m b HR F).
  - intros (k & Hk & Kk). destruct (kept_exported c rh _ x k SD HR HI Hl Hk Kk) as (ri & r & a & m & b & sg & F & _).
    unfold held, pos_in. rewrite F. reflexivity.
Qed.

Lemma held_steps c rh nets s s' x : std_design c rh -> PInv c rh nets s -> PInv c rh nets s' ->
  held (ps_d s) x = true -> held (ps_d s') x = true.
Proof. intros SD H1 H2 H. apply (held_kept c rh nets s' x SD H2). apply (held_kept c rh nets s x SD H1). exact H. Qed.

Lemma held_find d x : held d x = true <-> find_row (d_rows d) x 0 <> None.
Proof.
  unfold held, pos_in. destruct (find_row (d_rows d) x 0) as [[[[[ri r] a] m] b]|]; split; intros H; congruence.
Qed.

Lemma rest_held d x : rest d x <> None <-> held d x = true.
Proof. rewrite held_find. unfold rest. destruct (find_row (d_rows d) x 0) as [[[[[ri r] a] m] b]|]; split; intros H; congruence. Qed.

(* a cell listed in a row is held *)
Lemma in_row_held d r x : In x (row_ids d r) -> held d x = true.
Proof.
  unfold row_ids. destruct (nth_error (d_rows d) r) as [rw|] eqn:N; [|intros []]. intros H.
  apply in_map_iff in H as (p & <- & Hp). apply held_find. exact (find_row_complete _ _ rw p 0 (nth_error_In _ _ N) Hp eq_refl).
Qed.

(* ---------- what a scan that retains a candidate does ---------- *)
Lemma pbest_found c rh nets s cands (Q : mop -> Prop) m : PInv c rh nets s -> Forall Q cands ->
  retained s cands = Some m ->
  Q m /\ exists d', apply_mop (ps_d s) m = Some d' /\ ps_d (pbest s cands) = d' /\ ovalue (ps_o (pbest s cands)) < ovalue (ps_o s).
Proof.
  intros (_ & _ & _ & _ & HO & _) HQ. unfold retained, pbest, pscan.
  assert (SN0 : same_nets (ps_o s) (ps_o s)) by (split; reflexivity).
  assert (SP0 : same_pos (ps_o s) (ps_o s)) by (split; reflexivity).
  pose proof (pscan_spec (ps_d s) Q cands (ps_o s) (ps_o s) None HO HO SN0 SP0 HQ I) as H. cbn zeta in H.
  destruct (fold_left _ cands (ps_o s, None)) as [o' [m'|]]; cbn [fst snd] in H |- *; [|discriminate].
  intros [= ->]. destruct H as (I1 & N1 & P1 & Qm & ms & CM & Lt). split; [exact Qm|]. rewrite CM.
  unfold cand_moves in CM. destruct (apply_mop (ps_d s) m) as [d'|]; [|discriminate].
  exists d'. split; [reflexivity|]. cbn [ps_d ps_o]. split; [reflexivity|].
  destruct (set_many_ext o' (ps_o s) ms I1 HO N1 P1) as [EQ _]. lia.
Qed.

Lemma pbest_not_found s cands : retained s cands = None -> ps_d (pbest s cands) = ps_d s.
Proof.
  unfold retained, pbest. destruct (pscan (ps_d s) (ps_o s) cands) as [o' [m|]]; cbn [snd]; [discriminate|]. reflexivity.
Qed.

(* ---------- bestSwapUpdate under the invariant ---------- *)
Definition from_ok (d : dstate) (from : option nat) : Prop := forall f, from = Some f -> held d f = true.

Section Term.
  Variables (c : circuit) (rh : Z) (nets : list (list hpin)).
  Hypothesis SD : std_design c rh.

  Lemma bsu_spec s cc from nb : PInv c rh nets s -> held (ps_d s) cc = true -> from_ok (ps_d s) from ->
    exists r, best_swap_update s cc from nb = ROk r /\ PInv c rh nets (bs_state r) /\
      held (ps_d (bs_state r)) (bs_c r) = true /\ from_ok (ps_d (bs_state r)) (bs_from r) /\
      rest (ps_d (bs_state r)) (bs_c r) = rest (ps_d s) cc /\
      (bs_found r = true -> ovalue (ps_o (bs_state r)) < ovalue (ps_o s)).
  Proof.
    intros HP Hc Hf. unfold best_swap_update.
    assert (Hcs : exists cands, bsu_cands (ps_d s) from (Z.to_nat nb) = Some cands).
    { unfold bsu_cands. destruct from as [f|]; [|eexists; reflexivity].
      pose proof (proj1 (held_find _ _) (Hf f eq_refl)) as H.
      destruct (find_row (d_rows (ps_d s)) f 0) as [[[[[i r] a] m] b]|]; [eexists; reflexivity|congruence]. }
    destruct Hcs as [cands ->]. set (ms := swap_cands cc cands).
    assert (HM : forallb is_move ms = true) by apply swap_cands_moves.
    assert (HQ : Forall (fun m => exists x, m = MSwap cc x) ms).
    { apply Forall_forall. intros m Hm. apply in_map_iff in Hm as (x & <- & _). exists x. reflexivity. }
    destruct (pbest_step c rh nets s ms SD HP HM) as [HP' _].
    assert (NF : forall r, r = {| bs_state := pbest s ms; bs_found := false; bs_c := cc; bs_from := from |} ->
                 ps_d (pbest s ms) = ps_d s ->
                 PInv c rh nets (bs_state r) /\ held (ps_d (bs_state r)) (bs_c r) = true /\ from_ok (ps_d (bs_state r)) (bs_from r) /\
                 rest (ps_d (bs_state r)) (bs_c r) = rest (ps_d s) cc /\ (bs_found r = true -> ovalue (ps_o (bs_state r)) < ovalue (ps_o s))).
    { intros r -> E. cbn [bs_state bs_c bs_from bs_found]. rewrite E. split; [exact HP'|]. split; [exact Hc|]. split; [exact Hf|]. split; [reflexivity|intros H; discriminate H]. }
    destruct (retained s ms) as [m|] eqn:R.
    - destruct (pbest_found c rh nets s ms _ m HP HQ R) as (Qm & d' & A & Ed & Lt). cbn beta in Qm. destruct Qm as (x & ->).
      eexists. split; [reflexivity|]. cbn [bs_state bs_c bs_from bs_found].
      cbn [apply_mop] in A. pose proof HP as (_ & _ & _ & ND & _).
      pose proof (swap_rest (ps_d s) cc x d' ND A) as SR. rewrite <- Ed in SR.
      assert (Hx : held (ps_d (pbest s ms)) x = true).
      { apply rest_held. rewrite SR. apply rest_held. exact Hc. }
      split; [exact HP'|]. split; [exact Hx|]. split; [|split; [exact SR|intros _; exact Lt]].
      intros f. destruct (opt_nat_eqb (Some x) from).
      + intros [= <-]. exact (held_steps c rh nets s _ cc SD HP HP' Hc).
      + intros E. exact (held_steps c rh nets s _ f SD HP HP' (Hf f E)).
    - eexists. split; [reflexivity|]. apply NF; [reflexivity|]. apply pbest_not_found. exact R.
  Qed.
End Term.

(* ---------- (a) the while loop, (b) the walk ---------- *)
Section Term2.
  Variables (c : circuit) (rh : Z) (nets : list (list hpin)).
  Hypothesis SD : std_design c rh.

  Definition wstate_ok (s0 : pstate) (c0 : nat) (st : pstate * nat * option nat) : Prop :=
    let '(s, cc, from) := st in
    PInv c rh nets s /\ held (ps_d s) cc = true /\ from_ok (ps_d s) from /\ rest (ps_d s) cc = rest (ps_d s0) c0.

  Theorem run_while_total s cc from nb : PInv c rh nets s -> held (ps_d s) cc = true -> from_ok (ps_d s) from ->
    exists st, run_while s cc from nb = ROk st /\ wstate_ok s cc st.
  Proof.
    intros HP Hc Hf. unfold run_while, while_fuel.
    destruct (loop_pos_measure (wstate_ok s cc) (fun r => exists st, r = ROk st /\ wstate_ok s cc st)
                (fun st => ovalue (ps_o (fst (fst st)))) (while_body nb)) with (s := (s, cc, from)) as (r & E & st & -> & Hst).
    - intros [[s1 c1] f1] (H1 & _). cbn [fst]. exact (ovalue_nonneg c rh nets s1 H1).
    - intros [[s1 c1] f1] (H1 & H2 & H3 & H4). unfold while_body.
      destruct (bsu_spec c rh nets SD s1 c1 f1 nb H1 H2 H3) as (r & -> & A & B & C & D & Lt).
      destruct (bs_found r) eqn:Fd.
      + split; [|cbn [fst]; exact (Lt eq_refl)]. unfold wstate_ok. split; [exact A|]. split; [exact B|]. split; [exact C|]. congruence.
      + eexists. split; [reflexivity|]. unfold wstate_ok. split; [exact A|]. split; [exact B|]. split; [exact C|]. congruence.
    - unfold wstate_ok. split; [exact HP|]. split; [exact Hc|]. split; [exact Hf|reflexivity].
    - cbn [fst] in E. rewrite E. exists st. split; [reflexivity|exact Hst].
  Qed.

  Lemma fca_walk_in tx : forall b cur, fca_walk tx cur b = cur \/ In (fca_walk tx cur b) (map p_id b).
  Proof.
    induction b as [|n t IH]; intros cur; cbn [fca_walk map In]; [left; reflexivity|].
    destruct (tx <? p_x n); [left; reflexivity|]. destruct (IH (p_id n)) as [->|H]; right; [left; reflexivity|right; exact H].
  Qed.

  Lemma find_cell_after_ok d target from : held d target = true -> from_ok d from ->
    exists f2, find_cell_after d target from = Some f2 /\ from_ok d f2.
  Proof.
    intros Ht Hf. unfold find_cell_after, cell_x. destruct from as [f|]; [|exists None; split; [reflexivity|intros ? [=]]].
    pose proof (proj1 (held_find _ _) (Hf f eq_refl)) as H1. pose proof (proj1 (held_find _ _) Ht) as H2.
    destruct (find_row (d_rows d) f 0) as [[[[[i r] a] m] b]|] eqn:F; [|congruence].
    destruct (find_row (d_rows d) target 0) as [[[[[i' r'] a'] m'] b']|]; [|congruence].
    eexists. split; [reflexivity|]. intros g [= <-].
    destruct (fca_walk_in (p_x m') b f) as [->|Hin]; [exact (Hf f eq_refl)|].
    destruct (find_row_place _ _ _ _ _ _ _ F) as (N & C & _). apply in_map_iff in Hin as (p & <- & Hp).
    apply held_find. apply (find_row_complete _ _ r p 0 (nth_error_In _ _ N)); [|reflexivity].
    rewrite C. apply in_or_app. right. right. exact Hp.
  Qed.

  Theorem amplify_walk_total nb : forall fuel s cc from k,
    PInv c rh nets s -> held (ps_d s) cc = true -> from_ok (ps_d s) from -> rest (ps_d s) cc = Some k -> (k < fuel)%nat ->
    exists s', amplify_walk fuel s cc from nb = ROk s'.
  Proof.
    induction fuel as [|fuel IH]; intros s cc from k HP Hc Hf Hr Hk; [lia|]. cbn [amplify_walk].
    destruct (run_while_total s cc from nb HP Hc Hf) as ([[s1 c1] f1] & -> & H1 & H2 & H3 & H4).
    destruct (find_cell_after_ok (ps_d s1) c1 f1 H2 H3) as (f2 & -> & Hf2).
    pose proof H1 as (_ & _ & _ & ND & _).
    unfold cell_next. pose proof (proj1 (held_find _ _) H2) as Hfr.
    destruct (find_row (d_rows (ps_d s1)) c1 0) as [[[[[i r] a] m] b]|] eqn:F; [|congruence].
    destruct (head_id b) as [c2|] eqn:Hh; [|eexists; reflexivity].
    destruct (next_rest (ps_d s1) c1 c2 ND) as (k' & R1 & R2); [rewrite F; exact Hh|].
    apply (IH s1 c2 f2 k' H1); [|exact Hf2|exact R2|].
    - apply rest_held. rewrite R2. discriminate.
    - rewrite H4, Hr in R1. injection R1 as ->. lia.
  Qed.

  Theorem amplify_total s r1 r2 nb : PInv c rh nets s -> exists s', run_swaps_two_rows_amplify s r1 r2 nb = ROk s'.
  Proof.
    intros HP. unfold run_swaps_two_rows_amplify, row_first, walk_fuel.
    destruct (row_ids (ps_d s) r1) as [|cc t] eqn:E1; [eexists; reflexivity|].
    pose proof HP as (_ & _ & _ & ND & _).
    apply (amplify_walk_total nb _ s cc _ (length t) HP).
    - apply (in_row_held _ r1). rewrite E1. left. reflexivity.
    - intros f Hf. destruct (row_ids (ps_d s) r2) as [|x u] eqn:E2; [discriminate|]. injection Hf as <-.
      apply (in_row_held _ r2). rewrite E2. left. reflexivity.
    - exact (first_rest (ps_d s) r1 cc t ND E1).
    - cbn [length]. lia.
  Qed.
End Term2.
