(* C18 -- binary64 / binary32 model (Flocq, IEEE-754 round-to-nearest-even) of the cell-expansion functions of
   /repo/src/coloquinte.cpp (line numbers of commit 7b95a91):
     Circuit::computeRowPlacementArea (654-667)  -> row_placement_area_f
     Circuit::expandCellsToDensity   (669-725)  -> expand_to_density_f
     Circuit::expandCellsByFactor    (727-789)  -> expand_by_factor_f
     Circuit::computeCellExpansion   (791-834)  -> compute_expansion_f
   The exact model over Q is CV.Expand; this file follows the same lines with every C++ `double` operation replaced
   by the correctly rounded operation of Flocq's BinarySingleNaN at prec 53 / emax 1024 and every `float` operation
   by prec 24 / emax 128.  `int` / `long long` are ideal integers (Z): a conversion (int)x / (long long)x of a
   floating value is [Btrunc] (truncation toward zero; 0 for infinities and NaN) -- in C++ the conversion is
   undefined when the truncated value does not fit the target type; the predicates [in_int] / [in_ll] say when it
   fits, ExpandFloatProofs.v gives the input bounds under which every conversion fits.
   The harness and the library are compiled for x86-64 with -O1, without -ffast-math and without -mfma (SSE scalar
   arithmetic, FLT_EVAL_METHOD = 0, no contraction): one C++ operator = one rounding.
   The integer parts (free rows, areas, maximal row width, which cells the loop touches) are the definitions of
   CV.Expand.  Definitions only; the proofs are in ExpandFloatProofs.v. *)
From Coq Require Import ZArith List Bool Reals.
From Flocq Require Import Core BinarySingleNaN.
Require Import CV.Orient CV.FreeSpace CV.Expand CV.SpreadFloat.
Import ListNotations.
Local Open Scope Z_scope.

(* ------------------------------------------------------------------ binary64 operations not in SpreadFloat.v *)
Definition dadd : f64 -> f64 -> f64 := @Bplus 53 1024 p53 p53_1024 mode_NE.
Definition ddiv : f64 -> f64 -> f64 := @Bdiv 53 1024 p53 p53_1024 mode_NE.
(* m * 2^e rounded to binary64 (used to write double arguments and test vectors; exact for |m| < 2^53) *)
Definition d_of_me (m e : Z) : f64 := @binary_normalize 53 1024 p53 p53_1024 mode_NE m e false.
Definition done : f64 := @Bone 53 1024 p53 p53_1024.   (* 1.0 *)
Definition dtwo : f64 := d_of_Z 2.                      (* (double)2 *)

(* (float)x for a double x: one rounding to binary32 *)
Definition f_of_d (x : f64) : f32 :=
  match x with
  | B754_zero s => B754_zero s
  | B754_infinity s => B754_infinity s
  | B754_nan => B754_nan
  | B754_finite s m e _ =>
      @binary_normalize 24 128 p24 p24_128 mode_NE (cond_Zopp s (Zpos m)) e s
  end.

(* the ranges of int and long long *)
Definition in_int (z : Z) : Prop := - 2 ^ 31 <= z < 2 ^ 31.
Definition in_ll (z : Z) : Prop := - 2 ^ 63 <= z < 2 ^ 63.

(* ------------------------------------------------------------------ computeRowPlacementArea (654-667)
   long long h = r.height(), w = r.width();
   w -= 2 * rowSideMargin * h;      [w = (long long)((double)w - ((double)2 * m) * (double)h)]
   if (w > 0) rowArea += w * h; *)
Definition margin_width_f (m : f64) (r : row) : f64 :=
  dsub (d_of_Z (rect_w (rr r))) (dmul (dmul dtwo m) (d_of_Z (rect_h (rr r)))).

Definition margin_row_area_f (m : f64) (r : row) : Z :=
  let w' := Btrunc (margin_width_f m r) in
  if 0 <? w' then w' * rect_h (rr r) else 0.

Definition row_placement_area_f (m : f64) (c : ecircuit) : Z :=
  zsum (map (margin_row_area_f m) (e_free_rows c)).

(* ------------------------------------------------------------------ expandCellsToDensity (669-725) *)

(* while (missingArea >= h) { ++newW; missingArea -= h; }   -- explicit fuel, None = out of fuel *)
Fixpoint carry_loop_f (fuel : nat) (h : Z) (newW : Z) (missing : f64) : option (Z * f64) :=
  if Bleb (d_of_Z h) missing then
    match fuel with
    | O => None
    | S f => carry_loop_f f h (newW + 1) (dsub missing (d_of_Z h))
    end
  else Some (newW, missing).

(* double fracW = w * expansionFactor; if (fracW > (double)maxCellWidth) fracW = (double)maxCellWidth; *)
Definition frac_width_f (f cap : f64) (k : ecell) : f64 :=
  let fw := dmul (d_of_Z (e_w k)) f in if Bltb cap fw then cap else fw.

(* missingArea += h * (fracW - newW) *)
Definition carry_in_f (missing : f64) (h : Z) (fw : f64) : f64 :=
  dadd missing (dmul (d_of_Z h) (dsub fw (d_of_Z (Btrunc fw)))).

(* one iteration of the loop of lines 702-724: the cell and the new missingArea *)
Definition expand_cell_f (f cap : f64) (k : ecell) (missing : f64) : option (ecell * f64) :=
  if processed k then
    let h := e_h k in
    let fw := frac_width_f f cap k in
    let m1 := carry_in_f missing h fw in
    match carry_loop_f (Z.to_nat (Btrunc m1 / h)) h (Btrunc fw) m1 with
    | Some (w', m2) => Some (set_w k w', m2)
    | None => None
    end
  else Some (k, missing).

Fixpoint expand_cells_f (f cap : f64) (cells : list ecell) (missing : f64) : option (list ecell * f64) :=
  match cells with
  | [] => Some ([], missing)
  | k :: r =>
    match expand_cell_f f cap k missing with
    | None => None
    | Some (k', m') =>
      match expand_cells_f f cap r m' with
      | None => None
      | Some (r', m'') => Some (k' :: r', m'')
      end
    end
  end.

(* density = (double)cellArea / (double)rowArea;  expansionFactor = targetDensity / density;
   maxCellWidth = maxRowWidth * maxExpandedWidth *)
Definition density_f (ca ra : Z) : f64 := ddiv (d_of_Z ca) (d_of_Z ra).
Definition cap_f (mew : f64) (c : ecircuit) : f64 := dmul (d_of_Z (max_row_width (e_rows c))) mew.

(* t = targetDensity, m = rowSideMargin, mew = maxExpandedWidth; None only when the fuel of a carry loop runs out *)
Definition expand_to_density_f_br (t m mew : f64) (c : ecircuit) : option (ecircuit * branch) :=
  let ca := movable_area (e_cells c) in
  let ra := row_placement_area_f m c in
  if (ca =? 0) || (ra =? 0) then Some (c, BrNoArea) else
  let d := density_f ca ra in
  if Bleb t d then Some (c, BrDense) else                     (* density >= targetDensity *)
  match expand_cells_f (ddiv t d) (cap_f mew c) (e_cells c) (B754_zero false) with
  | None => None
  | Some (cs, _) => Some ({| e_rows := e_rows c; e_cells := cs |}, BrExpand)
  end.

Definition expand_to_density_f (t m mew : f64) (c : ecircuit) : option ecircuit :=
  option_map fst (expand_to_density_f_br t m mew c).

(* ------------------------------------------------------------------ expandCellsByFactor (727-789) *)

(* the float literal 0.999f = 16760439 * 2^-24 *)
Definition f_0_999 : f32 := f_of_me 16760439 (-24).

(* expandedArea += static_cast<double>(expansionFactor[i]) * area(i)
   i.e. expandedArea = (long long)((double)expandedArea + (double)e * (double)area): one truncation per movable cell *)
Definition expanded_step_f (acc : Z) (e : f32) (a : Z) : f64 :=
  dadd (d_of_Z acc) (dmul (d_of_f e) (d_of_Z a)).

Fixpoint expanded_area_f (cells : list ecell) (es : list f32) (acc : Z) : Z :=
  match cells, es with
  | k :: cr, e :: er =>
    expanded_area_f cr er (if e_fixed k then acc else Btrunc (expanded_step_f acc e (cell_area k)))
  | _, _ => acc
  end.

(* e = 1.0 + (e - 1.0) * ratio: e promoted to double, three binary64 operations, then rounded to float *)
Definition adjust_f (ratio : f64) (e : f32) : f32 :=
  f_of_d (dadd done (dmul (dsub (d_of_f e) done) ratio)).

(* cellWidth_[i] = static_cast<int>(cellWidth_[i] * static_cast<double>(expansion[i])) for the non-fixed cells *)
Definition scaled_width_f (w : Z) (e : f32) : f64 := dmul (d_of_Z w) (d_of_f e).
Definition apply_factor_f (ke : ecell * f32) : ecell :=
  let (k, e) := ke in if e_fixed k then k else set_w k (Btrunc (scaled_width_f (e_w k) e)).

(* ratio = (maxDensity - density) / (expandedDensity - density) *)
Definition ratio_f (maxD d ed : f64) : f64 := ddiv (dsub maxD d) (dsub ed d).

(* None = the function throws.  Result: the circuit, the returned double and the branch taken. *)
Definition expand_by_factor_f_br (es : list f32) (maxD m : f64) (c : ecircuit)
  : option (ecircuit * f64 * branch) :=
  if negb (Nat.eqb (length es) (length (e_cells c))) then None else
  if existsb (fun e => Bltb e f_0_999) es then None else            (* e < 0.999f *)
  let ca := movable_area (e_cells c) in
  let ea := expanded_area_f (e_cells c) es 0 in
  let ra := row_placement_area_f m c in
  if (ca =? 0) || (ra =? 0) then Some (c, done, BrNoArea) else
  let d := density_f ca ra in
  if Bleb maxD d then Some (c, done, BrDense) else                  (* density >= maxDensity *)
  let ed := density_f ea ra in
  let es' := if Bltb maxD ed then map (adjust_f (ratio_f maxD d ed)) es else es in   (* expandedDensity > maxDensity *)
  Some ({| e_rows := e_rows c; e_cells := map apply_factor_f (combine (e_cells c) es') |}, ddiv ed d, BrExpand).

Definition expand_by_factor_f (es : list f32) (maxD m : f64) (c : ecircuit) : option (ecircuit * f64) :=
  option_map fst (expand_by_factor_f_br es maxD m c).

(* ------------------------------------------------------------------ computeCellExpansion (791-834) *)

(* (c - 1.0f) * penaltyFactor + fixedPenalty + 1.0: three binary32 operations, the sum with the double literal 1.0
   in binary64, and the conversion to float when the pair<Rectangle, float> is constructed *)
Definition region_factor_f (fp pf c : f32) : f32 :=
  f_of_d (dadd (d_of_f (fadd (fmul (fsub c fone) pf) fp)) done).

(* expansionMap: the regions with c > 1.0f (the std::sort only reorders the map) *)
Definition expansion_map_f (fp pf : f32) (cmap : list (rect * f32)) : list (rect * f32) :=
  flat_map (fun rc => if Bltb fone (snd rc) then [(fst rc, region_factor_f fp pf (snd rc))] else []) cmap.

(* float expansion = 1.0; for (r, e) in expansionMap: if (r.intersects(place)) expansion = std::max(expansion, e) *)
Definition cell_expansion_f (emap : list (rect * f32)) (k : ecell) : f32 :=
  if e_fixed k then fone
  else fold_left (fun acc re => if rect_intersects (fst re) (e_placement k) then fmax_std acc (snd re) else acc)
                 emap fone.

(* ------------------------------------------------------------------ inputs of the examples / range witnesses
   (the statements about them are in Properties_C18.v) *)
Definition fmk (x y w h : Z) (fx ob : bool) : ecell :=
  {| e_x := x; e_y := y; e_w := w; e_h := h; e_o := oN; e_fixed := fx; e_obs := ob |}.
Definition fmkrow (a b c d : Z) : row := {| rr := {| minX := a; maxX := b; minY := c; maxY := d |}; ro := oN |}.
(* one row 2^30 x 8, one cell 2^29 x 1: target 1/2 gives the factor 8; with maxExpandedWidth = 4 the cap is 2^32 *)
Definition wit_ed : ecircuit :=
  {| e_rows := [fmkrow 0 1073741824 0 8]; e_cells := [fmk 0 0 536870912 1 false false] |}.
(* one row 2^30 x 16, one cell 2^20 x 1 with the factor 4096 (utilisation after: 1/4) *)
Definition wit_ef : ecircuit :=
  {| e_rows := [fmkrow 0 1073741824 0 16]; e_cells := [fmk 0 0 1048576 1 false false] |}.

(* None = throws (fixedPenalty < 0.0f || penaltyFactor < 1.0f) *)
Definition compute_expansion_f (cmap : list (rect * f32)) (fp pf : f32) (c : ecircuit) : option (list f32) :=
  if Bltb fp fzero || Bltb pf fone then None
  else Some (map (cell_expansion_f (expansion_map_f fp pf cmap)) (e_cells c)).
