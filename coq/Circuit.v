(* The circuit as seen through the public API (src/coloquinte.hpp), the legality
   specification of C01/C02 and its boolean checker. *)
From Coq Require Import List ZArith Lia Bool.
Import ListNotations.
Require Import CV.Orient CV.FreeSpace.
Local Open Scope Z_scope.

Record ccell := { c_x : Z; c_y : Z; c_w : Z; c_h : Z; c_o : orient; c_pol : polarity;
                  c_fixed : bool; c_obs : bool }.
Record circuit := { rows : list row; cells : list ccell }.

Definition placement_of (c : ccell) : rect := cell_placement (c_x c) (c_y c) (c_w c) (c_h c) (c_o c).

(* Circuit::computeRows() through the C15 model *)
Definition free_rows (c : circuit) : list row :=
  compute_rows (rows c) [] (map (fun k => (placement_of k, c_fixed k, c_obs k)) (cells c)).

(* Circuit::rowHeight(), None when it throws *)
Definition row_height (c : circuit) : option Z :=
  match rows c with
  | [] => None
  | r :: rs => let h := maxY (rr r) - minY (rr r) in
               if forallb (fun r' => maxY (rr r') - minY (rr r') =? h) rs then Some h else None
  end.

Definition rect_intersects (a b : rect) : bool :=
  (minX a <? maxX b) && (minX b <? maxX a) && (minY a <? maxY b) && (minY b <? maxY a).

(* strip j of a placed rectangle *)
Definition strip_ok (fr : list row) (p : rect) (rh : Z) (j : nat) : bool :=
  existsb (fun s => (minY (rr s) =? minY p + Z.of_nat j * rh) && (maxY (rr s) =? minY p + Z.of_nat j * rh + rh)
                    && (minX (rr s) <=? minX p) && (maxX p <=? maxX (rr s))) fr.

Definition cell_legalb (c : circuit) (rh : Z) (fr : list row) (k : ccell) : bool :=
  let p := placement_of k in
  let h := maxY p - minY p in
  (0 <? h) && (h mod rh =? 0) && (minX p <? maxX p) &&
  existsb (fun r => minY (rr r) =? minY p) (rows c) &&
  forallb (strip_ok fr p rh) (seq 0 (Z.to_nat (h / rh))).

Fixpoint pairwise_disjointb (l : list rect) : bool :=
  match l with
  | [] => true
  | a :: r => forallb (fun b => negb (rect_intersects a b)) r && pairwise_disjointb r
  end.

Definition movable (c : circuit) : list ccell := filter (fun k => negb (c_fixed k)) (cells c).

Definition legalb (c : circuit) : bool :=
  match row_height c with
  | None => match movable c with [] => true | _ => false end
  | Some rh =>
    (0 <? rh) && forallb (cell_legalb c rh (free_rows c)) (movable c)
    && pairwise_disjointb (map placement_of (movable c))
  end.

(* ---------- the specification, as the statement of C01 reads ---------- *)
Definition strip_in_segment (fr : list row) (p : rect) (rh : Z) (j : nat) : Prop :=
  exists s, In s fr /\ minY (rr s) = minY p + Z.of_nat j * rh /\ maxY (rr s) = minY p + Z.of_nat j * rh + rh /\
            minX (rr s) <= minX p /\ maxX p <= maxX (rr s).

Definition cell_legal (c : circuit) (rh : Z) (k : ccell) : Prop :=
  let p := placement_of k in
  (* positive size, height a positive multiple of the row height *)
  minX p < maxX p /\ (exists n : nat, (0 < n)%nat /\ maxY p - minY p = Z.of_nat n * rh /\
  (* bottom edge on a row boundary *)
  (exists r, In r (rows c) /\ minY (rr r) = minY p) /\
  (* each row-high strip inside one free segment (free = clear of every fixed obstruction, by C15) *)
  forall j, (j < n)%nat -> strip_in_segment (free_rows c) p rh j).

Definition disjoint_rects (a b : rect) : Prop :=
  maxX a <= minX b \/ maxX b <= minX a \/ maxY a <= minY b \/ maxY b <= minY a.

Fixpoint pairwise_disjoint (l : list rect) : Prop :=
  match l with
  | [] => True
  | a :: r => (forall b, In b r -> disjoint_rects a b) /\ pairwise_disjoint r
  end.

Definition legal (c : circuit) : Prop :=
  match row_height c with
  | None => movable c = []
  | Some rh => 0 < rh /\ (forall k, In k (movable c) -> cell_legal c rh k) /\
               pairwise_disjoint (map placement_of (movable c))
  end.

(* ---------- C04: orientation prescribed by the polarity, transcribed from the
   documentation of CellRowPolarity in coloquinte.hpp (independently of the code) ---------- *)
Definition prescribed (p : polarity) (rowo : orient) : option (option orient) :=
  (* None = row forbidden; Some None = any orientation (kept); Some (Some o) = must be o *)
  match p with
  | pANY => Some None
  | pSAME => Some (Some rowo)
  | pOPPOSITE => match rowo with
                 | oN => Some (Some oFS) | oFS => Some (Some oN) | oS => Some (Some oFN) | oFN => Some (Some oS)
                 | oE => Some (Some oFW) | oFW => Some (Some oE) | oW => Some (Some oFE) | oFE => Some (Some oW)
                 | _ => None end
  | pNW => match rowo with oN | oFN | oW | oFW => Some (Some rowo) | _ => None end
  | pSE => match rowo with oS | oFS | oE | oFE => Some (Some rowo) | _ => None end
  end.

(* the row a cell's bottom-left corner sits on *)
Definition row_under (c : circuit) (k : ccell) : option row :=
  find (fun r => (minY (rr r) =? c_y k) && (minX (rr r) <=? c_x k) && (c_x k <? maxX (rr r))) (rows c).

Definition cell_orient_okb (c : circuit) (before after : ccell) : bool :=
  if c_fixed after then true else
  match c_pol after with
  | pANY => orient_eqb (c_o after) (c_o before)
  | pol => match row_under c after with
           | None => false
           | Some r => match prescribed pol (ro r) with
                       | Some (Some o) => orient_eqb (c_o after) o && negb (orient_eqb o oINVALID)
                       | _ => false
                       end
           end
  end.

Definition orient_okb (before after : circuit) : bool :=
  (Nat.eqb (length (cells before)) (length (cells after))) &&
  forallb (fun ba => cell_orient_okb after (fst ba) (snd ba)) (combine (cells before) (cells after)).

Definition cell_orient_ok (c : circuit) (before after : ccell) : Prop :=
  c_fixed after = false ->
  (c_pol after = pANY -> c_o after = c_o before) /\
  (c_pol after <> pANY ->
     exists r o, row_under c after = Some r /\ prescribed (c_pol after) (ro r) = Some (Some o) /\
                 c_o after = o /\ o <> oINVALID).

Definition orient_ok (before after : circuit) : Prop :=
  length (cells before) = length (cells after) /\
  forall b a, In (b, a) (combine (cells before) (cells after)) -> cell_orient_ok after b a.

(* ---------- C01: "success is trivial" ---------- *)
Definition sumZ (l : list Z) : Z := fold_right Z.add 0 l.
Definition maxZ (l : list Z) : Z := fold_right Z.max 0 l.
Definition trivially_feasible (c : circuit) : bool :=
  match row_height c with
  | None => false
  | Some rh =>
    let mv := map placement_of (movable c) in
    let fr := free_rows c in
    forallb (fun k => (maxY (placement_of k) - minY (placement_of k) =? rh) && polarity_eqb (c_pol k) pANY
                      && (0 <? maxX (placement_of k) - minX (placement_of k))) (movable c)
    && (sumZ (map (fun p => maxX p - minX p) mv)
        <=? sumZ (map (fun s => maxX (rr s) - minX (rr s)) fr) - Z.of_nat (length fr) * maxZ (map (fun p => maxX p - minX p) mv))
  end.
