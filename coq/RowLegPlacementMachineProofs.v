(* C07: no value of RowLegalizer::getPlacement overflows, for every state that satisfies the raw-state invariant of
   RowLegProofs.v (kept by every push / cost query from an empty segment: init_inv, push_inv, query_inv) on a segment inside
   [-2^22, 2^22]. *)
From Coq Require Import List ZArith Lia.
Import ListNotations.
Require Import CV.RowLeg CV.RowLegProofs CV.RowLegMachine CV.RowLegMachineProofs CV.RowLegPlacementMachine.
Local Open Scope Z_scope.

Lemma gp_aux_fits b e : -4194304 <= b -> e <= 4194304 -> forall cp ws u m,
  cp_ok b e cp ws u ->
  (match m with None => True | Some mv => b <= mv end) ->
  Forall fits (gp_aux_vals cp ws u m).
Proof.
  intros Hb He. induction cp as [|c cp IH]; intros [|w ws] u m Hcp Hm; cbn [gp_aux_vals cp_ok] in *;
    try constructor.
  - destruct Hcp as (Hbc & Hce & Hw & Hcp).
    set (m' := match m with None => c | Some m0 => Z.min m0 c end).
    assert (Hm' : b <= m' <= c) by (unfold m'; destruct m as [mv|]; lia).
    apply fits32. lia.
  - destruct Hcp as (Hbc & Hce & Hw & Hcp).
    set (m' := match m with None => c | Some m0 => Z.min m0 c end).
    assert (Hm' : b <= m' <= c) by (unfold m'; destruct m as [mv|]; lia).
    constructor; [apply fits32; lia|].
    apply IH; [exact Hcp | lia].
Qed.

Theorem gp_no_overflow s :
  Inv s -> -4194304 <= rbegin s -> rend s <= 4194304 -> Forall fits (gp_vals s).
Proof.
  intros (Hcp & _) Hb He. unfold gp_vals. eapply gp_aux_fits; eauto.
Qed.

(* the listed sums are the model's placement (first of each pair) and the right edge of the cell (second) *)
Lemma gp_aux_placement cp : forall ws u m,
  map snd (gp_aux_vals cp ws u m) =
  flat_map (fun xw => [fst xw; fst xw + snd xw]) (combine (placement_aux cp ws u m) (firstn (length (placement_aux cp ws u m)) ws)).
Proof.
  induction cp as [|c cp IH]; intros [|w ws] u m; cbn [gp_aux_vals placement_aux map combine flat_map firstn length]; try reflexivity.
  cbn [app fst snd]. rewrite IH. f_equal. f_equal. lia.
Qed.
