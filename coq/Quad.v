(* C17 -- model of the quadratic net models of global placement, over Q.
   Source: /repo/src/place_global/net_model.hpp, net_model.cpp (NetModel, MatrixCreator).
   No proofs in this file (QuadProofs.v).  Floats are modelled by exact rationals: every
   C++ `float` value is a rational, the model computes what the C++ would compute without
   rounding (DESIGN.md section 3, regime (b)).  `+-infinity` (initial best position of
   minPin/maxPin, "no fixed pin" of the 5-argument addNet) is an `option`.

   Cells are `Z` (`-1` = fixed pin, as in the C++); vectors are lists indexed by `Z.to_nat`.
   `nth _ _ 0` is used for vector reads: the well-formedness predicate `nm_ok` of QuadProofs.v
   (what `NetModel::check()` enforces: every cell in [-1, nbCells)) puts every read in range. *)
From Coq Require Import List ZArith QArith Qminmax Qabs Bool.
Import ListNotations.
Open Scope Q_scope.

(* ------------------------------------------------------------------ NetModel *)

(* one net: netWeight_[n], and the slice [netLimits_[n], netLimits_[n+1]) of netCells_/netPinOffsets_ *)
Record net := mkNet { n_weight : Q; n_pins : list (Z * Q) }.
(* nbCells_ and the nets in insertion order *)
Record netmodel := mkNM { nm_cells : nat; nm_nets : list net }.

(* NetModel::NetModel(int nbCells), net_model.cpp:102 *)
Definition nm_empty (n : nat) : netmodel := mkNM n [].

(* float -> int conversion of `netWeight_.push_back(weight)` when netWeight_ is std::vector<int>
   (unchanged tree, net_model.hpp:261): truncation towards zero *)
Definition Qtrunc (w : Q) : Q := inject_Z (Z.quot (Qnum w) (Zpos (Qden w))).

(* NetModel::addNet(cells, pinOffsets, weight), net_model.cpp:115-126.  `store` is the conversion
   performed by the container: identity for std::vector<float> (repaired tree), Qtrunc for
   std::vector<int> (unchanged tree). *)
Definition add_net_gen (store : Q -> Q) (cells : list Z) (offs : list Q) (w : Q) (nm : netmodel) : netmodel :=
  if (length cells <=? 1)%nat then nm                                   (* :118 *)
  else mkNM (nm_cells nm) (nm_nets nm ++ [mkNet (store w) (combine cells offs)]).   (* :121-125 *)

(* NetModel::addNet(cells, pinOffsets, minPin, maxPin, weight), net_model.cpp:128-147.
   `fixed = Some (minPin, maxPin)` when minPin is finite (then maxPin is finite too: x/yTopology
   derive both from the same fixed pins), `None` otherwise. *)
Definition add_net_ext_gen (store : Q -> Q) (cells : list Z) (offs : list Q) (fixed : option (Q * Q)) (w : Q)
           (nm : netmodel) : netmodel :=
  match cells with
  | [] => nm                                                             (* :131 *)
  | _ =>
    match fixed with
    | Some (mn, mx) =>                                                   (* :134 *)
      if Qeq_bool mx mn
      then add_net_gen store (cells ++ [(-1)%Z]) (offs ++ [mn]) w nm                       (* :137-138,143 *)
      else add_net_gen store (cells ++ [(-1)%Z; (-1)%Z]) (offs ++ [mn; mx]) w nm           (* :139-143 *)
    | None => add_net_gen store cells offs w nm                          (* :145 *)
    end
  end.

(* repaired tree (fix: std::vector<float> netWeight_) *)
Definition add_net := add_net_gen (fun w => w).
Definition add_net_ext := add_net_ext_gen (fun w => w).
(* unchanged tree *)
Definition add_net_int := add_net_gen Qtrunc.
Definition add_net_ext_int := add_net_ext_gen Qtrunc.

(* pinPosition(net, pin, pl), net_model.hpp:94-100 *)
Definition pin_position (p : Z * Q) (pl : list Q) : Q :=
  (if (fst p =? -1)%Z then 0 else nth (Z.to_nat (fst p)) pl 0) + snd p.

Definition Qlt_bool (a b : Q) : bool := negb (Qle_bool b a).

(* pins with their index *)
Definition indexed {A} (l : list A) : list (nat * A) := combine (seq 0 (length l)) l.

(* NetModel::minPin, net_model.cpp:208-224.  State: None = (bestPos = +inf, nothing chosen yet: bestI = 0,
   bestC = -1); Some (bestI, bestC, bestO, bestPos). *)
Definition min_pin_step (pl : list Q) (best : option (nat * Z * Q * Q)) (ip : nat * (Z * Q)) :=
  let pos := pin_position (snd ip) pl in
  match best with
  | None => Some (fst ip, fst (snd ip), snd (snd ip), pos)               (* pos < +inf *)
  | Some (_, _, _, bp) => if Qlt_bool pos bp then Some (fst ip, fst (snd ip), snd (snd ip), pos) else best
  end.
Definition max_pin_step (pl : list Q) (best : option (nat * Z * Q * Q)) (ip : nat * (Z * Q)) :=
  let pos := pin_position (snd ip) pl in
  match best with
  | None => Some (fst ip, fst (snd ip), snd (snd ip), pos)               (* pos > -inf *)
  | Some (_, _, _, bp) => if Qlt_bool bp pos then Some (fst ip, fst (snd ip), snd (snd ip), pos) else best
  end.
(* a net of a NetModel has >= 2 pins (addNet drops the others, check() throws): the `None` result is
   unreachable there; the C++ would return (0, -1, +-inf, +-inf) *)
Definition extreme_default : nat * Z * Q * Q := (O, (-1)%Z, 0, 0).
Definition min_pin (pins : list (Z * Q)) (pl : list Q) : nat * Z * Q * Q :=
  match fold_left (min_pin_step pl) (indexed pins) None with Some r => r | None => extreme_default end.
Definition max_pin (pins : list (Z * Q)) (pl : list Q) : nat * Z * Q * Q :=
  match fold_left (max_pin_step pl) (indexed pins) None with Some r => r | None => extreme_default end.

(* ------------------------------------------------------------------ MatrixCreator *)

(* Eigen::Triplet<float>(row, col, value) *)
Record trip := mkT { t_row : Z; t_col : Z; t_val : Q }.
(* mat_, rhs_, initial_, hasNonZero_; matSize() = nbCells_ + nbSupps_ = length of the three vectors *)
Record sys := mkSys { s_mat : list trip; s_rhs : list Q; s_init : list Q; s_nz : list bool }.

(* MatrixCreator(topo), net_model.cpp:249-257 *)
Definition sys_empty (n : nat) : sys := mkSys [] (repeat 0 n) (repeat 0 n) (repeat false n).

Definition mat_size (s : sys) : nat := length (s_rhs s).

Fixpoint upd {A} (n : nat) (f : A -> A) (l : list A) {struct l} : list A :=
  match l, n with
  | [], _ => []
  | x :: r, O => f x :: r
  | x :: r, S m => x :: upd m f r
  end.

(* one call addPin(c1, c2, offs1, offs2, weight) *)
Record pinop := mkOp { p_c1 : Z; p_c2 : Z; p_o1 : Q; p_o2 : Q; p_w : Q }.

(* addFixedPin(c1, offs1, pos, weight), net_model.cpp:344-349 *)
Definition add_fixed_pin (c1 : Z) (offs1 pos w : Q) (s : sys) : sys :=
  mkSys (s_mat s ++ [mkT c1 c1 w])
        (upd (Z.to_nat c1) (fun r => r + w * (pos - offs1)) (s_rhs s))
        (s_init s)
        (upd (Z.to_nat c1) (fun _ => true) (s_nz s)).

(* addMovingPin(c1, c2, offs1, offs2, weight), net_model.cpp:327-342 *)
Definition add_moving_pin (c1 c2 : Z) (offs1 offs2 w : Q) (s : sys) : sys :=
  if (c1 =? c2)%Z then s else
  mkSys (s_mat s ++ [mkT c1 c2 (- w); mkT c2 c1 (- w); mkT c1 c1 w; mkT c2 c2 w])
        (upd (Z.to_nat c2) (fun r => r + w * (offs1 - offs2))
             (upd (Z.to_nat c1) (fun r => r + w * (offs2 - offs1)) (s_rhs s)))
        (s_init s)
        (upd (Z.to_nat c2) (fun _ => true) (upd (Z.to_nat c1) (fun _ => true) (s_nz s))).

(* addPin(c1, c2, offs1, offs2, weight), net_model.cpp:351-365 *)
Definition add_pin (o : pinop) (s : sys) : sys :=
  if (p_c1 o =? p_c2 o)%Z then s
  else if (p_c1 o =? -1)%Z then add_fixed_pin (p_c2 o) (p_o2 o) (p_o1 o) (p_w o) s
  else if (p_c2 o =? -1)%Z then add_fixed_pin (p_c1 o) (p_o1 o) (p_o2 o) (p_w o) s
  else add_moving_pin (p_c1 o) (p_c2 o) (p_o1 o) (p_o2 o) (p_w o) s.

(* a sequence of addPin calls, in program order *)
Definition apply_ops (ops : list pinop) (s : sys) : sys := fold_left (fun s o => add_pin o s) ops s.

(* addCell(initialPos), net_model.cpp:381-388: returns the new index and the state *)
Definition add_cell (initialPos : Q) (s : sys) : Z * sys :=
  (Z.of_nat (mat_size s),
   mkSys (s_mat s) (s_rhs s ++ [0]) (s_init s ++ [initialPos]) (s_nz s ++ [false])).

(* addPenalty(netPlacement, placementTarget, penaltyStrength, cutoffDistance), net_model.cpp:367-379;
   the loop `for i < nbCells_` runs over the three vectors (asserted to have nbCells_ entries) *)
Fixpoint penalty_ops (i : Z) (pl tg st : list Q) (cutoff : Q) : list pinop :=
  match pl, tg, st with
  | p :: pl', t :: tg', k :: st' =>
    let dist := Qabs (p - t) in                                          (* :375 *)
    let strength := k / Qmax dist cutoff in                              (* :376 *)
    (* addFixedPin(i, 0, target, strength) = addPin(i, -1, 0, target, strength) for i >= 0 *)
    mkOp i (-1) 0 t strength :: penalty_ops (i + 1) pl' tg' st' cutoff
  | _, _, _ => []
  end.
Definition add_penalty (pl tg st : list Q) (cutoff : Q) (s : sys) : sys :=
  apply_ops (penalty_ops 0 pl tg st cutoff) s.

Definition Qnat (n : nat) : Q := inject_Z (Z.of_nat n).

(* ---- models without placement *)

(* addBipoint(net), net_model.cpp:454-457: pins 0 and 1 *)
Definition bipoint_ops (w : Q) (pins : list (Z * Q)) : list pinop :=
  match pins with
  | p0 :: p1 :: _ => [mkOp (fst p0) (fst p1) (snd p0) (snd p1) w]
  | _ => []
  end.
Definition add_bipoint (n : net) (s : sys) : sys := apply_ops (bipoint_ops (n_weight n) (n_pins n)) s.

(* all pairs i < j in the order of the two nested loops *)
Fixpoint pair_ops (f : Z * Q -> Z * Q -> pinop) (pins : list (Z * Q)) : list pinop :=
  match pins with
  | [] => []
  | p :: r => map (f p) r ++ pair_ops f r
  end.

(* addClique(net), net_model.cpp:459-468 *)
Definition clique_ops (wn : Q) (pins : list (Z * Q)) : list pinop :=
  let nb := Qnat (length pins) in
  let w := 2 * wn / (nb * (nb - 1)) in                                   (* :461 *)
  pair_ops (fun pi pj => mkOp (fst pi) (fst pj) (snd pi) (snd pj) w) pins.
Definition add_clique (n : net) (s : sys) : sys := apply_ops (clique_ops (n_weight n) (n_pins n)) s.

(* MatrixCreator::singleCellNet(net) (repair of finding F25): all the pins are on the same cell (or all are fixed) *)
Definition single_cell (pins : list (Z * Q)) : bool :=
  match pins with
  | [] => true
  | p :: r => forallb (fun q : Z * Q => (fst q =? fst p)%Z) r
  end.
(* `nb <= 2 || singleCellNet(net)`: the net is handed to addBipoint, no star point is created *)
Definition bip_like (pins : list (Z * Q)) : bool := (length pins <=? 2)%nat || single_cell pins.

(* addStar(net), net_model.cpp:470-481 *)
Definition star_ops (wn : Q) (pins : list (Z * Q)) (c : Z) : list pinop :=
  let w := wn / Qnat (length pins) in                                    (* :475 *)
  map (fun p => mkOp (fst p) c (snd p) 0 w) pins.                        (* :477-479 *)
Definition add_star (n : net) (s : sys) : sys :=
  if bip_like (n_pins n) then add_bipoint n s                            (* :472 *)
  else let (c, s1) := add_cell 0 s in apply_ops (star_ops (n_weight n) (n_pins n) c) s1.

(* ---- models built around a placement *)

(* addBipoint(net, pl, epsilon), net_model.cpp:483-490 *)
Definition bipoint_pl_ops (wn : Q) (pins : list (Z * Q)) (pl : list Q) (eps : Q) : list pinop :=
  match pins with
  | p0 :: p1 :: _ =>
    let w := wn / Qmax eps (Qabs (pin_position p0 pl - pin_position p1 pl)) in
    [mkOp (fst p0) (fst p1) (snd p0) (snd p1) w]
  | _ => []
  end.

(* addClique(net, pl, epsilon), net_model.cpp:492-505 *)
Definition clique_pl_ops (wn : Q) (pins : list (Z * Q)) (pl : list Q) (eps : Q) : list pinop :=
  let nb := Qnat (length pins) in
  let w := 2 * wn / (nb * (nb - 1)) in                                   (* :495 *)
  pair_ops (fun pi pj =>
              let distW := w / Qmax eps (Qabs (pin_position pi pl - pin_position pj pl)) in
              mkOp (fst pi) (fst pj) (snd pi) (snd pj) distW) pins.

(* loop body of addStar(net, pl, epsilon), net_model.cpp:516-531 *)
Definition star_pl_ops (wn : Q) (pins : list (Z * Q)) (pl : list Q) (eps : Q) (starC : Z) : list pinop :=
  let '(minI, _, _, minPos) := min_pin pins pl in
  let '(maxI, _, _, maxPos) := max_pin pins pl in
  let starPos := (1 # 2) * (minPos + maxPos) in
  map (fun ip : nat * (Z * Q) =>
         let i := fst ip in let p := snd ip in
         let pos := pin_position p pl in
         if (i =? minI)%nat || (i =? maxI)%nat then
           let w := wn / Qmax eps (Qabs (pos - starPos)) in              (* :521-522 *)
           mkOp (fst p) starC (snd p) 0 w
         else
           let dist := Qmin (maxPos - pos) (pos - minPos) in             (* :527 *)
           let w := wn / Qmax eps dist in                                (* :528 *)
           mkOp (fst p) starC (snd p) (pos - starPos) w)
      (indexed pins).
Definition star_pos (pins : list (Z * Q)) (pl : list Q) : Q :=
  let '(_, _, _, minPos) := min_pin pins pl in
  let '(_, _, _, maxPos) := max_pin pins pl in
  (1 # 2) * (minPos + maxPos).                                           (* :514 *)

(* loop body of addLightStar(net, pl, epsilon), net_model.cpp:544-559 *)
Definition lightstar_ops (wn : Q) (pins : list (Z * Q)) (pl : list Q) (eps : Q) (starC : Z) : list pinop :=
  let '(minI, _, _, minPos) := min_pin pins pl in
  let '(maxI, _, _, maxPos) := max_pin pins pl in
  let starPos := (1 # 2) * (minPos + maxPos) in
  map (fun ip : nat * (Z * Q) =>
         let i := fst ip in let p := snd ip in
         let pos := pin_position p pl in
         if (i =? minI)%nat || (i =? maxI)%nat then
           let w := wn / Qmax eps (Qabs (pos - starPos)) in              (* :549-550 *)
           mkOp (fst p) starC (snd p) 0 w
         else
           let w := wn / (Qnat (length pins) - 1) in                     (* :554 *)
           let w1 := w / Qmax eps (maxPos - pos) in                      (* :555 *)
           let w2 := w / Qmax eps (pos - minPos) in                      (* :556 *)
           mkOp (fst p) starC (snd p) (pos - starPos) (w1 + w2))
      (indexed pins).

(* addB2B(net, pl, epsilon), net_model.cpp:563-582 *)
Definition b2b_ops (wn : Q) (pins : list (Z * Q)) (pl : list Q) (eps : Q) : list pinop :=
  let '(minI, minCell, minOffset, minPos) := min_pin pins pl in
  let '(maxI, maxCell, maxOffset, maxPos) := max_pin pins pl in
  let w := wn / (Qnat (length pins) - 1) in                              (* :567 *)
  flat_map (fun ip : nat * (Z * Q) =>
              let i := fst ip in let p := snd ip in
              let pos := pin_position p pl in
              if (i =? minI)%nat then []                                 (* :571 *)
              else
                let distMin := w / Qmax eps (Qabs (pos - minPos)) in     (* :574 *)
                mkOp (fst p) minCell (snd p) minOffset distMin ::        (* :575 *)
                (if (i =? maxI)%nat then []                              (* :576 *)
                 else
                   let distMax := w / Qmax eps (Qabs (pos - maxPos)) in  (* :579 *)
                   [mkOp (fst p) maxCell (snd p) maxOffset distMax]))    (* :580 *)
           (indexed pins).

Inductive model := B2B | Star | Clique | LightStar.

(* one iteration of the loops of createB2B/createStar/createClique/createLightStar, net_model.cpp:414-452 *)
Definition add_net_model (m : model) (pl : list Q) (eps : Q) (s : sys) (n : net) : sys :=
  let wn := n_weight n in let pins := n_pins n in
  match m with
  | B2B => apply_ops (b2b_ops wn pins pl eps) s
  | Clique => apply_ops (clique_pl_ops wn pins pl eps) s
  | Star =>
    if bip_like pins then apply_ops (bipoint_pl_ops wn pins pl eps) s                    (* :509 *)
    else let (c, s1) := add_cell (star_pos pins pl) s in                                 (* :515 *)
         apply_ops (star_pl_ops wn pins pl eps c) s1
  | LightStar =>
    if bip_like pins then apply_ops (bipoint_pl_ops wn pins pl eps) s                    (* :537 *)
    else let (c, s1) := add_cell (star_pos pins pl) s in                                 (* :543 *)
         apply_ops (lightstar_ops wn pins pl eps c) s1
  end.

(* the Star model BEFORE the repair of finding F25 (a star point also for a net on a single cell): witness only *)
Definition add_net_star_old (pl : list Q) (eps : Q) (s : sys) (n : net) : sys :=
  let wn := n_weight n in let pins := n_pins n in
  if (length pins <=? 2)%nat then apply_ops (bipoint_pl_ops wn pins pl eps) s
  else let (c, s1) := add_cell (star_pos pins pl) s in apply_ops (star_pl_ops wn pins pl eps c) s1.
Definition create_star_old (nm : netmodel) (pl : list Q) (eps : Q) : sys :=
  fold_left (add_net_star_old pl eps) (nm_nets nm) (sys_empty (nm_cells nm)).

(* MatrixCreator::create(topo, pl, epsilon, netModel), net_model.cpp:390-404 *)
Definition create (m : model) (nm : netmodel) (pl : list Q) (eps : Q) : sys :=
  fold_left (add_net_model m pl eps) (nm_nets nm) (sys_empty (nm_cells nm)).

(* MatrixCreator::createStar(topo), net_model.cpp:406-412 *)
Definition create_star0 (nm : netmodel) : sys :=
  fold_left (fun s n => add_star n s) (nm_nets nm) (sys_empty (nm_cells nm)).

(* the two public no-placement builders that `create` does not use, applied to every net
   (addBipoint(net) / addClique(net)) *)
Definition create_bipoint0 (nm : netmodel) : sys :=
  fold_left (fun s n => add_bipoint n s) (nm_nets nm) (sys_empty (nm_cells nm)).
Definition create_clique0 (nm : netmodel) : sys :=
  fold_left (fun s n => add_clique n s) (nm_nets nm) (sys_empty (nm_cells nm)).

(* finalize(), net_model.cpp:584-594: 1.0e-8f (the float nearest to 1e-8) on every diagonal entry that no
   addPin touched *)
Definition reg_value : Q := 11258999 # 1125899906842624.   (* 1.0e-8f = 11258999 * 2^-50 *)
Definition reg_trips (nz : list bool) : list trip :=
  flat_map (fun ib : nat * bool => if snd ib then [] else [mkT (Z.of_nat (fst ib)) (Z.of_nat (fst ib)) reg_value])
           (indexed nz).
Definition finalize (s : sys) : sys :=
  mkSys (s_mat s ++ reg_trips (s_nz s)) (s_rhs s) (s_init s) (map (fun _ => true) (s_nz s)).

(* ---- MatrixCreator::normalize() (repair of finding F22), called by solve() between check() and finalize(): the
   system is multiplied by 2^-e, e = ilogb(max |b_i|) (raised to ilogb(max |A_ij|) - 64), unless b = 0 or e = 0.
   Over Q the scaling is a multiplication by a power of two; Qilogb is floor(log2 q) for q > 0. *)
Definition Qpow2 (z : Z) : Q := if (0 <=? z)%Z then inject_Z (2 ^ z) else 1 # Z.to_pos (2 ^ (- z)).
Definition Qilogb (q : Q) : Z :=
  let c := (Z.log2 (Qnum q) - Z.log2 (Zpos (Qden q)))%Z in
  if Qle_bool (Qpow2 c) q then c else (c - 1)%Z.
(* float m = 0; for (v : l) m = std::max(m, std::abs(v)) *)
Definition Qmaxabs (l : list Q) : Q := fold_left (fun m v => if Qlt_bool m (Qabs v) then Qabs v else m) l 0.
Definition norm_exp (s : sys) : option Z :=
  let maxRhs := Qmaxabs (s_rhs s) in
  let maxMat := Qmaxabs (map t_val (s_mat s)) in
  if Qle_bool maxRhs 0 then None
  else
    let e := Qilogb maxRhs in
    let e := if Qle_bool maxMat 0 then e else Z.max e (Qilogb maxMat - 64) in
    if (e =? 0)%Z then None else Some e.
Definition scale_sys (k : Q) (s : sys) : sys :=
  mkSys (map (fun t => mkT (t_row t) (t_col t) (k * t_val t)) (s_mat s)) (map (Qmult k) (s_rhs s)) (s_init s) (s_nz s).
Definition normalize (s : sys) : sys :=
  match norm_exp s with None => s | Some e => scale_sys (Qpow2 (- e)) s end.

(* the assembled systems after finalize() (what the solver received before the repair of F22; solver_input below adds
   normalize()) of NetModel::solveStar(params) / solve / solveWithPenalty /
   solveStar(pl,..) / solveB2B, net_model.cpp:624-681 *)
Definition system_star0 (nm : netmodel) : sys := finalize (create_star0 nm).
(* ... and what solve() really hands to Eigen since the repair of F22: finalize after normalize *)
Definition solver_input (s : sys) : sys := finalize (normalize s).
Definition system (m : model) (nm : netmodel) (pl : list Q) (eps : Q) : sys := finalize (create m nm pl eps).
Definition system_penalty (m : model) (nm : netmodel) (pl : list Q) (eps : Q) (tg st : list Q) (cutoff : Q) : sys :=
  finalize (add_penalty pl tg st cutoff (create m nm pl eps)).

(* ------------------------------------------------------------------ linear systems over Q *)

(* (M x)_i for a triplet list (duplicates add up, as in setFromTriplets) *)
Definition row_sum (i : Z) (m : list trip) (x : list Q) : Q :=
  fold_right (fun t acc => (if (t_row t =? i)%Z then t_val t * nth (Z.to_nat (t_col t)) x 0 else 0) + acc) 0 m.

(* M x as a vector (one entry per row of the system) and "x solves M x = b" *)
Definition mat_vec (s : sys) (x : list Q) : list Q :=
  map (fun i => row_sum (Z.of_nat i) (s_mat s) x) (seq 0 (length (s_rhs s))).
Definition solves (s : sys) (x : list Q) : Prop := Forall2 Qeq (mat_vec s x) (s_rhs s).

(* ------------------------------------------------------------------ documented objectives *)

(* position of a pin for the unknowns x; fixed pins are constants *)
Definition pin_at (c : Z) (o : Q) (x : list Q) : Q := (if (c =? -1)%Z then 0 else nth (Z.to_nat c) x 0) + o.

(* energy of one addPin call: w/2 (pos1 - pos2)^2 *)
Definition op_energy (x : list Q) (o : pinop) : Q :=
  let d := pin_at (p_c1 o) (p_o1 o) x - pin_at (p_c2 o) (p_o2 o) x in (p_w o / 2) * (d * d).
Definition ops_energy (ops : list pinop) (x : list Q) : Q := fold_right (fun o acc => op_energy x o + acc) 0 ops.

(* weighted quadratic wirelength of two-pin nets: sum_n w_n/2 (x_a + o_a - x_b - o_b)^2 *)
Definition bipoint_energy (nm : netmodel) (x : list Q) : Q :=
  fold_right (fun n acc =>
                match n_pins n with
                | p0 :: p1 :: _ => let d := pin_position p0 x - pin_position p1 x in (n_weight n / 2) * (d * d)
                | _ => 0
                end + acc) 0 (nm_nets nm).

(* star objective: nets of <= 2 pins as above; a net of nb > 2 pins has one extra unknown s (its star point,
   numbered nbCells, nbCells+1, ... in net order) and contributes w/(2 nb) sum_i (x_i + o_i - s)^2 *)
Fixpoint star_energy_from (k : nat) (nets : list net) (x : list Q) : Q :=
  match nets with
  | [] => 0
  | n :: r =>
    if bip_like (n_pins n) then
      match n_pins n with
      | p0 :: p1 :: _ => let d := pin_position p0 x - pin_position p1 x in (n_weight n / 2) * (d * d)
      | _ => 0
      end + star_energy_from k r x
    else
      let s := nth k x 0 in
      fold_right (fun p acc => (n_weight n / Qnat (length (n_pins n)) / 2) * ((pin_position p x - s) * (pin_position p x - s)) + acc)
                 0 (n_pins n)
      + star_energy_from (S k) r x
  end.
Definition star_energy (nm : netmodel) (x : list Q) : Q := star_energy_from (nm_cells nm) (nm_nets nm) x.

(* the same nets with every pin offset and every fixed pin position set to zero: the energy of nm_flat is the
   purely quadratic part of the objective (x^T M x / 2) *)
Definition nm_flat (nm : netmodel) : netmodel :=
  mkNM (nm_cells nm) (map (fun n => mkNet (n_weight n) (map (fun p : Z * Q => (fst p, 0)) (n_pins n))) (nm_nets nm)).

(* h . (M x - b) computed from the triplets: sum_t v_t h_row x_col - sum_i h_i b_i *)
Definition bil (m : list trip) (h x : list Q) : Q :=
  fold_right (fun t acc => t_val t * nth (Z.to_nat (t_row t)) h 0 * nth (Z.to_nat (t_col t)) x 0 + acc) 0 m.

(* componentwise sum and a.b *)
Fixpoint vadd (x h : list Q) : list Q :=
  match x, h with
  | a :: x', b :: h' => (a + b) :: vadd x' h'
  | _, _ => []
  end.
Fixpoint vdot (h g : list Q) : Q :=
  match h, g with
  | a :: h', b :: g' => a * b + vdot h' g'
  | _, _ => 0
  end.
(* ------------------------------------------------------------------ builders used by driver and examples *)

Definition build_nm_gen (store : Q -> Q) (n : nat) (nets : list (list Z * list Q * option (Q * Q) * Q)) : netmodel :=
  fold_left (fun nm e => let '(cells, offs, fx, w) := e in add_net_ext_gen store cells offs fx w nm) nets (nm_empty n).
Definition build_nm := build_nm_gen (fun w => w).
Definition build_nm_int := build_nm_gen Qtrunc.

(* h . (M x - b): the directional derivative that the system assigns to direction h at x *)
Definition lin (s : sys) (h x : list Q) : Q := bil (s_mat s) h x - vdot h (s_rhs s).
