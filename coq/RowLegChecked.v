(* The row-legalizer model run under the proved certificate checker, the
   reachable-state invariant, and the finite domain of the bounded theorem. *)
From Coq Require Import List ZArith Lia Bool.
Import ListNotations.
Require Import CV.RowLeg CV.RowLegProofs CV.RowLegCert.
Local Open Scope Z_scope.

(* ---------- reachable states ---------- *)
Definition run_state (s : rl) (ops : list op) : rl := fold_left (fun s o => fst (step s o)) ops s.

(* the history only pushes cells that fit (the caller's obligation, as in
   AbacusLegalizer::evaluatePlacement: remainingSpace() >= width) *)
Fixpoint fits (s : rl) (ops : list op) : Prop :=
  match ops with
  | [] => True
  | o :: r => (match o with Push w t => 0 < w <= remaining_space s | Query _ _ => True end)
              /\ fits (fst (step s o)) r
  end.

Lemma run_state_inv ops : forall s, Inv s -> fits s ops -> Inv (run_state s ops).
Proof.
  induction ops as [|o r IH]; intros s Hs Hf; cbn [run_state fold_left]; [exact Hs|].
  destruct Hf as [Ho Hr]. apply IH; [|exact Hr].
  destruct o as [w t|w t]; cbn [step].
  - apply push_inv; [exact Hs|lia|lia].
  - apply query_inv; exact Hs.
Qed.

Lemma run_ops_state b e ops : fst (run_ops b e ops) = run_state (rl_init b e) ops.
Proof.
  unfold run_ops, run_state.
  assert (G : forall s cs, fst (let '(s', cs') := fold_left (fun '(s, cs) o => let '(s', c) := step s o in (s', c :: cs)) ops (s, cs) in (s', rev cs'))
                          = fold_left (fun s o => fst (step s o)) ops s).
  { induction ops as [|o r IH]; intros s cs; cbn [fold_left]; [reflexivity|].
    destruct (step s o) as [s' c] eqn:E. rewrite IH. cbn [fst]. reflexivity. }
  apply G.
Qed.

(* ---------- the checked run ---------- *)
Fixpoint push_list (ops : list op) : list (Z * Z) :=
  match ops with [] => [] | Push w t :: r => (w, t) :: push_list r | Query _ _ :: r => push_list r end.

Fixpoint mk_cells (ps : list (Z * Z)) (pl : list Z) : list ccell :=
  match ps, pl with
  | (w, t) :: ps', x :: pl' => {| cw := w; ct := t; cx := x |} :: mk_cells ps' pl'
  | _, _ => []
  end.

(* sum of the costs reported by the pushes (queries excluded) *)
Fixpoint push_cost_sum (ops : list op) (costs : list Z) : Z :=
  match ops, costs with
  | Push _ _ :: r, c :: cs => c + push_cost_sum r cs
  | Query _ _ :: r, _ :: cs => push_cost_sum r cs
  | _, _ => 0
  end.

Definition checked_run (b e : Z) (ops : list op) : option (list Z * list Z) :=
  let '(pl, costs) := run b e ops in
  let cs := mk_cells (push_list ops) pl in
  if (Nat.eqb (length pl) (length (push_list ops))) && cert_ok b e cs
     && (push_cost_sum ops costs =? cost_own cs)
  then Some (pl, costs) else None.

Lemma mk_cells_cx ps pl : length pl = length ps -> map cx (mk_cells ps pl) = pl.
Proof.
  revert pl. induction ps as [|[w t] ps IH]; intros [|x pl]; cbn; try discriminate; try reflexivity.
  intros [= H]. rewrite IH; [reflexivity|exact H].
Qed.

Lemma checked_run_sound b e ops pl costs :
  checked_run b e ops = Some (pl, costs) ->
  let cs := mk_cells (push_list ops) pl in
  run b e ops = (pl, costs) /\
  legal_from b e cs pl /\
  (forall zs, legal_from b e cs zs -> cost_of cs pl <= cost_of cs zs) /\
  push_cost_sum ops costs = cost_of cs pl.
Proof.
  unfold checked_run. destruct (run b e ops) as [pl0 costs0] eqn:R.
  destruct (_ && _) eqn:E; [|discriminate]. intros [= <- <-].
  apply andb_true_iff in E as [E E3]. apply andb_true_iff in E as [E1 E2].
  apply Nat.eqb_eq in E1. apply Z.eqb_eq in E3.
  destruct (cert_ok_sound _ _ _ E2) as [Hleg Hopt].
  rewrite mk_cells_cx in Hleg by exact E1. cbn zeta.
  rewrite cost_own_of, mk_cells_cx in E3 by exact E1.
  repeat split; try assumption.
  intros zs Hz. specialize (Hopt zs Hz). rewrite cost_own_of, mk_cells_cx in Hopt by exact E1. exact Hopt.
Qed.

(* ---------- the finite domain of the bounded theorem ---------- *)
(* all instances with segment [0,e), 1 <= e <= maxlen, at most maxn cells of
   width 1..maxw, targets in [-win, e+win], total width <= e *)
Definition zrange (lo hi : Z) : list Z := map (fun k => lo + Z.of_nat k) (seq 0 (Z.to_nat (hi - lo + 1))).

Fixpoint all_pushes (n : nat) (e maxw win : Z) : list (list (Z * Z)) :=
  match n with
  | O => [[]]
  | S n' =>
    [] :: flat_map (fun rest => flat_map (fun w => map (fun t => (w, t) :: rest) (zrange (- win) (e + win)))
                                         (zrange 1 maxw))
                   (all_pushes n' e maxw win)
  end.

Definition total_width (ps : list (Z * Z)) : Z := fold_right (fun p a => fst p + a) 0 ps.

Definition small_instances (maxlen : Z) (maxn : nat) (maxw win : Z) : list (Z * list (Z * Z)) :=
  flat_map (fun e => map (fun ps => (e, ps)) (filter (fun ps => total_width ps <=? e) (all_pushes maxn e maxw win)))
           (zrange 1 maxlen).

Definition instance_ok (i : Z * list (Z * Z)) : bool :=
  match checked_run 0 (fst i) (map (fun p => Push (fst p) (snd p)) (snd i)) with Some _ => true | None => false end.

(* ---------- statements used by Properties_C12 ---------- *)
Lemma step_bounds s o : rbegin (fst (step s o)) = rbegin s /\ rend (fst (step s o)) = rend s.
Proof.
  destruct o; cbn [step]; unfold push, get_cost, get_displacement;
    destruct (pop_loop _ _ _ _ _ _ _ _) as [[[[? ?] ?] ?] ?]; cbn; tauto.
Qed.

Lemma run_state_bounds ops : forall s, rbegin (run_state s ops) = rbegin s /\ rend (run_state s ops) = rend s.
Proof.
  induction ops as [|o r IH]; intros s; cbn [run_state fold_left]; [tauto|].
  destruct (IH (fst (step s o))) as [H1 H2]. unfold run_state in H1, H2. rewrite H1, H2. apply step_bounds.
Qed.

Lemma reachable_legal b e ops :
  b <= e -> fits (rl_init b e) ops ->
  let s := fst (run_ops b e ops) in
  let pl := placement_aux (cpos s) (widths s) (used s) None in
  length pl = length (widths s) /\
  (forall i x w, nth_error pl i = Some x -> nth_error (widths s) i = Some w -> b <= x /\ x + w <= e) /\
  (forall i j xi xj wj, (i < j)%nat -> nth_error pl i = Some xi -> nth_error pl j = Some xj ->
                        nth_error (widths s) j = Some wj -> xj + wj <= xi).
Proof.
  intros Hbe Hf. cbn zeta. rewrite run_ops_state.
  pose proof (run_state_inv ops _ (init_inv b e Hbe) Hf) as HI.
  pose proof (placement_legal_rev _ HI) as HL.
  destruct (run_state_bounds ops (rl_init b e)) as [Hb He]. cbn [rl_init rbegin rend] in Hb, He.
  rewrite Hb, He in HL. apply legal_rev_pairwise; [|exact HL].
  destruct HI as (Hcp & _). eapply cp_ok_widths_pos; exact Hcp.
Qed.

Lemma reachable_query_pure b e ops w t :
  b <= e -> fits (rl_init b e) ops ->
  let s := fst (run_ops b e ops) in
  fst (get_cost s w t) = s /\ snd (get_cost s w t) = snd (push s w t).
Proof.
  intros Hbe Hf. cbn zeta. rewrite run_ops_state.
  pose proof (run_state_inv ops _ (init_inv b e Hbe) Hf) as (_ & _ & _ & Hs).
  split; [apply query_restores_state; exact Hs|apply query_predicts_push].
Qed.

Lemma bounded_optimal maxlen maxn maxw win :
  forallb instance_ok (small_instances maxlen maxn maxw win) = true ->
  forall e ps, In (e, ps) (small_instances maxlen maxn maxw win) ->
  let ops := map (fun p => Push (fst p) (snd p)) ps in
  let pl := fst (run 0 e ops) in
  let costs := snd (run 0 e ops) in
  let cs := mk_cells (push_list ops) pl in
  legal_from 0 e cs pl /\
  (forall zs, legal_from 0 e cs zs -> cost_of cs pl <= cost_of cs zs) /\
  push_cost_sum ops costs = cost_of cs pl.
Proof.
  intros H e ps Hin. rewrite forallb_forall in H. specialize (H _ Hin). unfold instance_ok in H. cbn [fst snd] in H.
  destruct (checked_run 0 e _) as [[pl costs]|] eqn:C; [|discriminate].
  apply checked_run_sound in C. cbn zeta in *. destruct C as (R & A & B & D). rewrite R. cbn [fst snd]. tauto.
Qed.
