(* C14 optimality, part F2: plans of the original problem <-> matrices of the sorted problem (same cost). *)
From Coq Require Import List ZArith Lia Bool Arith.
Import ListNotations.
Require Import CV.LpCert CV.Transp1d CV.Transp1dProofs CV.Transp1dTerm CV.Transp1dCert CV.Transp1dOpt
               CV.Transp1dOptA1 CV.Transp1dOptM2 CV.Transp1dOptM3 CV.Transp1dOptM5 CV.Transp1dOptF1.
Local Open Scope Z_scope.

(* ---------------------------------------------------------------- sums over a duplicate-free index list *)
Lemma zsum_subset (f : nat -> Z) N : forall l, NoDup l -> (forall k, In k l -> (k < N)%nat) ->
  (forall k, (k < N)%nat -> ~ In k l -> f k = 0) -> zsum f (seq 0 N) = zsum f l.
Proof.
  intros l. revert f. induction l as [|x t IH]; intros f Hnd Hin Hz.
  - cbn [zsum]. apply zsum_all_zero. intros k Hk. apply in_seq in Hk. apply Hz; [lia|intros []].
  - inversion Hnd as [|? ? Hx Ht]; subst. cbn [zsum].
    set (f' := fun k => if Nat.eqb k x then 0 else f k).
    assert (E1 : zsum f (seq 0 N) = f x + zsum f' (seq 0 N)).
    { pose proof (zsum_ind f x N (Hin x (or_introl eq_refl))) as Q.
      rewrite <- Q, <- zsum_plus. apply zsum_ext. intros k _. subst f'. cbv beta. destruct (Nat.eqb k x); lia. }
    rewrite E1. f_equal. rewrite (IH f' Ht).
    + apply zsum_ext. intros k Hk. subst f'. cbv beta. destruct (Nat.eqb_spec k x); [subst; contradiction|reflexivity].
    + intros k Hk. apply Hin. right. exact Hk.
    + intros k Hk Hn. subst f'. cbv beta. destruct (Nat.eqb_spec k x) as [->|Hne]; [reflexivity|].
      apply Hz; [exact Hk|]. intros [->|H]; [congruence|contradiction].
Qed.

Lemma zsum_nth (f : nat -> Z) : forall l, zsum f l = zsum (fun k => f (nn l k)) (seq 0 (length l)).
Proof.
  induction l as [|x t IH]; [reflexivity|]. cbn [length seq zsum]. rewrite <- seq_shift, zsum_map, IH.
  unfold nn. cbn [nth]. reflexivity.
Qed.

(* ---------------------------------------------------------------- entries of a plan with positive quantities *)
Definition all_pos (sol : list triple) : Prop := forall i j a, In (i, j, a) sol -> 0 < a.

Lemma all_pos_tail t r : all_pos (t :: r) -> all_pos r.
Proof. intros H i j a Hin. apply (H i j a). right. exact Hin. Qed.

Lemma src_sum_nonneg sol i : all_pos sol -> 0 <= src_sum sol i.
Proof.
  induction sol as [|[[i' j'] a] r IH]; intros H; cbn [src_sum]; [lia|].
  specialize (IH (all_pos_tail _ _ H)). pose proof (H i' j' a (or_introl eq_refl)). destruct (Nat.eqb i' i); lia.
Qed.
Lemma snk_sum_nonneg sol j : all_pos sol -> 0 <= snk_sum sol j.
Proof.
  induction sol as [|[[i' j'] a] r IH]; intros H; cbn [snk_sum]; [lia|].
  specialize (IH (all_pos_tail _ _ H)). pose proof (H i' j' a (or_introl eq_refl)). destruct (Nat.eqb j' j); lia.
Qed.

Lemma mat_le_src sol j i : all_pos sol -> mat sol j i <= src_sum sol i.
Proof.
  induction sol as [|[[i' j'] a] r IH]; intros H; cbn [mat src_sum]; [lia|].
  specialize (IH (all_pos_tail _ _ H)). pose proof (H i' j' a (or_introl eq_refl)).
  destruct (Nat.eqb i' i); destruct (Nat.eqb j' j); cbn [andb]; lia.
Qed.
Lemma mat_le_snk sol j i : all_pos sol -> mat sol j i <= snk_sum sol j.
Proof.
  induction sol as [|[[i' j'] a] r IH]; intros H; cbn [mat snk_sum]; [lia|].
  specialize (IH (all_pos_tail _ _ H)). pose proof (H i' j' a (or_introl eq_refl)).
  destruct (Nat.eqb i' i); destruct (Nat.eqb j' j); cbn [andb]; lia.
Qed.

Section Bridge.
Variable pb : prob.
Hypothesis C : checked pb.
Notation so := (mk_sorter pb).
Notation P := (convert so pb).
Notation SO := (srcOrder so).
Notation KO := (snkOrder so).
Notation N := (nb_sources pb).
Notation M := (nb_sinks pb).

Lemma SO_spec : NoDup SO /\ forall k, In k SO <-> (k < N)%nat /\ 0 < zn (pb_s pb) k.
Proof. exact (order_spec (pb_u pb) (pb_s pb) (c_ls _ C)). Qed.
Lemma KO_spec : NoDup KO /\ forall k, In k KO <-> (k < M)%nat /\ 0 < zn (pb_d pb) k.
Proof. exact (order_spec (pb_v pb) (pb_d pb) (c_ld _ C)). Qed.

Lemma P_sizes : n_src P = length SO /\ n_snk P = length KO.
Proof. exact (convert_sizes pb). Qed.

Lemma P_cost k l : (k < length SO)%nat -> (l < length KO)%nat -> cost P k l = pcost pb (nn KO l) (nn SO k).
Proof.
  intros Hk Hl. unfold cost, pcost, convert. cbn [su sv]. rewrite !zn_map_nn by assumption. reflexivity.
Qed.

Definition Xof (sol : list triple) (k l : nat) : Z := mat sol (nn KO l) (nn SO k).

Section Plan.
Variable sol : list triple.
Hypothesis V : valid_plan pb sol.

Lemma V_pos : all_pos sol.
Proof. destruct V as (V1 & _). intros i j a H. apply V1 in H. tauto. Qed.
Lemma V_range : in_range pb sol.
Proof. destruct V as (V1 & _). intros i j a H. apply V1 in H. tauto. Qed.

Lemma mat_zero_src i j : (i < N)%nat -> ~ In i SO -> mat sol j i = 0.
Proof.
  intros Hi Hn. destruct V as (V1 & V2 & V3). destruct SO_spec as [_ I1].
  pose proof (mat_le_src sol j i V_pos). pose proof (mat_nonneg sol j i V_pos).
  rewrite (V2 i Hi) in H.
  assert (0 <= zn (pb_s pb) i) by (apply (c_s _ C), zn_In; rewrite (c_ls _ C); exact Hi).
  assert (~ 0 < zn (pb_s pb) i) by (intros Hp; apply Hn, I1; auto). lia.
Qed.

Lemma mat_zero_snk i j : (j < M)%nat -> ~ In j KO -> mat sol j i = 0.
Proof.
  intros Hj Hn. destruct V as (V1 & V2 & V3). destruct KO_spec as [_ I2].
  pose proof (mat_le_snk sol j i V_pos). pose proof (mat_nonneg sol j i V_pos). specialize (V3 j Hj).
  assert (~ 0 < zn (pb_d pb) j) by (intros Hp; apply Hn, I2; auto). lia.
Qed.

Lemma sum_over_SO (f : nat -> Z) : (forall i, (i < N)%nat -> ~ In i SO -> f i = 0) ->
  zsum f (seq 0 N) = zsum (fun k => f (nn SO k)) (seq 0 (length SO)).
Proof.
  intros Hz. destruct SO_spec as [N1 I1]. rewrite (zsum_subset f N SO N1); [apply zsum_nth| |exact Hz].
  intros k Hk. apply I1 in Hk. tauto.
Qed.
Lemma sum_over_KO (f : nat -> Z) : (forall j, (j < M)%nat -> ~ In j KO -> f j = 0) ->
  zsum f (seq 0 M) = zsum (fun l => f (nn KO l)) (seq 0 (length KO)).
Proof.
  intros Hz. destruct KO_spec as [N2 I2]. rewrite (zsum_subset f M KO N2); [apply zsum_nth| |exact Hz].
  intros k Hk. apply I2 in Hk. tauto.
Qed.

Lemma plan_mat_cost : mat_cost P (Xof sol) = plan_cost pb sol.
Proof.
  destruct P_sizes as [Zn Zm].
  rewrite <- (cost_mat pb sol V_range). unfold LpCert.cost, srcs, snks, mat_cost. rewrite Zn, Zm.
  rewrite (sum_over_KO (fun j => zsum (fun i => pcost pb j i * mat sol j i) (seq 0 N))).
  2:{ intros j Hj Hn. apply zsum_all_zero. intros i _. rewrite (mat_zero_snk i j Hj Hn). lia. }
  rewrite zsum_swap. apply zsum_ext. intros l Hl. apply in_seq in Hl.
  rewrite (sum_over_SO (fun i => pcost pb (nn KO l) i * mat sol (nn KO l) i)).
  2:{ intros i Hi Hn. rewrite (mat_zero_src i _ Hi Hn). lia. }
  apply zsum_ext. intros k Hk. apply in_seq in Hk. unfold Xof. rewrite P_cost by lia. reflexivity.
Qed.

Lemma plan_feasible : feasible_mat P (Xof sol).
Proof.
  destruct P_sizes as [Zn Zm]. destruct V as (V1 & V2 & V3).
  destruct SO_spec as [N1 I1]. destruct KO_spec as [N2 I2].
  split; [|split].
  - intros k l _ _. apply mat_nonneg. apply V_pos.
  - intros k Hk. rewrite Zn in Hk. rewrite Zm.
    assert (Hi0 : (nn SO k < N)%nat) by (apply I1, nn_in; exact Hk).
    pose proof (sum_over_KO (fun j => mat sol j (nn SO k))) as Q. cbv beta in Q. unfold Xof. rewrite <- Q.
    + pose proof (sent_mat pb sol (nn SO k) V_range) as E. unfold sent, snks in E. rewrite E, (V2 _ Hi0).
      symmetry. apply (convert_ss pb k Hk).
    + intros j Hj Hn. apply mat_zero_snk; assumption.
  - intros l Hl. rewrite Zm in Hl. rewrite Zn.
    assert (Hj0 : (nn KO l < M)%nat) by (apply I2, nn_in; exact Hl).
    pose proof (sum_over_SO (fun i => mat sol (nn KO l) i)) as Q. cbv beta in Q. unfold Xof. rewrite <- Q.
    + pose proof (load_mat pb sol (nn KO l) V_range) as E. unfold load, srcs in E. rewrite E.
      specialize (V3 _ Hj0). pose proof (convert_sd pb l Hl) as Ed. cbv zeta in Ed. lia.
    + intros i Hi Hn. apply mat_zero_src; assumption.
Qed.
End Plan.
End Bridge.
