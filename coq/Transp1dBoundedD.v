(* C14 -- bounded optimality, box D: 1..3 sources, 1..3 sinks, positions 0..1, supplies 0..2, demands 0..2.
   On every problem of the box that passes check(), the plan returned by the model of solve() is accepted by the proved
   certificate checker (Transp1dCert.cert_ok), hence valid and of minimum cost.  vm_compute only; the boxes are sized so
   that coqchk (about 6x slower than the VM on these casts) re-checks all four in a few minutes. *)
From Coq Require Import List ZArith Bool.
Import ListNotations.
Require Import CV.Transp1d CV.Transp1dCert.
Local Open Scope Z_scope.

Lemma box_d_ok : forall_probs_upto 3 3 [0;1] [0;1;2] [0;1;2] bounded_ok = true.
Proof. vm_compute. reflexivity. Qed.
