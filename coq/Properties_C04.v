(* C04 -- row polarity and orientation constraints are honoured.
   Models: Orient.v (the three tables of parameters.cpp; tied EXHAUSTIVELY to the C++
   by ./check C04), Circuit.v (`prescribed`: the documentation of CellRowPolarity
   transcribed independently; orient_ok / orient_okb), Legalizer.v. *)
From Coq Require Import List ZArith Lia Bool.
Import ListNotations.
Require Import CV.Orient CV.FreeSpace CV.Circuit CV.OrientProofs CV.Legalizer CV.LegalizerProofs CV.LegalizerAbacusProofs CV.LegalizerSoundProofs.
Local Open Scope Z_scope.

(* [F, finite; for NW and SE this compares the code with a transcription of the code: `prescribed`
   (Circuit.v) reproduces cellOrientationInRow including its TODO choice, while the documentation
   (coloquinte.hpp) speaks of an alternating series starting with N or W and, for an even number of
   rows, of every other row only -- clauses that are specified nowhere here.  The specification is
   therefore "the code's table, read on the bottom row only"]
   the code's table is the documented one: SAME = the row's orientation,
   OPPOSITE = N<->FS, S<->FN, E<->FW, W<->FE, NW only on N/FN/W/FW rows, SE only on
   S/FS/E/FE rows, ANY = keep (UNKNOWN); forbidden rows give INVALID *)
Theorem c04_table_matches_doc : forall p r,
  match prescribed p r with
  | None => cell_orientation_in_row p r = oINVALID
  | Some None => cell_orientation_in_row p r = oUNKNOWN
  | Some (Some o) => cell_orientation_in_row p r = o
  end.
Proof. exact table_matches_doc. Qed.

(* [F] a prescribed orientation on a real row is a real orientation *)
Theorem c04_prescribed_is_real : forall p r o,
  r <> oINVALID -> r <> oUNKNOWN -> prescribed p r = Some (Some o) -> o <> oINVALID /\ o <> oUNKNOWN.
Proof. exact prescribed_real. Qed.

(* [F] the boolean checker run on every exposed placement of the C++ decides exactly
   the statement: polarised movable cells have the prescribed orientation of the row
   their bottom edge sits on (never INVALID), cells without polarity keep theirs *)
Theorem c04_orient_okb_decides : forall before after,
  orient_okb before after = true <-> orient_ok before after.
Proof. exact orient_okb_correct. Qed.

(* [F] legalization leaves polarity, sizes and flags alone (so that "the polarity" of a
   cell after the call is the one it declared) *)
Theorem c04_legalize_keeps_polarity : forall c order c',
  legalize_circuit c order = LegOk c' -> rows c' = rows c /\ Forall2 same_frame (cells c) (cells c').
Proof. exact legalize_circuit_frame. Qed.

(* [F on the stated domain; P for C04 as a whole] orientation after legalization, RAW model,
   every cell order: on circuits of the domain std_design (rows of one positive height,
   pairwise disjoint, not turned; movable cells of positive width, height a positive
   multiple of the row height, not turned unless without polarity) whose rows have a known
   orientation and where rows sharing a bottom edge have the same orientation, every
   movable cell with a polarity ends with the documented orientation of the row under its
   bottom-left corner (never INVALID) and every cell without polarity keeps its own.
   The last hypothesis cannot be dropped: c04_sidebyside_orientation_refuted.  It is also
   validated on every case of the correspondence (orient_okb on the model's and the C++'s
   result). *)
Theorem c04_legalize_circuit_orient_ok : forall c order c' rh,
  std_design c rh -> (forall r, In r (rows c) -> ro r <> oUNKNOWN) -> row_orient_by_y c ->
  legalize_circuit c order = LegOk c' -> orient_ok c c'.
Proof. exact legalize_circuit_orient_ok. Qed.

(* [F on the stated domain] the same without any assumption on side-by-side rows when every
   movable cell is exactly one row high (only the Abacus pass places cells: the orientation
   comes from the very segment the cell sits in) *)
Theorem c04_legalize_circuit_rowhigh_orient_ok : forall c order c' rh,
  rowhigh_design c rh -> (forall r, In r (rows c) -> ro r <> oUNKNOWN) ->
  legalize_circuit c order = LegOk c' -> orient_ok c c'.
Proof. exact legalize_circuit_rowhigh_orient_ok. Qed.

(* [R] two rows side by side with different orientations (N | S, then FS | FN above) and a
   cell two rows high with polarity SAME: the Tetris pass reads the orientation from the
   first segment at the cell's bottom y (TetrisLegalizer: getOrientation(cell,
   closestRow(y))) and not from the segment the cell is put on; the returned placement is
   legal but the cell sits on the S row with orientation N (the C++ returns the same:
   harness case `LG 4 0 10 0 2 0 10 20 0 2 1 0 10 2 4 5 10 20 2 4 4 1 14 0 3 4 0 1 0 1 0 0 0 0 3 0`
   gives `OK 14 0 0`) *)
Theorem c04_sidebyside_orientation_refuted :
  exists c', std_design w_sidebyside 2 /\ (forall r, In r (rows w_sidebyside) -> ro r <> oUNKNOWN) /\
             legalize_circuit w_sidebyside [0%nat] = LegOk c' /\ legal c' /\ orient_okb w_sidebyside c' = false.
Proof. exact sidebyside_orientation_refuted. Qed.

(* non-vacuity of the two circuit-level theorems: a circuit of the domain (alternating
   N / FS rows) with a SAME, an OPPOSITE and an ANY cell, one of them two rows high *)
Definition ex_c04_circuit : circuit :=
  {| rows := [ {| rr := {| minX := 0; maxX := 10; minY := 0; maxY := 2 |}; ro := oN |};
               {| rr := {| minX := 0; maxX := 10; minY := 2; maxY := 4 |}; ro := oFS |} ];
     cells := [ {| c_x := 3; c_y := 1; c_w := 2; c_h := 4; c_o := oFN; c_pol := pSAME; c_fixed := false; c_obs := true |};
                {| c_x := 5; c_y := 3; c_w := 3; c_h := 2; c_o := oS; c_pol := pOPPOSITE; c_fixed := false; c_obs := true |};
                {| c_x := 5; c_y := 3; c_w := 2; c_h := 3; c_o := oW; c_pol := pANY; c_fixed := false; c_obs := true |} ] |}.
Example c04_legalize_circuit_nonvacuous :
  std_design ex_c04_circuit 2 /\ (forall r, In r (rows ex_c04_circuit) -> ro r <> oUNKNOWN) /\
  row_orient_by_y ex_c04_circuit /\
  exists c', legalize_circuit ex_c04_circuit [0%nat; 1%nat; 2%nat] = LegOk c' /\
             map c_o (cells c') <> map c_o (cells ex_c04_circuit).
Proof.
  split; [|split; [|split]].
  - split; [lia|]. split; [|split; [|split]].
    + intros r [<-|[<-|[]]]; reflexivity.
    + apply CircuitProofs.pairwise_disjointb_spec. vm_compute. reflexivity.
    + intros r [<-|[<-|[]]]; reflexivity.
    + intros k Hk. vm_compute in Hk. destruct Hk as [<-|[<-|[<-|[]]]].
      * split; [vm_compute; reflexivity|]. split; [exists 2%nat; split; [lia|vm_compute; reflexivity]|left; reflexivity].
      * split; [vm_compute; reflexivity|]. split; [exists 1%nat; split; [lia|vm_compute; reflexivity]|left; reflexivity].
      * split; [vm_compute; reflexivity|]. split; [exists 1%nat; split; [lia|vm_compute; reflexivity]|right; reflexivity].
  - intros r [<-|[<-|[]]]; discriminate.
  - intros r r' [<-|[<-|[]]] [<-|[<-|[]]]; cbn; intros H; try reflexivity; discriminate.
  - eexists. split; [vm_compute; reflexivity|]. vm_compute. intros H. discriminate H.
Qed.


(* [F] C04 for the Abacus pass of the RAW model, every list of row segments, every list
   of cells of positive width: a placed cell lies in a segment r of its height (the one
   it was recorded in, index i of sort_rows rows0) and its orientation is
   get_orientation of that segment: never INVALID, the cell's own for polarity ANY, the
   table entry whenever the table prescribes one *)
Theorem c04_abacus_orientation_valid : forall rows0 cells,
  widths_positive cells ->
  let rows := sort_rows rows0 in
  let rcs := abacus_rowcells rows0 cells in
  forall ci c x y o, nth_error cells ci = Some c ->
    nth_error (abacus_run rows0 cells) ci = Some (Some (x, y, o)) ->
    exists i r rc, nth_error rows i = Some r /\ nth_error rcs i = Some rc /\ In ci rc /\
                   in_segment r c x y /\
                   get_orientation rows c (Z.of_nat i) = Some o /\ o <> oINVALID /\
                   (cpol c = pANY -> o = cor c) /\
                   (cell_orientation_in_row (cpol c) (ro r) <> oUNKNOWN ->
                    o = cell_orientation_in_row (cpol c) (ro r)) /\
                   o = seg_orientation c r.
Proof. exact abacus_orientation_valid. Qed.

(* [F] the same against the documented table `prescribed` (transcribed independently of
   the code): a polarised cell placed in a segment of known orientation has exactly the
   documented orientation of that segment, which is not a forbidden one *)
Theorem c04_abacus_orientation_prescribed : forall rows0 cells,
  widths_positive cells ->
  let rows := sort_rows rows0 in
  let rcs := abacus_rowcells rows0 cells in
  forall ci c x y o, nth_error cells ci = Some c ->
    nth_error (abacus_run rows0 cells) ci = Some (Some (x, y, o)) ->
    exists i r rc, nth_error rows i = Some r /\ nth_error rcs i = Some rc /\ In ci rc /\
                   in_segment r c x y /\
                   (cpol c = pANY -> o = cor c) /\
                   (cpol c <> pANY -> ro r <> oUNKNOWN ->
                    prescribed (cpol c) (ro r) = Some (Some o) /\ o <> oINVALID).
Proof. exact abacus_orientation_prescribed. Qed.

(* non-vacuity: SAME on an N row, ANY (kept S), NW on an N row, OPPOSITE on an FS row
   (gets N), SAME on an FS row; the NW cell was refused by the FS segments *)
Example c04_abacus_nonvacuous :
  let segs := [ {| rr := {| minX := 6; maxX := 12; minY := 2; maxY := 4 |}; ro := oFS |};
                {| rr := {| minX := 0; maxX := 5; minY := 0; maxY := 2 |}; ro := oN |};
                {| rr := {| minX := 0; maxX := 4; minY := 2; maxY := 4 |}; ro := oFS |} ] in
  let cs := [ {| cw := 3; ch := 2; cpol := pSAME; ctx := 1; cty := 0; cor := oN |};
              {| cw := 3; ch := 2; cpol := pANY; ctx := 1; cty := 0; cor := oS |};
              {| cw := 2; ch := 2; cpol := pNW; ctx := 7; cty := 3; cor := oN |};
              {| cw := 4; ch := 2; cpol := pOPPOSITE; ctx := 8; cty := 2; cor := oN |};
              {| cw := 2; ch := 2; cpol := pSAME; ctx := 9; cty := 2; cor := oN |} ] in
  widths_positive cs /\
  abacus_run segs cs = [Some (0, 0, oN); Some (1, 2, oS); Some (3, 0, oN); Some (6, 2, oN); Some (10, 2, oFS)].
Proof. split; [repeat constructor|vm_compute; reflexivity]. Qed.

Example c04_nonvacuous :
  cell_orientation_in_row pOPPOSITE oFN = oS /\ cell_orientation_in_row pNW oS = oINVALID /\
  prescribed pSE oFS = Some (Some oFS).
Proof. repeat split. Qed.

Print Assumptions c04_table_matches_doc.
Print Assumptions c04_prescribed_is_real.
Print Assumptions c04_orient_okb_decides.
Print Assumptions c04_legalize_keeps_polarity.
Print Assumptions c04_abacus_orientation_valid.
Print Assumptions c04_abacus_orientation_prescribed.
Print Assumptions c04_legalize_circuit_orient_ok.
Print Assumptions c04_legalize_circuit_rowhigh_orient_ok.
Print Assumptions c04_sidebyside_orientation_refuted.

(* ====================================================================================== *)
(* C04 for DETAILED PLACEMENT: the row data structure of DetailedPlacement (Moves.v, tied to the
   C++ by ./check C02: exact comparison of the whole structure, orientations included, after every
   operation) and the orientation invariant of MovesOrientProofs.v.
     OInvM s            every cell placed in a row r has, whenever the table entry
                        cell_orientation_in_row (p_pol c) (dr_o r) is not UNKNOWN, exactly that
                        orientation, and the entry is not INVALID (the row is not forbidden);
     hist_allowed s ops the RAW place operations of the history (MPlace: the C++ primitive place(),
                        guarded only by canPlace = room in the site) target a row that is allowed
                        for the cell; swap / insert / unplace need no hypothesis: canSwap /
                        canInsert test rowAllowed (the repair of finding F7);
     anykey c           (id, width, polarity, orientation if the polarity is ANY). *)
Require Import CV.Moves CV.MovesProofs CV.MovesOrientProofs.
From Coq Require Import Permutation.

(* [F] the boolean checker used on the driven states decides the invariant *)
Theorem c04_oinvb_decides : forall s, oinvb s = true <-> OInvM s.
Proof. exact oinvb_spec. Qed.

(* [F] each operation whose guard holds keeps the invariant: swap and insert by their own guards,
   unplace and the shift pass unconditionally, the raw place when the row is allowed for the cell *)
Theorem c04_each_move_keeps_orientation : forall s,
  OInvM s ->
  (forall c1 c2 s', swap s c1 c2 = Some s' -> OInvM s') /\
  (forall c rowi pred s', insert s c rowi pred = Some s' -> OInvM s') /\
  (forall c s', unplace s c = Some s' -> OInvM s') /\
  (forall c rowi pred x s', place_allowed s c rowi = true -> place s c rowi pred x = Some s' -> OInvM s') /\
  (forall xs, OInvM (apply_shift s xs)).
Proof.
  intros s HI. split; [|split; [|split; [|split]]].
  - intros c1 c2 s' H. eapply swap_oinv; eassumption.
  - intros c rowi pred s' H. eapply insert_oinv; eassumption.
  - intros c s' H. exact (proj1 (unplace_oinv _ _ _ HI H)).
  - intros c rowi pred x s' HA H. eapply place_oinv; eassumption.
  - intros xs. apply shift_oinv. exact HI.
Qed.

(* [F] hence every history of swap / insert / unplace / place operations (performed when their
   guard holds, refused otherwise) whose raw place operations are allowed keeps the invariant *)
Theorem c04_moves_keep_orientation : forall ops s,
  OInvM s -> hist_allowed s ops -> OInvM (run_mops s ops).
Proof. exact run_mops_oinv. Qed.

(* [F] in particular every history made of swap / insert / unplace only, with ARBITRARY arguments *)
Theorem c04_guarded_moves_keep_orientation : forall ops s,
  OInvM s -> forallb no_raw_place ops = true -> OInvM (run_mops s ops).
Proof. exact run_mops_oinv_guarded. Qed.

(* [F] and every history mixing these moves with shift passes (ANY vector of new positions) *)
Theorem c04_moves_and_shifts_keep_orientation : forall ops s,
  OInvM s -> dhist_allowed s ops -> OInvM (run_dops s ops).
Proof. exact run_dops_oinv. Qed.

(* [F] what the invariant says against the DOCUMENTED table (Circuit.prescribed, transcribed from
   coloquinte.hpp independently of the code): a polarised cell placed in a row of known orientation
   has exactly the documented orientation of that row, which is a real orientation; the row is not
   a forbidden one *)
Theorem c04_moves_orientation_prescribed : forall s r c,
  OInvM s -> In r (d_rows s) -> In c (dr_cells r) ->
  p_pol c <> pANY -> dr_o r <> oUNKNOWN -> dr_o r <> oINVALID ->
  prescribed (p_pol c) (dr_o r) = Some (Some (p_o c)) /\ p_o c <> oINVALID /\ p_o c <> oUNKNOWN.
Proof. exact oinv_prescribed. Qed.

Theorem c04_moves_never_on_forbidden_row : forall s r c,
  OInvM s -> In r (d_rows s) -> In c (dr_cells r) -> row_allowed (p_pol c) r = true.
Proof. exact oinv_row_allowed. Qed.

(* [F] cells without polarity keep the orientation they had -- NO hypothesis on the history (raw
   place included, guards or not): the multiset of (id, width, polarity, orientation-if-ANY) over
   all cells, placed or not, is the same after every history of moves and shifts *)
Theorem c04_moves_any_cells_keep_orientation : forall ops s,
  Permutation (map anykey (cells_of s)) (map anykey (cells_of (run_dops s ops))).
Proof. exact run_dops_keys. Qed.

Theorem c04_moves_any_cell_reads : forall ops s c',
  In c' (cells_of (run_dops s ops)) -> p_pol c' = pANY ->
  exists c, In c (cells_of s) /\ p_id c = p_id c' /\ p_w c = p_w c' /\ p_pol c = pANY /\ p_o c = p_o c'.
Proof. exact any_cells_keep_orientation. Qed.

(* [R] the hypothesis on raw place operations cannot be dropped: place() itself does not test
   rowAllowed; an NW cell placed on an FS row gets INVALID (this was finding F7 when canSwap /
   canInsert / the reordering write-back let it happen) *)
Theorem c04_raw_place_unguarded_refuted :
  OInvM f7_state /\ mop_allowed f7_state (MPlace 0 0 None 3) = false /\
  exists s', apply_mop f7_state (MPlace 0 0 None 3) = Some s' /\
             map (fun r => map p_o (dr_cells r)) (d_rows s') = [[oINVALID]] /\ ~ OInvM s'.
Proof. exact place_unguarded_refuted. Qed.

(* non-vacuity: SAME, NW cells on an N row; OPPOSITE, SAME, ANY cells on an FS row.  The cross-row
   swap of the NW cell is refused, the one of the SAME cell is performed (both cells change
   orientation), the OPPOSITE cell is inserted in the N row (N -> FS), the ANY cell moves to the N
   row and keeps W; the invariant holds before and after, computed. *)
Definition ex_c04_state : dstate :=
  {| d_rows := [ {| dr_min := 0; dr_max := 12; dr_y := 0; dr_o := oN;
                    dr_cells := [ {| p_id := 0; p_x := 0; p_w := 2; p_pol := pSAME; p_o := oN |};
                                  {| p_id := 1; p_x := 3; p_w := 2; p_pol := pNW; p_o := oN |} ] |};
                 {| dr_min := 0; dr_max := 12; dr_y := 1; dr_o := oFS;
                    dr_cells := [ {| p_id := 2; p_x := 1; p_w := 2; p_pol := pOPPOSITE; p_o := oN |};
                                  {| p_id := 3; p_x := 5; p_w := 2; p_pol := pSAME; p_o := oFS |};
                                  {| p_id := 4; p_x := 8; p_w := 1; p_pol := pANY; p_o := oW |} ] |} ];
     d_loose := [] |}.
Definition ex_c04_ops : list mop := [MSwap 1 3; MSwap 0 3; MInsert 2 0 (Some 1%nat); MInsert 4 0 (Some 2%nat)].
Example c04_moves_nonvacuous :
  OInvM ex_c04_state /\ hist_allowed ex_c04_state ex_c04_ops /\
  can_swap ex_c04_state 1 3 = Some false /\ can_swap ex_c04_state 0 3 = Some true /\
  can_insert ex_c04_state 1 1 None = Some false /\
  map (fun r => map (fun c => (p_id c, p_o c)) (dr_cells r)) (d_rows (run_mops ex_c04_state ex_c04_ops))
  = [ [(3%nat, oN); (1%nat, oN); (2%nat, oFS); (4%nat, oW)]; [(0%nat, oFS)] ] /\
  oinvb (run_mops ex_c04_state ex_c04_ops) = true.
Proof.
  split; [apply oinvb_spec; vm_compute; reflexivity|].
  split; [apply no_raw_place_allowed; reflexivity|].
  vm_compute. repeat split; reflexivity.
Qed.

Print Assumptions c04_oinvb_decides.
Print Assumptions c04_each_move_keeps_orientation.
Print Assumptions c04_moves_keep_orientation.
Print Assumptions c04_guarded_moves_keep_orientation.
Print Assumptions c04_moves_and_shifts_keep_orientation.
Print Assumptions c04_moves_orientation_prescribed.
Print Assumptions c04_moves_never_on_forbidden_row.
Print Assumptions c04_moves_any_cells_keep_orientation.
Print Assumptions c04_moves_any_cell_reads.
Print Assumptions c04_raw_place_unguarded_refuted.

(* ======================================================================================== *)
(* C04 for the CIRCUIT exposed by detailed placement (composition; definitions and hypotheses as explained in
   Properties_C02.v, last part): DetailedExport.write_back = DetailedPlacement::exportPlacement *)
Require Import CV.DetailedInit CV.DetailedInitProofs CV.DetailedExport CV.DetailedExportProofs.
(* [F on the stated domain, rows of known orientation] C04 for the exposed circuit: with the
   orientations legalization leaves (orient_ok before c: a HYPOTHESIS, supplied by
   c04_legalize_circuit_orient_ok only under row_orient_by_y or for row-high designs; for multi-row
   polarised cells, which detailed placement does not move, the conclusion is this hypothesis copied
   over -- check() accepts a cell already INVALID on a forbidden row) and every history whose raw place
   operations target a row allowed for the cell (dhist_allowed: a hypothesis on the history, the C++ place()
   has no polarity guard; swap / insert need nothing).  Histories with a reorder pass are not covered
   here (internal state only: c02_closed_reordering_keeps_orientation).  No non-vacuity Example is
   stated for this theorem, for c04_legalize_circuit_rowhigh_orient_ok or for c04_legalize_real_*.
   Conclusion: every polarised
   movable cell of the exposed circuit has the documented orientation of the row under its bottom-left
   corner, never INVALID, and every cell without polarity has the orientation it had in `before` *)
Theorem c04_write_back_orient_ok : forall before c rh s ops,
  std_design c rh -> (forall r, In r (rows c) -> ro r <> oUNKNOWN) -> legal c -> orient_ok before c ->
  from_circuit c = DOk s -> dshifts_ok s ops -> dhist_allowed s ops -> d_loose (run_dops s ops) = [] ->
  orient_ok before (write_back c (run_dops s ops)).
Proof. exact write_back_orient_ok. Qed.

Theorem c04_write_back_orient_ok_optimiser_moves : forall before c rh s ops,
  std_design c rh -> (forall r, In r (rows c) -> ro r <> oUNKNOWN) -> legal c -> orient_ok before c ->
  from_circuit c = DOk s -> forallb closed_dop ops = true -> dshifts_ok s ops ->
  orient_ok before (write_back c (run_dops s ops)).
Proof. exact write_back_orient_ok_closed. Qed.
Print Assumptions c04_write_back_orient_ok.
Print Assumptions c04_write_back_orient_ok_optimiser_moves.

(* ======================================================================================== *)
(* C04 for the CLOSED model of DetailedPlacer::legalize (cell order computed by CellOrder.cell_order, see Properties_C01.v) *)
From Coq Require Import QArith.
Require Import CV.CellOrder CV.CellOrderProofs.
Local Open Scope Z_scope.
(* [F on the domain of c04_legalize_circuit_orient_ok] orientation clause for the closed model *)
Theorem c04_legalize_real_orient_ok : forall p c c' rh,
  std_design c rh -> (forall r, In r (rows c) -> ro r <> oUNKNOWN) -> row_orient_by_y c ->
  legalize_real p c = LegOk c' -> orient_ok c c'.
Proof. exact legalize_real_orient_ok. Qed.

Theorem c04_legalize_real_rowhigh_orient_ok : forall p c c' rh,
  rowhigh_design c rh -> (forall r, In r (rows c) -> ro r <> oUNKNOWN) ->
  legalize_real p c = LegOk c' -> orient_ok c c'.
Proof. exact legalize_real_rowhigh_orient_ok. Qed.

Print Assumptions c04_legalize_real_orient_ok.
Print Assumptions c04_legalize_real_rowhigh_orient_ok.
