(* C04 -- row polarity and orientation constraints are honoured.
   Models: Orient.v (the three tables of parameters.cpp; tied EXHAUSTIVELY to the C++
   by ./check C04), Circuit.v (`prescribed`: the documentation of CellRowPolarity
   transcribed independently; orient_ok / orient_okb), Legalizer.v. *)
From Coq Require Import List ZArith Lia Bool.
Import ListNotations.
Require Import CV.Orient CV.FreeSpace CV.Circuit CV.OrientProofs CV.Legalizer CV.LegalizerProofs.
Local Open Scope Z_scope.

(* [F, finite] the code's table is the documented one: SAME = the row's orientation,
   OPPOSITE = N<->FS, S<->FN, E<->FW, W<->FE, NW only on N/FN/W/FW rows, SE only on
   S/FS/E/FE rows, ANY = keep (UNKNOWN); forbidden rows give INVALID *)
Theorem c04_table_matches_doc : forall p r,
  match prescribed p r with
  | None => cell_orientation_in_row p r = oINVALID
  | Some None => cell_orientation_in_row p r = oUNKNOWN
  | Some (Some o) => cell_orientation_in_row p r = o
  end.
Proof. exact table_matches_doc. Qed.

(* [F] a prescribed orientation on a real row is a real orientation *)
Theorem c04_prescribed_is_real : forall p r o,
  r <> oINVALID -> r <> oUNKNOWN -> prescribed p r = Some (Some o) -> o <> oINVALID /\ o <> oUNKNOWN.
Proof. exact prescribed_real. Qed.

(* [F] the boolean checker run on every exposed placement of the C++ decides exactly
   the statement: polarised movable cells have the prescribed orientation of the row
   their bottom edge sits on (never INVALID), cells without polarity keep theirs *)
Theorem c04_orient_okb_decides : forall before after,
  orient_okb before after = true <-> orient_ok before after.
Proof. exact orient_okb_correct. Qed.

(* [F] legalization leaves polarity, sizes and flags alone (so that "the polarity" of a
   cell after the call is the one it declared) *)
Theorem c04_legalize_keeps_polarity : forall c order c',
  legalize_circuit c order = LegOk c' -> rows c' = rows c /\ Forall2 same_frame (cells c) (cells c').
Proof. exact legalize_circuit_frame. Qed.

(* [P] orientation after legalization.  Full statement (NOT proved for the raw model):
     legalize_circuit c order = LegOk c' -> orient_ok c c'
   (for circuits whose rows are pairwise disjoint).  It is validated on every case of
   the correspondence: orient_okb is evaluated on the model's and on the C++'s result. *)

Example c04_nonvacuous :
  cell_orientation_in_row pOPPOSITE oFN = oS /\ cell_orientation_in_row pNW oS = oINVALID /\
  prescribed pSE oFS = Some (Some oFS).
Proof. repeat split. Qed.

Print Assumptions c04_table_matches_doc.
Print Assumptions c04_prescribed_is_real.
Print Assumptions c04_orient_okb_decides.
Print Assumptions c04_legalize_keeps_polarity.
