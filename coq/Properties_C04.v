(* C04 -- row polarity and orientation constraints are honoured.
   Models: Orient.v (the three tables of parameters.cpp; tied EXHAUSTIVELY to the C++
   by ./check C04), Circuit.v (`prescribed`: the documentation of CellRowPolarity
   transcribed independently; orient_ok / orient_okb), Legalizer.v. *)
From Coq Require Import List ZArith Lia Bool.
Import ListNotations.
Require Import CV.Orient CV.FreeSpace CV.Circuit CV.OrientProofs CV.Legalizer CV.LegalizerProofs CV.LegalizerAbacusProofs CV.LegalizerSoundProofs.
Local Open Scope Z_scope.

(* [F, finite] the code's table is the documented one: SAME = the row's orientation,
   OPPOSITE = N<->FS, S<->FN, E<->FW, W<->FE, NW only on N/FN/W/FW rows, SE only on
   S/FS/E/FE rows, ANY = keep (UNKNOWN); forbidden rows give INVALID *)
Theorem c04_table_matches_doc : forall p r,
  match prescribed p r with
  | None => cell_orientation_in_row p r = oINVALID
  | Some None => cell_orientation_in_row p r = oUNKNOWN
  | Some (Some o) => cell_orientation_in_row p r = o
  end.
Proof. exact table_matches_doc. Qed.

(* [F] a prescribed orientation on a real row is a real orientation *)
Theorem c04_prescribed_is_real : forall p r o,
  r <> oINVALID -> r <> oUNKNOWN -> prescribed p r = Some (Some o) -> o <> oINVALID /\ o <> oUNKNOWN.
Proof. exact prescribed_real. Qed.

(* [F] the boolean checker run on every exposed placement of the C++ decides exactly
   the statement: polarised movable cells have the prescribed orientation of the row
   their bottom edge sits on (never INVALID), cells without polarity keep theirs *)
Theorem c04_orient_okb_decides : forall before after,
  orient_okb before after = true <-> orient_ok before after.
Proof. exact orient_okb_correct. Qed.

(* [F] legalization leaves polarity, sizes and flags alone (so that "the polarity" of a
   cell after the call is the one it declared) *)
Theorem c04_legalize_keeps_polarity : forall c order c',
  legalize_circuit c order = LegOk c' -> rows c' = rows c /\ Forall2 same_frame (cells c) (cells c').
Proof. exact legalize_circuit_frame. Qed.

(* [F on the stated domain; P for C04 as a whole] orientation after legalization, RAW model,
   every cell order: on circuits of the domain std_design (rows of one positive height,
   pairwise disjoint, not turned; movable cells of positive width, height a positive
   multiple of the row height, not turned unless without polarity) whose rows have a known
   orientation and where rows sharing a bottom edge have the same orientation, every
   movable cell with a polarity ends with the documented orientation of the row under its
   bottom-left corner (never INVALID) and every cell without polarity keeps its own.
   The last hypothesis cannot be dropped: c04_sidebyside_orientation_refuted.  It is also
   validated on every case of the correspondence (orient_okb on the model's and the C++'s
   result). *)
Theorem c04_legalize_circuit_orient_ok : forall c order c' rh,
  std_design c rh -> (forall r, In r (rows c) -> ro r <> oUNKNOWN) -> row_orient_by_y c ->
  legalize_circuit c order = LegOk c' -> orient_ok c c'.
Proof. exact legalize_circuit_orient_ok. Qed.

(* [F on the stated domain] the same without any assumption on side-by-side rows when every
   movable cell is exactly one row high (only the Abacus pass places cells: the orientation
   comes from the very segment the cell sits in) *)
Theorem c04_legalize_circuit_rowhigh_orient_ok : forall c order c' rh,
  rowhigh_design c rh -> (forall r, In r (rows c) -> ro r <> oUNKNOWN) ->
  legalize_circuit c order = LegOk c' -> orient_ok c c'.
Proof. exact legalize_circuit_rowhigh_orient_ok. Qed.

(* [R] two rows side by side with different orientations (N | S, then FS | FN above) and a
   cell two rows high with polarity SAME: the Tetris pass reads the orientation from the
   first segment at the cell's bottom y (TetrisLegalizer: getOrientation(cell,
   closestRow(y))) and not from the segment the cell is put on; the returned placement is
   legal but the cell sits on the S row with orientation N (the C++ returns the same:
   harness case `LG 4 0 10 0 2 0 10 20 0 2 1 0 10 2 4 5 10 20 2 4 4 1 14 0 3 4 0 1 0 1 0 0 0 0 3 0`
   gives `OK 14 0 0`) *)
Theorem c04_sidebyside_orientation_refuted :
  exists c', std_design w_sidebyside 2 /\ (forall r, In r (rows w_sidebyside) -> ro r <> oUNKNOWN) /\
             legalize_circuit w_sidebyside [0%nat] = LegOk c' /\ legal c' /\ orient_okb w_sidebyside c' = false.
Proof. exact sidebyside_orientation_refuted. Qed.

(* non-vacuity of the two circuit-level theorems: a circuit of the domain (alternating
   N / FS rows) with a SAME, an OPPOSITE and an ANY cell, one of them two rows high *)
Definition ex_c04_circuit : circuit :=
  {| rows := [ {| rr := {| minX := 0; maxX := 10; minY := 0; maxY := 2 |}; ro := oN |};
               {| rr := {| minX := 0; maxX := 10; minY := 2; maxY := 4 |}; ro := oFS |} ];
     cells := [ {| c_x := 3; c_y := 1; c_w := 2; c_h := 4; c_o := oFN; c_pol := pSAME; c_fixed := false; c_obs := true |};
                {| c_x := 5; c_y := 3; c_w := 3; c_h := 2; c_o := oS; c_pol := pOPPOSITE; c_fixed := false; c_obs := true |};
                {| c_x := 5; c_y := 3; c_w := 2; c_h := 3; c_o := oW; c_pol := pANY; c_fixed := false; c_obs := true |} ] |}.
Example c04_legalize_circuit_nonvacuous :
  std_design ex_c04_circuit 2 /\ (forall r, In r (rows ex_c04_circuit) -> ro r <> oUNKNOWN) /\
  row_orient_by_y ex_c04_circuit /\
  exists c', legalize_circuit ex_c04_circuit [0%nat; 1%nat; 2%nat] = LegOk c' /\
             map c_o (cells c') <> map c_o (cells ex_c04_circuit).
Proof.
  split; [|split; [|split]].
  - split; [lia|]. split; [|split; [|split]].
    + intros r [<-|[<-|[]]]; reflexivity.
    + apply CircuitProofs.pairwise_disjointb_spec. vm_compute. reflexivity.
    + intros r [<-|[<-|[]]]; reflexivity.
    + intros k Hk. vm_compute in Hk. destruct Hk as [<-|[<-|[<-|[]]]].
      * split; [vm_compute; reflexivity|]. split; [exists 2%nat; split; [lia|vm_compute; reflexivity]|left; reflexivity].
      * split; [vm_compute; reflexivity|]. split; [exists 1%nat; split; [lia|vm_compute; reflexivity]|left; reflexivity].
      * split; [vm_compute; reflexivity|]. split; [exists 1%nat; split; [lia|vm_compute; reflexivity]|right; reflexivity].
  - intros r [<-|[<-|[]]]; discriminate.
  - intros r r' [<-|[<-|[]]] [<-|[<-|[]]]; cbn; intros H; try reflexivity; discriminate.
  - eexists. split; [vm_compute; reflexivity|]. vm_compute. intros H. discriminate H.
Qed.


(* [F] C04 for the Abacus pass of the RAW model, every list of row segments, every list
   of cells of positive width: a placed cell lies in a segment r of its height (the one
   it was recorded in, index i of sort_rows rows0) and its orientation is
   get_orientation of that segment: never INVALID, the cell's own for polarity ANY, the
   table entry whenever the table prescribes one *)
Theorem c04_abacus_orientation_valid : forall rows0 cells,
  widths_positive cells ->
  let rows := sort_rows rows0 in
  let rcs := abacus_rowcells rows0 cells in
  forall ci c x y o, nth_error cells ci = Some c ->
    nth_error (abacus_run rows0 cells) ci = Some (Some (x, y, o)) ->
    exists i r rc, nth_error rows i = Some r /\ nth_error rcs i = Some rc /\ In ci rc /\
                   in_segment r c x y /\
                   get_orientation rows c (Z.of_nat i) = Some o /\ o <> oINVALID /\
                   (cpol c = pANY -> o = cor c) /\
                   (cell_orientation_in_row (cpol c) (ro r) <> oUNKNOWN ->
                    o = cell_orientation_in_row (cpol c) (ro r)) /\
                   o = seg_orientation c r.
Proof. exact abacus_orientation_valid. Qed.

(* [F] the same against the documented table `prescribed` (transcribed independently of
   the code): a polarised cell placed in a segment of known orientation has exactly the
   documented orientation of that segment, which is not a forbidden one *)
Theorem c04_abacus_orientation_prescribed : forall rows0 cells,
  widths_positive cells ->
  let rows := sort_rows rows0 in
  let rcs := abacus_rowcells rows0 cells in
  forall ci c x y o, nth_error cells ci = Some c ->
    nth_error (abacus_run rows0 cells) ci = Some (Some (x, y, o)) ->
    exists i r rc, nth_error rows i = Some r /\ nth_error rcs i = Some rc /\ In ci rc /\
                   in_segment r c x y /\
                   (cpol c = pANY -> o = cor c) /\
                   (cpol c <> pANY -> ro r <> oUNKNOWN ->
                    prescribed (cpol c) (ro r) = Some (Some o) /\ o <> oINVALID).
Proof. exact abacus_orientation_prescribed. Qed.

(* non-vacuity: SAME on an N row, ANY (kept S), NW on an N row, OPPOSITE on an FS row
   (gets N), SAME on an FS row; the NW cell was refused by the FS segments *)
Example c04_abacus_nonvacuous :
  let segs := [ {| rr := {| minX := 6; maxX := 12; minY := 2; maxY := 4 |}; ro := oFS |};
                {| rr := {| minX := 0; maxX := 5; minY := 0; maxY := 2 |}; ro := oN |};
                {| rr := {| minX := 0; maxX := 4; minY := 2; maxY := 4 |}; ro := oFS |} ] in
  let cs := [ {| cw := 3; ch := 2; cpol := pSAME; ctx := 1; cty := 0; cor := oN |};
              {| cw := 3; ch := 2; cpol := pANY; ctx := 1; cty := 0; cor := oS |};
              {| cw := 2; ch := 2; cpol := pNW; ctx := 7; cty := 3; cor := oN |};
              {| cw := 4; ch := 2; cpol := pOPPOSITE; ctx := 8; cty := 2; cor := oN |};
              {| cw := 2; ch := 2; cpol := pSAME; ctx := 9; cty := 2; cor := oN |} ] in
  widths_positive cs /\
  abacus_run segs cs = [Some (0, 0, oN); Some (1, 2, oS); Some (3, 0, oN); Some (6, 2, oN); Some (10, 2, oFS)].
Proof. split; [repeat constructor|vm_compute; reflexivity]. Qed.

Example c04_nonvacuous :
  cell_orientation_in_row pOPPOSITE oFN = oS /\ cell_orientation_in_row pNW oS = oINVALID /\
  prescribed pSE oFS = Some (Some oFS).
Proof. repeat split. Qed.

Print Assumptions c04_table_matches_doc.
Print Assumptions c04_prescribed_is_real.
Print Assumptions c04_orient_okb_decides.
Print Assumptions c04_legalize_keeps_polarity.
Print Assumptions c04_abacus_orientation_valid.
Print Assumptions c04_abacus_orientation_prescribed.
Print Assumptions c04_legalize_circuit_orient_ok.
Print Assumptions c04_legalize_circuit_rowhigh_orient_ok.
Print Assumptions c04_sidebyside_orientation_refuted.
