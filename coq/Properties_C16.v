(* C16 -- Density bins account for all free area and every cell is in one bin.
   Model: Density.v (computeSubdivisions, DensityGrid, HierarchicalDensityPlacement, the integer parts of
   DensityLegalizer, spreadCells over Q); free row segments: FreeSpace.v (C15).  Every float-valued
   decision of the rough legalizer (cost order, split position, transportation assignment) is an
   argument of the model, and the theorems hold for all of its values: the legalization passes are the
   relational step `Redist` (any reassignment of the cells of the touched bins among those bins).
   Labels: [F] proved for all inputs of the stated domain.  Tie to /repo: ./check C16. *)
From Coq Require Import List ZArith Lia Bool Arith Permutation QArith.
Import ListNotations.
Require Import CV.Orient CV.FreeSpace CV.Density CV.DensityProofs CV.DensityUpdate CV.DensityUpdateProofs.
Local Open Scope Z_scope.

(* ---------------------------------------------------------------- 1. the bins tile the placement area *)

(* [F] computeSubdivisions(min,max,n): n+1 limits, first = min, last = max, non-decreasing; strictly
   increasing iff there are at most max-min bins (C++ truncating division) *)
Theorem c16_subdivisions_tile : forall mn mx n, mn <= mx -> 1 <= n ->
  length (subdivisions mn mx n) = S (Z.to_nat n) /\ hdZ (subdivisions mn mx n) = mn /\ lastZ (subdivisions mn mx n) = mx /\
  chainZ (subdivisions mn mx n) /\ (n <= mx - mn -> schainZ (subdivisions mn mx n)).
Proof. exact subdivisions_tile. Qed.

(* [F] the bin limits of DensityGrid(binSize, regions) run from the bounding box's min to its max without
   gap or overlap (consecutive limits are shared); no empty bin when binSize >= 1 and the area has extent *)
Theorem c16_grid_limits_tile : forall bs regs, Forall proper regs ->
  let g := make_grid bs regs in let a := placement_area regs in
  (hdZ (limX g) = minX a /\ lastZ (limX g) = maxX a /\ chainZ (limX g) /\ (1 <= bs -> 1 <= rwidth a -> schainZ (limX g))) /\
  (hdZ (limY g) = minY a /\ lastZ (limY g) = maxY a /\ chainZ (limY g) /\ (1 <= bs -> 1 <= rheight a -> schainZ (limY g))).
Proof. exact grid_limits_tile. Qed.

(* ---------------------------------------------------------------- 2. capacity = free area *)

(* [F] updateBinCapacity(regions): the capacity of bin (i,j) is the sum of the areas of region /\ bin *)
Theorem c16_bin_capacity_is_region_area : forall bs regs i j px py, Forall proper regs ->
  let g := make_grid bs regs in
  nth_error (pairs (limX g)) i = Some px -> nth_error (pairs (limY g)) j = Some py ->
  nth_error2 (gcap g) i j = Some (sumZ (map (fun r => inter_area r (bin_region px py)) regs)).
Proof. exact bin_capacity_is_region_area. Qed.

(* [F] for pairwise disjoint regions that sum counts every unit site of the bin covered by a region once:
   capacity = number of free unit sites in the bin *)
Theorem c16_bin_capacity_counts_free_sites : forall bs regs i j px py, Forall proper regs -> disjoint_regions regs ->
  let g := make_grid bs regs in
  nth_error (pairs (limX g)) i = Some px -> nth_error (pairs (limY g)) j = Some py ->
  nth_error2 (gcap g) i j = Some (count_sites (covered regs) (bin_region px py)).
Proof. exact bin_capacity_counts_free_sites. Qed.

(* [F] the bins together hold exactly the area of the regions (nothing lost at bin borders, nothing outside) *)
Theorem c16_total_capacity_is_region_area : forall bs regs, Forall proper regs ->
  total_capacity (make_grid bs regs) = sumZ (map rarea regs).
Proof. exact total_capacity_is_region_area. Qed.

(* [F] fromIspdCircuit's side margin: a unit site counts iff it lies in a row segment wider than two
   margins, at least `margin` from both ends; clipping keeps regions proper and disjoint *)
Theorem c16_side_margin_sites : forall margin rows x y,
  covered (clip_rows margin rows) x y = true <->
  exists r, In r rows /\ 2 * margin < rwidth r /\ minX r + margin <= x < maxX r - margin /\ minY r <= y < maxY r.
Proof. exact clip_rows_sites. Qed.

(* [F] with C15 (FreeSpace.v): for a circuit with pairwise disjoint rows the capacity of a bin is the number of
   its unit sites inside a free row segment (row minus fixed obstructions) after the side margin *)
Theorem c16_circuit_bin_capacity_counts_free_sites : forall bs margin rows cells i j px py,
  0 <= margin -> disjoint_regions (map rr rows) ->
  let segs := map rr (compute_rows_circuit rows [] cells) in
  let g := grid_of_circuit bs margin rows cells in
  nth_error (pairs (limX g)) i = Some px -> nth_error (pairs (limY g)) j = Some py ->
  nth_error2 (gcap g) i j = Some (count_sites (covered (clip_rows margin segs)) (bin_region px py)).
Proof. exact circuit_bin_capacity_counts_free_sites. Qed.

(* [F] finding F28, repaired fromIspdCircuit (density_grid.cpp:45-51): when NO free row segment survives the clipping
   (rows covered by fixed obstructions, or only pieces not wider than twice the margin left) the grid has the limits of
   the grid over the bounding box R of the circuit's rows (Circuit::computePlacementArea) and every bin has capacity 0
   -- which is the number of free sites: c16_circuit_bin_capacity_counts_free_sites above holds in this case too.
   Before the repair the grid was make_grid bs []: one empty bin at the origin *)
Theorem c16_circuit_grid_without_free_space : forall bs margin rows cells,
  clip_rows margin (map rr (compute_rows_circuit rows [] cells)) = [] ->
  let g := grid_of_circuit bs margin rows cells in
  let R := placement_area (map rr rows) in
  limX g = limX (make_grid bs [R]) /\ limY g = limY (make_grid bs [R]) /\
  total_capacity g = 0 /\
  (forall i j px py, nth_error (pairs (limX g)) i = Some px -> nth_error (pairs (limY g)) j = Some py ->
     nth_error2 (gcap g) i j = Some 0).
Proof. exact circuit_grid_without_free_space. Qed.

(* [F] ... and its limits tile R without gap or overlap (strictly increasing when bs >= 1 and R has extent) *)
Theorem c16_circuit_grid_without_free_space_tile : forall bs margin rows cells, Forall proper (map rr rows) ->
  clip_rows margin (map rr (compute_rows_circuit rows [] cells)) = [] ->
  let g := grid_of_circuit bs margin rows cells in
  let R := placement_area (map rr rows) in
  (hdZ (limX g) = minX R /\ lastZ (limX g) = maxX R /\ chainZ (limX g) /\ (1 <= bs -> 1 <= rwidth R -> schainZ (limX g))) /\
  (hdZ (limY g) = minY R /\ lastZ (limY g) = maxY R /\ chainZ (limY g) /\ (1 <= bs -> 1 <= rheight R -> schainZ (limY g))).
Proof. exact circuit_grid_without_free_space_tile. Qed.

(* ---------------------------------------------------------------- 3. the hierarchy of views *)

(* [F] the grid of EVERY circuit (with or without free space) has a well-formed hierarchy, and every history of
   refine/coarsen/Redistribute steps on it keeps the partition invariant (c16_partition_invariant is the same statement
   for make_grid bs regs, which the grid of a circuit without free space is not) *)
Theorem c16_circuit_grid_hierarchy_exists : forall bs margin rows cells,
  exists h, make_hier (grid_of_circuit bs margin rows cells) = Some h /\
            hgrid h = grid_of_circuit bs margin rows cells /\ hier_wf h.
Proof. exact circuit_grid_hierarchy_exists. Qed.

Theorem c16_circuit_partition_invariant : forall bs margin rows cells d ops h s',
  make_hier (grid_of_circuit bs margin rows cells) = Some h ->
  run_ops h (length d) (init_state h d) ops = Some s' -> inv h d s' /\ partition_okb h d s' = true.
Proof. exact circuit_partition_invariant. Qed.

(* [F] setupHierarchy terminates within its fuel on every grid and yields a well-formed hierarchy *)
Theorem c16_hierarchy_exists : forall bs regs,
  exists h, make_hier (make_grid bs regs) = Some h /\ hgrid h = make_grid bs regs /\ hier_wf h.
Proof. exact grid_hierarchy_exists. Qed.

(* [F] every level's index limits are 0 = l0 < l1 < ... = nb; the coarsest level is the single bin; each
   level is refine() of the next coarser one; the parent map of a level lists every coarse bin once or
   twice, in order (runs), so every fine bin has a parent and every coarse bin a first child *)
Theorem c16_hierarchy_levels : forall nb L P, (1 <= nb)%nat -> levels_ok nb L P ->
  Forall (limits_ok nb) L /\ length L = length P /\
  nth_error L (length L - 1) = Some [0%nat; nb] /\ nth_error P (length P - 1) = Some [0%nat] /\
  (forall l lc, nth_error L (S l) = Some lc ->
     nth_error L l = Some (fst (refine_limits lc)) /\ nth_error P l = Some (snd (refine_limits lc))) /\
  (forall l lc, nth_error L (S l) = Some lc -> exists lf ps, nth_error L l = Some lf /\ nth_error P l = Some ps /\
     length ps = (length lf - 1)%nat /\ runs 0 (length lc - 1) ps /\ (forall q, In q ps -> (q < length lc - 1)%nat)).
Proof. exact hierarchy_levels. Qed.

(* [F] the limits of every view are defined (no index error), run from the area's min to its max, are sorted
   (strictly if the fine ones are) ... *)
Theorem c16_level_limits_tile : forall fine nb L P lvl, (1 <= nb)%nat -> levels_ok nb L P -> length fine = S nb -> chainZ fine ->
  (lvl < length L)%nat ->
  exists vs, level_limits fine L lvl = Some vs /\
    hdZ vs = hdZ fine /\ lastZ vs = lastZ fine /\ chainZ vs /\ (schainZ fine -> schainZ vs).
Proof. exact level_limits_tile. Qed.

(* [F] ... and are among the limits of the next finer view (coarse bins are unions of finer bins) *)
Theorem c16_level_limits_nested : forall fine nb L P lvl vc vf, (1 <= nb)%nat -> levels_ok nb L P ->
  level_limits fine L (S lvl) = Some vc -> level_limits fine L lvl = Some vf -> forall v, In v vc -> In v vf.
Proof. exact level_limits_nested. Qed.

(* [F] binCapacity(x,y) of any view = total area of the regions inside that view's bin *)
Theorem c16_level_capacity_is_region_area : forall bs regs h lx ly M LX LY x y px py, Forall proper regs ->
  let g := make_grid bs regs in
  make_hier g = Some h ->
  level_cap h lx ly = Some M -> level_limits (limX g) (xlim h) lx = Some LX -> level_limits (limY g) (ylim h) ly = Some LY ->
  nth_error (pairs LX) x = Some px -> nth_error (pairs LY) y = Some py ->
  nth_error2 M x y = Some (sumZ (map (fun r => inter_area r (bin_region px py)) regs)).
Proof. exact level_capacity_is_region_area. Qed.

(* [F] the bins of every view together hold the total capacity *)
Theorem c16_level_total_capacity : forall bs regs h lx ly M,
  let g := make_grid bs regs in
  make_hier g = Some h -> level_cap h lx ly = Some M -> sumZ (map sumZ M) = total_capacity g.
Proof. exact level_total_capacity. Qed.

(* [F] coarser views aggregate capacity exactly: gathering the finer view's capacities by parentX (the very
   operator that coarsenX applies to the cell lists, with + for ++) gives the coarser view's capacities;
   this holds for every capacity matrix, so the children of a bin tile it *)
Theorem c16_coarse_capacity_aggregates_x : forall h lx ly M M' ps yi, hier_wf h ->
  level_cap h lx ly = Some M -> level_cap h (S lx) ly = Some M' ->
  nth_error (xpar h) lx = Some ps -> nth_error (ylim h) ly = Some yi ->
  coarsen_gen zipadd (repeat 0 (length yi - 1)) ps (length M') M = M'.
Proof. exact coarse_capacity_aggregates_x. Qed.

Theorem c16_coarse_capacity_aggregates_y : forall h lx ly M M' ps, hier_wf h ->
  level_cap h lx ly = Some M -> level_cap h lx (S ly) = Some M' ->
  nth_error (ypar h) ly = Some ps ->
  forall np, nbins_at (ylim h) (S ly) = Some np -> map (coarsen_gen Z.add 0 ps np) M = M'.
Proof. exact coarse_capacity_aggregates_y. Qed.

(* [F] findBinByX/Y: terminates within its fuel, never indexes outside, returns a valid bin, and the two
   assertions at its end hold; for sorted limits a coordinate inside the area is inside the returned bin *)
Theorem c16_find_bin_spec : forall lims coord, (2 <= length lims)%nat ->
  exists r, find_bin lims coord = Some r /\ (r < length lims - 1)%nat /\ brackets lims coord r (S r).
Proof. exact find_bin_spec. Qed.

Theorem c16_find_bin_inside : forall lims coord r lo hi, chainZ lims -> (2 <= length lims)%nat -> find_bin lims coord = Some r ->
  hdZ lims <= coord < lastZ lims -> nth_error lims r = Some lo -> nth_error lims (S r) = Some hi -> lo <= coord < hi.
Proof. exact find_bin_inside. Qed.

(* ---------------------------------------------------------------- 4. the partition invariant over all histories *)

(* [F] the constructor establishes it *)
Theorem c16_init_invariant : forall h d, hier_wf h -> inv h d (init_state h d).
Proof. exact init_inv. Qed.

(* [F] every step keeps it: refineX | refineY | coarsenX | coarsenY | Redistribute *)
Theorem c16_step_invariant : forall h d s o s', hier_wf h -> inv h d s -> step h (length d) s o = Some s' -> inv h d s'.
Proof. exact step_inv. Qed.

(* [F] hence every history, on every grid, for every demand vector (induction over the op list); the boolean
   checker used on the C++ states accepts the model's states.  NOTE: for the Redistribute operation this is true BY
   DEFINITION of its guard (redistribute requires perm_b (gather ..) (concat news), which is the partition condition):
   genuine content for refineX/Y and coarsenX/Y; of the float-driven passes only rebisect is proved to be a
   Redistribute step (c16_rebisect_is_redistribute); run / improve* / improveX/YTransport / reoptimize are tied only.
   make_grid at bs = 0: nb_bins uses Z.quot, the model yields one bin where the C++ divides by zero (domain 1 <= bs). *)
Theorem c16_partition_invariant : forall bs regs d ops h s',
  make_hier (make_grid bs regs) = Some h ->
  run_ops h (length d) (init_state h d) ops = Some s' -> inv h d s' /\ partition_okb h d s' = true.
Proof. exact partition_invariant_grid. Qed.

(* [F] what the invariant says cell by cell: a cell of positive demand is in exactly one bin, once, and
   cellBinX/Y name that bin ... *)
Theorem c16_positive_cell_in_exactly_one_bin : forall h d s c v,
  inv h d s -> nth_error d c = Some v -> 0 < v ->
  exists i j l, nth_error2 (bcells s) i j = Some l /\ cnt l c = 1%nat /\
    (forall i' j' l', nth_error2 (bcells s) i' j' = Some l' -> In c l' -> (i', j') = (i, j)) /\
    nth_error (cbx s) c = Some (Z.of_nat i) /\ nth_error (cby s) c = Some (Z.of_nat j).
Proof. exact inv_positive_cell_in_exactly_one_bin. Qed.

(* [F] ... a cell of zero (non-positive) demand is in no bin and cellBinX/Y are -1 *)
Theorem c16_zero_cell_in_no_bin : forall h d s c v,
  inv h d s -> nth_error d c = Some v -> v <= 0 ->
  (forall i j l, nth_error2 (bcells s) i j = Some l -> ~ In c l) /\
  nth_error (cbx s) c = Some (-1) /\ nth_error (cby s) c = Some (-1).
Proof. exact inv_nonpositive_cell_in_no_bin. Qed.

(* [F] the extracted checker evaluated on the C++ states IS the invariant *)
Theorem c16_partition_okb_correct : forall h d s, partition_okb h d s = true <-> inv h d s.
Proof. exact partition_okb_correct. Qed.

(* [F] the invariant fixes cellBinX/Y given the bins (so two states with the same bins are equal) *)
Theorem c16_inv_determines_maps : forall h d s s', inv h d s -> inv h d s' -> bcells s = bcells s' -> cbx s = cbx s' /\ cby s = cby s'.
Proof. exact inv_determines_maps. Qed.

(* ---------------------------------------------------------------- 5. the legalizer's passes are Redistribute steps *)

(* [F] rebisect, for EVERY cost order and ideal split position: the result of doSplit is a Redistribute of
   the two bins (its guard holds) *)
Theorem c16_rebisect_is_redistribute : forall d s x1 y1 x2 y2 b1 b2 sorted ideal capa1 capa2 n1 n2,
  (x1, y1) <> (x2, y2) ->
  nth_error2 (bcells s) x1 y1 = Some b1 -> nth_error2 (bcells s) x2 y2 = Some b2 ->
  Permutation sorted (b1 ++ b2) ->
  rebisect_split d sorted ideal capa1 capa2 = Some (n1, n2) ->
  exists s', redistribute s [(x1, y1); (x2, y2)] [n1; n2] = Some s'.
Proof. exact rebisect_is_redistribute. Qed.

(* [F] findConstrainedSplitPos terminates within its fuel and stays within the cell list *)
Theorem c16_find_constrained_split_range : forall dem target c1 c2, (target <= length dem)%nat ->
  exists k, find_constrained_split dem target c1 c2 = Some k /\ (k <= length dem)%nat.
Proof. exact find_constrained_split_range. Qed.

(* [F] reoptimize / improveX/YTransport, for EVERY assignment whose entries are bin indices (the range
   statement of C13/C14): the reallocation loop hands back exactly the cells it gathered.  This is only "the
   concatenation is a permutation"; it is NOT `redistribute s T news = Some _` (no NoDup / bins_valid, and the
   cleared zero-capacity bins of reoptimize are not part of it). *)
Theorem c16_reallocate_preserves_cells : forall nb cells assignment,
  length cells = length assignment -> (forall a, In a assignment -> (a < nb)%nat) ->
  perm_b cells (concat (reallocate nb cells assignment)) = true.
Proof. exact reallocate_preserves_cells. Qed.

(* ---------------------------------------------------------------- 6. reported coordinates *)

(* [F, exact arithmetic] spreadCells over Q, for every sort order: each cell of positive demand gets a
   coordinate strictly inside its bin (the float evaluation is validated with a tolerance by ./check C16).  A
   stand-alone lemma for arbitrary (order, mn, mx): no theorem connects it to a state of the hierarchy (cells of
   bin (i,j) of a view, limits = level_limits): that link is OCaml glue; simpleCoord, binX/Y, groupCenter have no
   theorem. *)
Theorem c16_spread_inside : forall order mn mx c x,
  (forall p, In p order -> (0 <= snd p)%Q) -> (0 < sumQ (map snd order))%Q -> (mn < mx)%Q ->
  In (c, x) (spread_cells order mn mx) -> (mn < x /\ x < mx)%Q.
Proof. exact spread_inside. Qed.

(* ---------------------------------------------------------------- 7. demand updates (DensityUpdate.v) *)

(* [F] updateCellDemand(circuit): the guard refuses exactly when some demand changes to or from zero ... *)
Theorem c16_update_refused_iff : forall d d', length d = length d' ->
  (same_zero_status d d' = false <->
   exists c v v', nth_error d c = Some v /\ nth_error d' c = Some v' /\ ((v = 0 /\ v' <> 0) \/ (v <> 0 /\ v' = 0))).
Proof. exact update_refused_iff. Qed.

(* [F] ... a refused update leaves demands and allocation unchanged, an accepted one replaces the demands only *)
Theorem c16_update_refused_unchanged : forall h d s d', same_zero_status d d' = false ->
  ustep h (d, s) (Update d') = Some (d, s).
Proof. exact update_refused_unchanged. Qed.

Theorem c16_update_accepted : forall h d s d', same_zero_status d d' = true ->
  ustep h (d, s) (Update d') = Some (d', s).
Proof. exact update_accepted. Qed.

(* [F] the update keeps the partition invariant, for the demand vector in force afterwards (demands = areas >= 0) *)
Theorem c16_update_invariant : forall h d d' s, nonnegb d = true -> nonnegb d' = true -> inv h d s ->
  inv h (update_demand d d') s /\ nonnegb (update_demand d d') = true /\ length (update_demand d d') = length d.
Proof. exact update_inv. Qed.

(* [F] every history of refineX | refineY | coarsenX | coarsenY | Redistribute | Update, on every grid: the invariant
   and the checker hold for the final allocation WITH THE FINAL DEMANDS *)
Theorem c16_update_history_invariant : forall bs regs d ops h d' s',
  make_hier (make_grid bs regs) = Some h -> nonnegb d = true -> updates_nonneg ops ->
  run_uops h (d, init_state h d) ops = Some (d', s') ->
  inv h d' s' /\ partition_okb h d' s' = true /\ nonnegb d' = true /\ length d' = length d.
Proof. exact update_history_invariant. Qed.

(* [F] "zero-area cells to none" at the end of every such history *)
Theorem c16_update_history_zero_cell_in_no_bin : forall bs regs d ops h d' s' c,
  make_hier (make_grid bs regs) = Some h -> nonnegb d = true -> updates_nonneg ops ->
  run_uops h (d, init_state h d) ops = Some (d', s') -> nth_error d' c = Some 0 ->
  (forall i j l, nth_error2 (bcells s') i j = Some l -> ~ In c l) /\
  nth_error (cbx s') c = Some (-1) /\ nth_error (cby s') c = Some (-1).
Proof. exact update_history_zero_cell_in_no_bin. Qed.

(* [F] demands computed from a circuit (fixed ? 0 : width * height) with non-negative sizes are non-negative *)
Theorem c16_circuit_demands_nonneg : forall cells,
  (forall fx w h, In (fx, w, h) cells -> 0 <= w /\ 0 <= h) -> nonnegb (circuit_demands cells) = true.
Proof. exact circuit_demands_nonneg. Qed.

(* ---------------------------------------------------------------- non-vacuity *)

Definition ex_regs : list rect :=
  [ {| minX := 0; maxX := 7; minY := 0; maxY := 4 |}; {| minX := 9; maxX := 17; minY := 0; maxY := 4 |};
    {| minX := 2; maxX := 17; minY := 4; maxY := 8 |} ].
Definition ex_grid := make_grid 4 ex_regs.
Definition ex_demands : list Z := [3; 0; 5; 2; 7; 0; 1].

Example c16_ex_subdivisions : subdivisions 0 17 4 = [0; 4; 8; 12; 17] /\ subdivisions 3 5 4 = [3; 3; 4; 4; 5].
Proof. vm_compute. split; reflexivity. Qed.

Example c16_ex_grid : limX ex_grid = [0; 4; 8; 12; 17] /\ limY ex_grid = [0; 4; 8] /\
  gcap ex_grid = [[16; 8]; [12; 16]; [12; 16]; [20; 20]] /\ total_capacity ex_grid = 120 /\
  Forall proper ex_regs /\ disjoint_regions ex_regs.
Proof.
  repeat split; try (vm_compute; reflexivity); try (vm_compute; discriminate);
    try (repeat constructor; vm_compute; discriminate).
  all: intros r' x y Hin H1 H2; unfold inr in *; simpl in Hin;
    repeat (destruct Hin as [<-|Hin]; [simpl in *; rewrite !andb_true_iff in *; lia|]); destruct Hin.
Qed.

Example c16_ex_hierarchy : exists h, make_hier ex_grid = Some h /\
  xlim h = [[0; 1; 2; 3; 4]; [0; 2; 4]; [0; 4]]%nat /\ xpar h = [[0; 0; 1; 1]; [0; 0]; [0]]%nat /\
  ylim h = [[0; 1; 2]; [0; 2]]%nat /\
  level_cap h 1 0 = Some [[28; 24]; [32; 36]] /\ level_cap h 2 1 = Some [[120]] /\
  find_bin [0; 4; 8; 12; 17] 9 = Some 2%nat /\ find_bin [0; 4; 8; 12; 17] (-5) = Some 0%nat /\ find_bin [0; 4; 8; 12; 17] 17 = Some 3%nat.
Proof. eexists. vm_compute. repeat split; reflexivity. Qed.

(* a history with refinement, a Redistribute that moves cells across bins, coarsening: the result satisfies
   the checker, cells 0 2 3 4 6 are in bins, cells 1 5 (zero demand) are not *)
Example c16_ex_history : exists h s',
  make_hier ex_grid = Some h /\
  run_ops h 7 (init_state h ex_demands)
    [RefineX; RefineY; Redist [(0, 0); (1, 1); (1, 0)]%nat [[4; 0]; [2]; [6; 3]]%nat; RefineX; CoarsenY;
     Redist [(3, 0); (0, 0)]%nat [[0]; [4]]%nat; CoarsenX] = Some s' /\
  bcells s' = [[[4]]; [[6; 3; 2; 0]]]%nat /\ cbx s' = [1; -1; 1; 1; 0; -1; 1] /\ cby s' = [0; -1; 0; 0; 0; -1; 0] /\
  partition_okb h ex_demands s' = true.
Proof. eexists. eexists. vm_compute. repeat split; reflexivity. Qed.

(* a Redistribute that loses or duplicates a cell is not a step *)
Example c16_ex_redistribute_guard : exists h s,
  make_hier ex_grid = Some h /\ run_ops h 7 (init_state h ex_demands) [RefineX] = Some s /\
  redistribute s [(0, 0); (1, 0)]%nat [[0; 2]; [3; 4]]%nat = None /\
  redistribute s [(0, 0); (1, 0)]%nat [[0; 2; 6]; [3; 4; 6]]%nat = None /\
  redistribute s [(0, 0); (1, 0)]%nat [[0; 2; 6]; [3; 4]]%nat <> None.
Proof. eexists. eexists. vm_compute. repeat split; try reflexivity. discriminate. Qed.

Example c16_ex_rebisect :
  rebisect_split ex_demands [4; 2; 0; 6; 3]%nat 1 6 100 = Some ([], [4; 2; 0; 6; 3])%nat /\
  rebisect_split ex_demands [4; 2; 0; 6; 3]%nat 5 9 100 = Some ([4], [2; 0; 6; 3])%nat /\
  rebisect_split ex_demands [4; 2; 0; 6; 3]%nat 0 100 6 = Some ([4; 2], [0; 6; 3])%nat /\
  reallocate 3 [4; 2; 0; 6; 3]%nat [2; 0; 2; 1; 0]%nat = [[2; 3]; [6]; [4; 0]]%nat.
Proof. vm_compute. repeat split; reflexivity. Qed.

Example c16_ex_spread_values :
  map (fun p => (fst p, Qred (snd p))) (spread_cells [(2%nat, 5 # 1); (0%nat, 3 # 1); (5%nat, 0 # 1); (3%nat, 2 # 1)]%Q (4 # 1) (8 # 1))
  = [(2%nat, (5 # 1)%Q); (0%nat, (33 # 5)%Q); (3%nat, (38 # 5)%Q)].
Proof. vm_compute. reflexivity. Qed.

(* a history with updates: cell 2 grows (accepted), cell 3 shrinks to zero area (refused: nothing changes),
   cell 1 gets an area (refused), all demands rescaled (accepted); the checker holds with the final demands *)
Example c16_ex_update_history : exists h s',
  make_hier ex_grid = Some h /\
  circuit_demands [(false, 3, 1); (true, 4, 2); (false, 5, 1); (false, 1, 2); (false, 7, 1); (false, 0, 3); (false, 1, 1)] = ex_demands /\
  run_uops h (ex_demands, init_state h ex_demands)
    [Op RefineX; Update [3; 0; 9; 2; 7; 0; 1]; Op RefineY; Update [3; 0; 9; 0; 7; 0; 1]; Update [3; 4; 9; 2; 7; 0; 1];
     Op (Redist [(0, 0); (1, 1); (1, 0)]%nat [[4; 0]; [2]; [6; 3]]%nat); Update [6; 0; 18; 4; 14; 0; 2]; Op CoarsenX]
  = Some ([6; 0; 18; 4; 14; 0; 2], s') /\
  bcells s' = [[[4; 0; 6; 3]; [2]]]%nat /\
  same_zero_status [3; 0; 9; 2; 7; 0; 1] [3; 0; 9; 0; 7; 0; 1] = false /\
  partition_okb h [6; 0; 18; 4; 14; 0; 2] s' = true /\ partition_okb h [6; 0; 18; 0; 14; 0; 2] s' = false.
Proof. eexists. eexists. vm_compute. repeat split; reflexivity. Qed.

(* a circuit without free space: the first row is covered by an obstruction, of the second one a piece 17 wide remains,
   which the margin 9 removes.  The grid covers the rows' bounding box [50,150]x[20,40] in 4x1 bins of capacity 0; the
   hierarchy exists and a history on it satisfies the checker *)
Definition nf_rows := [ {| rr := {| minX := 50; maxX := 150; minY := 20; maxY := 30 |}; ro := Orient.oN |};
                        {| rr := {| minX := 50; maxX := 150; minY := 30; maxY := 40 |}; ro := Orient.oFS |} ].
Definition nf_cells : list (Z * Z * Z * Z * Orient.orient * bool * bool) :=
  [ (40, 15, 200, 15, Orient.oN, true, true); (67, 30, 90, 10, Orient.oN, true, true);
    (60, 20, 4, 10, Orient.oN, false, false) ].

Example c16_ex_without_free_space :
  clip_rows 9 (map rr (compute_rows_circuit nf_rows [] nf_cells)) = [] /\
  Forall proper (map rr nf_rows) /\ disjoint_regions (map rr nf_rows) /\
  grid_of_circuit 25 9 nf_rows nf_cells =
    {| limX := [50; 75; 100; 125; 150]; limY := [20; 40]; gcap := [[0]; [0]; [0]; [0]] |} /\
  exists h s', make_hier (grid_of_circuit 25 9 nf_rows nf_cells) = Some h /\
    run_ops h 3 (init_state h [40; 0; 12]) [RefineX; Redist [(0, 0); (1, 0)]%nat [[2]; [0]]%nat; RefineX] = Some s' /\
    bcells s' = [[[2]]; [[]]; [[0]]; [[]]]%nat /\ partition_okb h [40; 0; 12] s' = true.
Proof.
  split; [vm_compute; reflexivity|]. split; [repeat constructor; vm_compute; discriminate|]. split.
  - simpl. split; [|split; [|exact I]].
    + intros r' x y [<-|[]] H1 H2. unfold inr in *. simpl in *. rewrite !andb_true_iff in *. lia.
    + intros r' x y [].
  - split; [vm_compute; reflexivity|]. eexists. eexists. vm_compute. repeat split; reflexivity.
Qed.

Print Assumptions c16_subdivisions_tile.
Print Assumptions c16_grid_limits_tile.
Print Assumptions c16_bin_capacity_is_region_area.
Print Assumptions c16_bin_capacity_counts_free_sites.
Print Assumptions c16_total_capacity_is_region_area.
Print Assumptions c16_side_margin_sites.
Print Assumptions c16_circuit_bin_capacity_counts_free_sites.
Print Assumptions c16_circuit_grid_without_free_space.
Print Assumptions c16_circuit_grid_without_free_space_tile.
Print Assumptions c16_circuit_grid_hierarchy_exists.
Print Assumptions c16_circuit_partition_invariant.
Print Assumptions c16_hierarchy_exists.
Print Assumptions c16_hierarchy_levels.
Print Assumptions c16_level_limits_tile.
Print Assumptions c16_level_limits_nested.
Print Assumptions c16_level_capacity_is_region_area.
Print Assumptions c16_level_total_capacity.
Print Assumptions c16_coarse_capacity_aggregates_x.
Print Assumptions c16_coarse_capacity_aggregates_y.
Print Assumptions c16_find_bin_spec.
Print Assumptions c16_find_bin_inside.
Print Assumptions c16_init_invariant.
Print Assumptions c16_step_invariant.
Print Assumptions c16_partition_invariant.
Print Assumptions c16_positive_cell_in_exactly_one_bin.
Print Assumptions c16_zero_cell_in_no_bin.
Print Assumptions c16_partition_okb_correct.
Print Assumptions c16_inv_determines_maps.
Print Assumptions c16_rebisect_is_redistribute.
Print Assumptions c16_find_constrained_split_range.
Print Assumptions c16_reallocate_preserves_cells.
Print Assumptions c16_spread_inside.
Print Assumptions c16_update_refused_iff.
Print Assumptions c16_update_refused_unchanged.
Print Assumptions c16_update_accepted.
Print Assumptions c16_update_invariant.
Print Assumptions c16_update_history_invariant.
Print Assumptions c16_update_history_zero_cell_in_no_bin.
Print Assumptions c16_circuit_demands_nonneg.
