// C02/C03/C04/C05 harness: Circuit::legalize and Circuit::placeDetailed (with a recording callback) from /repo
//   detailed gen rand SEED COUNT MODE     MODE bits: 2 = no turned, 16 = no polarity, 4 = magnitude stream
//   detailed run < cases
//   (net weight code in <nets>: w2 >= 0 = weight w2/2, 0 included; w2 < 0 = weight 2^w2, see cgen.hpp)
// case: "DP <rows> <cells> <nets> effort custom nbPasses lsNeigh lsRows shiftRows shiftMax reordRows reordMax"
// result: "LEG <outcome><placement> ; hpwl || CB<placement> ; hpwl || ... || END <outcome><placement> ; hpwl ; frame"
//   frame = 1 when nothing but x/y/orientation of movable cells differs from the input circuit (checked field by field), else 0
#include "cgen.hpp"

static std::string outcome(const std::exception *e) { return e ? std::string("THROW ") + e->what() : std::string("OK"); }

static bool frameSame(const Circuit &a, const Circuit &b) {
  if (a.nbCells() != b.nbCells() || a.nbNets() != b.nbNets() || a.nbRows() != b.nbRows()) return false;
  if (a.cellWidth() != b.cellWidth() || a.cellHeight() != b.cellHeight() || a.cellIsFixed() != b.cellIsFixed() ||
      a.cellIsObstruction() != b.cellIsObstruction() || a.cellRowPolarity() != b.cellRowPolarity()) return false;
  for (int i = 0; i < a.nbCells(); ++i) if (a.isFixed(i) && (a.cellX()[i] != b.cellX()[i] || a.cellY()[i] != b.cellY()[i] || a.cellOrientation()[i] != b.cellOrientation()[i])) return false;
  for (int r = 0; r < a.nbRows(); ++r) { auto &x = a.rows()[r]; auto &y = b.rows()[r]; if (x.minX != y.minX || x.maxX != y.maxX || x.minY != y.minY || x.maxY != y.maxY || x.orientation != y.orientation) return false; }
  if (a.netLimits_ != b.netLimits_ || a.pinCells_ != b.pinCells_ || a.pinXOffsets_ != b.pinXOffsets_ || a.pinYOffsets_ != b.pinYOffsets_ || a.netWeights_ != b.netWeights_) return false;
  return true;
}

int main(int argc, char **argv) {
  std::string mode = argc > 1 ? argv[1] : "run";
  if (mode == "gen") {
    SplitMix g(strtoull(argv[3], nullptr, 10)); long long count = atoll(argv[4]); int m = argc > 5 ? atoi(argv[5]) : 0;
    for (long long it = 0; it < count; ++it) {
      GenOpts o; o.nets = true; o.utilLo = 20; o.utilHi = 95; o.maxCells = 14;
      // 2 circuits in 3: nets of weight 0 and of tiny weight (2^-1 .. 2^-140) among the others; Circuit::hpwl() counts every net
      if (it % 3) { o.zeroWeightPct = 25; o.tinyWeightPct = 10; }
      if (m & 2) o.turned = false; if (m & 16) o.polarity = false; if (m & 4) o.scale = 1LL << g.uni(4, 14);
      TCircuit t = genCircuit(g, o);
      int custom = g.coin(60);
      printf("DP %s %s %d %d %d %d %d %d %d %d %d\n", showRowsCells(t).c_str(), showNets(t).c_str(), (int)g.uni(1, 9), custom,
             (int)g.uni(0, 3), (int)g.uni(0, 5), (int)g.uni(0, 3), (int)g.uni(1, 5), (int)(g.coin(30) ? 0 : g.uni(2, 20)), (int)g.uni(1, 3), (int)(g.coin(30) ? 0 : g.uni(2, 4)));
    }
    return 0;
  }
  vh_install(); vh_silence();
  std::string line;
  while (std::getline(std::cin, line)) {
    if (line.size() < 3) { printf("\n"); continue; }
    IntReader r; r.v = vh_ints(line.substr(3));
    if (sigsetjmp(vh_jmp, 1)) { printf(" || %s\n", vh_signame()); fflush(stdout); continue; }
    try {
      TCircuit t = readRowsCells(r); readNets(r, t);
      int effort = r.nx(), custom = r.nx();
      ColoquinteParameters p(effort);
      int v[7]; for (int &x : v) x = r.nx();
      if (custom) { p.detailed.nbPasses = v[0]; p.detailed.localSearchNbNeighbours = v[1]; p.detailed.localSearchNbRows = v[2]; p.detailed.shiftNbRows = v[3]; p.detailed.shiftMaxNbCells = v[4]; p.detailed.reorderingNbRows = v[5]; p.detailed.reorderingMaxNbCells = v[6]; }
      else p.detailed.nbPasses = std::min(p.detailed.nbPasses, 3);
      Circuit orig = buildCircuit(t);
      {
        Circuit c = orig; std::string res;
        try { c.legalize(p); res = "OK"; } catch (std::exception &e) { res = outcome(&e); }
        printf("LEG %s ;%s ; %lld", res.c_str(), showPlacement(c).c_str(), c.hpwl());
      }
      fflush(stdout);
      {
        Circuit c = orig; std::string res;
        PlacementCallback cb = [&](PlacementStep) { printf(" || CB ;%s ; %lld", showPlacement(c).c_str(), c.hpwl()); };
        try { c.placeDetailed(p, cb); res = "OK"; } catch (std::exception &e) { res = outcome(&e); }
        printf(" || END %s ;%s ; %lld ; %d\n", res.c_str(), showPlacement(c).c_str(), c.hpwl(), (int)frameSame(orig, c));
      }
    } catch (std::exception &ex) { printf(" || THROW-OUTER %s\n", ex.what()); }
  }
  return 0;
}
