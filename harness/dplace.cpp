// C02 direct-drive harness: the row data structure DetailedPlacement from /repo under arbitrary op sequences
//   dplace gen rand SEED COUNT
//   dplace gen exh LEN           all swap/insert sequences of length LEN from a set of small initial placements
//   dplace run < cases
// case: "DM nrows (minX maxX y orient)* ncells (w x row pol orient)* nops (0 c1 c2 | 1 c row pred | 2 c | 3 c row pred x)*"
// result: per op "OK|NO <state>" joined by " / ";  state = rows ';'-separated, each "id:x:orient,..."; then "|" loose ids
// a case with the tag "DC" instead of "DM" (same payload) additionally prints after every state
// " # first=.. last=.. pred=.. next=.. row=.. x=.. y=.. orient=.." = the private index arrays
// rowFirstCell_/rowLastCell_/cellPred_/cellNext_/cellRow_/cellX_/cellY_/cellOrientation_ (compared with
// the concrete model coq/MovesConcrete.v)
#include "cgen.hpp"
#define private public
#include "place_detailed/detailed_placement.hpp"
#undef private

// rowCells() with a bound: a corrupted (cyclic) cellNext_ chain must not hang the harness
static std::vector<int> rowCellsBounded(const DetailedPlacement &p, int r, bool &cycle) {
  std::vector<int> ret;
  for (int c = p.rowFirstCell(r); c != -1; c = (c >= 0 && c < p.nbCells()) ? p.cellNext(c) : -1) {
    if ((int)ret.size() > p.nbCells()) { cycle = true; break; }
    ret.push_back(c);
    if (c < 0 || c >= p.nbCells()) { cycle = true; break; }
  }
  return ret;
}
static bool hasCycle(const DetailedPlacement &p) { bool cyc = false; for (int r = 0; r < p.nbRows(); ++r) rowCellsBounded(p, r, cyc); return cyc; }
static std::string state(const DetailedPlacement &p) {
  std::ostringstream s;
  for (int r = 0; r < p.nbRows(); ++r) {
    if (r) s << ";";
    bool f = true, cyc = false; std::vector<int> cells = rowCellsBounded(p, r, cyc);
    if (cyc) { s << "CYCLE"; continue; }
    for (int c : cells) { if (!f) s << ","; f = false; s << c << ":" << p.cellX(c) << ":" << (int)p.cellOrientation(c); }
  }
  s << "|"; for (int c = 0; c < p.nbCells(); ++c) if (!p.isPlaced(c)) s << c << " ";
  return s.str();
}
static std::string arrays(const DetailedPlacement &p) {
  std::ostringstream s;
  auto dump = [&](const char *n, const std::vector<int> &v) { s << " " << n << "="; for (size_t i = 0; i < v.size(); ++i) s << (i ? "," : "") << v[i]; };
  s << " #"; dump("first", p.rowFirstCell_); dump("last", p.rowLastCell_); dump("pred", p.cellPred_); dump("next", p.cellNext_);
  dump("row", p.cellRow_); dump("x", p.cellX_); dump("y", p.cellY_);
  s << " orient="; for (size_t i = 0; i < p.cellOrientation_.size(); ++i) s << (i ? "," : "") << (int)p.cellOrientation_[i];
  return s.str();
}
static int tableOrient(int pol, int ro) { return (int)cellOrientationInRow(kPol[pol], (CellOrientation)ro); }

struct Init { std::vector<std::array<long long, 4>> rows; std::vector<std::array<long long, 5>> cells; };
static Init genInit(SplitMix &g, int maxRows, int maxCells) {
  Init in; int nr = (int)g.uni(1, maxRows); long long y = g.uni(-2, 2);
  long long x = g.uni(-3, 3);
  for (int r = 0; r < nr; ++r) {
    long long len = g.uni(3, 10); int ro = (int[]){0, 1, 4, 5}[g.uni(0, 3)];
    in.rows.push_back({x, x + len, y, ro});
    if (g.coin(35)) { x += len + g.uni(0, 2); ro = in.rows.back()[3]; } else { y += 1; x = g.uni(-3, 3); }   // next segment on the same y, or a new y
  }
  // pack cells
  std::vector<long long> fill(nr); for (int r = 0; r < nr; ++r) fill[r] = in.rows[r][0];
  int nc = (int)g.uni(1, maxCells);
  for (int c = 0; c < nc; ++c) {
    long long w = g.uni(1, 3); int pol = g.coin(50) ? 0 : (int)g.uni(1, 4);
    for (int tries = 0; tries < 8; ++tries) {
      int r = (int)g.uni(0, nr - 1); long long gap = g.uni(0, 2);
      int to = tableOrient(pol, (int)in.rows[r][3]);
      if (to == 8) continue;
      if (fill[r] + gap + w <= in.rows[r][1]) { in.cells.push_back({w, fill[r] + gap, r, pol, to == 9 ? g.uni(0, 7) : to}); fill[r] += gap + w; break; }
    }
  }
  return in;
}
static void emit(const Init &in, const std::vector<std::vector<long long>> &ops) {
  printf("DM %zu", in.rows.size()); for (auto &r : in.rows) for (auto v : r) printf(" %lld", v);
  printf(" %zu", in.cells.size()); for (auto &c : in.cells) for (auto v : c) printf(" %lld", v);
  printf(" %zu", ops.size()); for (auto &o : ops) for (auto v : o) printf(" %lld", v);
  printf("\n");
}
static std::vector<std::vector<long long>> allOps(const Init &in) {
  std::vector<std::vector<long long>> r; int n = (int)in.cells.size(), nr = (int)in.rows.size();
  for (int a = 0; a < n; ++a) for (int b = 0; b < n; ++b) r.push_back({0, a, b});
  for (int a = 0; a < n; ++a) for (int row = 0; row < nr; ++row) for (int p = -1; p < n; ++p) r.push_back({1, a, row, p});
  return r;
}

int main(int argc, char **argv) {
  std::string mode = argc > 1 ? argv[1] : "run";
  if (mode == "gen" && std::string(argv[2]) == "rand") {
    SplitMix g(strtoull(argv[3], nullptr, 10)); long long count = atoll(argv[4]);
    for (long long it = 0; it < count; ++it) {
      Init in = genInit(g, 4, 7); int n = (int)in.cells.size(); if (n == 0) { --it; continue; }
      int nops = (int)g.uni(1, 10); std::vector<std::vector<long long>> ops;
      for (int k = 0; k < nops; ++k) {
        int t = (int)g.uni(0, 9);
        if (t < 4) ops.push_back({0, g.uni(0, n - 1), g.uni(0, n - 1)});
        else if (t < 8) ops.push_back({1, g.uni(0, n - 1), g.uni(0, (long long)in.rows.size() - 1), g.uni(-1, n - 1)});
        else if (t < 9) ops.push_back({2, g.uni(0, n - 1)});
        else ops.push_back({3, g.uni(0, n - 1), g.uni(0, (long long)in.rows.size() - 1), g.uni(-1, n - 1), g.uni(-4, 14)});
      }
      emit(in, ops);
    }
    return 0;
  }
  if (mode == "gen" && std::string(argv[2]) == "exh") {
    int len = atoi(argv[3]); SplitMix g(12345);
    for (int k = 0; k < (len >= 3 ? 6 : 40); ++k) {
      Init in = genInit(g, 2, len >= 3 ? 3 : 4); if (in.cells.size() < 2) { --k; continue; }
      auto ops = allOps(in);
      if (len == 1) for (auto &a : ops) emit(in, {a});
      else if (len == 2) for (auto &a : ops) for (auto &b : ops) emit(in, {a, b});
      else for (auto &a : ops) for (auto &b : ops) for (auto &c : ops) emit(in, {a, b, c});
    }
    return 0;
  }
  vh_install(); vh_silence();
  std::string line;
  while (std::getline(std::cin, line)) {
    if (line.size() < 3) { printf("\n"); continue; }
    IntReader r; r.v = vh_ints(line.substr(3)); const bool dc = line.compare(0, 2, "DC") == 0;
    if (sigsetjmp(vh_jmp, 1)) { printf(" / %s\n", vh_signame()); fflush(stdout); continue; }
    try {
      int nr = r.nx(); std::vector<Row> rows;
      for (int i = 0; i < nr; ++i) { int a = r.nx(), b = r.nx(), y = r.nx(), o = r.nx(); rows.emplace_back(a, b, y, y + 1, (CellOrientation)o); }
      int nc = r.nx(); std::vector<int> w(nc), x(nc), y(nc), idx(nc); std::vector<CellOrientation> ori(nc); std::vector<CellRowPolarity> pol(nc);
      for (int i = 0; i < nc; ++i) { w[i] = r.nx(); x[i] = r.nx(); int row = r.nx(); y[i] = rows[row].minY; pol[i] = kPol[r.nx()]; ori[i] = (CellOrientation)r.nx(); idx[i] = i; }
      DetailedPlacement p(rows, w, x, y, ori, pol, idx);
      int nops = r.nx(); std::string out = "INIT " + state(p) + (dc ? arrays(p) : std::string());
      auto predOk = [&](int row, int pred) { return pred == -1 || (pred >= 0 && pred < nc && p.isPlaced(pred) && p.cellRow(pred) == row); };
      for (int k = 0; k < nops; ++k) {
        int t = r.nx(); bool ok = false;
        try {
          if (t == 0) { int a = r.nx(), b = r.nx(); if (p.isPlaced(a) && p.isPlaced(b) && p.canSwap(a, b)) { p.swap(a, b); ok = true; } }
          else if (t == 1) { int a = r.nx(), row = r.nx(), pred = r.nx(); if (p.isPlaced(a) && predOk(row, pred) && p.canInsert(a, row, pred)) { p.insert(a, row, pred); ok = true; } }
          else if (t == 2) { int a = r.nx(); if (p.isPlaced(a)) { p.unplace(a); ok = true; } }
          else { int a = r.nx(), row = r.nx(), pred = r.nx(), xx = r.nx(); if (!p.isPlaced(a) && predOk(row, pred) && p.canPlace(a, row, pred, xx)) { p.place(a, row, pred, xx); ok = true; } }
        } catch (std::exception &e) { out += std::string(" / THROW ") + e.what(); continue; }
        out += std::string(" / ") + (ok ? "OK " : "NO ") + state(p) + (dc ? arrays(p) : std::string());
        // with every cell placed the code's own consistency check must pass
        bool all = true; for (int c = 0; c < nc; ++c) all = all && p.isPlaced(c);
        if (all) { if (hasCycle(p)) out += " CHECKFAIL cyclic cellNext_ chain"; else try { p.check(); } catch (std::exception &e) { out += std::string(" CHECKFAIL ") + e.what(); } }
      }
      printf("%s\n", out.c_str());
    } catch (std::exception &ex) { printf("THROW-OUTER %s\n", ex.what()); }
  }
  return 0;
}
