// C07 harness: the three placement entry points of /repo on circuits of the C07 domain; every case prints
// one line with the outcome of each stage; a crash / sanitizer report / abort kills the process (the python
// runner records the case it died on and resumes after it).
//   flow gen SEED COUNT STREAM     STREAM: 0 general small, 1 magnitude (|v| <= 2^22, cell area < 2^31), 2 degenerate shapes,
//                                  3 unit cells (rows of height 1-2, many 1x1 cells, bins filled to the brim, some movable cells of
//                                  zero area) with a callback that observes or RESIZES a cell / rescales the net weights mid-run,
//                                  6 circuits WITHOUT free capacity (every row covered by fixed obstructions: the "infeasible density" of
//                                  the domain pushed to the end; path of the repair of finding F28 in DensityGrid::fromIspdCircuit)
//                                  7 circuits whose detailed placer has NO free row segment after legalization (rows tiled exactly by movable
//                                  macros, no standard cell; fixed macros over everything else) or exactly ONE free segment,
//                                  8 rows holding 8..12 standard cells, reordering windows of 6..8 cells (case line ends with "rmax rrows")
//   flow run < cases
//   flow show EFFORT PSEED         prints the varied parameter set of a case
// case: "FL <rows> <cells> <nets> stages effort seed netmodel [cbmode cbk cbcell cbw [pseed [rmax rrows]]]"   stages bits: 1 global, 2 legalize, 4 detailed
//       rmax > 0: detailed.reorderingMaxNbCells = rmax, reorderingNbRows = rrows, nbPasses >= 1 (applied after the variation of pseed)
//       pseed != 0: the parameters of the effort are perturbed by perturbParams(pseed) (kept only if ColoquinteParameters::check accepts them)
//       cbmode 0 no callback, 1 observing callback, 2 at invocation cbk set the width of cell cbcell to cbw, 3 at invocation cbk double the net weights
// result: "G:<RET|THROW msg> L:<..> D:<..> P:<def|var|rej>"  (stages not requested print '-'; P: default / varied / varied set rejected -> defaults)
#include <climits>
#include <cmath>
#include "cgen.hpp"

static const long long LIM = 1LL << 22;
static long long clampv(long long v) { return std::max(-LIM, std::min(LIM, v)); }

static TCircuit genMagnitude(SplitMix &g) {
  TCircuit t;
  bool nano = g.coin(50);
  long long u = nano ? g.uni(100, 400) : (1LL << g.uni(8, 15));       // site width / unit
  long long rh = nano ? u * g.uni(6, 12) : u * 2 * g.uni(1, 3);       // row height
  int nrows = (int)g.uni(1, 6);
  long long W = std::min<long long>(LIM, std::max(4 * rh + u, u * g.uni(8, nano ? 4000 : 60)));
  long long x0 = clampv(g.coin(50) ? -W / 2 : g.uni(-LIM, LIM - W)), y0 = clampv(g.uni(-LIM, LIM - nrows * rh));
  x0 = std::min(x0, LIM - W);
  for (int i = 0; i < nrows; ++i) t.rows.push_back({x0, x0 + W, y0 + i * rh, y0 + (i + 1) * rh, (long long)((i % 2) ? 5 : 0)});
  int n = (int)g.uni(1, 14);
  for (int i = 0; i < n; ++i) {
    std::array<long long, 8> c{};
    bool fx = i > 0 && g.coin(15);
    int k = (!fx && g.coin(10) && nrows >= 2) ? 2 : 1;
    long long h = fx ? rh * g.uni(1, 2) : k * rh;          // fixed heights >= one row (tiny fixed terminals at this scale make the density grid huge: slow, not wrong)
    long long w = u * g.uni(1, 8);
    w = std::max<long long>(1, std::min(w, ((1LL << 31) - 1) / h));
    if (w * h >= (1LL << 31)) w = ((1LL << 31) - 1) / h;
    c[2] = w; c[3] = h; c[4] = 0; c[5] = 0; c[6] = fx; c[7] = 1;
    c[0] = g.coin(25) ? g.uni(-LIM, LIM - w) : clampv(x0 + g.uni(0, std::max<long long>(1, W - w)));
    c[1] = g.coin(25) ? g.uni(-LIM, LIM - h) : clampv(y0 + g.uni(0, nrows) * rh);
    c[0] = std::min(c[0], LIM - w); c[1] = std::min(c[1], LIM - h);
    t.cells.push_back(c);
  }
  int nn = (int)g.uni(0, 2 * n);
  for (int k = 0; k < nn; ++k) {
    int d = (int)g.uni(1, 5); std::vector<std::array<long long, 3>> net;
    for (int j = 0; j < d; ++j) { int cc = (int)g.uni(0, n - 1); net.push_back({cc, g.uni(0, t.cells[cc][2]), g.uni(0, t.cells[cc][3])}); }
    t.nets.push_back(net); t.netw2.push_back((int)g.uni(1, 4));
  }
  return t;
}

// stream 3: the integer corners of the 1-D transport / bin bookkeeping: unit-area cells, exactly full bins, zero-area movable cells
static TCircuit genUnit(SplitMix &g) {
  TCircuit t;
  long long rh = g.coin(70) ? 1 : 2; int nrows = (int)g.uni(1, 8); long long W = g.uni(6, 60);
  long long x0 = g.uni(-5, 5), y0 = g.uni(-5, 5);
  for (int i = 0; i < nrows; ++i) t.rows.push_back({x0, x0 + W, y0 + i * rh, y0 + (i + 1) * rh, (long long)((i % 2) ? 5 : 0)});
  long long area = W * nrows * rh, target = area * g.uni(55, 100) / 100, used = 0;
  int guard = 0;
  while (used < target && guard++ < 400) {
    std::array<long long, 8> c{};
    long long w = g.coin(60) ? 1 : (g.coin(8) ? 0 : g.uni(2, 4));
    bool fx = g.coin(4);
    c[2] = w; c[3] = rh; c[4] = 0; c[5] = 0; c[6] = fx; c[7] = 1;
    c[0] = x0 + g.uni(0, std::max<long long>(0, W - w)); c[1] = y0 + g.uni(0, nrows - 1) * rh;
    if (g.coin(30)) c[0] = x0 + (g.coin(50) ? 0 : W - w);           // piled up against one side
    t.cells.push_back(c); used += std::max<long long>(w, 1) * rh;
    if (t.cells.size() >= 120) break;
  }
  int n = (int)t.cells.size(); int nn = (int)g.uni(0, n);
  for (int k = 0; k < nn; ++k) {
    int d = (int)g.uni(1, 4); std::vector<std::array<long long, 3>> net;
    for (int j = 0; j < d; ++j) { int cc = (int)g.uni(0, n - 1); net.push_back({cc, g.uni(0, t.cells[cc][2]), g.uni(0, t.cells[cc][3])}); }
    t.nets.push_back(net); t.netw2.push_back((int)g.uni(1, 4));
  }
  return t;
}

// the domain of C07 needs a movable cell of positive area
static void ensureDomain(TCircuit &t) {
  bool any = false; for (auto &c : t.cells) if (!c[6] && c[2] > 0 && c[3] > 0) any = true;
  if (!any) { t.cells[0][6] = 0; if (t.cells[0][2] <= 0) t.cells[0][2] = 1; t.cells[0][3] = t.rows[0][3] - t.rows[0][2]; t.cells[0][4] = 0; }
}

static TCircuit genDegenerate(SplitMix &g) {
  GenOpts o; o.nets = true; o.maxCells = 10;
  int kind = (int)g.uni(0, 7);
  if (kind == 6) { o.utilLo = 101; o.utilHi = 180; }          // infeasible density
  TCircuit t = genCircuit(g, o);
  auto oneNet = [&](int d, bool sameCell) { std::vector<std::array<long long, 3>> net; int n = (int)t.cells.size(); int c0 = (int)g.uni(0, n - 1);
    for (int j = 0; j < d; ++j) { int cc = sameCell ? c0 : (int)g.uni(0, n - 1); net.push_back({cc, g.uni(0, t.cells[cc][2]), g.uni(0, t.cells[cc][3])}); } t.nets.push_back(net); t.netw2.push_back(2); };
  if (kind == 0) { t.rows.resize(1); }                          // single row
  if (kind == 1) { t.cells.resize(1); t.cells[0][6] = 0; t.nets.clear(); t.netw2.clear(); if (g.coin(50)) oneNet(2, true); }   // single cell
  if (kind == 2) { t.nets.clear(); t.netw2.clear(); }          // no nets
  if (kind == 3) { t.nets.clear(); t.netw2.clear(); for (int k = 0; k < 4; ++k) oneNet(1, false); }        // degree-1 nets
  if (kind == 4) { t.nets.clear(); t.netw2.clear(); for (int k = 0; k < 3; ++k) oneNet((int)g.uni(2, 5), true); }   // all pins on one cell
  if (kind == 5) { for (auto &c : t.cells) if (c[6]) { c[2] = 0; c[3] = 0; } }                               // zero-size fixed terminals
  if (kind == 7) { for (size_t i = 1; i < t.cells.size(); ++i) t.cells[i][6] = 1; t.cells[0][6] = 0; }       // every cell fixed but one
  ensureDomain(t);
  // nets may name removed cells
  for (auto &net : t.nets) for (auto &p : net) if (p[0] >= (long long)t.cells.size()) p[0] = 0;
  return t;
}

// stream 6: no free capacity (finding F28): one macro over all rows, or one obstruction per row that leaves at most one unit at each end
// (removed by the side margin). The density grid is built from an empty region list: zero capacity in every bin, all passes run on it
static TCircuit genNoCapacity(SplitMix &g) {
  GenOpts o; o.nets = true; o.maxCells = 12; TCircuit t = genCircuit(g, o); ensureDomain(t);
  long long minX = LLONG_MAX, maxX = LLONG_MIN, minY = LLONG_MAX, maxY = LLONG_MIN;
  for (auto &r : t.rows) { minX = std::min(minX, r[0]); maxX = std::max(maxX, r[1]); minY = std::min(minY, r[2]); maxY = std::max(maxY, r[3]); }
  int kind = (int)g.uni(0, 2);
  if (kind == 0) {
    std::array<long long, 8> c{}; long long ex = g.uni(0, 3);
    c[0] = minX - ex; c[1] = minY - ex; c[2] = maxX - minX + 2 * ex; c[3] = maxY - minY + 2 * ex; c[6] = 1; c[7] = 1;
    t.cells.push_back(c);
  } else {
    for (auto &r : t.rows) {
      std::array<long long, 8> c{}; long long l = kind == 2 ? g.uni(0, 1) : 0, rr = kind == 2 ? g.uni(0, 1) : 0;
      c[0] = r[0] + l; c[1] = r[2]; c[2] = std::max(0LL, r[1] - r[0] - l - rr); c[3] = r[3] - r[2]; c[6] = 1; c[7] = 1;
      t.cells.push_back(c);
    }
  }
  return t;
}

// stream 9: no fixed cell at all, the whole circuit translated far from the origin (finding F30: the first lower bound of such a circuit
// sits at 0 and the penalty anchors are strength / distance): offsets 2^16 .. the far end of |v| <= 2^22
static TCircuit genFarNoFixed(SplitMix &g) {
  GenOpts o; o.nets = true; o.maxCells = 14; TCircuit t = genCircuit(g, o); ensureDomain(t);
  long long minX = LLONG_MAX, maxX = LLONG_MIN, minY = LLONG_MAX, maxY = LLONG_MIN;
  for (auto &r : t.rows) { minX = std::min(minX, r[0]); maxX = std::max(maxX, r[1]); minY = std::min(minY, r[2]); maxY = std::max(maxY, r[3]); }
  for (auto &c : t.cells) { c[6] = 0; c[0] = std::min(std::max(c[0], minX - 50), maxX + 50); c[1] = std::min(std::max(c[1], minY - 50), maxY + 50); }
  static const long long offs[] = {1LL << 16, 1LL << 20, 1LL << 21, 3LL << 20, 1LL << 22};
  long long ox = offs[g.uni(0, 4)], oy = g.coin(50) ? ox : offs[g.uni(0, 4)];
  if (ox == (1LL << 22)) ox = (1LL << 22) - (maxX + 200) - g.uni(0, 40);
  if (oy == (1LL << 22)) oy = (1LL << 22) - (maxY + 200) - g.uni(0, 40);
  for (auto &r : t.rows) { r[0] += ox; r[1] += ox; r[2] += oy; r[3] += oy; }
  for (auto &c : t.cells) { c[0] += ox; c[1] += oy; }
  return t;
}

// stream 7: after legalization the detailed placer is left with NO free row segment, or with exactly ONE.  The rows come in bands of
// k = 2..3 rows of equal x-extent; every band is tiled exactly by macros k rows high.  kind 0: every macro movable (the Tetris pass has to
// put them where they are: exact fit), no standard cell: every row segment is an obstacle for DetailedPlacement::fromIspdCircuit;
// kind 1: some macros fixed, at least one movable; kind 2: as 0 / 1, but in ONE row one macro's footprint is left free (row-high fixed
// blocks in the other rows of the band), with 0..2 standard cells that fit there: exactly one free segment; kind 3: one movable macro,
// everything else under ONE fixed macro per band.  Every circuit has a movable cell of positive area (the domain of C07).
static TCircuit genNoFreeRow(SplitMix &g) {
  TCircuit t; int kind = (int)g.uni(0, 3);
  long long rh = 2 * g.uni(1, 5); int k = (int)g.uni(2, 3), nbands = (int)g.uni(1, 3);
  long long x0 = g.uni(-20, 20), y0 = g.uni(-20, 20), W = g.uni(4, 30);
  for (int r = 0; r < k * nbands; ++r) t.rows.push_back({x0, x0 + W, y0 + r * rh, y0 + (r + 1) * rh, (long long)((r % 2) ? 5 : 0)});
  int holeBand = (int)g.uni(0, nbands - 1), holeRow = (int)g.uni(0, k - 1); bool holeDone = kind != 2;
  for (int b = 0; b < nbands; ++b) {
    long long x = x0, yb = y0 + b * k * rh; bool first = true;
    while (x < x0 + W) {
      long long w = std::min(x0 + W - x, kind == 3 && !(b == 0 && first) ? W : g.uni(2, 8));
      if (kind == 3 && b == 0 && first) w = std::min(w, W - 1 > 0 ? W - 1 : W);
      bool fx = kind == 3 ? !(b == 0 && first) : (kind == 0 ? false : g.coin(45));
      if (!holeDone && b == holeBand && (x + w >= x0 + W || g.coin(40))) {
        // the footprint [x, x+w) x band: free in row holeRow, row-high fixed blocks elsewhere, 0..2 standard cells into the free piece
        for (int r = 0; r < k; ++r) if (r != holeRow) t.cells.push_back({x, yb + r * rh, w, rh, 0, 0, 1, 1});
        int ns = (int)g.uni(0, 2); long long left = w;
        for (int s = 0; s < ns && left > 0; ++s) { long long ws = g.uni(1, std::max<long long>(1, left / 2)); left -= ws; t.cells.push_back({x + g.uni(-2, w), yb + holeRow * rh + g.uni(-1, 1), ws, rh, (long long)(((b * k + holeRow) % 2) ? 5 : 0), 0, 0, 1}); }
        holeDone = true;
      } else {
        long long px = x, py = yb;
        if (!fx && g.coin(35)) { px += g.uni(-3, 3); py += g.uni(-2, 2); }   // off its place: legalization has to bring it back (exact fit)
        t.cells.push_back({px, py, w, k * rh, 0, 0, (long long)fx, 1});
      }
      x += w; first = false;
    }
  }
  bool any = false; for (auto &c : t.cells) if (!c[6]) any = true;
  if (!any) for (auto &c : t.cells) if (c[3] == k * rh) { c[6] = 0; break; }
  int n = (int)t.cells.size(); int nn = (int)g.uni(0, 2 * n);
  if (g.coin(30)) { t.cells.push_back({x0 + g.uni(-10, W + 10), y0 + g.uni(-10, k * nbands * rh + 10), 0, 0, 0, 0, 1, 0}); ++n; }   // a pad
  for (int q = 0; q < nn; ++q) {
    int d = (int)g.uni(1, 4); std::vector<std::array<long long, 3>> net;
    for (int j = 0; j < d; ++j) { int cc = (int)g.uni(0, n - 1); net.push_back({cc, g.uni(0, t.cells[cc][2]), g.uni(0, t.cells[cc][3])}); }
    t.nets.push_back(net); t.netw2.push_back((int)g.uni(1, 4));
  }
  return t;
}

// stream 8: rows that really hold 8..12 standard cells next to each other, run with reordering windows of 6..8 cells (trailing ints
// "rmax rrows" of the case line: detailed.reorderingMaxNbCells / reorderingNbRows, nbPasses at least 1): up to 8! orderings per window
static TCircuit genWideRows(SplitMix &g) {
  TCircuit t; int nrows = (int)g.uni(1, 3); long long rh = 2 * g.uni(1, 3), x0 = g.uni(-15, 15), y0 = g.uni(-15, 15), W = 0;
  std::vector<std::vector<long long>> ws(nrows);
  for (int r = 0; r < nrows; ++r) { int m = r == 0 ? (int)g.uni(8, 12) : (int)g.uni(1, 4); long long tot = 0; for (int i = 0; i < m; ++i) { ws[r].push_back(g.uni(1, 4)); tot += ws[r].back() + (g.coin(40) ? g.uni(1, 2) : 0); } W = std::max(W, tot + g.uni(0, 4)); }
  for (int r = 0; r < nrows; ++r) {
    t.rows.push_back({x0, x0 + W, y0 + r * rh, y0 + (r + 1) * rh, (long long)((r % 2) ? 5 : 0)});
    long long x = x0; for (long long w : ws[r]) { t.cells.push_back({x + g.uni(0, 1), y0 + r * rh, w, rh, (long long)((r % 2) ? 5 : 0), 0, 0, 1}); x += w; }
  }
  int n = (int)t.cells.size(); int nn = (int)g.uni(n, 2 * n + 2);
  for (int q = 0; q < nn; ++q) {
    int d = (int)g.uni(2, 4); std::vector<std::array<long long, 3>> net;
    for (int j = 0; j < d; ++j) { int cc = (int)g.uni(0, n - 1); net.push_back({cc, g.uni(0, t.cells[cc][2]), g.uni(0, t.cells[cc][3])}); }
    t.nets.push_back(net); t.netw2.push_back((int)g.uni(1, 4));
  }
  return t;
}

// Parameter variation (all streams): from the seed carried in the case line, perturb the integer / enum knobs and the moderate float
// knobs of every parameter structure; each knob keeps its effort default with probability ~1/2, so that the sets mix defaults and
// non-defaults.  The set is kept only when ColoquinteParameters::check() ACCEPTS it (the caller falls back to the defaults otherwise).
// Box (C06's "numerically moderate" one): CG tolerance 1e-1..1e-6, approximation / cutoff distances >= 0.1, penalty.targetBlending
// untouched; window sizes <= 8 (square <= 4) and reorderingMaxNbCells <= 6 keep the cases small, not the library's limits (64 / 8).
static void perturbParams(ColoquinteParameters &p, unsigned long long pseed) {
  SplitMix g(pseed);
  auto on = [&] { return g.coin(50); };
  auto frac = [&](long long lo, long long hi, double den) { return (double)g.uni(lo, hi) / den; };
  RoughLegalizationParameters &rl = p.global.roughLegalization;
  if (on()) rl.costModel = (LegalizationModel)g.uni(0, 5);
  if (on()) rl.nbSteps = (int)g.uni(0, 3);
  if (on()) rl.binSize = g.coin(50) ? (double)g.uni(1, 25) : frac(10, 250, 10.0);
  // sizes and overlaps drawn independently of each other: an overlap is only bounded by ITS OWN size (when that size is > 1), so
  // "overlap >= another window's size" and "overlap > 1 with its own size 1" both occur
  auto window = [&](int &size, int &ov, int maxSize) {
    if (on()) size = (int)g.uni(1, maxSize);
    if (on()) ov = size > 1 ? (int)g.uni(1, size - 1) : (int)g.uni(1, 4);
    else if (size > 1 && ov >= size) ov = size - 1;          // default overlap 1 is always fine; keep accepted after a size change
  };
  window(rl.lineReoptSize, rl.lineReoptOverlap, 8);
  window(rl.diagReoptSize, rl.diagReoptOverlap, 8);
  window(rl.squareReoptSize, rl.squareReoptOverlap, 4);
  if (on()) rl.unidimensionalTransport = g.coin(50);
  if (on()) rl.quadraticPenalty = g.coin(30) ? (g.coin(50) ? 0.0 : 1.0) : frac(0, 1000, 1000.0);
  if (on()) rl.sideMargin = g.coin(30) ? 0.0 : frac(0, 300, 100.0);
  if (on()) rl.coarseningLimit = frac(5, 5000, 10.0);
  if (on()) rl.targetBlending = frac(-10, 89, 100.0);
  ContinuousModelParameters &cm = p.global.continuousModel;
  if (on()) cm.approximationDistance = frac(1, 100, 10.0);
  if (on()) cm.approximationDistanceUpdateFactor = frac(80, 120, 100.0);
  if (on()) cm.maxNbConjugateGradientSteps = g.coin(30) ? (int)g.uni(1, 3) : (int)g.uni(1, 1000);
  if (on()) cm.conjugateGradientErrorTolerance = std::pow(10.0, -(double)g.uni(1, 6));
  PenaltyParameters &pe = p.global.penalty;
  if (on()) pe.cutoffDistance = frac(1, 1000, 10.0);
  if (on()) pe.cutoffDistanceUpdateFactor = frac(80, 120, 100.0);
  if (on()) pe.areaExponent = frac(50, 100, 100.0);
  if (on()) pe.initialValue = frac(1, 100, 1000.0);
  if (on()) pe.updateFactor = frac(101, 199, 100.0);
  GlobalPlacerParameters &gp = p.global;
  if (on()) gp.maxNbSteps = (int)g.uni(1, 12);
  if (on() || gp.nbInitialSteps >= gp.maxNbSteps) gp.nbInitialSteps = (int)g.uni(0, gp.maxNbSteps - 1);
  if (on()) gp.nbStepsBeforeRoughLegalization = (int)g.uni(1, 3);
  if (on()) gp.gapTolerance = g.coin(30) ? (g.coin(50) ? 0.0 : 1.0) : frac(0, 100, 100.0);
  if (on()) gp.distanceTolerance = g.coin(30) ? 0.0 : frac(0, 500, 100.0);
  if (on()) gp.penaltyUpdateDistance = frac(1, 500, 100.0);
  if (on()) gp.penaltyUpdateBackoff = frac(100, 300, 100.0);
  if (on()) gp.exportBlending = g.coin(30) ? (g.coin(50) ? 0.0 : 1.0) : frac(-50, 150, 100.0);
  if (on()) gp.noise = g.coin(30) ? 0.0 : frac(0, 200, 100.0);
  LegalizationParameters &lp = p.legalization;
  if (on()) lp.orderingWidth = frac(-100, 200, 100.0);
  if (on()) lp.orderingHeight = frac(-100, 200, 100.0);
  if (on()) lp.orderingY = frac(-20, 20, 100.0);
  DetailedPlacerParameters &dp = p.detailed;
  if (on()) dp.nbPasses = (int)g.uni(0, 2);
  if (on()) dp.localSearchNbNeighbours = (int)g.uni(0, 8);
  if (on()) dp.localSearchNbRows = (int)g.uni(0, 4);
  if (on()) dp.shiftNbRows = g.coin(40) ? 1 : (int)g.uni(1, 6);
  if (on()) dp.shiftMaxNbCells = g.coin(30) ? (int)g.uni(0, 3) : (int)g.uni(0, 200);
  if (on()) dp.reorderingNbRows = (int)g.uni(1, 3);
  if (on()) dp.reorderingMaxNbCells = (int)g.uni(0, 6);
}

static std::string stage(const std::function<void()> &f) {
  try { f(); return "RET"; } catch (std::exception &e) { std::string m = e.what(); for (char &ch : m) if (ch == ' ' || ch == '\n') ch = '_'; return "THROW_" + m.substr(0, 60); }
}

int main(int argc, char **argv) {
  std::string mode = argc > 1 ? argv[1] : "run";
  if (mode == "gen") {
    SplitMix g(strtoull(argv[2], nullptr, 10)); long long count = atoll(argv[3]); int stream = argc > 4 ? atoi(argv[4]) : 0;
    for (long long it = 0; it < count; ++it) {
      TCircuit t;
      if (stream == 1) t = genMagnitude(g); else if (stream == 2) t = genDegenerate(g);
      else if (stream == 3) { t = genUnit(g); ensureDomain(t); }
      else if (stream == 6) t = genNoCapacity(g);
      else if (stream == 7) t = genNoFreeRow(g);
      else if (stream == 8) t = genWideRows(g);
      else if (stream == 9) t = genFarNoFixed(g);
      else { GenOpts o; o.nets = true; o.maxCells = 14; t = genCircuit(g, o); ensureDomain(t); }
      int stages = g.coin(25) ? 7 : (g.coin(50) ? 2 : (g.coin(60) ? 6 : 1));
      if (stream == 7) stages = g.coin(45) ? 4 : (g.coin(60) ? 6 : 7);   // placeDetailed alone (it legalizes first), legalize + detailed, whole flow
      if (stream == 8) stages = g.coin(40) ? 4 : (g.coin(60) ? 6 : 7);
      if (stream == 6) stages = g.coin(65) ? 1 : 7;   // global placement is where the empty grid is built; legalization has no room and throws
      if (stream == 3) {
        stages = g.coin(70) ? 1 : 7;
        int cbmode = g.coin(35) ? 0 : (g.coin(30) ? 1 : (g.coin(75) ? 2 : 3)); int n = (int)t.cells.size();
        int cell = (int)g.uni(0, n - 1);
        for (int tries = 0; tries < 8 && (t.cells[cell][6] || (g.coin(50) && t.cells[cell][2] != 0)); ++tries) cell = (int)g.uni(0, n - 1);   // prefer movable, often zero-width
        long long nw = g.coin(40) ? 0 : g.uni(1, 4);
        int e3 = (int)g.uni(1, 3), s3 = (int)g.uni(0, 1000), m3 = (int)g.uni(0, 3), k3 = (int)g.uni(0, 6);
        long long ps3 = g.coin(55) ? g.uni(1, 2000000000) : 0;
        printf("FL %s %s %d %d %d %d %d %d %d %lld %lld\n", showRowsCells(t).c_str(), showNets(t).c_str(), stages, e3, s3, m3, cbmode, k3, cell, nw, ps3);
        continue;
      }
      int e0 = (int)g.uni(1, 4), s0 = (int)g.uni(0, 1000), m0 = (int)g.uni(0, 3);
      long long ps0 = g.coin(60) ? g.uni(1, 2000000000) : 0;      // parameter-variation seed; 0 = the library defaults of the effort
      if (stream == 7 && g.coin(50)) ps0 = 0;     // default parameters: nbPasses >= 1, every pass builds its RowNeighbourhood
      if (stream == 8) { printf("FL %s %s %d %d %d %d 0 0 0 0 %lld %d %d\n", showRowsCells(t).c_str(), showNets(t).c_str(), stages, e0, s0, m0, ps0, (int)g.uni(6, 8), (int)(g.coin(70) ? 1 : 2)); continue; }
      printf("FL %s %s %d %d %d %d 0 0 0 0 %lld\n", showRowsCells(t).c_str(), showNets(t).c_str(), stages, e0, s0, m0, ps0);
    }
    return 0;
  }
  if (mode == "show") {   // flow show EFFORT PSEED: the parameter set a case line with that effort / pseed runs (before netmodel / seed / step caps)
    ColoquinteParameters p(atoi(argv[2])); p.global.maxNbSteps = std::min(p.global.maxNbSteps, 12); p.detailed.nbPasses = std::min(p.detailed.nbPasses, 2);
    perturbParams(p, strtoull(argv[3], nullptr, 10));
    bool ok = true; try { p.check(); } catch (std::exception &e) { ok = false; printf("REJECTED (%s): the case runs the defaults\n", e.what()); }
    if (ok) printf("%s\n%s\n%s\n%s\n", p.global.roughLegalization.toString().c_str(), p.toString().c_str(), p.global.continuousModel.toString().c_str(), p.global.penalty.toString().c_str());
    return 0;
  }
  vh_silence();   // no signal handlers: with sanitizers a report must end the process
  std::string line;
  while (std::getline(std::cin, line)) {
    if (line.size() < 3) { printf("\n"); continue; }
    IntReader r; r.v = vh_ints(line.substr(3));
    TCircuit t = readRowsCells(r); readNets(r, t);
    int stages = (int)r.nx(), effort = (int)r.nx(), seed = (int)r.nx(), nm = (int)r.nx();
    int cbmode = (int)r.nx(), cbk = (int)r.nx(), cbcell = (int)r.nx(); long long cbw = r.nx();
    long long pseed = r.nx();                                   // optional trailing int: 0 / absent = defaults (old case lines keep their meaning)
    int rmax = (int)r.nx(), rrows = (int)r.nx();                 // optional: reordering window override (stream 8); 0 / absent = none
    std::string G = "-", L = "-", D = "-", P = "def";
    try {
      Circuit c = buildCircuit(t);
      ColoquinteParameters p(effort); p.seed = seed;
      NetModelOption nms[4] = {NetModelOption::BoundToBound, NetModelOption::Star, NetModelOption::Clique, NetModelOption::LightStar};
      p.global.continuousModel.netModel = nms[nm & 3];
      p.global.maxNbSteps = std::min(p.global.maxNbSteps, 12);
      p.detailed.nbPasses = std::min(p.detailed.nbPasses, 2);
      if (pseed != 0) {
        ColoquinteParameters q = p; perturbParams(q, (unsigned long long)pseed); q.seed = seed; q.global.continuousModel.netModel = nms[nm & 3];
        bool ok = true; try { q.check(); } catch (std::exception &) { ok = false; }
        if (ok) { p = q; P = "var"; } else P = "rej";          // rejected sets are C19's business: run the defaults
      }
      if (rmax > 0) { p.detailed.reorderingMaxNbCells = rmax; p.detailed.reorderingNbRows = std::max(1, rrows); p.detailed.nbPasses = std::max(1, p.detailed.nbPasses); p.check(); }
      int inv = 0;
      std::optional<PlacementCallback> cb;
      if (cbmode != 0) cb = [&](PlacementStep) {
        int k = inv++;
        if (cbmode == 1) { (void)c.hpwl(); return; }
        if (k != cbk) return;
        if (cbmode == 2 && c.nbCells() > 0) { std::vector<int> w = c.cellWidth(); w[cbcell % c.nbCells()] = (int)cbw; c.setCellWidth(w); }
        if (cbmode == 3) { std::vector<float> nw; for (int k2 = 0; k2 < c.nbNets(); ++k2) nw.push_back(2.0f * c.netWeight(k2)); c.setNetWeights(nw); }
      };
      if (stages & 1) { inv = 0; G = stage([&] { c.placeGlobal(p, cb); }); }
      if (stages & 2) { inv = 0; L = stage([&] { c.legalize(p, cb); }); }
      if (stages & 4) { inv = 0; D = stage([&] { c.placeDetailed(p, cb); }); }
    } catch (std::exception &e) { G = std::string("SETUP_THROW_") + e.what(); }
    printf("G:%s L:%s D:%s P:%s\n", G.c_str(), L.c_str(), D.c_str(), P.c_str()); fflush(stdout);
  }
  return 0;
}
