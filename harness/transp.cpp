// C13 harness: TransportationProblem (constructor, increaseCapacity, solve, toAssignment) from /repo's working tree
//   transp gen enum NS NR MAXC MAXD MAXK   exhaustive: exactly NS sinks, NR sources, capacities 1..MAXC, demands 1..MAXD,
//                                          costs 0..MAXK, total demand <= total capacity (the domain of small_pbs in Ssp.v)
//   transp gen rand SEED COUNT             random integer-cost problems (classes below)
//   transp gen big SEED COUNT              many sources (100..1500), 2..16 sinks
//   transp gen huge SEED COUNT             quantities 2^24..2^40, shares at and around 2^31 / 2^32 (designed splits + random), costs <= 1000
//   transp gen flt SEED COUNT              float-cost problems (geometric distances / dyadic), as DensityLegalizer::reoptimize builds them
//   transp gen bigcost SEED COUNT          small integer-cost problems with costs near the top of int: even lines have every cost
//                                          <= INT_MAX/2 = 1073741823 (many at / just below it: the domain where C07 proves that no int
//                                          overflows), odd lines have at least one cost in (INT_MAX/2, INT_MAX-1] (finding F26)
//   transp run < cases
//   transp run short < cases               same, with a CPU-time limit of 0.25 s per case from the start and no SKIPPED cut-off: for the
//                                          `bigcost` lines above INT_MAX/2 (<= 6 sinks, <= 10 sources: microseconds when the solver returns;
//                                          about one in eight does not return on the unchanged tree, finding F26)
// case lines:
//   "TP incr nsnk nsrc caps.. dems.. costs[snk][src].."            integer-cost constructor; incr=1: increaseCapacity() before solve()
//   "TF incr nsnk nsrc caps.. dems.. den num[snk][src].."          float-cost constructor, cost = (float)num / (float)den
// result lines:
//   "OK cost | caps after | allocations row-major | toAssignment # oracle"     (TP)
//   "OK cost | caps after | allocations | toAssignment | scaled integer costs() # oracle"   (TF)
//      cost = sum allocations*costs() in exact integers; oracle = minimum cost by lemon::NetworkSimplex on the same
//      (scaled) integer costs and the capacities after increaseCapacity, "-" when demand > capacity
//   "THROW msg" / "ABORT" / "SEGV" / "FPE" / "HANG" (CPU-time limit) / "SKIPPED ..." (after 20 HANGs in one process)
#include "vh.hpp"
#include <cmath>
#include <lemon/list_graph.h>
#include <lemon/network_simplex.h>
#define private public
#define protected public
#include "place_global/transportation.hpp"
using namespace coloquinte;
typedef long long ll;

// a case that does not return: CPU-time limit (ITIMER_VIRTUAL, insensitive to machine load): 5 s, and 0.5 s once three
// cases of this process have hung (the unmutated solver needs < 0.05 s on the largest generated problem)
#include <sys/time.h>
static int n_hangs = 0;
static bool short_limit = false;
static void alarm_handler(int) { vh_sig = SIGALRM; siglongjmp(vh_jmp, 1); }
static void cpu_alarm(bool on) {
  struct itimerval it; memset(&it, 0, sizeof it);
  if (on) { if (short_limit) it.it_value.tv_usec = 250000; else if (n_hangs >= 3) it.it_value.tv_usec = 500000; else it.it_value.tv_sec = 5; }
  setitimer(ITIMER_VIRTUAL, &it, nullptr);
}

static std::string oracle(const std::vector<ll> &caps, const std::vector<ll> &dems, const std::vector<std::vector<int>> &costs) {
  ll td = 0, tc = 0; for (ll d : dems) td += d; for (ll c : caps) tc += c;
  if (td > tc) return "-";
  lemon::ListDigraph g; std::vector<lemon::ListDigraph::Node> S, T;
  for (size_t i = 0; i < dems.size(); ++i) S.push_back(g.addNode());
  for (size_t j = 0; j < caps.size(); ++j) T.push_back(g.addNode());
  auto dummy = g.addNode();
  lemon::ListDigraph::ArcMap<ll> cost(g); lemon::ListDigraph::NodeMap<ll> sup(g);
  for (size_t i = 0; i < dems.size(); ++i) { sup[S[i]] = dems[i]; for (size_t j = 0; j < caps.size(); ++j) { auto a = g.addArc(S[i], T[j]); cost[a] = costs[j][i]; } }
  for (size_t j = 0; j < caps.size(); ++j) { sup[T[j]] = -caps[j]; auto a = g.addArc(dummy, T[j]); cost[a] = 0; }
  sup[dummy] = tc - td;
  lemon::NetworkSimplex<lemon::ListDigraph, ll, ll> ns(g);
  ns.costMap(cost).supplyMap(sup);
  if (ns.run() != lemon::NetworkSimplex<lemon::ListDigraph, ll, ll>::OPTIMAL) return "?";
  return std::to_string(ns.totalCost<ll>());
}

static void print_pb(SplitMix &, int incr, const std::vector<ll> &caps, const std::vector<ll> &dems, const std::vector<std::vector<ll>> &costs) {
  printf("TP %d %zu %zu", incr, caps.size(), dems.size());
  for (ll c : caps) printf(" %lld", c);
  for (ll d : dems) printf(" %lld", d);
  for (auto &r : costs) for (ll c : r) printf(" %lld", c);
  printf("\n");
}

// make total capacity >= total demand by raising capacities (mode 0: exactly balanced when it has to raise; 1: with slack)
static void fit_caps(SplitMix &g, std::vector<ll> &caps, const std::vector<ll> &dems, int mode, ll loc = 1) {
  ll td = 0, tc = 0; for (ll d : dems) td += d; for (ll c : caps) tc += c;
  if (mode == 2 && tc > td) {   // shrink to exactly balanced where possible
    for (size_t j = 0; j < caps.size() && tc > td; ++j) { ll cut = std::min(tc - td, std::max<ll>(0, caps[j] - loc)); caps[j] -= cut; tc -= cut; }
  }
  while (tc < td) {
    size_t j = g.uni(0, (ll)caps.size() - 1);
    ll add = mode == 1 ? g.uni(1, std::max<ll>(1, 2 * (td - tc))) : g.uni(1, td - tc);
    caps[j] += add; tc += add;
  }
}

static void gen_rand(SplitMix &g, ll count, bool big) {
  for (ll it = 0; it < count; ++it) {
    int cls = (int)g.uni(0, 9);
    int nsnk, nsrc; ll maxd, maxc, maxk;
    if (big) { nsnk = (int)g.uni(2, 16); nsrc = (int)g.uni(100, it % 7 == 0 ? 1500 : 400); maxd = g.coin(50) ? 20 : 1000; maxk = g.coin(30) ? 5 : (g.coin(50) ? 1000 : 1000000); }
    else if (cls <= 2) { nsnk = (int)g.uni(1, 4); nsrc = (int)g.uni(1, 6); maxd = 5; maxk = g.uni(0, 3); }
    else if (cls <= 5) { nsnk = (int)g.uni(1, 8); nsrc = (int)g.uni(1, 20); maxd = g.coin(50) ? 10 : 100; maxk = g.coin(50) ? 10 : 1000; }
    else { nsnk = (int)g.uni(1, 16); nsrc = (int)g.uni(1, 60); maxd = g.coin(30) ? 3 : (g.coin(50) ? 100 : 1000000); maxk = g.coin(30) ? 4 : (g.coin(50) ? 1000 : 1000000); }
    std::vector<ll> dems(nsrc), caps(nsnk); ll td = 0;
    bool eqd = g.coin(15);   // equal demands: the source order is then the index order
    ll d0 = g.uni(1, maxd);
    for (auto &d : dems) { d = eqd ? d0 : g.uni(1, maxd); td += d; }
    maxc = std::max<ll>(1, (ll)((double)td / nsnk * (g.coin(50) ? 1.0 : 2.0)));
    // the solver moves at most min(capacity) units per iteration through a small full sink (pseudo-polynomial): keep
    // max demand / min capacity <= 250 so that the extracted model stays fast
    ll loc = std::max<ll>(1, maxd / 250);
    for (auto &c : caps) c = g.uni(loc, std::max<ll>(loc, g.coin(50) ? maxc : 2 * maxc));
    std::vector<std::vector<ll>> costs(nsnk, std::vector<ll>(nsrc));
    int cm = (int)g.uni(0, 5);
    if (cm <= 2) { for (auto &r : costs) for (auto &c : r) c = g.coin(cm == 2 ? 40 : 5) ? 0 : g.uni(0, maxk); }
    else if (cm == 3) {   // geometric: sinks and sources on a small grid, Manhattan distance (many ties), scaled
      ll sc = std::max<ll>(1, maxk / 40);
      std::vector<ll> sx(nsnk), sy(nsnk); for (int j = 0; j < nsnk; ++j) { sx[j] = g.uni(0, 10); sy[j] = g.uni(0, 10); }
      for (int i = 0; i < nsrc; ++i) { ll x = g.uni(0, 10), y = g.uni(0, 10); for (int j = 0; j < nsnk; ++j) costs[j][i] = sc * (std::llabs(x - sx[j]) + std::llabs(y - sy[j])); }
    } else if (cm == 4) { // per-sink offset + small noise: large spread between sinks, ties inside
      for (int j = 0; j < nsnk; ++j) { ll base = g.uni(0, maxk); for (int i = 0; i < nsrc; ++i) costs[j][i] = std::min<ll>(1000000, base + g.uni(0, 2)); }
    } else {              // two values only
      ll a = g.uni(0, maxk), b = g.uni(0, maxk); for (auto &r : costs) for (auto &c : r) c = g.coin(50) ? a : b;
    }
    int incr = 0;
    int fm = (int)g.uni(0, 9);
    if (fm <= 2) fit_caps(g, caps, dems, 0);            // raise to exactly balanced if short, else keep slack
    else if (fm <= 4) fit_caps(g, caps, dems, 1);       // slack
    else if (fm <= 6) fit_caps(g, caps, dems, 2, loc), fit_caps(g, caps, dems, 0);   // exactly balanced
    else incr = 1;                                      // whatever the capacities are: increaseCapacity() first
    print_pb(g, incr, caps, dems, costs);
  }
}

// large quantities: demands / capacities from 2^24 to 2^40, shares at and around 2^31 and 2^32 (DemandType is long long: nothing
// in C13 restricts the quantities to int).  Costs stay <= 1000 and sources <= 24, so that every total cost is < 2^62 (the
// OCaml driver prints native ints).  Run time of solver and model: see the two comments inside gen_huge.
static ll huge_share(SplitMix &g) {
  static const ll pts[] = {1LL << 31, (1LL << 31) - 1, (1LL << 31) + 1, 1LL << 32, (1LL << 32) - 1, (1LL << 32) + 1, (1LL << 32) + 10,
                           (1LL << 33) + 5, 3LL << 31, (1LL << 31) + (1LL << 20), (3LL << 32) + 5, (1LL << 34) - 1};
  if (g.coin(60)) return pts[g.uni(0, 11)];
  ll hi = g.uni(1, 64);   // 2^31 .. 2^37, low 32 bits: zero / all ones / bit 31 only / random
  int lowk = (int)g.uni(0, 3);
  ll low = lowk == 0 ? 0 : lowk == 1 ? 0xffffffffLL : lowk == 2 ? 0x80000000LL : g.uni(0, 0xffffffffLL);
  return std::max<ll>(1LL << 31, (hi << 31) + low - (1LL << 31));
}
static void gen_huge(SplitMix &g, ll count) {
  for (ll it = 0; it < count; ++it) {
    int nsnk, nsrc; std::vector<ll> dems, caps; std::vector<std::vector<ll>> costs; int incr = 0;
    if (g.coin(45)) {
      // designed spills: 1..3 independent blocks of ONE source and 1..4 private sinks (costs 0..12 inside the block, 1000 to the
      // other blocks' sinks, block capacity >= block demand): the source fills its sinks in cost order, nothing is ever re-routed,
      // so the run time does not depend on the magnitudes (a 2-sink 3-source problem with a 10-unit slack next to 2^36-sized
      // quantities takes minutes, in the C++ and in the model).  e.g. 2^32+30 split 2^32+10 / 20; a share of exactly 2^31.
      // Inside a block the costs are distinct and increase as the capacities decrease: sending to sink t directly and
      // sending through a cheaper full sink f (moving f's share to t) cost the same, bestSink takes the lower index, and the
      // path through f moves at most f's share per iteration: a 5-unit sink that is cheaper than a 2^32 one means 2^32/5 iterations.
      int nb = (int)g.uni(1, 3); std::vector<int> blk_of_sink; std::vector<ll> bc, bk;
      nsrc = nb; dems.assign(nsrc, 0);
      for (int b = 0; b < nb; ++b) {
        int k = (int)g.uni(1, 4); ll A = huge_share(g); ll others = 0;
        int mainpos = (int)g.uni(0, k - 1);
        for (int q = 0; q < k; ++q) {
          ll c;
          if (q == mainpos) c = A;
          else { int rk = (int)g.uni(0, 8); c = rk == 0 ? 5 : rk == 1 ? 7 : rk == 2 ? 20 : rk == 3 ? 35 : rk == 4 ? 1000 : rk == 5 ? (1LL << 31) - 1 : rk == 6 ? (1LL << 31) : rk == 7 ? A : g.uni(1, A); others += c; }
          blk_of_sink.push_back(b); bc.push_back(c);
        }
        std::sort(bc.end() - k, bc.end(), std::greater<ll>());
        ll kc = g.uni(0, 3); for (int q = 0; q < k; ++q) { bk.push_back(kc); kc += g.uni(1, 3); }
        int dk = (int)g.uni(0, 6);
        ll d = dk == 0 ? A : dk == 1 ? A + std::min<ll>(others, 3) : dk == 2 ? A + std::min<ll>(others, 20) : dk == 3 ? A + others : dk == 4 ? A - 1 : A + g.uni(0, others);
        dems[b] = std::max<ll>(1, d);
      }
      nsnk = (int)bc.size();
      // shuffle the sinks: the main sink is not always the first / last
      std::vector<int> perm(nsnk); for (int j = 0; j < nsnk; ++j) perm[j] = j;
      for (int j = nsnk - 1; j > 0; --j) std::swap(perm[j], perm[g.uni(0, j)]);
      caps.assign(nsnk, 0); costs.assign(nsnk, std::vector<ll>(nsrc));
      for (int j = 0; j < nsnk; ++j) {
        caps[j] = bc[perm[j]];
        for (int i = 0; i < nsrc; ++i) costs[j][i] = blk_of_sink[perm[j]] == i ? bk[perm[j]] : 1000;
      }
    } else {
      // a small problem (quantities in units, max demand / min capacity <= 250 as in gen_rand) scaled by a granule G: the solver
      // moves min-allocation units per iteration along its paths, so quantities that differ by a few units next to 2^31-sized ones
      // make it (and the model) run for minutes; with a common granule the iteration count is that of the small problem
      nsnk = (int)g.uni(1, 10); nsrc = (int)g.uni(1, 24);
      ll maxu = g.coin(30) ? 3 : g.coin(50) ? 16 : g.coin(50) ? 100 : 500;
      static const ll grans[] = {1LL << 31, 1LL << 32, (1LL << 31) - 1, (1LL << 31) + 1, (1LL << 32) + 10, (1LL << 33) + 5, 3LL << 30,
                                 1LL << 30, (1LL << 32) - 1, 1LL << 29};
      ll G = g.coin(60) ? grans[g.uni(0, 9)] : g.coin(50) ? (1LL << g.uni(24, 33)) : g.uni(1LL << 24, 1LL << 33);
      while (G * maxu > (1LL << 41)) G >>= 1;
      dems.resize(nsrc); caps.resize(nsnk); ll td = 0, maxd = 0;
      for (auto &d : dems) { d = g.uni(1, maxu); td += d; maxd = std::max(maxd, d); }
      ll loc = std::max<ll>(1, maxd / 250);
      ll maxc = std::max<ll>(loc, (ll)((double)td / nsnk * (g.coin(50) ? 1.0 : 2.0)));
      for (auto &c : caps) c = g.uni(loc, maxc);
      costs.assign(nsnk, std::vector<ll>(nsrc));
      ll maxk = g.coin(40) ? 4 : 1000; int cm = (int)g.uni(0, 2);
      if (cm == 0) { for (auto &r : costs) for (auto &c : r) c = g.uni(0, maxk); }
      else if (cm == 1) { for (int j = 0; j < nsnk; ++j) { ll base = g.uni(0, maxk); for (int i = 0; i < nsrc; ++i) costs[j][i] = base + g.uni(0, 2); } }
      else {
        std::vector<ll> sx(nsnk), sy(nsnk); for (int j = 0; j < nsnk; ++j) { sx[j] = g.uni(0, 10); sy[j] = g.uni(0, 10); }
        for (int i = 0; i < nsrc; ++i) { ll x = g.uni(0, 10), y = g.uni(0, 10); for (int j = 0; j < nsnk; ++j) costs[j][i] = (maxk / 20 + 1) * (std::llabs(x - sx[j]) + std::llabs(y - sy[j])); }
      }
      int fm = (int)g.uni(0, 9);
      if (fm <= 2) fit_caps(g, caps, dems, 0);
      else if (fm <= 4) fit_caps(g, caps, dems, 1);
      else if (fm <= 6) fit_caps(g, caps, dems, 2, loc), fit_caps(g, caps, dems, 0);
      else incr = 1;
      if (incr) G = std::max<ll>(1LL << 24, G / nsnk) * nsnk;   // increaseCapacity() adds missing / nsnk to every sink: keep that a multiple of G / nsnk
      for (auto &d : dems) d *= G;
      for (auto &c : caps) c *= G;
    }
    print_pb(g, incr, caps, dems, costs);
  }
}

static void gen_flt(SplitMix &g, ll count) {
  for (ll it = 0; it < count; ++it) {
    int nsnk = (int)g.uni(1, it % 3 == 0 ? 16 : 6), nsrc = (int)g.uni(1, it % 5 == 0 ? 120 : 25);
    ll maxd = g.coin(50) ? 8 : 1000;
    std::vector<ll> dems(nsrc), caps(nsnk); ll td = 0;
    for (auto &d : dems) { d = g.uni(1, maxd); td += d; }
    for (auto &c : caps) c = g.uni(std::max<ll>(1, maxd / 250), std::max<ll>(std::max<ll>(1, maxd / 250), 2 * td / nsnk));
    int incr = g.coin(70) ? 1 : 0;
    if (!incr) fit_caps(g, caps, dems, (int)g.uni(0, 2) == 2 ? 0 : 1);
    printf("TF %d %d %d", incr, nsnk, nsrc);
    for (ll c : caps) printf(" %lld", c);
    for (ll d : dems) printf(" %lld", d);
    int mode = (int)g.uni(0, 2);
    ll den = mode == 0 ? 1 : (mode == 1 ? (1LL << g.uni(0, 10)) : 1000);
    printf(" %lld", den);
    // sink / source coordinates; cost numerator = squared or Manhattan distance on an integer grid (ties frequent)
    std::vector<ll> sx(nsnk), sy(nsnk); ll ext = g.coin(50) ? 8 : 1000;
    for (int j = 0; j < nsnk; ++j) { sx[j] = g.uni(0, ext); sy[j] = g.uni(0, ext); }
    std::vector<ll> cx(nsrc), cy(nsrc); for (int i = 0; i < nsrc; ++i) { cx[i] = g.uni(0, ext); cy[i] = g.uni(0, ext); }
    bool allzero = g.coin(3);
    for (int j = 0; j < nsnk; ++j) for (int i = 0; i < nsrc; ++i) {
      ll dx = std::llabs(cx[i] - sx[j]), dy = std::llabs(cy[i] - sy[j]);
      printf(" %lld", allzero ? 0 : (mode == 2 ? dx * dx + dy * dy : dx + dy));
    }
    printf("\n");
  }
}

// costs near the top of CostType = int (integer-cost constructor only; the float constructor scales to INT_MAX/(4 nbSinks)).
// Even lines: every cost <= HALF = INT_MAX/2 (c07_ssp_run_no_overflow: sendingCost_[i] + cost <= 2 HALF = INT_MAX - 1, sharp).
// Odd lines: at least one cost in (HALF, INT_MAX-1]; INT_MAX itself is updateTree's "unreached" sentinel and is outside C13's [0, INT_MAX).
// Quantities stay small (<= 10 sources of demand <= 20), so that every total cost is < 2^62 (the OCaml driver prints native ints).
static void gen_bigcost(SplitMix &g, ll count) {
  const ll HALF = 1073741823, TOP = 2147483646;
  for (ll it = 0; it < count; ++it) {
    bool over = it % 2 == 1;
    ll hi = over ? TOP : HALF;
    int nsnk = (int)g.uni(g.coin(10) ? 1 : 2, 6), nsrc = (int)g.uni(1, 10);
    ll maxd = g.coin(50) ? 3 : 20;
    std::vector<ll> dems(nsrc), caps(nsnk); ll td = 0;
    for (auto &d : dems) { d = g.uni(1, maxd); td += d; }
    ll maxc = std::max<ll>(1, (ll)((double)td / nsnk * (g.coin(50) ? 1.0 : 2.0)));
    for (auto &c : caps) c = g.uni(1, g.coin(50) ? maxc : 2 * maxc);
    std::vector<std::vector<ll>> costs(nsnk, std::vector<ll>(nsrc));
    int cm = (int)g.uni(0, 5);
    if (cm == 0) { for (auto &r : costs) for (auto &c : r) c = hi - g.uni(0, 3); }                       // all at the top, ties
    else if (cm == 1) { ll w = g.coin(50) ? 10 : 1000000; for (auto &r : costs) for (auto &c : r) c = g.coin(40) ? g.uni(0, 5) : hi - g.uni(0, w); }
    else if (cm == 2) { for (auto &r : costs) for (auto &c : r) c = g.uni(0, hi); }
    else if (cm == 3) { for (int j = 0; j < nsnk; ++j) { int bk = (int)g.uni(0, 2); ll base = bk == 0 ? 0 : bk == 1 ? hi / 2 : hi - 2; for (int i = 0; i < nsrc; ++i) costs[j][i] = base + g.uni(0, 2); } }
    else if (cm == 4) { ll b = g.uni(0, hi); for (auto &r : costs) for (auto &c : r) c = g.coin(50) ? hi : b; }
    else { for (auto &r : costs) for (auto &c : r) c = g.coin(30) ? 0 : over ? HALF + g.uni(-2, 3) : HALF - g.uni(0, 3); }   // around the bound itself
    if (over) {
      ll mx = 0; for (auto &r : costs) for (ll c : r) mx = std::max(mx, c);
      if (mx <= HALF) costs[g.uni(0, nsnk - 1)][g.uni(0, nsrc - 1)] = g.coin(50) ? HALF + 1 : g.uni(HALF + 1, TOP);
    }
    int incr = 0;
    int fm = (int)g.uni(0, 9);
    if (fm <= 2) fit_caps(g, caps, dems, 0);
    else if (fm <= 4) fit_caps(g, caps, dems, 1);
    else if (fm <= 6) fit_caps(g, caps, dems, 2, 1), fit_caps(g, caps, dems, 0);
    else incr = 1;
    print_pb(g, incr, caps, dems, costs);
  }
}

int main(int argc, char **argv) {
  std::string mode = argc > 1 ? argv[1] : "run";
  if (mode == "gen") {
    std::string what = argv[2];
    if (what == "enum") {
      int NS = atoi(argv[3]), NR = atoi(argv[4]); ll MAXC = atoll(argv[5]), MAXD = atoll(argv[6]), MAXK = atoll(argv[7]);
      std::vector<ll> caps(NS, 1), dems(NR, 1); SplitMix g(0);
      while (true) {
        for (auto &d : dems) d = 1;
        while (true) {
          ll td = 0, tc = 0; for (ll d : dems) td += d; for (ll c : caps) tc += c;
          if (td <= tc) {
            std::vector<std::vector<ll>> costs(NS, std::vector<ll>(NR, 0));
            while (true) {
              print_pb(g, 0, caps, dems, costs);
              int p = NS * NR - 1; while (p >= 0 && ++costs[p / NR][p % NR] > MAXK) { costs[p / NR][p % NR] = 0; --p; }
              if (p < 0) break;
            }
          }
          int p = NR - 1; while (p >= 0 && ++dems[p] > MAXD) { dems[p] = 1; --p; }
          if (p < 0) break;
        }
        int p = NS - 1; while (p >= 0 && ++caps[p] > MAXC) { caps[p] = 1; --p; }
        if (p < 0) break;
      }
      return 0;
    }
    SplitMix g(strtoull(argv[3], nullptr, 10) * 7919ULL + (what == "rand" ? 1 : what == "big" ? 2 : what == "huge" ? 4 : what == "bigcost" ? 5 : 3)); ll count = atoll(argv[4]);
    if (what == "rand") gen_rand(g, count, false);
    else if (what == "big") gen_rand(g, count, true);
    else if (what == "flt") gen_flt(g, count);
    else if (what == "huge") gen_huge(g, count);
    else if (what == "bigcost") gen_bigcost(g, count);
    return 0;
  }
  short_limit = argc > 2 && std::string(argv[2]) == "short";
  vh_install();
  { struct sigaction sa; memset(&sa, 0, sizeof sa); sa.sa_handler = alarm_handler; sa.sa_flags = SA_NODEFER; sigaction(SIGVTALRM, &sa, nullptr); }
  std::string line;
  while (std::getline(std::cin, line)) {
    if (line.size() < 3) { printf("\n"); continue; }
    bool flt = line[1] == 'F';
    auto v = vh_ints(line.substr(3)); size_t p = 0;
    auto nx = [&]() -> ll { return p < v.size() ? v[p++] : 0; };
    if (n_hangs >= 20 && !short_limit) { printf("SKIPPED after 20 cases of this process did not return\n"); continue; }
    if (sigsetjmp(vh_jmp, 1)) { cpu_alarm(false); if (vh_sig == SIGALRM) ++n_hangs; printf("%s\n", vh_sig == SIGALRM ? "HANG" : vh_signame()); fflush(stdout); continue; }
    try {
      int incr = (int)nx(); int nsnk = (int)nx(), nsrc = (int)nx();
      std::vector<ll> caps(nsnk), dems(nsrc);
      for (auto &c : caps) c = nx(); for (auto &d : dems) d = nx();
      cpu_alarm(true);
      TransportationProblem *pb;
      if (flt) {
        float den = (float)nx();
        std::vector<std::vector<float>> costs(nsnk, std::vector<float>(nsrc));
        for (auto &r : costs) for (auto &c : r) c = (float)nx() / den;
        pb = new TransportationProblem(caps, dems, costs);
      } else {
        std::vector<std::vector<CostType>> costs(nsnk, std::vector<CostType>(nsrc));
        for (auto &r : costs) for (auto &c : r) c = (CostType)nx();
        pb = new TransportationProblem(caps, dems, costs);
      }
      if (incr) pb->increaseCapacity();
      std::string orc = oracle(pb->capacities(), pb->demands(), pb->costs());
      if (pb->totalDemand() > pb->totalCapacity()) { cpu_alarm(false); printf("UNBALANCED\n"); delete pb; continue; }
      pb->solve();
      std::vector<int> asg = pb->toAssignment();
      cpu_alarm(false);
      __int128 cost = 0;
      for (int j = 0; j < nsnk; ++j) for (int i = 0; i < nsrc; ++i) cost += (__int128)pb->allocation(j, i) * pb->cost(j, i);
      printf("OK %lld |", (ll)cost);
      for (ll c : pb->capacities()) printf(" %lld", c);
      printf(" |");
      for (int j = 0; j < nsnk; ++j) for (int i = 0; i < nsrc; ++i) printf(" %lld", pb->allocation(j, i));
      printf(" |");
      for (int a : asg) printf(" %d", a);
      if (flt) { printf(" |"); for (int j = 0; j < nsnk; ++j) for (int i = 0; i < nsrc; ++i) printf(" %d", pb->cost(j, i)); }
      printf(" # %s\n", orc.c_str());
      delete pb;
    } catch (std::exception &ex) { cpu_alarm(false); printf("THROW %s\n", ex.what()); }
  }
  return 0;
}
