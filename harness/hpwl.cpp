// C09 harness (pin offsets, Circuit::hpwl, IncrNetModel) against /repo's working tree
//   hpwl gen po                      exhaustive: 8 orientations x w,h in 0..3 x px in -1..w+1 x py in -1..h+1
//   hpwl gen rand SEED COUNT
//   hpwl run < cases
// PO orient w h px py                -> "pinXOffset pinYOffset placedWidth placedHeight"
// HP <circuit>                       -> hpwl
// IN dir <circuit> nsub cells.. nupd (cell pos)*   -> "v0 v1 .. | nets | csr" (+ " # CHECKFAIL msg" when IncrNetModel::check throws)
// <circuit> = ncells (x y w h orient)* nnets (npins (cell xo yo)*)*
#define private public
#define protected public
#include "place_detailed/incr_net_model.hpp"
#undef private
#undef protected
#include "vh.hpp"
using namespace coloquinte;

struct Reader { std::vector<long long> v; size_t p = 0; long long nx() { return p < v.size() ? v[p++] : 0; } };

static Circuit readCircuit(Reader &r) {
  int nc = r.nx(); Circuit c(nc);
  std::vector<int> x(nc), y(nc), w(nc), h(nc); std::vector<CellOrientation> o(nc);
  for (int i = 0; i < nc; ++i) { x[i] = r.nx(); y[i] = r.nx(); w[i] = r.nx(); h[i] = r.nx(); o[i] = (CellOrientation)r.nx(); }
  c.setCellX(x); c.setCellY(y); c.setCellWidth(w); c.setCellHeight(h); c.setCellOrientation(o);
  int nn = r.nx();
  for (int n = 0; n < nn; ++n) {
    int np = r.nx(); std::vector<int> cs(np), xo(np), yo(np);
    for (int j = 0; j < np; ++j) { cs[j] = r.nx(); xo[j] = r.nx(); yo[j] = r.nx(); }
    c.addNet(cs, xo, yo);
  }
  return c;
}

static void genCircuit(SplitMix &g, int &ncOut, std::string &out) {
  std::ostringstream s;
  long long sc = g.coin(75) ? 1 : (1LL << g.uni(4, 18));
  // 2 %: many long nets inside the supported magnitude range (|v| < 2^22), so that the TOTAL wirelength passes 2^31 and 2^32
  // while every coordinate and every single net span fits an int (the accumulators are long long in the code)
  bool huge = g.coin(2); if (huge) sc = 1LL << 17;
  int nc = (int)g.uni(huge ? 4 : 1, 8); ncOut = nc;
  s << nc;
  std::vector<long long> w(nc), h(nc);
  for (int i = 0; i < nc; ++i) { w[i] = g.uni(0, 6) * sc; h[i] = g.uni(0, 6) * sc; s << " " << g.uni(-20, 20) * sc << " " << g.uni(-20, 20) * sc << " " << w[i] << " " << h[i] << " " << g.uni(0, 7); }
  int nn = huge ? (int)g.uni(800, 1600) : (int)g.uni(0, 7); s << " " << nn;
  for (int n = 0; n < nn; ++n) {
    int np = (int)(g.coin(15) ? g.uni(0, 1) : g.uni(2, 6)); if (huge) np = 2; s << " " << np;
    int same = g.coin(15) ? (int)g.uni(0, nc - 1) : -1;   // all pins on one cell
    for (int j = 0; j < np; ++j) { int c = same >= 0 ? same : (int)g.uni(0, nc - 1); s << " " << c << " " << g.uni(-1, w[c] / sc + 1) * sc << " " << g.uni(-1, h[c] / sc + 1) * sc; }
  }
  out = s.str();
}

int main(int argc, char **argv) {
  std::string mode = argc > 1 ? argv[1] : "run";
  if (mode == "gen" && std::string(argv[2]) == "po") {
    for (int o = 0; o < 8; ++o) for (int w = 0; w <= 3; ++w) for (int h = 0; h <= 3; ++h)
      for (int px = -1; px <= w + 1; ++px) for (int py = -1; py <= h + 1; ++py) printf("PO %d %d %d %d %d\n", o, w, h, px, py);
    return 0;
  }
  if (mode == "gen" && std::string(argv[2]) == "rand") {
    SplitMix g(strtoull(argv[3], nullptr, 10)); long long count = atoll(argv[4]);
    for (long long it = 0; it < count; ++it) {
      int nc; std::string c; genCircuit(g, nc, c);
      int k = (int)g.uni(0, 9);
      if (k < 2) { printf("HP %s\n", c.c_str()); continue; }
      if (k < 3) { printf("PO %d %lld %lld %lld %lld\n", (int)g.uni(0, 7), g.uni(0, 1 << 20), g.uni(0, 1 << 20), g.uni(-(1 << 20), 1 << 21), g.uni(-(1 << 20), 1 << 21)); continue; }
      // subset: all cells in order (the xTopology(circuit) overload), or a duplicate-free random subset in random order
      std::vector<int> sub;
      if (g.coin(40)) { for (int i = 0; i < nc; ++i) sub.push_back(i); }
      else { std::vector<int> all; for (int i = 0; i < nc; ++i) all.push_back(i); for (int i = nc - 1; i > 0; --i) std::swap(all[i], all[g.uni(0, i)]); int m = (int)g.uni(0, nc); sub.assign(all.begin(), all.begin() + m); }
      printf("IN %d %s %zu", (int)g.uni(0, 1), c.c_str(), sub.size());
      for (int x : sub) printf(" %d", x);
      int nu = sub.empty() ? 0 : (int)g.uni(0, 8); printf(" %d", nu);
      for (int u = 0; u < nu; ++u) printf(" %lld %lld", g.uni(0, (long long)sub.size() - 1), g.uni(-30, 30) * (g.coin(70) ? 1 : 1000));
      printf("\n");
    }
    return 0;
  }
  vh_install(); vh_silence();
  std::string line;
  while (std::getline(std::cin, line)) {
    if (line.size() < 3) { printf("\n"); continue; }
    Reader r; r.v = vh_ints(line.substr(3));
    if (sigsetjmp(vh_jmp, 1)) { printf("%s\n", vh_signame()); fflush(stdout); continue; }
    try {
      if (line[0] == 'P') {
        int o = r.nx(), w = r.nx(), h = r.nx(), px = r.nx(), py = r.nx();
        Circuit c(1); c.setCellWidth({w}); c.setCellHeight({h}); c.setCellOrientation({(CellOrientation)o});
        c.addNet({0}, {px}, {py});
        printf("%d %d %d %d\n", c.pinXOffset(0, 0), c.pinYOffset(0, 0), c.placedWidth(0), c.placedHeight(0));
      } else if (line[0] == 'H') {
        Circuit c = readCircuit(r); printf("%lld\n", c.hpwl());
      } else {
        int dir = r.nx(); Circuit c = readCircuit(r);
        int ns = r.nx(); std::vector<int> sub(ns); for (int i = 0; i < ns; ++i) sub[i] = r.nx();
        bool all = ns == c.nbCells(); for (int i = 0; i < ns && all; ++i) all = sub[i] == i;
        IncrNetModel m = all ? (dir == 0 ? IncrNetModel::xTopology(c) : IncrNetModel::yTopology(c))
                             : (dir == 0 ? IncrNetModel::xTopology(c, sub) : IncrNetModel::yTopology(c, sub));
        std::ostringstream s; std::string chk;
        s << m.value();
        try { m.check(); } catch (std::exception &e) { chk = e.what(); }
        int nu = r.nx();
        for (int u = 0; u < nu; ++u) { int cell = r.nx(), pos = r.nx(); m.updateCellPos(cell, pos); s << " " << m.value(); try { m.check(); } catch (std::exception &e) { chk = e.what(); } }
        s << " | ";
        for (int n = 0; n < m.nbNets(); ++n) { if (n) s << ";"; for (int j = 0; j < m.nbNetPins(n); ++j) s << (j ? "," : "") << m.pinCell(n, j) << ":" << m.netPinOffset(n, j); }
        s << " | ";
        for (int cc = 0; cc < m.nbCells(); ++cc) { if (cc) s << ";"; for (int j = 0; j < m.nbCellPins(cc); ++j) s << (j ? "," : "") << m.pinNet(cc, j); }
        if (!chk.empty()) s << " # CHECKFAIL " << chk;
        printf("%s\n", s.str().c_str());
      }
    } catch (std::exception &ex) { printf("THROW %s\n", ex.what()); }
  }
  return 0;
}
