// Sequence harness for the Circuit object (C15 free row space, C09 hpwl): one Circuit is edited through the real public
// setters, in random order, and queried after every step, so that state kept between calls that goes stale is seen.
//   circseq gen SEED COUNT
//   circseq run < cases          one result line per case
// case line:
//   "SQ nr (minX maxX minY maxY orient)* ne (minX maxX minY maxY)* nc (x y w h orient fixed obstruction)*
//       nn (np (cell xo yo)*)* ns (op a b c d e f q)*"
//   op: 1 setCellX  2 setCellY  3 setCellWidth  4 setCellHeight  5 setCellOrientation   (a = cell or -1: all, b = value / shift)
//       6 setCellIsFixed  7 setCellIsObstruction                                         (a = cell or -1: all, b = 0/1/2: 2 = toggle)
//       8 setSolution (cell a gets x=b y=c orientation=d)   9 setRows (row a gets minX=b maxX=c orientation=d)
//       10 setRows (a=0: drop the last row; a=1: add a row on top with minX=b maxX=c orientation=d)
//       11 setupRows(Rectangle(a,b,c,d), e, f&1, f&2)       12 addNet 2 pins (cell a, xo b, yo c) (cell d, xo e, yo f)
//       13 setNets: keep the first a nets                   14 nothing             15 circuit = copy of itself (copy assignment)
//   q (bits): 1 no query at this step  2 report() first  4 also computeRows(extra)  8 also query a copy
//             16 apply the step to a copy first and query the copy (the original is then edited as well)
// result line: records separated by " | "; a record is
//   "step ~ kind ~ CR-case-line ~ segments ~ HP-case-line ~ hpwl"
//   kind: q = computeRows(), x = computeRows(extra), c = copy, m = edited copy; CR-/HP-case-lines are the one-shot formats of
//   harness/freespace.cpp / harness/hpwl.cpp, written from the PUBLIC getters of the object at that moment (nets: the list the harness
//   itself has set, cross-checked with nbNets/nbPinsNet/pinCell); HP line and hpwl are empty for kind x.
//   "step ~ = n" : the n repeated queries of that step returned exactly the preceding records again (idempotence)
//   "step ~ THROW msg" : a setter or query threw
//
// Placement-stage sequences (C01 / C02: legalize and placeDetailed called on an object with a history):
//   circseq gen p SEED COUNT
//   circseq gen r SEED COUNT     (C11: legal placements of row-high designs, edits that keep the placement legal, see genr below)
// case line:
//   "SP nr (minX maxX minY maxY orient)* nc (x y w h orient pol fixed obstruction)* nn (np (cell xo yo)*)* ns (op a b c d e f q)*"
//   (no extra obstacles; cells carry their row polarity 0..4 = ANY SAME OPPOSITE NW SE); the ops above plus
//       16 legalize(params): a = effort, b = 1: custom ordering parameters orderingWidth = c/10, orderingY = d/10, orderingHeight = e/10
//       17 placeDetailed(params): a = effort, b > 0: reorderingMaxNbCells = b, c > 0: reorderingNbRows = c
//       18 setSolution moving two cells in ONE call: cell a gets x=b y=c, cell d gets x=e y=f (a cell index < 0: none), orientations kept
//   A step 16/17 is run on the object with its history AND on a circuit built from scratch through the public setters from the
//   public state (getters; nets as the harness set them) of the object right before the call. Record (7 fields):
//   "step ~ L ~ op a b c d e ~ <rows> <cells> (LG circuit tokens of the state before the call) ~ <nets> ~ outcome of the object ~ outcome
//    of the fresh circuit";  outcome = "OK x y orient ..." or "NOROW ; x y orient ..." / "NOTALL ; ..." / "THROW msg ; ..." (placement after).
//   The other steps are queried as in SQ cases (computeRows / hpwl / report populate whatever the object keeps between calls).
#include "vh.hpp"
#include "coloquinte.hpp"
#include "cgen.hpp"
using namespace coloquinte;

struct Net { std::vector<int> c, xo, yo; };
struct Obj { Circuit c; std::vector<Net> nets; Obj(int n) : c(n) {} };
struct Op { long long op, a[6], q; };

static std::string showRows(const std::vector<Row> &rows) {
  std::ostringstream s; bool first = true;
  for (auto &r : rows) { if (!first) s << ";"; first = false; s << r.minX << " " << r.maxX << " " << r.minY << " " << r.maxY << " " << (int)r.orientation; }
  return s.str();
}
// the public state, as one-shot case lines
static std::string crLine(const Obj &o, const std::vector<Rectangle> &extra) {
  std::ostringstream s; const Circuit &c = o.c;
  s << "CR " << c.rows().size();
  for (auto &r : c.rows()) s << " " << r.minX << " " << r.maxX << " " << r.minY << " " << r.maxY << " " << (int)r.orientation;
  s << " " << extra.size();
  for (auto &r : extra) s << " " << r.minX << " " << r.maxX << " " << r.minY << " " << r.maxY;
  s << " " << c.nbCells();
  for (int i = 0; i < c.nbCells(); ++i)
    s << " " << c.cellX()[i] << " " << c.cellY()[i] << " " << c.cellWidth()[i] << " " << c.cellHeight()[i] << " " << (int)c.cellOrientation()[i]
      << " " << (int)c.cellIsFixed()[i] << " " << (int)c.cellIsObstruction()[i];
  return s.str();
}
static std::string hpLine(const Obj &o) {
  std::ostringstream s; const Circuit &c = o.c;
  s << "HP " << c.nbCells();
  for (int i = 0; i < c.nbCells(); ++i)
    s << " " << c.cellX()[i] << " " << c.cellY()[i] << " " << c.cellWidth()[i] << " " << c.cellHeight()[i] << " " << (int)c.cellOrientation()[i];
  if (c.nbNets() != (int)o.nets.size()) throw std::runtime_error("nbNets() differs from the nets that were set");
  s << " " << o.nets.size();
  for (size_t n = 0; n < o.nets.size(); ++n) {
    auto &nt = o.nets[n];
    if (c.nbPinsNet(n) != (int)nt.c.size()) throw std::runtime_error("nbPinsNet() differs from the net that was set");
    s << " " << nt.c.size();
    for (size_t j = 0; j < nt.c.size(); ++j) {
      if (c.pinCell(n, j) != nt.c[j]) throw std::runtime_error("pinCell() differs from the net that was set");
      s << " " << nt.c[j] << " " << nt.xo[j] << " " << nt.yo[j];
    }
  }
  return s.str();
}

static void setNetsFromShadow(Obj &o) {
  std::vector<int> lim{0}, cs, xo, yo;
  for (auto &n : o.nets) { cs.insert(cs.end(), n.c.begin(), n.c.end()); xo.insert(xo.end(), n.xo.begin(), n.xo.end()); yo.insert(yo.end(), n.yo.begin(), n.yo.end()); lim.push_back(cs.size()); }
  o.c.setNets(lim, cs, xo, yo);
}

// one public mutation, always through the real setter (vector read with the public getter, edited, set again)
static void apply(Obj &o, const Op &p) {
  Circuit &c = o.c; int nc = c.nbCells(); const long long *a = p.a;
  auto ints = [&](std::vector<int> v, bool shift) {
    for (int i = 0; i < nc; ++i) if (a[0] < 0 || a[0] == i) v[i] = (int)((a[0] < 0 && shift) ? v[i] + a[1] : a[1]);
    return v; };
  auto flags = [&](std::vector<bool> v) {
    for (int i = 0; i < nc; ++i) if (a[0] < 0 || a[0] == i) v[i] = a[1] == 2 ? !v[i] : a[1] != 0;
    return v; };
  switch (p.op) {
  case 1: c.setCellX(ints(c.cellX(), true)); break;
  case 2: c.setCellY(ints(c.cellY(), true)); break;
  case 3: c.setCellWidth(ints(c.cellWidth(), false)); break;
  case 4: c.setCellHeight(ints(c.cellHeight(), false)); break;
  case 5: { auto v = c.cellOrientation(); for (int i = 0; i < nc; ++i) if (a[0] < 0 || a[0] == i) v[i] = (CellOrientation)(a[1] & 7); c.setCellOrientation(v); break; }
  case 6: c.setCellIsFixed(flags(c.cellIsFixed())); break;
  case 7: c.setCellIsObstruction(flags(c.cellIsObstruction())); break;
  case 8: { auto s = c.solution(); if (a[0] >= 0 && a[0] < nc) s[a[0]] = CellPlacement((int)a[1], (int)a[2], (CellOrientation)(a[3] & 7)); c.setSolution(s); break; }
  case 9: { auto r = c.rows(); if (a[0] >= 0 && a[0] < (long long)r.size()) { r[a[0]].minX = a[1]; r[a[0]].maxX = a[2]; r[a[0]].orientation = (CellOrientation)(a[3] & 7); } c.setRows(r); break; }
  case 10: { auto r = c.rows();
      if (a[0] == 0) { if (!r.empty()) r.pop_back(); }
      else if (r.empty()) r.emplace_back((int)a[1], (int)a[2], 0, 1, (CellOrientation)(a[3] & 7));
      else { Row t = r.back(); r.emplace_back((int)a[1], (int)a[2], t.maxY, t.maxY + (t.maxY - t.minY), (CellOrientation)(a[3] & 7)); }
      c.setRows(r); break; }
  case 11: c.setupRows(Rectangle((int)a[0], (int)a[1], (int)a[2], (int)a[3]), (int)a[4], a[5] & 1, (a[5] & 2) != 0); break;
  case 12: if (nc > 0) { Net n; n.c = {(int)a[0], (int)a[3]}; n.xo = {(int)a[1], (int)a[4]}; n.yo = {(int)a[2], (int)a[5]}; c.addNet(n.c, n.xo, n.yo); o.nets.push_back(n); } break;
  case 13: if ((long long)o.nets.size() > a[0] && a[0] >= 0) o.nets.resize(a[0]); setNetsFromShadow(o); break;
  case 15: { Obj t = o; o = t; break; }
  case 18: { auto s = c.solution();   // ONE setSolution call that moves two cells (e.g. a fixed macro elsewhere and a cell onto the vacated area)
      if (a[0] >= 0 && a[0] < nc) s[a[0]] = CellPlacement((int)a[1], (int)a[2], s[a[0]].orientation);
      if (a[3] >= 0 && a[3] < nc) s[a[3]] = CellPlacement((int)a[4], (int)a[5], s[a[3]].orientation);
      c.setSolution(s); break; }
  default: break;
  }
}

static bool reportable(const Circuit &c) {   // report() needs rows of one positive height (it divides by it)
  if (c.rows().empty()) return false;
  int h = c.rows()[0].maxY - c.rows()[0].minY; if (h <= 0) return false;
  for (auto &r : c.rows()) if (r.maxY - r.minY != h) return false;
  return true;
}
// the queries of one step on one object; appends records
static void queries(const Obj &o, int step, const char *kind, long long q, const std::vector<Rectangle> &extra, std::vector<std::string> &out) {
  const Circuit &c = o.c;
  if ((q & 2) && reportable(c)) (void)c.report();
  std::string st = std::to_string(step) + " ~ ";
  std::string cr = crLine(o, {}), hp = hpLine(o);
  std::string r1 = showRows(c.computeRows()); long long h1 = c.hpwl();
  out.push_back(st + kind + " ~ " + cr + " ~ " + r1 + " ~ " + hp + " ~ " + std::to_string(h1));
  std::string rx;
  if (q & 4) { rx = showRows(c.computeRows(extra)); out.push_back(st + "x ~ " + crLine(o, extra) + " ~ " + rx + " ~  ~ "); }
  // the same state asked again: every answer must be the same again (a differing one is a record of its own, judged like the others)
  int same = 0;
  if ((q & 2) && reportable(c)) (void)c.report();
  std::string r2 = showRows(c.computeRows()); long long h2 = c.hpwl();
  if (r2 == r1 && h2 == h1 && crLine(o, {}) == cr) ++same; else out.push_back(st + kind + " ~ " + crLine(o, {}) + " ~ " + r2 + " ~ " + hpLine(o) + " ~ " + std::to_string(h2));
  if (q & 4) { std::string ry = showRows(c.computeRows(extra)); if (ry == rx) ++same; else out.push_back(st + "x ~ " + crLine(o, extra) + " ~ " + ry + " ~  ~ "); }
  out.push_back(st + "= " + std::to_string(same));
}

// ---- placement stages on an object with a history (SP cases) ----
static std::string lgState(const Circuit &c) {   // "<rows> <cells>" as in the LG / LC case lines, from the public getters
  std::ostringstream s; s << c.rows().size();
  for (auto &r : c.rows()) s << " " << r.minX << " " << r.maxX << " " << r.minY << " " << r.maxY << " " << (int)r.orientation;
  s << " " << c.nbCells();
  for (int i = 0; i < c.nbCells(); ++i)
    s << " " << c.cellX()[i] << " " << c.cellY()[i] << " " << c.cellWidth()[i] << " " << c.cellHeight()[i] << " " << (int)c.cellOrientation()[i]
      << " " << polInt(c.cellRowPolarity()[i]) << " " << (int)c.cellIsFixed()[i] << " " << (int)c.cellIsObstruction()[i];
  return s.str();
}
static std::string netsText(const Obj &o) {
  std::ostringstream s; s << o.nets.size();
  for (auto &n : o.nets) { s << " " << n.c.size(); for (size_t j = 0; j < n.c.size(); ++j) s << " " << n.c[j] << " " << n.xo[j] << " " << n.yo[j]; }
  return s.str();
}
// a circuit built from scratch, through the public setters only, holding the public state of o
static Circuit freshCopy(const Obj &o) {
  const Circuit &c = o.c; Circuit f(c.nbCells());
  f.setCellWidth(c.cellWidth()); f.setCellHeight(c.cellHeight()); f.setCellIsFixed(c.cellIsFixed()); f.setCellIsObstruction(c.cellIsObstruction());
  f.setCellRowPolarity(c.cellRowPolarity()); f.setCellOrientation(c.cellOrientation()); f.setCellX(c.cellX()); f.setCellY(c.cellY());
  f.setRows(c.rows());
  for (auto &n : o.nets) f.addNet(n.c, n.xo, n.yo);
  return f;
}
static std::string stage(Circuit &c, const Op &p) {
  std::string res;
  try {
    ColoquinteParameters prm((int)p.a[0]);
    if (p.op == 16) {
      if (p.a[1]) { prm.legalization.orderingWidth = p.a[2] / 10.0; prm.legalization.orderingY = p.a[3] / 10.0; prm.legalization.orderingHeight = p.a[4] / 10.0; }
      c.legalize(prm);
    } else {
      if (p.a[1] > 0) prm.detailed.reorderingMaxNbCells = (int)p.a[1];
      if (p.a[2] > 0) prm.detailed.reorderingNbRows = (int)p.a[2];
      c.placeDetailed(prm);
    }
    res = "OK";
  } catch (std::exception &e) { std::string m = e.what(); res = (m == "No row present" ? "NOROW" : m == "Not all cells have been placed" ? "NOTALL" : "THROW " + m) + " ;"; }
  return res + showPlacement(c);
}
static void placementStep(Obj &o, int step, const Op &p, std::vector<std::string> &out) {
  std::ostringstream h; h << step << " ~ L ~ " << p.op; for (int k = 0; k < 5; ++k) h << " " << p.a[k];
  h << " ~ " << lgState(o.c) << " ~ " << netsText(o) << " ~ ";
  std::string fresh;
  try { Circuit f = freshCopy(o); fresh = stage(f, p); } catch (std::exception &e) { fresh = std::string("THROW-BUILD ") + e.what(); }
  std::string mine = stage(o.c, p);
  out.push_back(h.str() + mine + " ~ " + fresh);
}

static void runCase(const std::string &line, std::vector<std::string> &out) {
  const bool sp = line[1] == 'P';
  auto v = vh_ints(line.substr(3)); size_t p = 0;
  auto nx = [&]() -> long long { return p < v.size() ? v[p++] : 0; };
  int nr = nx(); std::vector<Row> rows;
  for (int i = 0; i < nr; ++i) { int a = nx(), b = nx(), c = nx(), d = nx(); auto o = (CellOrientation)nx(); rows.emplace_back(a, b, c, d, o); }
  int ne = sp ? 0 : nx(); std::vector<Rectangle> extra;
  for (int i = 0; i < ne; ++i) { int a = nx(), b = nx(), c = nx(), d = nx(); extra.emplace_back(a, b, c, d); }
  int nc = nx(); Obj o(nc);
  std::vector<int> x(nc), y(nc), w(nc), h(nc); std::vector<CellOrientation> ori(nc); std::vector<bool> fx(nc), ob(nc);
  std::vector<CellRowPolarity> pol(nc, CellRowPolarity::ANY);
  for (int i = 0; i < nc; ++i) { x[i] = nx(); y[i] = nx(); w[i] = nx(); h[i] = nx(); ori[i] = (CellOrientation)nx(); if (sp) pol[i] = kPol[nx() % 5]; fx[i] = nx(); ob[i] = nx(); }
  if (sp) o.c.setCellRowPolarity(pol);
  o.c.setCellX(x); o.c.setCellY(y); o.c.setCellWidth(w); o.c.setCellHeight(h); o.c.setCellOrientation(ori);
  o.c.setCellIsFixed(fx); o.c.setCellIsObstruction(ob); o.c.setRows(rows);
  int nn = nx();
  for (int n = 0; n < nn; ++n) { int np = nx(); Net t; for (int j = 0; j < np; ++j) { t.c.push_back(nx()); t.xo.push_back(nx()); t.yo.push_back(nx()); } o.c.addNet(t.c, t.xo, t.yo); if (np > 0) o.nets.push_back(t); /* addNet ignores an empty net */ }
  int ns = nx();
  queries(o, 0, "q", 4, extra, out);
  for (int s = 1; s <= ns; ++s) {
    Op op; op.op = nx(); for (int k = 0; k < 6; ++k) op.a[k] = nx(); op.q = nx();
    try {
      if (op.op == 16 || op.op == 17) { placementStep(o, s, op, out); continue; }
      if (op.q & 16) { Obj cp = o; apply(cp, op); queries(cp, s, "m", op.q, extra, out); }
      apply(o, op);
      if (op.q & 1) continue;
      queries(o, s, "q", op.q, extra, out);
      if (op.q & 8) { Obj cp = o; queries(cp, s, "c", op.q & ~2LL, extra, out); queries(o, s, "q", 0, extra, out); }
    } catch (std::exception &ex) { out.push_back(std::to_string(s) + " ~ THROW " + ex.what()); }
  }
}

static void gen(unsigned long long seed, long long count) {
  SplitMix g(seed ^ 0x5e9u);
  for (long long it = 0; it < count; ++it) {
    long long sc = g.coin(75) ? 1 : (1LL << g.uni(3, 18));
    int nr = (int)g.uni(1, 4); long long rh = g.uni(1, 3) * sc, x0 = g.uni(-4, 4) * sc, y0 = g.uni(-4, 4) * sc;
    auto X = [&]() { return x0 + g.uni(-3, 14) * sc; }; auto Y = [&]() { return y0 + g.uni(-2, 6) * sc; };
    // rows: stacked; 30 % of them given in TWO pieces of the same y that abut exactly (70 %: one ends at X, the other starts at X) or leave a gap,
    // each piece with an orientation of its own, in either order in rows()
    std::vector<std::array<long long, 5>> rws;
    for (int r = 0; r < nr; ++r) {
      long long a = x0 + g.uni(0, 3) * sc, b = a + g.uni(0, 12) * sc, ya = y0 + r * rh, yb = y0 + (r + 1) * rh; int o1 = (int)g.uni(0, 7);
      if (g.coin(30) && b - a >= 2 * sc) {
        long long m = a + g.uni(1, (b - a) / sc - 1) * sc, m2 = m + (g.coin(70) ? 0 : g.coin(50) ? 1 : sc); int o2 = (int)g.uni(0, 7);
        std::array<long long, 5> p1{a, m, ya, yb, o1}, p2{std::min(m2, b), b, ya, yb, o2};
        if (g.coin(50)) std::swap(p1, p2);
        rws.push_back(p1); rws.push_back(p2);
      } else rws.push_back({a, b, ya, yb, o1});
    }
    printf("SQ %d", (int)rws.size());
    for (auto &w : rws) printf(" %lld %lld %lld %lld %d", w[0], w[1], w[2], w[3], (int)w[4]);
    int ne = (int)g.uni(0, 2); printf(" %d", ne);
    for (int i = 0; i < ne; ++i) { long long a = X(), b = a + g.uni(0, 5) * sc, c = Y(), d = c + g.uni(0, 4) * sc; printf(" %lld %lld %lld %lld", a, b, c, d); }
    int nc = (int)g.uni(1, 6); printf(" %d", nc);
    for (int i = 0; i < nc; ++i) printf(" %lld %lld %lld %lld %d %d %d", X(), Y(), g.uni(0, 5) * sc, g.uni(0, 4) * sc, (int)g.uni(0, 7), (int)g.coin(65), (int)g.coin(65));
    int nn = (int)g.uni(0, 3); printf(" %d", nn);
    for (int n = 0; n < nn; ++n) { int np = (int)g.uni(0, 4); printf(" %d", np); for (int j = 0; j < np; ++j) printf(" %d %lld %lld", (int)g.uni(0, nc - 1), g.uni(-1, 6) * sc, g.uni(-1, 5) * sc); }
    int ns = (int)g.uni(3, 12); printf(" %d", ns);
    for (int s = 0; s < ns; ++s) {
      static const int ops[] = {1, 2, 3, 4, 5, 6, 6, 7, 7, 7, 8, 9, 10, 11, 12, 13, 14, 15};
      int op = ops[g.uni(0, sizeof ops / sizeof *ops - 1)]; long long a[6] = {0, 0, 0, 0, 0, 0};
      long long cell = g.coin(15) ? -1 : g.uni(0, nc - 1);
      switch (op) {
      case 1: a[0] = cell; a[1] = cell < 0 ? g.uni(-3, 3) * sc : X(); break;
      case 2: a[0] = cell; a[1] = cell < 0 ? g.uni(-2, 2) * sc : Y(); break;
      case 3: a[0] = cell; a[1] = g.uni(0, 5) * sc; break;
      case 4: a[0] = cell; a[1] = g.uni(0, 4) * sc; break;
      case 5: a[0] = cell; a[1] = g.uni(0, 7); break;
      case 6: case 7: a[0] = g.coin(30) ? -1 : g.uni(0, nc - 1); a[1] = g.uni(0, 2); break;
      case 8: a[0] = g.uni(0, nc - 1); a[1] = X(); a[2] = Y(); a[3] = g.uni(0, 7); break;
      case 9: a[0] = g.uni(0, 5); a[1] = x0 + g.uni(0, 3) * sc; a[2] = a[1] + g.uni(0, 12) * sc; a[3] = g.uni(0, 7); break;
      case 10: a[0] = g.coin(60); a[1] = x0 + g.uni(0, 3) * sc; a[2] = a[1] + g.uni(0, 12) * sc; a[3] = g.uni(0, 7); break;
      case 11: a[0] = x0 + g.uni(0, 3) * sc; a[1] = a[0] + g.uni(0, 12) * sc; a[2] = y0 + g.uni(-1, 1) * sc; a[4] = g.uni(1, 3) * sc;
               a[3] = a[2] + g.uni(0, 4) * a[4] + (g.coin(30) ? g.uni(0, a[4] - 1) : 0); a[5] = g.uni(0, 3); break;
      case 12: a[0] = g.uni(0, nc - 1); a[1] = g.uni(-1, 6) * sc; a[2] = g.uni(-1, 5) * sc; a[3] = g.uni(0, nc - 1); a[4] = g.uni(-1, 6) * sc; a[5] = g.uni(-1, 5) * sc; break;
      case 13: a[0] = g.uni(0, 3); break;
      default: break;
      }
      long long q = (g.coin(15) ? 1 : 0) | (g.coin(25) ? 2 : 0) | (g.coin(35) ? 4 : 0) | (g.coin(15) ? 8 : 0) | (g.coin(15) ? 16 : 0);
      printf(" %d %lld %lld %lld %lld %lld %lld %lld", op, a[0], a[1], a[2], a[3], a[4], a[5], q);
    }
    printf("\n");
  }
}

// SP cases: a circuit of the legalization domain (harness/cgen.hpp: split rows, multi-row cells, polarities, fixed cells of any size) and
// 3-9 steps; legalize is called at least twice with public edits in between (aimed at what a Circuit keeps between calls: moved fixed
// obstructions, changed flags, changed rows -- through setRows AND through setupRows, which rebuilds the rows on its own), sometimes placeDetailed
static void genp(unsigned long long seed, long long count) {
  SplitMix g(seed ^ 0x9c01u);
  for (long long it = 0; it < count; ++it) {
    GenOpts o; o.maxCells = 8; o.utilLo = 20; o.utilHi = 90;
    if (g.coin(25)) o.scale = 1LL << g.uni(4, 16);
    if (g.coin(30)) o.polarity = false;
    if (g.coin(30)) o.turned = false;
    TCircuit t = genCircuit(g, o); long long sc = o.scale;
    if (g.coin(60)) {   // one more fixed obstruction sitting inside the rows (row-high or two rows high, 1-4 wide): the thing the steps move around
      auto &r = t.rows[g.uni(0, t.rows.size() - 1)]; long long rh = r[3] - r[2], wd = std::max(1LL, (r[1] - r[0]) / sc);
      t.cells.push_back({r[0] + g.uni(0, wd - 1) * sc, r[2], g.uni(1, 4) * sc, rh * g.uni(1, 2), 0, 0, 1, 1});
    }
    int nc = (int)t.cells.size(), nr = (int)t.rows.size();
    long long bx0 = t.rows[0][0], bx1 = t.rows[0][1], by0 = t.rows[0][2], by1 = t.rows[0][3], rh = t.rows[0][3] - t.rows[0][2];
    for (auto &r : t.rows) { bx0 = std::min(bx0, r[0]); bx1 = std::max(bx1, r[1]); by0 = std::min(by0, r[2]); by1 = std::max(by1, r[3]); }
    std::vector<int> fixedCells; for (int i = 0; i < nc; ++i) if (t.cells[i][6]) fixedCells.push_back(i);
    auto X = [&]() { return bx0 + g.uni(-2, (bx1 - bx0) / sc + 1) * sc; };
    auto Y = [&]() { return by0 + g.uni(-1, (by1 - by0) / rh) * rh + (g.coin(20) ? g.uni(0, rh - 1) : 0); };
    auto cellPick = [&]() -> long long { if (!fixedCells.empty() && g.coin(60)) return fixedCells[g.uni(0, fixedCells.size() - 1)]; return g.uni(0, nc - 1); };
    printf("SP %s", showRowsCells(t).c_str());
    int nn = (int)g.uni(0, 4); printf(" %d", nn);
    for (int n = 0; n < nn; ++n) { int np = (int)g.uni(2, 4); printf(" %d", np); for (int j = 0; j < np; ++j) { int cc = (int)g.uni(0, nc - 1); printf(" %d %lld %lld", cc, g.uni(0, std::max(1LL, t.cells[cc][2] / sc)) * sc, g.uni(0, std::max(1LL, t.cells[cc][3] / sc)) * sc); } }
    int ns = (int)g.uni(3, 9); printf(" %d", ns);
    bool have11 = false; long long last11[6] = {0, 0, 0, 0, 0, 0};
    for (int s = 0; s < ns; ++s) {
      static const int ops[] = {16, 16, 16, 16, 8, 8, 8, 8, 1, 1, 2, 2, 6, 6, 7, 7, 9, 9, 10, 3, 4, 5, 12, 14, 15, 17, 17, 11, 11, 11};
      int op = ops[g.uni(0, sizeof ops / sizeof *ops - 1)]; long long a[6] = {0, 0, 0, 0, 0, 0};
      if (s == ns - 1 || (s == 0 && g.coin(70))) op = 16;
      else if (have11 && g.coin(12)) op = 11;   // rows set up once are set up again (same area, other orientations) more often than by chance
      switch (op) {
      case 11: {   // setupRows: the rows replaced as a whole (bounding box of the rows: the row set stays when the rows were full-width and stacked;
                   // split rows / y gaps get filled), the same area again with the other initial / alternating orientation, a smaller / larger /
                   // shifted area, seldom another row height (half / double: the cells stay multiples of it or leave the domain)
        int v = (int)g.uni(0, 9);
        if (have11 && v < 4) { for (int k = 0; k < 5; ++k) a[k] = last11[k]; a[5] = last11[5] ^ (g.coin(70) ? 2 : g.uni(1, 3)); }
        else {
          a[0] = bx0; a[1] = bx1; a[2] = by0; a[3] = by1; a[4] = rh; a[5] = g.uni(0, 3);
          if (v >= 5) { a[0] += g.uni(-2, 2) * sc; a[1] += g.uni(-2, 2) * sc; if (a[1] < a[0]) a[1] = a[0]; }
          if (v >= 7) { a[2] += g.uni(-1, 1) * rh; a[3] += g.uni(-1, 1) * rh + (g.coin(30) ? g.uni(0, rh - 1) : 0); }
          if (v == 9) a[4] = (g.coin(50) && rh % 2 == 0) ? rh / 2 : 2 * rh;
        }
        have11 = true; for (int k = 0; k < 6; ++k) last11[k] = a[k];
        break; }
      case 1: a[0] = cellPick(); a[1] = X(); break;
      case 2: a[0] = cellPick(); a[1] = Y(); break;
      case 3: a[0] = g.uni(0, nc - 1); a[1] = g.uni(1, 6) * sc; break;
      case 4: a[0] = g.uni(0, nc - 1); a[1] = g.uni(1, 2) * rh; break;
      case 5: a[0] = g.uni(0, nc - 1); { int os[4] = {0, 1, 4, 5}; a[1] = g.coin(80) ? os[g.uni(0, 3)] : g.uni(0, 7); } break;
      case 6: case 7: a[0] = g.coin(10) ? -1 : cellPick(); a[1] = g.uni(0, 2); break;
      case 8: a[0] = cellPick(); a[1] = X(); a[2] = Y(); a[3] = t.cells[a[0]][4]; if (g.coin(15)) { int os[4] = {0, 1, 4, 5}; a[3] = os[g.uni(0, 3)]; } break;
      case 9: a[0] = g.uni(0, nr - 1); a[1] = t.rows[a[0]][0] + g.uni(-2, 2) * sc; a[2] = std::max(a[1], t.rows[a[0]][1] + g.uni(-2, 2) * sc); a[3] = t.rows[a[0]][4]; if (g.coin(25)) { int os[4] = {0, 1, 4, 5}; a[3] = os[g.uni(0, 3)]; } break;
      case 10: a[0] = g.coin(60); a[1] = bx0 + g.uni(0, 2) * sc; a[2] = bx1 - g.uni(0, 2) * sc; a[3] = g.coin(50) ? 0 : 5; break;
      case 12: a[0] = g.uni(0, nc - 1); a[1] = g.uni(0, 2) * sc; a[2] = g.uni(0, 2) * sc; a[3] = g.uni(0, nc - 1); a[4] = g.uni(0, 2) * sc; a[5] = g.uni(0, 2) * sc; break;
      case 16: a[0] = g.uni(1, 9); a[1] = g.coin(40); if (a[1]) { a[2] = g.uni(0, 10); a[3] = g.uni(-2, 2); a[4] = g.uni(-20, 20); } break;
      case 17: a[0] = g.uni(1, 3); a[1] = g.coin(50) ? g.uni(2, 4) : 0; a[2] = g.coin(30) ? g.uni(1, 3) : 0; break;
      default: break;
      }
      long long q = (g.coin(30) ? 1 : 0) | (g.coin(25) ? 2 : 0);
      printf(" %d %lld %lld %lld %lld %lld %lld %lld", op, a[0], a[1], a[2], a[3], a[4], a[5], q);
    }
    printf("\n");
  }
}

// ---- SP cases for C11 (gen r): a LEGAL placement of a row-high design, kept legal by the public edits between the legalize calls ----
// The generator keeps a SHADOW of the public state (rows, cells) and its own notion of legality (movable cell inside one free stretch of a
// row piece of its y whose orientation its polarity admits, movable cells pairwise disjoint): as long as the shadow is legal a correct
// legalize leaves the positions alone, so the shadow stays right across legalize steps.  Every proposed edit is applied to a copy of the
// shadow and kept only when that copy is legal.  Edits: a fixed obstruction moved elsewhere (far away or onto free space) and a movable
// cell put onto the area it has vacated (ONE setSolution, op 18; two setSolution calls; setCellX + setCellY + setSolution), a cell moved
// into a free stretch, two cells of one width swapped, a movable cell turned fixed (and back), obstruction flags toggled, rows extended /
// shrunk / added / dropped, widths shrunk, orientations, nets, copy assignment.  25 % of the cases start from a perturbed (illegal) placement
// and after placeDetailed the positions are not known any more: then only edits that keep ANY legal placement legal are made (fixed cell
// moved far away, obstruction flag cleared, row extended, cell turned fixed, width shrunk).  2 % wild edits.  The check (checks/c11.py)
// never relies on the shadow: it evaluates the proved checker on the public state the harness dumps before every legalize step.
struct Shadow {
  TCircuit t; long long sc = 1, rh = 1;
  static bool turnedO(long long o) { return o == 2 || o == 3 || o == 6 || o == 7; }
  long long pw(int i) const { auto &c = t.cells[i]; return turnedO(c[4]) ? c[3] : c[2]; }
  long long ph(int i) const { auto &c = t.cells[i]; return turnedO(c[4]) ? c[2] : c[3]; }
  bool admits(int i, int r) const { long long p = t.cells[i][5], o = t.rows[r][4]; return p == 3 ? (o == 0 || o == 4) : p == 4 ? (o == 1 || o == 5) : true; }
  // free stretches [lo, hi) of row piece r: the piece minus the fixed obstructions (withCells: and minus the movable cells standing in it, cell `skip` ignored)
  std::vector<std::array<long long, 2>> gaps(int r, bool withCells, int skip = -1) const {
    auto &R = t.rows[r]; std::vector<std::array<long long, 2>> blk, out;
    for (int i = 0; i < (int)t.cells.size(); ++i) {
      if (i == skip) continue;
      auto &c = t.cells[i]; long long w = pw(i), h = ph(i);
      if (c[6] ? (!c[7] || w <= 0 || h <= 0) : !withCells) continue;
      if (c[1] >= R[3] || c[1] + h <= R[2]) continue;
      blk.push_back({c[0], c[0] + w});
    }
    std::sort(blk.begin(), blk.end());
    long long x = R[0];
    for (auto &b : blk) { if (b[1] <= x) continue; if (b[0] >= R[1]) break; if (b[0] > x) out.push_back({x, b[0]}); x = b[1]; }
    if (x < R[1]) out.push_back({x, R[1]});
    return out;
  }
  bool rowsOk() const {
    for (size_t i = 0; i < t.rows.size(); ++i) {
      auto &a = t.rows[i]; if (a[0] > a[1] || a[3] - a[2] != rh) return false;
      for (size_t j = i + 1; j < t.rows.size(); ++j) { auto &b = t.rows[j]; if (!(a[1] <= b[0] || b[1] <= a[0] || a[3] <= b[2] || b[3] <= a[2])) return false; }
    }
    return !t.rows.empty();
  }
  bool legal() const {
    if (!rowsOk()) return false;
    int n = (int)t.cells.size();
    for (int i = 0; i < n; ++i) {
      auto &c = t.cells[i]; if (c[6]) continue;
      if (pw(i) <= 0 || ph(i) != rh) return false;
      bool ok = false;
      for (int r = 0; r < (int)t.rows.size() && !ok; ++r) {
        if (t.rows[r][2] != c[1] || !admits(i, r)) continue;
        for (auto &g : gaps(r, false)) if (g[0] <= c[0] && c[0] + pw(i) <= g[1]) ok = true;
      }
      if (!ok) return false;
      for (int j = i + 1; j < n; ++j) { auto &d = t.cells[j]; if (!d[6] && d[1] == c[1] && c[0] < d[0] + pw(j) && d[0] < c[0] + pw(i)) return false; }
    }
    return true;
  }
};

static Shadow genLegal(SplitMix &g) {
  Shadow s; TCircuit &t = s.t;
  long long sc = g.coin(70) ? 1 : (1LL << g.uni(1, 13)); s.sc = sc;
  long long rh = g.uni(1, 4) * (g.coin(50) ? 2 : 1) * sc; s.rh = rh;
  int nrows = (int)g.uni(1, 4), pattern = (int)g.uni(0, 2);
  long long x0 = g.uni(-20, 20) * sc, y0 = g.uni(-20, 20) * sc, W = g.uni(6, 24) * sc, y = y0;
  for (int i = 0; i < nrows; ++i) {
    int opts[4] = {0, 1, 4, 5}; int ro = pattern == 0 ? ((i % 2 == 0) ? 0 : 5) : pattern == 1 ? 0 : opts[g.uni(0, 3)];
    if (g.coin(30) && W >= 8 * sc) {
      long long m = g.uni(2, W / sc - 4) * sc, gap = g.uni(0, 2) * sc;
      t.rows.push_back({x0, x0 + m, y, y + rh, ro});
      if (x0 + m + gap < x0 + W) t.rows.push_back({x0 + m + gap, x0 + W, y, y + rh, ro});
    } else t.rows.push_back({x0, x0 + W, y, y + rh, ro});
    y += rh; if (g.coin(15)) y += rh * g.uni(1, 2);
  }
  for (size_t i = t.rows.size(); i > 1; --i) std::swap(t.rows[i - 1], t.rows[g.uni(0, i - 1)]);
  // fixed obstructions sitting inside the rows (row-high or two rows high), sometimes a fixed cell of any size anywhere
  int nf = g.coin(80) ? (int)g.uni(1, 2) : 0;
  for (int f = 0; f < nf; ++f) {
    auto &R = t.rows[g.uni(0, t.rows.size() - 1)]; long long wd = (R[1] - R[0]) / sc; if (wd < 1) continue;
    t.cells.push_back({R[0] + g.uni(0, wd - 1) * sc, R[2], g.uni(1, 4) * sc, rh * g.uni(1, 2), 0, 0, 1, (long long)g.coin(85)});
  }
  if (g.coin(20)) t.cells.push_back({x0 + g.uni(-5, W / sc + 5) * sc, y0 + g.uni(-2, 6) * rh, g.uni(0, 6) * sc, g.uni(0, 3) * rh / (g.coin(50) ? 1 : 2), g.uni(0, 7), 0, 1, (long long)g.coin(80)});
  // movable row-high cells standing in the free stretches, with gaps
  int cap = (int)g.uni(1, 8), nm = 0; int gapPct = (int)g.uni(20, 60);
  std::vector<int> ord; for (int r = 0; r < (int)t.rows.size(); ++r) ord.push_back(r);
  for (size_t i = ord.size(); i > 1; --i) std::swap(ord[i - 1], ord[g.uni(0, i - 1)]);
  for (int r : ord) {
    auto R = t.rows[r]; auto gs = s.gaps(r, true);
    for (auto &gp : gs) {
      long long x = gp[0];
      while (x < gp[1] && nm < cap) {
        long long w = std::min(gp[1] - x, g.uni(1, 4) * sc);
        if (g.coin(gapPct)) { x += w; continue; }
        int pol = 0, os[4] = {0, 1, 4, 5};
        if (g.coin(35)) { pol = (int)g.uni(1, 3); if (pol == 3 && (R[4] == 1 || R[4] == 5)) pol = 4; }
        std::array<long long, 8> c{};
        if (pol == 0 && g.coin(12)) { int tu[4] = {2, 3, 6, 7}; c = {x, R[2], rh, w, tu[g.uni(0, 3)], 0, 0, (long long)g.coin(80)}; }
        else c = {x, R[2], w, rh, os[g.uni(0, 3)], pol, 0, (long long)g.coin(80)};
        t.cells.push_back(c); ++nm; x += w;
      }
    }
  }
  for (size_t i = t.cells.size(); i > 1; --i) std::swap(t.cells[i - 1], t.cells[g.uni(0, i - 1)]);
  return s;
}

static void genr(unsigned long long seed, long long count) {
  SplitMix g(seed ^ 0xc11u);
  for (long long it = 0; it < count; ++it) {
    Shadow s = genLegal(g); TCircuit &t = s.t; long long sc = s.sc, rh = s.rh;
    int nc = (int)t.cells.size(); if (nc == 0) { t.cells.push_back({0, 0, sc, rh, 0, 0, 0, 1}); nc = 1; }
    if (g.coin(25)) {   // perturbed start: the first legalize has work to do
      int k = (int)g.uni(1, 3);
      for (int j = 0; j < k; ++j) { auto &c = t.cells[g.uni(0, nc - 1)]; if (c[6]) continue; c[0] += g.uni(-3, 3) * sc + (g.coin(30) ? g.uni(-1, 1) : 0); c[1] += g.coin(50) ? g.uni(-1, 1) * rh : g.uni(-2, 2); }
    }
    long long bx0 = t.rows[0][0], bx1 = t.rows[0][1], by0 = t.rows[0][2], by1 = t.rows[0][3];
    for (auto &r : t.rows) { bx0 = std::min(bx0, r[0]); bx1 = std::max(bx1, r[1]); by0 = std::min(by0, r[2]); by1 = std::max(by1, r[3]); }
    printf("SP %s", showRowsCells(t).c_str());
    int nn = (int)g.uni(0, 3); printf(" %d", nn);
    for (int n = 0; n < nn; ++n) { int np = (int)g.uni(2, 4); printf(" %d", np); for (int j = 0; j < np; ++j) { int cc = (int)g.uni(0, nc - 1); printf(" %d %lld %lld", cc, g.uni(0, std::max(1LL, t.cells[cc][2] / sc)) * sc, g.uni(0, std::max(1LL, t.cells[cc][3] / sc)) * sc); } }
    std::vector<std::array<long long, 7>> steps;   // op a0..a5
    auto emit = [&](long long op, long long a0 = 0, long long a1 = 0, long long a2 = 0, long long a3 = 0, long long a4 = 0, long long a5 = 0) { steps.push_back({op, a0, a1, a2, a3, a4, a5}); };
    std::vector<int> mov, fix;
    auto classify = [&]() { mov.clear(); fix.clear(); for (int i = 0; i < nc; ++i) (t.cells[i][6] ? fix : mov).push_back(i); };
    auto pick = [&](const std::vector<int> &v) { return v[g.uni(0, v.size() - 1)]; };
    auto farAway = [&](int f, long long &x, long long &y) {   // a place that touches no row
      long long w = std::max(1LL, s.pw(f)), h = std::max(1LL, s.ph(f));
      switch (g.uni(0, 3)) { case 0: x = bx1 + g.uni(0, 5) * sc; y = by0 + g.uni(-1, 3) * rh; break; case 1: x = bx0 - w - g.uni(0, 5) * sc; y = by0 + g.uni(-1, 3) * rh; break;
        case 2: x = bx0 + g.uni(-2, 8) * sc; y = by1 + g.uni(0, 2) * rh; break; default: x = bx0 + g.uni(-2, 8) * sc; y = by0 - h - g.uni(0, 2) * rh; break; }
    };
    auto inRows = [&](long long &x, long long &y) { auto &Q = t.rows[g.uni(0, t.rows.size() - 1)]; x = Q[0] + g.uni(-1, std::max(0LL, (Q[1] - Q[0]) / sc)) * sc; y = Q[2] - (g.coin(15) ? rh : 0); };
    auto spot = [&](const std::array<long long, 2> &gp, long long w, long long lo, long long hi, long long &x) {   // x in [max(gp.lo, lo), min(gp.hi - w, hi)]
      long long a = std::max(gp[0], lo), b = std::min(gp[1] - w, hi); if (a > b) return false;
      x = g.coin(40) ? (g.coin(50) ? a : b) : g.uni(a, b); return true; };
    int ns = (int)g.uni(4, 10); bool known = true, lg = s.legal(), pending = false;
    int os4[4] = {0, 1, 4, 5};
    while ((int)steps.size() < ns) {
      int left = ns - (int)steps.size();
      int kind = 2;   // 0 legalize 1 placeDetailed 2 edit
      if (left == 1 || (steps.empty() && g.coin(65)) || (pending && g.coin(55))) kind = 0;
      else { int r = (int)g.uni(0, 99); kind = r < (pending ? 20 : 6) ? 0 : r < (pending ? 24 : 12) ? 1 : 2; }   // seldom two stage calls in a row
      if (kind == 0) { long long cu = g.coin(40); emit(16, g.uni(1, 9), cu, cu ? g.uni(0, 10) : 0, cu ? g.uni(-2, 2) : 0, cu ? g.uni(-20, 20) : 0); if (!lg) known = false; lg = true; pending = false; continue; }
      if (kind == 1) { emit(17, g.uni(1, 3), g.coin(50) ? g.uni(2, 4) : 0, g.coin(30) ? g.uni(1, 3) : 0); known = false; lg = true; pending = false; continue; }
      classify(); pending = true;
      if (g.coin(2)) {   // wild edit
        int c = (int)g.uni(0, nc - 1); long long x = bx0 + g.uni(-2, (bx1 - bx0) / sc + 1) * sc, y = by0 + g.uni(-1, (by1 - by0) / rh) * rh + (g.coin(20) ? g.uni(0, rh - 1) : 0);
        emit(8, c, x, y, t.cells[c][4]); t.cells[c][0] = x; t.cells[c][1] = y; lg = lg && s.legal(); continue;
      }
      if (!(known && lg)) {   // positions unknown: edits that keep every legal placement legal
        int r = (int)g.uni(0, 99);
        if (r < 35 && !fix.empty()) { int f = pick(fix); long long x, y; farAway(f, x, y); if (g.coin(60)) emit(8, f, x, y, t.cells[f][4]); else { emit(1, f, x); y = t.cells[f][1]; } t.cells[f][0] = x; t.cells[f][1] = y; }
        else if (r < 45 && !fix.empty()) { int f = pick(fix); emit(7, f, 0); t.cells[f][7] = 0; }
        else if (r < 60) { int q = (int)g.uni(0, t.rows.size() - 1); Shadow s2 = s; auto &Q = s2.t.rows[q]; if (g.coin(50)) Q[0] -= g.uni(1, 3) * sc; else Q[1] += g.uni(1, 3) * sc;
          if (s2.rowsOk()) { emit(9, q, Q[0], Q[1], Q[4]); s = s2; } else emit(14); }
        else if (r < 70 && mov.size() > 1) { int m = pick(mov); emit(6, m, 1); t.cells[m][6] = 1; }
        else if (r < 80 && !mov.empty()) { int m = pick(mov); int wi = Shadow::turnedO(t.cells[m][4]) ? 3 : 2; long long w = t.cells[m][wi]; if (w > sc) { w = g.uni(1, w / sc) * sc; emit(3 + (wi == 3), m, w); t.cells[m][wi] = w; } else emit(14); }
        else if (r < 88) emit(12, g.uni(0, nc - 1), 0, 0, g.uni(0, nc - 1), sc, 0);
        else emit(g.coin(50) ? 14 : 15);
        continue;
      }
      // positions known and legal: propose, keep what stays legal
      bool done = false;
      for (int tries = 0; tries < 10 && !done; ++tries) {
        Shadow s2 = s; auto &u = s2.t; int r = (int)g.uni(0, 99);
        std::vector<int> obsIn;   // fixed obstructions crossing a row piece
        for (int f : fix) { if (!t.cells[f][7] || s.pw(f) <= 0 || s.ph(f) <= 0) continue; for (auto &R : t.rows) if (t.cells[f][1] < R[3] && t.cells[f][1] + s.ph(f) > R[2] && t.cells[f][0] < R[1] && t.cells[f][0] + s.pw(f) > R[0]) { obsIn.push_back(f); break; } }
        if (r < 45) {   // a fixed obstruction leaves, a cell takes (part of) its place
          if (obsIn.empty() || mov.empty()) continue;
          int f = pick(obsIn), m = pick(mov); long long fx = t.cells[f][0], fy = t.cells[f][1], fw = s.pw(f), fh = s.ph(f), nx, ny;
          std::vector<int> rs; for (int q = 0; q < (int)t.rows.size(); ++q) { auto &R = t.rows[q]; if (fy < R[3] && fy + fh > R[2] && fx < R[1] && fx + fw > R[0] && s.admits(m, q)) rs.push_back(q); }
          if (rs.empty()) continue;
          int q = pick(rs);
          if (g.coin(45)) farAway(f, nx, ny); else inRows(nx, ny);
          u.cells[f][0] = nx; u.cells[f][1] = ny;
          long long x = 0; bool ok = false;
          for (auto &gp : s2.gaps(q, true, m)) if (!ok && gp[1] > fx && gp[0] < fx + fw) ok = spot(gp, s.pw(m), fx - s.pw(m) + 1, fx + fw - 1, x);
          if (!ok) continue;
          u.cells[m][0] = x; u.cells[m][1] = t.rows[q][2];
          if (!s2.legal()) continue;
          int v = (int)g.uni(0, 9);
          if (v < 5 || left < 4) emit(18, f, nx, ny, m, x, t.rows[q][2]);
          else if (v < 8) { emit(8, f, nx, ny, t.cells[f][4]); long long o = t.cells[m][4]; if (t.cells[m][5] != 0) { o = os4[g.uni(0, 3)]; u.cells[m][4] = o; } emit(8, m, x, t.rows[q][2], o); }
          else { emit(1, f, nx); emit(2, f, ny); long long o = t.cells[m][4]; emit(8, m, x, t.rows[q][2], o); }
          s = s2; done = true;
        } else if (r < 60) {   // a cell moves into a free stretch
          if (mov.empty()) continue;
          int m = pick(mov), q = (int)g.uni(0, t.rows.size() - 1); if (!s.admits(m, q)) continue;
          auto gs = s.gaps(q, true, m); if (gs.empty()) continue; long long x;
          if (!spot(gs[g.uni(0, gs.size() - 1)], s.pw(m), -(1LL << 40), 1LL << 40, x)) continue;
          u.cells[m][0] = x; u.cells[m][1] = t.rows[q][2]; if (!s2.legal()) continue;
          if (t.rows[q][2] == t.cells[m][1] && g.coin(50)) emit(1, m, x); else emit(8, m, x, t.rows[q][2], t.cells[m][4]);
          s = s2; done = true;
        } else if (r < 67) {   // two cells of one width swap
          if (mov.size() < 2) continue; int a = pick(mov), b = pick(mov); if (a == b || s.pw(a) != s.pw(b)) continue;
          std::swap(u.cells[a][0], u.cells[b][0]); std::swap(u.cells[a][1], u.cells[b][1]); if (!s2.legal()) continue;
          emit(18, a, u.cells[a][0], u.cells[a][1], b, u.cells[b][0], u.cells[b][1]); s = s2; done = true;
        } else if (r < 77) {   // a fixed cell moves (onto free space, or away)
          if (fix.empty()) continue; int f = pick(fix); long long nx, ny; if (g.coin(70)) inRows(nx, ny); else farAway(f, nx, ny);
          u.cells[f][0] = nx; u.cells[f][1] = ny; if (!s2.legal()) continue;
          if (g.coin(50)) emit(8, f, nx, ny, t.cells[f][4]); else if (ny == t.cells[f][1]) emit(1, f, nx); else emit(18, f, nx, ny, -1, 0, 0);
          s = s2; done = true;
        } else if (r < 84) {   // fixed <-> movable
          int c = (int)g.uni(0, nc - 1); u.cells[c][6] = !u.cells[c][6]; if (!s2.legal()) continue;
          emit(6, c, u.cells[c][6]); s = s2; done = true;
        } else if (r < 88) {   // obstruction flag of a fixed cell
          if (fix.empty()) continue; int f = pick(fix); u.cells[f][7] = !u.cells[f][7]; if (!s2.legal()) continue;
          emit(7, f, g.coin(50) ? 2 : u.cells[f][7]); s = s2; done = true;
        } else if (r < 95) {   // rows: a piece extended / shrunk / re-oriented, a row added on top, the last one dropped
          int v = (int)g.uni(0, 9);
          if (v < 7) { int q = (int)g.uni(0, t.rows.size() - 1); auto &Q = u.rows[q]; Q[0] += g.uni(-2, 2) * sc; Q[1] += g.uni(-2, 2) * sc; if (g.coin(20)) Q[4] = os4[g.uni(0, 3)];
            if (!s2.legal()) continue; emit(9, q, Q[0], Q[1], Q[4]); }
          else if (v < 9) { auto B = t.rows.back(); long long a = bx0 + g.uni(0, 2) * sc, b = bx1 - g.uni(0, 2) * sc; if (a > b) continue; u.rows.push_back({a, b, B[3], B[3] + rh, g.coin(50) ? 0 : 5});
            if (!s2.legal()) continue; emit(10, 1, a, b, u.rows.back()[4]); }
          else { if (t.rows.size() < 2) continue; u.rows.pop_back(); if (!s2.legal()) continue; emit(10, 0); }
          s = s2; done = true;
        } else {   // width shrunk, orientation of a cell without polarity, a net, copy assignment
          int v = (int)g.uni(0, 3);
          if (v == 0 && !mov.empty()) { int m = pick(mov); int wi = Shadow::turnedO(t.cells[m][4]) ? 3 : 2; long long w = t.cells[m][wi]; if (w <= sc) continue; w = g.uni(1, w / sc) * sc; u.cells[m][wi] = w; if (!s2.legal()) continue; emit(3 + (wi == 3), m, w); }
          else if (v == 1 && !mov.empty()) { int m = pick(mov); if (t.cells[m][5] != 0 || Shadow::turnedO(t.cells[m][4])) continue; u.cells[m][4] = os4[g.uni(0, 3)]; emit(5, m, u.cells[m][4]); }
          else if (v == 2) emit(12, g.uni(0, nc - 1), 0, 0, g.uni(0, nc - 1), sc, 0);
          else emit(15);
          s = s2; done = true;
        }
      }
      if (!done) emit(g.coin(50) ? 14 : 15);
    }
    // the last step is always a legalize call
    if (steps.back()[0] != 16) { long long cu = g.coin(40); steps.back() = {16, g.uni(1, 9), cu, cu ? g.uni(0, 10) : 0, cu ? g.uni(-2, 2) : 0, cu ? g.uni(-20, 20) : 0, 0}; }
    printf(" %d", (int)steps.size());
    for (auto &st : steps) printf(" %lld %lld %lld %lld %lld %lld %lld %lld", st[0], st[1], st[2], st[3], st[4], st[5], st[6], (long long)((g.coin(30) ? 1 : 0) | (g.coin(25) ? 2 : 0)));
    printf("\n");
  }
}

int main(int argc, char **argv) {
  std::string mode = argc > 1 ? argv[1] : "run";
  if (mode == "gen" && argc > 4 && std::string(argv[2]) == "p") { genp(strtoull(argv[3], nullptr, 10), atoll(argv[4])); return 0; }
  if (mode == "gen" && argc > 4 && std::string(argv[2]) == "r") { genr(strtoull(argv[3], nullptr, 10), atoll(argv[4])); return 0; }
  if (mode == "gen") { gen(strtoull(argv[2], nullptr, 10), atoll(argv[3])); return 0; }
  vh_install(); vh_silence();
  std::string line;
  while (std::getline(std::cin, line)) {
    if (line.size() < 3) { printf("\n"); continue; }
    static std::vector<std::string> out; out.clear();
    if (sigsetjmp(vh_jmp, 1)) out.push_back(std::string("-1 ~ ") + vh_signame());
    else {
      try { runCase(line, out); } catch (std::exception &ex) { out.push_back(std::string("-1 ~ THROW ") + ex.what()); }
    }
    for (size_t i = 0; i < out.size(); ++i) printf("%s%s", i ? " | " : "", out[i].c_str());
    printf("\n"); fflush(stdout);
  }
  return 0;
}
