// Sequence harness for the Circuit object (C15 free row space, C09 hpwl): one Circuit is edited through the real public
// setters, in random order, and queried after every step, so that state kept between calls that goes stale is seen.
//   circseq gen SEED COUNT
//   circseq run < cases          one result line per case
// case line:
//   "SQ nr (minX maxX minY maxY orient)* ne (minX maxX minY maxY)* nc (x y w h orient fixed obstruction)*
//       nn (np (cell xo yo)*)* ns (op a b c d e f q)*"
//   op: 1 setCellX  2 setCellY  3 setCellWidth  4 setCellHeight  5 setCellOrientation   (a = cell or -1: all, b = value / shift)
//       6 setCellIsFixed  7 setCellIsObstruction                                         (a = cell or -1: all, b = 0/1/2: 2 = toggle)
//       8 setSolution (cell a gets x=b y=c orientation=d)   9 setRows (row a gets minX=b maxX=c orientation=d)
//       10 setRows (a=0: drop the last row; a=1: add a row on top with minX=b maxX=c orientation=d)
//       11 setupRows(Rectangle(a,b,c,d), e, f&1, f&2)       12 addNet 2 pins (cell a, xo b, yo c) (cell d, xo e, yo f)
//       13 setNets: keep the first a nets                   14 nothing             15 circuit = copy of itself (copy assignment)
//   q (bits): 1 no query at this step  2 report() first  4 also computeRows(extra)  8 also query a copy
//             16 apply the step to a copy first and query the copy (the original is then edited as well)
// result line: records separated by " | "; a record is
//   "step ~ kind ~ CR-case-line ~ segments ~ HP-case-line ~ hpwl"
//   kind: q = computeRows(), x = computeRows(extra), c = copy, m = edited copy; CR-/HP-case-lines are the one-shot formats of
//   harness/freespace.cpp / harness/hpwl.cpp, written from the PUBLIC getters of the object at that moment (nets: the list the harness
//   itself has set, cross-checked with nbNets/nbPinsNet/pinCell); HP line and hpwl are empty for kind x.
//   "step ~ = n" : the n repeated queries of that step returned exactly the preceding records again (idempotence)
//   "step ~ THROW msg" : a setter or query threw
//
// Placement-stage sequences (C01 / C02: legalize and placeDetailed called on an object with a history):
//   circseq gen p SEED COUNT
// case line:
//   "SP nr (minX maxX minY maxY orient)* nc (x y w h orient pol fixed obstruction)* nn (np (cell xo yo)*)* ns (op a b c d e f q)*"
//   (no extra obstacles; cells carry their row polarity 0..4 = ANY SAME OPPOSITE NW SE); the ops above plus
//       16 legalize(params): a = effort, b = 1: custom ordering parameters orderingWidth = c/10, orderingY = d/10, orderingHeight = e/10
//       17 placeDetailed(params): a = effort, b > 0: reorderingMaxNbCells = b, c > 0: reorderingNbRows = c
//   A step 16/17 is run on the object with its history AND on a circuit built from scratch through the public setters from the
//   public state (getters; nets as the harness set them) of the object right before the call. Record (7 fields):
//   "step ~ L ~ op a b c d e ~ <rows> <cells> (LG circuit tokens of the state before the call) ~ <nets> ~ outcome of the object ~ outcome
//    of the fresh circuit";  outcome = "OK x y orient ..." or "NOROW ; x y orient ..." / "NOTALL ; ..." / "THROW msg ; ..." (placement after).
//   The other steps are queried as in SQ cases (computeRows / hpwl / report populate whatever the object keeps between calls).
#include "vh.hpp"
#include "coloquinte.hpp"
#include "cgen.hpp"
using namespace coloquinte;

struct Net { std::vector<int> c, xo, yo; };
struct Obj { Circuit c; std::vector<Net> nets; Obj(int n) : c(n) {} };
struct Op { long long op, a[6], q; };

static std::string showRows(const std::vector<Row> &rows) {
  std::ostringstream s; bool first = true;
  for (auto &r : rows) { if (!first) s << ";"; first = false; s << r.minX << " " << r.maxX << " " << r.minY << " " << r.maxY << " " << (int)r.orientation; }
  return s.str();
}
// the public state, as one-shot case lines
static std::string crLine(const Obj &o, const std::vector<Rectangle> &extra) {
  std::ostringstream s; const Circuit &c = o.c;
  s << "CR " << c.rows().size();
  for (auto &r : c.rows()) s << " " << r.minX << " " << r.maxX << " " << r.minY << " " << r.maxY << " " << (int)r.orientation;
  s << " " << extra.size();
  for (auto &r : extra) s << " " << r.minX << " " << r.maxX << " " << r.minY << " " << r.maxY;
  s << " " << c.nbCells();
  for (int i = 0; i < c.nbCells(); ++i)
    s << " " << c.cellX()[i] << " " << c.cellY()[i] << " " << c.cellWidth()[i] << " " << c.cellHeight()[i] << " " << (int)c.cellOrientation()[i]
      << " " << (int)c.cellIsFixed()[i] << " " << (int)c.cellIsObstruction()[i];
  return s.str();
}
static std::string hpLine(const Obj &o) {
  std::ostringstream s; const Circuit &c = o.c;
  s << "HP " << c.nbCells();
  for (int i = 0; i < c.nbCells(); ++i)
    s << " " << c.cellX()[i] << " " << c.cellY()[i] << " " << c.cellWidth()[i] << " " << c.cellHeight()[i] << " " << (int)c.cellOrientation()[i];
  if (c.nbNets() != (int)o.nets.size()) throw std::runtime_error("nbNets() differs from the nets that were set");
  s << " " << o.nets.size();
  for (size_t n = 0; n < o.nets.size(); ++n) {
    auto &nt = o.nets[n];
    if (c.nbPinsNet(n) != (int)nt.c.size()) throw std::runtime_error("nbPinsNet() differs from the net that was set");
    s << " " << nt.c.size();
    for (size_t j = 0; j < nt.c.size(); ++j) {
      if (c.pinCell(n, j) != nt.c[j]) throw std::runtime_error("pinCell() differs from the net that was set");
      s << " " << nt.c[j] << " " << nt.xo[j] << " " << nt.yo[j];
    }
  }
  return s.str();
}

static void setNetsFromShadow(Obj &o) {
  std::vector<int> lim{0}, cs, xo, yo;
  for (auto &n : o.nets) { cs.insert(cs.end(), n.c.begin(), n.c.end()); xo.insert(xo.end(), n.xo.begin(), n.xo.end()); yo.insert(yo.end(), n.yo.begin(), n.yo.end()); lim.push_back(cs.size()); }
  o.c.setNets(lim, cs, xo, yo);
}

// one public mutation, always through the real setter (vector read with the public getter, edited, set again)
static void apply(Obj &o, const Op &p) {
  Circuit &c = o.c; int nc = c.nbCells(); const long long *a = p.a;
  auto ints = [&](std::vector<int> v, bool shift) {
    for (int i = 0; i < nc; ++i) if (a[0] < 0 || a[0] == i) v[i] = (int)((a[0] < 0 && shift) ? v[i] + a[1] : a[1]);
    return v; };
  auto flags = [&](std::vector<bool> v) {
    for (int i = 0; i < nc; ++i) if (a[0] < 0 || a[0] == i) v[i] = a[1] == 2 ? !v[i] : a[1] != 0;
    return v; };
  switch (p.op) {
  case 1: c.setCellX(ints(c.cellX(), true)); break;
  case 2: c.setCellY(ints(c.cellY(), true)); break;
  case 3: c.setCellWidth(ints(c.cellWidth(), false)); break;
  case 4: c.setCellHeight(ints(c.cellHeight(), false)); break;
  case 5: { auto v = c.cellOrientation(); for (int i = 0; i < nc; ++i) if (a[0] < 0 || a[0] == i) v[i] = (CellOrientation)(a[1] & 7); c.setCellOrientation(v); break; }
  case 6: c.setCellIsFixed(flags(c.cellIsFixed())); break;
  case 7: c.setCellIsObstruction(flags(c.cellIsObstruction())); break;
  case 8: { auto s = c.solution(); if (a[0] >= 0 && a[0] < nc) s[a[0]] = CellPlacement((int)a[1], (int)a[2], (CellOrientation)(a[3] & 7)); c.setSolution(s); break; }
  case 9: { auto r = c.rows(); if (a[0] >= 0 && a[0] < (long long)r.size()) { r[a[0]].minX = a[1]; r[a[0]].maxX = a[2]; r[a[0]].orientation = (CellOrientation)(a[3] & 7); } c.setRows(r); break; }
  case 10: { auto r = c.rows();
      if (a[0] == 0) { if (!r.empty()) r.pop_back(); }
      else if (r.empty()) r.emplace_back((int)a[1], (int)a[2], 0, 1, (CellOrientation)(a[3] & 7));
      else { Row t = r.back(); r.emplace_back((int)a[1], (int)a[2], t.maxY, t.maxY + (t.maxY - t.minY), (CellOrientation)(a[3] & 7)); }
      c.setRows(r); break; }
  case 11: c.setupRows(Rectangle((int)a[0], (int)a[1], (int)a[2], (int)a[3]), (int)a[4], a[5] & 1, (a[5] & 2) != 0); break;
  case 12: if (nc > 0) { Net n; n.c = {(int)a[0], (int)a[3]}; n.xo = {(int)a[1], (int)a[4]}; n.yo = {(int)a[2], (int)a[5]}; c.addNet(n.c, n.xo, n.yo); o.nets.push_back(n); } break;
  case 13: if ((long long)o.nets.size() > a[0] && a[0] >= 0) o.nets.resize(a[0]); setNetsFromShadow(o); break;
  case 15: { Obj t = o; o = t; break; }
  default: break;
  }
}

static bool reportable(const Circuit &c) {   // report() needs rows of one positive height (it divides by it)
  if (c.rows().empty()) return false;
  int h = c.rows()[0].maxY - c.rows()[0].minY; if (h <= 0) return false;
  for (auto &r : c.rows()) if (r.maxY - r.minY != h) return false;
  return true;
}
// the queries of one step on one object; appends records
static void queries(const Obj &o, int step, const char *kind, long long q, const std::vector<Rectangle> &extra, std::vector<std::string> &out) {
  const Circuit &c = o.c;
  if ((q & 2) && reportable(c)) (void)c.report();
  std::string st = std::to_string(step) + " ~ ";
  std::string cr = crLine(o, {}), hp = hpLine(o);
  std::string r1 = showRows(c.computeRows()); long long h1 = c.hpwl();
  out.push_back(st + kind + " ~ " + cr + " ~ " + r1 + " ~ " + hp + " ~ " + std::to_string(h1));
  std::string rx;
  if (q & 4) { rx = showRows(c.computeRows(extra)); out.push_back(st + "x ~ " + crLine(o, extra) + " ~ " + rx + " ~  ~ "); }
  // the same state asked again: every answer must be the same again (a differing one is a record of its own, judged like the others)
  int same = 0;
  if ((q & 2) && reportable(c)) (void)c.report();
  std::string r2 = showRows(c.computeRows()); long long h2 = c.hpwl();
  if (r2 == r1 && h2 == h1 && crLine(o, {}) == cr) ++same; else out.push_back(st + kind + " ~ " + crLine(o, {}) + " ~ " + r2 + " ~ " + hpLine(o) + " ~ " + std::to_string(h2));
  if (q & 4) { std::string ry = showRows(c.computeRows(extra)); if (ry == rx) ++same; else out.push_back(st + "x ~ " + crLine(o, extra) + " ~ " + ry + " ~  ~ "); }
  out.push_back(st + "= " + std::to_string(same));
}

// ---- placement stages on an object with a history (SP cases) ----
static std::string lgState(const Circuit &c) {   // "<rows> <cells>" as in the LG / LC case lines, from the public getters
  std::ostringstream s; s << c.rows().size();
  for (auto &r : c.rows()) s << " " << r.minX << " " << r.maxX << " " << r.minY << " " << r.maxY << " " << (int)r.orientation;
  s << " " << c.nbCells();
  for (int i = 0; i < c.nbCells(); ++i)
    s << " " << c.cellX()[i] << " " << c.cellY()[i] << " " << c.cellWidth()[i] << " " << c.cellHeight()[i] << " " << (int)c.cellOrientation()[i]
      << " " << polInt(c.cellRowPolarity()[i]) << " " << (int)c.cellIsFixed()[i] << " " << (int)c.cellIsObstruction()[i];
  return s.str();
}
static std::string netsText(const Obj &o) {
  std::ostringstream s; s << o.nets.size();
  for (auto &n : o.nets) { s << " " << n.c.size(); for (size_t j = 0; j < n.c.size(); ++j) s << " " << n.c[j] << " " << n.xo[j] << " " << n.yo[j]; }
  return s.str();
}
// a circuit built from scratch, through the public setters only, holding the public state of o
static Circuit freshCopy(const Obj &o) {
  const Circuit &c = o.c; Circuit f(c.nbCells());
  f.setCellWidth(c.cellWidth()); f.setCellHeight(c.cellHeight()); f.setCellIsFixed(c.cellIsFixed()); f.setCellIsObstruction(c.cellIsObstruction());
  f.setCellRowPolarity(c.cellRowPolarity()); f.setCellOrientation(c.cellOrientation()); f.setCellX(c.cellX()); f.setCellY(c.cellY());
  f.setRows(c.rows());
  for (auto &n : o.nets) f.addNet(n.c, n.xo, n.yo);
  return f;
}
static std::string stage(Circuit &c, const Op &p) {
  std::string res;
  try {
    ColoquinteParameters prm((int)p.a[0]);
    if (p.op == 16) {
      if (p.a[1]) { prm.legalization.orderingWidth = p.a[2] / 10.0; prm.legalization.orderingY = p.a[3] / 10.0; prm.legalization.orderingHeight = p.a[4] / 10.0; }
      c.legalize(prm);
    } else {
      if (p.a[1] > 0) prm.detailed.reorderingMaxNbCells = (int)p.a[1];
      if (p.a[2] > 0) prm.detailed.reorderingNbRows = (int)p.a[2];
      c.placeDetailed(prm);
    }
    res = "OK";
  } catch (std::exception &e) { std::string m = e.what(); res = (m == "No row present" ? "NOROW" : m == "Not all cells have been placed" ? "NOTALL" : "THROW " + m) + " ;"; }
  return res + showPlacement(c);
}
static void placementStep(Obj &o, int step, const Op &p, std::vector<std::string> &out) {
  std::ostringstream h; h << step << " ~ L ~ " << p.op; for (int k = 0; k < 5; ++k) h << " " << p.a[k];
  h << " ~ " << lgState(o.c) << " ~ " << netsText(o) << " ~ ";
  std::string fresh;
  try { Circuit f = freshCopy(o); fresh = stage(f, p); } catch (std::exception &e) { fresh = std::string("THROW-BUILD ") + e.what(); }
  std::string mine = stage(o.c, p);
  out.push_back(h.str() + mine + " ~ " + fresh);
}

static void runCase(const std::string &line, std::vector<std::string> &out) {
  const bool sp = line[1] == 'P';
  auto v = vh_ints(line.substr(3)); size_t p = 0;
  auto nx = [&]() -> long long { return p < v.size() ? v[p++] : 0; };
  int nr = nx(); std::vector<Row> rows;
  for (int i = 0; i < nr; ++i) { int a = nx(), b = nx(), c = nx(), d = nx(); auto o = (CellOrientation)nx(); rows.emplace_back(a, b, c, d, o); }
  int ne = sp ? 0 : nx(); std::vector<Rectangle> extra;
  for (int i = 0; i < ne; ++i) { int a = nx(), b = nx(), c = nx(), d = nx(); extra.emplace_back(a, b, c, d); }
  int nc = nx(); Obj o(nc);
  std::vector<int> x(nc), y(nc), w(nc), h(nc); std::vector<CellOrientation> ori(nc); std::vector<bool> fx(nc), ob(nc);
  std::vector<CellRowPolarity> pol(nc, CellRowPolarity::ANY);
  for (int i = 0; i < nc; ++i) { x[i] = nx(); y[i] = nx(); w[i] = nx(); h[i] = nx(); ori[i] = (CellOrientation)nx(); if (sp) pol[i] = kPol[nx() % 5]; fx[i] = nx(); ob[i] = nx(); }
  if (sp) o.c.setCellRowPolarity(pol);
  o.c.setCellX(x); o.c.setCellY(y); o.c.setCellWidth(w); o.c.setCellHeight(h); o.c.setCellOrientation(ori);
  o.c.setCellIsFixed(fx); o.c.setCellIsObstruction(ob); o.c.setRows(rows);
  int nn = nx();
  for (int n = 0; n < nn; ++n) { int np = nx(); Net t; for (int j = 0; j < np; ++j) { t.c.push_back(nx()); t.xo.push_back(nx()); t.yo.push_back(nx()); } o.c.addNet(t.c, t.xo, t.yo); if (np > 0) o.nets.push_back(t); /* addNet ignores an empty net */ }
  int ns = nx();
  queries(o, 0, "q", 4, extra, out);
  for (int s = 1; s <= ns; ++s) {
    Op op; op.op = nx(); for (int k = 0; k < 6; ++k) op.a[k] = nx(); op.q = nx();
    try {
      if (op.op == 16 || op.op == 17) { placementStep(o, s, op, out); continue; }
      if (op.q & 16) { Obj cp = o; apply(cp, op); queries(cp, s, "m", op.q, extra, out); }
      apply(o, op);
      if (op.q & 1) continue;
      queries(o, s, "q", op.q, extra, out);
      if (op.q & 8) { Obj cp = o; queries(cp, s, "c", op.q & ~2LL, extra, out); queries(o, s, "q", 0, extra, out); }
    } catch (std::exception &ex) { out.push_back(std::to_string(s) + " ~ THROW " + ex.what()); }
  }
}

static void gen(unsigned long long seed, long long count) {
  SplitMix g(seed ^ 0x5e9u);
  for (long long it = 0; it < count; ++it) {
    long long sc = g.coin(75) ? 1 : (1LL << g.uni(3, 18));
    int nr = (int)g.uni(1, 4); long long rh = g.uni(1, 3) * sc, x0 = g.uni(-4, 4) * sc, y0 = g.uni(-4, 4) * sc;
    auto X = [&]() { return x0 + g.uni(-3, 14) * sc; }; auto Y = [&]() { return y0 + g.uni(-2, 6) * sc; };
    printf("SQ %d", nr);
    for (int r = 0; r < nr; ++r) { long long a = x0 + g.uni(0, 3) * sc, b = a + g.uni(0, 12) * sc; printf(" %lld %lld %lld %lld %d", a, b, y0 + r * rh, y0 + (r + 1) * rh, (int)g.uni(0, 7)); }
    int ne = (int)g.uni(0, 2); printf(" %d", ne);
    for (int i = 0; i < ne; ++i) { long long a = X(), b = a + g.uni(0, 5) * sc, c = Y(), d = c + g.uni(0, 4) * sc; printf(" %lld %lld %lld %lld", a, b, c, d); }
    int nc = (int)g.uni(1, 6); printf(" %d", nc);
    for (int i = 0; i < nc; ++i) printf(" %lld %lld %lld %lld %d %d %d", X(), Y(), g.uni(0, 5) * sc, g.uni(0, 4) * sc, (int)g.uni(0, 7), (int)g.coin(65), (int)g.coin(65));
    int nn = (int)g.uni(0, 3); printf(" %d", nn);
    for (int n = 0; n < nn; ++n) { int np = (int)g.uni(0, 4); printf(" %d", np); for (int j = 0; j < np; ++j) printf(" %d %lld %lld", (int)g.uni(0, nc - 1), g.uni(-1, 6) * sc, g.uni(-1, 5) * sc); }
    int ns = (int)g.uni(3, 12); printf(" %d", ns);
    for (int s = 0; s < ns; ++s) {
      static const int ops[] = {1, 2, 3, 4, 5, 6, 6, 7, 7, 7, 8, 9, 10, 11, 12, 13, 14, 15};
      int op = ops[g.uni(0, sizeof ops / sizeof *ops - 1)]; long long a[6] = {0, 0, 0, 0, 0, 0};
      long long cell = g.coin(15) ? -1 : g.uni(0, nc - 1);
      switch (op) {
      case 1: a[0] = cell; a[1] = cell < 0 ? g.uni(-3, 3) * sc : X(); break;
      case 2: a[0] = cell; a[1] = cell < 0 ? g.uni(-2, 2) * sc : Y(); break;
      case 3: a[0] = cell; a[1] = g.uni(0, 5) * sc; break;
      case 4: a[0] = cell; a[1] = g.uni(0, 4) * sc; break;
      case 5: a[0] = cell; a[1] = g.uni(0, 7); break;
      case 6: case 7: a[0] = g.coin(30) ? -1 : g.uni(0, nc - 1); a[1] = g.uni(0, 2); break;
      case 8: a[0] = g.uni(0, nc - 1); a[1] = X(); a[2] = Y(); a[3] = g.uni(0, 7); break;
      case 9: a[0] = g.uni(0, 3); a[1] = x0 + g.uni(0, 3) * sc; a[2] = a[1] + g.uni(0, 12) * sc; a[3] = g.uni(0, 7); break;
      case 10: a[0] = g.coin(60); a[1] = x0 + g.uni(0, 3) * sc; a[2] = a[1] + g.uni(0, 12) * sc; a[3] = g.uni(0, 7); break;
      case 11: a[0] = x0 + g.uni(0, 3) * sc; a[1] = a[0] + g.uni(0, 12) * sc; a[2] = y0 + g.uni(-1, 1) * sc; a[4] = g.uni(1, 3) * sc;
               a[3] = a[2] + g.uni(0, 4) * a[4] + (g.coin(30) ? g.uni(0, a[4] - 1) : 0); a[5] = g.uni(0, 3); break;
      case 12: a[0] = g.uni(0, nc - 1); a[1] = g.uni(-1, 6) * sc; a[2] = g.uni(-1, 5) * sc; a[3] = g.uni(0, nc - 1); a[4] = g.uni(-1, 6) * sc; a[5] = g.uni(-1, 5) * sc; break;
      case 13: a[0] = g.uni(0, 3); break;
      default: break;
      }
      long long q = (g.coin(15) ? 1 : 0) | (g.coin(25) ? 2 : 0) | (g.coin(35) ? 4 : 0) | (g.coin(15) ? 8 : 0) | (g.coin(15) ? 16 : 0);
      printf(" %d %lld %lld %lld %lld %lld %lld %lld", op, a[0], a[1], a[2], a[3], a[4], a[5], q);
    }
    printf("\n");
  }
}

// SP cases: a circuit of the legalization domain (harness/cgen.hpp: split rows, multi-row cells, polarities, fixed cells of any size) and
// 3-9 steps; legalize is called at least twice with public edits in between (aimed at what a Circuit keeps between calls: moved fixed
// obstructions, changed flags, changed rows), sometimes placeDetailed
static void genp(unsigned long long seed, long long count) {
  SplitMix g(seed ^ 0x9c01u);
  for (long long it = 0; it < count; ++it) {
    GenOpts o; o.maxCells = 8; o.utilLo = 20; o.utilHi = 90;
    if (g.coin(25)) o.scale = 1LL << g.uni(4, 16);
    if (g.coin(30)) o.polarity = false;
    if (g.coin(30)) o.turned = false;
    TCircuit t = genCircuit(g, o); long long sc = o.scale;
    if (g.coin(60)) {   // one more fixed obstruction sitting inside the rows (row-high or two rows high, 1-4 wide): the thing the steps move around
      auto &r = t.rows[g.uni(0, t.rows.size() - 1)]; long long rh = r[3] - r[2], wd = std::max(1LL, (r[1] - r[0]) / sc);
      t.cells.push_back({r[0] + g.uni(0, wd - 1) * sc, r[2], g.uni(1, 4) * sc, rh * g.uni(1, 2), 0, 0, 1, 1});
    }
    int nc = (int)t.cells.size(), nr = (int)t.rows.size();
    long long bx0 = t.rows[0][0], bx1 = t.rows[0][1], by0 = t.rows[0][2], by1 = t.rows[0][3], rh = t.rows[0][3] - t.rows[0][2];
    for (auto &r : t.rows) { bx0 = std::min(bx0, r[0]); bx1 = std::max(bx1, r[1]); by0 = std::min(by0, r[2]); by1 = std::max(by1, r[3]); }
    std::vector<int> fixedCells; for (int i = 0; i < nc; ++i) if (t.cells[i][6]) fixedCells.push_back(i);
    auto X = [&]() { return bx0 + g.uni(-2, (bx1 - bx0) / sc + 1) * sc; };
    auto Y = [&]() { return by0 + g.uni(-1, (by1 - by0) / rh) * rh + (g.coin(20) ? g.uni(0, rh - 1) : 0); };
    auto cellPick = [&]() -> long long { if (!fixedCells.empty() && g.coin(60)) return fixedCells[g.uni(0, fixedCells.size() - 1)]; return g.uni(0, nc - 1); };
    printf("SP %s", showRowsCells(t).c_str());
    int nn = (int)g.uni(0, 4); printf(" %d", nn);
    for (int n = 0; n < nn; ++n) { int np = (int)g.uni(2, 4); printf(" %d", np); for (int j = 0; j < np; ++j) { int cc = (int)g.uni(0, nc - 1); printf(" %d %lld %lld", cc, g.uni(0, std::max(1LL, t.cells[cc][2] / sc)) * sc, g.uni(0, std::max(1LL, t.cells[cc][3] / sc)) * sc); } }
    int ns = (int)g.uni(3, 9); printf(" %d", ns);
    for (int s = 0; s < ns; ++s) {
      static const int ops[] = {16, 16, 16, 16, 8, 8, 8, 8, 1, 1, 2, 2, 6, 6, 7, 7, 9, 9, 10, 3, 4, 5, 12, 14, 15, 17, 17};
      int op = ops[g.uni(0, sizeof ops / sizeof *ops - 1)]; long long a[6] = {0, 0, 0, 0, 0, 0};
      if (s == ns - 1 || (s == 0 && g.coin(70))) op = 16;
      switch (op) {
      case 1: a[0] = cellPick(); a[1] = X(); break;
      case 2: a[0] = cellPick(); a[1] = Y(); break;
      case 3: a[0] = g.uni(0, nc - 1); a[1] = g.uni(1, 6) * sc; break;
      case 4: a[0] = g.uni(0, nc - 1); a[1] = g.uni(1, 2) * rh; break;
      case 5: a[0] = g.uni(0, nc - 1); { int os[4] = {0, 1, 4, 5}; a[1] = g.coin(80) ? os[g.uni(0, 3)] : g.uni(0, 7); } break;
      case 6: case 7: a[0] = g.coin(10) ? -1 : cellPick(); a[1] = g.uni(0, 2); break;
      case 8: a[0] = cellPick(); a[1] = X(); a[2] = Y(); a[3] = t.cells[a[0]][4]; if (g.coin(15)) { int os[4] = {0, 1, 4, 5}; a[3] = os[g.uni(0, 3)]; } break;
      case 9: a[0] = g.uni(0, nr - 1); a[1] = t.rows[a[0]][0] + g.uni(-2, 2) * sc; a[2] = std::max(a[1], t.rows[a[0]][1] + g.uni(-2, 2) * sc); a[3] = t.rows[a[0]][4]; if (g.coin(25)) { int os[4] = {0, 1, 4, 5}; a[3] = os[g.uni(0, 3)]; } break;
      case 10: a[0] = g.coin(60); a[1] = bx0 + g.uni(0, 2) * sc; a[2] = bx1 - g.uni(0, 2) * sc; a[3] = g.coin(50) ? 0 : 5; break;
      case 12: a[0] = g.uni(0, nc - 1); a[1] = g.uni(0, 2) * sc; a[2] = g.uni(0, 2) * sc; a[3] = g.uni(0, nc - 1); a[4] = g.uni(0, 2) * sc; a[5] = g.uni(0, 2) * sc; break;
      case 16: a[0] = g.uni(1, 9); a[1] = g.coin(40); if (a[1]) { a[2] = g.uni(0, 10); a[3] = g.uni(-2, 2); a[4] = g.uni(-20, 20); } break;
      case 17: a[0] = g.uni(1, 3); a[1] = g.coin(50) ? g.uni(2, 4) : 0; a[2] = g.coin(30) ? g.uni(1, 3) : 0; break;
      default: break;
      }
      long long q = (g.coin(30) ? 1 : 0) | (g.coin(25) ? 2 : 0);
      printf(" %d %lld %lld %lld %lld %lld %lld %lld", op, a[0], a[1], a[2], a[3], a[4], a[5], q);
    }
    printf("\n");
  }
}

int main(int argc, char **argv) {
  std::string mode = argc > 1 ? argv[1] : "run";
  if (mode == "gen" && argc > 4 && std::string(argv[2]) == "p") { genp(strtoull(argv[3], nullptr, 10), atoll(argv[4])); return 0; }
  if (mode == "gen") { gen(strtoull(argv[2], nullptr, 10), atoll(argv[3])); return 0; }
  vh_install(); vh_silence();
  std::string line;
  while (std::getline(std::cin, line)) {
    if (line.size() < 3) { printf("\n"); continue; }
    static std::vector<std::string> out; out.clear();
    if (sigsetjmp(vh_jmp, 1)) out.push_back(std::string("-1 ~ ") + vh_signame());
    else {
      try { runCase(line, out); } catch (std::exception &ex) { out.push_back(std::string("-1 ~ THROW ") + ex.what()); }
    }
    for (size_t i = 0; i < out.size(); ++i) printf("%s%s", i ? " | " : "", out[i].c_str());
    printf("\n"); fflush(stdout);
  }
  return 0;
}
