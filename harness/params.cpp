// C19 harness: input validation of /repo's working tree (parameters.cpp, coloquinte.cpp, coloquinte.hpp)
//   params run < cases          one result line per case line
//
// A double is passed and printed as two integers "m e" meaning m * 2^e exactly (|m| < 2^53); the
// non-finite values print as "nan 0" / "inf 0" / "-inf 0".
//
// parameter structs, field order (I = int, D = double "m e", B = 0/1):
//   k=2 Rough       : costModel I, nbSteps I, binSize D, lineReoptSize I, lineReoptOverlap I, diagReoptSize I,
//                     diagReoptOverlap I, squareReoptSize I, squareReoptOverlap I, unidimensionalTransport B,
//                     quadraticPenalty D, sideMargin D, coarseningLimit D, targetBlending D
//   k=4 Penalty     : cutoffDistance D, cutoffDistanceUpdateFactor D, areaExponent D, initialValue D, updateFactor D,
//                     targetBlending D
//   k=3 Continuous  : netModel I, approximationDistance D, approximationDistanceUpdateFactor D,
//                     maxNbConjugateGradientSteps I, conjugateGradientErrorTolerance D
//   k=1 Global      : maxNbSteps I, nbInitialSteps I, nbStepsBeforeRoughLegalization I, gapTolerance D,
//                     distanceTolerance D, penaltyUpdateDistance D, penaltyUpdateBackoff D, exportBlending D, noise D,
//                     then Continuous, Rough, Penalty
//   k=5 Legalization: costModel I, orderingWidth D, orderingHeight D, orderingY D
//   k=6 Detailed    : nbPasses I, localSearchNbNeighbours I, localSearchNbRows I, shiftNbRows I, shiftMaxNbCells I,
//                     reorderingNbRows I, reorderingMaxNbCells I
//   k=0 Coloquinte  : Global, Legalization, Detailed, seed I
//
// circuit state ("raw": every std::vector with its own length, so that inconsistent states can be built):
//   nW w* nH h* nF f* nO o* nP pol* nX x* nY y* nOr orient* nL limits* nWt weights* nPc pinCells* nPx pinX* nPy pinY*
//   nR (minX maxX minY maxY orient)* isInUse hasCellSizeUpdate hasNetUpdate
//
// cases:
//   CTOR k effort                       construct struct k with that effort, in a CHILD PROCESS
//                                       -> "OK fields" | "THROW msg" | "DIED how: first sanitizer/assert line"
//   PCHK k fields                       struct k .check()          -> "OK" | "THROW msg"
//   SET sid state L args                vector setter sid (0 setCellX,1 setCellY,2 setCellIsFixed,3 setCellIsObstruction,
//                                       4 setCellOrientation,5 setCellRowPolarity,6 setCellWidth,7 setCellHeight,
//                                       8 setSolution (x y o)*,9 setNetWeights,10 setRows (5 ints)*)
//   ADDNET state nc cells* nx xs* ny ys* weight
//   SETNETS state nl lim* nc cells* nx xs* ny ys* nw weights*
//   CCHK state                          Circuit::check()
//   VEC id state L args tail            public Circuit entry points taking a PER-CELL vector that Params.v does not model; CHILD PROCESS
//                                         id 0      expandCellsByFactor(L factors k/4 given as k, maxDensity "m e", rowSideMargin "m e")
//                                         id 1..9   fn = (id-1)/3: 0 meanDisruption, 1 rmsDisruption, 2 maxDisruption (a, b, costModel);
//                                                   (id-1)%3: 0 a has the L entries given and b has nbCells entries, 1 the other way round,
//                                                   2 both have L entries; args (x y orientation)*L, tail costModel
//                                       -> "OK value(m e) | state" | "THROW msg | state" | "DIED ..."
//   ENTER stage state fields(k=0)       stage 0 placeGlobal,1 legalize,2 placeDetailed (const ColoquinteParameters&); CHILD PROCESS
//                                       (a child killed by a signal -- SIGFPE, SIGSEGV, SIGABRT, SIGXCPU after 30 s of CPU -- prints "DIED signal n ...")
//   ENTERE stage state effort           stage 0..2 as above with (int effort), 3 = place(effort); CHILD PROCESS
//                                       -> "OK | state" | "THROW msg | state" | "ABORT" ...   (state after the call)
//   PSEQ k effort [state if k=0] n steps ONE object P = struct k built with that effort lives through n steps (stale state kept
//                                       between calls shows here, not in the one-shot cases); steps:
//                                         1            P.check()
//                                         2 fields     the public fields of P are overwritten in place
//                                         3            Q = copy of P (copy construction); Q.check()
//                                         4 e2 c       R = struct k built with effort e2 (c=1: R.check() first); R = P (assignment); R.check()
//                                         5            P is replaced by a copy of itself
//                                         6 stage      k=0: placeGlobal/legalize/placeDetailed(P) on the circuit (which keeps its state)
//                                         7 fields     Q = copy of P; the public fields of Q are overwritten; Q.check()
//                                       -> records joined by " @@ ": every check()/stage call as the ONE-SHOT case it amounts to, with
//                                          the field values (and circuit state) read from the object AT THAT MOMENT, and what happened:
//                                          "PCHK k fields => OK|THROW msg"   "ENTER stage state fields => OK|THROW msg | state after"
#include "vh.hpp"
#include <cmath>
#include <sys/wait.h>
#include <sys/resource.h>
#include <unistd.h>
#include <stdexcept>
#include <type_traits>
#include "coloquinte.hpp"
using namespace coloquinte;

// ---------------------------------------------------------------- token reader / printer
struct Toks {
  std::vector<long long> v; size_t i = 0;
  long long next() { if (i >= v.size()) throw std::out_of_range("short case line"); return v[i++]; }
  int ni() { return (int)next(); }
  double nd() { long long m = next(); long long e = next(); return std::ldexp((double)m, (int)e); }
};
static void pd(std::ostringstream &o, double d) {
  if (std::isnan(d)) { o << " nan 0"; return; }
  if (std::isinf(d)) { o << (d > 0 ? " inf 0" : " -inf 0"); return; }
  if (d == 0.0) { o << " 0 0"; return; }
  int e; double fr = std::frexp(d, &e);               // d = fr * 2^e, 0.5 <= |fr| < 1
  long long m = (long long)std::ldexp(fr, 53); e -= 53;
  while ((m & 1) == 0) { m /= 2; ++e; }
  o << " " << m << " " << e;
}
static void pi(std::ostringstream &o, long long i) { o << " " << i; }

// ---------------------------------------------------------------- parameter structs
static void showRough(std::ostringstream &o, const RoughLegalizationParameters &p) {
  pi(o, (int)p.costModel); pi(o, p.nbSteps); pd(o, p.binSize); pi(o, p.lineReoptSize); pi(o, p.lineReoptOverlap);
  pi(o, p.diagReoptSize); pi(o, p.diagReoptOverlap); pi(o, p.squareReoptSize); pi(o, p.squareReoptOverlap);
  pi(o, p.unidimensionalTransport ? 1 : 0); pd(o, p.quadraticPenalty); pd(o, p.sideMargin); pd(o, p.coarseningLimit);
  pd(o, p.targetBlending);
}
static void readRough(Toks &t, RoughLegalizationParameters &p) {
  p.costModel = (LegalizationModel)t.ni(); p.nbSteps = t.ni(); p.binSize = t.nd(); p.lineReoptSize = t.ni();
  p.lineReoptOverlap = t.ni(); p.diagReoptSize = t.ni(); p.diagReoptOverlap = t.ni(); p.squareReoptSize = t.ni();
  p.squareReoptOverlap = t.ni(); p.unidimensionalTransport = t.ni() != 0; p.quadraticPenalty = t.nd();
  p.sideMargin = t.nd(); p.coarseningLimit = t.nd(); p.targetBlending = t.nd();
}
static void showPenalty(std::ostringstream &o, const PenaltyParameters &p) {
  pd(o, p.cutoffDistance); pd(o, p.cutoffDistanceUpdateFactor); pd(o, p.areaExponent); pd(o, p.initialValue);
  pd(o, p.updateFactor); pd(o, p.targetBlending);
}
static void readPenalty(Toks &t, PenaltyParameters &p) {
  p.cutoffDistance = t.nd(); p.cutoffDistanceUpdateFactor = t.nd(); p.areaExponent = t.nd(); p.initialValue = t.nd();
  p.updateFactor = t.nd(); p.targetBlending = t.nd();
}
static void showCont(std::ostringstream &o, const ContinuousModelParameters &p) {
  pi(o, (int)p.netModel); pd(o, p.approximationDistance); pd(o, p.approximationDistanceUpdateFactor);
  pi(o, p.maxNbConjugateGradientSteps); pd(o, p.conjugateGradientErrorTolerance);
}
static void readCont(Toks &t, ContinuousModelParameters &p) {
  p.netModel = (NetModelOption)t.ni(); p.approximationDistance = t.nd(); p.approximationDistanceUpdateFactor = t.nd();
  p.maxNbConjugateGradientSteps = t.ni(); p.conjugateGradientErrorTolerance = t.nd();
}
static void showGlobal(std::ostringstream &o, const GlobalPlacerParameters &p) {
  pi(o, p.maxNbSteps); pi(o, p.nbInitialSteps); pi(o, p.nbStepsBeforeRoughLegalization); pd(o, p.gapTolerance);
  pd(o, p.distanceTolerance); pd(o, p.penaltyUpdateDistance); pd(o, p.penaltyUpdateBackoff); pd(o, p.exportBlending);
  pd(o, p.noise);
  showCont(o, p.continuousModel); showRough(o, p.roughLegalization); showPenalty(o, p.penalty);
}
static void readGlobal(Toks &t, GlobalPlacerParameters &p) {
  p.maxNbSteps = t.ni(); p.nbInitialSteps = t.ni(); p.nbStepsBeforeRoughLegalization = t.ni(); p.gapTolerance = t.nd();
  p.distanceTolerance = t.nd(); p.penaltyUpdateDistance = t.nd(); p.penaltyUpdateBackoff = t.nd();
  p.exportBlending = t.nd(); p.noise = t.nd();
  readCont(t, p.continuousModel); readRough(t, p.roughLegalization); readPenalty(t, p.penalty);
}
static void showLegal(std::ostringstream &o, const LegalizationParameters &p) {
  pi(o, (int)p.costModel); pd(o, p.orderingWidth); pd(o, p.orderingHeight); pd(o, p.orderingY);
}
static void readLegal(Toks &t, LegalizationParameters &p) {
  p.costModel = (LegalizationModel)t.ni(); p.orderingWidth = t.nd(); p.orderingHeight = t.nd(); p.orderingY = t.nd();
}
static void showDet(std::ostringstream &o, const DetailedPlacerParameters &p) {
  pi(o, p.nbPasses); pi(o, p.localSearchNbNeighbours); pi(o, p.localSearchNbRows); pi(o, p.shiftNbRows);
  pi(o, p.shiftMaxNbCells); pi(o, p.reorderingNbRows); pi(o, p.reorderingMaxNbCells);
}
static void readDet(Toks &t, DetailedPlacerParameters &p) {
  p.nbPasses = t.ni(); p.localSearchNbNeighbours = t.ni(); p.localSearchNbRows = t.ni(); p.shiftNbRows = t.ni();
  p.shiftMaxNbCells = t.ni(); p.reorderingNbRows = t.ni(); p.reorderingMaxNbCells = t.ni();
}
static void showAll(std::ostringstream &o, const ColoquinteParameters &p) {
  showGlobal(o, p.global); showLegal(o, p.legalization); showDet(o, p.detailed); pi(o, p.seed);
}
static void readAll(Toks &t, ColoquinteParameters &p) {
  readGlobal(t, p.global); readLegal(t, p.legalization); readDet(t, p.detailed); p.seed = t.ni();
}

// some valid object to overwrite (the structs have no default constructor)
template <class P> static P *anyValid() {
  for (int e = 3; e <= 9 + 3; ++e) {
    try { return new P(1 + (e - 1) % 9); } catch (const std::exception &) {}
  }
  return nullptr;
}

static std::string ctorCase(int k, int effort) {
  std::ostringstream o; o << "OK";
  switch (k) {
    case 0: { ColoquinteParameters p(effort, 7); showAll(o, p); break; }
    case 1: { GlobalPlacerParameters p(effort); showGlobal(o, p); break; }
    case 2: { RoughLegalizationParameters p(effort); showRough(o, p); break; }
    case 3: { ContinuousModelParameters p(effort); showCont(o, p); break; }
    case 4: { PenaltyParameters p(effort); showPenalty(o, p); break; }
    case 5: { LegalizationParameters p(effort); showLegal(o, p); break; }
    case 6: { DetailedPlacerParameters p(effort); showDet(o, p); break; }
    default: return "BADCASE";
  }
  return o.str();
}

template <class P, class R> static std::string pchk(Toks &t, R rd) {
  P *p = anyValid<P>();
  if (!p) return "NOCTOR";
  rd(t, *p);
  std::string res = "OK";
  try { p->check(); } catch (const std::runtime_error &e) { res = std::string("THROW ") + e.what(); }
  delete p;
  return res;
}

// ---------------------------------------------------------------- circuit state
template <class T> static void readVec(Toks &t, std::vector<T> &v) { int n = t.ni(); v.clear(); for (int i = 0; i < n; ++i) v.push_back((T)t.next()); }
static void readBoolVec(Toks &t, std::vector<bool> &v) { int n = t.ni(); v.clear(); for (int i = 0; i < n; ++i) v.push_back(t.next() != 0); }
static std::vector<Row> readRows(Toks &t) {
  int n = t.ni(); std::vector<Row> r;
  for (int i = 0; i < n; ++i) { int a = t.ni(), b = t.ni(), c = t.ni(), d = t.ni(), o = t.ni(); r.emplace_back(a, b, c, d, (CellOrientation)o); }
  return r;
}
static void readState(Toks &t, Circuit &c) {
  readVec(t, c.cellWidth_); readVec(t, c.cellHeight_); readBoolVec(t, c.cellIsFixed_); readBoolVec(t, c.cellIsObstruction_);
  { int n = t.ni(); c.cellRowPolarity_.clear(); for (int i = 0; i < n; ++i) c.cellRowPolarity_.push_back((CellRowPolarity)t.ni()); }
  readVec(t, c.cellX_); readVec(t, c.cellY_);
  { int n = t.ni(); c.cellOrientation_.clear(); for (int i = 0; i < n; ++i) c.cellOrientation_.push_back((CellOrientation)t.ni()); }
  readVec(t, c.netLimits_);
  { int n = t.ni(); c.netWeights_.clear(); for (int i = 0; i < n; ++i) c.netWeights_.push_back((float)t.next()); }
  readVec(t, c.pinCells_); readVec(t, c.pinXOffsets_); readVec(t, c.pinYOffsets_);
  c.rows_ = readRows(t);
  c.isInUse_ = t.ni() != 0; c.hasCellSizeUpdate_ = t.ni() != 0; c.hasNetUpdate_ = t.ni() != 0;
}
static std::string showState(const Circuit &c) {
  std::ostringstream o;
  auto iv = [&](const std::vector<int> &v) { o << " " << v.size(); for (int x : v) o << " " << x; };
  auto bv = [&](const std::vector<bool> &v) { o << " " << v.size(); for (bool x : v) o << " " << (x ? 1 : 0); };
  iv(c.cellWidth_); iv(c.cellHeight_); bv(c.cellIsFixed_); bv(c.cellIsObstruction_);
  o << " " << c.cellRowPolarity_.size(); for (auto x : c.cellRowPolarity_) o << " " << (int)x;
  iv(c.cellX_); iv(c.cellY_);
  o << " " << c.cellOrientation_.size(); for (auto x : c.cellOrientation_) o << " " << (int)x;
  iv(c.netLimits_);
  o << " " << c.netWeights_.size();
  for (float w : c.netWeights_) { if (w == std::floor(w) && std::fabs(w) < 1e9) o << " " << (long long)w; else o << " w" << w; }
  iv(c.pinCells_); iv(c.pinXOffsets_); iv(c.pinYOffsets_);
  o << " " << c.rows_.size(); for (auto &r : c.rows_) o << " " << r.minX << " " << r.maxX << " " << r.minY << " " << r.maxY << " " << (int)r.orientation;
  o << " " << (c.isInUse_ ? 1 : 0) << " " << (c.hasCellSizeUpdate_ ? 1 : 0) << " " << (c.hasNetUpdate_ ? 1 : 0);
  return o.str();
}

// run an operation on the circuit; outcome + the state that is left
template <class F> static std::string circuitOp(Circuit &c, F f) {
  std::string res;
  try { f(); res = "OK"; }
  catch (const std::runtime_error &e) { res = std::string("THROW ") + e.what(); }
  catch (const std::exception &e) { res = std::string("THROWOTHER ") + e.what(); }
  return res + " |" + showState(c);
}

static std::string circuitCase(const std::string &tag, Toks &t) {
  Circuit c(0);
  if (tag == "SET") {
    int sid = t.ni(); readState(t, c);
    switch (sid) {
      case 0: { std::vector<int> v; readVec(t, v); return circuitOp(c, [&] { c.setCellX(v); }); }
      case 1: { std::vector<int> v; readVec(t, v); return circuitOp(c, [&] { c.setCellY(v); }); }
      case 2: { std::vector<bool> v; readBoolVec(t, v); return circuitOp(c, [&] { c.setCellIsFixed(v); }); }
      case 3: { std::vector<bool> v; readBoolVec(t, v); return circuitOp(c, [&] { c.setCellIsObstruction(v); }); }
      case 4: { int n = t.ni(); std::vector<CellOrientation> v; for (int i = 0; i < n; ++i) v.push_back((CellOrientation)t.ni());
                return circuitOp(c, [&] { c.setCellOrientation(v); }); }
      case 5: { int n = t.ni(); std::vector<CellRowPolarity> v; for (int i = 0; i < n; ++i) v.push_back((CellRowPolarity)t.ni());
                return circuitOp(c, [&] { c.setCellRowPolarity(v); }); }
      case 6: { std::vector<int> v; readVec(t, v); return circuitOp(c, [&] { c.setCellWidth(v); }); }
      case 7: { std::vector<int> v; readVec(t, v); return circuitOp(c, [&] { c.setCellHeight(v); }); }
      case 8: { int n = t.ni(); PlacementSolution v; for (int i = 0; i < n; ++i) { int x = t.ni(), y = t.ni(), o = t.ni(); v.emplace_back(x, y, (CellOrientation)o); }
                return circuitOp(c, [&] { c.setSolution(v); }); }
      case 9: { int n = t.ni(); std::vector<float> v; for (int i = 0; i < n; ++i) v.push_back((float)t.next());
                return circuitOp(c, [&] { c.setNetWeights(v); }); }
      case 10: { std::vector<Row> v = readRows(t); return circuitOp(c, [&] { c.setRows(v); }); }
      default: return "BADCASE";
    }
  }
  if (tag == "ADDNET") {
    readState(t, c); std::vector<int> cells, xs, ys; readVec(t, cells); readVec(t, xs); readVec(t, ys); float w = (float)t.next();
    return circuitOp(c, [&] { c.addNet(cells, xs, ys, w); });
  }
  if (tag == "SETNETS") {
    readState(t, c); std::vector<int> lim, cells, xs, ys; readVec(t, lim); readVec(t, cells); readVec(t, xs); readVec(t, ys);
    int n = t.ni(); std::vector<float> ws; for (int i = 0; i < n; ++i) ws.push_back((float)t.next());
    return circuitOp(c, [&] { c.setNets(lim, cells, xs, ys, ws); });
  }
  if (tag == "CCHK") { readState(t, c); return circuitOp(c, [&] { c.check(); }); }
  if (tag == "VEC") {
    // public Circuit entry points with a per-cell vector argument that Params.v does not model (statement oracle + sanitizers only)
    int id = t.ni(); readState(t, c); int L = t.ni();
    std::ostringstream val;
    if (id == 0) {
      std::vector<float> f; for (int i = 0; i < L; ++i) f.push_back((float)t.next() / 4.0f);
      double maxDensity = t.nd(), margin = t.nd();
      std::string r = circuitOp(c, [&] { double v = c.expandCellsByFactor(f, maxDensity, margin); pd(val, v); });
      return r.compare(0, 2, "OK") == 0 ? "OK" + val.str() + r.substr(2) : r;
    }
    if (id >= 1 && id <= 9) {
      int fn = (id - 1) / 3, which = (id - 1) % 3;
      PlacementSolution given; for (int i = 0; i < L; ++i) { int x = t.ni(), y = t.ni(), o = t.ni(); given.emplace_back(x, y, (CellOrientation)o); }
      LegalizationModel cm = (LegalizationModel)t.ni();
      PlacementSolution full; for (int i = 0; i < c.nbCells(); ++i) full.emplace_back(3 * i + 1, 2 * i - 1, CellOrientation::N);
      PlacementSolution other = given; for (auto &q : other) { q.position.x += 2; q.position.y -= 1; }
      const PlacementSolution &a = which == 1 ? full : given;
      const PlacementSolution &b = which == 0 ? full : which == 1 ? given : other;
      std::string r = circuitOp(c, [&] { float v = fn == 0 ? c.meanDisruption(a, b, cm) : fn == 1 ? c.rmsDisruption(a, b, cm) : c.maxDisruption(a, b, cm); pd(val, (double)v); });
      return r.compare(0, 2, "OK") == 0 ? "OK" + val.str() + r.substr(2) : r;
    }
    return "BADCASE";
  }
  if (tag == "ENTER") {
    int stage = t.ni(); readState(t, c);
    ColoquinteParameters *p = anyValid<ColoquinteParameters>();
    if (!p) return "NOCTOR";
    readAll(t, *p);
    std::string r = circuitOp(c, [&] {
      if (stage == 0) c.placeGlobal(*p); else if (stage == 1) c.legalize(*p); else c.placeDetailed(*p);
    });
    delete p; return r;
  }
  if (tag == "ENTERE") {
    int stage = t.ni(); readState(t, c); int effort = t.ni();
    return circuitOp(c, [&] {
      if (stage == 0) c.placeGlobal(effort); else if (stage == 1) c.legalize(effort); else if (stage == 2) c.placeDetailed(effort);
      else c.place(effort);
    });
  }
  return "BADCASE";
}

// ---------------------------------------------------------------- sequences on one parameter object
static std::string g_seq;    // records so far (kept when a signal ends the case)
static void seqAdd(const std::string &r) { if (!g_seq.empty()) g_seq += " @@ "; g_seq += r; }
template <class P> static std::string chk(const P &p) {
  try { p.check(); return "OK"; } catch (const std::runtime_error &e) { return std::string("THROW ") + e.what(); }
}
template <class P, class S, class R> static void pseq(int k, Toks &t, S show, R rd) {
  int effort = t.ni();
  P *p = new P(effort);
  Circuit c(0);
  if (k == 0) readState(t, c);
  auto rec = [&](const P &q) { std::ostringstream o; o << "PCHK " << k; show(o, q); std::string head = o.str(); seqAdd(head + " => " + chk(q)); };
  int n = t.ni();
  for (int s = 0; s < n; ++s) {
    int op = t.ni();
    if (op == 1) rec(*p);
    else if (op == 2) rd(t, *p);
    else if (op == 3) { P q(*p); rec(q); }
    else if (op == 4) { int e2 = t.ni(), first = t.ni(); P r(e2); if (first) rec(r); r = *p; rec(r); }
    else if (op == 5) { P *q = new P(*p); delete p; p = q; }
    else if (op == 7) { P q(*p); rd(t, q); rec(q); }
    else if (op == 6) {
      int stage = t.ni();
      if constexpr (std::is_same<P, ColoquinteParameters>::value) {
        std::ostringstream o; o << "ENTER " << stage << showState(c); show(o, *p);
        std::string head = o.str();
        seqAdd(head + " => " + circuitOp(c, [&] { if (stage == 0) c.placeGlobal(*p); else if (stage == 1) c.legalize(*p); else c.placeDetailed(*p); }));
      }
    }
    else throw std::out_of_range("unknown PSEQ step");
  }
  delete p;
}

// ---------------------------------------------------------------- child process per case
template <class F> static std::string inChild(F f) {
  int po[2], pe[2];
  if (pipe(po) || pipe(pe)) return "DIED pipe";
  fflush(stdout);
  pid_t pid = fork();
  if (pid < 0) return "DIED fork";
  if (pid == 0) {
    close(po[0]); close(pe[0]); dup2(pe[1], 2);
    signal(SIGABRT, SIG_DFL); signal(SIGSEGV, SIG_DFL); signal(SIGFPE, SIG_DFL); signal(SIGBUS, SIG_DFL);
    // a case that does not end is a death too: CPU-time limit of the child (SIGXCPU = signal 24), not wall clock (loaded machines)
    { struct rlimit rl; rl.rlim_cur = 30; rl.rlim_max = 40; setrlimit(RLIMIT_CPU, &rl); signal(SIGXCPU, SIG_DFL); }
    std::string r;
    try { r = f(); }
    catch (const std::runtime_error &e) { r = std::string("THROW ") + e.what(); }
    catch (const std::exception &e) { r = std::string("THROWOTHER ") + e.what(); }
    r += "\n";
    ssize_t w = write(po[1], r.data(), r.size()); (void)w;
    _exit(0);
  }
  close(po[1]); close(pe[1]);
  std::string out, err; char buf[4096]; ssize_t n;
  while ((n = read(po[0], buf, sizeof buf)) > 0) out.append(buf, n);
  while ((n = read(pe[0], buf, sizeof buf)) > 0) { if (err.size() < 65536) err.append(buf, n); }
  close(po[0]); close(pe[0]);
  int st = 0; waitpid(pid, &st, 0);
  if (WIFEXITED(st) && WEXITSTATUS(st) == 0 && !out.empty() && out.back() == '\n') { out.pop_back(); return out; }
  // died: say how, with the first informative line of stderr
  std::ostringstream o; o << "DIED ";
  if (WIFSIGNALED(st)) { o << "signal " << WTERMSIG(st) << " (" << strsignal(WTERMSIG(st)) << ")"; if (WTERMSIG(st) == SIGXCPU) o << " did not finish within 30 s of CPU time"; }
  else o << "exit " << WEXITSTATUS(st);
  std::istringstream es(err); std::string l, pick;
  while (std::getline(es, l)) {
    if (l.find("runtime error:") != std::string::npos || l.find("AddressSanitizer") != std::string::npos ||
        l.find("Assertion") != std::string::npos) { pick = l; break; }
  }
  if (pick.size() > 300) pick.resize(300);
  o << ": " << pick;
  return o.str();
}

int main(int argc, char **argv) {
  std::string mode = argc > 1 ? argv[1] : "run";
  if (mode != "run") { fprintf(stderr, "usage: params run < cases\n"); return 2; }
  vh_silence();
  vh_install();
  std::string line;
  while (std::getline(std::cin, line)) {
    if (line.empty()) { printf("\n"); continue; }
    size_t sp = line.find(' ');
    std::string tag = line.substr(0, sp);
    Toks t; t.v = vh_ints(sp == std::string::npos ? "" : line.substr(sp + 1));
    std::string res;
    if (sigsetjmp(vh_jmp, 1) == 0) {
      try {
        if (tag == "CTOR") { int k = t.ni(), e = t.ni(); res = inChild([&] { return ctorCase(k, e); }); }
        else if (tag == "ENTERE" || tag == "ENTER" || tag == "VEC") { res = inChild([&] { return circuitCase(tag, t); }); }
        else if (tag == "PSEQ") {
          g_seq.clear();
          int k = t.ni();
          switch (k) {
            case 0: pseq<ColoquinteParameters>(k, t, showAll, readAll); break;
            case 1: pseq<GlobalPlacerParameters>(k, t, showGlobal, readGlobal); break;
            case 2: pseq<RoughLegalizationParameters>(k, t, showRough, readRough); break;
            case 3: pseq<ContinuousModelParameters>(k, t, showCont, readCont); break;
            case 4: pseq<PenaltyParameters>(k, t, showPenalty, readPenalty); break;
            case 5: pseq<LegalizationParameters>(k, t, showLegal, readLegal); break;
            case 6: pseq<DetailedPlacerParameters>(k, t, showDet, readDet); break;
            default: seqAdd("BADCASE");
          }
          res = g_seq;
        }
        else if (tag == "PCHK") {
          int k = t.ni();
          switch (k) {
            case 0: res = pchk<ColoquinteParameters>(t, readAll); break;
            case 1: res = pchk<GlobalPlacerParameters>(t, readGlobal); break;
            case 2: res = pchk<RoughLegalizationParameters>(t, readRough); break;
            case 3: res = pchk<ContinuousModelParameters>(t, readCont); break;
            case 4: res = pchk<PenaltyParameters>(t, readPenalty); break;
            case 5: res = pchk<LegalizationParameters>(t, readLegal); break;
            case 6: res = pchk<DetailedPlacerParameters>(t, readDet); break;
            default: res = "BADCASE";
          }
        }
        else res = circuitCase(tag, t);
      } catch (const std::out_of_range &e) { res = std::string("BADCASE ") + e.what(); }
        catch (const std::exception &e) { res = std::string("THROWOTHER ") + e.what(); }
      if (tag == "PSEQ" && res != g_seq) res = g_seq + (g_seq.empty() ? "" : " @@ ") + res;   // exception outside a recorded call
    } else {
      res = vh_signame();
      if (tag == "PSEQ") res = g_seq + (g_seq.empty() ? "" : " @@ ") + res;
    }
    printf("%s\n", res.c_str());
    fflush(stdout);
  }
  return 0;
}
