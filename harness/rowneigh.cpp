// C02/C07 harness: RowNeighbourhood (src/place_detailed/row_neighbourhood.cpp) from /repo's working tree
//   rowneigh gen SEED COUNT        random row sets: 1-12 rows on a few y levels, several segments per level, equal minY,
//                                  equal x ranges, duplicates, a few empty/inverted rectangles, shuffled; cut-off 0..5
//   rowneigh gen big SEED COUNT    17-40 rows with pairwise distinct (minY, minX): std::sort leaves its insertion-sort-only
//                                  regime (> 16 elements) while the result is still determined by the comparators
//   rowneigh gen neg SEED COUNT    as the first stream with cut-off -3..-1 (never reached from Circuit::placeDetailed)
//   rowneigh run < cases
// case line:   "RN k n (minX maxX minY maxY)*n"
// result line: per row "b i i ..|a i ..|l i ..|r i ..;" then " # " and the harness's own verdict of index safety
//              (every index in [0,n), not the row itself, no duplicates, lengths within max(k,1) / max(k,0)): OK or BAD reason
#include "vh.hpp"
#include "coloquinte.hpp"
#include "place_detailed/row_neighbourhood.hpp"
#include <algorithm>
using namespace coloquinte;

static void emit(int k, const std::vector<Rectangle> &rows) {
  printf("RN %d %d", k, (int)rows.size());
  for (auto &r : rows) printf(" %d %d %d %d", r.minX, r.maxX, r.minY, r.maxY);
  printf("\n");
}

static void gen_small(SplitMix &g, long long count, int klo, int khi) {
  for (long long it = 0; it < count; ++it) {
    int n = (int)g.uni(1, 12), k = (int)g.uni(klo, khi);
    int sc = g.coin(80) ? 1 : (1 << g.uni(3, 16));   // |v| stays below 2^22
    int rh = (int)g.uni(1, 3), nlev = (int)g.uni(1, 5), xspan = (int)g.uni(2, 12);
    bool aligned = g.coin(40);           // segments cut at common abscissae: touching rows, equal x ranges
    std::vector<Rectangle> rows;
    for (int i = 0; i < n; ++i) {
      int lev = (int)g.uni(0, nlev - 1), y = lev * rh + (g.coin(10) ? (int)g.uni(-1, 1) : 0);
      int a, b;
      if (aligned) { a = (int)g.uni(0, 3) * xspan; b = a + (int)g.uni(1, 2) * xspan; }
      else { a = (int)g.uni(-xspan, 2 * xspan); b = a + (int)g.uni(g.coin(5) ? -2 : (g.coin(5) ? 0 : 1), xspan); }
      if (!rows.empty() && g.coin(10)) { auto &o = rows[g.uni(0, (long long)rows.size() - 1)]; a = o.minX / sc; b = o.maxX / sc; if (g.coin(30)) y = o.minY / sc; }
      rows.emplace_back(a * sc, b * sc, y * sc, (y + rh) * sc);
    }
    for (size_t i = rows.size(); i > 1; --i) std::swap(rows[i - 1], rows[g.uni(0, (long long)i - 1)]);
    emit(k, rows);
  }
}

static void gen_big(SplitMix &g, long long count) {
  for (long long it = 0; it < count; ++it) {
    int n = (int)g.uni(17, 40), k = (int)g.uni(0, 5), nlev = (int)g.uni(2, 8), rh = (int)g.uni(1, 3);
    std::vector<Rectangle> rows; std::vector<std::pair<int, int> > keys;
    while ((int)rows.size() < n) {
      int y = (int)g.uni(0, nlev - 1) * rh, a = (int)g.uni(-20, 60), b = a + (int)g.uni(1, 25);
      if (std::find(keys.begin(), keys.end(), std::make_pair(y, a)) != keys.end()) continue;
      keys.emplace_back(y, a); rows.emplace_back(a, b, y, y + rh);
    }
    emit(k, rows);
  }
}

static std::string verdict(const RowNeighbourhood &nb, int n, int k) {
  if (nb.nbRows() != n) return "BAD nbRows";
  for (int r = 0; r < n; ++r) {
    const std::vector<int> *ls[4] = {&nb.rowsBelow(r), &nb.rowsAbove(r), &nb.rowsLeft(r), &nb.rowsRight(r)};
    for (int w = 0; w < 4; ++w) {
      const auto &l = *ls[w];
      int bound = w < 2 ? std::max(k, 1) : std::max(k, 0);
      if ((int)l.size() > bound) return "BAD list longer than the cut-off allows";
      for (size_t i = 0; i < l.size(); ++i) {
        if (l[i] < 0 || l[i] >= n) return "BAD index out of range";
        if (l[i] == r) return "BAD row is its own neighbour";
        for (size_t j = 0; j < i; ++j) if (l[j] == l[i]) return "BAD duplicate index";
      }
    }
  }
  return "OK";
}

int main(int argc, char **argv) {
  std::string mode = argc > 1 ? argv[1] : "run";
  if (mode == "gen") {
    std::string sub = argc > 2 ? argv[2] : "";
    if (sub == "big") { SplitMix g(strtoull(argv[3], nullptr, 10) ^ 0xB16ULL); gen_big(g, atoll(argv[4])); }
    else if (sub == "neg") { SplitMix g(strtoull(argv[3], nullptr, 10) ^ 0x4E47ULL); gen_small(g, atoll(argv[4]), -3, -1); }
    else { SplitMix g(strtoull(argv[2], nullptr, 10)); gen_small(g, atoll(argv[3]), 0, 5); }
    return 0;
  }
  vh_install();
  std::string line;
  while (std::getline(std::cin, line)) {
    if (line.size() < 3) { printf("\n"); continue; }
    auto v = vh_ints(line.substr(3)); size_t p = 0;
    auto nx = [&]() -> long long { return p < v.size() ? v[p++] : 0; };
    if (sigsetjmp(vh_jmp, 1)) { printf("%s\n", vh_signame()); fflush(stdout); continue; }
    try {
      int k = (int)nx(), n = (int)nx();
      std::vector<Rectangle> rows;
      for (int i = 0; i < n; ++i) { int a = nx(), b = nx(), c = nx(), d = nx(); rows.emplace_back(a, b, c, d); }
      RowNeighbourhood nb(rows, k);
      nb.check();
      std::ostringstream s;
      for (int r = 0; r < n; ++r) {
        const std::vector<int> *ls[4] = {&nb.rowsBelow(r), &nb.rowsAbove(r), &nb.rowsLeft(r), &nb.rowsRight(r)};
        const char *nm = "balr";
        for (int w = 0; w < 4; ++w) { s << (w ? "|" : "") << nm[w]; for (int i : *ls[w]) s << " " << i; }
        s << ";";
      }
      printf("%s # %s\n", s.str().c_str(), verdict(nb, n, k).c_str());
    } catch (std::exception &ex) { printf("THROW %s\n", ex.what()); }
    fflush(stdout);
  }
  return 0;
}
