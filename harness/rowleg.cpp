// C12 harness: drives coloquinte::RowLegalizer (compiled from /repo's working tree)
//   rowleg gen enum MAXLEN MAXN MAXW WIN      -> case lines (exhaustive small bounds, b in {0,1})
//   rowleg gen rand SEED COUNT                -> case lines (random, coordinates up to 2^22)
//   rowleg gen long SEED COUNT                -> case lines (rows of 31..200 cells + probes passing many bounds)
//   rowleg run < cases                        -> one result line per case: "pl | costs | maxpassed badop"
//      maxpassed = largest number of bounds a single getCost of the case had to pass (recomputed on a copy of the queue);
//      badop = index of the first getCost after which the object's state (cumWidth_, constrainingPos_, multiset of
//      bounds) differs from the state before it, -1 if none: the clause "prediction leaves the state unchanged" read
//      directly on the C++ object
//      when the case contains reads (k=2) a 4th section follows: " | R pos.. ; R pos.. ; ..." = what getPlacement() returned at
//      each read, in order (badop indexes the ops with the reads removed)
// case line: "RL b e n (k w t)*"   k=0 push, k=1 getCost, k=2 read getPlacement() now (w = t = 0); the placement is
//      always read once more at the end
#include "vh.hpp"
#include <queue>
#define private public
#include "place_detailed/row_legalizer.hpp"
#undef private
using namespace coloquinte;

static void emit(long long b, long long e, const std::vector<long long> &w, const std::vector<long long> &t, const std::vector<int> &k) {
  printf("RL %lld %lld %zu", b, e, w.size());
  for (size_t i = 0; i < w.size(); ++i) printf(" %d %lld %lld", k[i], w[i], t[i]);
  printf("\n");
}

int main(int argc, char **argv) {
  std::string mode = argc > 1 ? argv[1] : "run";
  if (mode == "gen" && std::string(argv[2]) == "enum") {
    int MAXLEN = atoi(argv[3]), MAXN = atoi(argv[4]), MAXW = atoi(argv[5]), WIN = atoi(argv[6]);
    for (int b = 0; b <= 1; ++b) for (int len = 1; len <= MAXLEN; ++len) {
      int e = b + len; int T = len + 2 * WIN + 1;
      for (int n = 1; n <= MAXN; ++n) {
        long long tot = 1; for (int i = 0; i < n; ++i) tot *= (long long)MAXW * T;
        for (long long code = 0; code < tot; ++code) {
          long long c = code; std::vector<long long> w(n), t(n); long long sw = 0;
          for (int i = 0; i < n; ++i) { w[i] = 1 + c % MAXW; c /= MAXW; t[i] = b - WIN + c % T; c /= T; sw += w[i]; }
          if (sw > len) continue;
          // each push preceded by the query that predicts it
          std::vector<long long> ww, tt; std::vector<int> kk;
          auto rd = [&]() { ww.push_back(0); tt.push_back(0); kk.push_back(2); };
          if (code % 2) rd();
          for (int i = 0; i < n; ++i) {
            ww.push_back(w[i]); tt.push_back(t[i]); kk.push_back(1);
            if (code % 3 == 1) rd();   // a read between the prediction and the insertion
            ww.push_back(w[i]); tt.push_back(t[i]); kk.push_back(0);
            // the placement is read after every insertion (twice after the first one), not only at the end
            rd(); if (i == 0) rd();
          }
          emit(b, e, ww, tt, kk);
        }
      }
    }
    return 0;
  }
  if (mode == "gen" && (std::string(argv[2]) == "rand" || std::string(argv[2]) == "zerow")) {
    // "zerow": the same histories with a quarter of the insertions of WIDTH 0 (accepted by RowLegalizer: a cell without extent
    // that still takes a place in the order; outside `fits` of the theorems, judged by the statement oracle and the tie)
    const bool zerow = std::string(argv[2]) == "zerow";
    SplitMix g(strtoull(argv[3], nullptr, 10)); long long count = atoll(argv[4]);
    for (long long it = 0; it < count; ++it) {
      int cls = (int)g.uni(0, 9);
      long long scale = cls < 5 ? 1 : cls < 8 ? (1LL << g.uni(4, 12)) : (1LL << g.uni(16, 20));
      long long b = g.uni(-4, 4) * scale + (cls == 9 ? g.uni(-(1 << 21), 1 << 21) : 0);
      long long len = g.uni(1, 40) * scale; if (len > (1 << 22)) len = 1 << 22;
      long long e = b + len; if (e > (1LL << 22)) { e = 1LL << 22; if (b >= e) b = e - scale; len = e - b; }
      int n = (int)g.uni(1, cls < 5 ? 8 : 14);
      long long rem = len; std::vector<long long> w, t; std::vector<int> k;
      long long maxw = std::max(1LL, len / std::max(1, n - (int)g.uni(0, 2)));
      // with cell areas < 2^31 (C07 domain): width*displacement may be large, that is C07's business
      for (int i = 0; i < n && rem > 0; ++i) {
        long long wi = g.coin(20) ? g.uni(1, std::min(rem, 3 * scale)) : g.uni(1, std::min(rem, maxw));
        if (zerow && g.coin(25)) wi = 0;
        long long ti;
        int tk = (int)g.uni(0, 9);
        if (tk < 5) ti = g.uni(b, e);                                 // inside
        else if (tk < 7) ti = g.uni(b - 3 * scale, e + 3 * scale);    // near
        else if (tk < 8) ti = b + g.uni(-2, 2);                       // at the begin
        else if (tk < 9) ti = e - wi + g.uni(-2, 2);                  // at the right limit (clamping)
        else ti = g.coin(50) ? -(1LL << 22) + g.uni(0, 5) : (1LL << 22) - g.uni(0, 5);  // far
        // interleaved queries with other values
        int nq = (int)g.uni(0, 2);
        for (int q = 0; q < nq; ++q) {
          long long qw = g.uni(1, std::max(1LL, rem)); long long qt = g.coin(50) ? ti : g.uni(b - 2 * scale, e + 2 * scale);
          w.push_back(qw); t.push_back(qt); k.push_back(1);
        }
        w.push_back(wi); t.push_back(ti); k.push_back(0); rem -= wi;
        // reads of the placement between the insertions (sometimes two in a row)
        if (g.coin(40)) { w.push_back(0); t.push_back(0); k.push_back(2); if (g.coin(30)) { w.push_back(0); t.push_back(0); k.push_back(2); } }
        if (g.coin(30)) { w.push_back(wi); t.push_back(ti); k.push_back(1);    // may not fit any more: only queried if it fits
          if (w.back() > rem) { w.pop_back(); t.pop_back(); k.pop_back(); }
          else if (g.coin(20)) { w.push_back(0); t.push_back(0); k.push_back(2); } }
      }
      emit(b, e, w, t, k);
    }
    return 0;
  }
  if (mode == "gen" && std::string(argv[2]) == "long") {
    // long rows: 33..200 insertions in one segment, then probes (getCost NOT followed by the insertion, repeated
    // identically) whose descent passes dozens to hundreds of bounds, from the far left and the far right
    SplitMix g(strtoull(argv[3], nullptr, 10)); long long count = atoll(argv[4]);
    static const int sizes[] = {33, 64, 65, 128, 129, 31, 32, 34, 63, 127, 130, 200};
    for (long long it = 0; it < count; ++it) {
      int n = g.coin(60) ? sizes[g.uni(0, 11)] : (int)g.uni(50, 200);
      long long scale = g.coin(70) ? 1 : (1LL << g.uni(2, 10));
      int layout = (int)g.uni(0, 3);  // 0 sorted, one cluster per cell; 1 all targets in a small window; 2 random; 3 sorted with ties
      std::vector<long long> cw(n); long long sumw = 0;
      for (int i = 0; i < n; ++i) { cw[i] = g.uni(1, 3) * scale; sumw += cw[i]; }
      long long P = g.coin(50) ? 2 * sumw + g.uni(1, 10) * scale        // heavier than everything: passes every bound by slope
                               : g.uni(1, 2 * sumw);                   // passes about P / (2 * mean width) bounds
      long long gap = g.uni(0, 3) * scale;
      long long len = sumw + (long long)n * gap + P + g.uni(0, 20) * scale;
      long long b = g.uni(-4, 4) * scale, e = b + len;
      std::vector<long long> w, t; std::vector<int> k;
      auto probe = [&](long long rem) {
        long long pw = std::min(P, rem); if (pw <= 0) return;
        long long far_l = g.coin(50) ? b - g.uni(0, 100) * scale : -(1LL << 22) + g.uni(0, 5);
        long long far_r = g.coin(50) ? e + g.uni(0, 100) * scale : (1LL << 22) - g.uni(0, 5);
        int rep = (int)g.uni(2, 3);
        for (int r = 0; r < rep; ++r) { w.push_back(pw); t.push_back(far_l); k.push_back(1); }
        w.push_back(pw); t.push_back(far_r); k.push_back(1);
        w.push_back(rem); t.push_back(far_l); k.push_back(1);           // as wide as what is left: passes bounds by legality
        w.push_back(g.uni(1, pw)); t.push_back(g.uni(b, e)); k.push_back(1);
        w.push_back(pw); t.push_back(far_l); k.push_back(1);           // same prediction again
      };
      long long used = 0, pos = b;
      for (int i = 0; i < n; ++i) {
        long long ti;
        if (layout == 0) { ti = pos + gap; pos = ti + cw[i]; }
        else if (layout == 1) ti = b + len / 2 + g.uni(-3, 3) * scale;
        else if (layout == 2) ti = g.uni(b, e);
        else { ti = pos + (g.coin(50) ? 0 : gap); pos = ti + (g.coin(30) ? 0 : cw[i]); }
        if (g.coin(10)) { w.push_back(cw[i]); t.push_back(ti); k.push_back(1); }
        w.push_back(cw[i]); t.push_back(ti); k.push_back(0); used += cw[i];
        if (g.coin(3)) { w.push_back(0); t.push_back(0); k.push_back(2); if (g.coin(30)) { w.push_back(0); t.push_back(0); k.push_back(2); } }
        int done = i + 1;
        if ((done == 33 || done == 65 || done == 129) && done < n && g.coin(50)) probe(len - used);
      }
      probe(len - used);
      // a different, small cell is inserted after the probes; then the prediction is asked again
      long long rem = len - used;
      if (rem > 0 && g.coin(70)) {
        long long sw = g.uni(1, std::min(rem, 3 * scale)); long long st = g.coin(50) ? e : g.uni(b, e);
        if (g.coin(50)) { w.push_back(0); t.push_back(0); k.push_back(2); }
        w.push_back(sw); t.push_back(st); k.push_back(0); rem -= sw;
        if (g.coin(50)) { w.push_back(0); t.push_back(0); k.push_back(2); }
        probe(rem);
      }
      // sometimes the probed cell itself is inserted last, predicted just before
      if (rem > 0 && g.coin(40)) {
        long long pw = std::min(P, rem); long long pt = g.coin(50) ? b - g.uni(0, 50) * scale : e;
        w.push_back(pw); t.push_back(pt); k.push_back(1);
        if (g.coin(50)) { w.push_back(0); t.push_back(0); k.push_back(2); }
        w.push_back(pw); t.push_back(pt); k.push_back(0);
      }
      emit(b, e, w, t, k);
    }
    return 0;
  }
  // run
  vh_install();
  std::string line;
  while (std::getline(std::cin, line)) {
    if (line.size() < 3) { printf("\n"); continue; }
    auto v = vh_ints(line.substr(3));
    if (v.size() < 3) { printf("?SHORT\n"); continue; }
    long long b = v[0], e = v[1]; size_t n = (size_t)v[2];
    if (sigsetjmp(vh_jmp, 1)) { printf("%s\n", vh_signame()); fflush(stdout); continue; }
    std::string res;
    try {
      RowLegalizer leg((int)b, (int)e);
      std::vector<long long> costs;
      long long maxpassed = 0, badop = -1;
      auto drain = [](std::priority_queue<RowLegalizer::Bound> q) {
        std::vector<std::pair<int, int> > r;
        while (!q.empty()) { r.push_back({q.top().absolutePos, q.top().weight}); q.pop(); }
        return r;
      };
      std::vector<std::vector<int> > reads; long long opi = -1;
      for (size_t i = 0; i < n; ++i) {
        int k = (int)v[3 + 3 * i]; int w = (int)v[4 + 3 * i]; int t = (int)v[5 + 3 * i];
        if (k == 2) { reads.push_back(leg.getPlacement()); continue; }
        ++opi;
        if (k == 0) { costs.push_back(leg.push(w, t)); continue; }
        auto before = drain(leg.bounds); auto cw = leg.cumWidth_; auto cp = leg.constrainingPos_;
        { // how many bounds the descent passes (same loop condition as getDisplacement, on the drained copy)
          long long used = cw.back(), tabs = (long long)t - used, slope = -(long long)w, cnt = 0;
          for (auto &bd : before) {
            if (!((slope < 0 && bd.first > tabs) || bd.first > (long long)e - used - w)) break;
            slope += bd.second; ++cnt;
          }
          maxpassed = std::max(maxpassed, cnt);
        }
        costs.push_back(leg.getCost(w, t));
        if (badop < 0 && (drain(leg.bounds) != before || leg.cumWidth_ != cw || leg.constrainingPos_ != cp)) badop = opi;
      }
      auto pl = leg.getPlacement();
      leg.check();
      std::ostringstream s;
      for (size_t i = 0; i < pl.size(); ++i) s << (i ? " " : "") << pl[i];
      s << " | ";
      for (size_t i = 0; i < costs.size(); ++i) s << (i ? " " : "") << costs[i];
      s << " | " << maxpassed << " " << badop;
      if (!reads.empty()) {
        s << " |";
        for (size_t r = 0; r < reads.size(); ++r) { s << (r ? " ; R" : " R"); for (int x : reads[r]) s << " " << x; }
      }
      res = s.str();
    } catch (std::exception &ex) { res = std::string("THROW ") + ex.what(); }
    printf("%s\n", res.c_str());
  }
  return 0;
}
