// C16 harness: DensityGrid / HierarchicalDensityPlacement / DensityLegalizer of /repo's working tree
//   density gen SEED COUNT [heavy|split|nofree]   case lines from a seeded splitmix64 (split: "SP ..." lines, see runSplit;
//                                      nofree: HC circuits WITHOUT free space -- every row covered by fixed obstructions, one macro over
//                                      all rows or one obstruction per row leaving at most slivers <= 2*margin: finding F28)
//   density gen SEED COUNT large       COUNT HR/HC lines of the LARGE-magnitude class (see genParts below)
//   density gen SEED COUNT order       4*COUNT HR/HC lines: groups of four listings of the same set of regions / rows
//                                      (bottom-up, top-down, even rows then odd rows, shuffled), see genOrderGroup below
//   density run < cases                one trace line per case
//
// case lines (ints only):
//   HR binSize nreg (minX maxX minY maxY)*nreg ncells (demand)*ncells TAIL
//   HC binSize margin nrows (minX maxX minY maxY orient)*nrows ncells (x y w h orient fixed obstruction)*ncells TAIL
//      HC goes through DensityLegalizer::fromIspdCircuit with sizeFactor = binSize/H, sideMargin = margin/H
//      (H = smallest positive cell height, a power of two here so that both float products are exact);
//      demand of cell i = fixed ? 0 : w*h
//   TAIL = (tx4 ty4)*ncells  costModel nbSteps lineSz lineOv diagSz diagOv sqSz sqOv qpen1024 climit4 unidim
//          nprobe (coord)*nprobe  nops (opcode args)*
//      targets are tx4/4, ty4/4 (exact floats); quadraticPenalty = qpen1024/1024, coarseningLimit = climit4/4
//   opcodes: 0 refineX  1 refineY  2 coarsenX  3 coarsenY  4 improve()  5 run()  6 refine()
//            7 a b c d        rebisect(a%nbx, b%nby, c%nbx, d%nby)            (private)
//            8 k (a b)*k      reoptimize(distinct bins a%nbx, b%nby)          (private)
//            9 improveXTransport  10 improveYTransport                       (private)
//            11 a b c d r     two distinct bins: sorted union split at r%(size+1), handed back with setBinCells
//            12 spread        spreadCoordX/Y + simpleCoordX/Y (floats go to the side channel after " ## ")
//            13 k             updateCellDemand(k * demand)
//            14 coarsenFully  15 refineFully
//            16 k (c w h)*k   size update: cell c%ncells of the case's circuit gets width w and height h
//                             (Circuit::setCellWidth/Height), then updateCellDemand(circuit).  HR cases use a shadow
//                             circuit of movable cells of width = demand, height = 1.  A refused update (exception)
//                             leaves the circuit resized and must leave the density object untouched.
//                             trace: "O 16 A|R D (cellDemand(i))*ncells S ..."  (A accepted, R refused)
// trace line: "G ..." grid + hierarchy, then "S ..." state after construction, then per op
//   "O code NA" (guard of the op false, nothing executed) or "O code [T k (x y)*] [U bins in C++ order] S ...";
//   a death inside the library ends the trace with "DIED <signal|exception text>".
//   S lx ly nbx nby | limX | limY | parentX | parentY | caps (x-major) | per bin: k sorted cells | cellBinX | cellBinY | findBinByX(probes) | findBinByY(probes)
#include "vh.hpp"
#include <algorithm>
#include <array>
#include <cassert>
#include <chrono>
#include <cmath>
#include <functional>
#include <iomanip>
#include <limits>
#include <map>
#include <memory>
#include <numeric>
#include <optional>
#include <random>
#include <set>
#include <stdexcept>
#include <string>
#include <unordered_map>
#include <unordered_set>
#include <utility>
#include <vector>
#define private public
#define protected public
#include "coloquinte.hpp"
#include "place_global/density_grid.hpp"
#include "place_global/density_legalizer.hpp"
#undef private
#undef protected
using namespace coloquinte;

static std::string out;      // int trace
static std::string side;     // float side channel
static void P(long long v) { out += std::to_string(v); out += ' '; }
static void K(const char *s) { out += s; out += ' '; }

static void dumpState(const DensityLegalizer &p, const std::vector<int> &probes) {
  K("S"); P(p.levelX()); P(p.levelY()); P(p.nbBinsX()); P(p.nbBinsY()); K("|");
  for (int i = 0; i <= p.nbBinsX(); ++i) P(p.binLimitX(i)); K("|");
  for (int j = 0; j <= p.nbBinsY(); ++j) P(p.binLimitY(j)); K("|");
  for (int i = 0; i < p.nbBinsX(); ++i) P(p.parentX(i)); K("|");
  for (int j = 0; j < p.nbBinsY(); ++j) P(p.parentY(j)); K("|");
  for (int i = 0; i < p.nbBinsX(); ++i) for (int j = 0; j < p.nbBinsY(); ++j) P(p.binCapacity(i, j)); K("|");
  for (int i = 0; i < p.nbBinsX(); ++i) for (int j = 0; j < p.nbBinsY(); ++j) {
    std::vector<int> c = p.binCells(i, j); std::sort(c.begin(), c.end());
    P(c.size()); for (int x : c) P(x);
  }
  K("|");
  for (int c = 0; c < p.nbCells(); ++c) P(p.cellBinX(c)); K("|");
  for (int c = 0; c < p.nbCells(); ++c) P(p.cellBinY(c)); K("|");
  for (int v : probes) P(p.findBinByX(v)); K("|");
  for (int v : probes) P(p.findBinByY(v));
}

static void dumpUnsorted(const DensityLegalizer &p) {
  K("U");
  for (int i = 0; i < p.nbBinsX(); ++i) for (int j = 0; j < p.nbBinsY(); ++j) {
    const std::vector<int> &c = p.binCells(i, j);
    P(c.size()); for (int x : c) P(x);
  }
}

static void dumpGrid(const DensityLegalizer &p) {
  const DensityGrid &g = p.grid();
  K("G"); P(g.nbBinsX()); for (int i = 0; i <= g.nbBinsX(); ++i) P(g.binLimitX(i));
  K("|"); P(g.nbBinsY()); for (int j = 0; j <= g.nbBinsY(); ++j) P(g.binLimitY(j));
  K("|"); for (int i = 0; i < g.nbBinsX(); ++i) for (int j = 0; j < g.nbBinsY(); ++j) P(g.binCapacity(i, j));
  K("|"); P(g.totalCapacity());
  Rectangle a = g.placementArea(); P(a.minX); P(a.maxX); P(a.minY); P(a.maxY);
  K("| L"); P(p.nbLevelX());
  for (int l = 0; l < p.nbLevelX(); ++l) { P(p.xLimits_[l].size()); for (int v : p.xLimits_[l]) P(v); for (int v : p.parentX_[l]) P(v); }
  K("|"); P(p.nbLevelY());
  for (int l = 0; l < p.nbLevelY(); ++l) { P(p.yLimits_[l].size()); for (int v : p.yLimits_[l]) P(v); for (int v : p.parentY_[l]) P(v); }
  K("|");
}

struct Case {
  std::vector<long long> v; size_t p = 0;
  long long nx() { return p < v.size() ? v[p++] : 0; }
};

static void runCase(const std::string &line) {
  Case cs; cs.v = vh_ints(line.substr(3));
  bool circuitMode = line[1] == 'C';
  std::unique_ptr<DensityLegalizer> leg;
  std::unique_ptr<Circuit> circp;   // the circuit the size updates (op 16) go through
  std::vector<int> demands;
  int ncells = 0;
  if (!circuitMode) {
    int binSize = cs.nx(); int nreg = cs.nx(); std::vector<Rectangle> regs;
    for (int i = 0; i < nreg; ++i) { int a = cs.nx(), b = cs.nx(), c = cs.nx(), d = cs.nx(); regs.emplace_back(a, b, c, d); }
    ncells = cs.nx(); for (int i = 0; i < ncells; ++i) demands.push_back(cs.nx());
    DensityGrid grid(binSize, regs);
    leg.reset(new DensityLegalizer(grid, demands));
    circp.reset(new Circuit(ncells));
    circp->setCellWidth(demands); circp->setCellHeight(std::vector<int>(ncells, 1));
  } else {
    int binSize = cs.nx(); int margin = cs.nx(); int nrows = cs.nx(); std::vector<Row> rows;
    for (int i = 0; i < nrows; ++i) { int a = cs.nx(), b = cs.nx(), c = cs.nx(), d = cs.nx(); auto o = (CellOrientation)cs.nx(); rows.emplace_back(a, b, c, d, o); }
    ncells = cs.nx(); circp.reset(new Circuit(ncells)); Circuit &circ = *circp;
    std::vector<int> x(ncells), y(ncells), w(ncells), h(ncells); std::vector<CellOrientation> ori(ncells); std::vector<bool> fx(ncells), ob(ncells);
    int H = std::numeric_limits<int>::max();
    for (int i = 0; i < ncells; ++i) {
      x[i] = cs.nx(); y[i] = cs.nx(); w[i] = cs.nx(); h[i] = cs.nx(); ori[i] = (CellOrientation)cs.nx(); fx[i] = cs.nx(); ob[i] = cs.nx();
      if (h[i] > 0) H = std::min(H, h[i]);
      demands.push_back(fx[i] ? 0 : w[i] * h[i]);
    }
    circ.setCellX(x); circ.setCellY(y); circ.setCellWidth(w); circ.setCellHeight(h); circ.setCellOrientation(ori);
    circ.setCellIsFixed(fx); circ.setCellIsObstruction(ob); circ.setRows(rows);
    float sizeFactor = (float)binSize / (float)H, sideMargin = (float)margin / (float)H;
    // the generator's promise: both products are exact
    if ((int)(sizeFactor * H) != binSize || (int)(sideMargin * H) != margin) { out = "GENERR inexact factors"; return; }
    leg.reset(new DensityLegalizer(DensityLegalizer::fromIspdCircuit(circ, sizeFactor, sideMargin)));
  }
  std::vector<float> tx(ncells), ty(ncells);
  for (int i = 0; i < ncells; ++i) { tx[i] = cs.nx() / 4.0f; ty[i] = cs.nx() / 4.0f; }
  RoughLegalizationParameters rlp(3);
  rlp.costModel = (LegalizationModel)cs.nx(); rlp.nbSteps = cs.nx();
  rlp.lineReoptSize = cs.nx(); rlp.lineReoptOverlap = cs.nx(); rlp.diagReoptSize = cs.nx(); rlp.diagReoptOverlap = cs.nx();
  rlp.squareReoptSize = cs.nx(); rlp.squareReoptOverlap = cs.nx();
  rlp.quadraticPenalty = cs.nx() / 1024.0; rlp.coarseningLimit = cs.nx() / 4.0; rlp.unidimensionalTransport = cs.nx() != 0;
  try { rlp.check(); } catch (const std::exception &e) { out = "GENERR parameters rejected by RoughLegalizationParameters::check"; return; }
  {  // as GlobalPlacer::GlobalPlacer maps them
    DensityLegalizer::Parameters lp; LegalizationModel m = rlp.costModel;
    lp.nbSteps = rlp.nbSteps; lp.costModel = m; lp.lineReoptSize = rlp.lineReoptSize; lp.lineReoptOverlap = rlp.lineReoptOverlap;
    lp.diagReoptSize = rlp.diagReoptSize; lp.diagReoptOverlap = rlp.diagReoptOverlap; lp.squareReoptSize = rlp.squareReoptSize;
    lp.squareReoptOverlap = rlp.squareReoptOverlap; lp.unidimensionalTransport = rlp.unidimensionalTransport && m == LegalizationModel::L1;
    lp.coarseningLimit = rlp.coarseningLimit;
    if (m == LegalizationModel::L1 || m == LegalizationModel::L2 || m == LegalizationModel::LInf) {
      float dist = leg->placementArea().width() + leg->placementArea().height();
      lp.quadraticPenaltyFactor = rlp.quadraticPenalty / dist;
    }
    leg->setParams(lp);
  }
  leg->updateCellTargetX(tx); leg->updateCellTargetY(ty);
  int nprobe = cs.nx(); std::vector<int> probes; for (int i = 0; i < nprobe; ++i) probes.push_back(cs.nx());
  dumpGrid(*leg); dumpState(*leg, probes);
  int nops = cs.nx();
  for (int o = 0; o < nops; ++o) {
    int code = cs.nx();
    K("| O"); P(code);
    DensityLegalizer &L = *leg;
    int nbx = L.nbBinsX(), nby = L.nbBinsY();
    bool done = true;
    // a placement area without extent is outside the domain of the legalization passes (they divide by it)
    bool extent = L.placementArea().width() > 0 && L.placementArea().height() > 0;
    auto md = [](long long a, int m) { return (int)(((a % m) + m) % m); };
    switch (code) {
      case 0: if (L.levelX() >= 1) L.refineX(); else done = false; break;
      case 1: if (L.levelY() >= 1) L.refineY(); else done = false; break;
      case 2: if (L.levelX() + 1 < L.nbLevelX()) L.coarsenX(); else done = false; break;
      case 3: if (L.levelY() + 1 < L.nbLevelY()) L.coarsenY(); else done = false; break;
      case 4: if (extent) L.improve(); else done = false; break;
      case 5: if (extent) L.run(); else done = false; break;
      case 6: if (extent && (L.levelX() > 0 || L.levelY() > 0)) L.refine(); else done = false; break;
      case 7: {
        int a = md(cs.nx(), nbx), b = md(cs.nx(), nby), c = md(cs.nx(), nbx), d = md(cs.nx(), nby);
        K("T"); if (a == c && b == d) { P(1); P(a); P(b); } else { P(2); P(a); P(b); P(c); P(d); }
        L.rebisect(a, b, c, d); break;
      }
      case 8: {
        int k = cs.nx(); std::vector<std::pair<int, int> > bins;
        for (int i = 0; i < k; ++i) {
          int a = md(cs.nx(), nbx), b = md(cs.nx(), nby);
          if (std::find(bins.begin(), bins.end(), std::make_pair(a, b)) == bins.end()) bins.emplace_back(a, b);
        }
        K("T"); P(bins.size()); for (auto &q : bins) { P(q.first); P(q.second); }
        L.reoptimize(bins); break;
      }
      case 9: if (extent) L.improveXTransport(); else done = false; break;
      case 10: if (extent) L.improveYTransport(); else done = false; break;
      case 11: {
        int a = md(cs.nx(), nbx), b = md(cs.nx(), nby), c = md(cs.nx(), nbx), d = md(cs.nx(), nby); long long r = cs.nx();
        if (a == c && b == d) { done = false; break; }
        std::vector<int> all = L.binCells(a, b); all.insert(all.end(), L.binCells(c, d).begin(), L.binCells(c, d).end());
        std::sort(all.begin(), all.end());
        size_t k = (size_t)(r % (long long)(all.size() + 1));
        K("T"); P(2); P(a); P(b); P(c); P(d);
        L.setBinCells(a, b, std::vector<int>(all.begin(), all.begin() + k));
        L.setBinCells(c, d, std::vector<int>(all.begin() + k, all.end()));
        break;
      }
      case 12: {
        dumpUnsorted(L);
        std::vector<float> sx = L.spreadCoordX(tx), sy = L.spreadCoordY(ty), mx = L.simpleCoordX(), my = L.simpleCoordY();
        char buf[160];
        for (int c = 0; c < ncells; ++c) { snprintf(buf, sizeof buf, "%d %d %.9g %.9g %.9g %.9g ", o, c, sx[c], sy[c], mx[c], my[c]); side += buf; }
        break;
      }
      case 13: {
        int k = cs.nx(); for (int &dm : demands) dm *= k;
        L.updateCellDemand(demands); break;
      }
      case 16: {
        int k = cs.nx(); std::vector<int> cw = circp->cellWidth(), ch = circp->cellHeight();
        for (int q = 0; q < k; ++q) {
          long long c = cs.nx(), w = cs.nx(), h = cs.nx();
          if (ncells > 0) { cw[md(c, ncells)] = (int)w; ch[md(c, ncells)] = (int)h; }
        }
        circp->setCellWidth(cw); circp->setCellHeight(ch);
        bool accepted = true;
        try { L.updateCellDemand(*circp); } catch (const std::runtime_error &) { accepted = false; }
        K(accepted ? "A" : "R"); K("D");
        for (int c = 0; c < ncells; ++c) { demands[c] = L.cellDemand(c); P(demands[c]); }
        break;
      }
      case 14: L.coarsenFully(); break;
      case 15: L.refineFully(); break;
      default: done = false;
    }
    if (!done) { K("NA"); continue; }
    L.check();   // the code's own consistency check (assertions are on in the "plain" variant)
    dumpState(L, probes);
  }
}

// "SP n (demand)*n k (cell)*k target capa1 capa2": DensityLegalizer::findConstrainedSplitPos on the cells in the given
// (cost) order; result: the split position
static void runSplit(const std::string &line) {
  Case cs; cs.v = vh_ints(line.substr(3));
  int n = cs.nx(); std::vector<int> d; for (int i = 0; i < n; ++i) d.push_back(cs.nx());
  DensityGrid grid(1, Rectangle(0, 1, 0, 1));
  DensityLegalizer leg(grid, d);
  int k = cs.nx(); std::vector<std::pair<float, int> > costs;
  for (int i = 0; i < k; ++i) costs.emplace_back((float)i, (int)cs.nx());
  int target = cs.nx(); long long c1 = cs.nx(), c2 = cs.nx();
  P(leg.findConstrainedSplitPos(costs, target, c1, c2));
}

static std::string genSplit(SplitMix &r) {
  std::string s = "SP"; auto put = [&](long long v) { s += " " + std::to_string(v); };
  int n = r.uni(1, 12); put(n); long long tot = 0; std::vector<long long> d;
  for (int i = 0; i < n; ++i) { long long v = r.coin(15) ? 0 : r.uni(1, 12); d.push_back(v); }
  for (auto v : d) put(v);
  // a permutation of a subset of the cells
  std::vector<int> idx; for (int i = 0; i < n; ++i) if (r.coin(80)) idx.push_back(i);
  for (size_t i = idx.size(); i > 1; --i) std::swap(idx[i - 1], idx[r.uni(0, i - 1)]);
  put(idx.size()); for (int c : idx) { put(c); tot += d[c]; }
  put(r.uni(0, idx.size()));
  int k = r.uni(0, 5);
  long long c1 = k == 0 ? 0 : r.uni(0, tot + 3), c2 = k == 1 ? 0 : r.uni(0, tot + 3);
  put(c1); put(c2);
  return s;
}

// ------------------------------------------------------------------ generator
// cells0: (fixed, width, height) of every cell of the case's circuit (HR: (0, demand, 1)), for the size updates (op 16)
typedef std::vector<std::array<long long, 3> > Cells0;
static bool g_large = false;   // large-magnitude class: no demand scaling (op 13 -> 12: `demand *= k` is int arithmetic in this harness)
static void genTail(SplitMix &r, std::string &s, int ncells, int minX, int maxX, int minY, int maxY, int unit, bool degenerate, bool heavy,
                    const Cells0 &cells0) {
  auto put = [&](long long v) { s += " " + std::to_string(v); };
  Cells0 cur = cells0;   // sizes in the circuit as the history goes (a refused update still resizes the circuit)
  auto zero0 = [&](int c) { return cells0[c][0] != 0 || cells0[c][1] * cells0[c][2] == 0; };   // status inside the density object
  auto zeroNow = [&](int c) { return cur[c][0] != 0 || cur[c][1] * cur[c][2] == 0; };
  int updRate = r.coin(35) ? (int)r.uni(10, 30) : 6;   // some histories are mostly size updates between passes
  std::vector<std::pair<long long, long long> > tg;
  int w = std::max(1, maxX - minX), h = std::max(1, maxY - minY);
  for (int i = 0; i < ncells; ++i) {
    long long x, y; int k = r.uni(0, 9);
    if (k <= 4) { x = 4LL * minX + r.uni(0, 4LL * w); y = 4LL * minY + r.uni(0, 4LL * h); }            // inside, quarter steps
    else if (k == 5 && i > 0) { x = tg[r.uni(0, i - 1)].first; y = tg[r.uni(0, i - 1)].second; }          // coincident
    else if (k == 6) { x = 4LL * (r.coin(50) ? minX : maxX); y = 4LL * (r.coin(50) ? minY : maxY); }      // on the boundary
    else if (k == 7) { x = 4LL * minX + r.uni(-4000LL * unit, 4000LL * unit + 4LL * w); y = 4LL * minY + r.uni(-4000LL * unit, 4000LL * unit + 4LL * h); }  // far outside
    else if (k == 8) { x = 4LL * (minX + r.uni(0, w)); y = 4LL * (minY + r.uni(0, h)); }                  // integer (often a bin limit)
    else { x = 4LL * minX + r.uni(-8, 4LL * w + 8); y = 4LL * minY + r.uni(-8, 4LL * h + 8); }            // just outside
    tg.emplace_back(x, y); put(x); put(y);
  }
  // parameters accepted by RoughLegalizationParameters::check
  int cm = r.uni(0, 5); int steps = r.coin(10) ? 0 : (int)r.uni(1, heavy ? 3 : 2);
  auto sz = [&](int big) { int k = r.uni(0, 9); return k < 3 ? 1 : k < 8 ? (int)r.uni(2, 4) : (int)r.uni(5, big); };
  int ls = sz(heavy ? 64 : 12), ds = sz(heavy ? 64 : 12), ss = r.coin(40) ? 1 : (int)r.uni(2, heavy ? 8 : 4);
  bool uni = r.coin(50);
  if (ls < 2 && ds < 2 && ss < 2 && !(uni && cm == 0)) { if (r.coin(50)) ls = 2; else { uni = true; cm = 0; } }
  auto ov = [&](int size) { return size > 1 ? (int)r.uni(1, size - 1) : (int)r.uni(1, 3); };
  put(cm); put(steps); put(ls); put(ov(ls)); put(ds); put(ov(ds)); put(ss); put(ov(ss));
  put(r.coin(30) ? 0 : r.coin(50) ? 1 : r.uni(0, 1024)); put(r.coin(30) ? 400 : r.uni(0, 800)); put(uni);
  // probes for findBinByX/Y
  std::vector<long long> pr = {minX - 1 - r.uni(0, 50), minX, maxX - 1, maxX, maxX + r.uni(1, 50), minY, maxY, minY - 3};
  for (int i = 0; i < 4; ++i) pr.push_back(r.uni(std::min(minX, minY) - 2, std::max(maxX, maxY) + 2));
  put(pr.size()); for (auto v : pr) put(v);
  int nops = r.uni(3, heavy ? 24 : 14); put(nops);
  for (int i = 0; i < nops; ++i) {
    int k = r.uni(0, 99); int code;
    if (k < 14) code = 0; else if (k < 28) code = 1; else if (k < 36) code = 2; else if (k < 44) code = 3;
    else if (k < 52) code = 4; else if (k < 60) code = 5; else if (k < 66) code = 6; else if (k < 72) code = 7;
    else if (k < 78) code = 8; else if (k < 81) code = 9; else if (k < 84) code = 10; else if (k < 89) code = 11;
    else if (k < 94) code = 12; else if (k < 96) code = 13; else if (k < 98) code = 14; else code = 15;
    // a placement area without extent is outside the domain of the legalization passes (1e8/width)
    if (degenerate && (code == 4 || code == 5 || code == 6 || code == 9 || code == 10)) code = r.coin(50) ? 11 : 12;
    if (r.coin(updRate)) code = 16;
    if (g_large && code == 13) code = 12;
    put(code);
    if (code == 16) {
      // size updates: merely different / to zero area / from zero area / arbitrary, then (often) a repair of every cell
      // whose zero status differs from the one the density object was built with, so that the update is accepted
      std::vector<std::array<long long, 3> > ch;
      int k = ncells == 0 ? (int)r.uni(0, 1) : (int)r.uni(0, 3);
      for (int q = 0; q < k; ++q) {
        long long c = r.uni(0, std::max(1, ncells) - 1), w, h; int kind = r.uni(0, 99);
        long long w0 = ncells ? cur[c][1] : 1, h0 = ncells ? cur[c][2] : 1;
        if (kind < 45) { w = r.uni(1, std::min(2 * std::max(1LL, w0) + 1, 4 * std::max(1LL, ncells ? cells0[c][1] : 1) + 8)); h = r.coin(70) ? std::max(1LL, h0) : std::max(1LL, h0) * r.uni(1, 2); }
        else if (kind < 70) { if (r.coin(50)) { w = 0; h = r.coin(50) ? h0 : r.uni(0, 3); } else { w = r.coin(50) ? w0 : r.uni(0, 5); h = 0; } }
        else if (kind < 85) { w = r.uni(1, 6); h = r.uni(1, 2) * unit; }
        else { w = r.uni(0, 6); h = r.uni(0, 3); }
        // cell areas stay below 2^31 (int demands in the C++); never reached by the small classes, consumes no randomness
        if (w * h > (1LL << 30)) { h = std::min(h, (long long)unit); w = std::min(w, (1LL << 30) / std::max(1LL, h)); }
        if (ncells) { cur[c][1] = w; cur[c][2] = h; }
        ch.push_back({c + (r.coin(10) ? ncells : 0), w, h});
      }
      if (r.coin(60)) for (int c = 0; c < ncells; ++c) if (zeroNow(c) != zero0(c)) {
        long long w = zero0(c) ? 0 : std::max(1LL, cells0[c][1] + r.uni(0, 2)), h = zero0(c) ? cur[c][2] : std::max(1LL, cells0[c][2]);
        cur[c][1] = w; cur[c][2] = h; ch.push_back({c, w, h});
      }
      put(ch.size()); for (auto &t : ch) { put(t[0]); put(t[1]); put(t[2]); }
    }
    if (code == 7) for (int q = 0; q < 4; ++q) put(r.uni(0, 40));
    if (code == 8) { int kb = r.coin(20) ? r.uni(0, 2) : r.uni(3, 9); put(kb); for (int q = 0; q < 2 * kb; ++q) put(r.uni(0, 40)); }
    if (code == 11) for (int q = 0; q < 5; ++q) put(r.uni(0, 40));
    if (code == 13) put(r.uni(1, 3));
  }
}

// disjoint row segments: rows of height H stacked from oy (gaps possible), each cut into segments
struct Seg { int a, b, c, d; };
static std::vector<Seg> genRows(SplitMix &r, int ox, int oy, int H, int &outMaxW) {
  std::vector<Seg> segs; int nrows = r.uni(1, 6); int y = oy; int W = r.uni(1, 60) * (r.coin(20) ? H : 1);
  outMaxW = W;
  for (int i = 0; i < nrows; ++i) {
    if (r.coin(15)) y += r.coin(50) ? H : (int)r.uni(1, 2 * H);   // gap between rows
    int a = ox + (r.coin(30) ? (int)r.uni(0, W / 3) : 0), b = ox + W - (r.coin(30) ? (int)r.uni(0, W / 3) : 0);
    int x = a; int parts = r.uni(1, 3);
    for (int q = 0; q < parts && x < b; ++q) {
      int e = q == parts - 1 ? b : (int)r.uni(x, b);
      if (e > x || r.coin(5)) segs.push_back({x, e, y, y + H});
      x = e + (int)r.uni(0, std::max(1, W / 4));                    // obstruction between the segments
    }
    y += H;
  }
  return segs;
}

static std::string genCase(SplitMix &r, bool heavy, bool nofree = false) {
  std::string s; auto put = [&](long long v) { s += " " + std::to_string(v); };
  int H = 1 << r.uni(0, 3); int ox = (int)r.uni(-60, 60), oy = (int)r.uni(-60, 60);
  if (r.coin(10)) { ox *= 1000; oy *= 1000; }
  bool circuit = r.coin(30) || nofree;
  int W; std::vector<Seg> segs = genRows(r, ox, oy, H, W);
  if (!circuit && r.coin(4)) segs.clear();
  if (!circuit && r.coin(3)) { segs.clear(); segs.push_back({ox, ox + (int)(r.coin(50) ? 0 : r.uni(1, 9)), oy, oy + (int)(r.coin(50) ? 0 : H)}); }
  int minX = 0, maxX = 0, minY = 0, maxY = 0; bool first = true;
  for (auto &g : segs) {
    if (first) { minX = g.a; maxX = g.b; minY = g.c; maxY = g.d; first = false; }
    else { minX = std::min(minX, g.a); maxX = std::max(maxX, g.b); minY = std::min(minY, g.c); maxY = std::max(maxY, g.d); }
  }
  int ext = std::max(maxX - minX, maxY - minY);
  int maxBins = heavy ? 24 : 12;
  int lo = std::max(1, (ext + maxBins - 1) / maxBins);
  int binSize = r.coin(10) ? lo + (int)r.uni(0, ext + 3) : lo + (int)r.uni(0, 2 * lo + 2);
  long long cap = 0; for (auto &g : segs) cap += (long long)(g.b - g.a) * (g.d - g.c);
  int ncells = r.coin(5) ? (int)r.uni(0, 1) : (int)r.uni(2, heavy ? 48 : 22);
  long long util = r.uni(5, 130);
  long long avg = std::max(1LL, cap * util / 100 / std::max(1, ncells));
  bool degenerate; Cells0 cells0;
  if (!circuit) {
    s = "HR"; put(binSize); put(segs.size());
    for (auto &g : segs) { put(g.a); put(g.b); put(g.c); put(g.d); }
    put(ncells);
    for (int i = 0; i < ncells; ++i) { long long dm = r.coin(15) ? 0 : r.uni(1, 2 * avg); put(dm); cells0.push_back({0, dm, 1}); }
    degenerate = maxX - minX <= 0 || maxY - minY <= 0;
  } else {
    // whole rows + fixed obstructions; the free segments come from Circuit::computeRows (C15)
    int margin = r.coin(40) ? 0 : (int)r.uni(0, 2 * H);
    s = "HC"; put(binSize); put(margin);
    int nrows = r.uni(1, 6); put(nrows);
    int y = oy; int rw = r.uni(1, 60);
    std::vector<std::array<long long, 3> > rws;   // (minX, maxX, minY) of every row
    for (int i = 0; i < nrows; ++i) {
      if (r.coin(15)) y += H;
      long long ra = ox + (r.coin(20) ? r.uni(0, 5) : 0), rb = ox + rw - (r.coin(20) ? r.uni(0, 5) : 0);
      if (rb < ra) rb = ra;   // inverted rectangles are outside the domain (C15)
      put(ra); put(rb); put(y); put(y + H); put(r.uni(0, 7));
      rws.push_back({ra, rb, y});
      y += H;
    }
    int top = y;
    int nfixed = r.uni(0, 5);
    int nmov = std::max(1, ncells);
    // nofree: obstructions that leave no free space (finding F28): one macro over all rows, or one obstruction per row that leaves
    // at most a piece of width <= 2*margin at each end (dropped by the side margin)
    bool perRow = nofree && r.coin(50);
    int nextra = nofree ? (perRow ? nrows : 1) : 0;
    put(nfixed + nextra + nmov);
    if (nofree && !perRow) {
      long long ex = r.uni(0, 3), fw = rw + 2 * ex, fh = (top - oy) + 2 * ex;
      put(ox - ex); put(oy - ex); put(fw); put(fh); put(0); put(1); put(1);
      cells0.push_back({1, fw, fh});
    } else if (nofree) {
      for (auto &q : rws) {
        long long sl = margin > 0 ? r.uni(0, 2 * margin) : 0, sr = margin > 0 ? r.uni(0, 2 * margin) : 0;
        if (q[1] - q[0] <= sl + sr) sl = sr = 0;
        long long fw = (q[1] - sr) - (q[0] + sl);
        put(q[0] + sl); put(q[2]); put(fw); put(H); put(0); put(1); put(1);
        cells0.push_back({1, fw, (long long)H});
      }
    }
    avg = std::max(1LL, (long long)rw * (top - oy) * util / 100 / nmov);
    for (int i = 0; i < nfixed; ++i) {   // obstructions (some flagged non-obstruction, some outside)
      long long fw = r.uni(0, std::max(1, rw / 3)), fh = H * r.uni(0, 3);
      put(ox + r.uni(-5, rw)); put(oy + r.uni(-H, top - oy)); put(fw); put(fh); put(r.uni(0, 7)); put(1); put(r.coin(80));
      cells0.push_back({1, fw, fh});
    }
    bool haveH = false;
    for (int i = 0; i < nmov; ++i) {     // movable cells; at least one of height exactly H
      int hh = (!haveH && i == nmov - 1) ? H : (r.coin(70) ? H : H * (int)r.uni(1, 3)); if (hh == H) haveH = true;
      long long ww = r.coin(12) ? 0 : std::max(1LL, (long long)r.uni(1, 2 * avg) / hh);
      put(ox + r.uni(0, rw)); put(oy + r.uni(0, top - oy)); put(ww); put(hh); put(0); put(0); put(r.coin(50));
      cells0.push_back({0, ww, hh});
    }
    ncells = nfixed + nextra + nmov;
    minX = ox; maxX = ox + rw; minY = oy; maxY = top;
    degenerate = false;  // decided at run time by the harness guards for 9/10; run()/improve() need a non-empty grid:
    // the generator cannot know whether every row is clipped away; such cases are recognised by the checker (area 0)
  }
  genTail(r, s, ncells, minX, maxX, minY, maxY, H, degenerate, heavy, cells0);
  return s;
}

// ------------------------------------------------------------------ round-6 generators: large magnitudes, row / region order
// A case in three parts: head ("HR binSize" / "HC binSize margin"), the list of regions (HR) or rows (HC) -- semantically a SET --
// and the rest (cells + TAIL).  The same HR/HC case lines as above, so the model driver and the oracles read them unchanged.
//   large: coordinates inside |v| <= 2^22 (extents up to 2^23), rows 2^14..2^19 high, bin sizes ext/12..ext/4: one fine bin holds up
//          to ~2^42 area units, a column / a coarse view bin more, the whole grid up to ~2^46.  Movable cells stay small (area < 2^27;
//          cell demands are int in the C++: areas >= 2^31 are outside the tie), fixed obstructions are as large as the rows.
//   order: small coordinates, 2..10 rows (split into pieces in HR, by obstructions in HC), bin sizes that give several bin rows;
//          every set is listed four times: bottom-up, top-down, interleaved (even rows then odd rows), shuffled.
struct Parts { std::string head, rest; std::vector<std::pair<int, std::string> > items; };   // item = (row index, text)

static void genParts(SplitMix &r, bool large, Parts &p) {
  auto put = [](std::string &s, long long v) { s += " " + std::to_string(v); };
  bool circuit = r.coin(45);
  long long H, RH, W; int nrows;
  if (large) {
    H = 1LL << r.uni(0, 10); nrows = (int)r.uni(2, 12); RH = 1LL << r.uni(14, 19);
    while (3LL * nrows * RH > (1LL << 23)) RH /= 2;            // rows + gaps fit in 2^23
    W = r.coin(25) ? (1LL << 23) - r.uni(0, 1000) : r.uni(1LL << 18, 1LL << 23);
    // 40 %: the whole geometry scaled down by 2^4..2^8 (bins of 2^22..2^34 units: the zone where a bin still fits 32 bits and a
    // column or a coarse view bin does not)
    int sh = r.coin(40) ? (int)r.uni(4, 8) : 0; RH = std::max(1LL, RH >> sh); W = std::max(1LL, W >> sh);
  } else {
    H = 1LL << r.uni(0, 3); nrows = (int)r.uni(2, 10); RH = H;
    W = r.uni(1, 3LL * nrows * H + 8);
  }
  // rows relative to (0,0), then an origin such that everything stays inside the coordinate range of the class
  struct RowG { long long a, b, y; };
  std::vector<RowG> rows; long long y = 0;
  for (int i = 0; i < nrows; ++i) {
    if (r.coin(15)) y += r.coin(50) ? RH : r.uni(1, 2 * RH);
    long long a = r.coin(30) ? r.uni(0, W / 3) : 0, b = W - (r.coin(30) ? r.uni(0, W / 3) : 0);
    rows.push_back({a, b, y}); y += RH;
  }
  long long top = y, ox, oy;
  if (large) { ox = r.uni(-(1LL << 22), (1LL << 22) - W); oy = r.uni(-(1LL << 22), (1LL << 22) - top); }
  else { ox = r.uni(-60, 60); oy = r.uni(-60, 60); if (r.coin(10)) { ox *= 1000; oy *= 1000; } }
  long long ext = std::max(W, top), lo = std::max(1LL, (ext + 11) / 12);
  long long binSize;
  if (large) binSize = r.coin(10) ? lo + r.uni(0, ext / 2) : lo + r.uni(0, 2 * lo + 2);
  else binSize = r.coin(50) ? r.uni(lo, std::max(lo, top / 2)) : lo + r.uni(0, 2 * lo + 2);   // often >= 2 bin rows
  long long util = r.uni(5, 130);
  int ncells = r.coin(5) ? (int)r.uni(0, 1) : (int)r.uni(2, 22);
  Cells0 cells0; long long minX, maxX, minY, maxY; bool degenerate = false;
  if (!circuit) {
    p.head = "HR"; put(p.head, binSize);
    long long cap = 0; bool first = true;
    for (int i = 0; i < nrows; ++i) {
      long long a = ox + rows[i].a, b = ox + rows[i].b, x = a; int parts = (int)r.uni(1, 3); bool any = false;
      for (int q = 0; q < parts && x < b; ++q) {
        long long e = q == parts - 1 ? b : r.uni(x, b);
        if (e > x) {
          std::string it; put(it, x); put(it, e); put(it, oy + rows[i].y); put(it, oy + rows[i].y + RH);
          p.items.emplace_back(i, it); any = true; cap += (e - x) * RH;
          if (first) { minX = x; maxX = e; first = false; } else { minX = std::min(minX, x); maxX = std::max(maxX, e); }
        }
        x = e + r.uni(0, std::max(1LL, W / 4));
      }
      if (!any) {
        std::string it; put(it, a); put(it, b); put(it, oy + rows[i].y); put(it, oy + rows[i].y + RH);
        p.items.emplace_back(i, it); cap += (b - a) * RH;
        if (first) { minX = a; maxX = b; first = false; } else { minX = std::min(minX, a); maxX = std::max(maxX, b); }
      }
    }
    minY = oy + rows.front().y; maxY = oy + top;
    long long avg = std::min(1LL << 25, std::max(1LL, cap * util / 100 / std::max(1, ncells)));
    put(p.rest, ncells);
    for (int i = 0; i < ncells; ++i) { long long dm = r.coin(15) ? 0 : r.uni(1, 2 * avg); put(p.rest, dm); cells0.push_back({0, dm, 1}); }
  } else {
    long long margin = r.coin(40) ? 0 : large && r.coin(50) ? r.uni(0, W / 8) : r.uni(0, 2 * H);
    p.head = "HC"; put(p.head, binSize); put(p.head, margin);
    for (int i = 0; i < nrows; ++i) {
      std::string it; put(it, ox + rows[i].a); put(it, ox + rows[i].b); put(it, oy + rows[i].y); put(it, oy + rows[i].y + RH); put(it, r.uni(0, 7));
      p.items.emplace_back(i, it);
    }
    int nfixed = (int)r.uni(0, 5), nmov = std::max(1, ncells);
    put(p.rest, nfixed + nmov);
    for (int i = 0; i < nfixed; ++i) {   // obstructions cutting the rows into pieces (some flagged non-obstruction, some outside)
      long long fw = r.uni(0, std::max(1LL, W / 3)), fh = r.coin(70) ? RH * r.uni(0, 3) : r.uni(0, 3 * RH);
      put(p.rest, ox + r.uni(-5, W)); put(p.rest, oy + r.uni(-RH, top)); put(p.rest, fw); put(p.rest, fh); put(p.rest, r.uni(0, 7));
      put(p.rest, 1); put(p.rest, r.coin(80));
      cells0.push_back({1, fw, fh});
    }
    long long avg = std::min(1LL << 24, std::max(1LL, W * top * util / 100 / nmov));
    bool haveH = false;
    for (int i = 0; i < nmov; ++i) {     // movable cells; at least one of height exactly H (the bin size / margin unit)
      long long hh = (!haveH && i == nmov - 1) ? H : (r.coin(70) ? H : H * r.uni(1, 3)); if (hh == H) haveH = true;
      long long ww = r.coin(12) ? 0 : std::max(1LL, r.uni(1, 2 * avg) / hh);
      put(p.rest, ox + r.uni(0, W)); put(p.rest, oy + r.uni(0, top)); put(p.rest, ww); put(p.rest, hh); put(p.rest, 0); put(p.rest, 0); put(p.rest, r.coin(50));
      cells0.push_back({0, ww, hh});
    }
    ncells = nfixed + nmov;
    minX = ox; maxX = ox + W; minY = oy; maxY = oy + top;
  }
  genTail(r, p.rest, ncells, (int)minX, (int)maxX, (int)minY, (int)maxY, (int)H, degenerate, false, cells0);
}

static std::string joinParts(const Parts &p, const std::vector<int> &perm) {
  std::string s = p.head; s += " " + std::to_string(p.items.size());
  for (int k : perm) s += p.items[k].second;
  return s + p.rest;
}

// the four listings of the same set: 0 bottom-up (as generated), 1 top-down, 2 even rows then odd rows, 3 shuffled
static std::vector<std::string> genOrderGroup(SplitMix &r) {
  Parts p; genParts(r, false, p);
  int n = p.items.size(); std::vector<int> up(n), down, inter, shuf;
  std::iota(up.begin(), up.end(), 0);
  down.assign(up.rbegin(), up.rend());
  for (int par = 0; par < 2; ++par) for (int k = 0; k < n; ++k) if (p.items[k].first % 2 == par) inter.push_back(k);
  shuf = up; for (int i = n; i > 1; --i) std::swap(shuf[i - 1], shuf[r.uni(0, i - 1)]);
  return {joinParts(p, up), joinParts(p, down), joinParts(p, inter), joinParts(p, shuf)};
}

int main(int argc, char **argv) {
  std::string mode = argc > 1 ? argv[1] : "run";
  if (mode == "gen" && argc > 4 && (std::string(argv[4]) == "large" || std::string(argv[4]) == "order")) {
    SplitMix r(strtoull(argv[2], nullptr, 10)); int count = atoi(argv[3]); bool large = std::string(argv[4]) == "large";
    g_large = large;
    for (int i = 0; i < count; ++i) {
      if (large) { Parts p; genParts(r, true, p); std::vector<int> up(p.items.size()); std::iota(up.begin(), up.end(), 0); printf("%s\n", joinParts(p, up).c_str()); }
      else for (const std::string &s : genOrderGroup(r)) printf("%s\n", s.c_str());
    }
    return 0;
  }
  if (mode == "gen") {
    SplitMix r(strtoull(argv[2], nullptr, 10)); int count = atoi(argv[3]); bool heavy = argc > 4 && std::string(argv[4]) == "heavy";
    bool split = argc > 4 && std::string(argv[4]) == "split", nofree = argc > 4 && std::string(argv[4]) == "nofree";
    for (int i = 0; i < count; ++i) printf("%s\n", split ? genSplit(r).c_str() : genCase(r, heavy, nofree).c_str());
    return 0;
  }
  vh_install(); vh_silence();
  std::string line;
  while (std::getline(std::cin, line)) {
    out.clear(); side.clear();
    if (line.size() < 3) { printf("\n"); continue; }
    if (sigsetjmp(vh_jmp, 1)) { printf("%s| DIED %s ## %s\n", out.c_str(), vh_signame(), side.c_str()); fflush(stdout); continue; }
    try { if (line[0] == 'S') runSplit(line); else runCase(line); }
    catch (const std::exception &e) { out += "| DIED exception "; out += e.what(); }
    catch (...) { out += "| DIED exception unknown"; }
    printf("%s ## %s\n", out.c_str(), side.c_str()); fflush(stdout);
  }
  return 0;
}
