// C06 harness for the COMPOSED model (coq/GlobalCompose.v): the replica of GlobalPlacer::place with private access,
// recording at every UpperBound callback everything ub_exposure takes and gives:
//   the view of the hierarchical grid at that moment (bin limits of the current level, binCells(i,j)),
//   the targets spreadCoordX/Y received (leg_.cellTargetX_/Y_, raw binary32 bit patterns),
//   xPlacementUB_/yPlacementUB_ (raw bit patterns) and the integers exportPlacement wrote into the circuit.
//   gcompose run [K] < cases     cases = "GP ..." lines of `global gen gp|gpn|gpc` (same format); K = exposures printed per
//                                run (default 3: the first two and the last)
// result line:  "GC <status> | <margin> <maxSize> <nrows rows.. ncells cells..> | <nfx fx.. nfy fy..> | <aminX amaxX aminY amaxY>
//                | <nexp> <npu> <puSame> <steps> <maxNbSteps> <nbInitialSteps> <totalCapacity> | <demands..> | <placed w h ..> | E.. | E.."
//   E record: "E <cb> nx x0..xnx ny y0..yny (k cells..) for i<nx-1, j<ny-1 T <tx bits..> <ty bits..> U <ux bits..> <uy bits..> P <X Y ..>"
// puSame: every PenaltyUpdate callback exposed exactly the integers of the preceding UpperBound callback (1/0)
#include <algorithm>
#include <array>
#include <cmath>
#include <cstdint>
#include <cstring>
#include <functional>
#include <future>
#include <optional>
#include <random>
#include <stdexcept>
#include "vh.hpp"
#define private public
#define protected public
#include "coloquinte.hpp"
#include "place_global/density_grid.hpp"
#include "place_global/density_legalizer.hpp"
#include "place_global/net_model.hpp"
#include "place_global/place_global.hpp"
#undef private
#undef protected
#include <climits>
#include "cgen.hpp"

static int minCellHeightOf(const Circuit &c) { int m = std::numeric_limits<int>::max(); for (int i = 0; i < c.nbCells(); ++i) { int h = c.cellHeight_[i]; if (h > 0) m = std::min(h, m); } return m; }
static int marginOf(const Circuit &c, float sideMargin) { int margin = sideMargin * minCellHeightOf(c); return margin; }
static int maxSizeOf(const Circuit &c, float sizeFactor) { int s = sizeFactor * minCellHeightOf(c); return s; }

// the same reader as harness/global.cpp (GP case lines)
static ColoquinteParameters readParams(IntReader &r) {
  int effort = (int)r.nx(), seed = (int)r.nx(), netModel = (int)r.nx(), costModel = (int)r.nx(), tolExp = (int)r.nx(), approx10 = (int)r.nx(), cutoff10 = (int)r.nx();
  ColoquinteParameters p(effort, seed);
  p.global.continuousModel.netModel = (NetModelOption)netModel;
  p.global.roughLegalization.costModel = (LegalizationModel)costModel;
  p.global.continuousModel.conjugateGradientErrorTolerance = std::pow(10.0, -tolExp);
  p.global.continuousModel.approximationDistance = approx10 / 10.0;
  p.global.penalty.cutoffDistance = cutoff10 / 10.0;
  auto &rl = p.global.roughLegalization;
  rl.lineReoptSize = (int)r.nx(); rl.lineReoptOverlap = (int)r.nx(); rl.diagReoptSize = (int)r.nx(); rl.diagReoptOverlap = (int)r.nx();
  rl.squareReoptSize = (int)r.nx(); rl.squareReoptOverlap = (int)r.nx(); rl.unidimensionalTransport = r.nx() != 0; rl.nbSteps = (int)r.nx();
  rl.binSize = r.nx() / 10.0;
  p.global.exportBlending = r.nx() / 100.0;
  p.global.maxNbSteps = (int)r.nx();
  if (!r.done()) {
    rl.targetBlending = r.nx() / 100.0; rl.quadraticPenalty = r.nx() / 1000.0; rl.coarseningLimit = r.nx() / 10.0;
    if (!r.done()) p.global.penalty.targetBlending = r.nx() / 100.0;
  }
  return p;
}

static std::string bitsOf(const std::vector<float> &v) {
  std::string s; char b[32];
  for (float f : v) { uint32_t u; memcpy(&u, &f, 4); snprintf(b, 32, " %u", (unsigned)u); s += b; }
  return s;
}

struct StopRun {};
struct Rec {
  GlobalPlacer *pl = nullptr; const Circuit *c = nullptr;
  std::vector<std::string> exps;   // one E record per UpperBound callback
  std::vector<int> lastUB; int ncb = 0, nub = 0, npu = 0; bool puSame = true;
  void operator()(PlacementStep st) {
    ++ncb;
    for (int i = 0; i < c->nbCells(); ++i) if (!c->isFixed(i) && (std::llabs((long long)c->cellX_[i]) >= (1LL << 30) || std::llabs((long long)c->cellY_[i]) >= (1LL << 30))) throw StopRun();
    std::vector<int> pos; for (int i = 0; i < c->nbCells(); ++i) { pos.push_back(c->cellX_[i]); pos.push_back(c->cellY_[i]); }
    if (st == PlacementStep::PenaltyUpdate) { ++npu; if (pos != lastUB) puSame = false; return; }
    if (st != PlacementStep::UpperBound) return;
    ++nub; lastUB = pos;
    const auto &leg = pl->leg_;
    std::string s = "E " + std::to_string(ncb);
    s += " " + std::to_string(leg.nbBinsX() + 1); for (int i = 0; i <= leg.nbBinsX(); ++i) s += " " + std::to_string(leg.binLimitX(i));
    s += " " + std::to_string(leg.nbBinsY() + 1); for (int j = 0; j <= leg.nbBinsY(); ++j) s += " " + std::to_string(leg.binLimitY(j));
    for (int i = 0; i < leg.nbBinsX(); ++i) for (int j = 0; j < leg.nbBinsY(); ++j) {
      const auto &cs = leg.binCells_[i][j];
      s += " " + std::to_string(cs.size()); for (int x : cs) s += " " + std::to_string(x);
    }
    s += " T" + bitsOf(leg.cellTargetX_) + bitsOf(leg.cellTargetY_);
    s += " U" + bitsOf(pl->xPlacementUB_) + bitsOf(pl->yPlacementUB_);
    s += " P"; for (int v : pos) s += " " + std::to_string(v);
    exps.push_back(s);
  }
};

static void runGP(IntReader &r, int K) {
  TCircuit t = readRowsCells(r); readNets(r, t);
  ColoquinteParameters p = readParams(r);
  Circuit orig = buildCircuit(t);
  try { p.check(); } catch (std::exception &e) { printf("SKIP params rejected\n"); return; }
  bool narrow = false; for (auto &rw : t.rows) if (rw[1] - rw[0] < 4 * (rw[3] - rw[2])) narrow = true;
  bool posCell = false; for (int i = 0; i < orig.nbCells(); ++i) if (!orig.isFixed(i) && orig.area(i) > 0) posCell = true;
  float sideMargin = p.global.roughLegalization.sideMargin, binSize = p.global.roughLegalization.binSize;
  int margin = marginOf(orig, sideMargin), maxSize = maxSizeOf(orig, binSize);
  if (narrow || !posCell || maxSize < 1) { printf("SKIP outside the domain\n"); return; }
  Circuit cb = orig; Rec rec; rec.c = &cb;
  std::string st = "OK";
  try {
    GlobalPlacer pl(cb, p);
    rec.pl = &pl;
    pl.callback_ = PlacementCallback(std::ref(rec));
    Rectangle pa = pl.leg_.placementArea();
    std::vector<int> fx = pl.leg_.grid_.binLimitX_, fy = pl.leg_.grid_.binLimitY_;
    std::vector<int> dem(cb.nbCells()); for (int i = 0; i < cb.nbCells(); ++i) dem[i] = pl.leg_.cellDemand(i);
    long long cap = pl.leg_.grid_.totalCapacity();
    try { pl.run(); } catch (StopRun &) { st = "STOPPED"; }
    printf("GC %s | %d %d %d", st.c_str(), margin, maxSize, (int)t.rows.size());
    for (auto &rw : t.rows) printf(" %lld %lld %lld %lld %lld", rw[0], rw[1], rw[2], rw[3], rw[4]);
    printf(" %d", (int)t.cells.size()); for (auto &c : t.cells) printf(" %lld %lld %lld %lld %lld %lld %lld", c[0], c[1], c[2], c[3], c[4], c[6], c[7]);
    printf(" | %d", (int)fx.size()); for (int x : fx) printf(" %d", x); printf(" %d", (int)fy.size()); for (int x : fy) printf(" %d", x);
    printf(" | %d %d %d %d", pa.minX, pa.maxX, pa.minY, pa.maxY);
    printf(" | %d %d %d %d %d %d %lld", rec.nub, rec.npu, (int)rec.puSame, pl.step_, p.global.maxNbSteps, p.global.nbInitialSteps, cap);
    printf(" |"); for (int x : dem) printf(" %d", x);
    printf(" |"); for (int i = 0; i < cb.nbCells(); ++i) printf(" %d %d", orig.placedWidth(i), orig.placedHeight(i));
    int n = (int)rec.exps.size();
    std::vector<int> pick;
    for (int k = 0; k < n && (int)pick.size() < K - 1; ++k) pick.push_back(k);
    if (n > 0 && (pick.empty() || pick.back() != n - 1)) pick.push_back(n - 1);
    for (int k : pick) printf(" | %s", rec.exps[k].c_str());
    printf("\n");
  } catch (std::exception &e) { printf("GC THROW %s\n", e.what()); }
}

int main(int argc, char **argv) {
  std::string mode = argc > 1 ? argv[1] : "run";
  int K = argc > 2 ? atoi(argv[2]) : 3;
  if (mode != "run") { fprintf(stderr, "usage: gcompose run [K] < cases\n"); return 2; }
  vh_silence(); vh_install();
  std::string line;
  while (std::getline(std::cin, line)) {
    if (line.size() < 3) { printf("\n"); continue; }
    if (sigsetjmp(vh_jmp, 1)) { printf("GC SIGNAL %s\n", vh_signame()); fflush(stdout); continue; }
    try {
      std::vector<long long> v = vh_ints(line.substr(3));
      IntReader r; r.v = v;
      if (line.compare(0, 3, "GP ") == 0) runGP(r, K); else printf("BADTAG\n");
    } catch (std::exception &ex) { printf("GC THROW-OUTER %s\n", ex.what()); }
    fflush(stdout);
  }
  return 0;
}
