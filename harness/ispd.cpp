// C20 harness: Circuit::exportIspd of /repo's working tree
//   ispd gen SEED COUNT          case lines (splitmix64), see genCircuit for the distribution
//   ispd run DIR < cases         one result line per case
// EX id <circuit>   -> exports to DIR/c<id>.{aux,nodes,pl,nets,scl} (exportIspd is called with the bare name
//                      "c<id>" from inside DIR), reads the five files back from disk and prints
//                      "<aux>|<nodes>|<pl>|<nets>|<scl> # <hpwl>" with the bytes escaped (esc below)
// HW <circuit>      -> "<hpwl>"   (used for the circuit the Python reader returned)
// NG gid dir n (mode name len <circuit: len ints>)*n
//                   -> a GROUP of exports into ONE directory DIR/g<gid>/<dir> (dir may be nested and contain dots; created),
//                      made one after the other by this process with the working directory set to that directory:
//                      mode 0: exportIspd(name) with the name as given (bare "chip.v2", "./chip.v2", or with a relative
//                      directory part "sub.x/chip", whose directory is created); mode 1: exportIspd(<absolute path of
//                      that directory>/name).  The same name may occur twice (the later export overwrites).  When the
//                      whole group is written, the five files of every entry are read back from disk:
//                      "<aux>|<nodes>|<pl>|<nets>|<scl> # <hpwl of that entry's circuit>" joined by " || "
// LF id mode name seed <circuit>
//                   -> exports at DIFFERENT MOMENTS OF ONE OBJECT'S LIFE, all under the SAME name (mode as above) in DIR/l<id>: outside the
//                      placement calls after public edits (setCellX/Y, setCellOrientation, setSolution, setCellWidth/Height, addNet,
//                      setNets) and from INSIDE the callbacks of placeGlobal / legalize / placeDetailed (the first invocation always, later
//                      ones in 60 %; in 35 % of the global callbacks setCellWidth / setCellHeight is called after the export,
//                      sometimes followed by one more export in the same callback; seldom a resize in a legalize / detailed callback, which
//                      makes that call throw).  The phases are drawn from `seed`.  Every export is snapshot at once:
//                      "<aux>|<nodes>|<pl>|<nets>|<scl> # <hpwl at that moment> @ <circuit at that moment, from the getters> @ <label>"
//                      joined by " || "; the five files are copied to DIR/l<id>/s<k>/ for the reader.   (ispd gen life SEED COUNT)
// <circuit> = ncells (w h fixed obstruction polarity x y orient)* nnets (npins (cell xo yo)*)* nrows (minX maxX minY maxY orient)*
//             orient 0..9 = N S W E FN FS FW FE INVALID UNKNOWN; polarity 0..4 = ANY SAME OPPOSITE NW SE
#include <filesystem>
#include <fstream>
#include <sstream>
#include <unistd.h>
#include "coloquinte.hpp"
#include "vh.hpp"
using namespace coloquinte;

struct Reader { std::vector<long long> v; size_t p = 0; long long nx() { return p < v.size() ? v[p++] : 0; } };

static Circuit readCircuit(Reader &r) {
  int nc = r.nx(); Circuit c(nc);
  std::vector<int> x(nc), y(nc), w(nc), h(nc); std::vector<bool> fx(nc), ob(nc);
  std::vector<CellOrientation> o(nc); std::vector<CellRowPolarity> pol(nc);
  for (int i = 0; i < nc; ++i) {
    w[i] = r.nx(); h[i] = r.nx(); fx[i] = r.nx() != 0; ob[i] = r.nx() != 0; pol[i] = (CellRowPolarity)r.nx();
    x[i] = r.nx(); y[i] = r.nx(); o[i] = (CellOrientation)r.nx();
  }
  c.setCellWidth(w); c.setCellHeight(h); c.setCellIsFixed(fx); c.setCellIsObstruction(ob); c.setCellRowPolarity(pol);
  c.setCellX(x); c.setCellY(y); c.setCellOrientation(o);
  int nn = r.nx();
  for (int n = 0; n < nn; ++n) {
    int np = r.nx(); std::vector<int> cs(np), xo(np), yo(np);
    for (int j = 0; j < np; ++j) { cs[j] = r.nx(); xo[j] = r.nx(); yo[j] = r.nx(); }
    c.addNet(cs, xo, yo);
  }
  int nr = r.nx(); std::vector<Row> rows;
  for (int i = 0; i < nr; ++i) { int a = r.nx(), b = r.nx(), cc = r.nx(), d = r.nx(); rows.emplace_back(a, b, cc, d, (CellOrientation)r.nx()); }
  c.setRows(rows);
  return c;
}

static std::string esc(const std::string &s) {
  std::string o; char buf[8];
  for (unsigned char ch : s) {
    if (ch == '\n') o += "\\n"; else if (ch == '\t') o += "\\t"; else if (ch == '\\') o += "\\\\"; else if (ch == '|') o += "\\p";
    else if (ch == '#') o += "\\h";
    else if (ch < 32 || ch > 126) { snprintf(buf, sizeof buf, "\\x%02x", ch); o += buf; } else o += (char)ch;
  }
  return o;
}
static std::string slurp(const std::string &p) {
  std::ifstream f(p, std::ios::binary); if (!f) return "<missing file>";
  std::ostringstream s; s << f.rdbuf(); return s.str();
}

// ---- generator.  Distribution (the check prints what it measured):
//  cells 0..6; sizes small (0..12), multiples of the row height, or large (up to 99999); fixed 30 %; all
//  eight orientations (placed) or the constructor's state x=y=0,N (unplaced, 25 % of the circuits have some);
//  nets 0..5 of 1..5 pins with repeated cells, pin offsets inside, on and outside the outline, and at the
//  edge of the text domain (|offset - size/2| up to 99999.5); rows 1..4 of one height with any of the eight
//  orientations (alternating / uniform / irregular); a small out-of-domain share (no row, rows of different
//  heights, row height 0, INVALID/UNKNOWN orientations) exercises the reader's refusals.
static std::string genCircuit(SplitMix &g) {
  std::ostringstream s;
  bool ood = g.coin(8);                       // out-of-domain stream
  bool big = g.coin(15);
  long long rh = g.coin(70) ? g.uni(1, 6) : g.uni(7, 40);
  if (ood && g.coin(15)) rh = 0;
  int nc = g.coin(4) ? 0 : (int)g.uni(1, 6);
  std::vector<long long> w(nc), h(nc);
  s << nc;
  bool someUnplaced = g.coin(25);
  for (int i = 0; i < nc; ++i) {
    w[i] = big && g.coin(40) ? g.uni(0, 99999) : g.uni(0, 12);
    int hk = (int)g.uni(0, 9);
    h[i] = hk < 4 ? rh : hk < 6 ? rh * g.uni(2, 4) : hk < 7 ? rh * g.uni(5, 7) + g.uni(0, 1) : hk < 8 ? g.uni(0, 12) : (big ? g.uni(0, 99999) : g.uni(0, 12));
    bool fixed = g.coin(30);
    long long x = g.uni(-30, 60), y = g.uni(-30, 60);
    if (big && g.coin(30)) { x = g.uni(-1000000, 1000000); y = g.uni(-1000000, 1000000); }
    int o = (int)g.uni(0, 7);
    if (ood && g.coin(10)) o = (int)g.uni(8, 9);
    if (someUnplaced && g.coin(50)) { x = 0; y = 0; o = 0; }
    s << " " << w[i] << " " << h[i] << " " << (fixed ? 1 : 0) << " " << (g.coin(70) ? 1 : 0) << " " << g.uni(0, 4) << " " << x << " " << y << " " << o;
  }
  int nn = nc == 0 ? 0 : (int)g.uni(0, 5);
  s << " " << nn;
  for (int n = 0; n < nn; ++n) {
    int np = (int)g.uni(1, 5); s << " " << np;
    int same = g.coin(15) ? (int)g.uni(0, nc - 1) : -1;
    for (int j = 0; j < np; ++j) {
      int c = same >= 0 ? same : (int)g.uni(0, nc - 1);
      long long px = g.uni(-3, w[c] + 3), py = g.uni(-3, h[c] + 3);
      if (big && g.coin(20)) {   // edge of the text domain: |2 px - w| <= 199999
        long long k = g.coin(50) ? 199999 - g.uni(0, 3) : -(199999 - g.uni(0, 3));
        px = (k + w[c]) / 2; if (2 * px - w[c] > 199999) --px; if (2 * px - w[c] < -199999) ++px;
        if (g.coin(50)) { py = (k + h[c]) / 2; if (2 * py - h[c] > 199999) --py; if (2 * py - h[c] < -199999) ++py; }
      }
      s << " " << c << " " << px << " " << py;
    }
  }
  int nr = (int)g.uni(1, 4);
  if (ood && g.coin(15)) nr = 0;
  s << " " << nr;
  int pat = (int)g.uni(0, 2); int o0 = (int)g.uni(0, 7);
  long long y0 = g.uni(-20, 20), x0 = g.uni(-20, 20), x1 = x0 + g.uni(0, 60);
  if (big && g.coin(30)) { y0 = g.uni(-1000000, 1000000); x0 = g.uni(-1000000, 1000000); x1 = x0 + g.uni(0, 1000000); }
  static const int opp[8] = {5, 4, 7, 6, 1, 0, 3, 2};
  for (int i = 0; i < nr; ++i) {
    int o = pat == 0 ? o0 : pat == 1 ? (i % 2 ? opp[o0] : o0) : (int)g.uni(0, 7);
    if (ood && g.coin(10)) o = (int)g.uni(8, 9);
    long long hh = rh; if (ood && g.coin(15)) hh = rh + g.uni(1, 3);
    long long a = x0, b = x1; if (g.coin(20)) { a = x0 + g.uni(-5, 5); b = a + g.uni(0, 50); }
    s << " " << a << " " << b << " " << y0 << " " << y0 + hh << " " << o;
    y0 += hh + (g.coin(15) ? g.uni(1, 9) : 0);
  }
  return s.str();
}

static std::string gBase;   // absolute path of DIR

// ---- LF: exports at different moments of ONE object's life (see the header).  Generator of the placeable circuit:
//  2-5 full-width rows of one height (2,4,6,8) stacked, N / FS alternating, uniform or irregular (N S FN FS); 3-8 movable cells (1-5 wide,
//  row-high, 15 % two rows high, orientation N / S / FN / FS, utilisation <= ~60 %), 0-2 fixed cells (any of the eight orientations, 1-6 x 1-3
//  rows, obstruction flag either way); 2-6 nets of 2-4 pins with offsets on the declared outline [0,w] x [0,h].
static std::string genLife(SplitMix &g) {
  std::ostringstream s; static const int up[4] = {0, 1, 4, 5};
  long long rh = 2 * g.uni(1, 4), W = g.uni(20, 60), x0 = g.uni(-20, 20), y0 = g.uni(-20, 20); int nr = (int)g.uni(2, 5);
  int nm = (int)g.uni(3, 8), nf = (int)g.uni(0, 2), nc = nm + nf; std::vector<long long> w(nc), h(nc); long long used = 0;
  s << nc;
  for (int i = 0; i < nc; ++i) {
    bool fixed = i >= nm; int o;
    if (fixed) { w[i] = g.uni(1, 6); h[i] = rh * g.uni(1, 3); o = (int)g.uni(0, 7); }
    else { w[i] = g.uni(1, 5); h[i] = rh * (g.coin(15) ? 2 : 1); o = up[g.uni(0, 3)]; if (used + w[i] * (h[i] / rh) > W * nr * 6 / 10) { w[i] = 1; h[i] = rh; } used += w[i] * (h[i] / rh); }
    s << " " << w[i] << " " << h[i] << " " << (fixed ? 1 : 0) << " " << (g.coin(70) ? 1 : 0) << " " << (fixed || g.coin(80) ? 0 : g.uni(1, 2)) << " " << x0 + g.uni(0, W - 1) << " " << y0 + g.uni(0, nr - 1) * rh << " " << o;
  }
  int nn = (int)g.uni(2, 6); s << " " << nn;
  for (int n = 0; n < nn; ++n) { int np = (int)g.uni(2, 4); s << " " << np; for (int j = 0; j < np; ++j) { int c = (int)g.uni(0, nc - 1); s << " " << c << " " << g.uni(0, w[c]) << " " << g.uni(0, h[c]); } }
  s << " " << nr; int pat = (int)g.uni(0, 2);
  for (int i = 0; i < nr; ++i) s << " " << x0 << " " << x0 + W << " " << y0 + i * rh << " " << y0 + (i + 1) * rh << " " << (pat == 0 ? (i % 2 ? 5 : 0) : pat == 1 ? 0 : up[g.uni(0, 3)]);
  return s.str();
}
// the circuit as it is NOW, in the <circuit> format, read from the object (getters; the net arrays are public members)
static std::string circuitInts(const Circuit &c) {
  std::ostringstream s; s << c.nbCells();
  for (int i = 0; i < c.nbCells(); ++i)
    s << " " << c.cellWidth()[i] << " " << c.cellHeight()[i] << " " << (int)c.cellIsFixed()[i] << " " << (int)c.cellIsObstruction()[i] << " " << (int)c.cellRowPolarity()[i]
      << " " << c.cellX()[i] << " " << c.cellY()[i] << " " << (int)c.cellOrientation()[i];
  s << " " << c.nbNets();
  for (int n = 0; n < c.nbNets(); ++n) { s << " " << c.nbPinsNet(n); for (int p = c.netLimits_[n]; p < c.netLimits_[n + 1]; ++p) s << " " << c.pinCells_[p] << " " << c.pinXOffsets_[p] << " " << c.pinYOffsets_[p]; }
  s << " " << c.rows().size();
  for (auto &r : c.rows()) s << " " << r.minX << " " << r.maxX << " " << r.minY << " " << r.maxY << " " << (int)r.orientation;
  return s.str();
}
static const char *kStepName[4] = {"LowerBound", "UpperBound", "Detailed", "PenaltyUpdate"};
// LF id mode name seed <circuit>: ONE Circuit lives through 2-4 phases drawn from `seed`; exportIspd(name) -- always the SAME name -- is called
// outside the placement calls and from inside their callbacks; each export is snapshot at once (the five files copied to DIR/l<id>/s<k>/, the
// circuit dumped through its getters, hpwl()).
static void runLife(const std::string &line) {
  std::istringstream in(line); std::string tag, id, name; int mode = 0; unsigned long long seed = 0;
  in >> tag >> id >> mode >> name >> seed;
  Reader r; long long v; while (in >> v) r.v.push_back(v);
  Circuit c = readCircuit(r); SplitMix g(seed);
  std::string dg = gBase + "/l" + id; std::filesystem::create_directories(dg);
  const char *ext[5] = {".aux", ".nodes", ".pl", ".nets", ".scl"};
  std::vector<std::string> outs; int nexp = 0;
  auto snap = [&](const std::string &label) {
    if (nexp >= 14) return;
    int k = nexp++; std::string rec;
    try {
      if (chdir(dg.c_str()) != 0) throw std::runtime_error("cannot chdir to the case directory");
      c.exportIspd(mode == 1 ? dg + "/" + name : name);
      if (chdir(gBase.c_str()) != 0) throw std::runtime_error("cannot chdir back");
      std::string sd = dg + "/s" + std::to_string(k); std::filesystem::create_directories(sd);
      for (int e = 0; e < 5; ++e) { std::string body = slurp(dg + "/" + name + ext[e]); std::ofstream f(sd + "/" + name + ext[e], std::ios::binary); f << body; if (e) rec += "|"; rec += esc(body); }
      rec += " # " + std::to_string(c.hpwl());
    } catch (std::exception &ex) { if (chdir(gBase.c_str()) != 0) {} rec = std::string("EXPORT-THROW ") + esc(ex.what()) + " # 0"; }
    outs.push_back(rec + " @ " + circuitInts(c) + " @ " + label);
  };
  int nc = c.nbCells(); std::vector<int> mov, fix; for (int i = 0; i < nc; ++i) (c.cellIsFixed()[i] ? fix : mov).push_back(i);
  auto pick = [&](const std::vector<int> &v) { return v[g.uni(0, v.size() - 1)]; };
  auto resize = [&]() -> std::string {   // public size setters (allowed while a placement runs; global placement supports it)
    if (!fix.empty() && g.coin(20)) { auto h = c.cellHeight(); int f = pick(fix); h[f] += (int)g.uni(1, 3); c.setCellHeight(h); return "setCellHeight(fixed cell " + std::to_string(f) + ")"; }
    auto w = c.cellWidth(); int n = 0; for (int i : mov) if (g.coin(60)) { w[i] = std::max(1, w[i] + (int)g.uni(-1, 3)); ++n; }
    if (!n && !mov.empty()) w[mov[0]] += 2;
    c.setCellWidth(w); return "setCellWidth(movable cells)"; };
  auto renet = [&]() -> std::string {     // setNets: the last net dropped, or one pin offset moved (outside a placement call only)
    std::vector<int> lim = c.netLimits_, pc = c.pinCells_, px = c.pinXOffsets_, py = c.pinYOffsets_;
    if (c.nbNets() > 1 && g.coin(50)) { int cut = lim[lim.size() - 2]; lim.pop_back(); pc.resize(cut); px.resize(cut); py.resize(cut); c.setNets(lim, pc, px, py); return "setNets(last net dropped)"; }
    if (!px.empty()) { int q = (int)g.uni(0, px.size() - 1); px[q] += (int)g.uni(1, 2); py[q] += (int)g.uni(0, 1); }
    c.setNets(lim, pc, px, py); return "setNets(one pin offset moved)"; };
  auto outside = [&]() -> std::string {
    switch ((int)g.uni(0, 5)) {
      case 0: { auto x = c.cellX(), y = c.cellY(); for (int i = 0; i < nc; ++i) if (g.coin(60)) { x[i] += (int)g.uni(-4, 4); y[i] += (int)g.uni(-2, 2); } c.setCellX(x); c.setCellY(y); return "setCellX/Y"; }
      case 1: { auto o = c.cellOrientation(); static const CellOrientation up[4] = {CellOrientation::N, CellOrientation::S, CellOrientation::FN, CellOrientation::FS};
                for (int i = 0; i < nc; ++i) if (g.coin(50)) o[i] = c.cellIsFixed()[i] ? (CellOrientation)g.uni(0, 7) : up[g.uni(0, 3)]; c.setCellOrientation(o); return "setCellOrientation"; }
      case 2: return resize();
      case 3: { int np = (int)g.uni(2, 3); std::vector<int> cs, xo, yo; for (int j = 0; j < np; ++j) { int k = (int)g.uni(0, nc - 1); cs.push_back(k); xo.push_back((int)g.uni(0, c.cellWidth()[k])); yo.push_back((int)g.uni(0, c.cellHeight()[k])); }
                c.addNet(cs, xo, yo); return "addNet"; }
      case 4: return renet();
      default: { auto s = c.solution(); for (auto &pl : s) if (g.coin(40)) { pl.position.x += (int)g.uni(-3, 3); pl.position.y += (int)g.uni(-1, 1); } c.setSolution(s); return "setSolution"; }
    } };
  if (g.coin(60)) snap("before any placement call");
  int nph = (int)g.uni(2, 4);
  for (int ph = 0; ph < nph; ++ph) {
    int kind = (int)g.uni(0, 9);
    if (kind <= 2) { std::string what = outside(); if (g.coin(40)) what += " + " + outside(); snap("outside a placement call, after " + what); continue; }
    int stage = kind <= 6 ? 0 : kind == 7 ? 1 : 2; const char *sname = stage == 0 ? "placeGlobal" : stage == 1 ? "legalize" : "placeDetailed";
    ColoquinteParameters prm((int)g.uni(1, 3)); prm.global.maxNbSteps = (int)g.uni(2, 5); prm.global.nbInitialSteps = (int)g.uni(0, 1); prm.detailed.nbPasses = 1; prm.seed = (int)g.uni(0, 99);
    int ninv = 0; std::string pending;
    PlacementCallback cb = [&](PlacementStep st) {
      int k = ninv++; std::string where = std::string("inside callback #") + std::to_string(k) + " (" + kStepName[(int)st] + ") of " + sname + (pending.empty() ? "" : ", after " + pending + " in an earlier callback");
      if (k == 0 || g.coin(60)) snap(where);
      if (stage == 0 ? g.coin(35) : g.coin(4)) {
        std::string what = resize(); pending = what;   // (setNets / addNet are refused while a placement runs)
        if (g.coin(35)) snap(std::string("inside callback #") + std::to_string(k) + " of " + sname + ", right after " + what + " in this callback");
      }
    };
    std::string how = "returned";
    try { if (stage == 0) c.placeGlobal(prm, cb); else if (stage == 1) c.legalize(prm, cb); else c.placeDetailed(prm, cb); }
    catch (std::exception &ex) { how = std::string("threw: ") + ex.what(); }
    if (g.coin(70)) snap(std::string("after ") + sname + " " + how + " (" + std::to_string(ninv) + " callbacks)");
  }
  if (outs.empty()) snap("at the end");
  std::string out; for (size_t i = 0; i < outs.size(); ++i) { if (i) out += " || "; out += outs[i]; }
  printf("%s\n", out.c_str());
}
static void runGroup(const std::string &line) {
  std::istringstream in(line); std::string tag, gid, dir; int n = 0;
  in >> tag >> gid >> dir >> n;
  std::string dg = gBase + "/g" + gid + "/" + dir;
  std::filesystem::create_directories(dg);
  std::vector<std::string> names; std::vector<long long> hp;
  for (int e = 0; e < n; ++e) {
    int mode = 0, len = 0; std::string name; in >> mode >> name >> len;
    Reader r; r.v.resize(len); for (int k = 0; k < len; ++k) in >> r.v[k];
    if (!in) throw std::runtime_error("short NG line");
    Circuit c = readCircuit(r);
    std::filesystem::create_directories(std::filesystem::path(dg + "/" + name).parent_path());
    if (chdir(dg.c_str()) != 0) throw std::runtime_error("cannot chdir to the group directory");
    c.exportIspd(mode == 1 ? dg + "/" + name : name);
    if (chdir(gBase.c_str()) != 0) throw std::runtime_error("cannot chdir back");
    names.push_back(name); hp.push_back(c.hpwl());
  }
  std::string out;
  const char *ext[5] = {".aux", ".nodes", ".pl", ".nets", ".scl"};
  for (size_t e = 0; e < names.size(); ++e) {
    if (e) out += " || ";
    for (int k = 0; k < 5; ++k) { if (k) out += "|"; out += esc(slurp(dg + "/" + names[e] + ext[k])); }
    out += " # " + std::to_string(hp[e]);
  }
  printf("%s\n", out.c_str());
}

int main(int argc, char **argv) {
  std::string mode = argc > 1 ? argv[1] : "run";
  if (mode == "gen") {
    unsigned long long seed = strtoull(argv[2], nullptr, 10); long long count = atoll(argv[3]);
    SplitMix g(seed);
    if (argc > 4 && std::string(argv[2]) == "life") {
      seed = strtoull(argv[3], nullptr, 10); count = atoll(argv[4]); SplitMix gl(seed ^ 0x11feu);
      static const char *names[6] = {"chip", "chip", "top.placed", "chip.v2", "a", "design_1.final"};
      for (long long it = 0; it < count; ++it) { int m = (int)gl.coin(35); const char *nm = names[gl.uni(0, 5)]; long long sd = gl.uni(1, 1000000000); printf("LF %llu_%lld %d %s %lld %s\n", seed, it, m, nm, sd, genLife(gl).c_str()); }
      return 0;
    }
    for (long long it = 0; it < count; ++it) printf("EX %llu_%lld %s\n", seed, it, genCircuit(g).c_str());
    return 0;
  }
  std::string dir = argc > 2 ? argv[2] : ".";
  if (chdir(dir.c_str()) != 0) { fprintf(stderr, "cannot chdir to %s\n", dir.c_str()); return 2; }
  { char buf[4096]; if (!getcwd(buf, sizeof buf)) return 2; gBase = buf; }
  vh_install(); vh_silence();
  std::string line;
  while (std::getline(std::cin, line)) {
    if (line.size() < 3) { printf("\n"); continue; }
    if (sigsetjmp(vh_jmp, 1)) { printf("%s\n", vh_signame()); fflush(stdout); continue; }
    if (chdir(gBase.c_str()) != 0) return 2;
    try {
      if (line[0] == 'N') runGroup(line);
      else if (line[0] == 'L') runLife(line);
      else if (line[0] == 'E') {
        size_t sp = line.find(' ', 3);
        std::string id = line.substr(3, sp - 3);
        Reader r; r.v = vh_ints(line.substr(sp + 1));
        Circuit c = readCircuit(r);
        std::string name = "c" + id;
        c.exportIspd(name);
        std::string out;
        const char *ext[5] = {".aux", ".nodes", ".pl", ".nets", ".scl"};
        for (int k = 0; k < 5; ++k) { if (k) out += "|"; out += esc(slurp(name + ext[k])); }
        printf("%s # %lld\n", out.c_str(), c.hpwl());
      } else {
        Reader r; r.v = vh_ints(line.substr(3));
        Circuit c = readCircuit(r);
        printf("%lld\n", c.hpwl());
      }
    } catch (std::exception &ex) { printf("THROW %s\n", ex.what()); }
    fflush(stdout);
  }
  return 0;
}
