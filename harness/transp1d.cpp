// C14 harness: Transportation1d::{balanceDemand,solve,assign} from /repo's working tree
//   transp1d gen small N M P SMAX DMAX   exhaustive: 1..N sources, 1..M sinks, positions 0..P, supplies 0..SMAX, demands 0..DMAX
//                                        (instances with supply > demand get the balanceDemand flag)
//   transp1d gen rand SEED COUNT         random streams (see gen_rand)
//   transp1d gen seq SEED COUNT          consecutive problems sharing the position vectors, different zero demands/supplies (TS lines)
//   transp1d gen seqsmall FULL           (FULL=0: without 2 sources x 3 sinks) exhaustive small TS lines: pairs of zero-demand patterns on positions 0..2
//   transp1d gen big SEED COUNT          LARGE supplies / demands: totals pass 2^31 and 2^32 (T1 and TO lines; see gen_big)
//   transp1d gen obj SEED COUNT          call sequences on ONE object (TO lines);  gen objsmall FULL: exhaustive small ones
//   transp1d run < cases
// case line :  "TS n m k u_1..u_n v_1..v_m (bal s_1..s_n d_1..d_m)*k"   k problems on the same positions, handled one after the other in
//              this order in the same process and thread, each exactly like a T1 case; result: the k T1 results joined by " || "
// case line :  "TO n m k u_1..u_n v_1..v_m s_1..s_n d_1..d_m op_1..op_k"   ONE Transportation1d object, the calls op_i in this order:
//              0 solve(), 1 assign(), 2 balanceDemand(), 3 solve() then assign().  result: k steps joined by " || ", each step
//              "op # demands before the call # T1-style result with the parts obtained from the ONE object # T1-style result of fresh objects
//              built from the object's current data" (parts the call does not produce are taken from the fresh objects)
// case line :  "T1 bal n m u_1..u_n v_1..v_m s_1..s_n d_1..d_m"     (bal=1: call balanceDemand() first)
// result    :  "D d_1..d_m | S i j a;i j a;... | A a_1..a_n | O optcost"   ("DIED ..." when the worker process died on the case,
//              "SKIPPED ..." for the rest of the input after 30 deaths / 3000 worker replacements)
//              D = demands after the optional balanceDemand(); S = solve() in the returned order; A = assign();
//              O = optimal cost found by an independent successive-shortest-path min-cost flow (only when n*m <= 64, the amounts
//              are <= 2^50 and the optimum is <= 2^62, "-" otherwise or when infeasible).  A part is "THROW <what>" when the call threw.
#include "vh.hpp"
#include <algorithm>
#include <climits>
#include <tuple>
#define private public
#define protected public
#include "place_global/transportation_1d.hpp"
#undef private
#undef protected

typedef long long ll;

// ---- independent oracle: min-cost flow by successive shortest paths (Bellman-Ford), nothing shared with the 1-D solver
static bool mcf(const std::vector<ll> &u, const std::vector<ll> &v, const std::vector<ll> &s, const std::vector<ll> &d, ll &cost) {
  int n = u.size(), m = v.size(), N = n + m + 2, src = n + m, snk = n + m + 1;
  struct E { int to; ll cap, cost; };
  std::vector<E> es; std::vector<std::vector<int>> g(N);
  auto add = [&](int a, int b, ll cap, ll c) { g[a].push_back(es.size()); es.push_back({b, cap, c}); g[b].push_back(es.size()); es.push_back({a, 0, -c}); };
  ll tot = 0;
  for (int i = 0; i < n; ++i) { add(src, i, s[i], 0); tot += s[i]; }
  for (int j = 0; j < m; ++j) add(n + j, snk, d[j], 0);
  for (int i = 0; i < n; ++i) for (int j = 0; j < m; ++j) add(i, n + j, LLONG_MAX / 4, std::llabs(u[i] - v[j]));
  cost = 0; ll flow = 0; int augs = 0;
  while (flow < tot) {
    std::vector<ll> dist(N, LLONG_MAX / 2); std::vector<int> pe(N, -1); dist[src] = 0;
    for (int it = 0; it < N; ++it) { bool ch = false;
      for (int a = 0; a < N; ++a) if (dist[a] < LLONG_MAX / 2) for (int id : g[a]) if (es[id].cap > 0 && dist[a] + es[id].cost < dist[es[id].to]) { dist[es[id].to] = dist[a] + es[id].cost; pe[es[id].to] = id; ch = true; }
      if (!ch) break; }
    if (dist[snk] >= LLONG_MAX / 2) return false;
    ll f = tot - flow; for (int x = snk; x != src; x = es[pe[x] ^ 1].to) f = std::min(f, es[pe[x]].cap);
    for (int x = snk; x != src; x = es[pe[x] ^ 1].to) { es[pe[x]].cap -= f; es[pe[x] ^ 1].cap += f; }
    flow += f;
    __int128 c2 = (__int128)cost + (__int128)f * dist[snk];
    if (c2 > LLONG_MAX / 2 || ++augs > 20000) return false;      // no optimum reported (cost beyond 2^62 / too many augmentations)
    cost = (ll)c2;
  }
  return true;
}
// the optimum is computed when n*m <= 64, nothing is negative and the total supply is <= 4000 (all streams) or <= 2^50 (large amounts:
// the flow algorithm augments by bottlenecks, its cost is accumulated in 128 bits)
static bool oracle_opt(const std::vector<ll> &u, const std::vector<ll> &v, const std::vector<ll> &s, const std::vector<ll> &d2, ll &oc) {
  ll ts = 0; for (ll y : s) { if (y < 0 || y > (1LL << 50)) return false; ts += y; if (ts > (1LL << 50)) return false; }
  for (ll y : d2) if (y < 0 || y > (1LL << 50)) return false;
  for (ll y : u) if (std::llabs(y) > (1LL << 40)) return false;
  for (ll y : v) if (std::llabs(y) > (1LL << 40)) return false;
  if ((ll)u.size() * (ll)v.size() > 64) return false;
  return mcf(u, v, s, d2, oc);
}

static void emit(int bal, const std::vector<ll> &u, const std::vector<ll> &v, const std::vector<ll> &s, const std::vector<ll> &d) {
  printf("T1 %d %zu %zu", bal, u.size(), v.size());
  for (ll x : u) printf(" %lld", x); for (ll x : v) printf(" %lld", x);
  for (ll x : s) printf(" %lld", x); for (ll x : d) printf(" %lld", x);
  printf("\n");
}

static void gen_small(int N, int M, int P, int SMAX, int DMAX) {
  for (int n = 1; n <= N; ++n) for (int m = 1; m <= M; ++m) {
    std::vector<ll> u(n, 0), v(m, 0), s(n, 0), d(m, 0);
    // odometer over all (u,v,s,d)
    std::vector<ll *> dig; std::vector<int> hi;
    for (auto &x : u) { dig.push_back(&x); hi.push_back(P); } for (auto &x : v) { dig.push_back(&x); hi.push_back(P); }
    for (auto &x : s) { dig.push_back(&x); hi.push_back(SMAX); } for (auto &x : d) { dig.push_back(&x); hi.push_back(DMAX); }
    while (true) {
      ll ts = 0, td = 0; for (ll x : s) ts += x; for (ll x : d) td += x;
      emit(ts > td ? 1 : 0, u, v, s, d);
      int p = dig.size() - 1; while (p >= 0 && ++*dig[p] > hi[p]) { *dig[p] = 0; --p; }
      if (p < 0) break;
    }
  }
}

static void gen_rand(unsigned long long seed, long long count) {
  SplitMix g(seed);
  for (long long it = 0; it < count; ++it) {
    int kind = (int)g.uni(0, 9);
    int n, m; ll range, smax, dmax;
    if (kind <= 3) { n = g.uni(1, 6); m = g.uni(1, 6); range = g.uni(1, 8); smax = g.uni(1, 4); dmax = g.uni(1, 5); }         // small, many ties
    else if (kind <= 6) { n = g.uni(1, 14); m = g.uni(1, 10); range = g.uni(5, 60); smax = g.uni(1, 9); dmax = g.uni(1, 15); }
    else if (kind == 7) { n = g.uni(1, 40); m = g.uni(1, 25); range = 100000000LL; smax = g.uni(1, 1000); dmax = g.uni(1, 3000); }   // positions up to 10^8 (rough legalizer's scaling)
    else if (kind == 8) { n = g.uni(1, 30); m = g.uni(1, 30); range = g.uni(2, 30); smax = 1; dmax = 1; }                       // assignment problems
    else { n = g.uni(20, 120); m = g.uni(5, 40); range = g.uni(10, 100000000LL); smax = g.uni(1, 50); dmax = g.uni(1, 200); }
    int zs = (int)g.uni(0, 3) * 15, zd = (int)g.uni(0, 3) * 15;       // percentage of zero supplies / zero demands
    std::vector<ll> u(n), v(m), s(n), d(m);
    ll base = g.coin(30) ? -range / 2 : 0;
    for (auto &x : u) x = base + g.uni(0, range);
    for (auto &x : v) x = base + g.uni(0, range);
    if (g.coin(15)) for (int j = 1; j < m; ++j) if (g.coin(50)) v[j] = v[j - 1];      // duplicate sink positions
    if (g.coin(15)) for (int i = 1; i < n; ++i) if (g.coin(50)) u[i] = u[i - 1];      // duplicate source positions
    if (g.coin(10)) for (int i = 0; i < n; ++i) u[i] = v[g.uni(0, m - 1)];            // sources on sinks
    for (auto &x : s) x = g.coin(zs) ? 0 : g.uni(1, smax);
    for (auto &x : d) x = g.coin(zd) ? 0 : g.uni(1, dmax);
    ll ts = 0, td = 0; for (ll x : s) ts += x; for (ll x : d) td += x;
    int mode = (int)g.uni(0, 9);   // 0-3 slack as drawn (fixed up), 4-6 exact balance, 7-9 balanceDemand
    int bal = 0;
    if (ts > td) {
      if (mode >= 7) bal = 1;
      else { // add the missing demand to random sinks (possibly the zero ones)
        ll miss = ts - td + (mode <= 3 ? g.uni(0, 3) : 0);
        while (miss > 0) { ll a = g.uni(1, miss); d[g.uni(0, m - 1)] += a; miss -= a; }
      }
    } else if (mode >= 4 && mode <= 6 && td > ts) { // exact balance: add supply
      ll miss = td - ts; while (miss > 0) { ll a = g.uni(1, miss); s[g.uni(0, n - 1)] += a; miss -= a; }
    } else if (mode >= 7) bal = 1;    // balanceDemand with nothing missing: no-op
    emit(bal, u, v, s, d);
  }
}


// ---- TS: consecutive problems on shared positions.  Every problem is in the quantifier's domain (supply <= demand, possibly via bal)
static void emit_seq(const std::vector<ll> &u, const std::vector<ll> &v, const std::vector<int> &bal,
                     const std::vector<std::vector<ll>> &ss, const std::vector<std::vector<ll>> &dd) {
  printf("TS %zu %zu %zu", u.size(), v.size(), ss.size());
  for (ll x : u) printf(" %lld", x); for (ll x : v) printf(" %lld", x);
  for (size_t r = 0; r < ss.size(); ++r) { printf(" %d", bal[r]); for (ll x : ss[r]) printf(" %lld", x); for (ll x : dd[r]) printf(" %lld", x); }
  printf("\n");
}
static void gen_seq(unsigned long long seed, long long count) {
  SplitMix g(seed);
  for (long long it = 0; it < count; ++it) {
    int kind = (int)g.uni(0, 9);
    int n, m; ll range, smax, dmax;
    if (kind <= 4) { n = g.uni(1, 4); m = g.uni(2, 5); range = g.uni(1, 12); smax = g.uni(1, 3); dmax = g.uni(1, 5); }
    else if (kind <= 7) { n = g.uni(1, 12); m = g.uni(2, 10); range = g.uni(5, 80); smax = g.uni(1, 9); dmax = g.uni(1, 15); }
    else { n = g.uni(5, 40); m = g.uni(3, 25); range = g.coin(50) ? 100000000LL : g.uni(10, 1000); smax = g.uni(1, 300); dmax = g.uni(1, 900); }
    std::vector<ll> u(n), v(m);
    for (auto &x : u) x = g.uni(0, range); for (auto &x : v) x = g.uni(0, range);
    if (g.coin(30)) std::sort(v.begin(), v.end());                                       // bins of a row, in order
    if (g.coin(15)) for (int j = 1; j < m; ++j) if (g.coin(40)) v[j] = v[j - 1];
    if (g.coin(25)) for (int i = 0; i < n; ++i) u[i] = v[g.uni(0, m - 1)];               // sources on sinks: the hidden sink matters
    int k = (int)g.uni(2, 4);
    std::vector<ll> s0(n), d0(m); for (auto &x : s0) x = g.uni(1, smax); for (auto &x : d0) x = g.uni(1, dmax);
    std::vector<int> bal; std::vector<std::vector<ll>> ss, dd;
    bool same_amounts = g.coin(50);        // the problems differ ONLY in which demands / supplies are zero
    for (int r = 0; r < k; ++r) {
      std::vector<ll> s = s0, d = d0;
      if (!same_amounts) { for (auto &x : s) x = g.uni(1, smax); for (auto &x : d) x = g.uni(1, dmax); }
      int zd = (int)g.uni(0, 3) * 20, zs = g.coin(40) ? (int)g.uni(1, 2) * 20 : 0;
      for (auto &x : d) if (g.coin(zd)) x = 0;
      for (auto &x : s) if (g.coin(zs)) x = 0;
      ll ts = 0, td = 0; for (ll x : s) ts += x; for (ll x : d) td += x;
      int b = 0;
      if (ts > td) {
        if (g.coin(30)) b = 1;
        else { // the missing demand goes to sinks that are already open, or opens one when there is none
          std::vector<int> open; for (int j = 0; j < m; ++j) if (d[j] > 0) open.push_back(j);
          if (open.empty()) open.push_back((int)g.uni(0, m - 1));
          d[open[g.uni(0, (ll)open.size() - 1)]] += ts - td + (g.coin(50) ? g.uni(0, 3) : 0);
        }
      }
      bal.push_back(b); ss.push_back(s); dd.push_back(d);
    }
    // ... and the same problems again in the reverse order
    for (int r = k - 2; r >= 0; --r) { bal.push_back(bal[r]); ss.push_back(ss[r]); dd.push_back(dd[r]); }
    emit_seq(u, v, bal, ss, dd);
  }
}
// all ordered pairs (A, B) of zero-demand patterns (open sinks have demand 2, >= 1 open) on every position vector in {0..2}^n x {0..2}^m,
// n = 1..2 sources of supply 1, m = 2..3 sinks: problems A, B, A one after the other
static void gen_seqsmall(bool full) {
  for (int n = 1; n <= 2; ++n) for (int m = 2; m <= 3; ++m) {
    if (!full && n * m == 6) continue;
    int pu = 1, pv = 1; for (int i = 0; i < n; ++i) pu *= 3; for (int j = 0; j < m; ++j) pv *= 3;
    for (int cu = 0; cu < pu; ++cu) for (int cv = 0; cv < pv; ++cv) {
      std::vector<ll> u(n), v(m); int c = cu; for (auto &x : u) { x = c % 3; c /= 3; } c = cv; for (auto &x : v) { x = c % 3; c /= 3; }
      for (int a = 1; a < (1 << m); ++a) for (int b = 1; b < (1 << m); ++b) {
        if (a == b) continue;
        std::vector<ll> s(n, 1), da(m), db(m);
        for (int j = 0; j < m; ++j) { da[j] = (a >> j & 1) ? 2 : 0; db[j] = (b >> j & 1) ? 2 : 0; }
        emit_seq(u, v, {0, 0, 0}, {s, s, s}, {da, db, da});
      }
    }
  }
}

// ---- TO: call sequences on one object
static void emit_obj(const std::vector<ll> &u, const std::vector<ll> &v, const std::vector<ll> &s, const std::vector<ll> &d, const std::vector<int> &ops) {
  printf("TO %zu %zu %zu", u.size(), v.size(), ops.size());
  for (ll x : u) printf(" %lld", x); for (ll x : v) printf(" %lld", x);
  for (ll x : s) printf(" %lld", x); for (ll x : d) printf(" %lld", x);
  for (int o : ops) printf(" %d", o);
  printf("\n");
}
static const std::vector<std::vector<int>> OBJ_PATTERNS = {
  {0, 2, 0, 1}, {1, 2, 3}, {3, 2, 3}, {2, 3, 3}, {0, 0, 2, 2, 1, 0}, {3, 3}, {1, 0, 2, 1, 0}, {2, 0, 2, 1}};
static void gen_obj(unsigned long long seed, long long count) {
  SplitMix g(seed);
  for (long long it = 0; it < count; ++it) {
    int n = (int)g.uni(1, g.coin(70) ? 5 : 20), m = (int)g.uni(1, g.coin(70) ? 5 : 12);
    ll range = g.coin(60) ? g.uni(1, 12) : g.coin(50) ? g.uni(20, 1000) : 100000000LL;
    ll smax = g.uni(1, 6), dmax = g.uni(1, 6);
    std::vector<ll> u(n), v(m), s(n), d(m);
    for (auto &x : u) x = g.uni(0, range); for (auto &x : v) x = g.uni(0, range);
    if (g.coin(15)) for (int j = 1; j < m; ++j) if (g.coin(40)) v[j] = v[j - 1];
    int zd = (int)g.uni(0, 3) * 20, zs = g.coin(30) ? 25 : 0;
    for (auto &x : s) x = g.coin(zs) ? 0 : g.uni(1, smax);
    for (auto &x : d) x = g.coin(zd) ? 0 : g.uni(1, dmax);
    ll ts = 0, td = 0; for (ll x : s) ts += x; for (ll x : d) td += x;
    int mode = (int)g.uni(0, 9);     // 0-5: as drawn (about half: supply > demand, the first solve()/assign() is refused); 6-7 exact; 8-9 slack
    if (mode >= 6 && ts > td) d[g.uni(0, m - 1)] += ts - td + (mode >= 8 ? g.uni(1, 4) : 0);
    if (mode <= 5 && ts <= td && g.coin(60)) s[g.uni(0, n - 1)] += td - ts + g.uni(1, 2 * m + 2);   // missing >= nbSinks now and then
    std::vector<int> ops;
    if (g.coin(50)) ops = OBJ_PATTERNS[g.uni(0, (ll)OBJ_PATTERNS.size() - 1)];
    else { int k = (int)g.uni(2, 6); for (int r = 0; r < k; ++r) ops.push_back((int)g.uni(0, 3)); }
    emit_obj(u, v, s, d, ops);
  }
}
// every instance with 1..2 sources, 1..3 sinks, positions 0..1, supplies 0..2, demands 0..2 under the first three call patterns
static void gen_objsmall(bool full) {
  for (int n = 1; n <= 2; ++n) for (int m = 1; m <= 3; ++m) {
    if (!full && n * m == 6) continue;
    std::vector<ll> u(n, 0), v(m, 0), s(n, 0), d(m, 0);
    std::vector<ll *> dig; std::vector<int> hi;
    for (auto &x : u) { dig.push_back(&x); hi.push_back(1); } for (auto &x : v) { dig.push_back(&x); hi.push_back(1); }
    for (auto &x : s) { dig.push_back(&x); hi.push_back(2); } for (auto &x : d) { dig.push_back(&x); hi.push_back(2); }
    long long cnt = 0;
    while (true) {
      emit_obj(u, v, s, d, OBJ_PATTERNS[cnt++ % 3]);
      int p = dig.size() - 1; while (p >= 0 && ++*dig[p] > hi[p]) { *dig[p] = 0; --p; }
      if (p < 0) break;
    }
  }
}

// ---- big: LARGE supplies / demands (the amounts are `long long` areas in the rough legalizer): totals pass 2^31 and 2^32, with every
// entry below 2^31 ("each entry fits an int, the total does not") or entries up to 2^40; few sources / sinks (1..6 x 1..6, so that the
// independent min-cost flow applies; now and then up to 12 x 10), positions as in the other streams (ties, negative, up to 10^8);
// slack, exact balance, deficit through balanceDemand() (missing amount small or itself >= 2^31), supply > demand without
// balanceDemand (refused: compared with the model); T1 lines, and TO lines (calls on ONE object incl. refused call, balanceDemand, solve)
static void gen_big(unsigned long long seed, long long count) {
  SplitMix g(seed);
  static const ll MAGS[] = {(1LL << 31) - 1, 1LL << 31, (1LL << 32) - 1, 1LL << 32, 1LL << 33, 1LL << 36, 1LL << 40};
  static const ll EDGES[] = {(1LL << 31) - 1, 1LL << 31, (1LL << 31) + 1, (1LL << 32) - 1, 1LL << 32, (1LL << 32) + 1, (1LL << 32) + 5, 3LL << 31, 1LL << 33};
  for (long long it = 0; it < count; ++it) {
    int n, m;
    if (g.coin(85)) { n = g.uni(1, 6); m = g.uni(1, 6); } else { n = g.uni(2, 12); m = g.uni(2, 10); }
    ll range = g.coin(50) ? g.uni(1, 12) : g.coin(60) ? g.uni(20, 2000) : 100000000LL;
    std::vector<ll> u(n), v(m), s(n), d(m);
    ll base = g.coin(25) ? -range / 2 : 0;
    for (auto &x : u) x = base + g.uni(0, range);
    for (auto &x : v) x = base + g.uni(0, range);
    if (g.coin(15)) for (int j = 1; j < m; ++j) if (g.coin(50)) v[j] = v[j - 1];
    if (g.coin(10)) for (int i = 0; i < n; ++i) u[i] = v[g.uni(0, m - 1)];
    int shape = (int)g.uni(0, 5);
    ll E = MAGS[g.uni(0, 6)];
    int zs = g.coin(30) ? (int)g.uni(1, 3) * 15 : 0, zd = g.coin(30) ? (int)g.uni(1, 3) * 15 : 0;
    auto draw = [&](ll hi) -> ll {
      switch (shape) {
        case 0: return g.uni(1, hi);                                  // anywhere up to the magnitude
        case 1: return hi - g.uni(0, 3);                              // at the magnitude
        case 2: return g.coin(25) ? hi - g.uni(0, 1000) : g.uni(1, 9); // a few large among small ones
        case 3: return g.uni(1LL << 29, (1LL << 31) - 1);              // every entry fits an int, the totals do not
        case 4: return g.uni(hi / 2, hi);
        default: return g.coin(50) ? g.uni(1, hi) : g.uni(1, 1LL << 20);
      }
    };
    for (auto &x : s) x = g.coin(zs) ? 0 : draw(E);
    for (auto &x : d) x = g.coin(zd) ? 0 : draw(g.coin(70) ? E : MAGS[g.uni(0, 6)]);
    ll ts = 0, td = 0; for (ll x : s) ts += x; for (ll x : d) td += x;
    if (g.coin(20)) {   // a total exactly at / next to 2^31, 2^32, ...: the last source takes what is missing
      ll want = EDGES[g.uni(0, 8)];
      if (ts - s[n - 1] < want) { s[n - 1] = want - (ts - s[n - 1]); ts = want; }
    }
    int mode = (int)g.uni(0, 10);   // 0-2 slack, 3-5 exact balance, 6-8 balanceDemand, 9 as drawn without balanceDemand (may be refused), 10 balanceDemand with nothing missing
    int bal = 0;
    if (mode <= 5) {
      if (ts > td) { ll miss = ts - td + (mode <= 2 ? (g.coin(50) ? g.uni(0, 3) : g.uni(0, E)) : 0);
        int parts = (int)g.uni(1, 3); for (int q = 0; q < parts && miss > 0; ++q) { ll a = q + 1 == parts ? miss : g.uni(1, miss); d[g.uni(0, m - 1)] += a; miss -= a; } }
      else if (mode >= 3 && td > ts) { ll miss = td - ts;
        int parts = (int)g.uni(1, 3); for (int q = 0; q < parts && miss > 0; ++q) { ll a = q + 1 == parts ? miss : g.uni(1, miss); s[g.uni(0, n - 1)] += a; miss -= a; } }
    } else if (mode <= 8) {
      bal = 1;
      if (ts <= td) {     // make a deficit: small (below the number of sinks), or large
        ll miss = g.coin(40) ? g.uni(1, 2 * m) : g.coin(50) ? g.uni(1, E) : (1LL << 31) + g.uni(0, E);
        s[g.uni(0, n - 1)] += td - ts + miss;
      }
    } else if (mode == 10) bal = 1;
    if (g.coin(25)) {
      std::vector<int> ops;
      if (g.coin(60)) ops = OBJ_PATTERNS[g.uni(0, (ll)OBJ_PATTERNS.size() - 1)];
      else { int k = (int)g.uni(2, 5); for (int r = 0; r < k; ++r) ops.push_back((int)g.uni(0, 3)); }
      emit_obj(u, v, s, d, ops);
    } else emit(bal, u, v, s, d);
  }
}

// one case -> one result line (without the trailing newline); *restart is set when the result of assign() does not even
// have the shape of an assignment (wrong length): the heap may be damaged, the worker is replaced
static std::string run_case(const std::string &line, bool *restart) {
  std::string out; char buf[64];
  auto x = vh_ints(line.substr(3)); size_t p = 0;
  auto nx = [&]() -> ll { return p < x.size() ? x[p++] : 0; };
  int bal = nx(); int n = nx(), m = nx();
  if (n < 0 || m < 0 || (size_t)(2 * n + 2 * m + 3) != x.size()) return "?FORMAT";
  std::vector<ll> u(n), v(m), s(n), d(m);
  for (auto &y : u) y = nx(); for (auto &y : v) y = nx(); for (auto &y : s) y = nx(); for (auto &y : d) y = nx();
  Transportation1d pb(u, v, s, d);
  try { if (bal) pb.balanceDemand(); out += "D"; for (ll y : pb.sinkDemand()) { snprintf(buf, 64, " %lld", y); out += buf; } }
  catch (std::exception &ex) { out += std::string("THROW ") + ex.what(); }
  std::vector<ll> d2 = pb.sinkDemand();
  try {
    Transportation1d q(u, v, s, d2);
    auto sol = q.solve(); out += " | S"; bool first = true;
    for (auto [i, j, a] : sol) { snprintf(buf, 64, "%s%d %d %lld", first ? " " : ";", i, j, a); out += buf; first = false; }
  } catch (std::exception &ex) { out += std::string(" | THROW ") + ex.what(); }
  try {
    Transportation1d q(u, v, s, d2);
    auto a = q.assign(); out += " | A"; for (int y : a) { snprintf(buf, 64, " %d", y); out += buf; }
    if ((int)a.size() != n) *restart = true;
  } catch (std::exception &ex) { out += std::string(" | THROW ") + ex.what(); }
  ll oc;
  if (oracle_opt(u, v, s, d2, oc)) { snprintf(buf, 64, " | O %lld", oc); out += buf; } else out += " | O -";
  return out;
}

static std::string part_D(const std::vector<ll> &d) { std::string o = "D"; char buf[64]; for (ll y : d) { snprintf(buf, 64, " %lld", y); o += buf; } return o; }
static std::string part_S(Transportation1d &q) {
  char buf[64];
  try { auto sol = q.solve(); std::string o = " | S"; bool first = true;
    for (auto [i, j, a] : sol) { snprintf(buf, 64, "%s%d %d %lld", first ? " " : ";", i, j, a); o += buf; first = false; }
    return o;
  } catch (std::exception &ex) { return std::string(" | THROW ") + ex.what(); }
}
static std::string part_A(Transportation1d &q, int n, bool *restart) {
  char buf[64];
  try { auto a = q.assign(); std::string o = " | A"; for (int y : a) { snprintf(buf, 64, " %d", y); o += buf; }
    if ((int)a.size() != n) *restart = true;
    return o;
  } catch (std::exception &ex) { return std::string(" | THROW ") + ex.what(); }
}
static std::string part_O(const std::vector<ll> &u, const std::vector<ll> &v, const std::vector<ll> &s, const std::vector<ll> &d2) {
  char buf[64]; ll oc;
  if (oracle_opt(u, v, s, d2, oc)) { snprintf(buf, 64, " | O %lld", oc); return buf; }
  return " | O -";
}

// TS: k problems on shared positions, one after the other
static std::string run_seq(const std::string &line, bool *restart) {
  auto x = vh_ints(line.substr(3)); size_t p = 0;
  auto nx = [&]() -> ll { return p < x.size() ? x[p++] : 0; };
  int n = nx(), m = nx(), k = nx();
  if (n < 0 || m < 0 || k < 0 || (size_t)(3 + n + m + (size_t)k * (1 + n + m)) != x.size()) return "?FORMAT";
  std::string hd; char buf[64];
  for (int i = 0; i < n + m; ++i) { snprintf(buf, 64, " %lld", nx()); hd += buf; }
  std::string out;
  for (int r = 0; r < k; ++r) {
    int bal = nx(); std::string t1; snprintf(buf, 64, "T1 %d %d %d", bal, n, m); t1 = buf; t1 += hd;
    for (int i = 0; i < n + m; ++i) { snprintf(buf, 64, " %lld", nx()); t1 += buf; }
    out += (r ? " || " : "") + run_case(t1, restart);
  }
  return out;
}

// TO: call sequences on one object
static std::string run_obj(const std::string &line, bool *restart) {
  auto x = vh_ints(line.substr(3)); size_t p = 0;
  auto nx = [&]() -> ll { return p < x.size() ? x[p++] : 0; };
  int n = nx(), m = nx(), k = nx();
  if (n < 0 || m < 0 || k < 0 || (size_t)(3 + 2 * n + 2 * m + k) != x.size()) return "?FORMAT";
  std::vector<ll> u(n), v(m), s(n), d(m);
  for (auto &y : u) y = nx(); for (auto &y : v) y = nx(); for (auto &y : s) y = nx(); for (auto &y : d) y = nx();
  Transportation1d pb(u, v, s, d);
  std::string out;
  for (int r = 0; r < k; ++r) {
    int op = nx();
    std::vector<ll> before = pb.sinkDemand();
    std::string oS, oA, oD; bool threwD = false;
    if (op == 2) { try { pb.balanceDemand(); } catch (std::exception &ex) { threwD = true; oD = std::string("THROW ") + ex.what(); } }
    if (op == 0 || op == 3) oS = part_S(pb);
    if (op == 1 || op == 3) oA = part_A(pb, n, restart);
    std::vector<ll> cur = pb.sinkDemand();
    if (!threwD) oD = part_D(cur);
    std::string fS, fA;
    { Transportation1d q(u, v, s, cur); fS = part_S(q); }
    { Transportation1d q(u, v, s, cur); fA = part_A(q, n, restart); }
    std::string oo = part_O(u, v, s, cur);
    char buf[32]; snprintf(buf, 32, "%d #", op);
    out += (r ? " || " : "") + std::string(buf) + part_D(before).substr(1) + " # " + oD + (oS.empty() ? fS : oS) + (oA.empty() ? fA : oA) + oo
           + " # " + part_D(cur) + fS + fA + oo;
  }
  return out;
}

#include <poll.h>
#include <sys/wait.h>
#include <unistd.h>
int main(int argc, char **argv) {
  std::string mode = argc > 1 ? argv[1] : "run";
  if (mode == "gen" && argc > 2 && std::string(argv[2]) == "small") { gen_small(atoi(argv[3]), atoi(argv[4]), atoi(argv[5]), atoi(argv[6]), atoi(argv[7])); return 0; }
  if (mode == "gen" && argc > 2 && std::string(argv[2]) == "rand") { gen_rand(strtoull(argv[3], nullptr, 10), atoll(argv[4])); return 0; }
  if (mode == "gen" && argc > 2 && std::string(argv[2]) == "seq") { gen_seq(strtoull(argv[3], nullptr, 10), atoll(argv[4])); return 0; }
  if (mode == "gen" && argc > 2 && std::string(argv[2]) == "big") { gen_big(strtoull(argv[3], nullptr, 10), atoll(argv[4])); return 0; }
  if (mode == "gen" && argc > 2 && std::string(argv[2]) == "seqsmall") { gen_seqsmall(argc > 3 && atoi(argv[3])); return 0; }
  if (mode == "gen" && argc > 2 && std::string(argv[2]) == "obj") { gen_obj(strtoull(argv[3], nullptr, 10), atoll(argv[4])); return 0; }
  if (mode == "gen" && argc > 2 && std::string(argv[2]) == "objsmall") { gen_objsmall(argc > 3 && atoi(argv[3])); return 0; }
  // run: a forked worker handles the cases; when it dies (signal, sanitizer report), hangs (> 20 s on one case) or asks to be
  // replaced, the parent writes "DIED ..." for the case in hand and a new worker continues with the next case (after 3 hangs the
  // rest is SKIPPED)
  std::vector<std::string> lines; std::string line;
  while (std::getline(std::cin, line)) lines.push_back(line);
  size_t idx = 0; int deaths = 0, restarts = 0, hangs = 0;
  while (idx < lines.size()) {
    if (deaths >= 30 || restarts >= 3000 || hangs >= 3) {   // a broken tree: enough failing cases were shown, do not spend hours on crash reports
      for (; idx < lines.size(); ++idx) printf("SKIPPED too many crashes\n");
      break;
    }
    int fd[2]; if (pipe(fd) != 0) return 2;
    fflush(stdout);
    pid_t pid = fork();
    if (pid < 0) return 2;
    if (pid == 0) {
      close(fd[0]);
      for (size_t k = idx; k < lines.size(); ++k) {
        bool restart = false;
        std::string r = lines[k].size() < 3 ? std::string("") : lines[k].compare(0, 3, "TS ") == 0 ? run_seq(lines[k], &restart)
                        : lines[k].compare(0, 3, "TO ") == 0 ? run_obj(lines[k], &restart) : run_case(lines[k], &restart);
        r += "\n"; fwrite(r.data(), 1, r.size(), stdout); fflush(stdout);
        char c = restart ? 'R' : '.'; if (write(fd[1], &c, 1) != 1) _exit(3);
        if (restart) _exit(0);
      }
      _exit(0);
    }
    close(fd[1]);
    size_t done = 0; bool hung = false;
    while (true) {
      struct pollfd pf = {fd[0], POLLIN, 0};
      // CPU limit of one case: 20 s (6 s for the TS / TO cases, whose problems have at most 40 x 25 entries)
      size_t cur = idx + done;
      int limit = cur < lines.size() && (lines[cur].compare(0, 3, "TO ") == 0 || lines[cur].compare(0, 3, "TS ") == 0) ? 6000 : 20000;
      int pr = poll(&pf, 1, limit);
      if (pr == 0) { hung = true; ++hangs; kill(pid, SIGKILL); break; }
      char buf[4096]; ssize_t got = read(fd[0], buf, sizeof buf);
      if (got <= 0) break;
      done += got;
    }
    close(fd[0]);
    int status = 0; waitpid(pid, &status, 0);
    idx += done;
    ++restarts;
    if (idx < lines.size() && (hung || !(WIFEXITED(status) && WEXITSTATUS(status) == 0))) {
      ++deaths;
      // the worker died on case idx before printing its line
      if (hung) printf("DIED timeout\n");
      else if (WIFSIGNALED(status)) printf("DIED signal %d (%s)\n", WTERMSIG(status), strsignal(WTERMSIG(status)));
      else printf("DIED exit %d\n", WEXITSTATUS(status));
      fflush(stdout);
      ++idx;
    }
  }
  return 0;
}
