// C14 harness: Transportation1d::{balanceDemand,solve,assign} from /repo's working tree
//   transp1d gen small N M P SMAX DMAX   exhaustive: 1..N sources, 1..M sinks, positions 0..P, supplies 0..SMAX, demands 0..DMAX
//                                        (instances with supply > demand get the balanceDemand flag)
//   transp1d gen rand SEED COUNT         random streams (see gen_rand)
//   transp1d run < cases
// case line :  "T1 bal n m u_1..u_n v_1..v_m s_1..s_n d_1..d_m"     (bal=1: call balanceDemand() first)
// result    :  "D d_1..d_m | S i j a;i j a;... | A a_1..a_n | O optcost"   ("DIED ..." when the worker process died on the case,
//              "SKIPPED ..." for the rest of the input after 30 deaths / 3000 worker replacements)
//              D = demands after the optional balanceDemand(); S = solve() in the returned order; A = assign();
//              O = optimal cost found by an independent successive-shortest-path min-cost flow (only when n*m <= 64 and the
//              total supply is <= 4000, "-" otherwise or when infeasible).  A part is "THROW <what>" when the call threw.
#include "vh.hpp"
#include <algorithm>
#include <climits>
#include <tuple>
#define private public
#define protected public
#include "place_global/transportation_1d.hpp"
#undef private
#undef protected

typedef long long ll;

// ---- independent oracle: min-cost flow by successive shortest paths (Bellman-Ford), nothing shared with the 1-D solver
static bool mcf(const std::vector<ll> &u, const std::vector<ll> &v, const std::vector<ll> &s, const std::vector<ll> &d, ll &cost) {
  int n = u.size(), m = v.size(), N = n + m + 2, src = n + m, snk = n + m + 1;
  struct E { int to; ll cap, cost; };
  std::vector<E> es; std::vector<std::vector<int>> g(N);
  auto add = [&](int a, int b, ll cap, ll c) { g[a].push_back(es.size()); es.push_back({b, cap, c}); g[b].push_back(es.size()); es.push_back({a, 0, -c}); };
  ll tot = 0;
  for (int i = 0; i < n; ++i) { add(src, i, s[i], 0); tot += s[i]; }
  for (int j = 0; j < m; ++j) add(n + j, snk, d[j], 0);
  for (int i = 0; i < n; ++i) for (int j = 0; j < m; ++j) add(i, n + j, LLONG_MAX / 4, std::llabs(u[i] - v[j]));
  cost = 0; ll flow = 0;
  while (flow < tot) {
    std::vector<ll> dist(N, LLONG_MAX / 2); std::vector<int> pe(N, -1); dist[src] = 0;
    for (int it = 0; it < N; ++it) { bool ch = false;
      for (int a = 0; a < N; ++a) if (dist[a] < LLONG_MAX / 2) for (int id : g[a]) if (es[id].cap > 0 && dist[a] + es[id].cost < dist[es[id].to]) { dist[es[id].to] = dist[a] + es[id].cost; pe[es[id].to] = id; ch = true; }
      if (!ch) break; }
    if (dist[snk] >= LLONG_MAX / 2) return false;
    ll f = tot - flow; for (int x = snk; x != src; x = es[pe[x] ^ 1].to) f = std::min(f, es[pe[x]].cap);
    for (int x = snk; x != src; x = es[pe[x] ^ 1].to) { es[pe[x]].cap -= f; es[pe[x] ^ 1].cap += f; }
    flow += f; cost += f * dist[snk];
  }
  return true;
}

static void emit(int bal, const std::vector<ll> &u, const std::vector<ll> &v, const std::vector<ll> &s, const std::vector<ll> &d) {
  printf("T1 %d %zu %zu", bal, u.size(), v.size());
  for (ll x : u) printf(" %lld", x); for (ll x : v) printf(" %lld", x);
  for (ll x : s) printf(" %lld", x); for (ll x : d) printf(" %lld", x);
  printf("\n");
}

static void gen_small(int N, int M, int P, int SMAX, int DMAX) {
  for (int n = 1; n <= N; ++n) for (int m = 1; m <= M; ++m) {
    std::vector<ll> u(n, 0), v(m, 0), s(n, 0), d(m, 0);
    // odometer over all (u,v,s,d)
    std::vector<ll *> dig; std::vector<int> hi;
    for (auto &x : u) { dig.push_back(&x); hi.push_back(P); } for (auto &x : v) { dig.push_back(&x); hi.push_back(P); }
    for (auto &x : s) { dig.push_back(&x); hi.push_back(SMAX); } for (auto &x : d) { dig.push_back(&x); hi.push_back(DMAX); }
    while (true) {
      ll ts = 0, td = 0; for (ll x : s) ts += x; for (ll x : d) td += x;
      emit(ts > td ? 1 : 0, u, v, s, d);
      int p = dig.size() - 1; while (p >= 0 && ++*dig[p] > hi[p]) { *dig[p] = 0; --p; }
      if (p < 0) break;
    }
  }
}

static void gen_rand(unsigned long long seed, long long count) {
  SplitMix g(seed);
  for (long long it = 0; it < count; ++it) {
    int kind = (int)g.uni(0, 9);
    int n, m; ll range, smax, dmax;
    if (kind <= 3) { n = g.uni(1, 6); m = g.uni(1, 6); range = g.uni(1, 8); smax = g.uni(1, 4); dmax = g.uni(1, 5); }         // small, many ties
    else if (kind <= 6) { n = g.uni(1, 14); m = g.uni(1, 10); range = g.uni(5, 60); smax = g.uni(1, 9); dmax = g.uni(1, 15); }
    else if (kind == 7) { n = g.uni(1, 40); m = g.uni(1, 25); range = 100000000LL; smax = g.uni(1, 1000); dmax = g.uni(1, 3000); }   // positions up to 10^8 (rough legalizer's scaling)
    else if (kind == 8) { n = g.uni(1, 30); m = g.uni(1, 30); range = g.uni(2, 30); smax = 1; dmax = 1; }                       // assignment problems
    else { n = g.uni(20, 120); m = g.uni(5, 40); range = g.uni(10, 100000000LL); smax = g.uni(1, 50); dmax = g.uni(1, 200); }
    int zs = (int)g.uni(0, 3) * 15, zd = (int)g.uni(0, 3) * 15;       // percentage of zero supplies / zero demands
    std::vector<ll> u(n), v(m), s(n), d(m);
    ll base = g.coin(30) ? -range / 2 : 0;
    for (auto &x : u) x = base + g.uni(0, range);
    for (auto &x : v) x = base + g.uni(0, range);
    if (g.coin(15)) for (int j = 1; j < m; ++j) if (g.coin(50)) v[j] = v[j - 1];      // duplicate sink positions
    if (g.coin(15)) for (int i = 1; i < n; ++i) if (g.coin(50)) u[i] = u[i - 1];      // duplicate source positions
    if (g.coin(10)) for (int i = 0; i < n; ++i) u[i] = v[g.uni(0, m - 1)];            // sources on sinks
    for (auto &x : s) x = g.coin(zs) ? 0 : g.uni(1, smax);
    for (auto &x : d) x = g.coin(zd) ? 0 : g.uni(1, dmax);
    ll ts = 0, td = 0; for (ll x : s) ts += x; for (ll x : d) td += x;
    int mode = (int)g.uni(0, 9);   // 0-3 slack as drawn (fixed up), 4-6 exact balance, 7-9 balanceDemand
    int bal = 0;
    if (ts > td) {
      if (mode >= 7) bal = 1;
      else { // add the missing demand to random sinks (possibly the zero ones)
        ll miss = ts - td + (mode <= 3 ? g.uni(0, 3) : 0);
        while (miss > 0) { ll a = g.uni(1, miss); d[g.uni(0, m - 1)] += a; miss -= a; }
      }
    } else if (mode >= 4 && mode <= 6 && td > ts) { // exact balance: add supply
      ll miss = td - ts; while (miss > 0) { ll a = g.uni(1, miss); s[g.uni(0, n - 1)] += a; miss -= a; }
    } else if (mode >= 7) bal = 1;    // balanceDemand with nothing missing: no-op
    emit(bal, u, v, s, d);
  }
}

// one case -> one result line (without the trailing newline); *restart is set when the result of assign() does not even
// have the shape of an assignment (wrong length): the heap may be damaged, the worker is replaced
static std::string run_case(const std::string &line, bool *restart) {
  std::string out; char buf[64];
  auto x = vh_ints(line.substr(3)); size_t p = 0;
  auto nx = [&]() -> ll { return p < x.size() ? x[p++] : 0; };
  int bal = nx(); int n = nx(), m = nx();
  if (n < 0 || m < 0 || (size_t)(2 * n + 2 * m + 3) != x.size()) return "?FORMAT";
  std::vector<ll> u(n), v(m), s(n), d(m);
  for (auto &y : u) y = nx(); for (auto &y : v) y = nx(); for (auto &y : s) y = nx(); for (auto &y : d) y = nx();
  Transportation1d pb(u, v, s, d);
  try { if (bal) pb.balanceDemand(); out += "D"; for (ll y : pb.sinkDemand()) { snprintf(buf, 64, " %lld", y); out += buf; } }
  catch (std::exception &ex) { out += std::string("THROW ") + ex.what(); }
  std::vector<ll> d2 = pb.sinkDemand();
  try {
    Transportation1d q(u, v, s, d2);
    auto sol = q.solve(); out += " | S"; bool first = true;
    for (auto [i, j, a] : sol) { snprintf(buf, 64, "%s%d %d %lld", first ? " " : ";", i, j, a); out += buf; first = false; }
  } catch (std::exception &ex) { out += std::string(" | THROW ") + ex.what(); }
  try {
    Transportation1d q(u, v, s, d2);
    auto a = q.assign(); out += " | A"; for (int y : a) { snprintf(buf, 64, " %d", y); out += buf; }
    if ((int)a.size() != n) *restart = true;
  } catch (std::exception &ex) { out += std::string(" | THROW ") + ex.what(); }
  ll ts = 0; for (ll y : s) ts += y;
  ll oc; bool neg = false; for (ll y : s) if (y < 0) neg = true; for (ll y : d2) if (y < 0) neg = true;
  if (!neg && (ll)n * m <= 64 && ts <= 4000 && mcf(u, v, s, d2, oc)) { snprintf(buf, 64, " | O %lld", oc); out += buf; } else out += " | O -";
  return out;
}

#include <poll.h>
#include <sys/wait.h>
#include <unistd.h>
int main(int argc, char **argv) {
  std::string mode = argc > 1 ? argv[1] : "run";
  if (mode == "gen" && argc > 2 && std::string(argv[2]) == "small") { gen_small(atoi(argv[3]), atoi(argv[4]), atoi(argv[5]), atoi(argv[6]), atoi(argv[7])); return 0; }
  if (mode == "gen" && argc > 2 && std::string(argv[2]) == "rand") { gen_rand(strtoull(argv[3], nullptr, 10), atoll(argv[4])); return 0; }
  // run: a forked worker handles the cases; when it dies (signal, sanitizer report), hangs (> 20 s on one case) or asks to be
  // replaced, the parent writes "DIED ..." for the case in hand and a new worker continues with the next case
  std::vector<std::string> lines; std::string line;
  while (std::getline(std::cin, line)) lines.push_back(line);
  size_t idx = 0; int deaths = 0, restarts = 0;
  while (idx < lines.size()) {
    if (deaths >= 30 || restarts >= 3000) {   // a broken tree: enough failing cases were shown, do not spend hours on crash reports
      for (; idx < lines.size(); ++idx) printf("SKIPPED too many crashes\n");
      break;
    }
    int fd[2]; if (pipe(fd) != 0) return 2;
    fflush(stdout);
    pid_t pid = fork();
    if (pid < 0) return 2;
    if (pid == 0) {
      close(fd[0]);
      for (size_t k = idx; k < lines.size(); ++k) {
        bool restart = false;
        std::string r = lines[k].size() < 3 ? std::string("") : run_case(lines[k], &restart);
        r += "\n"; fwrite(r.data(), 1, r.size(), stdout); fflush(stdout);
        char c = restart ? 'R' : '.'; if (write(fd[1], &c, 1) != 1) _exit(3);
        if (restart) _exit(0);
      }
      _exit(0);
    }
    close(fd[1]);
    size_t done = 0; bool hung = false;
    while (true) {
      struct pollfd pf = {fd[0], POLLIN, 0};
      int pr = poll(&pf, 1, 20000);
      if (pr == 0) { hung = true; kill(pid, SIGKILL); break; }
      char buf[4096]; ssize_t got = read(fd[0], buf, sizeof buf);
      if (got <= 0) break;
      done += got;
    }
    close(fd[0]);
    int status = 0; waitpid(pid, &status, 0);
    idx += done;
    ++restarts;
    if (idx < lines.size() && (hung || !(WIFEXITED(status) && WEXITSTATUS(status) == 0))) {
      ++deaths;
      // the worker died on case idx before printing its line
      if (hung) printf("DIED timeout\n");
      else if (WIFSIGNALED(status)) printf("DIED signal %d (%s)\n", WTERMSIG(status), strsignal(WTERMSIG(status)));
      else printf("DIED exit %d\n", WEXITSTATUS(status));
      fflush(stdout);
      ++idx;
    }
  }
  return 0;
}
