// C02 / C04 harness (tag EX): DetailedPlacement::fromIspdCircuit on a circuit, a sequence of swap / insert operations
// on the structure (performed when canSwap / canInsert hold, skipped otherwise), then
// DetailedPlacement::exportPlacement(circuit): the exported circuit (x y orientation of EVERY cell), compared
// EXACTLY with coq/DetailedExport.v (write_back c (run_dops s ops), s = from_circuit c) -- the model of the
// theorems c02_write_back_legal / c02_write_back_frame / c04_write_back_orient_ok.
//   dexport gen rand SEED COUNT   generated circuits (generator of the DP/DO/FC streams) after Circuit::legalize,
//                                 1-14 operations chosen while walking the real structure: swaps of two cells
//                                 (any index, ignored cells included), inserts of a cell in a row after a
//                                 predecessor of that row / at the row start / after an arbitrary cell
//   dexport run < cases
// case:   "EX <rows> <cells> nops (0 a b | 1 a row pred)*"   (rows, cells as in FC / LC)
// result: "OK x y o x y o ..." (all cells, after exportPlacement)  |  "ERR" (fromIspdCircuit threw)
#include "cgen.hpp"
#define private public
#include "place_detailed/detailed_placement.hpp"
#undef private

static bool cellOk(const DetailedPlacement &p, long long a) { return a >= 0 && a < p.nbCells() && !p.isIgnored((int)a) && p.isPlaced((int)a); }
static bool predOk(const DetailedPlacement &p, long long row, long long pred) {
  if (row < 0 || row >= p.nbRows()) return false;
  return pred == -1 || (cellOk(p, pred) && p.cellRow((int)pred) == row);
}
// returns whether the operation was performed
static bool applyOp(DetailedPlacement &p, const std::vector<long long> &o) {
  if (o[0] == 0) {
    if (cellOk(p, o[1]) && cellOk(p, o[2]) && p.canSwap((int)o[1], (int)o[2])) { p.swap((int)o[1], (int)o[2]); return true; }
  } else {
    if (cellOk(p, o[1]) && predOk(p, o[2], o[3]) && p.canInsert((int)o[1], (int)o[2], (int)o[3])) { p.insert((int)o[1], (int)o[2], (int)o[3]); return true; }
  }
  return false;
}

int main(int argc, char **argv) {
  std::string mode = argc > 1 ? argv[1] : "run";
  vh_install(); vh_silence();
  if (mode == "gen") {
    SplitMix g(strtoull(argv[3], nullptr, 10)); long long count = atoll(argv[4]);
    for (long long it = 0; it < count; ++it) {
      GenOpts o; o.utilLo = 20; o.utilHi = 85; o.maxCells = 14;
      if (g.coin(20)) o.mixedSplit = true;
      TCircuit t = genCircuit(g, o);
      int effort = (int)g.uni(1, 9);
      if (sigsetjmp(vh_jmp, 1)) { continue; }
      try {
        Circuit c = buildCircuit(t);
        c.legalize(ColoquinteParameters(effort));
        for (int i = 0; i < c.nbCells(); ++i) { t.cells[i][0] = c.cellX()[i]; t.cells[i][1] = c.cellY()[i]; t.cells[i][4] = (int)c.cellOrientation()[i]; }
        DetailedPlacement p = DetailedPlacement::fromIspdCircuit(c);
        int n = p.nbCells(), nr = p.nbRows();
        if (n == 0 || nr == 0) continue;
        int nops = (int)g.uni(1, 14); std::vector<std::vector<long long>> ops;
        for (int k = 0; k < nops; ++k) {
          std::vector<long long> op;
          if (g.coin(40)) op = {0, g.uni(0, n - 1), g.uni(0, n - 1)};
          else {
            long long row = g.uni(0, nr - 1), pred = -1;
            std::vector<int> rc = p.rowCells((int)row);
            int kind = (int)g.uni(0, 9);
            if (kind < 6 && !rc.empty()) pred = rc[g.uni(0, (long long)rc.size() - 1)];
            else if (kind == 9) pred = g.uni(0, n - 1);
            op = {1, g.uni(0, n - 1), row, pred};
          }
          applyOp(p, op);
          ops.push_back(op);
        }
        printf("EX %s %zu", showRowsCells(t).c_str(), ops.size());
        for (auto &op : ops) for (auto v : op) printf(" %lld", v);
        printf("\n");
      } catch (std::exception &) {}
    }
    return 0;
  }
  std::string line;
  while (std::getline(std::cin, line)) {
    if (line.size() < 3) { printf("\n"); continue; }
    IntReader r; r.v = vh_ints(line.substr(3));
    if (sigsetjmp(vh_jmp, 1)) { printf("%s\n", vh_signame()); fflush(stdout); continue; }
    try {
      TCircuit t = readRowsCells(r);
      Circuit c = buildCircuit(t);
      int nops = (int)r.nx();
      try {
        DetailedPlacement p = DetailedPlacement::fromIspdCircuit(c);
        for (int k = 0; k < nops; ++k) {
          std::vector<long long> op; long long ty = r.nx();
          if (ty == 0) { long long a = r.nx(), b = r.nx(); op = {0, a, b}; } else { long long a = r.nx(), row = r.nx(), pr = r.nx(); op = {1, a, row, pr}; }
          applyOp(p, op);
        }
        p.check();
        p.exportPlacement(c);
        std::string out = "OK";
        for (int i = 0; i < c.nbCells(); ++i) out += " " + std::to_string(c.cellX()[i]) + " " + std::to_string(c.cellY()[i]) + " " + std::to_string((int)c.cellOrientation()[i]);
        printf("%s\n", out.c_str());
      } catch (std::exception &e) { printf("ERR %s\n", e.what()); }
    } catch (std::exception &ex) { printf("THROW-OUTER %s\n", ex.what()); }
    fflush(stdout);
  }
  return 0;
}
