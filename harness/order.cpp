// C11 / C01 harness for the CLOSED legalizer model (coq/CellOrder.v): the real LegalizerBase::computeCellOrder and
// Circuit::legalize from /repo's working tree, ordering parameters given as fractions
//   order gen rand SEED COUNT       case lines
//   order gen randf SEED COUNT      case lines with NON-dyadic parameters, small circuits (binary32 tie, checks/c11_order.py float_tie)
//   order run < cases
// case:   "OR <rows> <cells> wn wd yn yd hn hd effort"   orderingWidth = wn/wd, orderingY = yn/yd, orderingHeight = hn/hd
//         (computed as (double)n / (double)d: exact when d is a power of two)
// result: "<n> <order...> | <outcome><placement>"   order = computeCellOrder(1.0, ow, oy, oh) on Legalizer::fromIspdCircuit,
//         outcome/placement = Circuit::legalize with the same parameters (OK x y o ... / NOROW / NOTALL / THROW msg)
#define protected public
#define private public
#include "place_detailed/legalizer.hpp"
#undef protected
#undef private
#include "cgen.hpp"

static void genParams(SplitMix &g, long long out[6]) {
  // 70 %: dyadic parameters with few bits (denominators 1..16) over the box LegalizationParameters::check accepts
  // (orderingWidth in [-1,2], orderingY in [-0.2,0.2], orderingHeight unchecked: [-2,2]); 30 %: tenths (0.1, 0.2 ... not dyadic)
  if (g.coin(70)) {
    long long wd = 1LL << g.uni(0, 4), hd = 1LL << g.uni(0, 4);
    out[0] = g.coin(60) ? g.uni(0, wd) : g.uni(-wd, 2 * wd); out[1] = wd;
    int ys = (int)g.uni(0, 2);
    if (ys == 0) { out[2] = 0; out[3] = 1; } else if (ys == 1) { out[2] = g.uni(-1, 1); out[3] = 8; } else { out[2] = g.uni(-3, 3); out[3] = 16; }
    out[4] = g.uni(-2 * hd, 2 * hd); out[5] = hd;
  } else {
    out[0] = g.coin(60) ? g.uni(0, 10) : g.uni(-10, 20); out[1] = 10;
    out[2] = g.uni(-2, 2); out[3] = 10;
    out[4] = g.uni(-20, 20); out[5] = 10;
  }
}

// NON-dyadic parameters for the binary32 tie (coq/CellOrderFloat.v cell_order_f, evaluated inside Coq): thirds, fifths, sevenths,
// tenths, twentieths, hundredths; orderingWidth in [0,1] (80 %) or over [-1,2], orderingY in [-0.2,0.2], orderingHeight in [-4,4]
// (75 %: the domain of the theorems) or up to +-64 (ties / inversions of the rounded keys become frequent)
static void genParamsF(SplitMix &g, long long out[6]) {
  static const long long dens[6] = {3, 5, 7, 10, 20, 100};
  long long wd = dens[g.uni(0, 5)], yd = dens[g.uni(0, 5)], hd = dens[g.uni(0, 5)];
  out[0] = g.coin(80) ? g.uni(0, wd) : g.uni(-wd, 2 * wd); out[1] = wd;
  out[2] = g.coin(40) ? 0 : g.uni(-(yd / 5), yd / 5); out[3] = yd;
  out[4] = g.coin(75) ? g.uni(-4 * hd, 4 * hd) : g.uni(-64 * hd, 64 * hd); out[5] = hd;
}

int main(int argc, char **argv) {
  std::string mode = argc > 1 ? argv[1] : "run";
  if (mode == "gen" && argc > 4 && std::string(argv[2]) == "randf") {
    SplitMix g(strtoull(argv[3], nullptr, 10)); long long count = atoll(argv[4]);
    for (long long it = 0; it < count; ++it) {
      GenOpts o; o.multirow = false; o.maxCells = 8;            // row-high designs, small (vm_compute inside Coq)
      int kind = (int)g.uni(0, 9);
      if (kind == 0) o.multirow = true;                         // a few general designs
      if (kind == 1 || kind == 2) o.tile = true;                // legal, exactly tiled rows: neighbours at distance = width
      if (kind == 3) { o.utilLo = 5; o.utilHi = 45; }
      int sk = (int)g.uni(0, 9);
      if (sk < 3) o.scale = 1; else if (sk < 6) o.scale = 1LL << g.uni(1, 9); else if (sk < 9) o.scale = 1LL << g.uni(10, 13);
      else o.scale = 1LL << g.uni(14, 17);                      // beyond 2^20: int -> float conversions round
      TCircuit t = genCircuit(g, o);
      // half of the cases: the whole design translated far away (|offset| up to 2^20 .. 2^28) with the spacing kept: neighbouring
      // keys differ by a few units at a magnitude where binary32 has ulp 1/8 .. 32 (roundings, ties and int -> float conversions matter)
      if (g.coin(50)) {
        long long m = 1LL << g.uni(20, 28), dx = g.uni(-m, m), dy = g.coin(50) ? 0 : g.uni(-m, m);
        for (auto &r : t.rows) { r[0] += dx; r[1] += dx; r[2] += dy; r[3] += dy; }
        for (auto &c : t.cells) { c[0] += dx; c[1] += dy; }
      }
      long long p[6]; genParamsF(g, p);
      printf("OR %s %lld %lld %lld %lld %lld %lld %d\n", showRowsCells(t).c_str(), p[0], p[1], p[2], p[3], p[4], p[5], (int)g.uni(1, 9));
    }
    return 0;
  }
  if (mode == "gen") {
    SplitMix g(strtoull(argv[3], nullptr, 10)); long long count = atoll(argv[4]);
    for (long long it = 0; it < count; ++it) {
      GenOpts o;
      int kind = (int)g.uni(0, 9);
      if (kind < 4) o.multirow = false;                       // row-high designs (C11's domain)
      if (kind == 4) { o.tile = true; o.multirow = false; }   // legal, exactly tiled rows
      if (kind == 5) { o.utilLo = 5; o.utilHi = 45; o.polarity = false; o.multirow = false; o.maxCells = 8; }   // trivially feasible
      if (g.coin(50)) o.scale = 1LL << g.uni(1, 9);           // |coordinates| <= 1000 * 2^9 < 2^19
      else if (g.coin(15)) o.scale = 1LL << g.uni(10, 16);    // beyond the exact range of binary32 (counted, not compared)
      TCircuit t = genCircuit(g, o);
      // equal keys: copy the geometry of a movable cell onto another one (the index decides), or only x/y
      std::vector<int> mov; for (size_t i = 0; i < t.cells.size(); ++i) if (!t.cells[i][6]) mov.push_back((int)i);
      if (mov.size() >= 2 && g.coin(35)) {
        int a = mov[g.uni(0, mov.size() - 1)], b = mov[g.uni(0, mov.size() - 1)];
        if (a != b) { if (g.coin(50)) for (int k = 0; k < 5; ++k) t.cells[b][k] = t.cells[a][k]; else { t.cells[b][0] = t.cells[a][0]; t.cells[b][1] = t.cells[a][1]; } }
      }
      long long p[6]; genParams(g, p);
      printf("OR %s %lld %lld %lld %lld %lld %lld %d\n", showRowsCells(t).c_str(), p[0], p[1], p[2], p[3], p[4], p[5], (int)g.uni(1, 9));
    }
    return 0;
  }
  vh_install(); vh_silence();
  std::string line;
  while (std::getline(std::cin, line)) {
    if (line.size() < 3) { printf("\n"); continue; }
    IntReader r; r.v = vh_ints(line.substr(3));
    if (sigsetjmp(vh_jmp, 1)) { printf("%s\n", vh_signame()); fflush(stdout); continue; }
    try {
      TCircuit t = readRowsCells(r);
      long long q[6]; for (auto &v : q) v = r.nx();
      int effort = (int)r.nx();
      Circuit c = buildCircuit(t);
      ColoquinteParameters p(effort);
      p.legalization.orderingWidth = (double)q[0] / (double)q[1];
      p.legalization.orderingY = (double)q[2] / (double)q[3];
      p.legalization.orderingHeight = (double)q[4] / (double)q[5];
      std::string order;
      try {
        Legalizer leg = Legalizer::fromIspdCircuit(c);
        auto ord = leg.computeCellOrder(1.0, p.legalization.orderingWidth, p.legalization.orderingY, p.legalization.orderingHeight);
        std::ostringstream s; s << ord.size(); for (int x : ord) s << " " << x; order = s.str();
      } catch (std::exception &e) { order = "0"; }
      std::string res;
      try { c.legalize(p); res = "OK" + showPlacement(c); }
      catch (std::exception &e) { std::string m = e.what(); res = m == "No row present" ? "NOROW" : m == "Not all cells have been placed" ? "NOTALL" : "THROW " + m; }
      printf("%s | %s\n", order.c_str(), res.c_str());
    } catch (std::exception &ex) { printf("THROW-OUTER %s\n", ex.what()); }
  }
  return 0;
}
