// C02 harness: DetailedPlacement::fromIspdCircuit(const Circuit&) from /repo on a given circuit, compared with
// coq/DetailedInit.v (from_circuit): the row structure built (rowCells() of every row with x / width / polarity /
// orientation of every cell, the row segments in their sorted order) or the exception thrown
//   dinit gen rand SEED COUNT   per generated circuit (generator of the DP/DO streams): the circuit as generated
//                               (mostly illegal: exercises every exception of the constructor), the circuit after
//                               Circuit::legalize when it accepts (what Circuit::placeDetailed hands to fromIspdCircuit),
//                               and the legalized circuit with one cell perturbed; first, a few degenerate circuits
//                               (no rows, no cells, only fixed cells, rows of different heights)
//   dinit run < cases
// case:   "FC <rows> <cells>"           (rows: n (minX maxX minY maxY orient)*, cells: n (x y w h orient pol fixed obs)*)
// result: "OK <row>;<row>;..."  row = "minX maxX minY orient:" + "id:x:w:pol:orient" joined by ","
//         "ERR <kind>"          kind = NoRows | RowHeights | NoRowFound | WrongY | RowStartsAfter | RowEndsBefore |
//                                      Overlap | CheckGeometry | CheckOrientation | Other(<message>)
#include "cgen.hpp"
#define private public
#include "place_detailed/detailed_placement.hpp"
#undef private

static std::string kindOf(const std::string &m) {
  if (m == "Cannot compute row height as no row has been defined") return "NoRows";
  if (m == "The circuit contains rows of different heights") return "RowHeights";
  if (m == "No row found for the cell") return "NoRowFound";
  if (m == "Found row doesn't have the right y") return "WrongY";
  if (m == "Found row starts after the cell") return "RowStartsAfter";
  if (m == "Found row ends before the cell") return "RowEndsBefore";
  if (m == "Overlap between cells") return "Overlap";
  if (m == "Overlap with the predecessor" || m == "Overlap with the successor" || m == "Element is out of the row") return "CheckGeometry";
  if (m == "Cell orientation seems incompatible with its row") return "CheckOrientation";
  return "Other(" + m + ")";
}

static std::string show(const DetailedPlacement &p) {
  std::ostringstream s; s << "OK ";
  for (int r = 0; r < p.nbRows(); ++r) {
    if (r) s << ";";
    s << p.rows_[r].minX << " " << p.rows_[r].maxX << " " << p.rows_[r].minY << " " << (int)p.rows_[r].orientation << ":";
    bool f = true; int guard = 0;
    for (int c = p.rowFirstCell(r); c != -1 && guard <= p.nbCells(); c = p.cellNext(c), ++guard) {
      if (!f) s << ","; f = false;
      s << c << ":" << p.cellX(c) << ":" << p.cellWidth(c) << ":" << (int)p.cellRowPolarity(c) << ":" << (int)p.cellOrientation(c);
    }
  }
  return s.str();
}

static void emit(const TCircuit &t) { printf("FC %s\n", showRowsCells(t).c_str()); }

int main(int argc, char **argv) {
  std::string mode = argc > 1 ? argv[1] : "run";
  vh_install(); vh_silence();
  if (mode == "gen") {
    SplitMix g(strtoull(argv[3], nullptr, 10)); long long count = atoll(argv[4]);
    // degenerate circuits
    {
      TCircuit t; emit(t);                                                            // no rows, no cells
      t.cells.push_back({3, 4, 2, 2, 0, 0, 1, 1}); emit(t);                            // no rows, one fixed cell
      t.cells.push_back({0, 0, 1, 1, 0, 0, 1, 0}); emit(t);                            // no rows, two fixed cells
      TCircuit u; u.cells.push_back({3, 4, 2, 2, 0, 0, 0, 1}); emit(u);                // no rows, a movable cell
      TCircuit v; v.cells.push_back({3, 4, 2, 0, 0, 0, 0, 1}); emit(v);                // no rows, a movable cell of height 0
      TCircuit w; w.rows.push_back({0, 10, 0, 2, 0}); emit(w);                         // a row, no cells
      w.cells.push_back({2, 0, 3, 2, 0, 0, 1, 1}); emit(w);                            // a row, only a fixed obstruction
      w.cells.push_back({5, 0, 3, 2, 0, 0, 1, 0}); emit(w);                            // ... and a fixed non-obstruction
      TCircuit h; h.rows.push_back({0, 10, 0, 2, 0}); h.rows.push_back({0, 10, 2, 5, 0}); emit(h);   // rows of different heights
      h.cells.push_back({2, 0, 3, 2, 0, 0, 0, 1}); emit(h);
      TCircuit e; e.rows.push_back({0, 10, 0, 2, 0}); e.rows.push_back({4, 4, 2, 4, 0}); e.cells.push_back({4, 2, 0, 2, 0, 0, 0, 1}); emit(e);  // empty row
    }
    for (long long it = 0; it < count; ++it) {
      GenOpts o; o.utilLo = 20; o.utilHi = 95; o.maxCells = 14;
      if (g.coin(20)) o.mixedSplit = true;
      TCircuit t = genCircuit(g, o);
      emit(t);
      int effort = (int)g.uni(1, 9);
      bool ok = false;
      if (sigsetjmp(vh_jmp, 1)) { continue; }
      try {
        Circuit c = buildCircuit(t);
        c.legalize(ColoquinteParameters(effort));
        for (int i = 0; i < c.nbCells(); ++i) { t.cells[i][0] = c.cellX()[i]; t.cells[i][1] = c.cellY()[i]; t.cells[i][4] = (int)c.cellOrientation()[i]; }
        ok = true;
      } catch (std::exception &) {}
      if (!ok) continue;
      emit(t);
      if (!t.cells.empty()) {
        TCircuit p = t; auto &k = p.cells[g.uni(0, (long long)p.cells.size() - 1)];
        switch (g.uni(0, 4)) {
          case 0: k[0] += g.uni(-3, 3); break;
          case 1: k[1] += g.uni(-2, 2); break;
          case 2: { int os[4] = {0, 1, 4, 5}; k[4] = os[g.uni(0, 3)]; break; }
          case 3: k[2] += g.uni(1, 4); break;
          default: k[6] = !k[6]; break;
        }
        emit(p);
      }
    }
    return 0;
  }
  std::string line;
  while (std::getline(std::cin, line)) {
    if (line.size() < 3) { printf("\n"); continue; }
    IntReader r; r.v = vh_ints(line.substr(3));
    if (sigsetjmp(vh_jmp, 1)) { printf("%s\n", vh_signame()); fflush(stdout); continue; }
    try {
      TCircuit t = readRowsCells(r);
      Circuit c = buildCircuit(t);
      try {
        DetailedPlacement p = DetailedPlacement::fromIspdCircuit(c);
        printf("%s\n", show(p).c_str());
      } catch (std::exception &e) { printf("ERR %s\n", kindOf(e.what()).c_str()); }
    } catch (std::exception &ex) { printf("THROW-OUTER %s\n", ex.what()); }
    fflush(stdout);
  }
  return 0;
}
