// C15 harness: Row::freespace and Circuit::computeRows from /repo's working tree
//   freespace gen grid W H K          exhaustive: rows [0,w)x[0,h) w<=W,h<=H, up to K obstacles on the grid [-1,w+1]x[-1,h+1]
//   freespace gen rand SEED COUNT
//   freespace gen seam SEED COUNT     Circuit::computeRows on rows given in pieces of one y that abut exactly (see below)
//   freespace run < cases
// case lines:  "FS minX maxX minY maxY orient nobs (minX maxX minY maxY)*"
//              "CR nrows (minX maxX minY maxY orient)* nextra (rect)* ncells (x y w h orient fixed obstruction)*"
// result: "minX maxX minY maxY orient;..." then " # " and the harness's own column-scan verdict (OK or BAD reason)
#include "vh.hpp"
#include "coloquinte.hpp"
#include <algorithm>
#include <array>
#include <set>
using namespace coloquinte;

static std::string show(const std::vector<Row> &rows) {
  std::ostringstream s; bool first = true;
  for (auto &r : rows) { if (!first) s << ";"; first = false; s << r.minX << " " << r.maxX << " " << r.minY << " " << r.maxY << " " << (int)r.orientation; }
  return s.str();
}
// the statement of C15, checked column by column for one row
static std::string verdict(const Row &row, const std::vector<Rectangle> &obs, const std::vector<Row> &segs) {
  for (auto &s : segs) {
    if (s.minY != row.minY || s.maxY != row.maxY) return "BAD segment not full height";
    if (s.orientation != row.orientation) return "BAD orientation changed";
    if (s.minX >= s.maxX) return "BAD empty segment";
    if (s.minX < row.minX || s.maxX > row.maxX) return "BAD segment outside the row";
  }
  // elementary column intervals between consecutive breakpoints behave uniformly: test one column of each
  std::set<long long> bp; bp.insert(row.minX); bp.insert(row.maxX);
  for (auto &s : segs) { bp.insert(s.minX); bp.insert(s.maxX); }
  for (auto &o : obs) { bp.insert(o.minX); bp.insert(o.maxX); }
  for (long long x : bp) {
    if (x < row.minX || x >= row.maxX) continue;
    int cover = 0; for (auto &s : segs) if (s.minX <= x && x < s.maxX) ++cover;
    if (cover > 1) return "BAD segments overlap";
    bool free = row.minY < row.maxY;
    for (auto &o : obs) if (o.minX < o.maxX && o.minY < o.maxY && o.minX <= x && x < o.maxX && o.minY < row.maxY && row.minY < o.maxY) free = false;
    if (free && !cover) return "BAD free column not covered";
    if (!free && cover) return "BAD segment intersects an obstruction";
  }
  return "OK";
}

int main(int argc, char **argv) {
  std::string mode = argc > 1 ? argv[1] : "run";
  if (mode == "gen" && std::string(argv[2]) == "grid") {
    int W = atoi(argv[3]), H = atoi(argv[4]), K = atoi(argv[5]);
    for (int w = 0; w <= W; ++w) for (int h = 1; h <= H; ++h) {
      std::vector<std::string> rects;
      for (int a = -1; a <= w + 1; ++a) for (int b = a; b <= w + 1; ++b) for (int c = -1; c <= h + 1; ++c) for (int d = c; d <= h + 1; ++d) {
        char buf[64]; snprintf(buf, 64, " %d %d %d %d", a, b, c, d); rects.push_back(buf);
      }
      size_t R = rects.size();
      for (int k = 0; k <= K; ++k) {
        std::vector<size_t> idx(k, 0);
        while (true) {
          // unordered selections would do by theorem c15_obstacle_order_irrelevant, but the code is what is tested: all orders
          printf("FS 0 %d 0 %d %d %d", w, h, (w + h + k) % 8, k);
          for (int i = 0; i < k; ++i) printf("%s", rects[idx[i]].c_str());
          printf("\n");
          int p = k - 1; while (p >= 0 && ++idx[p] == R) { idx[p] = 0; --p; }
          if (p < 0) break;
        }
      }
    }
    return 0;
  }
  if (mode == "gen" && std::string(argv[2]) == "rand") {
    SplitMix g(strtoull(argv[3], nullptr, 10)); long long count = atoll(argv[4]);
    for (long long it = 0; it < count; ++it) {
      long long sc = g.coin(80) ? 1 : (1LL << g.uni(3, 18));
      if (g.coin(60)) {
        long long x0 = g.uni(-3, 3) * sc, w = g.uni(0, 12) * sc, y0 = g.uni(-3, 3) * sc, h = g.uni(g.coin(5) ? 0 : 1, 3) * sc;
        int k = (int)g.uni(0, 6);
        printf("FS %lld %lld %lld %lld %d %d", x0, x0 + w, y0, y0 + h, (int)g.uni(0, 7), k);
        for (int i = 0; i < k; ++i) {
          long long a = g.uni(-5, 16) * sc + (g.coin(20) ? g.uni(-1, 1) : 0), b = g.uni(-5, 16) * sc, c = g.uni(-5, 8) * sc, d = g.uni(-5, 8) * sc + (g.coin(20) ? g.uni(-1, 1) : 0);
          if (a > b) std::swap(a, b); if (c > d) std::swap(c, d);
          if (g.coin(10)) { a = x0 - g.uni(0, 2) * sc; b = x0 + w + g.uni(0, 2) * sc; }   // enclosing in x
          printf(" %lld %lld %lld %lld", a, b, c, d);
        }
        printf("\n");
      } else {
        int nr = (int)g.uni(1, 4); long long rh = g.uni(1, 3) * sc, x0 = g.uni(-4, 4) * sc, y0 = g.uni(-4, 4) * sc;
        printf("CR %d", nr);
        for (int r = 0; r < nr; ++r) { long long a = x0 + g.uni(0, 3) * sc, b = a + g.uni(0, 12) * sc; printf(" %lld %lld %lld %lld %d", a, b, y0 + r * rh, y0 + (r + 1) * rh, (int)g.uni(0, 7)); }
        int ne = (int)g.uni(0, 2); printf(" %d", ne);
        for (int i = 0; i < ne; ++i) { long long a = x0 + g.uni(-3, 14) * sc, b = a + g.uni(0, 5) * sc, c = y0 + g.uni(-2, 6) * sc, d = c + g.uni(0, 4) * sc; printf(" %lld %lld %lld %lld", a, b, c, d); }
        int nc = (int)g.uni(0, 6); printf(" %d", nc);
        for (int i = 0; i < nc; ++i) {
          printf(" %lld %lld %lld %lld %d %d %d", x0 + g.uni(-3, 14) * sc, y0 + g.uni(-2, 6) * sc, g.uni(0, 5) * sc, g.uni(0, 4) * sc, (int)g.uni(0, 7), (int)g.coin(60), (int)g.coin(60));
        }
        printf("\n");
      }
    }
    return 0;
  }
  if (mode == "gen" && std::string(argv[2]) == "seam") {
    // Circuit::computeRows on rows given in PIECES of one y: 1-3 bands, each cut into 1-3 pieces that abut exactly (75 %: one ends at X, the next
    // starts at X), leave a gap (1 or one site) or overlap by one site (5 %); the pieces of a band have orientations of their own (different in
    // 70 %); order in rows(): left to right, right to left, or all rows shuffled.  Every seam X gets one of: nothing on it, a MOVABLE cell over it, a
    // FIXED cell that is no obstruction over it, a fixed OBSTRUCTION over it / ending exactly at X / starting exactly at X / an extra obstacle
    // over it; plus 0-3 random cells and 0-1 random extra obstacles.  Every returned segment must belong to ONE row (inside it, its orientation).
    SplitMix g(strtoull(argv[3], nullptr, 10) ^ 0x5ea3u); long long count = atoll(argv[4]);
    for (long long it = 0; it < count; ++it) {
      long long sc = g.coin(80) ? 1 : (1LL << g.uni(3, 18));
      int nb = (int)g.uni(1, 3); long long rh = g.uni(1, 3) * sc, x0 = g.uni(-4, 4) * sc, y0 = g.uni(-4, 4) * sc;
      std::vector<std::array<long long, 5>> rows; std::vector<std::array<long long, 7>> cells; std::vector<std::array<long long, 4>> extra;
      int order = (int)g.uni(0, 2);
      for (int b = 0; b < nb; ++b) {
        long long ya = y0 + b * rh + (b > 0 && g.coin(10) ? rh : 0), yb = ya + rh; int np = (int)g.uni(g.coin(85) ? 2 : 1, 3);
        std::vector<std::array<long long, 5>> band; long long x = x0 + g.uni(0, 3) * sc; int prevo = -1;
        for (int k = 0; k < np; ++k) {
          long long w = g.uni(1, 6) * sc; int o = (int)g.uni(0, 7); if (prevo >= 0 && g.coin(70)) while (o == prevo) o = (int)g.uni(0, 7);
          band.push_back({x, x + w, ya, yb, o}); prevo = o; x += w;
          if (k + 1 < np) {
            long long X = x; int join = (int)g.uni(0, 19);
            if (join >= 15 && join < 19) x += g.coin(50) ? 1 : sc; else if (join == 19) x -= sc;
            int what = (int)g.uni(0, 7); long long cw = g.uni(2, 4) * sc, off = g.uni(1, cw / sc - 1) * sc, ch = g.coin(80) ? rh : g.uni(1, 2) * rh; static const int up[4] = {0, 1, 4, 5}; int co = g.coin(80) ? up[g.uni(0, 3)] : (int)g.uni(0, 7);
            bool turn = co == 2 || co == 3 || co == 6 || co == 7; long long dw = turn ? ch : cw, dh = turn ? cw : ch;   // declared size so that the PLACED outline is cw x ch
            long long cy = ya - (ch > rh && g.coin(50) ? rh : 0);
            switch (what) {
              case 0: break;
              case 1: cells.push_back({X - off, cy, dw, dh, co, 0, (long long)g.coin(50)}); break;                  // movable cell over the seam (obstruction flag irrelevant)
              case 2: cells.push_back({X - off, cy, dw, dh, co, 1, 0}); break;                                       // fixed, not an obstruction
              case 3: cells.push_back({X - off, cy, dw, dh, co, 1, 1}); break;                                       // fixed obstruction over the seam
              case 4: cells.push_back({X - cw, cy, dw, dh, co, 1, 1}); break;                                        // fixed obstruction ending exactly at X
              case 5: cells.push_back({X, cy, dw, dh, co, 1, 1}); break;                                             // fixed obstruction starting exactly at X
              case 6: extra.push_back({X - off, X - off + cw, ya + (g.coin(30) ? g.uni(0, rh - 1) : 0), yb}); break;   // extra obstacle over the seam
              default: break;
            }
          }
        }
        if (order == 1) std::reverse(band.begin(), band.end());
        rows.insert(rows.end(), band.begin(), band.end());
      }
      if (order == 2) for (size_t i = rows.size(); i > 1; --i) std::swap(rows[i - 1], rows[g.uni(0, i - 1)]);
      int nx = (int)g.uni(0, 3);
      for (int i = 0; i < nx; ++i) cells.push_back({x0 + g.uni(-3, 16) * sc, y0 + g.uni(-2, 6) * sc, g.uni(0, 5) * sc, g.uni(0, 4) * sc, g.uni(0, 7), (long long)g.coin(60), (long long)g.coin(60)});
      if (g.coin(30)) { long long a = x0 + g.uni(-3, 14) * sc, c = y0 + g.uni(-2, 6) * sc; extra.push_back({a, a + g.uni(0, 5) * sc, c, c + g.uni(0, 4) * sc}); }
      for (size_t i = cells.size(); i > 1; --i) std::swap(cells[i - 1], cells[g.uni(0, i - 1)]);
      printf("CR %d", (int)rows.size()); for (auto &r : rows) printf(" %lld %lld %lld %lld %d", r[0], r[1], r[2], r[3], (int)r[4]);
      printf(" %d", (int)extra.size()); for (auto &e : extra) printf(" %lld %lld %lld %lld", e[0], e[1], e[2], e[3]);
      printf(" %d", (int)cells.size()); for (auto &c : cells) printf(" %lld %lld %lld %lld %d %d %d", c[0], c[1], c[2], c[3], (int)c[4], (int)c[5], (int)c[6]);
      printf("\n");
    }
    return 0;
  }
  vh_install();
  std::string line;
  while (std::getline(std::cin, line)) {
    if (line.size() < 3) { printf("\n"); continue; }
    auto v = vh_ints(line.substr(3)); size_t p = 0;
    auto nx = [&]() -> long long { return p < v.size() ? v[p++] : 0; };
    if (sigsetjmp(vh_jmp, 1)) { printf("%s\n", vh_signame()); fflush(stdout); continue; }
    try {
      if (line[0] == 'F') {
        int a = nx(), b = nx(), c = nx(), d = nx(); auto o = (CellOrientation)nx();
        Row row(a, b, c, d, o); int k = nx(); std::vector<Rectangle> obs;
        for (int i = 0; i < k; ++i) { int a2 = nx(), b2 = nx(), c2 = nx(), d2 = nx(); obs.emplace_back(a2, b2, c2, d2); }
        auto fs = row.freespace(obs);
        printf("%s # %s\n", show(fs).c_str(), verdict(row, obs, fs).c_str());
      } else {
        int nr = nx(); std::vector<Row> rows;
        for (int i = 0; i < nr; ++i) { int a = nx(), b = nx(), c = nx(), d = nx(); auto o = (CellOrientation)nx(); rows.emplace_back(a, b, c, d, o); }
        int ne = nx(); std::vector<Rectangle> extra;
        for (int i = 0; i < ne; ++i) { int a = nx(), b = nx(), c = nx(), d = nx(); extra.emplace_back(a, b, c, d); }
        int nc = nx(); Circuit circ(nc);
        std::vector<int> x(nc), y(nc), w(nc), h(nc); std::vector<CellOrientation> ori(nc); std::vector<bool> fx(nc), ob(nc);
        for (int i = 0; i < nc; ++i) { x[i] = nx(); y[i] = nx(); w[i] = nx(); h[i] = nx(); ori[i] = (CellOrientation)nx(); fx[i] = nx(); ob[i] = nx(); }
        circ.setCellX(x); circ.setCellY(y); circ.setCellWidth(w); circ.setCellHeight(h); circ.setCellOrientation(ori);
        circ.setCellIsFixed(fx); circ.setCellIsObstruction(ob); circ.setRows(rows);
        auto fs = circ.computeRows(extra);
        // verdict per row: the segments with this row's geometry... rows may share y; check the union row by row
        std::vector<Rectangle> obs = extra;
        for (int i = 0; i < nc; ++i) if (fx[i] && ob[i]) obs.push_back(circ.placement(i));
        std::string verd = "OK"; size_t pos = 0;
        // computeRows returns the rows' segments in row order; re-run the statement row by row on the slices
        for (auto &row : rows) {
          std::vector<Row> mine;
          while (pos < fs.size() && fs[pos].minY == row.minY && fs[pos].maxY == row.maxY && fs[pos].minX >= row.minX && fs[pos].maxX <= row.maxX &&
                 (mine.empty() || fs[pos].minX >= mine.back().maxX)) { mine.push_back(fs[pos]); ++pos; }
          std::string vr = verdict(row, obs, mine); if (vr != "OK" && verd == "OK") verd = vr;
        }
        if (pos != fs.size() && verd == "OK") verd = "BAD segments not attributable to rows in order";
        printf("%s # %s\n", show(fs).c_str(), verd.c_str());
      }
    } catch (std::exception &ex) { printf("THROW %s\n", ex.what()); }
  }
  return 0;
}
