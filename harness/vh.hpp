// shared helpers of the /verif harnesses
#pragma once
#include <csetjmp>
#include <csignal>
#include <cstdint>
#include <cstdio>
#include <cstdlib>
#include <cstring>
#include <iostream>
#include <sstream>
#include <string>
#include <vector>

struct SplitMix {
  uint64_t s;
  // the state is a HASH of the seed: with s = seed * golden + c, seed+1 would replay seed's stream shifted by one draw
  explicit SplitMix(uint64_t seed) : s(seed * 0x9E3779B97F4A7C15ULL + 0x1234567ULL) { uint64_t h = next(); s = h ^ (seed * 0xD6E8FEB86659FD93ULL); }
  uint64_t next() {
    uint64_t z = (s += 0x9E3779B97F4A7C15ULL);
    z = (z ^ (z >> 30)) * 0xBF58476D1CE4E5B9ULL;
    z = (z ^ (z >> 27)) * 0x94D049BB133111EBULL;
    return z ^ (z >> 31);
  }
  long long uni(long long a, long long b) { return a + (long long)(next() % (uint64_t)(b - a + 1)); }
  bool coin(int pct) { return (int)(next() % 100) < pct; }
};

// recover from abort()/SIGSEGV/SIGFPE inside one case: the harness prints a marker line and goes on
static sigjmp_buf vh_jmp;
static volatile sig_atomic_t vh_sig = 0;
static void vh_handler(int sig) { vh_sig = sig; siglongjmp(vh_jmp, 1); }
static inline void vh_install() {
  struct sigaction sa; memset(&sa, 0, sizeof sa); sa.sa_handler = vh_handler; sa.sa_flags = SA_NODEFER;
  sigaction(SIGABRT, &sa, nullptr); sigaction(SIGSEGV, &sa, nullptr); sigaction(SIGFPE, &sa, nullptr);
  sigaction(SIGBUS, &sa, nullptr);
}
static inline const char *vh_signame() {
  switch (vh_sig) { case SIGABRT: return "ABORT"; case SIGSEGV: return "SEGV"; case SIGFPE: return "FPE"; default: return "SIGNAL"; }
}
static inline void vh_silence() { std::cout.setstate(std::ios_base::failbit); }

static inline std::vector<long long> vh_ints(const std::string &line) {
  std::vector<long long> v; const char *p = line.c_str(); char *e;
  while (true) { while (*p == ' ') ++p; if (!*p) break; long long x = strtoll(p, &e, 10); if (e == p) break; v.push_back(x); p = e; }
  return v;
}
