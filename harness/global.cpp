// C06 harness: Circuit::placeGlobal (with a recording callback), GlobalPlacer internals, DensityGrid::fromIspdCircuit
// and HierarchicalDensityPlacement::spreadCoordX/Y from /repo's working tree
//   global gen gp SEED COUNT LEVEL      LEVEL 0 = quick (small circuits, efforts 1-3), 1 = thorough (larger, efforts 1-9)
//   global gen gpn SEED COUNT LEVEL     circuits whose rows are all covered by fixed obstructions (no free capacity: finding F28)
//   global gen gpf SEED COUNT LEVEL     circuits without any fixed cell translated to offsets 2^16 .. 2^22 (finding F30)
//   global gen gpq SEED COUNT LEVEL     "GQ" lines: the callback of placeGlobal RESIZES movable cells in mid-run (setCellWidth / setCellHeight, never to
//                                       or from a zero area); 80 % with a fixed cell of non-zero area
//   global gen gpc SEED COUNT           circuits with EXACT coincidences (floating groups with centred pins, nets whose pins all
//                                       coincide, stacked twin cells, no fixed pin at all), all four net models
//   global gen spread SEED COUNT        dyadic spreading cases (every float operation of spreadCells is exact)
//   global gen grid SEED COUNT          margin clipping + bin limits only (no placement run)
//   global gen spreadf SEED COUNT       NON-dyadic spreading cases ("SF", same payload as "SP"): the results are printed as
//                                       raw IEEE-754 bit patterns and compared bit for bit with the Flocq model (coq/SpreadFloat.v)
//   global run < cases
// case lines
//   "GP <rows> <cells> <nets> effort seed netModel costModel tolExp approx10 cutoff10 line lineOv diag diagOv sq sqOv uni1d nbSteps binSize10 blend100 maxSteps
//       [rlTargetBlend100 rlQuadPenalty1000 rlCoarsening10]"   (the last three are optional: library defaults 0 1 1000)
//   "GQ nact (cb kind seed)*nact <the payload of a GP line>"    cb = callback number (0-based) at which the action fires; kind 1 widths, 2 heights,
//       3 both, 4 the current widths set again.  Result line = the GP result line with two more numbers in the second section (actions fired,
//       UpperBound exposures after the first one) and two more "/" parts in the fifth (placed sizes at the last exposed lower / upper bound)
//   "GR <rows> <cells> binSize10 sideMargin100"
//   "SP ncells nlx lx.. nly ly.. refX refY nbins (k cells..)*nbins demands*ncells tx4*ncells ty4*ncells"   (targets are t/4)
// result lines: sections separated by " | ", see the printf calls; floats are printed exactly as "m e" (value m*2^e).
#include <algorithm>
#include <array>
#include <cmath>
#include <cstdint>
#include <cstring>
#include <functional>
#include <future>
#include <optional>
#include <random>
#include <stdexcept>
#include "vh.hpp"
#define private public
#define protected public
#include "coloquinte.hpp"
#include "place_global/density_grid.hpp"
#include "place_global/density_legalizer.hpp"
#include "place_global/net_model.hpp"
#include "place_global/place_global.hpp"
#undef private
#undef protected
#include <climits>
#include "cgen.hpp"

static std::string fme(float f) {   // exact: value = m * 2^e (m odd or 0)
  if (!std::isfinite(f)) return "nan 0";
  if (f == 0.0f) return "0 0";
  int e; float fr = std::frexp(f, &e); long long m = (long long)std::ldexp(fr, 24); e -= 24;
  while (m % 2 == 0) { m /= 2; ++e; }
  char b[64]; snprintf(b, 64, "%lld %d", m, e); return b;
}

// ------------------------------------------------------------------ generators
static TCircuit genGlobalCircuit(SplitMix &g, int level) {
  TCircuit t;
  long long rh = g.coin(8) ? 1 : g.uni(2, 12); if (g.coin(10)) rh *= 8;
  int nrows = (int)g.uni(1, level ? 16 : 8);
  long long x0 = g.coin(50) ? g.uni(20, 400) : g.uni(-300, 50), y0 = g.coin(50) ? g.uni(20, 400) : g.uni(-300, 50);
  long long W = rh * g.uni(4, level ? 40 : 24) + g.uni(0, rh - 1);
  long long y = y0;
  for (int i = 0; i < nrows; ++i) {
    int ro = (i % 2 == 0) ? 0 : 5;
    long long xs = x0 + (g.coin(15) ? g.uni(-2, 2) * rh : 0);
    if (g.coin(20) && W >= 9 * rh) {   // split row: both segments at least four row heights wide
      long long m = g.uni(4 * rh, W - 4 * rh - 1 >= 4 * rh ? W - 4 * rh - 1 : 4 * rh), gap = g.uni(0, 2 * rh);
      t.rows.push_back({xs, xs + m, y, y + rh, ro});
      if (xs + m + gap + 4 * rh <= xs + W) t.rows.push_back({xs + m + gap, xs + W, y, y + rh, ro});
    } else t.rows.push_back({xs, xs + W, y, y + rh, ro});
    y += rh; if (g.coin(10)) y += rh * g.uni(1, 2);
  }
  for (size_t i = t.rows.size(); i > 1; --i) std::swap(t.rows[i - 1], t.rows[g.uni(0, i - 1)]);
  long long rowArea = 0; for (auto &r : t.rows) rowArea += (r[1] - r[0]) * rh;
  int n = (int)g.uni(1, level ? 120 : 36);
  int util = (int)g.uni(5, 120);
  long long budget = rowArea * util / 100, used = 0;
  bool zeroArea = g.coin(12);
  int nfixed = g.coin(50) ? 0 : (int)g.uni(1, 5);
  for (int i = 0; i < n; ++i) {
    std::array<long long, 8> c{};
    int k = g.coin(12) ? (int)g.uni(2, 3) : 1;
    long long ww = g.uni(1, 3 * rh);
    if (used + ww * k * rh > budget && i > 0) { ww = 1; k = 1; }
    used += ww * k * rh;
    long long hh = k * rh;
    if (zeroArea && i > 0 && g.coin(15)) { int z = (int)g.uni(0, 2); if (z == 0) ww = 0; else if (z == 1) hh = 0; else ww = hh = 0; }
    int ori = g.coin(70) ? 0 : (int)g.uni(0, 7);
    bool turn = ori == 2 || ori == 3 || ori == 6 || ori == 7;
    if (turn) { c[2] = hh; c[3] = ww; } else { c[2] = ww; c[3] = hh; }
    c[4] = ori; c[5] = 0; c[6] = 0; c[7] = g.coin(50);
    if (g.coin(10)) { c[0] = g.uni(-100000, 100000); c[1] = g.uni(-100000, 100000); }
    else { c[0] = x0 + g.uni(-3 * rh, W + 3 * rh); c[1] = y0 + g.uni(-3 * rh, (y - y0) + 3 * rh); }
    t.cells.push_back(c);
  }
  for (int i = 0; i < nfixed; ++i) {
    std::array<long long, 8> c{};
    c[6] = 1; c[7] = g.coin(60);
    c[2] = g.coin(20) ? 0 : g.uni(1, 6 * rh); c[3] = g.coin(20) ? 0 : (g.coin(15) ? g.uni(1, rh) : rh * g.uni(1, 3)); c[4] = g.uni(0, 7); c[5] = 0;
    if (g.coin(15)) { c[0] = g.uni(-100000, 100000); c[1] = g.uni(-100000, 100000); }
    else { c[0] = x0 + g.uni(-6 * rh, W + 3 * rh); c[1] = y0 + g.uni(-3 * rh, (y - y0) + 3 * rh); }
    t.cells.push_back(c);
  }
  // a fixed cell may come first so that cell indices are mixed
  if (nfixed && g.coin(50)) std::swap(t.cells.front(), t.cells.back());
  // make sure one movable cell of positive area exists (the swap above may have moved cell 0)
  bool okc = false; for (auto &c : t.cells) if (!c[6] && c[2] > 0 && c[3] > 0) okc = true;
  if (!okc) { for (auto &c : t.cells) if (!c[6]) { c[2] = 1; c[3] = rh; c[4] = 0; break; } }
  int N = (int)t.cells.size();
  // a fixed terminal very far away (|x| = 5e8, not an obstruction): its pins must be clamped to the placement area
  int farCell = -1;
  if (g.coin(6)) for (int i = 0; i < N; ++i) if (t.cells[i][6]) { farCell = i; t.cells[i][0] = g.coin(50) ? 500000000LL : -500000000LL; t.cells[i][1] = g.coin(50) ? 500000000LL : -500000000LL; t.cells[i][2] = g.uni(0, 3); t.cells[i][3] = g.uni(0, 3); t.cells[i][7] = 0; break; }
  int nn = g.coin(8) ? 0 : (int)g.uni(1, 2 * N);
  for (int k = 0; k < nn; ++k) {
    int d = g.coin(5) ? (int)g.uni(7, 20) : (int)g.uni(1, 6); std::vector<std::array<long long, 3>> net;
    for (int j = 0; j < d; ++j) { int cc = (int)g.uni(0, N - 1); net.push_back({cc, g.uni(-1, t.cells[cc][2] + 1), g.uni(-1, t.cells[cc][3] + 1)}); }
    t.nets.push_back(net); t.netw2.push_back(g.coin(70) ? 2 : (int)g.uni(1, 6));
  }
  if (farCell >= 0) for (int i = 0; i < N; ++i) if (!t.cells[i][6]) { t.nets.push_back({{farCell, 0, 0}, {i, 0, 0}}); t.netw2.push_back(2); break; }
  return t;
}

// the parameters of a GP case (everything RoughLegalizationParameters::check / GlobalPlacerParameters::check accepts)
static std::string drawParams(SplitMix &g, int level, int forceNetModel = -1) {
  int effort = level ? (int)g.uni(1, 9) : (int)g.uni(1, 3);
  int seed = (int)g.uni(0, 1000);
  int netModel = (int)g.uni(0, 3), costModel = (int)g.uni(0, 5);
  if (forceNetModel >= 0) netModel = forceNetModel;
  int tolExp = g.coin(60) ? 6 : (int)g.uni(1, 6);                      // 1e-tolExp >= 1e-6
  int approx10 = g.coin(50) ? 20 : (int)g.uni(1, 100);                 // >= 0.1
  int cutoff10 = g.coin(50) ? 400 : (int)g.uni(1, 1000);               // >= 0.1
  int line = g.coin(40) ? 2 : (int)g.uni(1, 8), diag = g.coin(40) ? 2 : (int)g.uni(1, 8), sq = g.coin(40) ? (int)g.uni(1, 3) : (int)g.uni(1, 5);
  int uni1d = g.coin(60);
  if (line < 2 && diag < 2 && sq < 2 && !(uni1d && costModel == 0)) line = 2;   // accepted by RoughLegalizationParameters::check
  int lineOv = line > 1 ? (int)g.uni(1, line - 1) : (int)g.uni(1, 3), diagOv = diag > 1 ? (int)g.uni(1, diag - 1) : (int)g.uni(1, 3),
      sqOv = sq > 1 ? (int)g.uni(1, sq - 1) : (int)g.uni(1, 3);
  int nbSteps = g.coin(70) ? 1 : (int)g.uni(0, 3);
  int binSize10 = g.coin(50) ? 50 : (int)g.uni(10, 250);
  int blend100 = g.coin(30) ? 99 : (g.coin(20) ? (g.coin(50) ? 0 : 100) : (int)g.uni(-50, 150));
  int maxSteps = level ? 400 : (g.coin(50) ? 400 : (int)g.uni(1, 40));
  // rough-legalization knobs: target blending -0.1..0.9 (default 0), quadratic penalty 0..1 (default 0.001), coarsening limit
  // (not range-checked; default 100).  penalty.targetBlending is NOT varied: it is not a rough-legalization knob and not in the
  // property's quantifier (0.13 together with a rough target blending of -0.1 keeps the bounds apart for all 400 steps until the
  // growing penalty overflows binary32: observed at design time of this stream, see design/C06.md)
  int rlBlend100 = g.coin(35) ? 0 : (g.coin(25) ? (g.coin(50) ? -10 : 89) : (int)g.uni(-10, 89));   // 0.9 > 0.9f is rejected
  int rlQuad1000 = g.coin(50) ? 1 : (g.coin(20) ? (g.coin(50) ? 0 : 1000) : (int)g.uni(0, 1000));
  int rlCoarse10 = g.coin(60) ? 1000 : (int)g.uni(5, 5000);
  char b[512];
  snprintf(b, 512, "%d %d %d %d %d %d %d %d %d %d %d %d %d %d %d %d %d %d %d %d %d", effort, seed, netModel, costModel, tolExp, approx10, cutoff10,
           line, lineOv, diag, diagOv, sq, sqOv, uni1d, nbSteps, binSize10, blend100, maxSteps, rlBlend100, rlQuad1000, rlCoarse10);
  return b;
}

static void genGP(SplitMix &g, long long count, int level) {
  for (long long it = 0; it < count; ++it) {
    TCircuit t = genGlobalCircuit(g, level);
    printf("GP %s %s %s\n", showRowsCells(t).c_str(), showNets(t).c_str(), drawParams(g, level).c_str());
  }
}

// circuits WITHOUT free capacity (finding F28): every row is covered by fixed obstructions -- one macro over everything, or one
// obstruction per row that leaves at most a sliver of one unit at an end (removed by the side margin). The placement area of the
// density grid then has no region left; the cells must stay inside the rows' bounding box all the same.
static void genGPN(SplitMix &g, long long count, int level) {
  for (long long it = 0; it < count; ++it) {
    TCircuit t = genGlobalCircuit(g, level);
    long long minX = LLONG_MAX, maxX = LLONG_MIN, minY = LLONG_MAX, maxY = LLONG_MIN;
    for (auto &r : t.rows) { minX = std::min(minX, r[0]); maxX = std::max(maxX, r[1]); minY = std::min(minY, r[2]); maxY = std::max(maxY, r[3]); }
    int kind = (int)g.uni(0, 2);
    if (kind == 0) {
      std::array<long long, 8> c{}; long long ex = g.uni(0, 3);
      c[0] = minX - ex; c[1] = minY - ex; c[2] = maxX - minX + 2 * ex; c[3] = maxY - minY + 2 * ex; c[4] = 0; c[6] = 1; c[7] = 1;
      t.cells.push_back(c);
    } else {
      for (auto &r : t.rows) {
        std::array<long long, 8> c{}; long long l = kind == 2 ? g.uni(0, 1) : 0, rr = kind == 2 ? g.uni(0, 1) : 0;
        c[0] = r[0] + l; c[1] = r[2]; c[2] = r[1] - r[0] - l - rr; c[3] = r[3] - r[2]; c[4] = 0; c[6] = 1; c[7] = 1;
        t.cells.push_back(c);
      }
    }
    printf("GP %s %s %s\n", showRowsCells(t).c_str(), showNets(t).c_str(), drawParams(g, level).c_str());
  }
}

// circuits WITHOUT any fixed cell, placed far from the origin (finding F30): the first lower bound of such a circuit is at 0, the penalty
// anchors are strength / distance with distance ~ the offset; rows and cells translated so that every coordinate stays <= 2^22
static void genGPF(SplitMix &g, long long count, int level) {
  static const long long offs[] = {1LL << 16, 1LL << 20, 1LL << 21, 3LL << 20, (1LL << 22)};
  for (long long it = 0; it < count; ++it) {
    TCircuit t = genGlobalCircuit(g, level);
    long long maxX = LLONG_MIN, maxY = LLONG_MIN, minX = LLONG_MAX, minY = LLONG_MAX;
    for (auto &r : t.rows) { minX = std::min(minX, r[0]); maxX = std::max(maxX, r[1]); minY = std::min(minY, r[2]); maxY = std::max(maxY, r[3]); }
    for (auto &c : t.cells) {
      c[6] = 0;                                                   // nothing fixed
      if (std::llabs(c[0]) > 50000 || std::llabs(c[1]) > 50000) { c[0] = minX + g.uni(0, maxX - minX); c[1] = minY + g.uni(0, maxY - minY); }
    }
    long long ox = offs[g.uni(0, 4)], oy = g.coin(50) ? ox : offs[g.uni(0, 4)];
    if (ox == (1LL << 22)) ox = (1LL << 22) - (maxX + 400) - g.uni(0, 40);   // the far end of the supported range
    if (oy == (1LL << 22)) oy = (1LL << 22) - (maxY + 400) - g.uni(0, 40);
    for (auto &r : t.rows) { r[0] += ox; r[1] += ox; r[2] += oy; r[3] += oy; }
    for (auto &c : t.cells) { c[0] += ox; c[1] += oy; }
    printf("GP %s %s %s\n", showRowsCells(t).c_str(), showNets(t).c_str(), drawParams(g, level).c_str());
  }
}

// circuits whose placement CALLBACK resizes movable cells in the middle of the run ("GQ" lines: 1-3 actions, see CbAct), 80 % of them
// with at least one FIXED cell of non-zero area (macro / obstruction or plain fixed cell, inside or next to the rows): the supported way
// of routability- or timing-driven inflation (setCellWidth / setCellHeight are not refused during a placement call).  The first action
// sits at one of the first three callbacks in 60 % of the cases (callback 0 = the first lower bound always exists, and an upper bound
// always follows it), so that the update path GlobalPlacer::updateCellSizes -> updateCellDemand is taken by almost every run
static void genGPQ(SplitMix &g, long long count, int level) {
  for (long long it = 0; it < count; ++it) {
    TCircuit t = genGlobalCircuit(g, level);
    long long rh = t.rows[0][3] - t.rows[0][2], minX = LLONG_MAX, maxX = LLONG_MIN, minY = LLONG_MAX, maxY = LLONG_MIN;
    for (auto &r : t.rows) { minX = std::min(minX, r[0]); maxX = std::max(maxX, r[1]); minY = std::min(minY, r[2]); maxY = std::max(maxY, r[3]); }
    bool fixedArea = false; for (auto &c : t.cells) if (c[6] && c[2] > 0 && c[3] > 0) fixedArea = true;
    if (!fixedArea && g.coin(80)) {
      int nf = (int)g.uni(1, 3);
      for (int i = 0; i < nf; ++i) {
        std::array<long long, 8> c{};
        c[2] = g.uni(1, 4 * rh); c[3] = g.coin(25) ? g.uni(1, rh) : rh * g.uni(1, 2); c[4] = g.coin(70) ? 0 : g.uni(0, 7); c[5] = 0; c[6] = 1; c[7] = g.coin(60);
        c[0] = minX + g.uni(-2 * rh, (maxX - minX) + rh); c[1] = g.coin(70) ? minY + rh * g.uni(0, (maxY - minY) / rh) : minY + g.uni(-rh, (maxY - minY) + rh);
        t.cells.push_back(c);
        if (g.coin(50)) {   // a net from the new fixed cell to some movable cell
          for (size_t k = 0; k < t.cells.size(); ++k) if (!t.cells[k][6]) { t.nets.push_back({{(long long)t.cells.size() - 1, g.uni(0, c[2]), g.uni(0, c[3])}, {(long long)k, 0, 0}}); t.netw2.push_back(2); break; }
        }
      }
    }
    static const int kinds[] = {1, 1, 2, 3, 3, 4};
    int na = (int)g.uni(1, 3); std::ostringstream a; a << na;
    for (int i = 0; i < na; ++i) {
      int cb = (i == 0 && g.coin(60)) ? (int)g.uni(0, 2) : (int)g.uni(0, i == 0 ? 12 : 30);
      a << " " << cb << " " << kinds[g.uni(0, 5)] << " " << g.uni(1, 1000000);
    }
    printf("GQ %s %s %s %s\n", a.str().c_str(), showRowsCells(t).c_str(), showNets(t).c_str(), drawParams(g, level).c_str());
  }
}

// circuits with EXACT coincidences: the solver's linearisations divide by pin distances, so that nets whose pins all sit at
// bit-for-bit the same position, cells connected only to each other (left at exactly 0.0 by the initial star solve: zero
// right-hand side, zero initial guess) and stacked twin cells exercise the epsilon floors of every net model.
// All sizes are even and the pins of the special structures sit at the cell centres (offset - size/2 == 0 exactly).
static void genGPC(SplitMix &g, long long count) {
  for (long long it = 0; it < count; ++it) {
    TCircuit t;
    long long rh = 2 * g.uni(1, 6);
    int nrows = (int)g.uni(2, 8);
    long long x0 = g.uni(-200, 300), y0 = g.uni(-200, 300), W = rh * g.uni(6, 24);
    for (int i = 0; i < nrows; ++i) t.rows.push_back({x0, x0 + W, y0 + i * rh, y0 + (i + 1) * rh, (i % 2 == 0) ? 0 : 5});
    long long budget = W * rh * nrows * g.uni(30, 90) / 100, used = 0;
    int kind = (int)((it / 4) % 5);   // 0 floating groups, 1 no fixed pin at all, 2 stacked twins, 3 all pins of a net on one spot, 4 mixture
    bool stackAll = g.coin(30);       // every movable cell starts at one and the same position
    long long sx = x0 + g.uni(0, W), sy = y0 + g.uni(0, nrows * rh);
    auto addCell = [&](long long w, long long h, int ori, bool fixed) {
      std::array<long long, 8> c{};
      if (!fixed && used + w * h > budget && !t.cells.empty()) w = 2;
      if (!fixed) used += w * h;
      bool turn = ori == 2 || ori == 3 || ori == 6 || ori == 7;
      c[2] = turn ? h : w; c[3] = turn ? w : h; c[4] = ori; c[5] = 0; c[6] = fixed; c[7] = fixed ? g.coin(50) : 0;
      if (!fixed && stackAll) { c[0] = sx; c[1] = sy; }
      else { c[0] = x0 + g.uni(-rh, W + rh); c[1] = y0 + g.uni(-rh, nrows * rh + rh); }
      t.cells.push_back(c); return (int)t.cells.size() - 1; };
    auto centre = [&](int c) { return std::array<long long, 3>{c, t.cells[c][2] / 2, t.cells[c][3] / 2}; };   // centre in the cell's own frame: maps to the placed centre under all 8 orientations
    auto addNet = [&](std::vector<std::array<long long, 3>> net) { t.nets.push_back(net); t.netw2.push_back(g.coin(75) ? 2 : (int)g.uni(1, 6)); };
    // fixed pads and ordinary cells
    std::vector<int> pads, bg;
    if (kind != 1) { int np = (int)g.uni(1, 4); for (int i = 0; i < np; ++i) pads.push_back(addCell(g.coin(50) ? 0 : 2 * g.uni(1, rh), g.coin(50) ? 0 : rh, 0, true)); }
    int nbg = kind == 1 ? (g.coin(50) ? 0 : (int)g.uni(1, 8)) : (int)g.uni(0, 14);
    for (int i = 0; i < nbg; ++i) bg.push_back(addCell(2 * g.uni(1, rh), rh * (g.coin(10) ? 2 : 1), g.coin(70) ? 0 : (int)g.uni(0, 7), false));
    if (!bg.empty()) {
      int nn = (int)g.uni(1, 2 * nbg);
      for (int k = 0; k < nn; ++k) {
        int d = (int)g.uni(2, 5); std::vector<std::array<long long, 3>> net;
        for (int j = 0; j < d; ++j) {
          bool pad = !pads.empty() && g.coin(25); int cc = pad ? pads[g.uni(0, pads.size() - 1)] : bg[g.uni(0, bg.size() - 1)];
          if (kind == 1 || g.coin(40)) net.push_back(centre(cc)); else net.push_back({cc, g.uni(0, t.cells[cc][2]), g.uni(0, t.cells[cc][3])});
        }
        addNet(net);
      }
    }
    // floating groups: cells connected only to each other, pins at the centres (or identical cells with identical pin offsets)
    auto floating = [&]() {
      int k = (int)g.uni(3, 7); bool sameOff = g.coin(25); long long w = 2 * g.uni(1, rh), ox = g.uni(0, w), oy = g.uni(0, rh);
      std::vector<int> grp; for (int i = 0; i < k; ++i) grp.push_back(addCell(sameOff ? w : 2 * g.uni(1, rh), rh, sameOff || g.coin(70) ? 0 : (int)g.uni(0, 7), false));
      int m = (int)g.uni(1, 4);
      for (int q = 0; q < m; ++q) {
        int d = (int)g.uni(q == 0 ? 3 : 2, std::min(k, 6)); std::vector<std::array<long long, 3>> net;
        int start = (int)g.uni(0, k - 1);
        for (int j = 0; j < d; ++j) { int cc = grp[(start + j) % k]; if (sameOff) net.push_back({cc, ox, oy}); else net.push_back(centre(cc)); }
        addNet(net);
      }
      return grp; };
    // stacked twins: identical cells tied by identical two-pin nets to one pad pin, plus nets among themselves
    auto twins = [&]() {
      int k = (int)g.uni(2, 5); long long w = 2 * g.uni(1, rh); std::vector<int> grp;
      long long tx = x0 + g.uni(0, W), ty = y0 + g.uni(0, nrows * rh);
      for (int i = 0; i < k; ++i) { int c = addCell(w, rh, 0, false); t.cells[c][0] = tx; t.cells[c][1] = ty; grp.push_back(c); }
      if (!pads.empty()) { int pd = pads[g.uni(0, pads.size() - 1)]; long long pox = g.uni(0, t.cells[pd][2]), poy = g.uni(0, t.cells[pd][3]);
        for (int c : grp) addNet({{pd, pox, poy}, centre(c)}); }
      int m = (int)g.uni(1, 3);
      for (int q = 0; q < m; ++q) { std::vector<std::array<long long, 3>> net; int d = (int)g.uni(2, k + 1); for (int j = 0; j < d; ++j) net.push_back(centre(grp[j % k])); addNet(net); }
      return grp; };
    // all pins of a net on one spot: several pins of ONE cell at the same offset (both axes or x only / y only)
    auto onespot = [&]() {
      std::vector<int> mv; for (size_t i = 0; i < t.cells.size(); ++i) if (!t.cells[i][6]) mv.push_back((int)i);
      if (mv.empty()) mv.push_back(addCell(2 * g.uni(1, rh), rh, 0, false));
      int m = (int)g.uni(1, 3);
      for (int q = 0; q < m; ++q) {
        int cc = mv[g.uni(0, mv.size() - 1)]; int d = (int)g.uni(2, 5); int mode = (int)g.uni(0, 2);
        long long ox = g.uni(0, t.cells[cc][2]), oy = g.uni(0, t.cells[cc][3]); std::vector<std::array<long long, 3>> net;
        for (int j = 0; j < d; ++j) net.push_back({cc, mode == 2 ? g.uni(0, t.cells[cc][2]) : ox, mode == 1 ? g.uni(0, t.cells[cc][3]) : oy});
        addNet(net);
      } };
    if (kind == 0 || kind == 1 || kind == 4) { int ng = (int)g.uni(1, kind == 1 ? 3 : 2); for (int i = 0; i < ng; ++i) floating(); }
    if (kind == 2 || kind == 4 || (kind == 1 && g.coin(30))) { int ng = (int)g.uni(1, 2); for (int i = 0; i < ng; ++i) twins(); }
    if (kind == 3 || kind == 4 || g.coin(15)) onespot();
    if (kind == 3 && g.coin(50)) floating();
    // cell indices mixed: rotate the cell list (nets renamed accordingly)
    int N = (int)t.cells.size(), rot = (int)g.uni(0, N - 1);
    if (rot) { std::rotate(t.cells.begin(), t.cells.begin() + rot, t.cells.end()); for (auto &net : t.nets) for (auto &pn : net) pn[0] = (pn[0] - rot + N) % N; }
    printf("GP %s %s %s\n", showRowsCells(t).c_str(), showNets(t).c_str(), drawParams(g, 0, (int)(it % 4)).c_str());
  }
}

static void genGR(SplitMix &g, long long count) {
  for (long long it = 0; it < count; ++it) {
    TCircuit t = genGlobalCircuit(g, (int)g.uni(0, 1));
    t.nets.clear(); t.netw2.clear();
    if (g.coin(30)) { long long sc = 1LL << g.uni(1, 12); for (auto &r : t.rows) for (int k = 0; k < 4; ++k) r[k] *= sc; for (auto &c : t.cells) for (int k = 0; k < 4; ++k) c[k] = std::max(-1000000000LL, std::min(1000000000LL, c[k] * sc)); }
    int binSize10 = g.coin(40) ? 50 : (int)g.uni(10, 250);
    int sideMargin100 = g.coin(40) ? 90 : (g.coin(20) ? 0 : (int)g.uni(0, 300));
    printf("GR %s %d %d\n", showRowsCells(t).c_str(), binSize10, sideMargin100);
  }
}

// dyadic spreading cases: every bin's total demand is a power of two <= 2^8 and the limits are integers of
// magnitude < 2^12, so that 1/total, the running sums and the convex combination are exact in binary32
static void genSP(SplitMix &g, long long count) {
  for (long long it = 0; it < count; ++it) {
    int nbx = (int)g.uni(1, 5), nby = (int)g.uni(1, 4);
    std::vector<int> lx, ly; int v = (int)g.uni(-2000, 1500); lx.push_back(v); for (int i = 0; i < nbx; ++i) { v += (int)g.uni(g.coin(10) ? 0 : 1, 90); lx.push_back(v); }
    v = (int)g.uni(-2000, 1500); ly.push_back(v); for (int i = 0; i < nby; ++i) { v += (int)g.uni(g.coin(10) ? 0 : 1, 90); ly.push_back(v); }
    std::vector<std::vector<long long>> cap(nbx, std::vector<long long>(nby, 1));
    HierarchicalDensityPlacement hp(DensityGrid(lx, ly, cap), 0);
    int refX = (int)g.uni(0, hp.nbLevelX() - 1), refY = (int)g.uni(0, hp.nbLevelY() - 1);
    for (int i = 0; i < refX; ++i) hp.refineX();
    for (int i = 0; i < refY; ++i) hp.refineY();
    int nb = hp.nbBinsX() * hp.nbBinsY();
    std::vector<std::vector<int>> cells(nb); std::vector<int> demands;
    for (int b = 0; b < nb; ++b) {
      if (g.coin(25)) continue;
      int e = (int)g.uni(0, 8); int total = 1 << e; int k = (int)g.uni(1, 7);
      while (total > 0) { int d = (k <= 1) ? total : (int)g.uni(1, std::max(1, total / 2)); if (total - d < 0) d = total; cells[b].push_back((int)demands.size()); demands.push_back(d); total -= d; --k; }
      if (g.coin(20)) { cells[b].push_back((int)demands.size()); demands.push_back(0); }   // zero-demand cell inside a bin: skipped by spreadCells
    }
    int extra = (int)g.uni(0, 3); for (int i = 0; i < extra; ++i) demands.push_back(g.coin(60) ? 0 : (int)g.uni(1, 9));   // cells in no bin
    if (demands.empty()) demands.push_back(0);
    int n = (int)demands.size();
    // random renaming of the cells, random order inside the bins
    std::vector<int> perm(n); for (int i = 0; i < n; ++i) perm[i] = i; for (int i = n; i > 1; --i) std::swap(perm[i - 1], perm[g.uni(0, i - 1)]);
    std::vector<int> d2(n); for (int i = 0; i < n; ++i) d2[perm[i]] = demands[i];
    for (auto &c : cells) { for (int &x : c) x = perm[x]; for (size_t i = c.size(); i > 1; --i) std::swap(c[i - 1], c[g.uni(0, i - 1)]); }
    printf("SP %d %d", n, (int)lx.size()); for (int x : lx) printf(" %d", x); printf(" %d", (int)ly.size()); for (int x : ly) printf(" %d", x);
    printf(" %d %d %d", refX, refY, nb);
    for (auto &c : cells) { printf(" %d", (int)c.size()); for (int x : c) printf(" %d", x); }
    for (int x : d2) printf(" %d", x);
    bool few = g.coin(40);   // few distinct targets: ties broken by the position in the bin
    for (int i = 0; i < 2 * n; ++i) printf(" %lld", few ? g.uni(-2, 2) * 4 : g.uni(-12000, 12000));
    printf("\n");
  }
}


// non-dyadic spreading cases for the binary32 model (coq/SpreadFloat.v): limits of any magnitude up to 2^22, totals that are
// not powers of two (1/total, the increments, the running sum and the convex combination all round), a few demands above
// 2^24 (the int -> float conversion rounds).  Same payload as "SP", tag "SF".
static void genSF(SplitMix &g, long long count) {
  for (long long it = 0; it < count; ++it) {
    int nbx = (int)g.uni(1, 3), nby = (int)g.uni(1, 2);
    auto mkLimits = [&](int nb) {
      std::vector<int> l; int K = (int)g.uni(0, 22); long long v = (1LL << K) - 1 + g.uni(0, (1LL << K) / 2); if (g.coin(50)) v = -v;
      std::vector<int> w; long long tot = 0; for (int i = 0; i < nb; ++i) { int x = g.coin(15) ? (int)g.uni(1, 100000) : (int)g.uni(1, 90); w.push_back(x); tot += x; }
      if (v + tot > 4194304) v = 4194304 - tot;
      if (v < -4194304) v = -4194304;
      l.push_back((int)v); for (int x : w) { v += x; l.push_back((int)v); }
      return l; };
    std::vector<int> lx = mkLimits(nbx), ly = mkLimits(nby);
    std::vector<std::vector<long long>> cap(nbx, std::vector<long long>(nby, 1));
    HierarchicalDensityPlacement hp(DensityGrid(lx, ly, cap), 0);
    int refX = (int)g.uni(0, hp.nbLevelX() - 1), refY = (int)g.uni(0, hp.nbLevelY() - 1);
    for (int i = 0; i < refX; ++i) hp.refineX();
    for (int i = 0; i < refY; ++i) hp.refineY();
    int nb = hp.nbBinsX() * hp.nbBinsY();
    std::vector<std::vector<int>> cells(nb); std::vector<int> demands;
    for (int b = 0; b < nb; ++b) {
      if (g.coin(20)) continue;
      int k = (int)g.uni(1, 6); int style = (int)g.uni(0, 3);
      for (int i = 0; i < k; ++i) {
        int d = style == 0 ? (int)g.uni(1, 100) : style == 1 ? (int)g.uni(1, 100000) : style == 2 ? (int)(g.coin(70) ? g.uni(1, 50) : g.uni(1000000, 40000000)) : (int)g.uni(1, 3);
        cells[b].push_back((int)demands.size()); demands.push_back(d); }
      if (g.coin(20)) { cells[b].push_back((int)demands.size()); demands.push_back(0); }
    }
    int extra = (int)g.uni(0, 2); for (int i = 0; i < extra; ++i) demands.push_back(g.coin(60) ? 0 : (int)g.uni(1, 9));
    if (demands.empty()) demands.push_back(0);
    int n = (int)demands.size();
    std::vector<int> perm(n); for (int i = 0; i < n; ++i) perm[i] = i; for (int i = n; i > 1; --i) std::swap(perm[i - 1], perm[g.uni(0, i - 1)]);
    std::vector<int> d2(n); for (int i = 0; i < n; ++i) d2[perm[i]] = demands[i];
    for (auto &c : cells) { for (int &x : c) x = perm[x]; for (size_t i = c.size(); i > 1; --i) std::swap(c[i - 1], c[g.uni(0, i - 1)]); }
    printf("SF %d %d", n, (int)lx.size()); for (int x : lx) printf(" %d", x); printf(" %d", (int)ly.size()); for (int x : ly) printf(" %d", x);
    printf(" %d %d %d", refX, refY, nb);
    for (auto &c : cells) { printf(" %d", (int)c.size()); for (int x : c) printf(" %d", x); }
    for (int x : d2) printf(" %d", x);
    bool few = g.coin(30);
    for (int i = 0; i < 2 * n; ++i) printf(" %lld", few ? g.uni(-2, 2) * 4 : g.uni(-16000000, 16000000));
    printf("\n");
  }
}

// ------------------------------------------------------------------ run
// bins without cells are omitted: spread_bin / the loop body of spreadCoordX/Y is a no-op for them (grids of 10^5 bins occur)
static void printBins(const HierarchicalDensityPlacement &hp, bool xdir) {
  int nonEmpty = 0;
  for (int i = 0; i < hp.nbBinsX(); ++i) for (int j = 0; j < hp.nbBinsY(); ++j) if (!hp.binCells_[i][j].empty()) ++nonEmpty;
  printf("%d", nonEmpty);
  for (int i = 0; i < hp.nbBinsX(); ++i) for (int j = 0; j < hp.nbBinsY(); ++j) {
    const auto &c = hp.binCells_[i][j];
    if (c.empty()) continue;
    int lo = xdir ? hp.binLimitX(i) : hp.binLimitY(j), hi = xdir ? hp.binLimitX(i + 1) : hp.binLimitY(j + 1);
    printf(" %d %d %d", lo, hi, (int)c.size()); for (int x : c) printf(" %d", x);
  }
}
static void printFloats(const std::vector<float> &v) { for (float f : v) printf(" %s", fme(f).c_str()); }

static void printBits(const std::vector<float> &v) { for (float f : v) { uint32_t u; memcpy(&u, &f, 4); printf(" %u", (unsigned)u); } }

static void runSP(IntReader &r, bool bits = false) {
  int n = (int)r.nx(); int nlx = (int)r.nx(); std::vector<int> lx(nlx); for (int &x : lx) x = (int)r.nx();
  int nly = (int)r.nx(); std::vector<int> ly(nly); for (int &x : ly) x = (int)r.nx();
  int refX = (int)r.nx(), refY = (int)r.nx(), nb = (int)r.nx();
  std::vector<std::vector<long long>> cap(nlx - 1, std::vector<long long>(nly - 1, 1));
  HierarchicalDensityPlacement hp(DensityGrid(lx, ly, cap), n);
  for (int i = 0; i < refX; ++i) hp.refineX();
  for (int i = 0; i < refY; ++i) hp.refineY();
  if (nb != hp.nbBinsX() * hp.nbBinsY()) { printf("BADCASE\n"); return; }
  for (int i = 0; i < hp.nbBinsX(); ++i) for (int j = 0; j < hp.nbBinsY(); ++j) { int k = (int)r.nx(); std::vector<int> c(k); for (int &x : c) x = (int)r.nx(); hp.setBinCells(i, j, c); }
  std::vector<int> dem(n); for (int &x : dem) x = (int)r.nx();
  hp.updateCellDemand(dem);
  std::vector<float> tx(n), ty(n); for (float &f : tx) f = r.nx() / 4.0f; for (float &f : ty) f = r.nx() / 4.0f;
  std::vector<float> cx = hp.spreadCoordX(tx), cy = hp.spreadCoordY(ty);
  Rectangle a = hp.placementArea();
  // model case (two of them: x and y) | results
  printf("SC %d %d %d ", a.minX, a.maxX, n); printBins(hp, true); for (int x : dem) printf(" %d", x); printFloats(tx);
  printf(" | SC %d %d %d ", a.minY, a.maxY, n); printBins(hp, false); for (int x : dem) printf(" %d", x); printFloats(ty);
  if (bits) { printf(" |"); printBits(cx); printf(" |"); printBits(cy); printf("\n"); return; }   // "SF": raw binary32 bit patterns
  printf(" |"); printFloats(cx); printf(" |"); printFloats(cy); printf("\n");
}

static void printLimits(const DensityGrid &gr) {
  printf("%d", (int)gr.binLimitX_.size()); for (int x : gr.binLimitX_) printf(" %d", x);
  printf(" %d", (int)gr.binLimitY_.size()); for (int x : gr.binLimitY_) printf(" %d", x);
}
// the two float->int truncations of DensityGrid::fromIspdCircuit, evaluated with the same types
static int minCellHeightOf(const Circuit &c) { int m = std::numeric_limits<int>::max(); for (int i = 0; i < c.nbCells(); ++i) { int h = c.cellHeight_[i]; if (h > 0) m = std::min(h, m); } return m; }
static int marginOf(const Circuit &c, float sideMargin) { int margin = sideMargin * minCellHeightOf(c); return margin; }
static int maxSizeOf(const Circuit &c, float sizeFactor) { int s = sizeFactor * minCellHeightOf(c); return s; }

static void printModelCircuit(const TCircuit &t) {   // rows and cells for the model: x y w h orient fixed obstruction
  printf("%d", (int)t.rows.size()); for (auto &r : t.rows) printf(" %lld %lld %lld %lld %lld", r[0], r[1], r[2], r[3], r[4]);
  printf(" %d", (int)t.cells.size()); for (auto &c : t.cells) printf(" %lld %lld %lld %lld %lld %lld %lld", c[0], c[1], c[2], c[3], c[4], c[6], c[7]);
}

static void runGR(IntReader &r) {
  TCircuit t = readRowsCells(r); int binSize10 = (int)r.nx(), sm100 = (int)r.nx();
  Circuit c = buildCircuit(t);
  double binSize = binSize10 / 10.0, sideMargin = sm100 / 100.0;
  int margin = marginOf(c, (float)sideMargin), maxSize = maxSizeOf(c, (float)binSize);
  if (maxSize < 1) { printf("SKIP maxSize<1\n"); return; }
  DensityGrid gr = DensityGrid::fromIspdCircuit(c, binSize, sideMargin);
  printf("GL %d %d ", margin, maxSize); printModelCircuit(t); printf(" | "); printLimits(gr); printf(" | %lld\n", gr.totalCapacity());
}

struct StopRun {};   // thrown from the callback at the first overflowed / non-finite exposed coordinate (a run on NaN may never end)
// a legitimate mid-run action of a "GQ" case: at callback number `cb` (0-based, counted over all steps) the callback resizes movable cells
// of positive area through Circuit::setCellWidth / setCellHeight (unguarded setters: they set hasCellSizeUpdate_, picked up by the next
// GlobalPlacer::runUB).  kind: 1 widths, 2 heights, 3 both, 4 the current widths set again (an update that changes nothing).
// No cell changes to or from a zero area; fixed cells and area-less cells are left alone.  The new sizes are a function of the seed and of
// the sizes of the moment only, so that the private replica fires exactly the same actions.
struct CbAct { int cb, kind; uint64_t seed; };
struct Recorder {
  bool stopOnOverflow = false;
  std::vector<int> lastLB, lastUB;   // circuit coordinates (x y per cell) at the last LowerBound / last UpperBound-or-PenaltyUpdate exposure
  std::vector<int> szLB, szUB;       // placed sizes (w h per cell) AT THAT MOMENT: the sizes the exposed lower-left corners were computed with
  Circuit *mc = nullptr; std::vector<CbAct> acts; long long rh = 1; int fired = 0, ubAfter = 0;   // GQ only
  void snap(std::vector<int> &v) { v.clear(); for (int i = 0; i < c->nbCells(); ++i) { v.push_back(c->cellX_[i]); v.push_back(c->cellY_[i]); } }
  void snapSizes(std::vector<int> &v) { v.clear(); for (int i = 0; i < c->nbCells(); ++i) { v.push_back(c->placedWidth(i)); v.push_back(c->placedHeight(i)); } }
  void fire(const CbAct &a) {
    SplitMix h(a.seed);
    std::vector<int> w = mc->cellWidth_, hh = mc->cellHeight_;
    for (int i = 0; i < mc->nbCells(); ++i) {
      if (mc->isFixed(i) || w[i] <= 0 || hh[i] <= 0) continue;
      if ((a.kind & 1) && h.coin(40)) w[i] = (int)std::max<long long>(1, w[i] + h.uni(-2, 3));
      if ((a.kind & 2) && h.coin(20)) hh[i] = (int)((hh[i] % rh == 0 && h.coin(70)) ? rh * h.uni(1, 3) : std::max<long long>(1, hh[i] + h.uni(-1, 1)));
    }
    if ((a.kind & 1) || a.kind == 4) mc->setCellWidth(w);
    if (a.kind & 2) mc->setCellHeight(hh);
    ++fired;
  }
  void operator()(PlacementStep st) {
    observe(st);
    if (mc) for (auto &a : acts) if (a.cb == ncb - 1) fire(a);
  }
  const Circuit *c = nullptr; Rectangle area{0, 0, 0, 0}; int slackX2 = 0, slackY2 = 1;   // tolerated excess in half units
  int ncb = 0, nub = 0, nlb = 0, npu = 0, excPos = 0, excZero = 0; uint64_t hash = 1469598103934665603ULL; std::string viol;
  void mix(long long v) { hash ^= (uint64_t)v; hash *= 1099511628211ULL; }
  void finiteCheck(const char *where) {
    for (int i = 0; i < c->nbCells(); ++i) {
      long long x = c->cellX_[i], y = c->cellY_[i];
      if (c->isFixed(i)) continue;
      if ((std::llabs(x) >= (1LL << 30) || std::llabs(y) >= (1LL << 30)) && viol.empty()) { std::ostringstream s; s << "OVERFLOW " << where << " cb " << ncb << " cell " << i << " at " << x << " " << y; viol = s.str(); }
    }
  }
  void observe(PlacementStep st) {
    ++ncb; mix((int)st);
    for (int i = 0; i < c->nbCells(); ++i) { mix(c->cellX_[i]); mix(c->cellY_[i]); mix((int)c->cellOrientation_[i]); }
    finiteCheck("callback");
    if (stopOnOverflow && viol.compare(0, 8, "OVERFLOW") == 0) throw StopRun();
    if (st == PlacementStep::LowerBound) { ++nlb; snap(lastLB); snapSizes(szLB); return; }
    if (st == PlacementStep::PenaltyUpdate) ++npu; else if (st == PlacementStep::UpperBound) { ++nub; if (fired) ++ubAfter; } else return;
    snap(lastUB); snapSizes(szUB);
    // an upper-bound placement is exposed: twice the centre of every movable cell against the rows' bounding box
    for (int i = 0; i < c->nbCells(); ++i) {
      if (c->isFixed(i)) continue;
      long long cx2 = 2LL * c->cellX_[i] + c->placedWidth(i), cy2 = 2LL * c->cellY_[i] + c->placedHeight(i);
      long long ex = std::max(2LL * area.minX - cx2, cx2 - 2LL * area.maxX), ey = std::max(2LL * area.minY - cy2, cy2 - 2LL * area.maxY);   // excess, half units
      // the bound PROVED for the composed model (c06_ub_exposed_centres_inside_rows_bbox): the half unit of std::round for an ODD placed
      // size, nothing for an even one -- per cell and per axis (attained: c06_half_unit_slack_attained_in_range)
      const int sx = (int)(c->placedWidth(i) & 1), sy = (int)(c->placedHeight(i) & 1);
      (void)slackX2; (void)slackY2;
      if (ex > sx || ey > sy) {
        if (viol.empty()) {
          std::ostringstream s; s << "OUTSIDE step " << (int)st << " cb " << ncb << " cell " << i << " area " << c->area(i) << " centre2 " << cx2 << " " << cy2 << " rows " << area.minX << " " << area.maxX << " " << area.minY << " " << area.maxY;
          viol = s.str();
        }
      } else if (ex > 0 || ey > 0) { if (c->area(i) > 0) ++excPos; else ++excZero; }
    }
  }
};

static ColoquinteParameters readParams(IntReader &r) {
  int effort = (int)r.nx(), seed = (int)r.nx(), netModel = (int)r.nx(), costModel = (int)r.nx(), tolExp = (int)r.nx(), approx10 = (int)r.nx(), cutoff10 = (int)r.nx();
  ColoquinteParameters p(effort, seed);
  p.global.continuousModel.netModel = (NetModelOption)netModel;
  p.global.roughLegalization.costModel = (LegalizationModel)costModel;
  p.global.continuousModel.conjugateGradientErrorTolerance = std::pow(10.0, -tolExp);
  p.global.continuousModel.approximationDistance = approx10 / 10.0;
  p.global.penalty.cutoffDistance = cutoff10 / 10.0;
  auto &rl = p.global.roughLegalization;
  rl.lineReoptSize = (int)r.nx(); rl.lineReoptOverlap = (int)r.nx(); rl.diagReoptSize = (int)r.nx(); rl.diagReoptOverlap = (int)r.nx();
  rl.squareReoptSize = (int)r.nx(); rl.squareReoptOverlap = (int)r.nx(); rl.unidimensionalTransport = r.nx() != 0; rl.nbSteps = (int)r.nx();
  rl.binSize = r.nx() / 10.0;
  p.global.exportBlending = r.nx() / 100.0;
  p.global.maxNbSteps = (int)r.nx();
  if (!r.done()) {   // optional knobs (absent in old corpus lines: library defaults)
    rl.targetBlending = r.nx() / 100.0; rl.quadraticPenalty = r.nx() / 1000.0; rl.coarseningLimit = r.nx() / 10.0;
    if (!r.done()) p.global.penalty.targetBlending = r.nx() / 100.0;   // replay of hand-written lines only: never generated
  }
  return p;
}

static void runGP(IntReader &r, bool withActions = false) {
  std::vector<CbAct> acts;
  if (withActions) { int na = (int)r.nx(); for (int i = 0; i < na; ++i) { CbAct a; a.cb = (int)r.nx(); a.kind = (int)r.nx(); a.seed = (uint64_t)r.nx(); acts.push_back(a); } }
  TCircuit t = readRowsCells(r); readNets(r, t);
  ColoquinteParameters p = readParams(r);
  Circuit orig = buildCircuit(t);
  try { p.check(); } catch (std::exception &e) { printf("SKIP params rejected: %s\n", e.what()); return; }
  // domain predicates of the property
  int rh = 0; for (auto &rw : t.rows) rh = (int)(rw[3] - rw[2]);
  bool narrow = false; for (auto &rw : t.rows) if (rw[1] - rw[0] < 4 * (rw[3] - rw[2])) narrow = true;
  bool posCell = false; for (int i = 0; i < orig.nbCells(); ++i) if (!orig.isFixed(i) && orig.area(i) > 0) posCell = true;
  float sideMargin = p.global.roughLegalization.sideMargin, binSize = p.global.roughLegalization.binSize;
  int margin = marginOf(orig, sideMargin), maxSize = maxSizeOf(orig, binSize);
  long long cap = 0;
  if (posCell && maxSize >= 1) cap = DensityGrid::fromIspdCircuit(orig, binSize, sideMargin).totalCapacity();
  if (narrow || !posCell || maxSize < 1) { printf("SKIP outside the domain narrow=%d posCell=%d cap=%lld maxSize=%d\n", (int)narrow, (int)posCell, cap, maxSize); return; }
  // cap <= 0 (fixed cells / obstructions, or the side margin on rows cut into short pieces, leave no free site in any bin) is INSIDE the
  // property's quantifier ("any fixed cells and obstructions", every row at least four row-heights wide): the public entry point is run
  // and judged (completion without error, exposed centres, finite coordinates, frame).  Since the repair of finding F28 the grid of such
  // a circuit is the grid of the rows' bounding box with zero capacity (coq/Spread.v circuit_grid_area), so the private replica (b) and
  // the model ties (bin limits, export, spreading on the final bins) are evaluated there as well; the case is marked NOCAP on the OK field
  bool nocap = cap <= 0;
  char ncs[48] = ""; if (nocap) snprintf(ncs, sizeof ncs, " NOCAP %lld", cap);
  // (a) the public entry point with a recording callback
  Circuit ca = orig; Recorder ra; ra.c = &ca; ra.area = ca.computePlacementArea(); ra.slackX2 = margin >= 1 ? 0 : 1; ra.stopOnOverflow = true;
  if (withActions) { ra.mc = &ca; ra.acts = acts; ra.rh = std::max(1, rh); }
  std::string sa = "OK";
  try { ca.placeGlobal(p, PlacementCallback(std::ref(ra))); } catch (std::exception &e) { sa = std::string("THROW ") + e.what(); } catch (StopRun &) { sa = "STOPPED"; }
  if (sa == "OK") ra.finiteCheck("return");
  bool frame = true;   // global export never writes orientation or fixed cells
  for (int i = 0; i < ca.nbCells(); ++i) {
    if (ca.cellOrientation_[i] != orig.cellOrientation_[i]) frame = false;
    if (orig.isFixed(i) && (ca.cellX_[i] != orig.cellX_[i] || ca.cellY_[i] != orig.cellY_[i])) frame = false;
  }
  char extra[48] = ""; if (withActions) snprintf(extra, sizeof extra, " %d %d", ra.fired, ra.ubAfter);   // GQ: actions fired, UpperBound exposures after the first one
  printf("GP %s | %d %d %d %d%s | %s | %d %d %d |", sa.c_str(), ra.ncb, ra.nub, ra.nlb, ra.npu, extra, ra.viol.empty() ? "-" : ra.viol.c_str(), (int)frame, ra.excPos, ra.excZero);
  for (int i = 0; i < ca.nbCells(); ++i) printf(" %d %d", ca.cellX_[i], ca.cellY_[i]);
  // what was EXPOSED through the callbacks of the public entry point: last lower bound, last upper bound, placed sizes
  printf(" /"); for (int v : ra.lastLB) printf(" %d", v);
  printf(" /"); for (int v : ra.lastUB) printf(" %d", v);
  // placed sizes the RETURNED lower-left corners were computed with (GP: they never change during a run)
  printf(" /"); for (int i = 0; i < ca.nbCells(); ++i) printf(" %d %d", ca.placedWidth(i), ca.placedHeight(i));
  if (withActions) {   // GQ: the sizes of the moment of the last exposed lower bound / upper bound
    printf(" /"); for (int v : ra.szLB) printf(" %d", v);
    printf(" /"); for (int v : ra.szUB) printf(" %d", v);
  }
  fflush(stdout);
  if (sa == "STOPPED") { printf(" | STOPPED\n"); return; }
  // (b) the same steps as GlobalPlacer::place, with access to the private state
  Circuit cb = orig; Recorder rb; rb.c = &cb; rb.area = ra.area; rb.slackX2 = ra.slackX2;
  if (withActions) { rb.mc = &cb; rb.acts = acts; rb.rh = ra.rh; }   // the same actions: a function of the seed and of the sizes of the moment
  std::string sb = "OK";
  try {
    p.check();
    GlobalPlacer pl(cb, p);
    pl.callback_ = PlacementCallback(std::ref(rb));
    pl.run();
    std::vector<float> lbx = pl.xPlacementLB_, ubx = pl.xPlacementUB_, lby = pl.yPlacementLB_, uby = pl.yPlacementUB_;
    pl.exportPlacement(cb);
    bool same = rb.hash == ra.hash && rb.ncb == ra.ncb;
    for (int i = 0; i < ca.nbCells(); ++i) if (ca.cellX_[i] != cb.cellX_[i] || ca.cellY_[i] != cb.cellY_[i]) same = false;
    Rectangle pa = pl.leg_.placementArea();
    printf(" | OK %d%s | GL %d %d ", (int)same, ncs, margin, maxSize); printModelCircuit(t); printf(" | "); printLimits(pl.leg_.grid_);
    // EX model case: blending, cells (fixed x y placedWidth placedHeight), the four float vectors
    printf(" | EX %s %d", fme((float)p.global.exportBlending).c_str(), cb.nbCells());
    // placed sizes of the replica's circuit at export time (GQ: after the resizing actions; GP: the original ones)
    for (int i = 0; i < cb.nbCells(); ++i) printf(" %d %d %d %d %d", (int)orig.isFixed(i), orig.cellX_[i], orig.cellY_[i], cb.placedWidth(i), cb.placedHeight(i));
    printFloats(lbx); printFloats(ubx); printFloats(lby); printFloats(uby);
    // SC model cases on the final bins with the final lower bound as target
    std::vector<float> sx = pl.leg_.spreadCoordX(lbx), sy = pl.leg_.spreadCoordY(lby);
    std::vector<int> dem(cb.nbCells()); for (int i = 0; i < cb.nbCells(); ++i) dem[i] = pl.leg_.cellDemand(i);
    printf(" | SC %d %d %d ", pa.minX, pa.maxX, cb.nbCells()); printBins(pl.leg_, true); for (int x : dem) printf(" %d", x); printFloats(lbx);
    printf(" | SC %d %d %d ", pa.minY, pa.maxY, cb.nbCells()); printBins(pl.leg_, false); for (int x : dem) printf(" %d", x); printFloats(lby);
    printf(" |"); printFloats(sx); printf(" |"); printFloats(sy);
    printf(" | %d %d %d %d", ra.area.minX, ra.area.maxX, ra.area.minY, ra.area.maxY);
    // [V] the final upper bound in binary32: every cell that is in a bin lies in the closed interval of its bin
    int outX = 0, outY = 0, inBin = 0;
    for (int i = 0; i < pl.leg_.nbBinsX(); ++i) for (int j = 0; j < pl.leg_.nbBinsY(); ++j) for (int cc : pl.leg_.binCells_[i][j]) {
      ++inBin;
      if (!(ubx[cc] >= pl.leg_.binLimitX(i) && ubx[cc] <= pl.leg_.binLimitX(i + 1))) ++outX;
      if (!(uby[cc] >= pl.leg_.binLimitY(j) && uby[cc] <= pl.leg_.binLimitY(j + 1))) ++outY;
    }
    printf(" | %d %d %d\n", outX, outY, inBin);
  } catch (std::exception &e) { printf(" | THROW%s %s\n", ncs, e.what()); }
}

int main(int argc, char **argv) {
  std::string mode = argc > 1 ? argv[1] : "run";
  if (mode == "gen") {
    vh_silence();
    std::string what = argv[2]; SplitMix g(strtoull(argv[3], nullptr, 10)); long long count = atoll(argv[4]);
    if (what == "gp") genGP(g, count, argc > 5 ? atoi(argv[5]) : 0);
    else if (what == "gpc") genGPC(g, count);
    else if (what == "gpn") genGPN(g, count, argc > 5 ? atoi(argv[5]) : 0);
    else if (what == "gpf") genGPF(g, count, argc > 5 ? atoi(argv[5]) : 0);
    else if (what == "gpq") genGPQ(g, count, argc > 5 ? atoi(argv[5]) : 0);
    else if (what == "grid") genGR(g, count);
    else if (what == "spread") genSP(g, count);
    else if (what == "spreadf") genSF(g, count);
    return 0;
  }
  vh_install(); if (!getenv("C06_VERBOSE")) vh_silence();   // C06_VERBOSE=1: keep the library's progress output (debugging)
  std::string line;
  while (std::getline(std::cin, line)) {
    if (line.size() < 3) { printf("\n"); continue; }
    IntReader r; r.v = vh_ints(line.substr(3));
    if (sigsetjmp(vh_jmp, 1)) { printf(" | SIGNAL %s\n", vh_signame()); fflush(stdout); continue; }
    try {
      if (line.compare(0, 3, "GP ") == 0) runGP(r);
      else if (line.compare(0, 3, "GQ ") == 0) runGP(r, true);
      else if (line.compare(0, 3, "GR ") == 0) runGR(r);
      else if (line.compare(0, 3, "SP ") == 0) runSP(r);
      else if (line.compare(0, 3, "SF ") == 0) runSP(r, true);
      else printf("BADTAG\n");
    } catch (std::exception &ex) { printf(" | THROW-OUTER %s\n", ex.what()); }
    fflush(stdout);
  }
  return 0;
}
