// C01/C04/C11 harness: Circuit::legalize from /repo's working tree
//   legal gen rand SEED COUNT MODE      MODE bits: 1 = row-high cells only + legalize twice (C11), 2 = no turned cells,
//                                       4 = magnitude stream (scale up to 2^16), 8 = trivially feasible stream (low utilisation, no polarity),
//                                       16 = side-by-side row segments with different orientations, 32 = exactly tiled rows,
//                                       64 = rows in 2-4 pieces that abut exactly (or gap 1), 2-5 multi-row cells aimed at the seams (cgen.hpp genAbut)
//   legal run < cases
// case: "LG <rows> <cells> ow10 oy10 oh10 effort twice"
// result: "<outcome><placement> @ order"  [ " || <outcome2><placement2> @ order2" when twice ]
#define protected public
#define private public
#include "place_detailed/legalizer.hpp"
#undef protected
#undef private
#include "cgen.hpp"

static std::string runOnce(Circuit &c, const ColoquinteParameters &p) {
  std::string order;
  try {
    Legalizer leg = Legalizer::fromIspdCircuit(c);
    auto ord = leg.computeCellOrder(1.0, p.legalization.orderingWidth, p.legalization.orderingY, p.legalization.orderingHeight);
    std::ostringstream s; s << ord.size(); for (int x : ord) s << " " << x; order = s.str();
  } catch (std::exception &e) { order = "0"; }
  std::string res;
  try { c.legalize(p); res = "OK" + showPlacement(c); }
  catch (std::exception &e) { std::string m = e.what(); res = m == "No row present" ? "NOROW" : m == "Not all cells have been placed" ? "NOTALL" : "THROW " + m; res += " ;" + showPlacement(c); }
  return res + " @ " + order;
}

int main(int argc, char **argv) {
  std::string mode = argc > 1 ? argv[1] : "run";
  if (mode == "gen") {
    SplitMix g(strtoull(argv[3], nullptr, 10)); long long count = atoll(argv[4]); int m = argc > 5 ? atoi(argv[5]) : 0;
    for (long long it = 0; it < count; ++it) {
      GenOpts o; if (m & 1) o.multirow = false; if (m & 2) o.turned = false;
      if (m & 4) o.scale = 1LL << g.uni(4, 16);
      if (m & 8) { o.utilLo = 5; o.utilHi = 45; o.polarity = false; o.multirow = false; o.maxCells = 8; }
      if (m & 16) o.mixedSplit = true;
      if (m & 64) { o.abut = true; if (g.coin(20)) o.scale = 1LL << g.uni(4, 16); }   // abutting row pieces + multi-row cells aimed at the seams
      if (m & 32) o.tile = true;            // rows tiled exactly by row-high cells (legal, full segments)   // side-by-side segments of one y may have different orientations
      TCircuit t = genCircuit(g, o);
      int ow = 0, oy = 0, oh = 0;   // defaults of effort 3? the harness overrides only when non-default is drawn
      bool custom = g.coin(50);
      if (custom) { ow = (int)g.uni(-10, 20); oy = (int)g.uni(-2, 2); oh = (int)g.uni(-20, 20); }
      printf("LG %s %d %d %d %d %d %d\n", showRowsCells(t).c_str(), custom ? 1 : 0, ow, oy, oh, (int)g.uni(1, 9), (m & 1) ? 1 : 0);
    }
    return 0;
  }
  vh_install(); vh_silence();
  std::string line;
  while (std::getline(std::cin, line)) {
    if (line.size() < 3) { printf("\n"); continue; }
    IntReader r; r.v = vh_ints(line.substr(3));
    if (sigsetjmp(vh_jmp, 1)) { printf("%s\n", vh_signame()); fflush(stdout); continue; }
    try {
      if (line[0] == 'O') {   // OT pol orient : the three tables of parameters.cpp
        int p = r.nx(), o = r.nx();
        printf("%d %d %d\n", (int)cellOrientationInRow(kPol[p], (CellOrientation)o), (int)oppositeRowOrientation((CellOrientation)o), (int)isTurn((CellOrientation)o));
        continue;
      }
      TCircuit t = readRowsCells(r);
      int custom = r.nx(), ow = r.nx(), oy = r.nx(), oh = r.nx(), effort = r.nx(), twice = r.nx();
      Circuit c = buildCircuit(t);
      ColoquinteParameters p(effort);
      if (custom) { p.legalization.orderingWidth = ow / 10.0; p.legalization.orderingY = oy / 10.0; p.legalization.orderingHeight = oh / 10.0; }
      std::string res = runOnce(c, p);
      if (twice && res.rfind("OK", 0) == 0) res += " || " + runOnce(c, p);
      printf("%s\n", res.c_str());
    } catch (std::exception &ex) { printf("THROW-OUTER %s\n", ex.what()); }
  }
  return 0;
}
