// C08 harness: determinism and schedule independence of Circuit::placeGlobal / legalize / placeDetailed
//   determ gen rand|stop SEED COUNT [MAXCELLS]  print case lines (stop: with the 6th number, see below)
//   determ run [tsan|fill] < cases              one result line per case
// case:   "DT <rows> <cells> <nets> effort seed noise1e6 aux"
//           rows/cells/nets as in cgen.hpp (showRowsCells / showNets); seed = ColoquinteParameters::seed;
//           noise1e6 = global.noise * 1e6 (-1: keep the default); aux = seed of the schedule delays / unrelated runs
//         optional 5th number pseed (0 / absent: the parameters above only): seed of perturbParams, which moves EVERY field of
//           ColoquinteParameters that check() lets vary (global.nbInitialSteps 0..3, net model, all rough-legalization / penalty /
//           continuous-model / legalization-ordering / detailed-placement knobs) away from its default with probability 1/2 each,
//           inside the accepted box (the set is dropped for the defaults when check() refuses it); par=<hex mask> in the result
//           line has bit i set when field i (order of paramFields) differs from the default set of the case
//         optional 6th number stop (0 / absent: nothing; `gen stop`: 50..600): global.gapTolerance = stop / 1000, global.distanceTolerance = 0
//           and global.maxNbSteps = 40 on top of the above (kept only if check() accepts the set): the lower-bound / upper-bound gap ALONE decides at which step the run ends, so that anything that leaks into the
//           values the stopping rule reads changes the number of steps and with it the placement (round 6)
// result: "OK runs=<n> lb=<LowerBound callbacks seen> hook=<solve-hook calls> forced=<steps whose completion order was forced>
//              unforced=<steps where forcing timed out> axis=<0/1 x/y models identified by address> cbsig=<hash of all
//              placements seen by the observing callback> sol=<G outcome+placement> | <L ...> | <D ...>"
//         "DIFF mode=<variant> <what differs> base=<...> got=<...>"      (a violation of C08 with this case as input)
// Each case runs the flow  placeGlobal -> legalize -> placeDetailed  on the same circuit and parameters in these variants and
// compares x, y, orientation of every cell after each stage (and exception texts) with the first run, bitwise:
//   base, repeat, copy (copy of a copy + a circuit rebuilt from the text), after-unrelated (two other placements run in between),
//   callback (an observing callback that reads the whole solution and the HPWL), forced-xy / forced-yx / forced-alternating
//   (solve hook: the y (x) solve of every lower-bound step is held until the x (y) solve of that step has returned),
//   delays (random sleeps in the hook at the start and end of each solve, no synchronisation), delays+callback.
//   callback-overwrites-its-parameters (the observing callback, after reading, overwrites EVERY field of the ColoquinteParameters
//   object that was passed to the running call -- patterns: all minimal, another accepted set, extremes of the types; the object
//   is restored before the next stage), callback-overwrites-parameters+setter-arguments+copy-source (in addition the vectors that
//   were handed to the setters / addNet / setNetWeights / setSolution when the circuit was built are overwritten and freed, and
//   the circuit the placed one was copied from is overwritten with another circuit, then destroyed); scrib=<callbacks that overwrote>.
//   The callbacks never touch the circuit being placed: results must be bitwise those of the run without callback.
//   uninit-fill-A / uninit-fill-B (UNINITIALISED-MEMORY oracle inside one process): before every stage the dead stack below the
//   caller is overwritten with a 32-bit word (A: 0x3f800000 = 1.0f, B: 0x7fc00000 = NaN as a float), the stack below every
//   solveWithPenalty worker thread likewise (solve hook, phase 0), and glibc fills every fresh and every freed heap block
//   (mallopt(M_PERTURB, 85 / 170)); the base run sees whatever the process left behind.  A result that differs read memory
//   nobody initialised; fill=<runs with a fill> in the result line.
//   `run fill`: base, callback and the two fill runs only (the mode of the -ftrivial-auto-var-init builds, checks/c08.py).
//   ambient[...] (AMBIENT PROCESS STATE, round 6; not in `run tsan` / `run fill`): three more runs of the flow, each entered under a
//   composite process state that a library must not read, applied before EVERY entry point call and undone after it:
//     errno preset to ERANGE / EDOM / EINTR (every other run: 0);
//     std::cout good with its output captured in memory / badbit / good over a never-opened filebuf (every write fails) (every other
//       run: failbit, vh_silence); std::cerr failbit / badbit / never-opened filebuf (every other run: good);
//     locale: setlocale(LC_ALL, "C.utf8") + std::locale::global(classic + numpunct with decimal comma and digit grouping), imbued
//       into std::cout / std::cerr (only C, C.utf8, POSIX are installed); exception texts are not compared under this one;
//     std::srand(other) + a few rand() draws;  setenv of OMP_NUM_THREADS, LANG, LC_ALL, TZ, COLOQUINTE_* ... (amb::envKV).
//   Results (x, y, orientation after each stage, outcome, callback signature) must be bitwise those of the base run.  A composite
//   that differs is re-run with each component alone; the DIFF names the first single state that reproduces it, e.g.
//   "mode=ambient[errno=ERANGE]".  amb=<ambient runs> ambout=<bytes the library printed into the captured good std::cout>.
// The solve hook is `coloquinte_verif_solve_hook(model, phase)` (commit "verif hook: ..." in /repo, guarded by COLOQUINTE_VERIF);
// without it hook=0 is printed and nothing is forced.
#include <atomic>
#include <cerrno>
#include <clocale>
#include <fstream>
#include <locale>
#include <chrono>
#include <condition_variable>
#include <cstddef>
#include <functional>
#include <mutex>
#include <optional>
#include <thread>
#include <unistd.h>
#include <malloc.h>
#include <algorithm>
#include <array>
#include <cassert>
#include <iosfwd>
#include <memory>
#include <random>
#include <string>
#include <vector>
#include "vh.hpp"
#define private public
#define protected public
#include "cgen.hpp"
#include "place_global/place_global.hpp"
#undef private
#undef protected

namespace hk {
enum Mode { FREE = 0, FORCE_XY = 1, FORCE_YX = 2, FORCE_ALT = 3, DELAY = 4 };
static int mode = FREE;                 // written by the main thread only while no task runs
static uint64_t seed = 0;
static std::atomic<long> calls{0};      // relaxed only: must not order the two solves under TSan
static std::mutex mu;
static std::condition_variable cv;
static const void *ptr[2];
static int nptr = 0;
static long started[2], ended[2];
static long forced = 0, unforced = 0;
static bool disabled = false, axisOk = true;
static const long kTimeoutMs = 1500;

static uint64_t mix(uint64_t a, uint64_t b) { SplitMix g(a * 0x9E3779B97F4A7C15ULL ^ (b + 0x7F4A7C15ULL)); return g.next(); }

static void reset(int m, uint64_t s) {
  std::lock_guard<std::mutex> l(mu);
  mode = m; seed = s; nptr = 0; started[0] = started[1] = ended[0] = ended[1] = 0; disabled = false;
}

// axis of a registered model: 0 = x (GlobalPlacer::xtopo_, declared first => lower address), 1 = y; -1 unknown (yet)
static int axisOf(const void *m) {
  if (nptr < 2) return -1;
  const char *lo = (const char *)std::min(ptr[0], ptr[1]), *hi = (const char *)std::max(ptr[0], ptr[1]);
  static const ptrdiff_t D = (ptrdiff_t)offsetof(coloquinte::GlobalPlacer, ytopo_) - (ptrdiff_t)offsetof(coloquinte::GlobalPlacer, xtopo_);
  if (hi - lo != D) axisOk = false;
  return m == (const void *)lo ? 0 : 1;
}

// ---- uninitialised-memory oracle: fill of dead stack (this thread, below the caller) and of heap blocks
static bool fillOn = false;             // written by the main thread only while no task runs
static uint32_t fillWord = 0;
__attribute__((noinline)) static void paintStack(uint32_t word) {
  const size_t N = 96 * 1024;           // 384 KB below the caller's frame: deeper than any frame of the flow on these circuits
  volatile uint32_t buf[N];
  for (size_t i = 0; i < N; ++i) buf[i] = word;
  asm volatile("" ::: "memory");
}
static void setFill(bool on, uint32_t word, int heapByte) {
  fillOn = on; fillWord = word;
  mallopt(M_PERTURB, on ? heapByte : 0);   // glibc: fresh blocks are filled with ~byte, freed blocks with byte (0 = off)
}

static void hook(const void *model, int phase) {
  calls.fetch_add(1, std::memory_order_relaxed);
  if (fillOn && phase == 0) paintStack(fillWord);   // the worker thread's stack below solveWithPenalty
  int m = mode;
  if (m == FREE) return;
  if (m == DELAY) {
    uint64_t h = mix(seed, (uint64_t)calls.load(std::memory_order_relaxed) * 2 + phase);
    unsigned us = (h % 4 == 0) ? 0 : (unsigned)(h % 400);
    if (us) usleep(us);
    return;
  }
  std::unique_lock<std::mutex> l(mu);
  if (disabled) return;
  auto deadline = std::chrono::steady_clock::now() + std::chrono::milliseconds(kTimeoutMs);
  if (phase == 0) {
    if (nptr < 2 && !(nptr == 1 && ptr[0] == model)) { ptr[nptr++] = model; cv.notify_all(); }
    if (!cv.wait_until(l, deadline, [] { return nptr == 2 || disabled; }) || disabled) { disabled = true; ++unforced; cv.notify_all(); return; }
    int ax = axisOf(model);
    long k = started[ax]++;
    int first = m == FORCE_XY ? 0 : m == FORCE_YX ? 1 : (int)(mix(seed, (uint64_t)k) & 1);
    if (ax != first) {
      if (!cv.wait_until(l, deadline, [&] { return ended[first] > k || disabled; }) || disabled) { disabled = true; ++unforced; cv.notify_all(); return; }
      ++forced;
      l.unlock();
      usleep(300);   // let the main thread consume the first result (x.get() and the assignment) before this solve starts
    }
  } else {
    int ax = axisOf(model);
    if (ax >= 0) { ++ended[ax]; cv.notify_all(); }
  }
}
}  // namespace hk

extern "C" void coloquinte_verif_solve_hook(const void *model, int phase) { hk::hook(model, phase); }

// ---- ambient process state (round 6): state of the PROCESS that a library must not read.  A state is applied immediately
// before every entry point call (placeGlobal / legalize / placeDetailed) and undone right after it returns or throws, so that the
// harness's own formatting (showPlacement uses an ostringstream) never runs under it.  Value 0 of every dimension is the base.
// NOT varied: the floating-point rounding mode and FTZ/DAZ (they legitimately change results).
namespace amb {
enum Dim { ERRNO = 0, COUT, CERR, LOCALE, RAND, ENV, NDIM };
struct State { int v[NDIM] = {0, 0, 0, 0, 0, 0}; uint64_t h = 0; };
static const char *dimName[NDIM] = {"errno", "cout", "cerr", "locale", "rand", "env"};
static const char *valName[NDIM][4] = {
  {"0", "ERANGE", "EDOM", "EINTR"},
  {"failbit", "good-captured", "badbit", "closed-buffer"},      // base: what vh_silence() does for every other run
  {"good", "failbit", "badbit", "closed-buffer"},
  {"C", "C.utf8+global-comma-numpunct", "", ""},
  {"untouched", "srand(other)+rand()", "", ""},
  {"untouched", "setenv", "", ""}};
static const int errnoVal[4] = {0, ERANGE, EDOM, EINTR};
enum SM { S_FAIL, S_GOOD, S_CAPTURED, S_BAD, S_CLOSED };
static const int coutMode[4] = {S_FAIL, S_CAPTURED, S_BAD, S_CLOSED};
static const int cerrMode[4] = {S_GOOD, S_FAIL, S_BAD, S_CLOSED};
static std::streambuf *coutOrig = nullptr, *cerrOrig = nullptr;
static std::stringbuf capOut, capErr;            // good stream, output kept in memory (the harness's own stdout stays clean)
static std::filebuf closedOut, closedErr;        // never opened: the stream starts good, every write fails and turns it bad
static long captured = 0;                        // bytes the library printed into a good std::cout (the variant was live)
struct CommaPunct : std::numpunct<char> {
  char do_decimal_point() const override { return ','; }
  char do_thousands_sep() const override { return '.'; }
  std::string do_grouping() const override { return "\3"; }
};
static const std::locale &commaLocale() { static const std::locale l(std::locale::classic(), new CommaPunct); return l; }
static const char *envKV[][2] = {
  {"OMP_NUM_THREADS", "3"}, {"OMP_DYNAMIC", "TRUE"}, {"OMP_SCHEDULE", "dynamic,1"}, {"MKL_NUM_THREADS", "2"}, {"OPENBLAS_NUM_THREADS", "2"},
  {"EIGEN_NUM_THREADS", "5"}, {"LANG", "de_DE.UTF-8"}, {"LC_ALL", "tr_TR.UTF-8"}, {"LC_NUMERIC", "fr_FR.UTF-8"}, {"TZ", "Asia/Kolkata"},
  {"COLOQUINTE_SEED", "12345"}, {"COLOQUINTE_NUM_THREADS", "7"}, {"COLOQUINTE_VERBOSE", "0"}, {"PYTHONHASHSEED", "99"},
  {"TMPDIR", "/nonexistent"}, {"COLUMNS", "1"}};
static std::vector<std::pair<std::string, std::pair<bool, std::string>>> envSaved;

static void setStream(std::ostream &s, std::streambuf *orig, std::stringbuf &cap, std::filebuf &closed, int m) {
  switch (m) {   // rdbuf(sb) clears the state
    case S_GOOD: s.rdbuf(orig); s.clear(); break;
    case S_FAIL: s.rdbuf(orig); s.clear(); s.setstate(std::ios_base::failbit); break;
    case S_CAPTURED: cap.str(std::string()); s.rdbuf(&cap); s.clear(); break;
    case S_BAD: s.rdbuf(orig); s.clear(); s.setstate(std::ios_base::badbit); break;
    case S_CLOSED: s.rdbuf(&closed); s.clear(); break;
  }
}
static void init() { if (!coutOrig) { coutOrig = std::cout.rdbuf(); cerrOrig = std::cerr.rdbuf(); } }
static void apply(const State &a) {
  init();
  setStream(std::cout, coutOrig, capOut, closedOut, coutMode[a.v[COUT]]);
  setStream(std::cerr, cerrOrig, capErr, closedErr, cerrMode[a.v[CERR]]);
  if (a.v[LOCALE]) { setlocale(LC_ALL, "C.utf8"); std::locale::global(commaLocale()); std::cout.imbue(commaLocale()); std::cerr.imbue(commaLocale()); }
  if (a.v[RAND]) { std::srand((unsigned)(a.h | 1)); for (unsigned k = 0; k < 1 + a.h % 7; ++k) (void)std::rand(); }
  if (a.v[ENV]) {
    envSaved.clear();
    for (auto &kv : envKV) { const char *old = getenv(kv[0]); envSaved.push_back({kv[0], {old != nullptr, old ? old : ""}}); setenv(kv[0], kv[1], 1); }
  }
  errno = errnoVal[a.v[ERRNO]];   // last: nothing runs between this store and the entry point call
}
static void restore(const State &a) {
  if (coutMode[a.v[COUT]] == S_CAPTURED) captured += (long)capOut.str().size();
  setStream(std::cout, coutOrig, capOut, closedOut, S_FAIL);
  setStream(std::cerr, cerrOrig, capErr, closedErr, S_GOOD);
  if (a.v[LOCALE]) { std::locale::global(std::locale::classic()); std::cout.imbue(std::locale::classic()); std::cerr.imbue(std::locale::classic()); setlocale(LC_ALL, "C"); }
  if (a.v[RAND]) std::srand(1);
  if (a.v[ENV]) { for (auto &e : envSaved) { if (e.second.first) setenv(e.first.c_str(), e.second.second.c_str(), 1); else unsetenv(e.first.c_str()); } envSaved.clear(); }
  errno = 0;
}
static std::string name(const State &a) {
  std::string s = "ambient[";
  for (int d = 0; d < NDIM; ++d) if (a.v[d]) { if (s.back() != '[') s += ","; s += std::string(dimName[d]) + "=" + valName[d][a.v[d]]; }
  return s + "]";
}
}  // namespace amb

// stage: outcome (OK / THROW + exception text) + placement; bare: the same without the exception text (compared under a changed
// locale, where a number inside a message may be formatted differently: the property speaks of coordinates and orientations)
struct RunResult { std::string stage[3], bare[3]; uint64_t cbsig = 0; long lb = 0; };

static uint64_t fold(uint64_t h, long long v) { return (h ^ (uint64_t)v) * 0x100000001B3ULL + 0x9E37; }

// ---- caller-owned objects that the callback overwrites while the call is running (aliasing variants) ----
// pattern 0: everything minimal / zero; 1: another parameter set that check() accepts; 2: extreme values of the field's type
// (loop bounds negative so that a run that wrongly reads them still ends)
static void scribbleParams(ColoquinteParameters &p, int pattern, uint64_t h) {
  if (pattern == 1) {
    ColoquinteParameters q(1 + (int)(h % 9), (int)(h % 977) + 1);
    q.global.maxNbSteps = 3 + (int)(h % 5); q.global.nbInitialSteps = 0; q.global.noise = 0.5; q.global.exportBlending = 1.0 - q.global.exportBlending;
    q.global.continuousModel.netModel = (h & 1) ? NetModelOption::Star : NetModelOption::BoundToBound;
    q.global.penalty.updateFactor = 1.9; q.global.penalty.initialValue *= 64; q.global.gapTolerance = 1.0;
    q.global.roughLegalization.unidimensionalTransport = !q.global.roughLegalization.unidimensionalTransport;
    q.detailed.nbPasses = (int)(h % 3); q.detailed.shiftMaxNbCells = 0; q.detailed.reorderingMaxNbCells = (int)(h % 4); q.detailed.localSearchNbNeighbours = (int)(h % 2);
    q.legalization.orderingWidth = 2.0; q.legalization.orderingY = -0.2; q.legalization.orderingHeight = 1.0;
    p = q; return;
  }
  const bool lo = pattern == 0;
  const int I = lo ? 0 : -2147483647 - 1; const double D = lo ? 0.0 : (h & 1 ? 1.0e300 : -1.0e300);
  auto &g = p.global; auto &cm = g.continuousModel; auto &rl = g.roughLegalization; auto &pe = g.penalty; auto &le = p.legalization; auto &de = p.detailed;
  g.maxNbSteps = I; g.nbInitialSteps = I; g.nbStepsBeforeRoughLegalization = lo ? 1 : 2147483647; g.gapTolerance = lo ? 1.0 : D; g.distanceTolerance = lo ? 1.0e30 : D;
  g.penaltyUpdateDistance = D; g.penaltyUpdateBackoff = D; g.exportBlending = lo ? -0.5 : D; g.noise = lo ? 2.0 : D;
  cm.netModel = lo ? NetModelOption::Star : (NetModelOption)(((int)cm.netModel + 1) % 2); cm.approximationDistance = D; cm.approximationDistanceUpdateFactor = D;
  cm.maxNbConjugateGradientSteps = lo ? 1 : I; cm.conjugateGradientErrorTolerance = lo ? 1.0 : D;
  rl.costModel = lo ? LegalizationModel::LInf : LegalizationModel::L2Squared; rl.nbSteps = I; rl.binSize = lo ? 1.0 : D;
  rl.lineReoptSize = rl.diagReoptSize = rl.squareReoptSize = lo ? 1 : I; rl.lineReoptOverlap = rl.diagReoptOverlap = rl.squareReoptOverlap = lo ? 1 : I;
  rl.unidimensionalTransport = !rl.unidimensionalTransport; rl.quadraticPenalty = D; rl.sideMargin = D; rl.coarseningLimit = D; rl.targetBlending = D;
  pe.cutoffDistance = D; pe.cutoffDistanceUpdateFactor = D; pe.areaExponent = D; pe.initialValue = D; pe.updateFactor = D; pe.targetBlending = D;
  le.costModel = lo ? LegalizationModel::L2 : LegalizationModel::LInfSquared; le.orderingWidth = D; le.orderingHeight = D; le.orderingY = D;
  de.nbPasses = I; de.localSearchNbNeighbours = I; de.localSearchNbRows = I; de.shiftNbRows = lo ? 1 : I; de.shiftMaxNbCells = I; de.reorderingNbRows = lo ? 1 : I; de.reorderingMaxNbCells = I;
  p.seed = lo ? 0 : (int)(h % 100000) + 5;
}

// the vectors handed (by const reference) to the Circuit's setters, kept alive by the caller and overwritten later
struct LiveInputs {
  std::vector<int> x, y, w, h; std::vector<bool> fx, ob; std::vector<CellRowPolarity> pol; std::vector<CellOrientation> ori;
  std::vector<Row> rows; std::vector<std::vector<int>> cs, xo, yo; std::vector<float> wt; PlacementSolution sol;
  explicit LiveInputs(const TCircuit &t) {
    for (auto &k : t.cells) { x.push_back(k[0]); y.push_back(k[1]); w.push_back(k[2]); h.push_back(k[3]); ori.push_back((CellOrientation)k[4]); pol.push_back(kPol[k[5]]); fx.push_back(k[6]); ob.push_back(k[7]);
                              sol.push_back(CellPlacement((int)k[0], (int)k[1], (CellOrientation)k[4])); }
    for (auto &r : t.rows) rows.emplace_back((int)r[0], (int)r[1], (int)r[2], (int)r[3], (CellOrientation)r[4]);
    for (size_t k = 0; k < t.nets.size(); ++k) { cs.emplace_back(); xo.emplace_back(); yo.emplace_back(); for (auto &q : t.nets[k]) { cs.back().push_back(q[0]); xo.back().push_back(q[1]); yo.back().push_back(q[2]); } wt.push_back(netWeightOfCode(t.netw2[k])); }
  }
  Circuit build() const {
    Circuit c((int)x.size());
    c.setCellWidth(w); c.setCellHeight(h); c.setCellIsFixed(fx); c.setCellIsObstruction(ob); c.setCellRowPolarity(pol); c.setCellOrientation(ori); c.setCellX(x); c.setCellY(y);
    c.setRows(rows);
    for (size_t k = 0; k < cs.size(); ++k) c.addNet(cs[k], xo[k], yo[k], wt[k]);
    c.setNetWeights(wt); c.setSolution(sol);
    return c;
  }
  void scribble(uint64_t s, bool shrink) {
    SplitMix g(s);
    for (auto *v : {&x, &y, &w, &h}) for (auto &e : *v) e = (int)g.uni(-1000000, 1000000);
    for (size_t i = 0; i < fx.size(); ++i) { fx[i] = !fx[i]; ob[i] = g.coin(50); pol[i] = kPol[g.uni(0, 2)]; ori[i] = (CellOrientation)g.uni(0, 7); sol[i] = CellPlacement((int)g.uni(-9999, 9999), (int)g.uni(-9999, 9999), (CellOrientation)g.uni(0, 7)); }
    for (auto &r : rows) r = Row((int)g.uni(-50, 0), (int)g.uni(1, 50), (int)g.uni(-50, 0), (int)g.uni(1, 50), (CellOrientation)g.uni(0, 7));
    for (auto *vv : {&cs, &xo, &yo}) for (auto &v : *vv) for (auto &e : v) e = (int)g.uni(0, 3);
    for (auto &e : wt) e = (float)g.uni(0, 1000);
    if (shrink) { x.clear(); x.shrink_to_fit(); y = std::vector<int>(1, 7); w.clear(); h.assign(3, -1); fx.clear(); ob.clear(); pol.clear(); ori.clear(); rows.clear(); rows.shrink_to_fit();
                  cs.clear(); cs.shrink_to_fit(); xo.clear(); yo.clear(); wt.clear(); wt.shrink_to_fit(); sol.clear(); sol.shrink_to_fit(); }
  }
};

struct Scrib {
  ColoquinteParameters live{1, 1};           // the object handed to the stage; restored from the case's parameters before every stage
  uint64_t seed = 0; long n = 0;
  LiveInputs *inputs = nullptr;              // the setters' arguments the circuit was built from
  std::unique_ptr<Circuit> *copySrc = nullptr;   // the circuit the placed one was copied from
  const Circuit *other = nullptr;            // what the copy source is overwritten with
  void fire() {
    long k = n++; uint64_t h = hk::mix(seed, (uint64_t)k);
    scribbleParams(live, (int)((seed + (uint64_t)k) % 3), h);
    if (inputs) inputs->scribble(h, k >= 1);
    if (copySrc && *copySrc) { if (k == 0 && other) **copySrc = *other; else copySrc->reset(); }
  }
};

static RunResult runFlow(Circuit &c, const ColoquinteParameters &p0, bool withCb, Scrib *sc = nullptr, const amb::State *as = nullptr) {
  RunResult r; r.cbsig = 0xcbf29ce484222325ULL;
  std::optional<PlacementCallback> cb;
  if (withCb) cb = [&](PlacementStep s) {
    if (s == PlacementStep::LowerBound) ++r.lb;
    r.cbsig = fold(r.cbsig, (int)s);
    for (int i = 0; i < c.nbCells(); ++i) { r.cbsig = fold(r.cbsig, c.cellX()[i]); r.cbsig = fold(r.cbsig, c.cellY()[i]); r.cbsig = fold(r.cbsig, (int)c.cellOrientation()[i]); }
    r.cbsig = fold(r.cbsig, c.hpwl());
    if (sc) sc->fire();   // never touches c: only objects owned by the caller
  };
  for (int st = 0; st < 3; ++st) {
    std::string res = "OK";
    if (hk::fillOn) hk::paintStack(hk::fillWord);
    if (sc) sc->live = p0;
    const ColoquinteParameters &p = sc ? sc->live : p0;
    bool threw = false;
    if (as) amb::apply(*as); else errno = 0;   // every run that is not an ambient-state variant enters the library with errno == 0
    try {
      if (st == 0) c.placeGlobal(p, cb); else if (st == 1) c.legalize(p, cb); else c.placeDetailed(p, cb);
    } catch (std::exception &e) { threw = true; res = std::string("THROW ") + e.what(); }
    if (as) amb::restore(*as);
    const std::string pl = showPlacement(c);
    r.stage[st] = res + " ;" + pl;
    r.bare[st] = std::string(threw ? "THROW" : "OK") + " ;" + pl;
  }
  return r;
}

static ColoquinteParameters makeParams(int effort, int seed, long long noise1e6) {
  ColoquinteParameters p(effort, seed);
  if (noise1e6 >= 0) p.global.noise = noise1e6 * 1e-6;
  p.global.maxNbSteps = std::min(p.global.maxNbSteps, 12);
  p.detailed.nbPasses = std::min(p.detailed.nbPasses, 1);
  return p;
}

// ---- parameter variation: every field of ColoquinteParameters that check() lets vary (legalization.costModel accepts L1 only)
// Box: as harness/flow.cpp perturbParams (CG tolerance 1e-1..1e-6, approximation / cutoff distances >= 0.1, windows <= 8 / 4,
// reorderingMaxNbCells <= 6), maxNbSteps <= 12 and nbPasses <= 2 (short runs), sideMargin <= the default (a larger one can remove
// every row: outside the domain of the flow), nbInitialSteps 0..3.  Each field moves with probability 1/2.
static void perturbParams(ColoquinteParameters &p, uint64_t pseed) {
  SplitMix g(pseed);
  auto on = [&] { return g.coin(50); };
  auto frac = [&](long long lo, long long hi, double den) { return (double)g.uni(lo, hi) / den; };
  GlobalPlacerParameters &gp = p.global; RoughLegalizationParameters &rl = gp.roughLegalization;
  ContinuousModelParameters &cm = gp.continuousModel; PenaltyParameters &pe = gp.penalty;
  if (on()) gp.maxNbSteps = (int)g.uni(1, 12);
  if (g.coin(60) || gp.nbInitialSteps >= gp.maxNbSteps) gp.nbInitialSteps = (int)g.uni(0, std::min(3, gp.maxNbSteps - 1));
  if (on()) gp.nbStepsBeforeRoughLegalization = (int)g.uni(1, 3);
  if (on()) gp.gapTolerance = g.coin(50) ? (g.coin(80) ? 0.0 : 1.0) : frac(0, 20, 100.0);      // mostly small: the run goes on past the first upper bound
  if (on()) gp.distanceTolerance = g.coin(40) ? 0.0 : frac(0, 200, 100.0);
  if (on()) gp.penaltyUpdateDistance = frac(1, 500, 100.0);
  if (on()) gp.penaltyUpdateBackoff = frac(100, 300, 100.0);
  if (on()) gp.exportBlending = g.coin(30) ? (g.coin(50) ? 0.0 : 1.0) : frac(-50, 150, 100.0);
  if (on()) cm.netModel = cm.netModel == NetModelOption::Star ? NetModelOption::BoundToBound : NetModelOption::Star;
  if (on()) cm.approximationDistance = frac(1, 100, 10.0);
  if (on()) cm.approximationDistanceUpdateFactor = frac(80, 120, 100.0);
  if (on()) cm.maxNbConjugateGradientSteps = g.coin(30) ? (int)g.uni(1, 3) : (int)g.uni(4, 999);
  if (on()) cm.conjugateGradientErrorTolerance = std::pow(10.0, -(double)g.uni(1, 5));
  if (on()) rl.costModel = (LegalizationModel)g.uni(1, 5);
  if (on()) rl.nbSteps = g.coin(50) ? 0 : (int)g.uni(2, 3);
  if (on()) rl.binSize = g.coin(50) ? (double)g.uni(1, 25) : frac(10, 250, 10.0);
  auto window = [&](int &size, int &ov, int maxSize) {
    if (on()) size = (int)g.uni(1, maxSize);
    if (on()) ov = size > 1 ? (int)g.uni(1, size - 1) : (int)g.uni(1, 4);
    else if (size > 1 && ov >= size) ov = size - 1;
  };
  window(rl.lineReoptSize, rl.lineReoptOverlap, 8);
  window(rl.diagReoptSize, rl.diagReoptOverlap, 8);
  window(rl.squareReoptSize, rl.squareReoptOverlap, 4);
  if (on()) rl.unidimensionalTransport = !rl.unidimensionalTransport;
  if (on()) rl.quadraticPenalty = g.coin(30) ? (g.coin(50) ? 0.0 : 1.0) : frac(0, 1000, 1000.0);
  if (on()) rl.sideMargin = g.coin(40) ? 0.0 : frac(1, 85, 100.0);
  if (on()) rl.coarseningLimit = frac(5, 5000, 10.0);
  if (on()) rl.targetBlending = frac(-10, 89, 100.0);
  if (on()) pe.cutoffDistance = frac(1, 1000, 10.0);
  if (on()) pe.cutoffDistanceUpdateFactor = frac(80, 120, 100.0);
  if (on()) pe.areaExponent = frac(51, 100, 100.0);
  if (on()) pe.initialValue = frac(1, 100, 1000.0);
  if (on()) pe.updateFactor = frac(101, 199, 100.0);
  if (on()) pe.targetBlending = frac(50, 109, 100.0);
  LegalizationParameters &lp = p.legalization;
  if (on()) lp.orderingWidth = frac(-100, 200, 100.0);
  if (on()) lp.orderingHeight = frac(-100, 200, 100.0);
  if (on()) lp.orderingY = frac(-20, 20, 100.0);
  DetailedPlacerParameters &dp = p.detailed;
  if (on()) dp.nbPasses = g.coin(50) ? 0 : 2;
  if (on()) dp.localSearchNbNeighbours = (int)g.uni(0, 8);
  if (on()) dp.localSearchNbRows = (int)g.uni(0, 4);
  if (on()) dp.shiftNbRows = g.coin(40) ? 1 : (int)g.uni(1, 6);
  if (on()) dp.shiftMaxNbCells = g.coin(30) ? (int)g.uni(0, 3) : (int)g.uni(0, 200);
  if (on()) dp.reorderingNbRows = (int)g.uni(1, 3);
  if (on()) dp.reorderingMaxNbCells = (int)g.uni(0, 6);
}

// the fields in mask order (bit i of par=): compared with the default set of the case
#define DT_FIELDS(F) F(global.maxNbSteps) F(global.nbInitialSteps) F(global.nbStepsBeforeRoughLegalization) F(global.gapTolerance) \
  F(global.distanceTolerance) F(global.penaltyUpdateDistance) F(global.penaltyUpdateBackoff) F(global.exportBlending) F(global.noise) \
  F(global.continuousModel.netModel) F(global.continuousModel.approximationDistance) F(global.continuousModel.approximationDistanceUpdateFactor) \
  F(global.continuousModel.maxNbConjugateGradientSteps) F(global.continuousModel.conjugateGradientErrorTolerance) \
  F(global.roughLegalization.costModel) F(global.roughLegalization.nbSteps) F(global.roughLegalization.binSize) \
  F(global.roughLegalization.lineReoptSize) F(global.roughLegalization.lineReoptOverlap) F(global.roughLegalization.diagReoptSize) \
  F(global.roughLegalization.diagReoptOverlap) F(global.roughLegalization.squareReoptSize) F(global.roughLegalization.squareReoptOverlap) \
  F(global.roughLegalization.unidimensionalTransport) F(global.roughLegalization.quadraticPenalty) F(global.roughLegalization.sideMargin) \
  F(global.roughLegalization.coarseningLimit) F(global.roughLegalization.targetBlending) F(global.penalty.cutoffDistance) \
  F(global.penalty.cutoffDistanceUpdateFactor) F(global.penalty.areaExponent) F(global.penalty.initialValue) F(global.penalty.updateFactor) \
  F(global.penalty.targetBlending) F(legalization.orderingWidth) F(legalization.orderingHeight) F(legalization.orderingY) \
  F(detailed.nbPasses) F(detailed.localSearchNbNeighbours) F(detailed.localSearchNbRows) F(detailed.shiftNbRows) F(detailed.shiftMaxNbCells) \
  F(detailed.reorderingNbRows) F(detailed.reorderingMaxNbCells)
static uint64_t paramMask(const ColoquinteParameters &a, const ColoquinteParameters &b) {
  uint64_t m = 0; int i = 0;
#define F(f) if (!(a.f == b.f)) m |= 1ULL << i; ++i;
  DT_FIELDS(F)
#undef F
  return m;
}

int main(int argc, char **argv) {
  std::string mode = argc > 1 ? argv[1] : "run";
  if (mode == "fields") {   // the names behind the bits of par=
#define F(f) printf("%s\n", #f);
    DT_FIELDS(F)
#undef F
    return 0;
  }
  if (mode == "gen") {
    SplitMix g(strtoull(argv[3], nullptr, 10)); long long count = atoll(argv[4]); int maxCells = argc > 5 ? atoi(argv[5]) : 24;
    const bool stopClass = std::string(argv[2]) == "stop";
    SplitMix gp(strtoull(argv[3], nullptr, 10) * 1000003ULL + 77);   // its own stream: the circuits of a seed are those of the earlier format
    for (long long it = 0; it < count; ++it) {
      GenOpts o; o.nets = true; o.utilLo = 20; o.utilHi = 85; o.maxCells = maxCells; o.polarity = g.coin(50); o.turned = g.coin(50);
      TCircuit t = genCircuit(g, o);
      // domain of the flow: a movable cell of positive area (as harness/flow.cpp ensureDomain; consumes no random draw: the other cases of a seed are unchanged)
      { bool any = false; for (auto &c : t.cells) if (!c[6] && c[2] > 0 && c[3] > 0) any = true;
        if (!any && !t.cells.empty() && !t.rows.empty()) { t.cells[0][6] = 0; if (t.cells[0][2] <= 0) t.cells[0][2] = 1; t.cells[0][3] = t.rows[0][3] - t.rows[0][2]; t.cells[0][4] = 0; } }
      int noiseSel = (int)g.uni(0, 3);   // default 1e-4, none, strong
      long long noise = noiseSel == 0 ? -1 : noiseSel == 1 ? 0 : noiseSel == 2 ? 100000 : 1000000;
      unsigned long long pseed = gp.coin(60) ? 1 + gp.next() % 1000000000ULL : 0;   // 40 %: the effort defaults (+ seed, noise)
      printf("DT %s %s %d %d %lld %llu %llu", showRowsCells(t).c_str(), showNets(t).c_str(), (int)g.uni(1, 4), (int)g.uni(-1, 1000), noise,
             (unsigned long long)(g.next() % 1000000), pseed);
      if (stopClass) printf(" %d", (int)gp.uni(50, 600));   // `gen stop`: the gap criterion decides when the run ends
      printf("\n");
    }
    return 0;
  }
  bool light = argc > 2 && std::string(argv[2]) == "tsan";   // fewer variants under TSan (10x slower); the unsynchronised ones stay
  bool fillOnly = argc > 2 && std::string(argv[2]) == "fill";   // base, callback, fill runs (the -ftrivial-auto-var-init builds)
  vh_silence();
  std::string line;
  while (std::getline(std::cin, line)) {
    if (line.size() < 3) { printf("\n"); continue; }
    IntReader r; r.v = vh_ints(line.substr(3));
    try {
      TCircuit t = readRowsCells(r); readNets(r, t);
      int effort = (int)r.nx(), seed = (int)r.nx(); long long noise = r.nx(); uint64_t aux = (uint64_t)r.nx();
      uint64_t pseed = r.done() ? 0 : (uint64_t)r.nx();
      const ColoquinteParameters pdef = makeParams(effort, seed, noise);
      ColoquinteParameters p = pdef;
      if (pseed) { perturbParams(p, pseed); try { p.check(); } catch (std::exception &) { p = pdef; } }
      const long long stop = r.done() ? 0 : r.nx();
      if (stop > 0) { ColoquinteParameters q = p; q.global.gapTolerance = stop / 1000.0; q.global.distanceTolerance = 0.0; q.global.maxNbSteps = 40; try { q.check(); p = q; } catch (std::exception &) {} }
      const uint64_t pmask = paramMask(p, makeParams(effort, seed, -1));   // against the effort defaults (global.noise: the case line's own knob)
      Circuit orig = buildCircuit(t);
      long hook0 = hk::calls.load(std::memory_order_relaxed);
      long forced0 = hk::forced, unforced0 = hk::unforced;
      const long captured0 = amb::captured;
      hk::reset(hk::FREE, aux);
      Circuit c0 = orig; RunResult base = runFlow(c0, p, false);
      RunResult cbBase; bool haveCb = false;
      std::string diff; int runs = 1;
      auto cmp = [&](const char *name, const RunResult &x, bool cbUsed) {
        ++runs;
        static const char *sn[3] = {"global", "legalize", "detailed"};
        for (int s = 0; s < 3 && diff.empty(); ++s)
          if (x.stage[s] != base.stage[s]) diff = std::string("mode=") + name + " stage=" + sn[s] + " base=" + base.stage[s] + " got=" + x.stage[s];
        if (cbUsed && diff.empty()) {
          if (!haveCb) { cbBase = x; haveCb = true; }
          else if (x.cbsig != cbBase.cbsig || x.lb != cbBase.lb) diff = std::string("mode=") + name + " placements seen by the callback differ from the first callback run: base=" + std::to_string(cbBase.cbsig) + "/" + std::to_string(cbBase.lb) + " got=" + std::to_string(x.cbsig) + "/" + std::to_string(x.lb);
        }
      };
      auto variant = [&](const char *name, int hmode, bool withCb, int how) {
        if (!diff.empty()) return;
        hk::reset(hmode, aux + runs);
        if (how == 0) { Circuit c = orig; cmp(name, runFlow(c, p, withCb), withCb); }
        else if (how == 1) { Circuit a = orig; Circuit b = a; Circuit c(b); cmp(name, runFlow(c, p, withCb), withCb); Circuit d = buildCircuit(t); cmp(name, runFlow(d, p, withCb), withCb); }
        else {   // unrelated placements in between: another circuit / other parameters, then the original again
          SplitMix g(aux); GenOpts o; o.nets = true; o.utilLo = 20; o.utilHi = 85; o.maxCells = 16;
          TCircuit u = genCircuit(g, o);
          // the unrelated circuit must be inside the domain of the flow (a movable cell of positive area, as harness/flow.cpp ensureDomain):
          // without one the side margin removes every row and computeSubdivisions asserts max >= min, which ABORTS the process and
          // leaves the case unjudged (the 6 cases x 3 processes "crashes_not_attributed_to_C08" of the thorough run were these)
          { bool any = false; for (auto &c : u.cells) if (!c[6] && c[2] > 0 && c[3] > 0) any = true;
            if (!any && !u.cells.empty() && !u.rows.empty()) { u.cells[0][6] = 0; if (u.cells[0][2] <= 0) u.cells[0][2] = 1; u.cells[0][3] = u.rows[0][3] - u.rows[0][2]; u.cells[0][4] = 0; } }
          Circuit cu = buildCircuit(u);
          ColoquinteParameters pu = makeParams(1 + (int)(aux % 3), seed + 17, 1000);
          try { runFlow(cu, pu, true); } catch (...) {}
          Circuit c1 = orig; ColoquinteParameters p2 = makeParams(effort, seed + 1, 500000);
          try { runFlow(c1, p2, false); } catch (...) {}
          Circuit c = orig; cmp(name, runFlow(c, p, withCb), withCb);
        }
      };
      // aliasing variants: the observing callback overwrites objects that belong to the caller (never the circuit being placed)
      long scribbles = 0;
      auto aliasing = [&](const char *name, int hmode, bool all) {
        if (!diff.empty()) return;
        hk::reset(hmode, aux + runs);
        Scrib sc; sc.seed = aux + (uint64_t)runs;
        if (!all) { Circuit c = orig; cmp(name, runFlow(c, p, true, &sc), true); scribbles += sc.n; return; }
        SplitMix g(aux + 99); GenOpts o; o.nets = true; o.maxCells = 12; TCircuit u = genCircuit(g, o); Circuit cu = buildCircuit(u);
        LiveInputs li(t); auto src = std::make_unique<Circuit>(li.build());
        Circuit c = *src;   // the copy is placed; its source and the setters' arguments are overwritten / destroyed during the calls
        sc.inputs = &li; sc.copySrc = &src; sc.other = &cu;
        cmp(name, runFlow(c, p, true, &sc), true); scribbles += sc.n;
      };
      // uninitialised-memory oracle: the same flow over dead stack / fresh heap filled with two different contents
      long fills = 0;
      auto filled = [&](const char *name, uint32_t word, int heapByte, bool withCb) {
        if (!diff.empty()) return;
        hk::reset(hk::FREE, aux + runs);
        hk::setFill(true, word, heapByte);
        { Circuit c = orig; RunResult x = runFlow(c, p, withCb); hk::setFill(false, 0, 0); cmp(name, x, withCb); }
        ++fills;
      };
      // ambient process state (round 6): the same flow entered under process states a library must not read.  Composite states
      // (one non-base value of several dimensions at once: every value of every dimension is visited by three runs); a composite
      // that differs is re-run with each of its components ALONE and the difference is attributed to the first one that
      // reproduces it, so that the variant name in the DIFF line names the state that matters.
      long ambRuns = 0;
      auto ambientRun = [&](amb::State s, bool withCb) -> std::string {
        s.h = hk::mix(aux, (uint64_t)runs);
        hk::reset(hk::FREE, aux + runs);
        Circuit c = orig; RunResult x = runFlow(c, p, withCb, nullptr, &s); ++ambRuns; ++runs;
        static const char *sn[3] = {"global", "legalize", "detailed"};
        const std::string nm = amb::name(s); const bool textFree = s.v[amb::LOCALE] != 0;
        for (int k = 0; k < 3; ++k) {
          const std::string &a = textFree ? base.bare[k] : base.stage[k], &b = textFree ? x.bare[k] : x.stage[k];
          if (a != b) return "mode=" + nm + " stage=" + sn[k] + " base=" + a + " got=" + b;
        }
        if (withCb && haveCb && (x.cbsig != cbBase.cbsig || x.lb != cbBase.lb))
          return "mode=" + nm + " placements seen by the callback differ from the first callback run: base=" + std::to_string(cbBase.cbsig) + "/" + std::to_string(cbBase.lb) + " got=" + std::to_string(x.cbsig) + "/" + std::to_string(x.lb);
        return std::string();
      };
      auto ambient = [&](std::initializer_list<std::pair<int, int>> comps, bool withCb) {
        if (!diff.empty()) return;
        amb::State s; for (auto &kv : comps) s.v[kv.first] = kv.second;
        std::string d = ambientRun(s, withCb);
        if (d.empty()) return;
        for (auto &kv : comps) { amb::State one; one.v[kv.first] = kv.second; std::string d1 = ambientRun(one, withCb); if (!d1.empty()) { diff = d1; return; } }
        diff = d + " (no single component of this state reproduces the difference alone)";
      };
      if (fillOnly) {
        variant("callback", hk::FREE, true, 0);
        filled("uninit-fill-A", 0x3f800000u, 85, false);
        filled("uninit-fill-B", 0x7fc00000u, 170, true);
      } else {
      variant("repeat", hk::FREE, false, 0);
      variant("copy", hk::FREE, false, 1);
      variant("callback", hk::FREE, true, 0);
      filled("uninit-fill-A", 0x3f800000u, 85, false);
      filled("uninit-fill-B", 0x7fc00000u, 170, true);
      if (!light) {
        ambient({{amb::ERRNO, 1}, {amb::COUT, 1}, {amb::CERR, 1}, {amb::LOCALE, 1}}, false);
        ambient({{amb::ERRNO, 2}, {amb::COUT, 2}, {amb::CERR, 2}, {amb::RAND, 1}}, true);
        ambient({{amb::ERRNO, 3}, {amb::COUT, 3}, {amb::CERR, 3}, {amb::ENV, 1}}, false);
      }
      variant("delays", hk::DELAY, false, 0);
      variant("delays+callback", hk::DELAY, true, 0);
      if (!light) variant("after-unrelated", hk::FREE, false, 2);
      variant("forced-xy", hk::FORCE_XY, false, 0);
      variant("forced-yx", hk::FORCE_YX, true, 0);
      if (!light) variant("forced-alternating", hk::FORCE_ALT, false, 0);
      if (!light) variant("after-unrelated+callback", hk::DELAY, true, 2);
      aliasing("callback-overwrites-its-parameters", hk::FREE, false);
      if (!light) aliasing("callback-overwrites-parameters+setter-arguments+copy-source", hk::DELAY, true);
      }
      hk::reset(hk::FREE, 0);
      if (!diff.empty()) { printf("DIFF %s\n", diff.c_str()); fflush(stdout); continue; }
      printf("OK runs=%d scrib=%ld fill=%ld amb=%ld ambout=%ld par=%llx lb=%ld hook=%ld forced=%ld unforced=%ld axis=%d cbsig=%llu sol=%s | %s | %s\n", runs, scribbles, fills,
             ambRuns, amb::captured - captured0, (unsigned long long)pmask, cbBase.lb,
             hk::calls.load(std::memory_order_relaxed) - hook0, hk::forced - forced0, hk::unforced - unforced0, (int)hk::axisOk,
             (unsigned long long)cbBase.cbsig, base.stage[0].c_str(), base.stage[1].c_str(), base.stage[2].c_str());
    } catch (std::exception &ex) { printf("THROW-OUTER %s\n", ex.what()); }
    fflush(stdout);
  }
  return 0;
}
