// C01 / C02 harness for the models of the INTERNAL check() functions (coq/InternalChecks.v, InternalChecksDetailed.v)
//   ichecks run SEED < cases          (cases: the LG lines of `legal gen`, the DW lines of `drun gen`, EX lines)
// Before the output of input line k (0-based) the harness prints "@ k".
// Every other output line is "<driver input> => <expected driver output>[ # kind]" (kind: -1 = a state the library reached, k >= 0 = corrupted
// copy of kind k; DP lines only): the left part is a case for ocaml/driver_ichecks.ml
// (built from what the C++ holds), the right part is what the C++ answered, in the driver's output format.
//   LG ...  -> "AB nrows rows* ncells cells* npert (kind i j v)* => res ; cellToX_* ; rowToCells_ ; res_pert*"
//              the legalizer is driven as Legalizer::run does (computeCellOrder, runTetris, then the body of runAbacus with the
//              AbacusLegalizer kept): AbacusLegalizer::run() (which ends with check()), then check() on corrupted copies
//   EX ncells fixed* n -> "EX ... => res"   Legalizer::exportPlacement of a legalizer with n cells into a circuit with these flags
//   DW ...  -> several lines "DP <arrays> => res": DetailedPlacer::check() on the placer built from the legalized circuit, before
//              and after run(), and on copies with ONE entry of one private vector overwritten (restored afterwards)
// res = "ok" or the text of the std::runtime_error.  Perturbations never make check() read out of bounds or loop.
#include "vh.hpp"
#include <optional>
#include <unordered_set>
#define private public
#define protected public
#include "place_detailed/place_detailed.hpp"
#include "place_detailed/legalizer.hpp"
#include "place_detailed/abacus_legalizer.hpp"
#undef private
#undef protected
#include "cgen.hpp"

template <class F> static std::string outcome(F f) { try { f(); return "ok"; } catch (std::exception &e) { return e.what(); } }

// ---------------------------------------------------------------- C01
static void runAbacusCase(const std::string &line, SplitMix &g) {
  IntReader r; r.v = vh_ints(line.substr(3));
  TCircuit t = readRowsCells(r);
  int custom = r.nx(), ow = r.nx(), oy = r.nx(), oh = r.nx(), effort = r.nx();
  Circuit c = buildCircuit(t);
  ColoquinteParameters p(effort);
  if (custom) { p.legalization.orderingWidth = ow / 10.0; p.legalization.orderingY = oy / 10.0; p.legalization.orderingHeight = oh / 10.0; }
  Legalizer leg = Legalizer::fromIspdCircuit(c);
  if (leg.rows_.empty()) { printf("SKIP norows\n"); return; }
  std::vector<int> order = leg.computeCellOrder(1.0, p.legalization.orderingWidth, p.legalization.orderingY, p.legalization.orderingHeight);
  leg.runTetris(order);
  // the body of Legalizer::runAbacus (legalizer.cpp:332-353)
  std::vector<Row> rr = leg.remainingRows();
  std::vector<int> w, h, x, y; std::vector<CellRowPolarity> pp; std::vector<CellOrientation> o;
  for (int cc : order) {
    if (leg.isPlaced(cc)) continue;
    if (leg.cellHeight_[cc] != leg.rowHeight()) continue;
    w.push_back(leg.cellWidth_[cc]); h.push_back(leg.cellHeight_[cc]); pp.push_back(leg.cellRowPolarity_[cc]);
    x.push_back(leg.cellTargetX_[cc]); y.push_back(leg.cellTargetY_[cc]); o.push_back(leg.cellTargetOrientation_[cc]);
  }
  AbacusLegalizer ab(rr, w, h, pp, x, y, o);
  std::string res1 = outcome([&] { ab.run(); });
  int n = ab.nbCells(), nr = ab.nbRows();
  std::ostringstream in, out;
  in << "AB " << rr.size(); for (Row &q : rr) in << " " << q.minX << " " << q.maxX << " " << q.minY << " " << q.maxY << " " << (int)q.orientation;
  in << " " << n; for (int i = 0; i < n; ++i) in << " " << w[i] << " " << h[i] << " " << polInt(pp[i]) << " " << x[i] << " " << y[i] << " " << (int)o[i];
  out << res1 << " ;"; for (int i = 0; i < n; ++i) out << " " << ab.cellToX_[i];
  out << " ; " << nr; for (int i = 0; i < nr; ++i) { out << " " << ab.rowToCells_[i].size(); for (int cc : ab.rowToCells_[i]) out << " " << cc; }
  int np = 4; in << " " << np;
  for (int k = 0; k < np; ++k) {
    AbacusLegalizer a2 = ab; int kind = (int)g.uni(0, 6), i = 0, j = 0; long long v = 0;
    std::vector<int> ne; for (int q = 0; q < nr; ++q) if (!ab.rowToCells_[q].empty()) ne.push_back(q);
    if ((kind <= 1 && n == 0) || (kind == 2 && ne.empty()) || (kind >= 3 && kind <= 5 && nr == 0)) kind = 6;
    if (kind == 2) { i = ne[g.uni(0, ne.size() - 1)]; j = (int)g.uni(0, ab.rowToCells_[i].size() - 1); v = g.uni(0, n - 1); a2.rowToCells_[i][j] = (int)v; }
    if (kind == 0) { i = (int)g.uni(0, n - 1); v = ab.cellToX_[i] + g.uni(-6, 6); a2.cellToX_[i] = (int)v; }
    else if (kind == 1) { i = (int)g.uni(0, n - 1); v = ab.cellWidth_[i] + g.uni(-3, 5); a2.cellWidth_[i] = (int)v; }
    else if (kind == 3) { i = (int)g.uni(0, nr - 1); v = a2.rows_[i].minX + g.uni(-3, 4); a2.rows_[i].minX = (int)v; }
    else if (kind == 4) { i = (int)g.uni(0, nr - 1); v = a2.rows_[i].maxX + g.uni(-4, 3); a2.rows_[i].maxX = (int)v; }
    else if (kind == 5) { i = (int)g.uni(0, nr - 1); v = a2.rows_[i].maxY + g.uni(-1, 1); a2.rows_[i].maxY = (int)v; }
    else if (kind == 6) {
      i = (int)g.uni(0, 6); v = g.uni(-5, 5);
      switch (i) {
        case 0: a2.cellHeight_.push_back((int)v); break;
        case 1: a2.cellTargetX_.push_back((int)v); break;
        case 2: a2.cellTargetY_.push_back((int)v); break;
        case 3: a2.cellTargetOrientation_.push_back(CellOrientation::N); break;
        case 4: a2.cellToX_.push_back((int)v); break;
        case 5: a2.cellToY_.push_back((int)v); break;
        default: a2.cellToOrientation_.push_back(CellOrientation::N); break;
      }
    }
    in << " " << kind << " " << i << " " << j << " " << v;
    out << " ; " << outcome([&] { a2.check(); });
  }
  printf("%s => %s\n", in.str().c_str(), out.str().c_str());
}

static void runExportCase(const std::string &line) {
  IntReader r; r.v = vh_ints(line.substr(3));
  int nc = (int)r.nx(); std::vector<bool> fx(nc); for (int i = 0; i < nc; ++i) fx[i] = r.nx() != 0;
  int n = (int)r.nx();
  Circuit c(nc); c.setCellIsFixed(fx);
  std::vector<Row> rows; rows.emplace_back(0, 100, 0, 2, CellOrientation::N);
  std::vector<int> z(n, 0); std::vector<CellRowPolarity> pp(n, CellRowPolarity::ANY); std::vector<CellOrientation> oo(n, CellOrientation::N);
  Legalizer leg(rows, z, z, pp, z, z, oo);
  std::string res = outcome([&] { leg.exportPlacement(c); });
  printf("%s => %s\n", line.c_str(), res.c_str());
}

// ---------------------------------------------------------------- C02
static void dumpIncr(std::ostringstream &s, const IncrNetModel &m) {
  s << " " << m.cellPos_.size(); for (int v : m.cellPos_) s << " " << v;
  int nn = (int)m.netLimits_.size() - 1; s << " " << nn;
  for (int i = 0; i < nn; ++i) { s << " " << m.netLimits_[i + 1] - m.netLimits_[i]; for (int j = m.netLimits_[i]; j < m.netLimits_[i + 1]; ++j) s << " " << m.netCells_[j] << " " << m.netPinOffsets_[j]; }
  s << " " << m.netMinMaxPos_.size(); for (auto &q : m.netMinMaxPos_) s << " " << q.first << " " << q.second;
  s << " " << (long long)m.value_;
}
template <class V> static void dumpVec(std::ostringstream &s, const V &v) { s << " " << v.size(); for (auto x : v) s << " " << (long long)x; }
static std::string dumpPlacer(const DetailedPlacer &pl) {
  const DetailedPlacement &d = pl.placement_; std::ostringstream s;
  s << "DP " << d.rows_.size(); for (const Row &q : d.rows_) s << " " << q.minX << " " << q.maxX << " " << q.minY << " " << (int)q.orientation;
  dumpVec(s, d.rowFirstCell_); dumpVec(s, d.rowLastCell_); dumpVec(s, d.cellWidth_); dumpVec(s, d.cellPred_); dumpVec(s, d.cellNext_);
  dumpVec(s, d.cellRow_); dumpVec(s, d.cellX_); dumpVec(s, d.cellY_);
  s << " " << d.cellOrientation_.size(); for (auto o : d.cellOrientation_) s << " " << (int)o;
  s << " " << d.cellRowPolarity_.size(); for (auto q : d.cellRowPolarity_) s << " " << polInt(q);
  s << " " << d.cellIndex_.size();
  dumpIncr(s, pl.xtopo_); dumpIncr(s, pl.ytopo_);
  return s.str();
}
static void emit(DetailedPlacer &pl, int kind = -1) { std::string st = dumpPlacer(pl); printf("%s => %s # %d\n", st.c_str(), outcome([&] { pl.check(); }).c_str(), kind); }

// one entry of one private vector overwritten, check() evaluated, the entry restored
static void perturbPlacer(DetailedPlacer &pl, SplitMix &g) {
  DetailedPlacement &d = pl.placement_; int n = d.nbCells(), nr = d.nbRows();
  long long dl = g.uni(1, 3) * (g.coin(50) ? 1 : -1);
  std::vector<int> placed; for (int c = 0; c < n; ++c) if (d.cellRow_[c] != -1) placed.push_back(c);
  int kind = (int)g.uni(0, 14);
  if (n == 0) kind = 13;
  if (kind == 14 && pl.xtopo_.netCells_.empty()) kind = 8;
  if ((kind == 3 || kind == 2 || kind == 11) && placed.empty()) kind = 0;
  if ((kind == 5 || kind == 6 || kind == 12) && nr == 0) kind = 0;
  if (kind == 9 && pl.xtopo_.netMinMaxPos_.empty()) kind = 8;
  switch (kind) {
    case 0: { int c = (int)g.uni(0, n - 1); int old = d.cellX_[c]; d.cellX_[c] = old + (int)dl; emit(pl, kind); d.cellX_[c] = old; break; }
    case 1: { int c = (int)g.uni(0, n - 1); int old = d.cellWidth_[c]; d.cellWidth_[c] = old + (int)dl; emit(pl, kind); d.cellWidth_[c] = old; break; }
    case 2: { int c = placed[g.uni(0, placed.size() - 1)]; int old = d.cellPred_[c]; d.cellPred_[c] = (int)g.uni(-1, n - 1); emit(pl, kind); d.cellPred_[c] = old; break; }
    case 3: { int c = placed[g.uni(0, placed.size() - 1)]; int old = d.cellNext_[c];
              // never a cycle: -1, the cell itself (positive width: "Overlap with the successor"), or a cell of another row
              int v = -1; int pick = (int)g.uni(0, 2);
              if (pick == 1 && d.cellWidth_[c] > 0) v = c;
              if (pick == 2) { int o2 = (int)g.uni(0, n - 1); if (d.cellRow_[o2] != d.cellRow_[c]) v = o2; }
              d.cellNext_[c] = v; emit(pl, kind); d.cellNext_[c] = old; break; }
    case 4: { int c = (int)g.uni(0, n - 1); int old = d.cellRow_[c]; d.cellRow_[c] = (int)g.uni(-2, nr); emit(pl, kind); d.cellRow_[c] = old; break; }
    case 5: { int q = (int)g.uni(0, nr - 1); int old = d.rowFirstCell_[q]; d.rowFirstCell_[q] = (int)g.uni(-1, n - 1); emit(pl, kind); d.rowFirstCell_[q] = old; break; }
    case 6: { int q = (int)g.uni(0, nr - 1); int old = d.rowLastCell_[q]; d.rowLastCell_[q] = (int)g.uni(-1, n - 1); emit(pl, kind); d.rowLastCell_[q] = old; break; }
    case 7: { int c = (int)g.uni(0, n - 1); auto old = d.cellOrientation_[c]; d.cellOrientation_[c] = (CellOrientation)g.uni(0, 7); emit(pl, kind); d.cellOrientation_[c] = old; break; }
    case 8: { IncrNetModel &m = g.coin(50) ? pl.xtopo_ : pl.ytopo_; int c = (int)g.uni(0, m.cellPos_.size() - 1); int old = m.cellPos_[c]; m.cellPos_[c] = old + (int)dl; emit(pl, kind); m.cellPos_[c] = old; break; }
    case 9: { IncrNetModel &m = pl.xtopo_; int k = (int)g.uni(0, m.netMinMaxPos_.size() - 1); auto old = m.netMinMaxPos_[k];
              if (g.coin(50)) m.netMinMaxPos_[k].first += (int)dl; else m.netMinMaxPos_[k].second += (int)dl; emit(pl, kind); m.netMinMaxPos_[k] = old; break; }
    case 10: { IncrNetModel &m = g.coin(50) ? pl.xtopo_ : pl.ytopo_; auto old = m.value_; m.value_ += dl; emit(pl, kind); m.value_ = old; break; }
    case 11: { int c = placed[g.uni(0, placed.size() - 1)]; int old = d.cellY_[c]; d.cellY_[c] = old + (int)dl; emit(pl, kind); d.cellY_[c] = old; break; }
    case 12: { int q = (int)g.uni(0, nr - 1); Row old = d.rows_[q]; if (g.coin(50)) d.rows_[q].minX += (int)dl; else d.rows_[q].maxX += (int)dl; emit(pl, kind); d.rows_[q] = old; break; }
    case 14: { IncrNetModel &m = g.coin(50) ? pl.xtopo_ : pl.ytopo_; int j = (int)g.uni(0, m.netCells_.size() - 1); int old = m.netCells_[j];
               m.netCells_[j] = (int)m.cellPos_.size() + (int)g.uni(0, 2); emit(pl, kind); m.netCells_[j] = old; break; }   // "Invalid cell number": tested before any use
    default: { d.cellIndex_.push_back(0); emit(pl, kind); d.cellIndex_.pop_back(); break; }
  }
}

static void runPlacerCase(const std::string &line, SplitMix &g) {
  IntReader r; r.v = vh_ints(line.substr(3));
  TCircuit t = readRowsCells(r); readNets(r, t);
  Circuit c = buildCircuit(t);
  ColoquinteParameters p(3);
  p.detailed.nbPasses = (int)r.nx(); p.detailed.localSearchNbNeighbours = (int)r.nx(); p.detailed.localSearchNbRows = (int)r.nx();
  p.detailed.shiftNbRows = (int)r.nx(); p.detailed.shiftMaxNbCells = (int)r.nx(); p.detailed.reorderingNbRows = (int)r.nx();
  p.detailed.reorderingMaxNbCells = (int)r.nx();
  try { DetailedPlacer::legalize(c, p, std::nullopt); } catch (std::exception &e) { printf("SKIP noleg\n"); return; }
  p.check();
  DetailedPlacer pl(c, p);
  emit(pl); for (int k = 0; k < 3; ++k) perturbPlacer(pl, g);
  pl.run();
  emit(pl); for (int k = 0; k < 3; ++k) perturbPlacer(pl, g);
}

int main(int argc, char **argv) {
  SplitMix g(argc > 2 ? strtoull(argv[2], nullptr, 10) : 1);
  vh_install(); vh_silence();
  std::string line; long long lineNo = -1;
  while (std::getline(std::cin, line)) {
    ++lineNo;
    if (line.size() < 3) continue;
    printf("@ %lld\n", lineNo);
    if (sigsetjmp(vh_jmp, 1)) { printf("SIGNAL %s\n", vh_signame()); fflush(stdout); continue; }
    try {
      if (line[0] == 'L') runAbacusCase(line, g);
      else if (line[0] == 'E') runExportCase(line);
      else if (line[0] == 'D') runPlacerCase(line, g);
    } catch (std::exception &ex) { printf("SKIP throw %s\n", ex.what()); }
    fflush(stdout);
  }
  return 0;
}
