// C17 harness: NetModel / MatrixCreator / solvers / Circuit::placeGlobal from /repo's working tree.
// MatrixCreator is defined in net_model.cpp, so that file is #included (the archive member net_model.o is then
// never pulled in by the linker: every symbol it defines is defined here, from the same source).
//   quad gen asm SEED COUNT     quad gen solve SEED COUNT     quad gen place SEED COUNT     quad gen fasm SEED COUNT
//   quad gen placep SEED COUNT (PLACE lines with a parameter tail) / placecb (PLACECB lines)
//   quad gen casm SEED COUNT (CASM lines) / csolve (CSOLVE lines): net models built from a circuit through x/yTopology, see genCirc
//   quad gen coin SEED COUNT (ASM lines) / fcoin (FASM lines) / scoin (SOLVE lines, kinds 1..4): EXACT coincidences of pin positions, see genCoin
//   quad run < cases
// A rational is "num e" = num / 2^e (e >= 0, |num| < 2^24): exactly a float.
// ASM mode nbCells eps nNets { nPins w {cell off}*nPins fx [mn mx] }*nNets npl {pl}*npl pen [cutoff {target strength}*nbCells]
//   mode: 0 createStar(topo) 1 B2B 2 Star 3 Clique 4 LightStar (create(topo,pl,eps,model)) 5 addBipoint(net) 6 addClique(net)
//   fx=1: 5-argument addNet with finite minPin/maxPin; fx=0: 3-argument addNet
//   result: "n | r c num e;... | num e;... (rhs) | (initial) | (netWeight read back) | (normalised triplets) | (normalised rhs) # IX=<FE_INEXACT raised> H=<OK|BAD ...>"
//   (normalised = what MatrixCreator::solve hands to Eigen: check(); normalize(); finalize())
//   (a value that is not finite is printed "inf 0", "-inf 0" or "nan 0", one above 2^62 "huge 0")
//   (system after finalize(); H = the harness's own homogeneity test: weights and strengths times 2 and times 1/2 must give
//    exactly 2 / 0.5 times every triplet and rhs entry before finalize())
// SOLVE kind tol maxit <ASM body>   kind: 0 solveStar(params) 1 solve 2 solveWithPenalty 3 solveStar(pl) 4 solveB2B(pl,tg,st)
//   5 solve(solveStar(params), params): the first initial step of GlobalPlacer::runInitialLB (no penalty)
//   result: for each factor in 1 2 0.25 1024 2.5 7 2^-20 2^-24: the result vector as float bit patterns, separated by " | "
// FASM k <ASM body>   the assembled system (after finalize()) as binary32 bit patterns, with every net weight and penalty strength
//   multiplied by 2^0 and by 2^k (std::ldexp: exact unless it underflows/overflows); here a rational "num e" may have e < 0 or
//   e > 24 (tiny / huge weights).  result: "n pre | r c bits;... | bits;... (rhs) | bits;... (initial) | bits;... (netWeight)" for
//   factor 1, then " || " and the same for factor 2^k        (tie with the Flocq model coq/QuadFloat.v, bit for bit)
// SOLVEK k kind tol maxit <ASM body>   as SOLVE, for the factors 2^0 and 2^k only (std::ldexp on every weight and strength; "num e" may
//   have any e): the two result vectors as float bit patterns, separated by " | "   (range of k in which the conjugate gradient
//   is scale-covariant: design/C17.md, "What the theorem does not give")
// CASM axis mode epsN epsE W nrows rowh ox oy ncells {w h fixed x y}* nnets { np wN wE {cell xo yo}*np }* npl {pl}*npl pen [cutoff {target strength}*ncells]
//   the net model is built from a CIRCUIT (cells, rows [ox, ox+W] x nrows rows of height rowh from oy, nets with integer pin offsets from
//   the lower-left corner, weight wN / 2^wE) by NetModel::xTopology (axis 0) or yTopology (axis 1) -- the path Circuit::placeGlobal uses --
//   then assembled exactly as ASM (same modes 0..4, same result format; the homogeneity test rebuilds the circuit with the weights times 2, 1/2)
// CSOLVE kind tol maxit <CASM body from axis on>    the same for SOLVE (same kinds, factors and result format)
//   streams "casm" / "csolve": nets with several pins on ONE movable cell (listed twice, aligned in one axis, all on one cell), see genCirc
// PLACEAT ox oy <PLACE body>   the same with the rows and the cells translated by (ox, oy) (finding F30: no fixed cell, offsets up to 2^22)
// PLACE netmodel seed maxsteps W nrows rowh ncells {w fixed x y}* nnets { np w4 {cell xo yo}* }*
//   result: per factor in 1 2 0.5 2.5 7 (weights and penalty.initialValue times the factor):
//     "T<s> x y x y ... ;" per callback (s = L lower bound, U upper bound, P penalty update) and "TF ..." at the end; then " # W "
//     netWeight read back from x/yTopology at factor 1
//   optional tail (stream "placep"): npar { id num den }*   accepted parameter values other than the defaults, value = num / den in
//     double (correctly rounded: 49/100 is the literal 0.49); id 0 = effort of the ColoquinteParameters constructor, the others see
//     setPlaceParam; penalty.initialValue (id 15) is the BASE strength, still multiplied by the factor.  ColoquinteParameters::check()
//     is called first: "REJECTED <what>" when it throws (the case is then outside the accepted domain, not a C17 matter)
// PLACECB nact { cb kind seed }*nact <PLACE body, with or without the parameter tail>      (stream "placecb")
//   placeGlobal with a callback that does something LEGITIMATE in the middle of the run: at callback number cb (0-based, all step
//   kinds counted) kind 0 only reads (solution, hpwl), 1 Circuit::setCellWidth (35 % of the movable cells by -2..+3, never below 1,
//   the movable area kept under 85 % of the free row area), 2 Circuit::setCellHeight (15 % of the movable cells toggled between one
//   and two row heights, same cap), 3 Circuit::setNetWeights (every net a new weight k/4, k = 1..12, times the factor of the run).
//   These are the setters the in-use guard (Circuit::checkNotInUse) does not refuse while a placement runs.  What the action does
//   depends on (seed, current sizes) only, never on the factor.
//   result: per factor in 1 4 0.125 (net weights, setNetWeights arguments and penalty.initialValue times the factor) the trace of
//   PLACE with "A<kind> v v ...;" after the callback at which an action fired (the new widths / heights / weights*4), " | " between
//   the factors; "REJECTED <what>" as for PLACE
#include "vh.hpp"
#include <cfenv>
#include <cmath>
#include <functional>
#include <optional>
#include <stdexcept>
#include <tuple>
#define private public
#define protected public
#include "coloquinte.hpp"
#include "place_global/net_model.cpp"
using namespace coloquinte;

struct Rd { std::vector<long long> v; size_t p = 0; long long nx() { if (p >= v.size()) throw std::runtime_error("short case line"); return v[p++]; }
  float q() { long long n = nx(); long long e = nx(); return std::ldexp((float)n, -(int)e); }
  bool more() const { return p < v.size(); } };

static std::string showf(float v) {
  if (v == 0.0f) return "0 0";
  if (!std::isfinite(v)) return std::isnan(v) ? "nan 0" : (v > 0 ? "inf 0" : "-inf 0");
  int ex; float m = std::frexp(v, &ex);
  long long mant = (long long)std::ldexp(m, 24); int e2 = ex - 24;
  while (mant % 2 == 0) { mant /= 2; ++e2; }
  char b[64];
  if (e2 >= 0) { if (e2 > 38) return "huge 0"; snprintf(b, 64, "%lld 0", mant * (1LL << e2)); }
  else snprintf(b, 64, "%lld %d", mant, -e2);
  return b;
}
static std::string qstr(long long n, int e) { while (e > 0 && n % 2 == 0) { n /= 2; --e; } char b[48]; snprintf(b, 48, "%lld %d", n, e); return b; }

struct NetIn { std::vector<int> cells; std::vector<float> offs; float w; bool fx; float mn, mx; };
struct Body { int mode, nc; float eps; std::vector<NetIn> nets; std::vector<float> pl; bool pen; float cutoff; std::vector<float> tg, st; };

static Body readBody(Rd &r) {
  Body b; b.mode = (int)r.nx(); b.nc = (int)r.nx(); b.eps = r.q(); int nn = (int)r.nx();
  for (int i = 0; i < nn; ++i) {
    NetIn n; int np = (int)r.nx(); n.w = r.q();
    for (int j = 0; j < np; ++j) { n.cells.push_back((int)r.nx()); n.offs.push_back(r.q()); }
    n.fx = r.nx() != 0; n.mn = n.mx = 0; if (n.fx) { n.mn = r.q(); n.mx = r.q(); }
    b.nets.push_back(n);
  }
  int npl = (int)r.nx(); for (int i = 0; i < npl; ++i) b.pl.push_back(r.q());
  b.pen = r.nx() != 0; b.cutoff = 0;
  if (b.pen) { b.cutoff = r.q(); for (int i = 0; i < b.nc; ++i) { b.tg.push_back(r.q()); b.st.push_back(r.q()); } }
  return b;
}
static NetModel buildNM(const Body &b, float f) {
  NetModel nm(b.nc);
  for (auto &n : b.nets) {
    if (n.fx) nm.addNet(n.cells, n.offs, n.mn, n.mx, n.w * f); else nm.addNet(n.cells, n.offs, n.w * f);
  }
  nm.check();
  return nm;
}
static NetModelOption optOf(int mode) { return mode == 1 ? NetModelOption::BoundToBound : mode == 2 ? NetModelOption::Star : mode == 3 ? NetModelOption::Clique : NetModelOption::LightStar; }

struct Sys { std::vector<Eigen::Triplet<float>> mat, nmat; std::vector<float> rhs, init, nrhs; size_t pre; bool inexact; };   // nmat, nrhs: what solve() hands to Eigen: check(); normalize(); finalize()
__attribute__((noinline)) static Sys assembleSt(const NetModel &nm, const Body &b, const std::vector<float> &st) {
  std::feclearexcept(FE_ALL_EXCEPT);
  MatrixCreator mc = b.mode == 0 ? MatrixCreator::createStar(nm)
                   : b.mode <= 4 ? MatrixCreator::create(nm, b.pl, b.eps, optOf(b.mode)) : MatrixCreator(nm);
  if (b.mode == 5) for (int i = 0; i < nm.nbNets(); ++i) mc.addBipoint(i);
  if (b.mode == 6) for (int i = 0; i < nm.nbNets(); ++i) mc.addClique(i);
  if (b.pen) mc.addPenalty(b.pl, b.tg, st, b.cutoff);
  Sys s; s.pre = mc.mat_.size();
  MatrixCreator mn = mc;                       // the path of MatrixCreator::solve up to the call of Eigen
  mc.check(); mc.finalize();
  s.inexact = std::fetestexcept(FE_INEXACT) != 0;
  s.mat = mc.mat_; s.rhs = mc.rhs_; s.init = mc.initial_;
  mn.check(); mn.normalize(); mn.finalize();
  s.nmat = mn.mat_; s.nrhs = mn.rhs_;
  return s;
}
static Sys assemble(const NetModel &nm, const Body &b, float f) {
  std::vector<float> st = b.st; for (auto &s : st) s *= f;
  return assembleSt(nm, b, st);
}
static std::string homog(const Sys &a, const Sys &k, float f) {
  char buf[256];
  if (a.pre != k.pre || a.rhs.size() != k.rhs.size()) { snprintf(buf, 256, "BAD k=%g sizes differ", f); return buf; }
  for (size_t i = 0; i < a.pre; ++i) {
    if (a.mat[i].row() != k.mat[i].row() || a.mat[i].col() != k.mat[i].col() || !(k.mat[i].value() == f * a.mat[i].value())) {
      snprintf(buf, 256, "BAD k=%g triplet %zu (%d,%d)=%.9g but (%d,%d)=%.9g at weights*k (expected %.9g)", f, i, a.mat[i].row(), a.mat[i].col(),
               a.mat[i].value(), k.mat[i].row(), k.mat[i].col(), k.mat[i].value(), f * a.mat[i].value()); return buf; }
  }
  for (size_t i = 0; i < a.rhs.size(); ++i)
    if (!(k.rhs[i] == f * a.rhs[i])) { snprintf(buf, 256, "BAD k=%g rhs[%zu]=%.9g but %.9g at weights*k (expected %.9g)", f, i, a.rhs[i], k.rhs[i], f * a.rhs[i]); return buf; }
  return "";
}

typedef std::function<NetModel(float)> NmBuilder;     // the net model with every net weight times the factor
static void runAsmWith(const Body &b, const NmBuilder &build) {
  NetModel nm = build(1.0f);
  Sys s = assemble(nm, b, 1.0f);
  std::string out; char buf[96];
  snprintf(buf, 96, "%zu | ", s.rhs.size()); out += buf;
  for (size_t i = 0; i < s.mat.size(); ++i) { snprintf(buf, 96, "%s%d %d %s", i ? ";" : "", s.mat[i].row(), s.mat[i].col(), showf(s.mat[i].value()).c_str()); out += buf; }
  out += " | "; for (size_t i = 0; i < s.rhs.size(); ++i) { out += (i ? ";" : ""); out += showf(s.rhs[i]); }
  out += " | "; for (size_t i = 0; i < s.init.size(); ++i) { out += (i ? ";" : ""); out += showf(s.init[i]); }
  out += " | "; for (int i = 0; i < nm.nbNets(); ++i) { out += (i ? ";" : ""); out += showf(nm.netWeight(i)); }
  out += " | "; for (size_t i = 0; i < s.nmat.size(); ++i) { snprintf(buf, 96, "%s%d %d %s", i ? ";" : "", s.nmat[i].row(), s.nmat[i].col(), showf(s.nmat[i].value()).c_str()); out += buf; }
  out += " | "; for (size_t i = 0; i < s.nrhs.size(); ++i) { out += (i ? ";" : ""); out += showf(s.nrhs[i]); }
  std::string h;
  for (float f : {2.0f, 0.5f}) { NetModel nk = build(f); Sys sk = assemble(nk, b, f); h = homog(s, sk, f); if (!h.empty()) break; }
  snprintf(buf, 96, " # IX=%d H=", s.inexact ? 1 : 0); out += buf; out += h.empty() ? "OK" : h;
  printf("%s\n", out.c_str());
}
static void runAsm(Rd &r) {
  Body b = readBody(r);
  runAsmWith(b, [&](float f) { return buildNM(b, f); });
}

static std::string bitsf(float v) { uint32_t u; memcpy(&u, &v, 4); char b[16]; snprintf(b, 16, "%08x", u); return b; }
static void runFasm(Rd &r) {
  int k = (int)r.nx();
  Body b = readBody(r);
  std::string out;
  for (int pass = 0; pass < 2; ++pass) {
    int kk = pass ? k : 0;
    NetModel nm(b.nc);
    for (auto &n : b.nets) { float w = std::ldexp(n.w, kk); if (n.fx) nm.addNet(n.cells, n.offs, n.mn, n.mx, w); else nm.addNet(n.cells, n.offs, w); }
    nm.check();
    std::vector<float> st = b.st; for (auto &s : st) s = std::ldexp(s, kk);
    Sys s = assembleSt(nm, b, st);
    char buf[96];
    if (pass) out += " || ";
    snprintf(buf, 96, "%zu %zu | ", s.rhs.size(), s.pre); out += buf;
    for (size_t i = 0; i < s.mat.size(); ++i) { snprintf(buf, 96, "%s%d %d %s", i ? ";" : "", s.mat[i].row(), s.mat[i].col(), bitsf(s.mat[i].value()).c_str()); out += buf; }
    out += " | "; for (size_t i = 0; i < s.rhs.size(); ++i) { out += (i ? ";" : ""); out += bitsf(s.rhs[i]); }
    out += " | "; for (size_t i = 0; i < s.init.size(); ++i) { out += (i ? ";" : ""); out += bitsf(s.init[i]); }
    out += " | "; for (int i = 0; i < nm.nbNets(); ++i) { out += (i ? ";" : ""); out += bitsf(nm.netWeight(i)); }
    out += " | "; for (size_t i = 0; i < s.nmat.size(); ++i) { out += (i ? ";" : ""); out += bitsf(s.nmat[i].value()); }
    out += " | "; for (size_t i = 0; i < s.nrhs.size(); ++i) { out += (i ? ";" : ""); out += bitsf(s.nrhs[i]); }
  }
  printf("%s\n", out.c_str());
}

static const float kSolveFactors[8] = {1.0f, 2.0f, 0.25f, 1024.0f, 2.5f, 7.0f, 1.0f / 1048576.0f, 1.0f / 16777216.0f};   // the last two: 2^-20, 2^-24 (tiny common factors, e.g. weights normalised to sum to one)
static void runSolveWith(int kind, float tol, int maxit, const Body &b, const NmBuilder &build) {
  std::string out;
  for (int k = 0; k < 8; ++k) {
    float f = kSolveFactors[k];
    NetModel nm = build(f);
    std::vector<float> st = b.st; for (auto &s : st) s *= f;
    NetModel::Parameters p; p.netModel = optOf(b.mode); p.approximationDistance = b.eps; p.penaltyCutoffDistance = b.cutoff;
    p.tolerance = tol; p.maxNbIterations = maxit;
    std::vector<float> res;
    if (kind == 0) res = nm.solveStar(p);
    else if (kind == 1) res = nm.solve(b.pl, p);
    else if (kind == 2) res = nm.solveWithPenalty(b.pl, b.tg, st, p);
    else if (kind == 3) res = nm.solveStar(b.pl, p);
    else if (kind == 5) res = nm.solve(nm.solveStar(p), p);
    else res = nm.solveB2B(b.pl, b.tg, st, p);
    if (k) out += " | ";
    for (size_t i = 0; i < res.size(); ++i) { uint32_t u; memcpy(&u, &res[i], 4); char buf[16]; snprintf(buf, 16, "%s%08x", i ? " " : "", u); out += buf; }
  }
  printf("%s\n", out.c_str());
}
static void runSolve(Rd &r) {
  int kind = (int)r.nx(); float tol = r.q(); int maxit = (int)r.nx();
  Body b = readBody(r);
  runSolveWith(kind, tol, maxit, b, [&](float f) { return buildNM(b, f); });
}

// ---- CASM / CSOLVE: the net model is built from a CIRCUIT through NetModel::xTopology / yTopology (the path Circuit::placeGlobal uses),
// not by NetModel::addNet calls of the harness.  The rest is runAsm / runSolve unchanged (same result format).
struct Circ { int axis, W, nrows, rowh, ox, oy, nc; std::vector<int> cw, ch, cx, cy; std::vector<bool> fx;
  struct N { std::vector<int> c, xo, yo; float w; }; std::vector<N> nets; };
static Circ readCirc(Rd &r, Body &b) {
  Circ c; c.axis = (int)r.nx(); b.mode = (int)r.nx(); b.eps = r.q();
  c.W = (int)r.nx(); c.nrows = (int)r.nx(); c.rowh = (int)r.nx(); c.ox = (int)r.nx(); c.oy = (int)r.nx(); c.nc = (int)r.nx(); b.nc = c.nc;
  for (int i = 0; i < c.nc; ++i) { c.cw.push_back((int)r.nx()); c.ch.push_back((int)r.nx()); c.fx.push_back(r.nx() != 0); c.cx.push_back((int)r.nx()); c.cy.push_back((int)r.nx()); }
  int nn = (int)r.nx();
  for (int i = 0; i < nn; ++i) { Circ::N n; int np = (int)r.nx(); n.w = r.q();
    for (int j = 0; j < np; ++j) { n.c.push_back((int)r.nx()); n.xo.push_back((int)r.nx()); n.yo.push_back((int)r.nx()); } c.nets.push_back(n); }
  int npl = (int)r.nx(); for (int i = 0; i < npl; ++i) b.pl.push_back(r.q());
  b.pen = r.nx() != 0; b.cutoff = 0;
  if (b.pen) { b.cutoff = r.q(); for (int i = 0; i < b.nc; ++i) { b.tg.push_back(r.q()); b.st.push_back(r.q()); } }
  return c;
}
static NetModel topoOf(const Circ &c, float f) {
  Circuit ck(c.nc);
  ck.setCellWidth(c.cw); ck.setCellHeight(c.ch); ck.setCellX(c.cx); ck.setCellY(c.cy); ck.setCellIsFixed(c.fx);
  std::vector<Row> rows; for (int i = 0; i < c.nrows; ++i) rows.emplace_back(c.ox, c.ox + c.W, c.oy + i * c.rowh, c.oy + (i + 1) * c.rowh, i % 2 ? CellOrientation::FS : CellOrientation::N);
  ck.setRows(rows);
  for (auto &n : c.nets) ck.addNet(n.c, n.xo, n.yo, n.w * f);
  return c.axis ? NetModel::yTopology(ck) : NetModel::xTopology(ck);
}
static void runCasm(Rd &r) { Body b; Circ c = readCirc(r, b); runAsmWith(b, [&](float f) { return topoOf(c, f); }); }
static void runCsolve(Rd &r) {
  int kind = (int)r.nx(); float tol = r.q(); int maxit = (int)r.nx();
  Body b; Circ c = readCirc(r, b);
  runSolveWith(kind, tol, maxit, b, [&](float f) { return topoOf(c, f); });
}

static void runSolveK(Rd &r) {
  int k = (int)r.nx(); int kind = (int)r.nx(); float tol = r.q(); int maxit = (int)r.nx();
  Body b = readBody(r);
  std::string out;
  for (int pass = 0; pass < 2; ++pass) {
    int kk = pass ? k : 0;
    NetModel nm(b.nc);
    for (auto &n : b.nets) { float w = std::ldexp(n.w, kk); if (n.fx) nm.addNet(n.cells, n.offs, n.mn, n.mx, w); else nm.addNet(n.cells, n.offs, w); }
    nm.check();
    std::vector<float> st = b.st; for (auto &s : st) s = std::ldexp(s, kk);
    NetModel::Parameters p; p.netModel = optOf(b.mode); p.approximationDistance = b.eps; p.penaltyCutoffDistance = b.cutoff;
    p.tolerance = tol; p.maxNbIterations = maxit;
    std::vector<float> res;
    if (kind == 0) res = nm.solveStar(p);
    else if (kind == 1) res = nm.solve(b.pl, p);
    else if (kind == 2) res = nm.solveWithPenalty(b.pl, b.tg, st, p);
    else if (kind == 3) res = nm.solveStar(b.pl, p);
    else if (kind == 5) res = nm.solve(nm.solveStar(p), p);
    else res = nm.solveB2B(b.pl, b.tg, st, p);
    if (pass) out += " | ";
    for (size_t i = 0; i < res.size(); ++i) { out += (i ? " " : ""); out += bitsf(res[i]); }
  }
  printf("%s\n", out.c_str());
}

static const float kPlaceFactors[5] = {1.0f, 2.0f, 0.5f, 2.5f, 7.0f};
// one parameter of the global placement stage (ids of the PLACE tail); every field ColoquinteParameters::check() constrains for placeGlobal
static void setPlaceParam(ColoquinteParameters &p, int id, double v) {
  GlobalPlacerParameters &g = p.global; PenaltyParameters &pe = g.penalty; ContinuousModelParameters &cm = g.continuousModel;
  RoughLegalizationParameters &rl = g.roughLegalization;
  switch (id) {
    case 1: g.maxNbSteps = (int)v; break;                 case 2: g.nbInitialSteps = (int)v; break;
    case 3: g.nbStepsBeforeRoughLegalization = (int)v; break;
    case 4: g.gapTolerance = v; break;                    case 5: g.distanceTolerance = v; break;
    case 6: g.penaltyUpdateDistance = v; break;           case 7: g.penaltyUpdateBackoff = v; break;
    case 8: g.exportBlending = v; break;                  case 9: g.noise = v; break;
    case 10: pe.cutoffDistance = v; break;                case 11: pe.cutoffDistanceUpdateFactor = v; break;
    case 12: pe.areaExponent = v; break;                  case 13: pe.updateFactor = v; break;
    case 14: pe.targetBlending = v; break;                case 15: pe.initialValue = v; break;
    case 16: cm.approximationDistance = v; break;         case 17: cm.approximationDistanceUpdateFactor = v; break;
    case 18: cm.maxNbConjugateGradientSteps = (int)v; break;
    case 19: cm.conjugateGradientErrorTolerance = v; break;
    case 20: rl.nbSteps = (int)v; break;                  case 21: rl.binSize = v; break;
    case 22: rl.lineReoptSize = (int)v; break;            case 23: rl.lineReoptOverlap = (int)v; break;
    case 24: rl.diagReoptSize = (int)v; break;            case 25: rl.diagReoptOverlap = (int)v; break;
    case 26: rl.squareReoptSize = (int)v; break;          case 27: rl.squareReoptOverlap = (int)v; break;
    case 28: rl.quadraticPenalty = v; break;              case 29: rl.targetBlending = v; break;
    case 30: rl.costModel = (LegalizationModel)(int)v; break;
    case 31: rl.unidimensionalTransport = v != 0; break;
    case 32: rl.sideMargin = v; break;                    case 33: rl.coarseningLimit = v; break;
    default: throw std::runtime_error("unknown PLACE parameter id");
  }
}
static const float kPlaceCbFactors[3] = {1.0f, 4.0f, 0.125f};
struct CbAct { int cb, kind; uint64_t seed; };
static int gOx = 0, gOy = 0;   // PLACEAT: translation of rows and cells
static void runPlace(Rd &r, bool withActions = false) {
  std::vector<CbAct> acts;
  if (withActions) { int na = (int)r.nx(); for (int i = 0; i < na; ++i) { CbAct a; a.cb = (int)r.nx(); a.kind = (int)r.nx(); a.seed = (uint64_t)r.nx(); acts.push_back(a); } }
  int model = (int)r.nx(); int seed = (int)r.nx(); int maxsteps = (int)r.nx();
  int W = (int)r.nx(), nrows = (int)r.nx(), rowh = (int)r.nx(); int nc = (int)r.nx();
  std::vector<int> cw(nc), cx(nc), cy(nc); std::vector<bool> fx(nc);
  for (int i = 0; i < nc; ++i) { cw[i] = (int)r.nx(); fx[i] = r.nx() != 0; cx[i] = (int)r.nx() + gOx; cy[i] = (int)r.nx() + gOy; }
  int nn = (int)r.nx();
  struct N { std::vector<int> c, xo, yo; float w; }; std::vector<N> nets;
  for (int i = 0; i < nn; ++i) { N n; int np = (int)r.nx(); n.w = (float)r.nx() / 4.0f; for (int j = 0; j < np; ++j) { n.c.push_back((int)r.nx()); n.xo.push_back((int)r.nx()); n.yo.push_back((int)r.nx()); } nets.push_back(n); }
  int effort = 3; std::vector<std::pair<int, double>> pv;
  if (r.more()) { int np = (int)r.nx(); for (int i = 0; i < np; ++i) { int id = (int)r.nx(); double n = (double)r.nx(), d = (double)r.nx(); if (id == 0) effort = (int)n; else pv.emplace_back(id, n / d); } }
  std::string out, wts;
  for (int k = 0; k < (withActions ? 3 : 5); ++k) {
    float f = withActions ? kPlaceCbFactors[k] : kPlaceFactors[k];
    Circuit c(nc);
    c.setCellWidth(cw); c.setCellHeight(std::vector<int>(nc, rowh)); c.setCellX(cx); c.setCellY(cy); c.setCellIsFixed(fx);
    std::vector<Row> rows; for (int i = 0; i < nrows; ++i) rows.emplace_back(gOx, gOx + W, gOy + i * rowh, gOy + (i + 1) * rowh, i % 2 ? CellOrientation::FS : CellOrientation::N);
    c.setRows(rows);
    for (auto &n : nets) c.addNet(n.c, n.xo, n.yo, n.w * f);
    if (k == 0) {
      NetModel xt = NetModel::xTopology(c), yt = NetModel::yTopology(c);
      // nets of the NetModel in circuit order; nets with <= 1 pin after the fixed-pin reduction are dropped by addNet
      wts = " # W"; for (int i = 0; i < xt.nbNets(); ++i) wts += " " + showf(xt.netWeight(i));
      wts += " / "; for (int i = 0; i < yt.nbNets(); ++i) wts += " " + showf(yt.netWeight(i));
    }
    ColoquinteParameters p(effort, seed);
    p.global.maxNbSteps = maxsteps;
    p.global.continuousModel.netModel = optOf(model);
    for (auto &q : pv) setPlaceParam(p, q.first, q.second);
    if (k == 0) { try { p.check(); } catch (std::exception &ex) { printf("REJECTED %s\n", ex.what()); return; } }
    p.global.penalty.initialValue *= f;
    std::string tr;
    auto dump = [&](char s) { tr += "T"; tr += s; for (int i = 0; i < nc; ++i) { char buf[48]; snprintf(buf, 48, " %d %d", c.cellX()[i], c.cellY()[i]); tr += buf; } tr += ";"; };
    // the legitimate mid-run actions of PLACECB (nothing the in-use guard refuses)
    auto fire = [&](const CbAct &a) {
      SplitMix h(a.seed); char buf[48];
      tr += "A"; tr += (char)('0' + a.kind);
      if (a.kind == 1 || a.kind == 2) {
        long long cap = (long long)W * nrows * rowh, area = 0;
        for (int i = 0; i < nc; ++i) { long long ar = (long long)c.cellWidth()[i] * c.cellHeight()[i]; if (fx[i]) cap -= ar; else area += ar; }
        std::vector<int> v = a.kind == 1 ? c.cellWidth() : c.cellHeight();
        for (int i = 0; i < nc; ++i) {
          if (fx[i]) continue;
          int nv = v[i]; long long other = a.kind == 1 ? c.cellHeight()[i] : c.cellWidth()[i];
          if (a.kind == 1) { if (h.coin(35)) nv = std::max(1, v[i] + (int)h.uni(-2, 3)); }
          else if (h.coin(15)) nv = v[i] == rowh ? 2 * rowh : rowh;
          if ((area + (nv - v[i]) * other) * 100 <= cap * 85 || nv < v[i]) { area += (nv - v[i]) * other; v[i] = nv; }
        }
        if (a.kind == 1) c.setCellWidth(v); else c.setCellHeight(v);
        for (int x : v) { snprintf(buf, 48, " %d", x); tr += buf; }
      } else if (a.kind == 3) {
        std::vector<float> w((size_t)c.nbNets());
        for (auto &x : w) { int w4 = (int)h.uni(1, 12); x = (float)w4 / 4.0f * f; snprintf(buf, 48, " %d", w4); tr += buf; }
        c.setNetWeights(w);
      } else {
        long long sum = c.hpwl(); for (int i = 0; i < nc; ++i) sum += c.cellX()[i] + c.cellY()[i];
        if (sum == 0x7fffffffffffffffLL) tr += " ?";      // the reads are not optimised away
      }
      tr += ";";
    };
    int ncb = 0;
    PlacementCallback cb = [&](PlacementStep st) {
      dump(st == PlacementStep::LowerBound ? 'L' : st == PlacementStep::UpperBound ? 'U' : st == PlacementStep::PenaltyUpdate ? 'P' : 'D');
      for (auto &a : acts) if (a.cb == ncb) fire(a);
      ++ncb;
    };
    c.placeGlobal(p, cb);
    dump('F');
    if (k) out += " | ";
    out += tr;
  }
  printf("%s%s\n", out.c_str(), wts.c_str());
}

// ---------------------------------------------------------------- generators
static int gWShift = 0;   // FASM only: every weight and penalty strength is divided by 2^gWShift (0 for the other streams)
static std::string qstrw(long long n, int e) { if (!gWShift) return qstr(n, e); while (n % 2 == 0) { n /= 2; --e; } char b[48]; snprintf(b, 48, "%lld %d", n, e + gWShift); return b; }
static std::string genBody(SplitMix &g, bool dyadic, int mode, bool wantPen, bool anchored) {
  std::ostringstream s;
  int nc = (int)g.uni(1, 6);
  long long d = 1LL << g.uni(0, 3), a = g.uni(-16, 16);
  std::vector<long long> plI(nc);                       // dyadic: integer positions; general: value / 2^10
  for (auto &p : plI) p = dyadic ? g.uni(-20, 20) : g.uni(-100 * 1024, 100 * 1024);
  s << mode << " " << nc << " ";
  if (dyadic) { int e = (int)g.uni(0, 2); s << qstr(1LL << g.uni(0, 4), e); }        // eps in {1/4 .. 16}
  else s << qstr(g.uni(410, 40960), 12);                                            // eps in [0.1, 10]
  int nn = (int)g.uni(1, 5);
  s << " " << nn;
  for (int n = 0; n < nn; ++n) {
    int np;
    if (dyadic) {
      static const int p0[] = {2, 4, 8}, p1[] = {2, 3, 5, 9}, p3[] = {2, 2, 2, 3};
      if (mode == 0) np = p0[g.uni(0, 2)]; else if (mode == 1 || mode == 4) np = p1[g.uni(0, 3)];
      else if (mode == 2) np = (int)g.uni(2, 6); else if (mode == 5) np = (int)g.uni(2, 3); else np = p3[g.uni(0, 3)];
    } else np = (int)g.uni(2, 7);
    bool fx = anchored ? g.coin(80) : g.coin(40);
    int nfix = fx ? (g.coin(30) ? 1 : 2) : 0;
    int nmov = std::max(1, np - nfix);
    if (!fx && nmov < 2) nmov = 2;
    s << " " << nmov << " ";
    if (dyadic) s << qstrw(g.uni(1, 12), (int)g.uni(0, 3)); else s << qstrw(g.uni(1 << 12, 1 << 20), 17);   // weight: k/2^j, or in (0.03, 8)
    bool allsame = g.coin(5); int c0 = (int)g.uni(0, nc - 1);
    for (int j = 0; j < nmov; ++j) {
      int c = allsame ? c0 : (g.coin(8) ? -1 : (int)g.uni(0, nc - 1));
      if (dyadic) { long long pos = a + d * g.uni(0, 2); long long off = c == -1 ? pos : pos - plI[c]; s << " " << c << " " << off << " 0"; }
      else s << " " << c << " " << qstr(g.uni(-20 * 1024, 20 * 1024) + (c == -1 ? plI[0] : 0), 10);
    }
    s << " " << (fx ? 1 : 0);
    if (fx) {
      if (dyadic) { long long lo = g.uni(0, 2), hi = nfix == 1 ? lo : g.uni(lo, 2); s << " " << (a + d * lo) << " 0 " << (a + d * hi) << " 0"; }
      else { long long lo = g.uni(-100 * 1024, 100 * 1024), hi = nfix == 1 ? lo : lo + g.uni(0, 50 * 1024); s << " " << qstr(lo, 10) << " " << qstr(hi, 10); }
    }
  }
  bool needPl = mode >= 1 && mode <= 4;
  s << " " << (needPl || wantPen ? nc : 0);
  if (needPl || wantPen) for (int i = 0; i < nc; ++i) s << " " << (dyadic ? qstr(plI[i], 0) : qstr(plI[i], 10));
  bool pen = wantPen;
  s << " " << (pen ? 1 : 0);
  if (pen) {
    if (dyadic) s << " " << (1LL << g.uni(0, 6)) << " 0"; else s << " " << qstr(g.uni(410, 409600), 12);     // cutoff in {1..64} / [0.1, 100]
    for (int i = 0; i < nc; ++i) {
      if (dyadic) { long long dd = g.coin(30) ? 0 : (1LL << g.uni(0, 4)) * (g.coin(50) ? 1 : -1); s << " " << (plI[i] + dd) << " 0 " << qstrw(g.uni(1, 12), 2); }
      else s << " " << qstr(plI[i] + g.uni(-30 * 1024, 30 * 1024), 10) << " " << qstrw(g.uni(1 << 10, 1 << 19), 17);
    }
  }
  return s.str();
}

// EXACT coincidences (streams "coin" -> ASM lines, "fcoin" -> FASM lines), models 1..4 (the ones that linearise around a placement).
// Every position is a small multiple of 2^-u (u = 2 dyadic, 6 general), so pl[c] + off is computed without rounding and two pins meant
// to coincide are bit-for-bit equal floats.  Net shapes: 0 all pins at one position, movable only; 1 the same with fixed pin(s)
// (cell -1 in the list and/or the 5-argument addNet with minPin == maxPin); 2 two coincident movable pins, the others elsewhere;
// 3 a movable pin on a fixed pin, the others elsewhere; 4 all at one position but one pin at distance eps/2, eps, 2 eps or one unit
// (the floor active on a non-zero distance / exactly at its threshold); 5 unconstrained.  Cells: all stacked at one position, two
// stacks, or free; penalty targets exactly at the placement (distance 0 against the cutoff floor) in 40 % of the cells.
static std::string genCoin(SplitMix &g, bool dyadic, int mode, bool wantPen, bool small = false) {
  std::ostringstream s;
  int u = dyadic ? 2 : 6; long long U = 1LL << u;
  int nc = (int)g.uni(1, small ? 4 : 6);        // small: the cases evaluated by vm_compute inside Coq (fcoin)
  int stack = (int)g.uni(0, 2);
  long long A = U * g.uni(-16, 16), D = U << g.uni(0, 3);
  auto rp = [&]() -> long long { return dyadic ? A + D * g.uni(0, 2) : g.uni(-40 * U, 40 * U); };
  long long s0 = rp(), s1 = rp();
  std::vector<long long> pl(nc);
  for (auto &p : pl) p = stack == 0 ? s0 : stack == 1 ? (g.coin(50) ? s0 : s1) : (dyadic ? U * g.uni(-20, 20) : g.uni(-20 * U, 20 * U));
  long long epsU = dyadic ? (1LL << g.uni(0, 6)) : g.uni(7, 640);                    // eps in {1/4 .. 16} / [0.1, 10], in units
  s << mode << " " << nc << " " << qstr(epsU, u);
  int nn = (int)g.uni(1, small ? 2 : 4);
  s << " " << nn;
  for (int n = 0; n < nn; ++n) {
    int np;
    if (dyadic) { static const int p1[] = {3, 3, 5, 9}, p2[] = {3, 3, 4, 5, 6}; np = (mode == 1 || mode == 4) ? p1[g.uni(0, 3)] : mode == 2 ? p2[g.uni(0, 4)] : 3; }
    else np = (int)g.uni(3, small ? 5 : 7);
    if (g.coin(15)) np = 2;
    int shape = (int)g.uni(0, 5);
    long long P = rp();
    std::vector<std::pair<int, long long>> pins; bool fx = false; long long mn = 0, mx = 0;
    auto rc = [&]() { return (int)g.uni(0, nc - 1); };
    int fv = (int)g.uni(0, 2);                                                        // how the fixed pin is given (shapes 1, 3, 4)
    auto addFixedAtP = [&](int &left) {
      if (fv != 1) { pins.push_back({-1, P}); --left; }
      if (fv != 0 && left > 1) { fx = true; mn = mx = P; --left; }
    };
    int left = np;
    if (shape == 0) { while (left-- > 0) pins.push_back({rc(), P}); }
    else if (shape == 1) { addFixedAtP(left); left = std::max(left, 1); while (left-- > 0) pins.push_back({rc(), P}); }
    else if (shape == 2) { pins.push_back({rc(), P}); pins.push_back({rc(), P}); left -= 2; while (left-- > 0) pins.push_back({rc(), rp()}); }
    else if (shape == 3) {
      if (fv == 2 && left > 2) { fx = true; mn = P; mx = P + D * g.uni(0, 2); left -= (mx != mn ? 2 : 1); } else { pins.push_back({-1, P}); --left; }
      pins.push_back({rc(), P}); --left; while (left-- > 0) pins.push_back({rc(), rp()});
    } else if (shape == 4) {
      static const int num[] = {1, 2, 4, 0}; int k = (int)g.uni(0, 3);
      long long delta = num[k] ? std::max(1LL, epsU * num[k] / 2) : 1; if (g.coin(50)) delta = -delta;
      if (g.coin(40)) addFixedAtP(left);
      left = std::max(left, 2);
      pins.push_back({g.coin(15) ? -1 : rc(), P + delta}); --left; while (left-- > 0) pins.push_back({rc(), P});
    } else {
      while (left-- > 0) pins.push_back({g.coin(10) ? -1 : rc(), rp()});
      if (g.coin(30)) { fx = true; mn = rp(); mx = mn + D * g.uni(0, 2); }
    }
    for (size_t i = pins.size(); i > 1; --i) std::swap(pins[i - 1], pins[g.uni(0, (long long)i - 1)]);    // which index coincides: any
    s << " " << pins.size() << " ";
    if (dyadic) s << qstrw(g.uni(1, 12), (int)g.uni(0, 3)); else s << qstrw(g.uni(1 << 12, 1 << 20), 17);
    for (auto &p : pins) s << " " << p.first << " " << qstr(p.first == -1 ? p.second : p.second - pl[p.first], u);
    s << " " << (fx ? 1 : 0);
    if (fx) s << " " << qstr(mn, u) << " " << qstr(mx, u);
  }
  s << " " << nc;
  for (int i = 0; i < nc; ++i) s << " " << qstr(pl[i], u);
  s << " " << (wantPen ? 1 : 0);
  if (wantPen) {
    if (dyadic) s << " " << (1LL << g.uni(0, 6)) << " 0"; else s << " " << qstr(g.uni(410, 409600), 12);
    for (int i = 0; i < nc; ++i) {
      long long dd = g.coin(40) ? 0 : (dyadic ? (U << g.uni(0, 4)) : g.uni(1, 30 * U)) * (g.coin(50) ? 1 : -1);
      s << " " << qstr(pl[i] + dd, u) << " ";
      if (dyadic) s << qstrw(g.uni(1, 12), 2); else s << qstrw(g.uni(1 << 10, 1 << 19), 17);
    }
  }
  return s.str();
}

// PLACE lines with a parameter tail (stream "placep"): the circuits of the "place" stream; global.noise exactly 0 in 60 % of the cases
// (else 2 = the largest accepted, 1/1024, or the default), and each other field of GlobalPlacerParameters that check() constrains at a
// value from its ACCEPTED boundary set with probability 25 % (the two ends of the accepted interval where it is closed, one step inside
// where it is open, and an ordinary value).  gap/distance tolerances are both 0 in half of the cases, so that the run does not stop
// at the first upper bound and steps with a penalty are taken.  Magnitudes stay moderate (penalty.initialValue in [2^-10, 4], <= 24
// steps): no overflow in any of the five runs.
struct PV { long long n, d; };
static std::string genPlaceP(SplitMix &g, int tolZeroPct = 50, int minSteps = 1) {   // the defaults: stream "placep" (same draws as before)
  int nrows = (int)g.uni(2, 5), rowh = 8, nc = (int)g.uni(4, 24);
  std::ostringstream s; std::vector<int> w(nc); long long tot = 0;
  for (int c = 0; c < nc; ++c) { w[c] = (int)g.uni(2, 10); tot += w[c]; }
  int W = (int)std::max<long long>(16, tot * (long long)g.uni(14, 30) / 10 / nrows);
  static const int stepsel[] = {1, 2, 3, 4, 6, 9, 12, 16, 24};
  int maxsteps = std::max(minSteps, stepsel[g.uni(0, 8)]);
  s << "PLACE " << g.uni(1, 4) << " " << g.uni(1, 1000) << " " << maxsteps << " " << W << " " << nrows << " " << rowh << " " << nc;
  for (int c = 0; c < nc; ++c) { bool f = g.coin(15); s << " " << w[c] << " " << (f ? 1 : 0) << " " << g.uni(0, std::max(0, W - w[c])) << " " << g.uni(0, nrows - 1) * rowh; }
  int nn = (int)g.uni(nc / 2 + 1, 2 * nc); s << " " << nn;
  for (int n = 0; n < nn; ++n) {
    int np = (int)g.uni(2, 5); s << " " << np << " " << g.uni(1, 12);
    for (int j = 0; j < np; ++j) { int c = (int)g.uni(0, nc - 1); s << " " << c << " " << g.uni(0, w[c]) << " " << g.uni(0, rowh); }
  }
  std::vector<std::pair<int, PV>> pv;
  auto pick = [&](int id, std::initializer_list<PV> vals) { std::vector<PV> v(vals); pv.emplace_back(id, v[g.uni(0, (long long)v.size() - 1)]); };
  const long long M = 1LL << 20;
  if (g.coin(30)) pick(0, {{1, 1}, {2, 1}, {6, 1}, {9, 1}});                                        // effort
  if (g.coin(60)) pv.push_back({9, {0, 1}}); else if (g.coin(70)) pick(9, {{2, 1}, {1, 1024}, {1, 1}});   // noise in [0, 2]
  if (g.coin(tolZeroPct)) { pv.push_back({4, {0, 1}}); pv.push_back({5, {0, 1}}); }
  else { if (g.coin(25)) pick(4, {{0, 1}, {1, 1}, {1, 1024}}); if (g.coin(25)) pick(5, {{0, 1}, {1, 1024}, {2, 1}}); }
  if (maxsteps > 1 && g.coin(25)) pick(2, {{0, 1}, {1, 1}, {maxsteps - 1, 1}});                      // nbInitialSteps < maxNbSteps
  else if (maxsteps == 1) pv.push_back({2, {0, 1}});
  if (g.coin(25)) pick(3, {{1, 1}, {2, 1}, {3, 1}});                                                // nbStepsBeforeRoughLegalization >= 1
  if (g.coin(25)) pick(6, {{1, 1024}, {1, 1}, {100, 1}});                                           // penaltyUpdateDistance > 0
  if (g.coin(25)) pick(7, {{1, 1}, {2, 1}, {11, 10}});                                              // penaltyUpdateBackoff >= 1
  if (g.coin(35)) pick(8, {{0, 1}, {1, 1}, {-1, 2}, {3, 2}, {1, 2}});                                // exportBlending in [-0.5, 1.5]
  if (g.coin(25)) pick(10, {{1, 1000000}, {1, 1024}, {1, 1}, {1000, 1}});                            // cutoffDistance >= 1e-6
  if (g.coin(25)) pick(11, {{8, 10}, {12, 10}, {1, 1}});                                            // in [0.8, 1.2]
  if (g.coin(25)) pick(12, {{49, 100}, {101, 100}, {1, 2}, {1, 1}});                                 // areaExponent in [0.49, 1.01]
  if (g.coin(25)) pick(13, {{M + 1, M}, {2 * M - 1, M}, {3, 2}});                                    // updateFactor in (1, 2)
  if (g.coin(25)) pick(14, {{13421773, 1LL << 27}, {9227469, 1LL << 23}, {1, 1}, {1, 2}});           // in [0.1f, 1.1f]
  if (g.coin(40)) pick(15, {{1, 1024}, {1, 64}, {1, 4}, {1, 1}, {4, 1}, {3, 100}});                   // initialValue > 0
  if (g.coin(25)) pick(16, {{1, 1000000}, {1, 1024}, {1, 1}, {1000, 1}});                            // approximationDistance in [1e-6, 1e3]
  if (g.coin(25)) pick(17, {{8, 10}, {12, 10}, {1, 1}});
  if (g.coin(20)) pick(18, {{1, 1}, {2, 1}, {1000, 1}});                                            // maxNbConjugateGradientSteps >= 1
  if (g.coin(20)) pick(19, {{1, 100000000}, {1, 1}, {1, 1000000}});                                  // CG tolerance in [1e-8, 1]
  if (g.coin(30)) pick(20, {{0, 1}, {1, 1}, {3, 1}});                                               // roughLegalization.nbSteps >= 0
  if (g.coin(25)) pick(21, {{1, 1}, {25, 1}, {5, 2}});                                              // binSize in [1, 25]
  if (g.coin(25)) {
    int combo = (int)g.uni(0, 4);                                                                   // reopt sizes/overlaps at their bounds
    static const int cs[5][6] = {{1, 1, 1, 1, 2, 1}, {2, 1, 1, 1, 1, 1}, {1, 1, 2, 1, 1, 1}, {64, 63, 64, 1, 8, 7}, {1, 1, 1, 1, 1, 1}};
    for (int j = 0; j < 6; ++j) pv.push_back({22 + j, {cs[combo][j], 1}});
    if (combo == 4) { pv.push_back({30, {0, 1}}); pv.push_back({31, {1, 1}}); }                     // all 1: only with L1 + unidimensional
  } else {
    if (g.coin(25)) pick(30, {{0, 1}, {1, 1}, {2, 1}, {3, 1}, {4, 1}, {5, 1}});
    if (g.coin(25)) pick(31, {{0, 1}, {1, 1}});
  }
  if (g.coin(25)) pick(28, {{0, 1}, {1, 1}, {1, 2}});                                               // quadraticPenalty in [0, 1]
  if (g.coin(25)) pick(29, {{-1, 10}, {15099494, 1LL << 24}, {0, 1}, {1, 2}});                       // rl.targetBlending in [-0.1, 0.9f]
  s << " " << pv.size();
  for (auto &q : pv) s << " " << q.first << " " << q.second.n << " " << q.second.d;
  return s.str();
}

// Circuits for CASM / CSOLVE (streams "casm", "csolve"): nets with SEVERAL PINS ON ONE MOVABLE CELL.  Net shapes: 0 a pin listed twice
// (same cell, same x and y offset) + pins elsewhere; 1 two or three pins of one cell with EQUAL x offset and different y (vertically aligned:
// coincide in the x model only); 2 equal y offset, different x; 3 three or more pins of one cell mixing identical / aligned / distinct ones,
// + pins elsewhere; 4 ALL pins on one movable cell (finding F25), some identical; 5 ordinary net on distinct cells; 6 duplicated /
// aligned pins on a FIXED cell (they merge into min/max) + movable pins.  2..8 cells (about a quarter fixed, at least one movable), widths
// 1..9 (odd: half-integer centre offsets), heights one or two rows; pin offsets inside the cell (0..w, 0..h); weights k/4 (k = 1..12) or
// k/2^j; the placement / penalty data of the body as in genBody (dyadic: integers; otherwise multiples of 2^-10).
static std::string genCirc(SplitMix &g, bool dyadic, int mode, bool wantPen, bool anchored) {
  std::ostringstream s;
  int axis = (int)g.uni(0, 1);
  int nc = (int)g.uni(2, 8), nrows = (int)g.uni(1, 4), rowh = 8, W = (int)g.uni(24, 80);
  int ox = g.coin(70) ? 0 : (int)g.uni(-40, 40), oy = g.coin(70) ? 0 : (int)g.uni(-40, 40);
  std::vector<int> cw(nc), ch(nc), fx(nc), cx(nc), cy(nc); std::vector<int> mov, fixd;
  for (int c = 0; c < nc; ++c) {
    cw[c] = (int)g.uni(1, 9); ch[c] = g.coin(80) ? rowh : 2 * rowh; fx[c] = c > 0 && (g.coin(anchored ? 35 : 25) || (anchored && c == nc - 1));
    cx[c] = ox + (int)g.uni(0, std::max(0, W - cw[c])); cy[c] = oy + (int)g.uni(0, nrows - 1) * rowh;
    if (fx[c] && g.coin(10)) cx[c] = ox + W + (int)g.uni(0, 6);                   // a fixed cell (partly) outside the placement area: the extent is clamped
    (fx[c] ? fixd : mov).push_back(c);
  }
  s << axis << " " << mode << " ";
  if (dyadic) { int e = (int)g.uni(0, 2); s << qstr(1LL << g.uni(0, 4), e); } else s << qstr(g.uni(410, 40960), 12);
  s << " " << W << " " << nrows << " " << rowh << " " << ox << " " << oy << " " << nc;
  for (int c = 0; c < nc; ++c) s << " " << cw[c] << " " << ch[c] << " " << fx[c] << " " << cx[c] << " " << cy[c];
  int nn = (int)g.uni(1, 5);
  std::string headStr = s.str(); s.str(""); s.clear();
  auto anyMov = [&]() { return mov[g.uni(0, (long long)mov.size() - 1)]; };
  struct P { int c, xo, yo; }; std::vector<std::vector<P>> allNets; std::vector<bool> pure; std::vector<std::string> wts;
  for (int n = 0; n < nn; ++n) {
    int shape = n == 0 ? (int)g.uni(0, 4) : (int)g.uni(0, 6);
    if (shape == 6 && fixd.empty()) shape = 0;
    std::vector<P> pins;
    auto rnd = [&](int c) { return P{c, (int)g.uni(0, cw[c]), (int)g.uni(0, ch[c])}; };
    auto others = [&](int lo, int hi) { int k = (int)g.uni(lo, hi); for (int j = 0; j < k; ++j) { int c = (int)g.uni(0, nc - 1); pins.push_back(rnd(c)); } };
    int c0 = shape == 6 ? fixd[g.uni(0, (long long)fixd.size() - 1)] : anyMov();
    P a = rnd(c0);
    auto otherY = [&](const P &q) { P b = q; do { b.yo = (int)g.uni(0, ch[c0]); } while (b.yo == q.yo); return b; };
    auto otherX = [&](const P &q) { P b = q; do { b.xo = (int)g.uni(0, cw[c0]); } while (b.xo == q.xo); return b; };
    switch (shape) {
      case 0: pins.push_back(a); pins.push_back(a); if (g.coin(25)) pins.push_back(a); others(anchored ? 1 : 0, 3); break;
      case 1: pins.push_back(a); pins.push_back(otherY(a)); if (g.coin(30)) pins.push_back(otherY(a)); others(anchored ? 1 : 0, 3); break;
      case 2: pins.push_back(a); pins.push_back(otherX(a)); if (g.coin(30)) pins.push_back(otherX(a)); others(anchored ? 1 : 0, 3); break;
      case 3: { int k = (int)g.uni(3, 5); pins.push_back(a);
        for (int j = 1; j < k; ++j) { int q = (int)g.uni(0, 3); pins.push_back(q == 0 ? a : q == 1 ? otherY(a) : q == 2 ? otherX(a) : rnd(c0)); }
        others(1, 3); break; }
      case 4: { int k = (int)g.uni(2, 5); pins.push_back(a);
        for (int j = 1; j < k; ++j) { int q = (int)g.uni(0, 3); pins.push_back(q == 0 ? a : q == 1 ? otherY(a) : q == 2 ? otherX(a) : rnd(c0)); }
        break; }
      case 5: { int k = (int)g.uni(2, 5); std::vector<int> cs; for (int c = 0; c < nc; ++c) cs.push_back(c);
        for (int j = 0; j < k && !cs.empty(); ++j) { int q = (int)g.uni(0, (long long)cs.size() - 1); pins.push_back(rnd(cs[q])); cs.erase(cs.begin() + q); }
        break; }
      default: pins.push_back(a); pins.push_back(g.coin(50) ? a : g.coin(50) ? otherY(a) : otherX(a)); { int m0 = anyMov(); pins.push_back(rnd(m0)); if (g.coin(50)) pins.push_back(rnd(m0)); } others(0, 2); break;
    }
    if (anchored && shape != 4 && !fixd.empty() && g.coin(85)) pins.push_back(rnd(fixd[g.uni(0, (long long)fixd.size() - 1)]));
    allNets.push_back(pins); pure.push_back(shape == 4);
    wts.push_back(g.coin(60) ? qstr(g.uni(1, 12), 2) : qstr(g.uni(1, 12), (int)g.uni(0, 3)));
  }
  if (anchored) {       // every movable cell is on some net that is not confined to one cell (most systems are then non-singular without the regulariser)
    std::vector<int> open; for (int n = 0; n < nn; ++n) if (!pure[n]) open.push_back(n);
    if (open.empty()) { std::vector<P> pins; for (int c : fixd) { pins.push_back(P{c, (int)g.uni(0, cw[c]), (int)g.uni(0, ch[c])}); break; }
      allNets.push_back(pins); pure.push_back(false); wts.push_back(qstr(g.uni(1, 12), 2)); open.push_back(nn); }
    for (int c : mov) {
      bool seen = false; for (int n : open) for (auto &q : allNets[n]) if (q.c == c) seen = true;
      if (!seen) allNets[open[g.uni(0, (long long)open.size() - 1)]].push_back(P{c, (int)g.uni(0, cw[c]), (int)g.uni(0, ch[c])});
    }
  }
  s << headStr << " " << allNets.size();
  for (size_t n = 0; n < allNets.size(); ++n) {
    auto &pins = allNets[n];
    if (g.coin(50)) for (size_t j = pins.size(); j > 1; --j) std::swap(pins[j - 1], pins[g.uni(0, (long long)j - 1)]);    // the duplicates need not be adjacent
    s << " " << pins.size() << " " << wts[n];
    for (auto &q : pins) s << " " << q.c << " " << q.xo << " " << q.yo;
  }
  std::vector<long long> plI(nc);
  long long lo = axis ? oy : ox, hi = axis ? oy + nrows * rowh : ox + W;
  for (auto &q : plI) q = dyadic ? g.uni(lo, hi) : g.uni(lo * 1024, hi * 1024);
  if (g.coin(15)) for (int c = 1; c < nc; ++c) plI[c] = plI[0];                   // all cells stacked (the first lower bound without fixed pins)
  bool needPl = mode >= 1 && mode <= 4;
  s << " " << (needPl || wantPen ? nc : 0);
  if (needPl || wantPen) for (int i = 0; i < nc; ++i) s << " " << (dyadic ? qstr(plI[i], 0) : qstr(plI[i], 10));
  s << " " << (wantPen ? 1 : 0);
  if (wantPen) {
    if (dyadic) s << " " << (1LL << g.uni(0, 6)) << " 0"; else s << " " << qstr(g.uni(410, 409600), 12);
    for (int i = 0; i < nc; ++i) {
      if (dyadic) { long long dd = g.coin(30) ? 0 : (1LL << g.uni(0, 4)) * (g.coin(50) ? 1 : -1); s << " " << (plI[i] + dd) << " 0 " << qstr(g.uni(1, 12), 2); }
      else s << " " << qstr(plI[i] + g.uni(-30 * 1024, 30 * 1024), 10) << " " << qstr(g.uni(1 << 10, 1 << 19), 17);
    }
  }
  return s.str();
}

int main(int argc, char **argv) {
  std::string mode = argc > 1 ? argv[1] : "run";
  if (mode == "gen") {
    std::string what = argv[2]; SplitMix g((uint64_t)atoll(argv[3]) * 7919 + (what == "asm" ? 1 : what == "solve" ? 2 : what == "fasm" ? 4 : what == "coin" ? 5 : what == "fcoin" ? 6 : what == "scoin" ? 7 : what == "placecb" ? 8 : what == "far" ? 9 : what == "placeat" ? 10 : what == "casm" ? 11 : what == "csolve" ? 12 : 3)); int count = atoi(argv[4]);
    if (what == "coin") {
      for (int i = 0; i < count; ++i) { int m = (int)g.uni(1, 4); bool dy = g.coin(60); printf("ASM %s\n", genCoin(g, dy, m, g.coin(35)).c_str()); }
    } else if (what == "fcoin") {
      // weights around 1 (50 %), tiny (2^-100 .. 2^-124, 30 %) or huge (2^90 .. 2^110, 20 %) as in the fasm stream: with a floor of eps the
      // quotient weight / max(eps, 0) stays finite in all three classes unless the weight itself is within 2^4 of FLT_MAX
      for (int i = 0; i < count; ++i) {
        int m = (int)g.uni(1, 4); bool dy = g.coin(40);
        int cls = (int)g.uni(0, 9), k;
        if (cls < 5) { gWShift = 0; k = (int)g.uni(-24, 24); }
        else if (cls < 8) { gWShift = (int)g.uni(100, 124); k = (int)g.uni(-6, 12); }
        else { gWShift = -(int)g.uni(90, 110); k = (int)g.uni(-12, 12); }
        printf("FASM %d %s\n", k, genCoin(g, dy, m, g.coin(35), true).c_str());
        gWShift = 0;
      }
    } else if (what == "asm") {
      for (int i = 0; i < count; ++i) {
        bool dy = g.coin(60); int m = (int)g.uni(0, 6);
        bool pen = (m >= 1 && m <= 4) && g.coin(50);
        printf("ASM %s\n", genBody(g, dy, m, pen, false).c_str());
      }
    } else if (what == "fasm") {
      // general (non-dyadic) floats: every operation rounds; weights around 1 (40 %), tiny (2^-100 .. 2^-124, 40 %) or huge (2^100, 20 %);
      // the factor 2^k keeps most scaled weights normal but pushes some products / quotients into the subnormal range or to overflow
      for (int i = 0; i < count; ++i) {
        bool dy = g.coin(15); int m = (int)g.uni(0, 6);
        bool pen = (m >= 1 && m <= 4) && g.coin(50);
        int cls = (int)g.uni(0, 9), k;
        if (cls < 4) { gWShift = 0; k = g.coin(70) ? (int)g.uni(-24, 24) : (g.coin(50) ? (int)g.uni(-135, -100) : (int)g.uni(100, 127)); }
        else if (cls < 8) { gWShift = (int)g.uni(100, 124); k = g.coin(60) ? (int)g.uni(-6, 12) : (int)g.uni(-30, 30); }
        else { gWShift = -(int)g.uni(90, 110); k = g.coin(60) ? (int)g.uni(-12, 12) : (int)g.uni(10, 30); }
        printf("FASM %d %s\n", k, genBody(g, dy, m, pen, false).c_str());
        gWShift = 0;
      }
    } else if (what == "casm") {
      // the assembly of all five entry points (createStar(topo), B2B, Star, Clique, LightStar) on net models built from a circuit
      for (int i = 0; i < count; ++i) {
        bool dy = g.coin(60); int m = (int)g.uni(0, 4);
        bool pen = m >= 1 && g.coin(40);
        printf("CASM %s\n", genCirc(g, dy, m, pen, false).c_str());
      }
    } else if (what == "csolve") {
      // the solvers on net models built from a circuit; kind 0 = solveStar(params) in 45 % (least-squares oracle), the others as in "solve"
      static const char *tols[] = {"8589935 43", "11258999 40", "13743895 37"};
      for (int i = 0; i < count; ++i) {
        int kind = g.coin(45) ? 0 : (int)g.uni(1, 5); int m = kind == 0 ? 0 : (kind == 4 ? 1 : (kind == 3 ? 2 : (int)g.uni(1, 4)));
        bool pen = kind == 2 || kind == 4;
        printf("CSOLVE %d %s %d %s\n", kind, tols[g.uni(0, 2)], (int)g.uni(100, 1000), genCirc(g, g.coin(30), m, pen, true).c_str());
      }
    } else if (what == "scoin") {
      // the solvers that linearise around a placement, on the bodies with exact coincidences
      for (int i = 0; i < count; ++i) {
        int kind = (int)g.uni(1, 4); int m = kind == 4 ? 1 : (kind == 3 ? 2 : (int)g.uni(1, 4));
        static const char *tols[] = {"8589935 43", "11258999 40", "13743895 37"};
        const char *tol = tols[g.uni(0, 2)]; int maxit = (int)g.uni(100, 1000);
        printf("SOLVE %d %s %d %s\n", kind, tol, maxit, genCoin(g, g.coin(40), m, kind == 2 || kind == 4).c_str());
      }
    } else if (what == "self") {
      // finding F25: SOLVE kind 5 = solve(solveStar(params), params), the first initial step of GlobalPlacer::runInitialLB (no penalty), on
      // circuits where some cell carries nets of 3-6 pins that are ALL on that cell; every other net has a fixed pin (anchored)
      static const char *tols[] = {"8589935 43", "11258999 40", "13743895 37", "8589935 33"};
      for (int i = 0; i < count; ++i) {
        int m = g.coin(70) ? (g.coin(50) ? 2 : 4) : (int)g.uni(1, 4), nc = (int)g.uni(1, 4), nn = (int)g.uni(1, 4), selfcell = (int)g.uni(0, nc - 1);
        std::ostringstream s;
        s << m << " " << nc << " "; if (g.coin(50)) s << "10 0"; else s << qstr(g.uni(410, 40960), 12);
        s << " " << nn;
        for (int n = 0; n < nn; ++n) {
          bool self = n == 0 || g.coin(50); int np = self ? (int)g.uni(3, 6) : (int)g.uni(2, 5);
          s << " " << np << " " << qstr(g.uni(1, 12), (int)g.uni(0, 2));
          int c0 = n == 0 ? selfcell : (int)g.uni(0, nc - 1);
          for (int j = 0; j < np; ++j) {
            int c = self ? c0 : (j == 0 ? -1 : (int)g.uni(0, nc - 1));
            s << " " << c << " "; if (g.coin(50)) s << qstr(g.uni(-8, 8), 0); else s << qstr(g.uni(-8192, 8192), 10);
          }
          s << " 0";
        }
        s << " " << nc; for (int c = 0; c < nc; ++c) s << " 0 0";
        s << " 0";
        printf("SOLVE 5 %s %d %s\n", tols[g.uni(0, 3)], (int)g.uni(50, 300), s.str().c_str());
      }
    } else if (what == "solve") {
      for (int i = 0; i < count; ++i) {
        int kind = (int)g.uni(0, 4); int m = kind == 0 ? 0 : (kind == 4 ? 1 : (kind == 3 ? 2 : (int)g.uni(1, 4)));
        bool pen = kind == 2 || kind == 4;
        // tolerance in {1e-6, 1e-5, 1e-4} as floats, max iterations 100..1000
        static const char *tols[] = {"8589935 43", "11258999 40", "13743895 37"};
        printf("SOLVE %d %s %d %s\n", kind, tols[g.uni(0, 2)], (int)g.uni(100, 1000), genBody(g, g.coin(30), m, pen, true).c_str());
      }
    } else if (what == "placep") {
      for (int i = 0; i < count; ++i) printf("%s\n", genPlaceP(g).c_str());
    } else if (what == "placecb") {
      // the circuits and parameter tails of "placep" (at least 4 steps, gap / distance tolerance 0 in 75 %: the run goes on after the
      // action), with 1..3 actions at callbacks 0..9: 45 % setCellWidth, 20 % setCellHeight, 15 % setNetWeights, 20 % read only
      for (int i = 0; i < count; ++i) {
        std::string body = genPlaceP(g, 75, 4).substr(6);
        int na = (int)g.uni(1, 3); std::ostringstream a; a << "PLACECB " << na;
        for (int j = 0; j < na; ++j) {
          int sel = (int)g.uni(0, 99), kind = sel < 45 ? 1 : sel < 65 ? 2 : sel < 80 ? 3 : 0;
          a << " " << g.uni(0, 9) << " " << kind << " " << g.uni(1, 1000000);
        }
        printf("%s %s\n", a.str().c_str(), body.c_str());
      }
    } else if (what == "far" || what == "placeat") {
      // finding F30: circuits WITHOUT any fixed pin translated to offsets up to 2^22, all four net models.
      //   far: SOLVE kind 2 / 4 (penalised): lower-bound placement at the origin or near the targets, targets around the offset
      //   placeat: "PLACEAT ox oy <PLACE body>": the PLACE circuit (no fixed cell) with rows and cells translated by (ox, oy)
      static const long long offs[] = {0, 1LL << 16, 1LL << 20, 1LL << 21, 3LL << 20, (1LL << 22) - 304};
      for (int i = 0; i < count; ++i) {
        long long off = offs[g.uni(0, 5)];
        std::ostringstream s;
        if (what == "far") {
          int kind = g.coin(70) ? 2 : 4, m = kind == 4 ? 1 : (int)g.uni(1, 4), nc = (int)g.uni(2, 5), nn = (int)g.uni(1, 4);
          s << "SOLVE " << kind << " 8589935 43 " << g.uni(100, 1000) << " " << m << " " << nc << " ";
          if (g.coin(50)) s << "2 0"; else s << qstr(g.uni(410, 40960), 12);
          s << " " << nn;
          for (int n = 0; n < nn; ++n) {
            int np = (int)g.uni(2, 4); s << " " << np << " " << qstr(g.uni(4, 48), 2);
            for (int j = 0; j < np; ++j) s << " " << g.uni(0, nc - 1) << " " << qstr(g.uni(-8, 8), 0);
            s << " 0";
          }
          bool origin = g.coin(60);                                // the first lower bound of a circuit without fixed pins is at 0
          s << " " << nc; for (int c = 0; c < nc; ++c) s << " " << (origin ? 0 : off + g.uni(0, 300)) << " 0";
          s << " 1 " << (g.coin(50) ? "40 0" : "4 0");
          for (int c = 0; c < nc; ++c) s << " " << off + g.uni(0, 300) << " 0 " << qstr(g.uni(1, 16), 6);
        } else {
          int nrows = (int)g.uni(1, 4), rowh = 8, nc = (int)g.uni(2, 12);
          std::vector<int> w(nc); long long tot = 0;
          for (int c = 0; c < nc; ++c) { w[c] = (int)g.uni(2, 10); tot += w[c]; }
          int W = (int)std::max<long long>(16, tot * (long long)g.uni(14, 30) / 10 / nrows);
          s << "PLACEAT " << off << " " << (g.coin(50) ? off : 0) << " " << g.uni(1, 4) << " " << g.uni(1, 1000) << " " << g.uni(3, 8) << " " << W << " " << nrows << " " << rowh << " " << nc;
          for (int c = 0; c < nc; ++c) s << " " << w[c] << " 0 " << g.uni(0, std::max(0, W - w[c])) << " " << g.uni(0, nrows - 1) * rowh;
          int nn = (int)g.uni(1, 2 * nc); s << " " << nn;
          for (int n = 0; n < nn; ++n) {
            int np = (int)g.uni(2, 4); s << " " << np << " " << g.uni(1, 12);
            for (int j = 0; j < np; ++j) { int c = (int)g.uni(0, nc - 1); s << " " << c << " " << g.uni(0, w[c]) << " " << g.uni(0, rowh); }
          }
        }
        printf("%s\n", s.str().c_str());
      }
    } else {
      for (int i = 0; i < count; ++i) {
        int nrows = (int)g.uni(2, 5), rowh = 8, nc = (int)g.uni(4, 24);
        std::ostringstream s; std::vector<int> w(nc); long long tot = 0;
        for (int c = 0; c < nc; ++c) { w[c] = (int)g.uni(2, 10); tot += w[c]; }
        int W = (int)std::max<long long>(16, tot * (long long)g.uni(14, 30) / 10 / nrows);
        s << "PLACE " << g.uni(1, 4) << " " << g.uni(1, 1000) << " " << g.uni(3, 12) << " " << W << " " << nrows << " " << rowh << " " << nc;
        for (int c = 0; c < nc; ++c) { bool f = g.coin(15); s << " " << w[c] << " " << (f ? 1 : 0) << " " << g.uni(0, std::max(0, W - w[c])) << " " << g.uni(0, nrows - 1) * rowh; }
        int nn = (int)g.uni(nc / 2 + 1, 2 * nc); s << " " << nn;
        for (int n = 0; n < nn; ++n) {
          int np = (int)g.uni(2, 5); s << " " << np << " " << g.uni(1, 12);
          for (int j = 0; j < np; ++j) { int c = (int)g.uni(0, nc - 1); s << " " << c << " " << g.uni(0, w[c]) << " " << g.uni(0, rowh); }
        }
        printf("%s\n", s.str().c_str());
      }
    }
    return 0;
  }
  vh_install(); vh_silence();
  std::string line;
  while (std::getline(std::cin, line)) {
    size_t sp = line.find(' ');
    if (sp == std::string::npos) { printf("\n"); continue; }
    std::string tag = line.substr(0, sp);
    Rd r; r.v = vh_ints(line.substr(sp + 1));
    if (sigsetjmp(vh_jmp, 1)) { printf("SIGNAL %s\n", vh_signame()); fflush(stdout); continue; }
    try {
      if (tag == "ASM") runAsm(r);
      else if (tag == "SOLVE") runSolve(r);
      else if (tag == "CASM") runCasm(r);
      else if (tag == "CSOLVE") runCsolve(r);
      else if (tag == "FASM") runFasm(r);
      else if (tag == "SOLVEK") runSolveK(r);
      else if (tag == "PLACE") runPlace(r);
      else if (tag == "PLACEAT") { gOx = (int)r.nx(); gOy = (int)r.nx(); runPlace(r); gOx = gOy = 0; }
      else if (tag == "PLACECB") runPlace(r, true);
      else printf("ERR unknown tag\n");
    } catch (std::exception &ex) { printf("THROW %s\n", ex.what()); }
    fflush(stdout);
  }
  return 0;
}
