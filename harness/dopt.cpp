// C02/C05 direct-drive harness: DetailedPlacer from /repo driven pass by pass and move by move
//   dopt gen rand SEED COUNT MODE      MODE bits: 2 = no turned, 16 = no polarity
//                                      4 % of the cases: total wirelength >= 2^31 inside |v| < 2^22 (pads at x ~ +-3.9e6, 600..1300 nets),
//                                      op list starting with reordering passes; half of them a designed circuit whose order is strictly optimal
//   dopt run < cases
// case: "DO <rows> <cells> <nets> nops (op)*"   ops (ints):
//    0 c k cand*k          bestSwap(c, cands)            cells taken modulo the number of optimised cells
//    1 c row k cand*k      bestInsert(c, row, cands)     cand -1 = before the first cell of the row
//    2 c from nb           bestSwapUpdate(c, from, nb)
//    3 a b                 runSwaps(a, b)        4 a b  runInserts(a, b)     5 a b  runShifts(a, b)    6 a b runReordering(a, b)
//    7 k cell*k            runShiftsOnCells      8 k cell*k  runReorderingOnCells   (cells: distinct optimised cells)
// result: "NOLEG" | "INIT v ;placement / <op result> / ..."; op result for 0,1,2:
//    "B found ; ncand (feasible [c x y]*)* ; value ;placement ; check"   (candidate positions as positionsOnSwap/positionOnInsert give them BEFORE the call)
//    for the passes: "P value ;placement ; check" (runReorderingOnCells: "P xvalue yvalue [nleaves nregions] ; value ;placement ; check"); for runShiftsOnCells: "S <row structure before> | k (cell newx)*k ; value ;placement ; check"
// placement = x y orient of every cell after DetailedPlacer::exportPlacement into a copy of the circuit.
// After an op that ran the shift pass (5, 7), when /repo carries the hook coloquinte_verif_shift_hook, one extra segment
// " / L <ints>" per call of runShiftsOnCells: the state BEFORE the call, the min-cost-flow problem the C++ built, lemon's
// answer and the positions written (the input of the shift-LP model driver, ocaml/driver_shift.ml, tag SL):
//    nrows (minX maxX ncells (id x w)*)*  npos pos*  nnets (npins (cell off)*)*  k cell*k
//    nnodes (kind id supply potential)*  narcs (src tgt cost flow)*  k newx*k
//    kind: 0 cell, 1 L_net, 2 U_net, 3 fixed; src/tgt are node indices.
#include "vh.hpp"
#include <optional>
#include <unordered_set>
#define private public
#include "place_detailed/place_detailed.hpp"
#undef private
#include "cgen.hpp"

static std::string statePl(DetailedPlacer &pl, const Circuit &base) {
  Circuit c = base; pl.exportPlacement(c); return showPlacement(c);
}
// row structure as the shift model needs it: "nrows (minX maxX ncells (id x w)*)*"
static std::string rowsDump(const DetailedPlacement &dp) {
  std::ostringstream s; s << dp.nbRows();
  for (int r = 0; r < dp.nbRows(); ++r) { auto cs = dp.rowCells(r); s << " " << dp.rows()[r].minX << " " << dp.rows()[r].maxX << " " << cs.size(); for (int c : cs) s << " " << c << " " << dp.cellX(c) << " " << dp.cellWidth(c); }
  return s.str();
}
// ---- records of the shift-pass linear programmes (filled by the hook; empty when /repo has no hook) ----
static DetailedPlacer *g_pl = nullptr;
static std::vector<int> g_prevX, g_prevTopo;   // placement_.cellX_ / xtopo_.cellPos_ before the current runShiftsOnCells call
static std::vector<std::string> g_lp;
static void lpSnap() { if (g_pl) { g_prevX = g_pl->placement_.cellX_; g_prevTopo = g_pl->xtopo_.cellPos_; } }
struct LpScope { explicit LpScope(DetailedPlacer *p) { g_pl = p; g_lp.clear(); lpSnap(); } ~LpScope() { g_pl = nullptr; } };
extern "C" void coloquinte_verif_shift_hook(const void *placer, int nbCells, const int *cells, int nbNodes, const int *nodeKind,
                                            const int *nodeId, const long long *nodeSupply, const long long *nodePotential, int nbArcs,
                                            const int *arcSource, const int *arcTarget, const long long *arcCost, const long long *arcFlow) {
  if (!g_pl || placer != (const void *)g_pl) return;
  const DetailedPlacement &dp = g_pl->placement_; const IncrNetModel &xt = g_pl->xtopo_;
  // circuits of the 2^31 streams (hundreds of nets): the model's evaluation of one record takes seconds, two records per op are kept
  if (g_lp.size() < (xt.nbNets() > 300 ? 2u : 200u) && g_prevX.size() == dp.cellX_.size() && g_prevTopo.size() == xt.cellPos_.size()) {
    std::ostringstream s;
    s << dp.nbRows();
    for (int r = 0; r < dp.nbRows(); ++r) { auto cs = dp.rowCells(r); s << " " << dp.rows()[r].minX << " " << dp.rows()[r].maxX << " " << cs.size(); for (int c : cs) s << " " << c << " " << g_prevX[c] << " " << dp.cellWidth(c); }
    s << " " << g_prevTopo.size(); for (int v : g_prevTopo) s << " " << v;
    s << " " << xt.nbNets(); for (int n = 0; n < xt.nbNets(); ++n) { s << " " << xt.nbNetPins(n); for (int i = 0; i < xt.nbNetPins(n); ++i) s << " " << xt.pinCell(n, i) << " " << xt.netPinOffset(n, i); }
    s << " " << nbCells; for (int i = 0; i < nbCells; ++i) s << " " << cells[i];
    s << " " << nbNodes; for (int i = 0; i < nbNodes; ++i) s << " " << nodeKind[i] << " " << nodeId[i] << " " << nodeSupply[i] << " " << nodePotential[i];
    s << " " << nbArcs; for (int i = 0; i < nbArcs; ++i) s << " " << arcSource[i] << " " << arcTarget[i] << " " << arcCost[i] << " " << arcFlow[i];
    s << " " << nbCells; for (int i = 0; i < nbCells; ++i) s << " " << dp.cellX(cells[i]);
    g_lp.push_back(s.str());
  }
  lpSnap();
}

// record of RowReordering::run (filled by the hook coloquinte_verif_reorder_hook when /repo carries it; -1 otherwise)
static long long g_reLeaves = -1; static int g_reRegions = -1;
extern "C" void coloquinte_verif_reorder_hook(int nbRegions, int, long long nbLeaves, int, long long) { g_reLeaves = nbLeaves; g_reRegions = nbRegions; }

static std::string chk(DetailedPlacer &pl) { try { pl.check(); return "ok"; } catch (std::exception &e) { return std::string("CHECKFAIL ") + e.what(); } }

int main(int argc, char **argv) {
  std::string mode = argc > 1 ? argv[1] : "run";
  if (mode == "gen") {
    SplitMix g(strtoull(argv[3], nullptr, 10)); long long count = atoll(argv[4]); int m = argc > 5 ? atoi(argv[5]) : 0;
    for (long long it = 0; it < count; ++it) {
      GenOpts o; o.nets = true; o.utilLo = 20; o.utilHi = 85; o.maxCells = 12;
      // 2 circuits in 3: nets of weight 0 and of tiny weight (2^-1 .. 2^-140) among the others (code in <nets>: see cgen.hpp); the
      // from-scratch wirelength the check compares value() with counts every net, as Circuit::hpwl() does
      if (it % 3) { o.zeroWeightPct = 25; o.tinyWeightPct = 10; }
      if (m & 2) o.turned = false; if (m & 16) o.polarity = false;
      TCircuit t = genCircuit(g, o);
      std::string pre; int npre = 0;   // ops placed before the random ones
      auto reorderFirst = [&]() {
        // the 2^31 streams start with reordering passes (type 6: nbRows >= 1, maxNbCells >= 2, i.e. reordering switched on) and a
        // reordering of an explicit window, repeated: a pass that compares candidate orders in 32 bits accepts a worse order
        int nrep = (int)g.uni(1, 3);
        for (int k = 0; k < nrep; ++k) { pre += " 6 " + std::to_string(g.uni(1, 2)) + " " + std::to_string(g.uni(2, 4)); ++npre; }
        if (g.coin(50)) { int kk = (int)g.uni(2, 4); int c0 = (int)g.uni(0, 40); pre += " 8 " + std::to_string(kk); for (int j = 0; j < kk; ++j) pre += " " + std::to_string(c0 + j); ++npre; }
      };
      int big = (int)g.uni(0, 99);
      if (big == 2 || big == 3) {
        // designed: 1..3 rows of row-high cells already legal, left to right with gaps; every cell carries nL two-pin nets to a pad far
        // left and nR to a pad far right (|x| ~ 3.9e6 < 2^22), nL - nR = width * q with q STRICTLY decreasing along the row: the x part of
        // the value is const + sum (nL - nR) * x, so the legalized order is the unique optimum of every window (Smith's rule; exchanging
        // two neighbours costs w1 * w2 * (q1 - q2) >= 1).  600..800 nets: total in [2^31, 2^32); 1100..1300: above 2^32.
        t = TCircuit();
        int nrows = (int)g.uni(1, 3); long long rh = 2 * g.uni(1, 3), x0 = g.uni(-30, 30), y0 = g.uni(-30, 30);
        std::vector<long long> pull;   // nL - nR per cell
        for (int r = 0; r < nrows; ++r) {
          int m = (int)g.uni(2, 6); long long x = x0; std::vector<long long> ws(m);
          for (int i = 0; i < m; ++i) {
            ws[i] = g.uni(1, 4); x += g.coin(40) ? g.uni(1, 3) : 0;
            t.cells.push_back({x, y0 + r * rh, ws[i], rh, 0, 0, 0, 0}); x += ws[i];
          }
          t.rows.push_back({x0, x + g.uni(0, 4), y0 + r * rh, y0 + (r + 1) * rh, r % 2 ? 5 : 0});
          long long q = g.uni(1, 4) + m; for (int i = 0; i < m; ++i) { pull.push_back(ws[i] * q); q -= g.uni(1, 2); }
        }
        int n0 = (int)t.cells.size();
        long long padL = -(3900000LL + g.uni(0, 100000)), padR = 3900000LL + g.uni(0, 100000);
        t.cells.push_back({padL, y0 + g.uni(-20, 20), 1, 1, 0, 0, 1, 0}); t.cells.push_back({padR, y0 + g.uni(-20, 20), 1, 1, 0, 0, 1, 0});
        long long want = g.coin(70) ? g.uni(600, 800) : g.uni(1100, 1300), have = 0;
        for (long long pv : pull) have += std::llabs(pv);
        long long base = std::max<long long>(0, (want - have) / (2 * n0) + 1);
        for (int c = 0; c < n0; ++c) {
          long long nL = base + std::max<long long>(pull[c], 0), nR = base + std::max<long long>(-pull[c], 0);
          for (long long k = 0; k < nL; ++k) { t.nets.push_back({{c, 0, 0}, {n0, 0, 0}}); t.netw2.push_back(genNetW2(g, o, 2)); }
          for (long long k = 0; k < nR; ++k) { t.nets.push_back({{c, 0, 0}, {n0 + 1, 0, 0}}); t.netw2.push_back(genNetW2(g, o, 2)); }
        }
        reorderFirst();
      }
      if (big < 2) {
        reorderFirst();
        // many two-pin nets to fixed pads near the edge of the supported magnitude range (|v| < 2^22): every coordinate and every net
        // span fits an int with a wide margin, the TOTAL wirelength passes 2^31 (the optimiser's values are long long in the code).
        // (Pads at +-1.2e9 were tried first: lemon's NetworkSimplex<int,int> then cycles for ever in runShiftsOnCells -- int overflow of
        // its reduced costs; far outside the magnitude range of C07, recorded as an observation in DESIGN.md section 10.4.)
        int n0 = (int)t.cells.size(); int npads = (int)g.uni(2, 3); int first = (int)t.cells.size();
        for (int k = 0; k < npads; ++k) { long long x = (k % 2 ? 1 : -1) * (3900000LL + g.uni(0, 100000)); t.cells.push_back({x, g.uni(-50, 50), 1, 1, 0, 0, 1, 0}); }
        int nn = (int)g.uni(600, 800);
        for (int k = 0; k < nn && n0 > 0; ++k) { int c = (int)g.uni(0, n0 - 1); t.nets.push_back({{c, 0, 0}, {first + (int)g.uni(0, npads - 1), 0, 0}}); t.netw2.push_back(genNetW2(g, o, 2)); }
      }
      int n = (int)t.cells.size(); int nops = (int)g.uni(npre ? 0 : 1, npre ? 5 : 8);
      printf("DO %s %s %d%s", showRowsCells(t).c_str(), showNets(t).c_str(), nops + npre, pre.c_str());
      for (int k = 0; k < nops; ++k) {
        int ty = (int)g.uni(0, 11); if (ty > 8) ty = (int)g.uni(0, 2);
        if ((big == 2 || big == 3) && (ty == 5 || ty == 7)) ty += 1;   // designed 2^31 circuits (up to 1300 nets): no shift pass, one record of it costs the model up to 20 s
        if (ty == 0) { int kk = (int)g.uni(1, 4); printf(" 0 %d %d", (int)g.uni(0, 40), kk); for (int j = 0; j < kk; ++j) printf(" %d", (int)g.uni(0, 40)); }
        else if (ty == 1) { int kk = (int)g.uni(1, 4); printf(" 1 %d %d %d", (int)g.uni(0, 40), (int)g.uni(0, 10), kk); for (int j = 0; j < kk; ++j) printf(" %d", (int)g.uni(-1, 40)); }
        else if (ty == 2) printf(" 2 %d %d %d", (int)g.uni(0, 40), (int)g.uni(0, 40), (int)g.uni(0, 4));
        else if (ty <= 6) printf(" %d %d %d", ty, (int)g.uni(ty == 6 ? 1 : 0, 4) /* reorderingNbRows > 0 as the parameter check demands */, (int)g.uni(ty == 5 ? 2 : 0, ty == 5 ? 12 : ty == 6 ? 4 : 5));   // runShifts: maxNbCells >= 2 as DetailedPlacer::run() guarantees (0 would not terminate)
        else { int kk = (int)g.uni(1, ty == 8 ? 4 : 8); printf(" %d %d", ty, kk); for (int j = 0; j < kk; ++j) printf(" %d", (int)g.uni(0, 40)); }
      }
      printf("\n");
    }
    return 0;
  }
  vh_install(); vh_silence();
  std::string line;
  while (std::getline(std::cin, line)) {
    if (line.size() < 3) { printf("\n"); continue; }
    IntReader r; r.v = vh_ints(line.substr(3));
    if (sigsetjmp(vh_jmp, 1)) { printf(" / %s\n", vh_signame()); fflush(stdout); continue; }
    try {
      TCircuit t = readRowsCells(r); readNets(r, t);
      Circuit c = buildCircuit(t);
      ColoquinteParameters p(3);
      try { c.legalize(p); } catch (std::exception &e) { printf("NOLEG\n"); continue; }
      DetailedPlacer pl(c, p);
      LpScope lpScope(&pl);
      auto &dp = pl.placement_;
      std::vector<int> opt; for (int i = 0; i < dp.nbCells(); ++i) if (!dp.isIgnored(i) && dp.isPlaced(i)) opt.push_back(i);
      printf("INIT %lld ;%s", pl.value(), statePl(pl, c).c_str());
      int nops = (int)r.nx();
      auto cellOf = [&](long long v) { return opt.empty() ? -1 : opt[(size_t)(v % (long long)opt.size())]; };
      for (int k = 0; k < nops; ++k) {
        int ty = (int)r.nx();
        g_lp.clear(); lpSnap();
        try {
          if (ty == 0 || ty == 1 || ty == 2) {
            std::vector<int> cands; int cc, row = -1;
            std::ostringstream cs;
            if (ty == 0) {
              cc = cellOf(r.nx()); int kk = (int)r.nx(); for (int j = 0; j < kk; ++j) cands.push_back(cellOf(r.nx()));
              if (cc < 0) { printf(" / SKIP"); continue; }
              for (int cand : cands) { if (dp.canSwap(cc, cand)) { auto pp = dp.positionsOnSwap(cc, cand); cs << " 1 2 " << cc << " " << pp.first.x << " " << pp.first.y << " " << cand << " " << pp.second.x << " " << pp.second.y; } else cs << " 0"; }
              bool f = pl.bestSwap(cc, cands);
              printf(" / B %d ; %zu%s", (int)f, cands.size(), cs.str().c_str());
            } else if (ty == 1) {
              cc = cellOf(r.nx()); row = (int)(r.nx() % std::max(1, dp.nbRows())); int kk = (int)r.nx();
              for (int j = 0; j < kk; ++j) { long long v = r.nx(); int cand = v < 0 ? -1 : cellOf(v); if (cand != -1 && dp.cellRow(cand) != row) cand = -1; cands.push_back(cand); }
              if (cc < 0 || dp.nbRows() == 0) { printf(" / SKIP"); continue; }
              for (int cand : cands) { if (dp.canInsert(cc, row, cand)) { auto pp = dp.positionOnInsert(cc, row, cand); cs << " 1 1 " << cc << " " << pp.x << " " << pp.y; } else cs << " 0"; }
              bool f = pl.bestInsert(cc, row, cands);
              printf(" / B %d ; %zu%s", (int)f, cands.size(), cs.str().c_str());
            } else {
              cc = cellOf(r.nx()); int from = cellOf(r.nx()); int nb = (int)r.nx();
              if (cc < 0) { printf(" / SKIP"); continue; }
              int ncand = 0;
              for (int cand = from, cnt = 0; cand != -1 && cnt < nb; cand = dp.cellNext(cand), ++cnt) { ++ncand; if (dp.canSwap(cc, cand)) { auto pp = dp.positionsOnSwap(cc, cand); cs << " 1 2 " << cc << " " << pp.first.x << " " << pp.first.y << " " << cand << " " << pp.second.x << " " << pp.second.y; } else cs << " 0"; }
              for (int cand = from, cnt = 0; cand != -1 && cnt < nb; cand = dp.cellPred(cand), ++cnt) { ++ncand; if (dp.canSwap(cc, cand)) { auto pp = dp.positionsOnSwap(cc, cand); cs << " 1 2 " << cc << " " << pp.first.x << " " << pp.first.y << " " << cand << " " << pp.second.x << " " << pp.second.y; } else cs << " 0"; }
              int c2 = cc, f2 = from; bool f = pl.bestSwapUpdate(c2, f2, nb);
              printf(" / B %d ; %d%s", (int)f, ncand, cs.str().c_str());
            }
          } else if (ty <= 6) {
            int a = (int)r.nx(), b = (int)r.nx();
            if (ty == 3) pl.runSwaps(a, b); else if (ty == 4) pl.runInserts(a, b); else if (ty == 5) pl.runShifts(a, b); else pl.runReordering(a, b);
            printf(" / P");
          } else {
            int kk = (int)r.nx(); std::vector<int> cells; std::unordered_set<int> seen;
            for (int j = 0; j < kk; ++j) { int cc = cellOf(r.nx()); if (cc >= 0 && seen.insert(cc).second) cells.push_back(cc); }
            if (ty == 7) {
              std::string before = rowsDump(dp);
              pl.runShiftsOnCells(cells);
              printf(" / S %s | %zu", before.c_str(), cells.size()); for (int cc : cells) printf(" %d %d", cc, dp.cellX(cc));
            } else {
              // "P xvalue yvalue [nleaves nregions]": both model values; the leaf / region counts when /repo has the reordering hook
              g_reLeaves = -1; pl.runReorderingOnCells(cells);
              printf(" / P %lld %lld", (long long)pl.xtopo_.value(), (long long)pl.ytopo_.value());
              if (g_reLeaves >= 0) printf(" %lld %d", g_reLeaves, g_reRegions);
            }
          }
          printf(" ; %lld ;%s ; %s", pl.value(), statePl(pl, c).c_str(), chk(pl).c_str());
          for (const std::string &rec : g_lp) printf(" / L %s", rec.c_str());
        } catch (std::exception &e) { printf(" / THROW %s", e.what()); break; }
      }
      printf("\n");
    } catch (std::exception &ex) { printf(" / THROW-OUTER %s\n", ex.what()); }
    fflush(stdout);   // one complete line per case: a hang is then attributed to the case that hangs
  }
  return 0;
}
