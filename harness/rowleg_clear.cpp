// Tie of the review-gap model extension ReviewGaps2C12Model.v: RowLegalizer histories with clear() and
// lastAvailablePos() (compiled from /repo's working tree).
//   rowleg_clear gen rand SEED COUNT   -> case lines
//   rowleg_clear run < cases           -> "pl | outs" per case (format of ocaml/driver_gaps2.ml)
// case line: "RC b e n (k w t)*"   k=0 push, k=1 getCost, k=2 clear(), k=3 lastAvailablePos()
// lastAvailablePos() on a legalizer without cell calls back() on an empty vector (undefined behaviour): the
// harness does not make that call and prints "L none", which is what the model answers there.
#include "vh.hpp"
#include <queue>
#define private public
#include "place_detailed/row_legalizer.hpp"
#undef private
using namespace coloquinte;

int main(int argc, char **argv) {
  std::string mode = argc > 1 ? argv[1] : "run";
  if (mode == "gen") {
    SplitMix g(strtoull(argv[3], nullptr, 10)); long long count = atoll(argv[4]);
    for (long long it = 0; it < count; ++it) {
      long long scale = g.coin(60) ? 1 : (1LL << g.uni(4, 16));
      long long b = g.uni(-4, 4) * scale, len = g.uni(1, 30) * scale, e = b + len;
      int n = (int)g.uni(1, 24);
      long long rem = len; std::vector<long long> w, t; std::vector<int> k;
      auto add = [&](int kk, long long ww, long long tt) { k.push_back(kk); w.push_back(ww); t.push_back(tt); };
      for (int i = 0; i < n; ++i) {
        int c = (int)g.uni(0, 99);
        if (c < 12) { add(2, 0, 0); rem = len; }                       // clear()
        else if (c < 30) add(3, 0, 0);                                  // lastAvailablePos()
        else if (rem > 0) {
          long long wi = g.uni(1, std::min(rem, std::max(1LL, len / 3)));
          long long ti = g.coin(70) ? g.uni(b, e) : g.uni(b - 3 * scale, e + 3 * scale);
          if (g.coin(40)) add(1, wi, g.coin(50) ? ti : g.uni(b - scale, e + scale));   // prediction
          add(0, wi, ti); rem -= wi;
        } else add(3, 0, 0);                                           // full row: nothing fits any more (no query of a cell that does not fit)
      }
      printf("RC %lld %lld %zu", b, e, k.size());
      for (size_t i = 0; i < k.size(); ++i) printf(" %d %lld %lld", k[i], w[i], t[i]);
      printf("\n");
    }
    return 0;
  }
  vh_install();
  char *line = nullptr; size_t cap = 0;
  while (getline(&line, &cap, stdin) > 0) {
    std::vector<long long> v; char tag[16] = {0}; int off = 0;
    if (sscanf(line, "%15s%n", tag, &off) != 1) { printf("\n"); continue; }
    for (char *p = line + off;;) { char *q; long long x = strtoll(p, &q, 10); if (p == q) break; v.push_back(x); p = q; }
    if (std::string(tag) != "RC" || v.size() < 3 || v.size() != 3 + 3 * (size_t)v[2]) { printf("?SHORT\n"); continue; }
    if (sigsetjmp(vh_jmp, 1)) { printf("CRASH %s\n", vh_signame()); continue; }
    try {
      RowLegalizer leg((int)v[0], (int)v[1]);
      std::string outs;
      for (long long i = 0; i < v[2]; ++i) {
        int k = (int)v[3 + 3 * i]; int w = (int)v[4 + 3 * i], t = (int)v[5 + 3 * i];
        if (!outs.empty()) outs += " ; ";
        if (k == 0) { outs += std::to_string(leg.push(w, t)); }
        else if (k == 1) { outs += std::to_string(leg.getCost(w, t)); }
        else if (k == 2) { leg.clear(); outs += "C"; }
        else { if (leg.constrainingPos_.empty()) outs += "L none"; else outs += "L " + std::to_string(leg.lastAvailablePos()); }
      }
      std::string pl; for (int x : leg.getPlacement()) { if (!pl.empty()) pl += " "; pl += std::to_string(x); }
      printf("%s | %s\n", pl.c_str(), outs.c_str());
    } catch (const std::exception &ex) { printf("THROW %s\n", ex.what()); }
  }
  return 0;
}
